(** Proofs about the Writer / Reader state machines of [Codec.Buf]. *)
From Coq Require Import List NArith ZArith Lia Bool.
From Coq Require Import ZifyN ZifyNat ZifyBool.
From Vivid Require Import Codec.Prim Codec.PrimProofs Codec.Prim2 Codec.Prim2Proofs Codec.PrimO
                          Codec.Reflect Codec.ReflectProofs Codec.ReflectO Codec.ReflectOProofs Codec.Buf.
Import ListNotations.
Local Open Scope N_scope.

(** * induction over operations (nested through the body of a registered message) *)
Section WopInd.
  Variable P : wop -> Prop.
  Hypothesis Hprim : forall b v, P (WPrim b v).
  Hypothesis Hvarint : forall z, P (WVarint z).
  Hypothesis Huvarint : forall n, P (WUvarint n).
  Hypothesis Hbytes : forall bs, P (WBytes bs).
  Hypothesis Hbyteslen : forall size bs, P (WBytesLen size bs).
  Hypothesis Hshort : forall s, P (WShort s).
  Hypothesis Hwrite : forall ty v, P (WWrite ty v).
  Hypothesis Hwritefrom : forall l, P (WWriteFrom l).
  Hypothesis Hreset : P WReset.
  Hypothesis Hreg : forall name body ret, Forall P body -> P (WMsgReg name body ret).
  Hypothesis Hout : forall enc, P (WMsgOut enc).
  Fixpoint wop_ind' (op : wop) : P op :=
    match op with
    | WPrim b v => Hprim b v
    | WVarint z => Hvarint z
    | WUvarint n => Huvarint n
    | WBytes bs => Hbytes bs
    | WBytesLen size bs => Hbyteslen size bs
    | WShort s => Hshort s
    | WWrite ty v => Hwrite ty v
    | WWriteFrom l => Hwritefrom l
    | WReset => Hreset
    | WMsgReg name body ret =>
        Hreg name body ret ((fix go (l : list wop) : Forall P l :=
                               match l with [] => Forall_nil _ | x :: r => Forall_cons x (wop_ind' x) (go r) end) body)
    | WMsgOut enc => Hout enc
    end.
End WopInd.

(** the inner fixpoints are the named functions *)
Lemma run_wop_reg name body ret w p :
  run_wop (WMsgReg name body ret) w p =
  let o := w_ord w in
  let start := length (w_buf w) in
  let '((id, dw), p1) := get_writer_opt None p in
  let '(dw', p2, r) := run_wbody body dw p1 in
  let r' := match r with Some _ => r | None => ret_err ret dw' end in
  let p3 := wput (id, dw') p2 in
  match r' with
  | Some e => (w_trunc start w, p3, Some e)
  | None =>
      let w1 := emits [put_u32O o (wlen dw'); w_buf dw'] w in
      match w_err w1 with
      | Some e => (w_trunc start w1, p3, Some (XE e))
      | None =>
          let w2 := emits [put_u32O o (N.of_nat (length name)); name] w1 in
          match w_err w2 with
          | Some e => (w_trunc start w2, p3, Some (XE e))
          | None => (w2, p3, None)
          end
      end
  end.
Proof. reflexivity. Qed.
Lemma run_wbody_cons x rest dw p :
  run_wbody (x :: rest) dw p =
  let '(dw1, p1, e) := run_wop x dw p in
  match e with Some _ => (dw1, p1, e) | None => run_wbody rest dw1 p1 end.
Proof. reflexivity. Qed.
Lemma spec_wop_reg o name body ret a :
  spec_wop o (WMsgReg name body ret) a =
  let '(d, r) := spec_wbody body ([], None) in
  let r' := match r with
            | Some _ => r
            | None => match ret with
                      | RetSticky => option_map XE (snd d)
                      | RetNil => None
                      | RetErr => Some XScript
                      | RetPanic => Some XRecovered
                      end
            end in
  match r' with
  | Some e => (a, Some e)
  | None => match snd a with
            | Some e => (a, Some (XE e))
            | None => (aw_emit (put_lp4O o (fst d) ++ put_lp4O o name) a, None)
            end
  end.
Proof. reflexivity. Qed.
Lemma spec_wbody_cons x rest d :
  spec_wbody (x :: rest) d =
  let '(d1, e) := spec_wop BE x d in
  match e with Some _ => (d1, e) | None => spec_wbody rest d1 end.
Proof. reflexivity. Qed.

(** * the buffer: capacity invariant and growth *)
Definition w_ok (w : writer) : Prop := wlen w <= w_cap w.

Lemma ensure_buf n w : w_buf (ensure n w) = w_buf w /\ w_err (ensure n w) = w_err w /\ w_ord (ensure n w) = w_ord w.
Proof. unfold ensure. destruct (w_err w) eqn:E; [auto|]. destruct (_ <? _); cbn; auto. Qed.
(** after ensureCapacity(n) there is room for n bytes: append never reallocates *)
Lemma ensure_room n w : w_ok w -> w_err w = None -> wlen (ensure n w) + n <= w_cap (ensure n w).
Proof.
  unfold w_ok, ensure, wlen. intros Hok ->. destruct (w_cap w - N.of_nat (length (w_buf w)) <? n) eqn:E; cbn [w_buf w_cap].
  - destruct (2 * w_cap w <? w_cap w + n) eqn:E1; [destruct (w_cap w + n <? n) eqn:E2|destruct (2 * w_cap w <? n) eqn:E2]; lia.
  - lia.
Qed.
Lemma ensure_cap_mono n w : w_cap w <= w_cap (ensure n w).
Proof.
  unfold ensure. destruct (w_err w); [lia|]. destruct (_ <? _); cbn [w_cap]; [|lia].
  destruct (2 * w_cap w <? w_cap w + n) eqn:E1; [destruct (w_cap w + n <? n) eqn:E2|destruct (2 * w_cap w <? n) eqn:E2]; lia.
Qed.
(** a reallocation at most doubles what is needed *)
Lemma ensure_cap_bound n w : w_ok w -> w_cap (ensure n w) <= N.max (w_cap w) (2 * (wlen w + n)).
Proof.
  unfold w_ok, ensure, wlen. intros Hok. destruct (w_err w); [lia|].
  destruct (w_cap w - N.of_nat (length (w_buf w)) <? n) eqn:E; cbn [w_cap]; [|lia].
  destruct (2 * w_cap w <? w_cap w + n) eqn:E1; [destruct (w_cap w + n <? n) eqn:E2|destruct (2 * w_cap w <? n) eqn:E2]; lia.
Qed.

Lemma emit_err bs w e : w_err w = Some e -> emit bs w = w.
Proof. unfold emit. intros ->. reflexivity. Qed.

Lemma emit_spec bs w : w_ok w -> w_err w = None ->
  w_buf (emit bs w) = w_buf w ++ bs /\ w_err (emit bs w) = None /\ w_ord (emit bs w) = w_ord w
  /\ w_cap (emit bs w) = w_cap (ensure (N.of_nat (length bs)) w)          (* append did not reallocate *)
  /\ w_ok (emit bs w).
Proof.
  intros Hok He. unfold emit. rewrite He.
  pose proof (ensure_room (N.of_nat (length bs)) w Hok He) as Hr.
  destruct (ensure_buf (N.of_nat (length bs)) w) as (Hb & Hee & Ho).
  unfold app_raw, w_ok, wlen in *. cbn [w_buf w_cap w_err w_ord]. rewrite Hb, Hee, Ho, He in *.
  replace (_ <=? _) with true by lia. rewrite app_length. repeat split; auto. lia.
Qed.

Lemma emit_ok bs w : w_ok w -> w_ok (emit bs w).
Proof. intros H. destruct (w_err w) eqn:E; [rewrite (emit_err _ _ _ E); exact H|apply emit_spec; assumption]. Qed.
Lemma emit_ord bs w : w_ok w -> w_ord (emit bs w) = w_ord w.
Proof. intros H. destruct (w_err w) eqn:E; [rewrite (emit_err _ _ _ E); reflexivity|apply emit_spec; assumption]. Qed.
Lemma emit_abs bs w : w_ok w -> abs (emit bs w) = aw_emit bs (abs w).
Proof.
  intros H. unfold abs, aw_emit. cbn [fst snd]. destruct (w_err w) eqn:E.
  - rewrite (emit_err _ _ _ E), E. reflexivity.
  - destruct (emit_spec bs w H E) as (-> & -> & _). reflexivity.
Qed.
Lemma emit_cap_mono bs w : w_ok w -> w_cap w <= w_cap (emit bs w).
Proof.
  intros H. destruct (w_err w) eqn:E; [rewrite (emit_err _ _ _ E); lia|].
  destruct (emit_spec bs w H E) as (_ & _ & _ & -> & _). apply ensure_cap_mono.
Qed.
(** the capacity after a write is at most max(old capacity, 2 * new length) *)
Lemma emit_cap_bound bs w : w_ok w -> w_cap (emit bs w) <= N.max (w_cap w) (2 * wlen (emit bs w)).
Proof.
  intros H. destruct (w_err w) eqn:E; [rewrite (emit_err _ _ _ E); lia|].
  destruct (emit_spec bs w H E) as (Hb & _ & _ & Hc & _). rewrite Hc.
  pose proof (ensure_cap_bound (N.of_nat (length bs)) w H) as Hbd. unfold wlen in *. rewrite Hb, app_length. lia.
Qed.

Lemma emits_ok cs : forall w, w_ok w -> w_ok (emits cs w).
Proof. induction cs as [|c r IH]; intros w H; [exact H|]. cbn [emits fold_left]. apply IH, emit_ok, H. Qed.
Lemma emits_ord cs : forall w, w_ok w -> w_ord (emits cs w) = w_ord w.
Proof. induction cs as [|c r IH]; intros w H; [reflexivity|]. cbn [emits fold_left]. fold (emits r (emit c w)). rewrite IH by (apply emit_ok, H). apply emit_ord, H. Qed.
Lemma aw_emit_app a b x : aw_emit b (aw_emit a x) = aw_emit (a ++ b) x.
Proof. unfold aw_emit. destruct x as [bs [e|]]; cbn [fst snd]; [reflexivity|]. rewrite app_assoc. reflexivity. Qed.
Lemma aw_emit_nil x : aw_emit [] x = x.
Proof. unfold aw_emit. destruct x as [bs [e|]]; cbn [fst snd]; [reflexivity|]. rewrite app_nil_r. reflexivity. Qed.
Lemma emits_abs cs : forall w, w_ok w -> abs (emits cs w) = aw_emit (concat cs) (abs w).
Proof.
  induction cs as [|c r IH]; intros w H; cbn [emits fold_left concat]; [rewrite aw_emit_nil; reflexivity|].
  fold (emits r (emit c w)). rewrite IH by (apply emit_ok, H). rewrite emit_abs by exact H. apply aw_emit_app.
Qed.
Lemma emits_cap_mono cs : forall w, w_ok w -> w_cap w <= w_cap (emits cs w).
Proof.
  induction cs as [|c r IH]; intros w H; cbn [emits fold_left]; [lia|]. fold (emits r (emit c w)).
  pose proof (IH (emit c w) (emit_ok c w H)). pose proof (emit_cap_mono c w H). lia.
Qed.
Lemma wlen_emit_mono bs w : w_ok w -> wlen w <= wlen (emit bs w).
Proof.
  intros H. destruct (w_err w) eqn:E; [rewrite (emit_err _ _ _ E); lia|].
  destruct (emit_spec bs w H E) as (Hb & _). unfold wlen. rewrite Hb, app_length. lia.
Qed.
Lemma wlen_emits_mono cs : forall w, w_ok w -> wlen w <= wlen (emits cs w).
Proof.
  induction cs as [|c r IH]; intros w H; cbn [emits fold_left]; [lia|]. fold (emits r (emit c w)).
  pose proof (IH (emit c w) (emit_ok c w H)). pose proof (wlen_emit_mono c w H). lia.
Qed.
Lemma emits_cap_bound cs : forall w, w_ok w -> w_cap (emits cs w) <= N.max (w_cap w) (2 * wlen (emits cs w)).
Proof.
  induction cs as [|c r IH]; intros w H; cbn [emits fold_left]; [lia|]. fold (emits r (emit c w)).
  pose proof (IH (emit c w) (emit_ok c w H)). pose proof (emit_cap_bound c w H).
  pose proof (wlen_emits_mono r (emit c w) (emit_ok c w H)). lia.
Qed.

Lemma set_err_abs e w : abs (set_err e w) = aw_err e (abs w).
Proof. unfold set_err, abs, aw_err. cbn [fst snd]. destruct (w_err w) eqn:E; cbn [w_buf w_err]; rewrite ?E; reflexivity. Qed.
Lemma set_err_ok e w : w_ok w -> w_ok (set_err e w).
Proof. unfold set_err, w_ok, wlen. destruct (w_err w); auto. Qed.
Lemma set_err_ord e w : w_ord (set_err e w) = w_ord w.
Proof. unfold set_err. destruct (w_err w); reflexivity. Qed.
Lemma set_err_cap e w : w_cap (set_err e w) = w_cap w.
Proof. unfold set_err. destruct (w_err w); reflexivity. Qed.
Lemma set_err_len e w : wlen (set_err e w) = wlen w.
Proof. unfold set_err, wlen. destruct (w_err w); reflexivity. Qed.

Lemma apply_wres_abs r w : w_ok w -> abs (apply_wres r w) = aw_res r (abs w).
Proof.
  intros H. unfold apply_wres, aw_res, flat. destruct (snd r); try apply emits_abs; try exact H.
  rewrite set_err_abs, emits_abs by exact H. reflexivity.
Qed.
Lemma apply_wres_ok r w : w_ok w -> w_ok (apply_wres r w).
Proof. intros H. unfold apply_wres. destruct (snd r); try apply emits_ok; try exact H. apply set_err_ok, emits_ok, H. Qed.
Lemma apply_wres_ord r w : w_ok w -> w_ord (apply_wres r w) = w_ord w.
Proof. intros H. unfold apply_wres. destruct (snd r); try apply emits_ord; try exact H. rewrite set_err_ord. apply emits_ord, H. Qed.
Lemma apply_wres_cap r w : w_ok w ->
  w_cap w <= w_cap (apply_wres r w) <= N.max (w_cap w) (2 * wlen (apply_wres r w)).
Proof.
  intros H. unfold apply_wres. pose proof (emits_cap_mono (fst r) w H). pose proof (emits_cap_bound (fst r) w H).
  destruct (snd r); try lia. rewrite set_err_cap, set_err_len. lia.
Qed.

(** WriteBytesWithLength *)
Lemma w_byteslen_abs size bs w : w_ok w -> abs (w_byteslen size bs w) = aw_byteslen (w_ord w) size bs (abs w).
Proof.
  intros H. unfold w_byteslen, aw_byteslen. cbn [abs snd]. destruct (w_err w) eqn:E; [reflexivity|].
  assert (Ha : snd (abs w) = None) by exact E.
  unfold put_lpkO, put_lpO, put_lp4O, put_u32O.
  destruct size as [|q|q]; try (rewrite set_err_abs; reflexivity).
  destruct q as [[[|[]|]|[[]|[]|]|]|[[|[]|]|[[]|[]|]|]|]; try (rewrite set_err_abs; reflexivity).
  - (* 4 *) rewrite emits_abs by exact H. cbn [concat]. rewrite app_nil_r. reflexivity.
  - (* 2 *) change (256 ^ N.of_nat 2) with 65536.
    destruct (65535 <? N.of_nat (length bs)) eqn:E2.
    + replace (N.of_nat (length bs) <? 65536) with false by lia. rewrite set_err_abs. reflexivity.
    + replace (N.of_nat (length bs) <? 65536) with true by lia. rewrite emits_abs by exact H. cbn [concat]. rewrite app_nil_r. reflexivity.
  - (* 1 *) change (256 ^ N.of_nat 1) with 256.
    destruct (255 <? N.of_nat (length bs)) eqn:E2.
    + replace (N.of_nat (length bs) <? 256) with false by lia. rewrite set_err_abs. reflexivity.
    + replace (N.of_nat (length bs) <? 256) with true by lia. rewrite emits_abs by exact H. cbn [concat]. rewrite app_nil_r. reflexivity.
Qed.
Lemma w_byteslen_inv size bs w : w_ok w ->
  w_ok (w_byteslen size bs w) /\ w_ord (w_byteslen size bs w) = w_ord w /\
  w_cap w <= w_cap (w_byteslen size bs w) <= N.max (w_cap w) (2 * wlen (w_byteslen size bs w)).
Proof.
  intros H. unfold w_byteslen. destruct (w_err w) eqn:E; [repeat split; auto; lia|].
  assert (Hs : forall e, w_ok (set_err e w) /\ w_ord (set_err e w) = w_ord w /\ w_cap w <= w_cap (set_err e w) <= N.max (w_cap w) (2 * wlen (set_err e w))).
  { intros e. rewrite set_err_cap, set_err_ord. repeat split; auto; try lia. apply set_err_ok, H. }
  assert (He : forall cs, w_ok (emits cs w) /\ w_ord (emits cs w) = w_ord w /\ w_cap w <= w_cap (emits cs w) <= N.max (w_cap w) (2 * wlen (emits cs w))).
  { intros cs. repeat split; [apply emits_ok, H|apply emits_ord, H|apply emits_cap_mono, H|apply emits_cap_bound, H]. }
  destruct size as [|q|q]; try apply Hs.
  destruct q as [[[|[]|]|[[]|[]|]|]|[[|[]|]|[[]|[]|]|]|]; try apply Hs; try apply He.
  - destruct (65535 <? _); [apply Hs|apply He].
  - destruct (255 <? _); [apply Hs|apply He].
Qed.

(** the plain operations refine the abstract Writer *)
Lemma plain_wop_abs op w : w_ok w -> abs (plain_wop op w) = spec_plain (w_ord w) op (abs w).
Proof.
  intros H. destruct op; cbn [plain_wop spec_plain]; try reflexivity;
    try (apply apply_wres_abs; exact H); try (apply emit_abs; exact H); try (apply w_byteslen_abs; exact H).
Qed.
Lemma plain_wop_inv op w : w_ok w -> w_ok (plain_wop op w) /\ w_ord (plain_wop op w) = w_ord w.
Proof.
  intros H. destruct op; cbn [plain_wop]; try (split; [exact H|reflexivity]);
    try (split; [apply apply_wres_ok|apply apply_wres_ord]; exact H);
    try (split; [apply emit_ok|apply emit_ord]; exact H);
    try (destruct (w_byteslen_inv size bs w H) as (? & ? & _); split; assumption);
    try (destruct (w_byteslen_inv 1 s w H) as (? & ? & _); split; assumption).
  unfold w_reset, w_ok, wlen. cbn. split; [lia|reflexivity].
Qed.

(** * the pool *)
Lemma w_clean_spec w : w_clean w = true <-> w_buf w = [] /\ w_err w = None.
Proof.
  unfold w_clean. destruct (w_buf w), (w_err w); split; try discriminate; auto;
    intros (H1 & H2); try discriminate H1; try discriminate H2.
Qed.
Lemma w_clean_ok w : w_clean w = true -> w_ok w.
Proof. intros H. apply w_clean_spec in H as (H & _). unfold w_ok, wlen. rewrite H. cbn. lia. Qed.
Lemma new_writer_clean : w_clean new_writer = true.
Proof. reflexivity. Qed.
Lemma w_reset_clean w : w_clean (w_reset w) = true.
Proof. reflexivity. Qed.

Lemma take_id_forallb {A} (f : N * A -> bool) k l x rest :
  take_id k l = Some (x, rest) -> forallb f l = true -> f (k, x) = true /\ forallb f rest = true.
Proof.
  revert x rest. induction l as [|[i w] r IH]; intros x rest; cbn [take_id forallb]; [discriminate|].
  destruct (i =? k) eqn:E.
  - apply N.eqb_eq in E. subst i. intros [= <- <-] H. apply andb_prop in H as [H1 H2]. auto.
  - destruct (take_id k r) as [[y r']|]; [|discriminate]. intros [= <- <-] H. apply andb_prop in H as [H1 H2].
    destruct (IH y r' eq_refl H2) as [H3 H4]. cbn [forallb]. rewrite H1, H4. auto.
Qed.

Lemma wget_clean p id dw p1 : wpool_clean p = true -> wget p = ((id, dw), p1) ->
  w_clean dw = true /\ wpool_clean p1 = true.
Proof.
  unfold wget, wpool_clean. intros Hc. destruct (wp_keys p) as [|k ks].
  - intros [= <- <- <-]. cbn. auto.
  - destruct (take_id k (wp_free p)) as [[w rest]|] eqn:E.
    + intros [= <- <- <-]. cbn [wp_free]. destruct (take_id_forallb _ _ _ _ _ E Hc) as [H1 H2]. auto.
    + intros [= <- <- <-]. cbn. auto.
Qed.
Lemma wput_clean id dw p : wpool_clean p = true -> wpool_clean (wput (id, dw) p) = true.
Proof. unfold wput, wpool_clean. intros Hc. cbn [wp_free forallb fst snd]. rewrite w_reset_clean. exact Hc. Qed.
(** NewWriterFromPool(opts) on a clean pool: an empty, error-free Writer of the requested (default: big-endian) order,
    whatever the pool's history *)
Lemma get_writer_clean ord p id dw p1 : wpool_clean p = true -> get_writer_opt ord p = ((id, dw), p1) ->
  w_buf dw = [] /\ w_err dw = None /\ w_ord dw = match ord with Some o => o | None => BE end /\ wpool_clean p1 = true.
Proof.
  unfold get_writer_opt. intros Hc. destruct (wget p) as [[i w] p0] eqn:E. destruct (wget_clean p i w p0 Hc E) as [Hw Hp].
  apply w_clean_spec in Hw as (H1 & H2). intros [= <- <- <-]. cbn [w_buf w_err w_ord]. auto.
Qed.

Lemma w_trunc_self w : abs (w_trunc (length (w_buf w)) w) = abs w.
Proof. unfold w_trunc, abs. cbn [w_buf w_err]. rewrite firstn_all. reflexivity. Qed.

Lemma w_trunc_ok w : w_ok w -> w_ok (w_trunc (length (w_buf w)) w).
Proof. unfold w_ok, wlen, w_trunc. cbn [w_buf w_cap]. rewrite firstn_all. auto. Qed.

(** * the refinement: Writer with pool and capacity  -->  abstract Writer *)
Definition refines (op : wop) : Prop :=
  forall w p w' p' e, w_ok w -> wpool_clean p = true -> run_wop op w p = (w', p', e) ->
    (abs w', e) = spec_wop (w_ord w) op (abs w) /\ wpool_clean p' = true /\ w_ord w' = w_ord w /\ w_ok w'.

Lemma run_wbody_spec body : Forall refines body ->
  forall dw p dw' p' e, w_ok dw -> wpool_clean p = true -> w_ord dw = BE -> run_wbody body dw p = (dw', p', e) ->
    (abs dw', e) = spec_wbody body (abs dw) /\ wpool_clean p' = true /\ w_ord dw' = BE /\ w_ok dw'.
Proof.
  induction 1 as [|x rest Hx Hr IH]; intros dw p dw' p' e Hok Hc Ho.
  - intros [= <- <- <-]. auto.
  - rewrite run_wbody_cons, spec_wbody_cons. destruct (run_wop x dw p) as [[dw1 p1] e1] eqn:E1.
    destruct (Hx dw p dw1 p1 e1 Hok Hc E1) as (Hs & Hc1 & Ho1 & Hok1). rewrite Ho in Hs, Ho1. rewrite <- Hs.
    destruct e1.
    + intros [= <- <- <-]. auto.
    + apply IH; auto.
Qed.

Lemma emits_none cs w : w_ok w -> w_err w = None -> w_err (emits cs w) = None.
Proof.
  intros Hok He. pose proof (emits_abs cs w Hok) as H. unfold abs, aw_emit in H. cbn [fst snd] in H. rewrite He in H.
  injection H as _ H. exact H.
Qed.
Lemma emits_err cs w e : w_err w = Some e -> emits cs w = w.
Proof. intros He. induction cs as [|c r IH]; [reflexivity|]. cbn [emits fold_left]. rewrite (emit_err _ _ _ He). exact IH. Qed.

Definition is_plain (op : wop) : bool := match op with WMsgReg _ _ _ | WMsgOut _ => false | _ => true end.
Lemma run_wop_plain op w p : is_plain op = true -> run_wop op w p = (plain_wop op w, p, None).
Proof. destruct op; try discriminate; reflexivity. Qed.
Lemma spec_wop_plain o op a : is_plain op = true -> spec_wop o op a = (spec_plain o op a, None).
Proof. destruct op; try discriminate; reflexivity. Qed.

Lemma frame_emit (w : writer) a b c d : w_ok w -> w_err w = None ->
  abs (emits [c; d] (emits [a; b] w)) = aw_emit ((a ++ b) ++ (c ++ d)) (abs w)
  /\ w_ord (emits [c; d] (emits [a; b] w)) = w_ord w /\ w_ok (emits [c; d] (emits [a; b] w)).
Proof.
  intros Hok Ew. rewrite !emits_abs by (try apply emits_ok; exact Hok). rewrite aw_emit_app. cbn [concat]. rewrite !app_nil_r.
  split; [reflexivity|]. split; [rewrite !emits_ord by (try apply emits_ok; exact Hok); reflexivity|apply emits_ok, emits_ok, Hok].
Qed.

Theorem run_wop_refines op : refines op.
Proof.
  unfold refines. induction op as [b v|z|n|bs|size bs|s|ty v|l| |name body ret IH|enc] using wop_ind'; intros w p w' p' e Hok Hc.
  1-9: rewrite run_wop_plain, spec_wop_plain by reflexivity;
       match goal with Hk : w_ok ?w0 |- (plain_wop ?op ?w0, _, None) = _ -> _ =>
         pose proof (plain_wop_abs op w0 Hk) as Ha; destruct (plain_wop_inv op w0 Hk) as [H1 H2] end;
       intros [= <- <- <-]; (split; [f_equal; exact Ha|]); (split; [exact Hc|]); (split; [exact H2|exact H1]).
  - (* a registered message *)
    rewrite run_wop_reg, spec_wop_reg. cbv zeta.
    destruct (get_writer_opt None p) as [[id dw] p1] eqn:Eg. destruct (get_writer_clean None p id dw p1 Hc Eg) as (Hb0 & He0 & Ho0 & Hc1).
    destruct (run_wbody body dw p1) as [[dw' p2] r] eqn:Eb.
    assert (Hokdw : w_ok dw) by (unfold w_ok, wlen; rewrite Hb0; cbn; lia).
    destruct (run_wbody_spec body IH dw p1 dw' p2 r Hokdw Hc1 Ho0 Eb) as (Hs & Hc2 & Ho2 & Hok2).
    assert (Hadw : abs dw = ([], None)) by (unfold abs; rewrite Hb0, He0; reflexivity).
    rewrite Hadw in Hs. rewrite <- Hs. cbn [snd fst abs].
    pose proof (wput_clean id dw' p2 Hc2) as Hc3.
    assert (Hret : ret_err ret dw' = match ret with RetSticky => option_map XE (w_err dw') | RetNil => None | RetErr => Some XScript | RetPanic => Some XRecovered end)
      by reflexivity.
    rewrite <- Hret.
    destruct (match r with Some _ => r | None => ret_err ret dw' end) as [x|].
    + intros [= <- <- <-]. rewrite w_trunc_self. repeat split; auto using w_trunc_ok.
    + destruct (w_err w) eqn:Ew.
      * rewrite (emits_err _ _ _ Ew), Ew. intros [= <- <- <-]. rewrite w_trunc_self. unfold abs. rewrite Ew. repeat split; auto using w_trunc_ok.
      * rewrite (emits_none _ _ Hok Ew).
        rewrite (emits_none _ _ (emits_ok _ _ Hok) (emits_none _ _ Hok Ew)).
        destruct (frame_emit w (put_u32O (w_ord w) (wlen dw')) (w_buf dw') (put_u32O (w_ord w) (N.of_nat (length name))) name Hok Ew) as (Ha & Hor & Hk).
        assert (Haw : snd (abs w) = None) by exact Ew. unfold aw_emit at 1. rewrite Haw.
        unfold aw_emit in Ha. rewrite Haw in Ha.
        intros [= <- <- <-]. split; [f_equal; exact Ha|]. split; [exact Hc3|]. split; [exact Hor|exact Hk].
  - (* an outside message *)
    cbn [run_wop spec_wop]. destruct enc as [[d|]|].
    + cbn [abs snd]. destruct (w_err w) eqn:Ew.
      * rewrite (emits_err _ _ _ Ew), Ew. intros [= <- <- <-]. rewrite w_trunc_self. unfold abs. rewrite Ew. repeat split; auto using w_trunc_ok.
      * rewrite (emits_none _ _ Hok Ew).
        rewrite (emits_none _ _ (emits_ok _ _ Hok) (emits_none _ _ Hok Ew)).
        destruct (frame_emit w (put_u32O (w_ord w) (N.of_nat (length d))) d (put_u32O (w_ord w) 0) [] Hok Ew) as (Ha & Hor & Hk).
        assert (Haw : snd (abs w) = None) by exact Ew. unfold aw_emit at 1. rewrite Haw.
        unfold aw_emit in Ha. rewrite Haw in Ha.
        intros [= <- <- <-]. split; [f_equal; exact Ha|]. split; [exact Hc|]. split; [exact Hor|exact Hk].
    + intros [= <- <- <-]. auto.
    + intros [= <- <- <-]. auto.
Qed.

(** sequences of operations *)
Theorem run_wops_refines ops : forall w p w' p' es, w_ok w -> wpool_clean p = true -> run_wops ops w p = (w', p', es) ->
  (abs w', es) = spec_wops (w_ord w) ops (abs w) /\ wpool_clean p' = true /\ w_ord w' = w_ord w /\ w_ok w'.
Proof.
  induction ops as [|x r IH]; intros w p w' p' es Hok Hc; cbn [run_wops spec_wops].
  - intros [= <- <- <-]. auto.
  - destruct (run_wop x w p) as [[w1 p1] e] eqn:E1. destruct (run_wop_refines x w p w1 p1 e Hok Hc E1) as (Hs & Hc1 & Ho1 & Hok1).
    rewrite <- Hs. destruct (run_wops r w1 p1) as [[w2 p2] es'] eqn:E2.
    destruct (IH w1 p1 w2 p2 es' Hok1 Hc1 E2) as (Hs2 & Hc2 & Ho2 & Hok2). rewrite Ho1 in Hs2. rewrite <- Hs2.
    intros [= <- <- <-]. rewrite Ho2, Ho1. auto.
Qed.

(** * consequences on the abstract Writer *)
(** the error is sticky: nothing but Reset changes a Writer in the error state; WriteMessage returns an error *)
Lemma spec_wop_sticky o op b e : op <> WReset -> fst (spec_wop o op (b, Some e)) = (b, Some e).
Proof.
  intros Hn. destruct op; try reflexivity; try contradiction.
  1-3: cbn [spec_wop spec_plain fst]; unfold aw_res, aw_emit, aw_err; cbn [fst snd];
       match goal with |- context [snd ?r] => destruct (snd r) end; reflexivity.
  - rewrite spec_wop_reg. destruct (spec_wbody body ([], None)) as [d r]. cbn [snd].
    destruct (match r with Some _ => r | None => _ end); reflexivity.
  - cbn [spec_wop]. destruct enc as [[d|]|]; reflexivity.
Qed.
Lemma spec_wop_sticky_msg o op b e : is_plain op = false -> exists x, snd (spec_wop o op (b, Some e)) = Some x.
Proof.
  destruct op; try discriminate; intros _.
  - rewrite spec_wop_reg. destruct (spec_wbody body ([], None)) as [d r]. cbn [snd].
    destruct (match r with Some _ => r | None => _ end); cbn [snd]; eauto.
  - cbn [spec_wop]. destruct enc as [[d|]|]; cbn [snd]; eauto.
Qed.

(** what an operation appends does not depend on what the Writer already holds *)
Definition enc_of (o : order) (op : wop) : aw * option xerr := spec_wop o op ([], None).
Lemma aw_emit_prefix b x : aw_emit x (b, None) = (b ++ x, None).
Proof. reflexivity. Qed.
Lemma aw_res_prefix r b : aw_res r (b, None) = (b ++ fst (aw_res r ([], None)), snd (aw_res r ([], None))).
Proof. unfold aw_res, aw_emit, aw_err. cbn [fst snd]. destruct (snd r); reflexivity. Qed.
Lemma spec_wop_prefix o op b : op <> WReset ->
  spec_wop o op (b, None) = ((b ++ fst (fst (enc_of o op)), snd (fst (enc_of o op))), snd (enc_of o op)).
Proof.
  intros Hn. unfold enc_of. destruct op; try contradiction.
  1,7,8: cbn [spec_wop spec_plain fst snd]; rewrite aw_res_prefix; reflexivity.
  1-3: cbn [spec_wop spec_plain fst snd aw_emit app]; reflexivity.
  1-2: cbn [spec_wop spec_plain fst snd]; unfold aw_byteslen; cbn [fst snd];
       match goal with |- context [put_lpkO ?o ?s ?x] => destruct (put_lpkO o s x) end; cbn [aw_emit aw_err fst snd app]; rewrite ?app_nil_r; reflexivity.
  - rewrite !spec_wop_reg. destruct (spec_wbody body ([], None)) as [d r]. cbn [snd fst].
    destruct (match r with Some _ => r | None => _ end); cbn [fst snd aw_emit app]; rewrite ?app_nil_r; reflexivity.
  - cbn [spec_wop]. destruct enc as [[d|]|]; cbn [fst snd aw_emit app]; rewrite ?app_nil_r; reflexivity.
Qed.

(** the frame of a nested message: 4-byte length of the body, the body exactly as a fresh big-endian Writer produces it,
    4-byte length of the name, the name — in the outer Writer's byte order, at every nesting depth *)
Theorem nested_frame o name body b d :
  spec_wbody body ([], None) = ((d, None), None) ->
  spec_wop o (WMsgReg name body RetSticky) (b, None) = ((b ++ put_lp4O o d ++ put_lp4O o name, None), None).
Proof. intros H. rewrite spec_wop_reg, H. reflexivity. Qed.
(** a failing body leaves the outer Writer untouched (WriteMessage's roll-back) *)
Theorem nested_rollback o name body ret a e :
  snd (spec_wop o (WMsgReg name body ret) a) = Some e -> fst (spec_wop o (WMsgReg name body ret) a) = a.
Proof.
  rewrite spec_wop_reg. destruct (spec_wbody body ([], None)) as [d r].
  destruct (match r with Some _ => r | None => _ end); cbn [fst snd]; [reflexivity|].
  destruct (snd a); cbn [fst snd]; [reflexivity|discriminate].
Qed.

(** * the capacity: never below the length, never shrinking, at most max(before, 2 * length after) per operation *)
Lemma w_trunc_cap n w : w_cap (w_trunc n w) = w_cap w. Proof. reflexivity. Qed.
Theorem run_wop_cap op w p w' p' e : w_ok w -> op <> WReset -> run_wop op w p = (w', p', e) ->
  w_cap w <= w_cap w' /\ w_cap w' <= N.max (w_cap w) (2 * wlen w') \/ (w_cap w' = w_cap w /\ e <> None).
Proof.
  intros Hok Hn. destruct op; try contradiction.
  1-8: rewrite run_wop_plain by reflexivity; intros [= <- <- <-]; left; cbn [plain_wop].
  - apply apply_wres_cap, Hok.
  - split; [apply emit_cap_mono|apply emit_cap_bound]; exact Hok.
  - split; [apply emit_cap_mono|apply emit_cap_bound]; exact Hok.
  - split; [apply emit_cap_mono|apply emit_cap_bound]; exact Hok.
  - apply (w_byteslen_inv size bs w Hok).
  - apply (w_byteslen_inv 1 s w Hok).
  - apply apply_wres_cap, Hok.
  - apply apply_wres_cap, Hok.
  - rewrite run_wop_reg. cbv zeta. destruct (get_writer_opt None p) as [[id dw] p1]. destruct (run_wbody body dw p1) as [[dw' p2] r].
    destruct (match r with Some _ => r | None => ret_err ret dw' end).
    + intros [= <- <- <-]. right. split; [reflexivity|discriminate].
    + set (w1 := emits _ w). destruct (w_err w1) eqn:E1.
      * intros [= <- <- <-]. right. rewrite w_trunc_cap.
        destruct (w_err w) eqn:Ew; [subst w1; rewrite (emits_err _ _ _ Ew); split; [reflexivity|discriminate]|].
        subst w1. rewrite (emits_none _ _ Hok Ew) in E1. discriminate.
      * set (w2 := emits _ w1). destruct (w_err w2) eqn:E2.
        -- intros [= <- <- <-]. exfalso. subst w2. rewrite (emits_none _ _ (emits_ok _ _ Hok) E1) in E2. discriminate.
        -- intros [= <- <- <-]. left. subst w2 w1.
           pose proof (emits_cap_mono [put_u32O (w_ord w) (wlen dw'); w_buf dw'] w Hok).
           pose proof (emits_cap_bound [put_u32O (w_ord w) (wlen dw'); w_buf dw'] w Hok).
           set (w1 := emits [put_u32O (w_ord w) (wlen dw'); w_buf dw'] w) in *.
           pose proof (emits_cap_mono [put_u32O (w_ord w) (N.of_nat (length name)); name] w1 (emits_ok _ _ Hok)).
           pose proof (emits_cap_bound [put_u32O (w_ord w) (N.of_nat (length name)); name] w1 (emits_ok _ _ Hok)).
           pose proof (wlen_emits_mono [put_u32O (w_ord w) (N.of_nat (length name)); name] w1 (emits_ok _ _ Hok)).
           lia.
  - cbn [run_wop]. destruct enc as [[d|]|].
    + set (w1 := emits _ w). destruct (w_err w1) eqn:E1.
      * intros [= <- <- <-]. right. rewrite w_trunc_cap.
        destruct (w_err w) eqn:Ew; [subst w1; rewrite (emits_err _ _ _ Ew); split; [reflexivity|discriminate]|].
        subst w1. rewrite (emits_none _ _ Hok Ew) in E1. discriminate.
      * set (w2 := emits _ w1). destruct (w_err w2) eqn:E2.
        -- intros [= <- <- <-]. exfalso. subst w2. rewrite (emits_none _ _ (emits_ok _ _ Hok) E1) in E2. discriminate.
        -- intros [= <- <- <-]. left. subst w2 w1.
           pose proof (emits_cap_mono [put_u32O (w_ord w) (N.of_nat (length d)); d] w Hok).
           pose proof (emits_cap_bound [put_u32O (w_ord w) (N.of_nat (length d)); d] w Hok).
           set (w1 := emits [put_u32O (w_ord w) (N.of_nat (length d)); d] w) in *.
           pose proof (emits_cap_mono [put_u32O (w_ord w) 0; []] w1 (emits_ok _ _ Hok)).
           pose proof (emits_cap_bound [put_u32O (w_ord w) 0; []] w1 (emits_ok _ _ Hok)).
           pose proof (wlen_emits_mono [put_u32O (w_ord w) 0; []] w1 (emits_ok _ _ Hok)).
           lia.
    + intros [= <- <- <-]. right. split; [reflexivity|discriminate].
    + intros [= <- <- <-]. right. split; [reflexivity|discriminate].
Qed.

(** * Reader *)
Definition r_ok (r : reader) : Prop := r_pos r <= rlen r.

Lemma rrem_length r : r_ok r -> N.of_nat (length (rrem r)) = rlen r - r_pos r.
Proof. unfold r_ok, rrem, rlen. intros H. rewrite skipn_length. lia. Qed.
(** Remaining() is the part of the buffer behind the position: b = (what was consumed) ++ Remaining() *)
Lemma rrem_suffix r : r_buf r = firstn (N.to_nat (r_pos r)) (r_buf r) ++ rrem r.
Proof. unfold rrem. symmetry. apply firstn_skipn. Qed.

(** a byte-level computation that consumes a prefix of its input (possibly empty) or fails having consumed
    no more than there is; its outcome is Ok or Err (no panic, no fuel, no ill-typed value) *)
Definition bounded {A} (bs : bytes) (m : MO (A * bytes)) : Prop :=
  (exists a t h, fst m = OOk (a, t) /\ bs = h ++ t /\ consumedO m = N.of_nat (length h))
  \/ (exists e, fst m = OErr e /\ consumedO m <= N.of_nat (length bs)).
Definition boundedS {A} (st : rst) (m : MO (A * rst)) : Prop :=
  (exists a st' h, fst m = OOk (a, st') /\ fst st = h ++ fst st' /\ consumedO m = N.of_nat (length h))
  \/ (exists e, fst m = OErr e /\ consumedO m <= N.of_nat (length (fst st))).
Lemma goodB_bounded {A} bs (m : MO (A * bytes)) : goodB bs m -> bounded bs m.
Proof. intros [(v & r & h & H1 & H2 & _ & H4 & _)|(e & H1 & H2 & _)]; [left; eauto 8|right; eauto]. Qed.
Lemma goodAt_boundedS {A} s st (m : MO (A * rst)) : goodAt s st m -> boundedS st m.
Proof. intros [(v & st' & h & H1 & H2 & _ & _ & H5)|(e & H1 & H2)]; [left; eauto 8|right; eauto]. Qed.

Lemma of_resO_bounded {A : Type} (bs : bytes) (r : Prim.res (A * bytes)%type) :
  (forall a t, r = Ok (a, t) -> exists h, bs = h ++ t) -> bounded bs (of_resO bs r).
Proof.
  intros H. destruct r as [[a t]|e]; cbn [of_resO].
  - destruct (H a t eq_refl) as [h ->]. left. exists a, t, h. unfold consumedO. cbn. rewrite app_length. repeat split; auto. lia.
  - right. exists e. unfold consumedO. cbn. split; [reflexivity|lia].
Qed.
Lemma rd_uvarint_suffix bs v t : rd_uvarint bs = Ok (v, t) -> exists h, bs = h ++ t.
Proof. unfold rd_uvarint. intros H. destruct (uv_dec_consumes bs 0 0 0 v t ltac:(lia) H) as (h & -> & _). eauto. Qed.
Lemma rd_varint_suffix bs v t : rd_varint bs = Ok (v, t) -> exists h, bs = h ++ t.
Proof.
  unfold rd_varint. destruct (rd_uvarint bs) as [[u t']|e] eqn:E; cbn [bind]; [|discriminate].
  intros [= _ <-]. eapply rd_uvarint_suffix; exact E.
Qed.

Lemma lpnO_bounded o k bs : (1 <= k)%nat -> bounded bs (lpnO o k bs).
Proof.
  intros Hk. unfold lpnO. unfold bounded. rewrite fst_bindO, consumed_bindO.
  destruct (fixedO_good o k (fun n => n) bs Hk) as [(n & t & h & H1 & -> & H3 & H4 & H5)|(e & H1 & H2 & H3)];
    rewrite H1; [|right; exists e; auto].
  cbn [fst snd]. rewrite H4. destruct (take_N n t) as [[s r]|e] eqn:E2.
  - destruct (take_N_suffix _ _ _ _ E2) as (-> & Hs). left. exists s, r, (h ++ s).
    unfold consumedO. cbn. rewrite app_assoc, !app_length. repeat split; auto; lia.
  - right. exists e. unfold consumedO. cbn. rewrite app_length. split; auto; lia.
Qed.
Lemma takeN_bounded n bs :
  bounded bs (match take_N n bs with
              | Ok (s, t) => tickO (c_cons n) (tickO (c_alloc n) (retO (s, t)))
              | Err e => failO e
              end).
Proof.
  destruct (take_N n bs) as [[s t]|e] eqn:E.
  - destruct (take_N_suffix _ _ _ _ E) as (-> & Hs). left. exists s, t, s. unfold consumedO. cbn. repeat split; auto. lia.
  - right. exists e. unfold consumedO. cbn. split; auto; lia.
Qed.

Lemma msg_frame_bounded o bs : bounded bs (msg_frame o bs).
Proof.
  unfold msg_frame, bounded. rewrite fst_bindO, consumed_bindO.
  destruct (fixedO_good o 4 (fun n => n) bs ltac:(lia)) as [(n & t & h & H1 & -> & H3 & H4 & H5)|(e & H1 & H2 & H3)];
    rewrite H1; [|right; exists e; auto].
  cbn [fst snd]. rewrite H4. destruct (take_N n t) as [[body t']|e] eqn:E2.
  - destruct (take_N_suffix _ _ _ _ E2) as (-> & Hs).
    rewrite fst_tickO, consumed_tickO, fst_bindO, consumed_bindO. cbn [c_cons fst snd].
    destruct (lp4O_good o t') as [(s & r & h' & G1 & -> & G3 & G4 & G5)|(e & G1 & G2 & G3)]; rewrite G1.
    + rewrite fst_tickO, consumed_tickO. cbn [c_alloc fst snd retO]. left. exists (body, s), r, (h ++ body ++ h').
      split; [reflexivity|]. split; [rewrite <- !app_assoc; reflexivity|].
      rewrite G4, !app_length. unfold consumedO, retO, c0. cbn [fst snd]. lia.
    + right. exists e. rewrite !app_length. split; auto. lia.
  - right. exists e. unfold consumedO. cbn. rewrite app_length. split; auto; lia.
Qed.

(** the position never passes the end of the buffer; buffer and byte order are not touched *)
Lemma r_step_inv {A} (f : bytes -> MO (A * bytes)) r : (forall bs, bounded bs (f bs)) -> r_ok r ->
  r_ok (fst (r_step f r)) /\ r_buf (fst (r_step f r)) = r_buf r /\ r_ord (fst (r_step f r)) = r_ord r
  /\ r_elems (fst (r_step f r)) = r_elems r.
Proof.
  intros Hf Hok. unfold r_step. destruct (r_err r); [auto|].
  pose proof (rrem_length r Hok) as Hl.
  destruct (Hf (rrem r)) as [(a & t & h & H1 & H2 & H3)|(e & H1 & H2)]; rewrite H1; cbn [fst r_buf r_ord r_pos r_elems];
    unfold r_ok, rlen in *; cbn [r_pos r_buf]; repeat split; auto.
  - rewrite H2, app_length in Hl. lia.
  - lia.
Qed.
Lemma r_stepS_inv {A} (f : N -> rst -> MO (A * rst)) r : (forall tot st, boundedS st (f tot st)) -> r_ok r ->
  r_ok (fst (r_stepS f r)) /\ r_buf (fst (r_stepS f r)) = r_buf r /\ r_ord (fst (r_stepS f r)) = r_ord r.
Proof.
  intros Hf Hok. unfold r_stepS. destruct (r_err r); [auto|].
  pose proof (rrem_length r Hok) as Hl.
  destruct (Hf (rlen r) (rrem r, r_elems r)) as [(a & st' & h & H1 & H2 & H3)|(e & H1 & H2)]; rewrite H1; cbn [fst snd r_buf r_ord r_pos] in *;
    unfold r_ok, rlen in *; cbn [r_pos r_buf]; repeat split; auto.
  - rewrite H2, app_length in Hl. lia.
  - lia.
Qed.

Theorem plain_rop_inv op r : r_ok r ->
  r_ok (fst (plain_rop op r)) /\ r_buf (fst (plain_rop op r)) = r_buf r /\ r_ord (fst (plain_rop op r)) = r_ord r.
Proof.
  intros Hok. destruct op; cbn [plain_rop lift_r fst].
  - destruct (r_step_inv (rprimO (r_ord r) b) r (fun bs => goodB_bounded _ _ (rprimO_good _ b bs)) Hok) as (? & ? & ? & _); auto.
  - destruct (r_step_inv (fun bs => of_resO bs (rd_varint bs)) r) as (? & ? & ? & _); auto.
    intros bs. apply of_resO_bounded. intros a t. apply rd_varint_suffix.
  - destruct (r_step_inv (fun bs => of_resO bs (rd_uvarint bs)) r) as (? & ? & ? & _); auto.
    intros bs. apply of_resO_bounded. intros a t. apply rd_uvarint_suffix.
  - destruct (r_step_inv (fun bs => match take_N n bs with
                                    | Ok (s, t) => tickO (c_cons n) (tickO (c_alloc n) (retO (s, t)))
                                    | Err e => failO e
                                    end) r (takeN_bounded n) Hok) as (? & ? & ? & _); auto.
  - destruct size as [|q|q]; cbn [fst]; auto.
    destruct q as [[[|[]|]|[[]|[]|]|]|[[|[]|]|[[]|[]|]|]|]; cbn [fst lift_r]; auto.
    + destruct (r_step_inv (lpnO (r_ord r) 4) r (fun bs => lpnO_bounded _ 4 bs ltac:(lia)) Hok) as (? & ? & ? & _); auto.
    + destruct (r_step_inv (lpnO (r_ord r) 2) r (fun bs => lpnO_bounded _ 2 bs ltac:(lia)) Hok) as (? & ? & ? & _); auto.
    + destruct (r_step_inv (lpnO (r_ord r) 1) r (fun bs => lpnO_bounded _ 1 bs ltac:(lia)) Hok) as (? & ? & ? & _); auto.
  - destruct (r_step_inv (lpnO (r_ord r) 1) r (fun bs => lpnO_bounded _ 1 bs ltac:(lia)) Hok) as (? & ? & ? & _); auto.
  - apply (r_stepS_inv (fun tot st => readO (r_ord r) tot ty st) r); [|exact Hok].
    intros tot st. eapply goodAt_boundedS, readO_good.
  - destruct tys as [|t0 tr]; [cbn [fst]; auto|].
    apply (r_stepS_inv (fun tot st => read_intoO (r_ord r) tot (t0 :: tr) st) r); [|exact Hok].
    intros tot st. eapply goodAt_boundedS, read_intoO_good.
  - destruct (r_err r); cbn [fst]; auto. destruct (rlen r <? r_pos r + n) eqn:E; cbn [fst r_buf r_ord]; unfold r_ok, rlen in *; cbn [r_pos r_buf]; auto.
    repeat split; auto. lia.
  - destruct ((p <? 0)%Z || (Z.of_N (rlen r) <? p)%Z) eqn:E; cbn [fst r_buf r_ord]; auto.
    unfold r_ok, rlen in *. cbn [r_pos r_buf]. repeat split; auto. lia.
Qed.

Lemma run_props_inv ops : forall r, r_ok r ->
  r_ok (fst (run_props ops r)) /\ r_buf (fst (run_props ops r)) = r_buf r /\ r_ord (fst (run_props ops r)) = r_ord r.
Proof.
  induction ops as [|x rest IH]; intros r Hok; cbn [run_props fst]; [auto|].
  destruct (plain_rop_inv x r Hok) as (H1 & H2 & H3). destruct (plain_rop x r) as [r1 [v|e]]; cbn [fst] in *; [|auto].
  destruct (IH r1 H1) as (G1 & G2 & G3). destruct (run_props rest r1) as [r2 [vs|e]]; cbn [fst] in *; rewrite <- ?H2, <- ?H3; auto.
Qed.

(** every Reader operation keeps 0 <= Pos() <= len(buf): Remaining() never slices out of range *)
Theorem run_rop_inv env op r p : r_ok r -> r_ok (fst (fst (run_rop env op r p))).
Proof.
  intros Hok. destruct op; cbn [run_rop].
  - destruct (plain_rop op r) as [r1 v] eqn:E. cbn [fst]. pose proof (plain_rop_inv op r Hok) as (H & _). rewrite E in H. exact H.
  - cbn [fst]. unfold r_ok, r_reset, rlen. cbn. lia.
  - pose proof (r_step_inv (msg_frame (r_ord r)) r (msg_frame_bounded _) Hok) as (H & _).
    destruct (r_step (msg_frame (r_ord r)) r) as [r1 [[body name]|e]]; cbn [fst] in *; [|exact H].
    destruct (lookup name (e_table env)); [|exact H].
    destruct (get_reader_opt body None p) as [[id ir] p1]. destruct (run_props l ir) as [ir' res]. exact H.
Qed.

(** ** the pool of Readers: what ReadMessage returns does not depend on the pool *)
Lemma r_clean_spec r : r_clean r = true <-> r_buf r = [] /\ r_err r = None /\ r_pos r = 0 /\ r_elems r = 0.
Proof.
  unfold r_clean. destruct (r_buf r), (r_err r); split; try discriminate;
    try (intros (H1 & H2 & _); try discriminate H1; try discriminate H2; fail).
  - intros H. apply andb_prop in H as [H1 H2]. apply N.eqb_eq in H1, H2. auto.
  - intros (_ & _ & -> & ->). reflexivity.
Qed.
Lemma rget_clean p id r p1 : rpool_clean p = true -> rget p = ((id, r), p1) -> r_clean r = true /\ rpool_clean p1 = true.
Proof.
  unfold rget, rpool_clean. intros Hc. destruct (rp_keys p) as [|k ks].
  - intros [= <- <- <-]. cbn. auto.
  - destruct (take_id k (rp_free p)) as [[w rest]|] eqn:E.
    + intros [= <- <- <-]. cbn [rp_free]. destruct (take_id_forallb _ _ _ _ _ E Hc) as [H1 H2]. auto.
    + intros [= <- <- <-]. cbn. auto.
Qed.
(** NewReaderFromPool(data) on a clean pool is NewReader(data) *)
Lemma get_reader_clean data p id r p1 : rpool_clean p = true -> get_reader_opt data None p = ((id, r), p1) ->
  r = new_reader data /\ rpool_clean p1 = true.
Proof.
  unfold get_reader_opt. intros Hc. destruct (rget p) as [[i r0] p0] eqn:E. destruct (rget_clean p i r0 p0 Hc E) as [Hr Hp].
  apply r_clean_spec in Hr as (H1 & H2 & H4 & H5). intros [= <- <- <-]. rewrite H2, H4, H5. auto.
Qed.
Lemma rput_clean id r p : rpool_clean p = true -> rpool_clean (rput (id, r) p) = true.
Proof. unfold rput, rpool_clean. intros Hc. cbn [rp_free forallb fst snd]. rewrite Hc. reflexivity. Qed.

Theorem run_rop_pool env op r p : rpool_clean p = true ->
  rpool_clean (snd (fst (run_rop env op r p))) = true /\
  fst (fst (run_rop env op r p)) = fst (fst (run_rop env op r (mkRP [] []))) /\
  snd (run_rop env op r p) = snd (run_rop env op r (mkRP [] [])).
Proof.
  intros Hc. destruct op; cbn [run_rop].
  - destruct (plain_rop op r) as [r1 v]. auto.
  - auto.
  - destruct (r_step (msg_frame (r_ord r)) r) as [r1 [[body name]|e]]; [|auto].
    destruct (lookup name (e_table env)) as [script|]; [|auto].
    destruct (get_reader_opt body None p) as [[id ir] p1] eqn:E.
    destruct (get_reader_clean body p id ir p1 Hc E) as [-> Hp1].
    change (get_reader_opt body None (mkRP [] [])) with ((0, new_reader body), mkRP [] []).
    pose proof (run_props_inv script (new_reader body)) as Hinv.
    destruct (run_props script (new_reader body)) as [ir' res] eqn:Er. cbn [fst snd] in *.
    split; [|rewrite Er; split; reflexivity]. apply rput_clean; exact Hp1.
Qed.

(** ** the sticky error of the Reader *)
Definition reads (op : prop) : bool :=
  match op with
  | RSeek _ => false
  | RReadInto [] => false
  | RBytesLen size => (size =? 1)%Z || (size =? 2)%Z || (size =? 4)%Z
  | _ => true
  end.
Theorem reader_sticky op r e : r_err r = Some e -> reads op = true -> plain_rop op r = (r, inr (XE e)).
Proof.
  intros He Hr. destruct op; cbn [plain_rop]; try discriminate Hr;
    try (unfold lift_r, r_step, r_stepS; rewrite He; reflexivity).
  - destruct size as [|q|q]; try discriminate Hr.
    destruct q as [[[|[]|]|[[]|[]|]|]|[[|[]|]|[[]|[]|]|]|]; try discriminate Hr; unfold lift_r, r_step; rewrite He; reflexivity.
  - destruct tys; [discriminate Hr|]. unfold lift_r, r_stepS. rewrite He. reflexivity.
Qed.
(** Seek clears the error and the element budget: the Reader is a new one positioned at p; Reset makes it new over other data *)
Theorem seek_spec p r : (0 <= p <= Z.of_N (rlen r))%Z ->
  plain_rop (RSeek p) r = (mkR (r_buf r) (Z.to_N p) (r_ord r) None 0, inl RVUnit).
Proof. intros H. cbn [plain_rop]. replace ((p <? 0)%Z || (Z.of_N (rlen r) <? p)%Z) with false by lia. reflexivity. Qed.
Theorem reset_spec data r : r_reset data r = mkR data 0 (r_ord r) None 0.
Proof. reflexivity. Qed.

(** no Reader operation crashes: every functional reader the machine runs ends in Ok or Err *)
Lemma bounded_okerr {A} bs (m : MO (A * bytes)) : bounded bs m -> okerr (fst m).
Proof. intros [(a & t & h & -> & _)|(e & -> & _)]; auto. Qed.

(** * writer operations -> bytes -> the inverse reader operations: the machine-level round trip *)
Definition size_ok (size : Z) (n : N) : Prop :=
  (size = 1%Z /\ n < 256) \/ (size = 2%Z /\ n < 65536) \/ (size = 4%Z /\ n < 4294967296).
(** the operations whose effect the Reader can undo, and the values for which it does *)
Definition wf_op (op : wop) : Prop :=
  match op with
  | WPrim b v => basic_ok b v = true /\ fits (TBasic b) v = true
  | WVarint z => (- 2 ^ 63 <= z < 2 ^ 63)%Z
  | WUvarint n => n < 18446744073709551616
  | WBytes _ => True
  | WBytesLen size bs => size_ok size (N.of_nat (length bs))
  | WShort s => N.of_nat (length s) < 256
  | WWrite ty v => supported ty = true /\ has_typeb ty v = true /\ fits ty v = true
  | WWriteFrom l => l <> [] /\ supported_all l = true
  | _ => False
  end.
Definition inv_op (op : wop) : prop :=
  match op with
  | WPrim b _ => RPrim b
  | WVarint _ => RVarint
  | WUvarint _ => RUvarint
  | WBytes bs => RBytes (N.of_nat (length bs))
  | WBytesLen size _ => RBytesLen size
  | WShort _ => RShort
  | WWrite ty _ => RRead ty
  | WWriteFrom l => RReadInto (map fst l)
  | _ => RSkip 0
  end.
Definition val_op (op : wop) : rval :=
  match op with
  | WPrim _ v => RVGo v
  | WVarint z => RVZ z
  | WUvarint n => RVN n
  | WBytes bs | WBytesLen _ bs | WShort bs => RVBytes bs
  | WWrite ty v => RVGo (norm ty v)
  | WWriteFrom l => RVGos (map (fun p => norm (fst p) (snd p)) l)
  | _ => RVUnit
  end.
(** slice elements the Reader's budget is charged with *)
Definition cnt_op (op : wop) : N :=
  match op with WWrite ty v => cnt ty v | WWriteFrom l => cnt_all l | _ => 0 end.

Lemma r_step_val {A} (f : bytes -> MO (A * bytes)) r a enc rest :
  r_err r = None -> rrem r = enc ++ rest -> bounded (rrem r) (f (rrem r)) -> fst (f (rrem r)) = OOk (a, rest) ->
  r_step f r = (mkR (r_buf r) (r_pos r + N.of_nat (length enc)) (r_ord r) None (r_elems r), inl a).
Proof.
  intros He Hr Hb Hv. unfold r_step. rewrite He, Hv.
  destruct Hb as [(a' & t & h & H1 & H2 & H3)|(e & H1 & _)]; rewrite Hv in H1; [|discriminate].
  injection H1 as <- <-. rewrite Hr in H2. apply app_inv_tail in H2. subst h. rewrite H3. reflexivity.
Qed.
Lemma r_stepS_val {A} (f : N -> rst -> MO (A * rst)) r a enc rest el' s :
  r_err r = None -> rrem r = enc ++ rest -> goodAt s (rrem r, r_elems r) (f (rlen r) (rrem r, r_elems r)) ->
  fst (f (rlen r) (rrem r, r_elems r)) = OOk (a, (rest, el')) ->
  r_stepS f r = (mkR (r_buf r) (r_pos r + N.of_nat (length enc)) (r_ord r) None el', inl a).
Proof.
  intros He Hr Hb Hv. unfold r_stepS. rewrite He, Hv.
  destruct Hb as [(a' & st' & h & H1 & H2 & _ & H4 & H5)|(e & H1 & _)]; rewrite Hv in H1; [|discriminate].
  injection H1 as <- <-. cbn [fst snd] in *. rewrite Hr in H2. apply app_inv_tail in H2. subst h. rewrite H5, <- H4. reflexivity.
Qed.

Lemma lpnO_put o k b rest : N.of_nat (length b) < 256 ^ N.of_nat k ->
  fst (lpnO o k (beO o k (N.of_nat (length b)) ++ b ++ rest)) = OOk (b, rest).
Proof.
  intros H. unfold lpnO. rewrite fst_bindO, fixedO_put by exact H. cbn [fst snd]. rewrite take_N_app. reflexivity.
Qed.

Lemma skipn_add {A} (a b : nat) (l : list A) : skipn (a + b) l = skipn b (skipn a l).
Proof. revert l. induction a as [|a IH]; intros l; [reflexivity|]. destruct l; cbn [Nat.add skipn]; [destruct b; reflexivity|apply IH]. Qed.
Lemma rrem_after r enc rest : r_ok r -> rrem r = enc ++ rest ->
  rrem (mkR (r_buf r) (r_pos r + N.of_nat (length enc)) (r_ord r) None (r_elems r)) = rest.
Proof.
  unfold rrem. cbn [r_buf r_pos]. intros _ H.
  replace (N.to_nat (r_pos r + N.of_nat (length enc))) with (N.to_nat (r_pos r) + length enc)%nat by lia.
  rewrite skipn_add, H. rewrite skipn_app, skipn_all, Nat.sub_diag. reflexivity.
Qed.

(** one operation *)
Theorem op_roundtrip o op : wf_op op ->
  exists enc, spec_wop o op ([], None) = ((enc, None), None) /\ cnt_op op <= N.of_nat (length enc) /\
    forall r rest, r_err r = None -> r_ord r = o -> rrem r = enc ++ rest -> r_elems r + cnt_op op <= rlen r ->
      plain_rop (inv_op op) r =
      (mkR (r_buf r) (r_pos r + N.of_nat (length enc)) o None (r_elems r + cnt_op op), inl (val_op op)).
Proof.
  destruct op; cbn [wf_op]; try contradiction.
  - (* WPrim *)
    intros [Hok Hf]. destruct (prim_rtO o b v [] Hok Hf) as (cs & Hw & _ & _).
    exists (concat cs). cbn [spec_wop spec_plain]. rewrite Hw. split; [reflexivity|]. split; [cbn; lia|].
    intros r rest He Ho Hr _. cbn [inv_op plain_rop val_op cnt_op]. rewrite N.add_0_r, Ho.
    destruct (prim_rtO o b v rest Hok Hf) as (cs' & Hw' & _ & Hrd). rewrite Hw in Hw'. injection Hw' as <-.
    rewrite <- Hr in Hrd. unfold lift_r.
    rewrite (r_step_val (rprimO o b) r v (concat cs) rest He Hr (goodB_bounded _ _ (rprimO_good o b _)) Hrd).
    rewrite Ho. reflexivity.
  - (* WVarint *)
    intros Hz. exists (put_varint z). split; [reflexivity|]. split; [cbn; lia|].
    intros r rest He Ho Hr _. cbn [inv_op plain_rop val_op cnt_op]. rewrite N.add_0_r. unfold lift_r.
    rewrite (r_step_val (fun bs => of_resO bs (rd_varint bs)) r z (put_varint z) rest He Hr).
    + rewrite Ho. reflexivity.
    + apply of_resO_bounded. intros a t. apply rd_varint_suffix.
    + rewrite Hr, rd_varint_put by exact Hz. reflexivity.
  - (* WUvarint *)
    intros Hn. exists (put_uvarint n). split; [reflexivity|]. split; [cbn; lia|].
    intros r rest He Ho Hr _. cbn [inv_op plain_rop val_op cnt_op]. rewrite N.add_0_r. unfold lift_r.
    rewrite (r_step_val (fun bs => of_resO bs (rd_uvarint bs)) r n (put_uvarint n) rest He Hr).
    + rewrite Ho. reflexivity.
    + apply of_resO_bounded. intros a t. apply rd_uvarint_suffix.
    + rewrite Hr, rd_uvarint_put by exact Hn. reflexivity.
  - (* WBytes *)
    intros _. exists bs. split; [reflexivity|]. split; [cbn; lia|].
    intros r rest He Ho Hr _. cbn [inv_op plain_rop val_op cnt_op]. rewrite N.add_0_r. unfold lift_r.
    rewrite (r_step_val _ r bs bs rest He Hr (takeN_bounded _ _)).
    + rewrite Ho. reflexivity.
    + rewrite Hr, take_N_app. reflexivity.
  - (* WBytesLen *)
    intros Hs.
    assert (Hk : exists k, (1 <= k)%nat /\ size = Z.of_nat k /\ (k = 1 \/ k = 2 \/ k = 4)%nat /\ N.of_nat (length bs) < 256 ^ N.of_nat k).
    { destruct Hs as [[-> H]|[[-> H]|[-> H]]]; [exists 1%nat|exists 2%nat|exists 4%nat]; repeat split; auto; lia. }
    destruct Hk as (k & Hk1 & -> & Hk3 & Hlen).
    exists (beO o k (N.of_nat (length bs)) ++ bs). split.
    { cbn [spec_wop spec_plain]. unfold aw_byteslen. cbn [snd fst].
      destruct Hk3 as [->|[->| ->]]; cbn [Z.of_nat Pos.of_succ_nat Pos.succ put_lpkO]; unfold put_lpO, put_lp4O, put_u32O;
        try (replace (N.of_nat (length bs) <? _) with true by lia); reflexivity. }
    split; [cbn; lia|].
    intros r rest He Ho Hr _. cbn [inv_op val_op cnt_op]. rewrite N.add_0_r.
    assert (Hrd : fst (lpnO o k (rrem r)) = OOk (bs, rest)) by (rewrite Hr, <- app_assoc; apply lpnO_put; exact Hlen).
    pose proof (r_step_val (lpnO o k) r bs _ rest He Hr (lpnO_bounded o k _ Hk1) Hrd) as Hst.
    destruct Hk3 as [->|[->| ->]]; cbn [plain_rop Z.of_nat Pos.of_succ_nat Pos.succ]; unfold lift_r; rewrite Ho, Hst; rewrite Ho; reflexivity.
  - (* WShort *)
    intros Hlen. exists (beO o 1 (N.of_nat (length s)) ++ s). split.
    { cbn [spec_wop spec_plain]. unfold aw_byteslen. cbn [snd fst put_lpkO]. unfold put_lpO.
      replace (N.of_nat (length s) <? _) with true by (cbn; lia). reflexivity. }
    split; [cbn; lia|].
    intros r rest He Ho Hr _. cbn [inv_op val_op cnt_op plain_rop]. rewrite N.add_0_r.
    assert (Hrd : fst (lpnO o 1 (rrem r)) = OOk (s, rest)) by (rewrite Hr, <- app_assoc; apply lpnO_put; cbn; lia).
    unfold lift_r. rewrite Ho, (r_step_val (lpnO o 1) r s _ rest He Hr (lpnO_bounded o 1 _ ltac:(lia)) Hrd). rewrite Ho. reflexivity.
  - (* WWrite *)
    intros (Hs & Ht & Hf). destruct (roundtrip_stateO o ty v Hs Ht Hf) as (Hw & Hc & Hrd).
    exists (flat (writeC o ty v)). split.
    { cbn [spec_wop spec_plain]. unfold aw_res. rewrite Hw. reflexivity. }
    split; [exact Hc|].
    intros r rest He Ho Hr Hb. cbn [inv_op val_op cnt_op plain_rop]. unfold lift_r. rewrite Ho.
    rewrite (r_stepS_val (fun tot st => readO o tot ty st) r (norm ty v) _ rest (r_elems r + cnt ty v) _ He Hr (readO_good o _ ty _)).
    + rewrite Ho. reflexivity.
    + rewrite Hr. apply Hrd. exact Hb.
  - (* WWriteFrom *)
    intros (Hne & Hs). destruct (roundtrip_list_stateO o l Hs) as (Hw & Hc & Hrd).
    exists (flat (write_fromC o l)). split.
    { cbn [spec_wop spec_plain]. unfold aw_res. rewrite Hw. reflexivity. }
    split; [exact Hc|].
    intros r rest He Ho Hr Hb. cbn [inv_op val_op cnt_op].
    pose proof (r_stepS_val (fun tot st => read_intoO o tot (map fst l) st) r (map (fun p => norm (fst p) (snd p)) l)
                  (flat (write_fromC o l)) rest (r_elems r + cnt_all l) false He Hr (read_intoO_good o _ _ _)) as Hst.
    rewrite Hr in Hst. specialize (Hst (Hrd _ _ _ Hb)).
    cbn [plain_rop]. destruct (map fst l) as [|g l0] eqn:El; [destruct l; [contradiction|discriminate El]|].
    unfold lift_r. rewrite Ho, Hst. rewrite Ho. reflexivity.
Qed.

(** sequences *)
Fixpoint total_cnt (ops : list wop) : N := match ops with [] => 0 | x :: r => cnt_op x + total_cnt r end.
Lemma wf_not_reset op : wf_op op -> op <> WReset.
Proof. intros H ->. exact H. Qed.

Lemma spec_wops_prefix o ops : forall b, Forall wf_op ops ->
  exists enc, spec_wops o ops (b, None) = ((b ++ enc, None), map (fun _ => None) ops) /\ total_cnt ops <= N.of_nat (length enc)
    /\ spec_wops o ops ([], None) = ((enc, None), map (fun _ => None) ops).
Proof.
  induction ops as [|x r IH]; intros b Hwf.
  - exists []. cbn. rewrite app_nil_r. repeat split; auto. lia.
  - inversion Hwf as [|? ? Hx Hr]; subst. destruct (op_roundtrip o x Hx) as (e1 & Hs1 & Hc1 & _).
    cbn [spec_wops]. rewrite (spec_wop_prefix o x b (wf_not_reset _ Hx)). unfold enc_of. rewrite Hs1. cbn [fst snd].
    destruct (IH (b ++ e1) Hr) as (e2 & Hs2 & Hc2 & Hs0). rewrite Hs2.
    destruct (IH e1 Hr) as (e2' & Hs2' & _ & Hs0'). rewrite Hs0 in Hs0'. injection Hs0' as <-.
    exists (e1 ++ e2). rewrite Hs2', app_assoc, app_length. cbn [map total_cnt]. repeat split; auto. lia.
Qed.

Theorem ops_roundtrip o ops : Forall wf_op ops ->
  exists enc, spec_wops o ops ([], None) = ((enc, None), map (fun _ => None) ops) /\ total_cnt ops <= N.of_nat (length enc) /\
    forall r rest, r_err r = None -> r_ord r = o -> rrem r = enc ++ rest -> r_elems r + total_cnt ops <= rlen r ->
      run_props (map inv_op ops) r =
      (mkR (r_buf r) (r_pos r + N.of_nat (length enc)) o None (r_elems r + total_cnt ops), inl (map val_op ops)).
Proof.
  induction ops as [|x rest IH]; intros Hwf.
  - exists []. split; [reflexivity|]. split; [cbn; lia|]. intros r junk He Ho _ _. cbn [map run_props total_cnt length].
    rewrite !N.add_0_r. destruct r; cbn in *. subst. reflexivity.
  - inversion Hwf as [|? ? Hx Hr]; subst. destruct (op_roundtrip o x Hx) as (e1 & Hs1 & Hc1 & Hrd1).
    destruct (IH Hr) as (e2 & Hs2 & Hc2 & Hrd2).
    destruct (spec_wops_prefix o rest e1 Hr) as (e2' & Hp & _ & Hp0). rewrite Hs2 in Hp0. injection Hp0 as <-.
    exists (e1 ++ e2). split.
    { cbn [spec_wops]. rewrite Hs1, Hp. reflexivity. }
    split; [rewrite app_length; cbn [total_cnt]; lia|].
    intros r junk He Ho Hrem Hb. cbn [map run_props total_cnt] in *.
    rewrite <- app_assoc in Hrem. rewrite (Hrd1 r (e2 ++ junk) He Ho Hrem ltac:(lia)).
    set (r1 := mkR (r_buf r) (r_pos r + N.of_nat (length e1)) o None (r_elems r + cnt_op x)).
    assert (Hrem1 : rrem r1 = e2 ++ junk).
    { unfold r1, rrem. cbn [r_buf r_pos]. unfold rrem in Hrem.
      replace (N.to_nat (r_pos r + N.of_nat (length e1))) with (N.to_nat (r_pos r) + length e1)%nat by lia.
      rewrite skipn_add, Hrem, skipn_app, skipn_all, Nat.sub_diag. reflexivity. }
    rewrite (Hrd2 r1 junk eq_refl eq_refl Hrem1) by (unfold r1, rlen in *; cbn [r_elems r_buf]; lia).
    unfold r1. cbn [r_buf r_pos r_elems]. rewrite app_length. apply f_equal2; [|reflexivity].
    apply (f_equal2 (fun ps el => mkR (r_buf r) ps o None el)); lia.
Qed.

(** the two machines together: ANY Writer (new, reset, pooled, grown; any capacity; either byte order; any earlier
    content b0) performs the operations; a Reader of the same order placed behind b0 over the Writer's bytes (+ anything)
    performs the inverse operations: it returns the values, ends exactly at the end of the Writer's bytes and has charged
    exactly the slice elements of the values *)
Theorem machine_roundtrip ops w p w' p' es r junk :
  Forall wf_op ops -> w_ok w -> w_err w = None -> wpool_clean p = true ->
  run_wops ops w p = (w', p', es) ->
  r_buf r = w_buf w' ++ junk -> r_pos r = wlen w -> r_err r = None -> r_ord r = w_ord w -> r_elems r = 0 ->
  w_err w' = None /\ Forall (eq None) es /\
  run_props (map inv_op ops) r = (mkR (r_buf r) (wlen w') (w_ord w) None (total_cnt ops), inl (map val_op ops)).
Proof.
  intros Hwf Hok He Hc Hrun Hbuf Hpos Hre Hro Hrel.
  destruct (run_wops_refines ops w p w' p' es Hok Hc Hrun) as (Hs & _ & _ & _).
  destruct (spec_wops_prefix (w_ord w) ops (w_buf w) Hwf) as (enc & Hp & Hcnt & Hp0).
  unfold abs in Hs at 2. rewrite He, Hp in Hs. injection Hs as Hb' He' Hes.
  destruct (ops_roundtrip (w_ord w) ops Hwf) as (enc' & Hs0 & _ & Hrd). rewrite Hp0 in Hs0. injection Hs0 as <-.
  split; [exact He'|]. split.
  { rewrite Hes. clear. induction ops; cbn [map]; constructor; auto. }
  assert (Hrem : rrem r = enc ++ junk).
  { unfold rrem. rewrite Hbuf, Hb', Hpos. unfold wlen. rewrite Nat2N.id, <- app_assoc, skipn_app, skipn_all, Nat.sub_diag. reflexivity. }
  rewrite (Hrd r junk Hre Hro Hrem) by (unfold rlen; rewrite Hrel, Hbuf, Hb', !app_length; lia).
  rewrite Hpos, Hrel, N.add_0_l. unfold wlen. rewrite Hb', app_length. apply f_equal2; [|reflexivity].
  apply (f_equal2 (fun ps el => mkR (r_buf r) ps (w_ord w) None el)); lia.
Qed.

(** * scenarios: many Writers and Readers, any interleaving, any pool behaviour *)
Definition sst_ok (s : sst) : Prop :=
  wpool_clean (mkWP (s_wfree s) []) = true /\ rpool_clean (mkRP (s_rfree s) []) = true /\
  Forall (fun x => w_ok (snd (snd x))) (s_hw s) /\ Forall (fun x => r_ok (snd (snd x))) (s_hr s).
(** the only side condition: a caller-supplied buffer is a Go slice (len <= cap) *)
Definition admissible (op : sop) : Prop :=
  match op with
  | SNewW _ _ _ (Some (b, c)) _ => N.of_nat (length b) <= c
  | _ => True
  end.

Lemma take_id_Forall {A} (P : N * A -> Prop) k l x rest : take_id k l = Some (x, rest) -> Forall P l -> P (k, x) /\ Forall P rest.
Proof.
  revert x rest. induction l as [|[i w] r IH]; intros x rest; cbn [take_id]; [discriminate|].
  destruct (i =? k) eqn:E.
  - apply N.eqb_eq in E. subst i. intros [= <- <-] H. inversion H; subst. auto.
  - destruct (take_id k r) as [[y r']|]; [|discriminate]. intros [= <- <-] H. inversion H; subst.
    destruct (IH y r' eq_refl H3) as [H4 H5]. auto.
Qed.
Lemma find_h_Forall {A} (P : N * A -> Prop) h l x : find_h h l = Some x -> Forall P l -> P (h, x).
Proof.
  unfold find_h. destruct (take_id h l) as [[y r]|] eqn:E; [|discriminate]. intros [= <-] H.
  apply (take_id_Forall P h l y r E H).
Qed.
Lemma drop_h_Forall {A} (P : N * A -> Prop) h l : Forall P l -> Forall P (drop_h h l).
Proof.
  induction 1 as [|[i x] r Hx Hr IH]; cbn [drop_h]; [constructor|]. destruct (i =? h); [exact IH|constructor; assumption].
Qed.
Lemma wpool_clean_keys l ks : wpool_clean (mkWP l ks) = wpool_clean (mkWP l []).
Proof. reflexivity. Qed.
Lemma rpool_clean_keys l ks : rpool_clean (mkRP l ks) = rpool_clean (mkRP l []).
Proof. reflexivity. Qed.

Theorem scenario_step env op s : sst_ok s -> admissible op ->
  sst_ok (fst (run_sop env op s)) /\
  match op with
  | SW h x ids =>
      match find_h h (s_hw s) with
      | Some (i, w) => exists w' e, snd (run_sop env op s) = ObsW w' e /\ (abs w', e) = spec_wop (w_ord w) x (abs w) /\ w_ord w' = w_ord w
      | None => snd (run_sop env op s) = ObsDead
      end
  | SGetW h ord id =>
      exists w, snd (run_sop env op s) = ObsW w None /\ abs w = ([], None) /\ w_ord w = match ord with Some o => o | None => BE end
  | SR h x ids =>
      match find_h h (s_hr s) with
      | Some (i, r) => exists r' v, snd (run_sop env op s) = ObsR r' v /\ (r', v) = (fst (fst (run_rop env x r (mkRP [] []))), snd (run_rop env x r (mkRP [] [])))
      | None => snd (run_sop env op s) = ObsDead
      end
  | SGetR h data ord id =>
      exists r, snd (run_sop env op s) = ObsR r (inl RVUnit) /\ r = mkR data 0 (match ord with Some o => o | None => BE end) None 0
  | _ => True
  end.
Proof.
  intros (Hw & Hr & Hhw & Hhr) Ha. destruct op; cbn [run_sop admissible] in *.
  - (* NewWriter *)
    split; [|exact I]. cbn [fst]. repeat split; auto. constructor; [|apply drop_h_Forall, Hhw]. cbn [snd].
    unfold new_writer_opt, w_ok, wlen. destruct buf as [[b c]|]; cbn [w_buf w_cap]; [destruct reset; cbn; lia|cbn; lia].
  - (* NewWriterFromPool *)
    destruct (get_writer_opt ord (mkWP (s_wfree s) [id])) as [[i w] p] eqn:E.
    destruct (get_writer_clean ord (mkWP (s_wfree s) [id]) i w p Hw E) as (Hb & He & Ho & Hcp).
    cbn [fst snd]. split.
    + repeat split; auto. constructor; [|apply drop_h_Forall, Hhw]. cbn [snd]. unfold w_ok, wlen. rewrite Hb. cbn. lia.
    + eexists. split; [reflexivity|]. unfold abs. rewrite Hb, He. auto.
  - (* ReleaseWriterToPool *)
    split; [|exact I]. destruct (find_h h (s_hw s)) as [[i w]|] eqn:E; cbn [fst]; [|repeat split; auto].
    repeat split; auto; try (apply drop_h_Forall, Hhw); try (apply (wput_clean i w (mkWP (s_wfree s) []) Hw)).
  - (* an operation on a Writer *)
    destruct (find_h h (s_hw s)) as [[i w]|] eqn:E; [|cbn [fst snd]; repeat split; auto].
    pose proof (find_h_Forall _ h _ _ E Hhw) as Hok. cbn [snd] in Hok.
    destruct (run_wop op w (mkWP (s_wfree s) ids)) as [[w' p] e] eqn:Er.
    destruct (run_wop_refines op w (mkWP (s_wfree s) ids) w' p e Hok Hw Er) as (Hs & Hc & Ho & Hok').
    cbn [fst snd]. split.
    + repeat split; auto. constructor; [exact Hok'|apply drop_h_Forall, Hhw].
    + exists w', e. auto.
  - (* NewReader *)
    split; [|exact I]. cbn [fst]. repeat split; auto. constructor; [|apply drop_h_Forall, Hhr]. cbn [snd].
    unfold r_ok, rlen. cbn. lia.
  - (* NewReaderFromPool *)
    unfold get_reader_opt. destruct (rget (mkRP (s_rfree s) [id])) as [[i r] p] eqn:E.
    destruct (rget_clean (mkRP (s_rfree s) [id]) i r p Hr E) as [Hcr Hcp]. apply r_clean_spec in Hcr as (Hb & He & Hp & Hel).
    cbn [fst snd]. split.
    + repeat split; auto. constructor; [|apply drop_h_Forall, Hhr]. cbn [snd]. unfold r_ok, rlen. cbn [r_pos r_buf]. lia.
    + eexists. split; [reflexivity|]. rewrite He, Hp, Hel. reflexivity.
  - (* ReleaseReaderToPool *)
    split; [|exact I]. destruct (find_h h (s_hr s)) as [[i r]|] eqn:E; cbn [fst]; [|repeat split; auto].
    repeat split; auto; try (apply drop_h_Forall, Hhr); try (apply (rput_clean i r (mkRP (s_rfree s) []) Hr)).
  - (* an operation on a Reader *)
    destruct (find_h h (s_hr s)) as [[i r]|] eqn:E; [|cbn [fst snd]; repeat split; auto].
    pose proof (find_h_Forall _ h _ _ E Hhr) as Hok. cbn [snd] in Hok.
    pose proof (run_rop_pool env op r (mkRP (s_rfree s) ids) Hr) as (Hc & H1 & H2).
    pose proof (run_rop_inv env op r (mkRP (s_rfree s) ids) Hok) as Hok'.
    destruct (run_rop env op r (mkRP (s_rfree s) ids)) as [[r' p] v] eqn:Er. cbn [fst snd] in *.
    split.
    + repeat split; auto. constructor; [exact Hok'|apply drop_h_Forall, Hhr].
    + exists r', v. rewrite H1, H2. auto.
Qed.

(** * a registered message: WriteMessage on any Writer, ReadMessage on any Reader, through the pools *)
Lemma spec_wbody_of_wops ops : forall a a' es, spec_wops BE ops a = (a', es) -> Forall (eq None) es -> spec_wbody ops a = (a', None).
Proof.
  induction ops as [|x r IH]; intros a a' es; cbn [spec_wops].
  - intros [= <- <-] _. reflexivity.
  - rewrite spec_wbody_cons. destruct (spec_wop BE x a) as [a1 e]. destruct (spec_wops BE r a1) as [a2 es'] eqn:E.
    intros [= <- <-] H. inversion H as [|? ? He Hr]; subst. apply (IH a1 a2 es' E Hr).
Qed.

Theorem message_roundtrip o name body : Forall wf_op body ->
  exists d, spec_wbody body ([], None) = ((d, None), None) /\
    (N.of_nat (length d) < 4294967296 -> N.of_nat (length name) < 4294967296 ->
     spec_wop o (WMsgReg name body RetSticky) ([], None) = ((put_lp4O o d ++ put_lp4O o name, None), None) /\
     forall env r rest p, lookup name (e_table env) = Some (map inv_op body) ->
       r_err r = None -> r_ord r = o -> rrem r = (put_lp4O o d ++ put_lp4O o name) ++ rest -> rpool_clean p = true ->
       fst (fst (run_rop env RMsg r p)) = mkR (r_buf r) (r_pos r + N.of_nat (length (put_lp4O o d ++ put_lp4O o name))) o None (r_elems r)
       /\ snd (run_rop env RMsg r p) = inl (RVMsg name (map val_op body))).
Proof.
  intros Hwf. destruct (ops_roundtrip BE body Hwf) as (d & Hs & Hc & Hrd). exists d.
  assert (Hb : spec_wbody body ([], None) = ((d, None), None)).
  { apply (spec_wbody_of_wops body _ _ _ Hs). clear. induction body; cbn [map]; constructor; auto. }
  split; [exact Hb|]. intros Hld Hln. split; [apply (nested_frame o name body [] d Hb)|].
  intros env r rest p Hlk He Ho Hrem Hp.
  destruct (run_rop_pool env RMsg r p Hp) as (_ & -> & ->). cbn [run_rop].
  assert (Hfr : fst (msg_frame o (rrem r)) = OOk ((d, name), rest)).
  { rewrite Hrem. unfold msg_frame, put_lp4O at 1, put_u32O. rewrite fst_bindO, <- !app_assoc, fixedO_put by exact Hld. cbn [fst snd].
    rewrite take_N_app, fst_tickO, fst_bindO. unfold put_lp4O. rewrite <- app_assoc, lp4O_put by exact Hln. reflexivity. }
  rewrite Ho, (r_step_val (msg_frame o) r (d, name) _ rest He Hrem (msg_frame_bounded o _) Hfr). rewrite Hlk.
  change (get_reader_opt d None (mkRP [] [])) with ((0, new_reader d), mkRP [] []). cbv iota beta.
  rewrite (Hrd (new_reader d) [] eq_refl eq_refl) by (try (unfold rrem; cbn; rewrite app_nil_r; reflexivity); unfold rlen; cbn [new_reader r_elems r_buf]; lia).
  cbn [fst snd]. rewrite Ho. auto.
Qed.

(** * regression scenarios of the two repaired defects (each is replayed on the implementation by the harness) *)
(** 1. (fix 62b310d / 4dbfc0b) a pooled Writer / Reader that was once given LittleEndian is big-endian again for every later
    user who asks for the default — at top level and as the scratch Writer of SerializeRemotingMessage *)
Definition leak_scenario : list sop :=
  [SGetW 0 (Some LE) 1; SRelW 0; SGetW 1 None 1; SW 1 (WPrim BU16 (VN 1)) []; SRelW 1;
   SNewW 2 2 (Some LE) None false; SRelW 2;
   SNewW 3 3 None None false; SW 3 (WMsgReg [120] [WPrim BU16 (VN 1)] RetSticky) [2]].
Lemma pool_order_regression :
  snd (run_scenario (mkEnv [] 0) leak_scenario s_init) =
  [ObsW (mkW [] 256 LE None) None; ObsNone; ObsW (mkW [] 256 BE None) None;
   ObsW (mkW [0; 1] 256 BE None) None;
   ObsNone;
   ObsW (mkW [] 256 LE None) None; ObsNone;                                   (* a Writer made with NewWriter(LittleEndian) is put into the pool *)
   ObsW (mkW [] 256 BE None) None;
   ObsW (mkW [0; 0; 0; 2; 0; 1; 0; 0; 0; 1; 120] 256 BE None) None].          (* the message body is written by that object: big-endian *)
Proof. vm_compute. reflexivity. Qed.
Definition leak_scenario_r : list sop :=
  [SGetR 0 [0; 1] (Some LE) 1; SRelR 0; SGetR 1 [0; 1] None 1; SR 1 (RPlain (RPrim BU16)) []].
Lemma pool_order_regression_reader :
  snd (run_scenario (mkEnv [] 0) leak_scenario_r s_init) =
  [ObsR (mkR [0; 1] 0 LE None 0) (inl RVUnit); ObsNone; ObsR (mkR [0; 1] 0 BE None 0) (inl RVUnit);
   ObsR (mkR [0; 1] 2 BE None 0) (inl (RVGo (VN 1)))].
Proof. vm_compute. reflexivity. Qed.

(** 2. (fix ce2f8d5) Seek gives the element budget back.  After Seek(p) the Reader IS a new Reader positioned at p
    ([seek_spec]); so whatever happened before — budget used up, error state — decoding what a Writer wrote at p succeeds,
    any number of times *)
Lemma run_props_app a b : forall r,
  run_props (a ++ b) r =
  match run_props a r with
  | (r1, inl va) => match run_props b r1 with (r2, inl vb) => (r2, inl (va ++ vb)) | (r2, inr e) => (r2, inr e) end
  | (r1, inr e) => (r1, inr e)
  end.
Proof.
  induction a as [|x a IH]; intros r; cbn [app run_props].
  - destruct (run_props b r) as [r2 [vb|e]]; reflexivity.
  - destruct (plain_rop x r) as [r1 [v|e]]; [|reflexivity]. rewrite IH.
    destruct (run_props a r1) as [r2 [va|e]]; [|reflexivity]. destruct (run_props b r2) as [r3 [vb|e]]; reflexivity.
Qed.

Theorem seek_then_decode o ops : Forall wf_op ops ->
  exists enc, spec_wops o ops ([], None) = ((enc, None), map (fun _ => None) ops) /\
    forall r p rest, r_ord r = o -> p <= rlen r -> skipn (N.to_nat p) (r_buf r) = enc ++ rest ->
      run_props (RSeek (Z.of_N p) :: map inv_op ops) r =
      (mkR (r_buf r) (p + N.of_nat (length enc)) o None (total_cnt ops), inl (RVUnit :: map val_op ops)).
Proof.
  intros Hwf. destruct (ops_roundtrip o ops Hwf) as (enc & Hs & Hc & Hrd). exists enc. split; [exact Hs|].
  intros r p rest Ho Hp Hrem. cbn [run_props]. rewrite seek_spec by lia. rewrite N2Z.id.
  set (r1 := mkR (r_buf r) p (r_ord r) None 0).
  assert (Hlen : N.of_nat (length enc) + p <= rlen r).
  { unfold rlen. apply (f_equal (@length N)) in Hrem. rewrite skipn_length, app_length in Hrem. unfold rlen in Hp. lia. }
  rewrite (Hrd r1 rest eq_refl Ho Hrem) by (unfold r1, rlen in *; cbn [r_elems r_buf]; lia).
  unfold r1. cbn [r_buf r_pos r_elems]. rewrite N.add_0_l. reflexivity.
Qed.
(** ... and again, and again: [n] passes over the same bytes *)
Theorem seek_reread_n o ops n : Forall wf_op ops ->
  exists enc, spec_wops o ops ([], None) = ((enc, None), map (fun _ => None) ops) /\
    forall r p rest, r_ord r = o -> p <= rlen r -> skipn (N.to_nat p) (r_buf r) = enc ++ rest ->
      run_props (concat (repeat (RSeek (Z.of_N p) :: map inv_op ops) (S n))) r =
      (mkR (r_buf r) (p + N.of_nat (length enc)) o None (total_cnt ops), inl (concat (repeat (RVUnit :: map val_op ops) (S n)))).
Proof.
  intros Hwf. destruct (seek_then_decode o ops Hwf) as (enc & Hs & Hone). exists enc. split; [exact Hs|].
  intros r p rest Ho Hp Hrem. revert r Ho Hp Hrem. induction n as [|n IH]; intros r Ho Hp Hrem.
  - cbn [repeat concat]. rewrite !app_nil_r. apply (Hone r p rest Ho Hp Hrem).
  - change (repeat ?x (S (S n))) with (x :: repeat x (S n)). cbn [concat]. rewrite run_props_app, (Hone r p rest Ho Hp Hrem).
    rewrite (IH (mkR (r_buf r) (p + N.of_nat (length enc)) o None (total_cnt ops)) eq_refl Hp Hrem). reflexivity.
Qed.

Definition reread_ty : goty := TSlice false (TBasic BBool).
Definition reread_val : goval := VList [VB true; VB true; VB true; VB true; VB true].
Definition reread_data : bytes := flat (writeC BE reread_ty reread_val).
Lemma seek_reread_regression :
  run_props [RRead reread_ty; RSeek 0; RRead reread_ty; RSeek 0; RRead reread_ty] (new_reader reread_data) =
  (mkR reread_data 9 BE None 5, inl [RVGo reread_val; RVUnit; RVGo reread_val; RVUnit; RVGo reread_val]).
Proof. vm_compute. reflexivity. Qed.

(** * no crash, no fuel: every functional reader the Reader machine runs ends in Ok or Err, for both orders *)
Theorem reader_okerr :
  (forall o b bs, okerr (fst (rprimO o b bs))) /\
  (forall o k bs, (1 <= k)%nat -> okerr (fst (lpnO o k bs))) /\
  (forall o tot ty st, okerr (fst (readO o tot ty st))) /\
  (forall o tot tys st, okerr (fst (read_intoO o tot tys st))) /\
  (forall o bs, okerr (fst (msg_frame o bs))).
Proof.
  repeat split; intros.
  - eapply bounded_okerr, goodB_bounded, rprimO_good.
  - eapply bounded_okerr, lpnO_bounded; assumption.
  - apply readO_okerr.
  - destruct (read_intoO_good o tot tys st) as [(v & st' & h & -> & _)|(e & -> & _)]; auto.
  - eapply bounded_okerr, msg_frame_bounded.
Qed.

(** * machine-level corollaries of the refinement *)
(** Reset makes any Writer — whatever it holds, whatever its error, capacity or origin — behave as a new one *)
Theorem reset_forgets ops w p w' p' es : w_ok w -> wpool_clean p = true ->
  run_wops (WReset :: ops) w p = (w', p', es) ->
  (abs w', tl es) = spec_wops (w_ord w) ops ([], None).
Proof.
  intros Hok Hc Hrun. destruct (run_wops_refines _ w p w' p' es Hok Hc Hrun) as (Hs & _).
  cbn [spec_wops spec_wop spec_plain] in Hs. destruct (spec_wops (w_ord w) ops ([], None)) as [a2 es2].
  injection Hs as -> ->. reflexivity.
Qed.
(** a Writer in the error state ignores everything but Reset; WriteMessage on it fails *)
Theorem writer_sticky op w p w' p' r e : w_ok w -> wpool_clean p = true -> w_err w = Some e -> op <> WReset ->
  run_wop op w p = (w', p', r) -> abs w' = abs w /\ (is_plain op = false -> r <> None).
Proof.
  intros Hok Hc He Hn Hrun. destruct (run_wop_refines op w p w' p' r Hok Hc Hrun) as (Hs & _).
  pose proof (spec_wop_sticky (w_ord w) op (w_buf w) e Hn) as H1. unfold abs in Hs at 2. rewrite He in Hs.
  split.
  - rewrite <- Hs in H1. cbn [fst] in H1. unfold abs at 2. rewrite He. exact H1.
  - intros Hp. destruct (spec_wop_sticky_msg (w_ord w) op (w_buf w) e Hp) as [x Hx]. rewrite <- Hs in Hx. cbn [snd] in Hx. rewrite Hx. discriminate.
Qed.
(** a failed WriteMessage leaves Bytes() and Err() as they were *)
Theorem writemessage_rollback name body ret w p w' p' e : w_ok w -> wpool_clean p = true ->
  run_wop (WMsgReg name body ret) w p = (w', p', Some e) -> abs w' = abs w.
Proof.
  intros Hok Hc Hrun. destruct (run_wop_refines _ w p w' p' (Some e) Hok Hc Hrun) as (Hs & _).
  pose proof (nested_rollback (w_ord w) name body ret (abs w) e) as H. rewrite <- Hs in H. cbn [fst snd] in H. exact (H eq_refl).
Qed.
