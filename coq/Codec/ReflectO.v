(** Byte-order parametric version of the generic Writer.Write / Reader.Read model ([Codec.Reflect]),
    in the form the Writer/Reader STATE MACHINES of [Codec.Buf] need:

    - the writer returns the list of CHUNKS it appends (one chunk per [append] of the Go code, i.e. per
      [ensureCapacity]: a string is two chunks, length prefix and data) together with its outcome; on an
      error the chunks written before the failing element are still returned — they stay in the buffer of
      the real Writer while its sticky error is set;
    - the reader's meter has two more components: the number of input bytes consumed and the number of slice
      elements added to the Reader's element counter — accumulated on the failure path as well, so that the
      position and the element counter of a Reader after a FAILED Read are determined.

    Types, values and the notions [has_typeb], [supported], [fits], [cnt], [norm], [zero], [wire0], [tsize]
    are those of [Codec.Reflect].  [ReflectOProofs] proves that for [o = BE] the functions below compute
    exactly the results of [Codec.Reflect] and that the round trip holds for both orders. *)
From Coq Require Import List NArith ZArith Lia Bool.
From Vivid Require Import Codec.Prim Codec.Prim2 Codec.PrimO Codec.Reflect.
Import ListNotations.
Local Open Scope N_scope.

(** ** writer: chunks + outcome *)
Definition wres : Type := (list bytes * out unit)%type.
Definition wok (cs : list bytes) : wres := (cs, OOk tt).
Definition wfail (e : err) : wres := ([], OErr e).
Definition will : wres := ([], OIll).
(** run [a]; if it succeeded run [b] after it *)
Definition wthen (a b : wres) : wres :=
  match snd a with
  | OOk _ => (fst a ++ fst b, snd b)
  | _ => a
  end.
Definition flat (r : wres) : bytes := concat (fst r).

Section Order.
  Variable o : order.

  (** the WriteXxx primitive for an unnamed basic type: one [append] each, a string two
      (WriteBytesWithLength = WriteUint32(len) then WriteBytes) *)
  Definition wprimC (b : basic) (v : goval) : wres :=
    match b, v with
    | BU8, VN n => wok [put_u8 n] | BU16, VN n => wok [put_u16O o n] | BU32, VN n => wok [put_u32O o n] | BU64, VN n => wok [put_u64O o n]
    | BI8, VZ z => wok [put_i8 z] | BI16, VZ z => wok [put_i16O o z] | BI32, VZ z => wok [put_i32O o z] | BI64, VZ z => wok [put_i64O o z]
    | BF32, VN n => wok [put_u32O o n] | BF64, VN n => wok [put_u64O o n]
    | BBool, VB x => wok [put_bool x]
    | BStr, VS s => wok [put_u32O o (N.of_nat (length s)); s]
    | _, _ => will
    end.

  (** writeReflect, see [Reflect.wrefl] *)
  Fixpoint wreflC (ty : goty) (v : goval) {struct v} : wres :=
    match v with
    | VN _ | VZ _ | VB _ | VS _ =>
        match ty with
        | TBasic b => wprimC b v
        | TNamed _ | TInt | TUint => wfail EUnsupported
        | _ => will
        end
    | VNil =>
        match ty with
        | TPtr _ => wfail EInvalid
        | TIface => wfail EUnsupported
        | TSlice _ _ => wok [put_u32O o 0]
        | TMap | TChan | TFunc => wfail EUnsupported
        | _ => will
        end
    | VOpaque => match ty with TMap | TChan | TFunc => wfail EUnsupported | _ => will end
    | VPtr x =>
        match ty with
        | TPtr t =>
            match t, x with
            | TIface, VIface (TBasic b) y => wprimC b y
            | TIface, _ => wfail EUnsupported
            | _, _ => wreflC t x
            end
        | _ => will
        end
    | VIface t x => match ty with TIface => wreflC t x | _ => will end
    | VList l =>
        match ty with
        | TSlice _ e | TArray _ e =>
            wthen (wok [put_u32O o (N.of_nat (length l))])
                  ((fix wl (l : list goval) : wres :=
                      match l with
                      | [] => wok []
                      | x :: r => wthen (wreflC e x) (wl r)
                      end) l)
        | _ => will
        end
    | VStruct l =>
        match ty with
        | TStruct fs =>
            (fix wf (fs : list (bool * goty)) (l : list goval) {struct l} : wres :=
               match fs, l with
               | [], [] => wok []
               | (ex, t) :: fr, x :: r =>
                   if ex then wthen (wreflC t x) (wf fr r) else wf fr r
               | _, _ => will
               end) fs l
        | _ => will
        end
    end.

  (** Writer.Write(v), see [Reflect.write] *)
  Definition writeC (ty : goty) (v : goval) : wres :=
    match ty with
    | TBasic b => wprimC b v
    | TPtr (TBasic b) => match v with VNil => wfail EInvalid | VPtr x => wprimC b x | _ => will end
    | TSlice false (TBasic BU8) =>
        match v with
        | VNil => wok [put_u32O o 0; []]
        | VList l => wok [put_u32O o (N.of_nat (length l)); map byte_of l]
        | _ => will
        end
    | TPtr (TSlice false (TBasic BU8)) =>
        match v with
        | VNil => wok [put_u32O o 0]
        | VPtr VNil => wok [put_u32O o 0; []]
        | VPtr (VList l) => wok [put_u32O o (N.of_nat (length l)); map byte_of l]
        | _ => will
        end
    | _ => wreflC ty v
    end.

  (** WriteFrom(vals...): stops at the first error; what was written stays in the buffer *)
  Fixpoint write_fromC (vals : list (goty * goval)) : wres :=
    match vals with
    | [] => wok []
    | (t, v) :: r => wthen (writeC t v) (write_fromC r)
    end.

  (** ** reader.  meter = ((bytes requested from the allocator, loop iterations), (input bytes consumed,
      slice elements added to Reader.elems)) *)
  Definition costO : Type := ((N * N) * (N * N))%type.
  Definition c0 : costO := ((0, 0), (0, 0)).
  Definition MO (A : Type) : Type := (out A * costO)%type.
  Definition caddO (c d : costO) : costO :=
    ((fst (fst c) + fst (fst d), snd (fst c) + snd (fst d)), (fst (snd c) + fst (snd d), snd (snd c) + snd (snd d))).
  Definition retO {A} (a : A) : MO A := (OOk a, c0).
  Definition failO {A} (e : err) : MO A := (OErr e, c0).
  Definition tickO {A} (c : costO) (m : MO A) : MO A := (fst m, caddO c (snd m)).
  Definition bindO {A B} (m : MO A) (f : A -> MO B) : MO B :=
    match fst m with
    | OOk a => tickO (snd m) (f a)
    | OErr e => (OErr e, snd m)
    | OPanic w => (OPanic w, snd m)
    | OFuel => (OFuel, snd m)
    | OIll => (OIll, snd m)
    end.
  Definition c_alloc (n : N) : costO := ((n, 0), (0, 0)).
  Definition c_iter (n : N) : costO := ((0, n), (0, 0)).
  Definition c_cons (n : N) : costO := ((0, 0), (n, 0)).
  Definition c_elems (n : N) : costO := ((0, 0), (0, n)).
  Definition consumedO {A} (m : MO A) : N := fst (snd (snd m)).
  Definition elemsO {A} (m : MO A) : N := snd (snd (snd m)).

  (** a fixed-width read: check(k) fails without moving; success consumes k *)
  Definition fixedO {A} (k : nat) (f : N -> A) (bs : bytes) : MO (A * bytes) :=
    match rd_uintO o k bs with
    | Ok (n, t) => tickO (c_cons (N.of_nat k)) (retO (f n, t))
    | Err e => failO e
    end.
  (** ReadBytesWithLength(4): ReadUint32 (consumes 4), then ReadBytes(n): check(n) fails without moving further;
      success: make(n) + copy *)
  Definition lp4O (bs : bytes) : MO (bytes * bytes) :=
    bindO (fixedO 4 (fun n => n) bs) (fun p =>
      match take_N (fst p) (snd p) with
      | Ok (s, t) => tickO (c_cons (fst p)) (tickO (c_alloc (fst p)) (retO (s, t)))
      | Err e => failO e
      end).

  Definition rprimO (b : basic) (bs : bytes) : MO (goval * bytes) :=
    match b with
    | BU8 => fixedO 1 VN bs
    | BU16 => fixedO 2 VN bs
    | BU32 => fixedO 4 VN bs
    | BU64 => fixedO 8 VN bs
    | BI8 => fixedO 1 (fun n => VZ (to_signed 8 n)) bs
    | BI16 => fixedO 2 (fun n => VZ (to_signed 16 n)) bs
    | BI32 => fixedO 4 (fun n => VZ (to_signed 32 n)) bs
    | BI64 => fixedO 8 (fun n => VZ (to_signed 64 n)) bs
    | BF32 => fixedO 4 VN bs
    | BF64 => fixedO 8 VN bs
    | BBool => fixedO 1 (fun n => VB (negb (n =? 0))) bs
    | BStr =>   (* ReadBytes copies (make n) after the bounds check, string(data) copies again *)
        bindO (lp4O bs) (fun p => tickO (c_alloc (N.of_nat (length (fst p)))) (retO (VS (fst p), snd p)))
    end.

  Definition with_elO {A} (el : N) (m : MO (A * bytes)) : MO (A * rst) :=
    bindO m (fun p => retO (fst p, (snd p, el))).

  Fixpoint rd_elemsO (rd : rst -> MO (goval * rst)) (fuel : nat) (n : N) (st : rst) : MO (list goval * rst) :=
    if n =? 0 then retO ([], st) else
    match fuel with
    | O => (OFuel, c0)
    | S f => bindO (rd st) (fun p => tickO (c_iter 1) (bindO (rd_elemsO rd f (n - 1) (snd p)) (fun q => retO (fst p :: fst q, snd q))))
    end.

  (** Reader.Read(&x), see [Reflect.read] *)
  Fixpoint readO (tot : N) (ty : goty) (st : rst) {struct ty} : MO (goval * rst) :=
    let bs := fst st in let el := snd st in
    match ty with
    | TBasic b => with_elO el (rprimO b bs)
    | TSlice named e =>
        if negb named && (match e with TBasic BU8 => true | _ => false end) then
          with_elO el (bindO (lp4O bs) (fun p => retO (VList (map VN (fst p)), snd p)))
        else
          bindO (fixedO 4 (fun n => n) bs) (fun p =>
            let n := fst p in let t := snd p in
            if N.of_nat (length t) <? n then failO EEOF                 (* int64(length) > RemainingSize(): before allocating *)
            else tickO (c_elems n)                                      (* r.elems += length — also when the next check fails *)
              (if tot <? el + n then failO EEOF                         (* r.elems > len(r.buf) *)
               else
               tickO (c_alloc (n * tsize e))                            (* reflect.MakeSlice(type, n, n) *)
                 (if wire0 e then (OOk (VList (repeat (zero e) (N.to_nat n)), (t, el + n)), c_iter n)
                  else bindO (rd_elemsO (readO tot e) (S (length t)) n (t, el + n)) (fun q => retO (VList (fst q), snd q)))))
    | TArray n e =>
        tickO (c_alloc (n * tsize e))                                   (* reflect.New(array type) *)
          (bindO (fixedO 4 (fun n => n) bs) (fun p =>
             let m := fst p in let t := snd p in
             if negb (m =? n) then failO EInvalid                       (* "array length mismatch" *)
             else if wire0 e then (OOk (VList (repeat (zero e) (N.to_nat n)), (t, el)), c_iter n)
             else bindO (rd_elemsO (readO tot e) (S (length t)) n (t, el)) (fun q => retO (VList (fst q), snd q))))
    | TStruct fs =>
        tickO (c_alloc (tsize ty))                                      (* reflect.New(struct type) *)
          (bindO ((fix rf (fs : list (bool * goty)) (st : rst) : MO (list goval * rst) :=
                     match fs with
                     | [] => retO ([], st)
                     | (ex, t) :: r =>
                         if ex then bindO (readO tot t st) (fun p => bindO (rf r (snd p)) (fun q => retO (fst p :: fst q, snd q)))
                         else bindO (rf r st) (fun q => retO (zero t :: fst q, snd q))
                     end) fs st)
                 (fun q => retO (VStruct (fst q), snd q)))
    | _ => failO EUnsupported
    end.

  Definition read0O (ty : goty) (bs : bytes) : MO (goval * rst) := readO (N.of_nat (length bs)) ty (fresh bs).

  (** ReadInto(&a, &b, ...) *)
  Fixpoint read_intoO (tot : N) (tys : list goty) (st : rst) : MO (list goval * rst) :=
    match tys with
    | [] => retO ([], st)
    | t :: r => bindO (readO tot t st) (fun p => bindO (read_intoO tot r (snd p)) (fun q => retO (fst p :: fst q, snd q)))
    end.
End Order.
