(** Envelope and handshake: round trip, totality, allocation. *)
From Coq Require Import List NArith ZArith Lia Bool.
From Coq Require Import ZifyN ZifyNat ZifyBool.
From stdpp Require Import gmap.
From Vivid Require Import Codec.Prim Codec.PrimProofs Codec.MsgPrim Codec.MsgPrimProofs Cluster.VV
  Codec.ClusterMsgs Codec.ClusterMsgsProofs Codec.Msgs Codec.MsgsProofs Codec.MsgsTotalProofs Codec.Envelope.
Local Open Scope N_scope.

(** * handshake *)
Theorem handshake_rt addr rest :
  N.of_nat (length addr) <= hs_max ->
  drun dec_handshake (enc_handshake addr ++ rest) = MOk (addr, rest).
Proof.
  intros H. unfold dec_handshake, enc_handshake, put_lp4, hs_max in *.
  rt_step. replace (4096 <? N.of_nat (length addr)) with false by (symmetry; apply N.ltb_ge; exact H).
  rt_step. unfold drun. rewrite take_N_app. reflexivity.
Qed.
Theorem handshake_too_long addr rest :
  hs_max < N.of_nat (length addr) < 2 ^ 32 ->
  drun dec_handshake (enc_handshake addr ++ rest) = MErr (ME ETooLarge).
Proof.
  intros [H1 H2]. change (2 ^ 32) with 4294967296 in H2. unfold dec_handshake, enc_handshake, put_lp4, hs_max in *.
  rt_step. replace (4096 <? N.of_nat (length addr)) with true by (symmetry; apply N.ltb_lt; exact H1). reflexivity.
Qed.
Lemma safe_handshake : safe dec_handshake.
Proof.
  unfold dec_handshake. apply safe_bind; [safe_tac|intros n]. destruct (hs_max <? n); [safe_tac|].
  apply safe_bind; [safe_tac|intros _]. intros bs e. unfold drun. destruct (take_N n bs) as [[a t]|]; cbn; [discriminate|].
  intros [= <-]. apply not_bad_ME.
Qed.
Lemma addb_handshake : addb (4 + hs_max) dec_handshake.
Proof.
  unfold dec_handshake. change (4 + hs_max) with (0 + (4 + hs_max)). apply addb_bind; [apply addb_u32|intros n].
  destruct (N.ltb_spec hs_max n); [eapply addb_weaken; [|apply addb_dfail]; vm_compute; discriminate|].
  eapply addb_weaken with (K := (4 + n) + 0); [lia|]. apply addb_bind; [apply addb_dalloc|intros _].
  intros bs. destruct (take_N n bs) as [[a t]|] eqn:E; [|lia]. apply take_N_len in E. lia.
Qed.
(** a failed Wait leaves the caller's address untouched *)
Theorem handshake_no_clobber old stream e :
  drun dec_handshake stream = MErr e -> handshake_wait old stream = (old, Some e).
Proof. unfold handshake_wait, drun. intros ->. reflexivity. Qed.

Section Envelope.
  Variable U : Type.
  Variable has_codec : bool.
  Variable cenc : U -> mres bytes.
  Variable cdec : bytes -> mres U.
  Variable qerr : Z -> option bytes.
  Variable newref : bytes -> bytes -> mres (bytes * bytes).

  Notation msg := (msg U).
  Notation enc_body := (enc_body U has_codec cenc).
  Notation dec_body := (dec_body U has_codec cdec qerr newref).
  Notation enc_envelope := (enc_envelope U has_codec cenc).
  Notation dec_envelope := (dec_envelope U has_codec cdec qerr newref).
  Notation valid_envelope := (valid_envelope U has_codec cenc cdec qerr newref).
  Notation expected_out := (expected_out U).

  Lemma strs_valid r : valid_ref r -> len32 (fst (strs_of r)) /\ len32 (snd (strs_of r)).
  Proof. destruct r; cbn; intros H; try apply H; split; vm_compute; reflexivity. Qed.

  (** system flag, sender, receiver and payload survive; absent refs come back as empty strings *)
  Theorem envelope_rt (e : envelope U) rest :
    valid_envelope e -> fits U has_codec cenc (e_msg U e) ->
    exists b, enc_envelope e = MOk b /\ drun dec_envelope (b ++ rest) = MOk (expected_out e, rest).
  Proof.
    destruct e as [sys s r m]. unfold Envelope.valid_envelope. cbn [e_system e_sender e_receiver e_msg].
    intros (Vs & Vr & Tm & Vm) Hfit.
    destruct (strs_valid s Vs) as (Ls1 & Ls2). destruct (strs_valid r Vr) as (Lr1 & Lr2).
    pose proof (rt_Q U has_codec cenc cdec qerr newref m Tm Vm) as HQ. unfold Q in HQ.
    destruct (kind_of U m) as [k|] eqn:Ek.
    - destruct HQ as (b & Hb & Hd). assert (Hlb : len32 b) by (apply Hfit; exact Hb).
      exists (put_lp4 b ++ put_lp4 (name_of k) ++ put_bool sys ++
              put_lp4 (fst (strs_of s)) ++ put_lp4 (snd (strs_of s)) ++ put_lp4 (fst (strs_of r)) ++ put_lp4 (snd (strs_of r))).
      split.
      + unfold Envelope.enc_envelope. cbn [e_system e_sender e_receiver e_msg].
        destruct m; try (cbn in Ek; discriminate); cbn [kind_of] in Ek |- *; injection Ek as <-;
          unfold serialize_remoting; rewrite Hb; cbn [mbind fst snd]; rewrite <- ?app_assoc; reflexivity.
      + unfold Envelope.dec_envelope. pose proof (name_of_len32 k).
        do 7 rt_step. rewrite kind_of_name_of. unfold drun, deserialize_remoting.
        assert (Hfb : (length (b ++ []) < S (length b))%nat) by (rewrite app_nil_r; lia).
        specialize (Hd [] _ Hfb). rewrite app_nil_r in Hd. unfold drun in Hd.
        destruct (dec_body (S (length b)) k b) as [a res]. cbn [snd] in Hd. subst res. reflexivity.
    - destruct m; cbn in Ek; try discriminate. cbn [Msgs.valid_msg] in Vm.
      destruct Vm as (Hc & d & He & Hld & Hdd).
      exists (put_lp4 d ++ put_lp4 [] ++ put_bool sys ++
              put_lp4 (fst (strs_of s)) ++ put_lp4 (snd (strs_of s)) ++ put_lp4 (fst (strs_of r)) ++ put_lp4 (snd (strs_of r))).
      split.
      + unfold Envelope.enc_envelope. cbn [e_system e_sender e_receiver e_msg]. rewrite Hc, He.
        cbn [mbind fst snd]. rewrite <- ?app_assoc. reflexivity.
      + unfold Envelope.dec_envelope. assert (len32 []) by (vm_compute; reflexivity).
        do 7 rt_step. rewrite kind_of_name_nil, Hc. unfold drun. rewrite Hdd. reflexivity.
  Qed.

  (** the receiver's reading of the four strings gives the refs back (a present ref made of two
      empty strings is the one exception: it reads back as absent) *)
  Lemma ref_of_strs_of r :
    r <> RTypedNil -> r <> RRef [] [] -> ref_of_strs (fst (strs_of r)) (snd (strs_of r)) = r.
  Proof.
    destruct r as [|a p|]; cbn; intros H Hne; try congruence.
    unfold ref_of_strs. destruct a, p; cbn; try reflexivity. congruence.
  Qed.

  (** user code returns a value or an error *)
  Hypothesis cenc_total : forall u e, cenc u = MErr e -> ~ bad e.
  Hypothesis cdec_total : forall d e, cdec d = MErr e -> ~ bad e.
  Hypothesis newref_total : forall a p e, newref a p = MErr e -> ~ bad e.

  Theorem dec_envelope_safe : safe dec_envelope.
  Proof.
    unfold Envelope.dec_envelope. apply safe_bind; [safe_tac|intros a]. apply safe_bind; [safe_tac|intros nm].
    do 5 (apply safe_bind; [safe_tac|intros ?]).
    intros bs e. unfold drun. destruct (kind_of_name nm) as [k|].
    - unfold deserialize_remoting.
      destruct (dec_body (S (length a)) k a) as [c [[m t]|e']] eqn:E; cbn; [discriminate|].
      intros [= <-]. apply (dec_body_safe U has_codec cenc cdec qerr newref cenc_total cdec_total newref_total (S (length a)) k a e').
      + lia.
      + unfold drun. rewrite E. reflexivity.
    - destruct has_codec; cbn.
      + destruct (cdec a) eqn:E; cbn; [discriminate|]. intros [= <-]. apply (cdec_total _ _ E).
      + intros [= <-] [X|X]; discriminate.
  Qed.

  (** encoding an envelope returns a value or an error *)
  Theorem enc_envelope_safe (e : envelope U) er : enc_envelope e = MErr er -> ~ bad er.
  Proof.
    destruct e as [sys s r m]. unfold Envelope.enc_envelope.
    cbn [e_system e_sender e_receiver e_msg]. intros H.
    apply mbind_inv in H as [H|(pn & _ & H)]; [|discriminate].
    assert (Hreg : forall k, (let*m b := serialize_remoting U has_codec cenc m in MOk (b, name_of k)) = MErr er -> ~ bad er).
    { intros k H'. apply mbind_inv in H' as [H'|(b & _ & H')]; [|discriminate].
      unfold serialize_remoting in H'. apply mbind_inv in H' as [H'|(b & _ & H')]; [|discriminate].
      apply (enc_body_safe U has_codec cenc cenc_total m er H'). }
    destruct m; cbn [kind_of] in H; try (apply (Hreg _ H)).
    destruct has_codec; [|injection H as <-; intros [X|X]; discriminate].
    apply mbind_inv in H as [H|(d & _ & H)]; [apply (cenc_total _ _ H)|discriminate].
  Qed.

End Envelope.

Section EnvelopeAlloc.
  Variable U : Type.
  Variable has_codec : bool.
  Variable cdec : bytes -> mres U.
  Variable qerr : Z -> option bytes.
  Variable newref : bytes -> bytes -> mres (bytes * bytes).
  Notation dec_envelope := (dec_envelope U has_codec cdec qerr newref).

  (** allocation: the payload and the strings are copied once, the payload is then decoded in place *)
  Theorem dec_envelope_linb : linb 11 K_map dec_envelope.
  Proof.
    intros bs. unfold Envelope.dec_envelope.
    unfold dbind at 1, d_str. destruct (rd_lp4 bs) as [[data b1]|] eqn:E1; [apply rd_lp4_len in E1|lia].
    unfold dbind at 1. destruct (rd_lp4 b1) as [[name b2]|] eqn:E2; [apply rd_lp4_len in E2|lia].
    unfold dbind at 1, d_bool, dlift, rd_bool, rd_u8. destruct (rd_uint 1 b2) as [[sy b3]|] eqn:E3; cbn [bind mlift]; [apply rd_uint_len in E3|lia].
    unfold dbind at 1. destruct (rd_lp4 b3) as [[sa b4]|] eqn:E4; [apply rd_lp4_len in E4|lia].
    unfold dbind at 1. destruct (rd_lp4 b4) as [[sp b5]|] eqn:E5; [apply rd_lp4_len in E5|lia].
    unfold dbind at 1. destruct (rd_lp4 b5) as [[ra b6]|] eqn:E6; [apply rd_lp4_len in E6|lia].
    unfold dbind. destruct (rd_lp4 b6) as [[rp b7]|] eqn:E7; [apply rd_lp4_len in E7|lia].
    destruct (kind_of_name name) as [k|].
    - pose proof (deserialize_linb U has_codec cdec qerr newref k data) as Hd.
      destruct (deserialize_remoting U has_codec cdec qerr newref k data) as [a [[m t]|e]]; lia.
    - destruct has_codec; [destruct (cdec data)|]; lia.
  Qed.
End EnvelopeAlloc.


