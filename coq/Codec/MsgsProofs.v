(** Round trips of the registered messages (Msgs.v): flat codecs, then the whole universe by
    structural induction (nested messages through WriteMessage / ReadMessage). *)
From Coq Require Import List NArith ZArith Lia Bool String.
From Coq Require Import ZifyN ZifyNat ZifyBool.
From stdpp Require Import gmap.
From Vivid Require Import Codec.Prim Codec.PrimProofs Codec.MsgPrim Codec.MsgPrimProofs Cluster.VV Cluster.VVProofs
  Codec.ClusterMsgs Codec.ClusterMsgsProofs Codec.Msgs.
From Vivid Require Import Generated.MsgRegistry.
Local Open Scope N_scope.

(** the byte literals of [name_of] spell the wire names *)
Lemma name_of_spelling k : name_of k = str (name_text k).
Proof. destruct k; reflexivity. Qed.
Lemma kind_of_name_of k : kind_of_name (name_of k) = Some k.
Proof. destruct k; vm_compute; reflexivity. Qed.
Lemma kind_of_name_nil : kind_of_name [] = None.
Proof. reflexivity. Qed.
Lemma name_of_len32 k : len32 (name_of k).
Proof. destruct k; vm_compute; reflexivity. Qed.
Lemma texts_spelling :
  txt_exception = str "exception: " /\ txt_error_code = str "error code " /\ txt_not_found = str " not found, message: ".
Proof. repeat split. Qed.

(** every wire name found at a registration site of the tree under test has a codec in the table, and
    no registration uses a computed name *)
Definition registry_covered : bool :=
  forallb (fun n => existsb (bytes_eqb n) codec_names) msg_registry && is_nil msg_registry_dynamic.
Lemma registry_covered_ok : registry_covered = true.
Proof. vm_compute. reflexivity. Qed.
(** ... and the table has no entry that is not registered *)
Definition registry_exact : bool :=
  forallb (fun n => existsb (bytes_eqb n) msg_registry) codec_names.
Lemma registry_exact_ok : registry_exact = true.
Proof. vm_compute. reflexivity. Qed.

(** * flat codecs *)
Theorem Pong_rt p r rest : in_i64 p -> in_i64 r -> drun dec_Pong (enc_Pong p r ++ rest) = MOk ((p, r), rest).
Proof. intros H1 H2. unfold dec_Pong, enc_Pong. do 3 rt_step. reflexivity. Qed.
Theorem Error_rt c t rest : in_i32 c -> len32 t -> drun dec_Error (enc_Error c t ++ rest) = MOk ((c, t), rest).
Proof. intros H1 H2. unfold dec_Error, enc_Error. do 3 rt_step. reflexivity. Qed.
Theorem Command_rt c rest : c < 256 -> drun dec_Command (enc_Command c ++ rest) = MOk (c, rest).
Proof. intros H. apply drun_u8. exact H. Qed.
Theorem Ping_rt t rest : in_i64 t -> drun dec_Ping (enc_Ping t ++ rest) = MOk (t, rest).
Proof. intros H. apply drun_i64. exact H. Qed.
Theorem PongMessage_rt p r rest :
  in_i64 p -> in_i64 r ->
  enc_PongMessage (Some p) r = MOk (put_i64 p ++ put_i64 r) /\
  drun dec_PongMessage ((put_i64 p ++ put_i64 r) ++ rest) = MOk ((Some p, r), rest).
Proof. intros H1 H2. split; [reflexivity|]. unfold dec_PongMessage. do 3 rt_step. reflexivity. Qed.

Section Universe.
  Variable U : Type.
  Variable has_codec : bool.
  Variable cenc : U -> mres bytes.
  Variable cdec : bytes -> mres U.
  Variable qerr : Z -> option bytes.
  Variable newref : bytes -> bytes -> mres (bytes * bytes).

  Notation msg := (msg U).
  Notation enc_body := (enc_body U has_codec cenc).
  Notation dec_body := (dec_body U has_codec cdec qerr newref).
  Notation write_message := (write_message U has_codec cenc).
  Notation read_message_with := (read_message_with U has_codec cdec).
  Notation valid_msg := (valid_msg U has_codec cenc cdec qerr newref).
  Notation ty_msg := (ty_msg U).
  Notation valid_kref := (valid_kref newref).
  Notation d_ref := (d_ref newref).

  Lemma ref_rt k rest : valid_kref k -> drun d_ref (w_ref k ++ rest) = MOk (k, rest).
  Proof.
    destruct k as [|a p|]; cbn [valid_kref w_ref]; [intros _| intros (Ha & Hp & Hne & Hn) | contradiction]; unfold d_ref.
    - do 2 rt_step. reflexivity.
    - do 2 rt_step.
      replace (is_nil a && is_nil p) with false by (destruct a, p; cbn; try reflexivity; destruct Hne; congruence).
      rewrite Hn. reflexivity.
  Qed.
  Theorem OnKill_rt k r p rest :
    valid_kref k -> len32 r ->
    drun (dec_OnKill newref) (enc_OnKill k r p ++ rest) = MOk ((k, r, p), rest).
  Proof.
    intros Hk Hr. unfold dec_OnKill, enc_OnKill.
    rewrite <- ?app_assoc. erewrite drun_bind_ok by (apply ref_rt; exact Hk).
    do 3 rt_step. reflexivity.
  Qed.
  Theorem OnKilled_rt k rest :
    valid_kref k -> drun (dec_OnKilled newref) (enc_OnKilled k ++ rest) = MOk (k, rest).
  Proof. intros Hk. apply ref_rt. exact Hk. Qed.

  (** pipeResultWriter / pipeResultReader error mapping *)
  Lemma perr_rt e : ty_perr e -> valid_perr qerr e ->
    exists c t, perr_wire e = MOk (c, t) /\ in_i32 c /\ len32 t /\ perr_of_wire qerr c t = e.
  Proof.
    destruct e as [|c t|t|]; cbn [ty_perr valid_perr]; try contradiction.
    - intros _ _. exists 0%Z, []. repeat split; try (unfold in_i32; lia); try (vm_compute; reflexivity).
    - intros Tc (Hc & Ht & reg & Hq & Hor). exists c, t. repeat split; try assumption; try apply Tc.
      unfold perr_of_wire. replace (c =? 0)%Z with false by (symmetry; apply Z.eqb_neq; exact Hc).
      rewrite Hq. destruct Hor as [Hne| ->].
      + destruct t as [|x t]; [congruence|]. cbn [is_nil negb andb].
        destruct (bytes_eqb (x :: t) reg) eqn:E; [|reflexivity]. cbn [negb].
        f_equal. clear -E. revert reg E. generalize (x :: t). intros a.
        induction a as [|y a IH]; intros [|z reg] E; cbn in E; try discriminate; [reflexivity|].
        apply andb_true_iff in E as [E1 E2]. apply N.eqb_eq in E1. subst. f_equal. apply IH. exact E2.
      + assert (bytes_eqb reg reg = true) as ->.
        { clear. induction reg as [|y a IH]; cbn; [reflexivity|]. rewrite N.eqb_refl, IH. reflexivity. }
        rewrite andb_false_r. reflexivity.
  Qed.

  (** ** the universe *)
  Definition Q (m : msg) : Prop :=
    match kind_of U m with
    | Some k => exists b, enc_body m = MOk b /\
        forall rest fuel, (length (b ++ rest) < fuel)%nat -> drun (dec_body fuel k) (b ++ rest) = MOk (m, rest)
    | None => True
    end.
  Definition W (m : msg) : Prop :=
    exists w, write_message m = MOk w /\ (8 <= length w)%nat /\
      forall rest fuel, (length w < fuel)%nat -> drun (read_message_with (dec_body fuel)) (w ++ rest) = MOk (m, rest).

  Lemma put_lp4_length b : length (put_lp4 b) = (4 + length b)%nat.
  Proof. unfold put_lp4, put_u32. rewrite app_length, be_length. reflexivity. Qed.

  Lemma Q_W m : valid_msg m -> fits U has_codec cenc m -> Q m -> W m.
  Proof.
    intros Hv Hfit HQ. unfold Q in HQ.
    destruct (kind_of U m) as [k|] eqn:Ek.
    - destruct HQ as (b & Hb & Hd).
      assert (Hlb : len32 b) by (apply Hfit; exact Hb).
      exists (put_lp4 b ++ put_lp4 (name_of k)). split; [|split].
      + unfold write_message, write_message_with. fold enc_body.
        destruct m; try (cbn in Ek; discriminate); cbn [kind_of] in Ek |- *;
          try (injection Ek as <-); rewrite ?Ek, Hb; reflexivity.
      + rewrite app_length, !put_lp4_length. lia.
      + intros rest fuel Hf. unfold read_message_with.
        pose proof (name_of_len32 k). do 2 rt_step.
        rewrite kind_of_name_of. unfold drun.
        assert (Hfb : (length (b ++ []) < fuel)%nat).
        { rewrite app_nil_r. rewrite app_length, !put_lp4_length in Hf. lia. }
        specialize (Hd [] fuel Hfb). rewrite app_nil_r in Hd. unfold drun in Hd.
        destruct (dec_body fuel k b) as [a r]. cbn [snd] in Hd. subst r. reflexivity.
    - destruct m; cbn in Ek; try discriminate.
      cbn [valid_msg] in Hv. destruct Hv as (Hc & d & He & Hld & Hdd).
      exists (put_lp4 d ++ put_lp4 []). split; [|split].
      + unfold write_message, write_message_with. rewrite Hc, He. reflexivity.
      + rewrite app_length, !put_lp4_length. cbn. lia.
      + intros rest fuel Hf. unfold read_message_with.
        assert (len32 []) by (vm_compute; reflexivity). do 2 rt_step.
        rewrite kind_of_name_nil, Hc, Hdd. reflexivity.
  Qed.

  Ltac flat_case lem :=
    eexists; split; [reflexivity|]; intros rest [|fuel] Hf; [cbn in Hf; lia|];
    cbn [dec_body]; rewrite <- ?app_assoc; erewrite drun_bind_ok by (apply lem; assumption); reflexivity.

  Theorem rt_Q m : ty_msg m -> valid_msg m -> Q m.
  Proof.
    induction m as [e|k r p|k|id m' IH pe|id pe|p r|c t|c|t|p r|ref m' IH|ns tok|v|v|v q l|r|d|id tok|tok|s a p m' IH|k|u];
      intros Ht Hv; unfold Q; cbn [kind_of].
    - (* empty *) exists []. split; [reflexivity|]. intros rest [|fuel] Hf; [cbn in Hf; lia|].
      destruct e; reflexivity.
    - destruct Hv as [Hk Hr]. flat_case OnKill_rt.
    - flat_case OnKilled_rt.
    - (* PipeResult *)
      destruct Ht as [Tm Te]. destruct Hv as (Hid & Vm & Fm & Ve).
      destruct (Q_W m' Vm Fm (IH Tm Vm)) as (w & Hw & Hlw & Hr).
      destruct (perr_rt pe Te Ve) as (c & t & Hp & Hc & Hlt & Hback).
      eexists. split.
      { cbn [Msgs.enc_body]. fold enc_body. unfold write_message in Hw. rewrite Hw. cbn [mbind]. rewrite Hp. reflexivity. }
      intros rest [|fuel] Hf; [cbn in Hf; lia|]. cbn [Msgs.dec_body fst snd]. fold dec_body.
      rt_step. cbv iota. rewrite <- ?app_assoc. erewrite drun_bind_ok.
      2:{ apply Hr. rewrite !app_length, !put_lp4_length in Hf. cbn [length put_bool] in Hf. lia. }
      do 4 rt_step. rewrite Hback. reflexivity.
    - (* PipeResult with a nil Message *)
      destruct Hv as (Hid & Ve).
      destruct (perr_rt pe Ht Ve) as (c & t & Hp & Hc & Hlt & Hback).
      eexists. split.
      { cbn [Msgs.enc_body]. rewrite Hp. reflexivity. }
      intros rest [|fuel] Hf; [cbn in Hf; lia|]. cbn [Msgs.dec_body fst snd]. fold dec_body.
      rt_step. cbv iota. do 4 rt_step. rewrite Hback. reflexivity.
    - destruct Hv as [H1 H2]. flat_case Pong_rt.
    - cbn in Ht. flat_case Error_rt.
    - cbn in Ht. flat_case Command_rt.
    - cbn in Hv. flat_case Ping_rt.
    - (* PongMessage *)
      destruct Hv as [(t & -> & Ht1) Hr].
      exists (put_i64 t ++ put_i64 r). split; [reflexivity|].
      intros rest [|fuel] Hf; [cbn in Hf; lia|]. cbn [Msgs.dec_body].
      erewrite drun_bind_ok by (apply PongMessage_rt; assumption). reflexivity.
    - (* Scheduler *)
      destruct Hv as (Href & Vm & Fm).
      destruct (Q_W m' Vm Fm (IH Ht Vm)) as (w & Hw & Hlw & Hr).
      eexists. split.
      { cbn [Msgs.enc_body]. fold enc_body. unfold write_message in Hw. rewrite Hw. reflexivity. }
      intros rest [|fuel] Hf; [cbn in Hf; lia|]. cbn [Msgs.dec_body mbind]. fold dec_body.
      rewrite <- ?app_assoc. erewrite drun_bind_ok.
      2:{ apply Hr. rewrite !app_length, !put_lp4_length in Hf. lia. }
      do 2 rt_step. reflexivity.
    - (* JoinRequest *) destruct Hv as [Vn Vt]. cbn in Ht.
      eexists; split; [reflexivity|]; intros rest [|fuel] Hf; [cbn in Hf; lia|].
      cbn [Msgs.dec_body]. rewrite <- ?app_assoc. erewrite drun_bind_ok by (apply JoinRequest_rt; assumption). reflexivity.
    - (* JoinResponse *) cbn in Ht, Hv.
      destruct (view_rt v [] Ht Hv) as (b & Hb & _). exists b. split; [exact Hb|].
      intros rest [|fuel] Hf; [cbn in Hf; lia|]. cbn [Msgs.dec_body]. unfold dec_ViewMsg.
      destruct (view_rt v rest Ht Hv) as (b' & Hb' & Hr). rewrite Hb in Hb'. injection Hb' as <-.
      erewrite drun_bind_ok by exact Hr. reflexivity.
    - (* Gossip *) cbn in Ht, Hv.
      destruct (view_rt v [] Ht Hv) as (b & Hb & _). exists b. split; [exact Hb|].
      intros rest [|fuel] Hf; [cbn in Hf; lia|]. cbn [Msgs.dec_body]. unfold dec_ViewMsg.
      destruct (view_rt v rest Ht Hv) as (b' & Hb' & Hr). rewrite Hb in Hb'. injection Hb' as <-.
      erewrite drun_bind_ok by exact Hr. reflexivity.
    - (* GetViewResponse *) cbn in Ht. destruct Hv as [Vv Vl].
      destruct (GetViewResponse_rt v q l [] Ht Vv Vl) as (b & Hb & _). exists b. split; [exact Hb|].
      intros rest [|fuel] Hf; [cbn in Hf; lia|]. cbn [Msgs.dec_body].
      destruct (GetViewResponse_rt v q l rest Ht Vv Vl) as (b' & Hb' & Hr). rewrite Hb in Hb'. injection Hb' as <-.
      erewrite drun_bind_ok by exact Hr. reflexivity.
    - cbn in Hv. flat_case LeaveBroadcastRound_rt.
    - cbn in Ht. flat_case JoinRetryTick_rt.
    - destruct Hv as [H1 H2]. flat_case ForceMemberDown_rt.
    - cbn in Hv. flat_case TriggerViewBroadcast_rt.
    - (* SingletonFwd *)
      destruct Hv as (-> & Ha & Hp & Vm & Fm).
      destruct (Q_W m' Vm Fm (IH Ht Vm)) as (w & Hw & Hlw & Hr).
      eexists. split.
      { cbn [Msgs.enc_body mbind fst snd]. fold enc_body. unfold write_message in Hw. rewrite Hw. reflexivity. }
      intros rest [|fuel] Hf; [cbn in Hf; lia|]. cbn [Msgs.dec_body mbind]. fold dec_body.
      do 2 rt_step. rewrite <- ?app_assoc. erewrite drun_bind_ok.
      2:{ apply Hr. rewrite !app_length, !put_lp4_length in Hf. lia. }
      reflexivity.
    - contradiction.
    - exact I.
  Qed.

  Theorem rt_registered m k :
    kind_of U m = Some k -> ty_msg m -> valid_msg m ->
    exists b, enc_body m = MOk b /\
      forall rest fuel, (length (b ++ rest) < fuel)%nat -> drun (dec_body fuel k) (b ++ rest) = MOk (m, rest).
  Proof. intros Hk Ht Hv. pose proof (rt_Q m Ht Hv) as H. unfold Q in H. rewrite Hk in H. exact H. Qed.

  (** SerializeRemotingMessage / DeserializeRemotingMessage as the entry points use them *)
  Theorem rt_deserialize m k :
    kind_of U m = Some k -> ty_msg m -> valid_msg m ->
    exists b, enc_body m = MOk b /\
      forall rest, drun (deserialize_remoting U has_codec cdec qerr newref k) (b ++ rest) = MOk (m, rest).
  Proof.
    intros Hk Ht Hv. destruct (rt_registered m k Hk Ht Hv) as (b & Hb & Hd). exists b. split; [exact Hb|].
    intros rest. unfold deserialize_remoting. apply Hd. lia.
  Qed.

  (** WriteMessage / ReadMessage round trip for every valid message, registered or not *)
  Theorem rt_W m : ty_msg m -> valid_msg m -> fits U has_codec cenc m -> W m.
  Proof. intros Ht Hv Hf. apply Q_W; [exact Hv|exact Hf|]. apply rt_Q; assumption. Qed.
  Theorem rt_read_message m :
    ty_msg m -> valid_msg m -> fits U has_codec cenc m ->
    exists w, write_message m = MOk w /\
      forall rest, drun (read_message U has_codec cdec qerr newref) (w ++ rest) = MOk (m, rest).
  Proof.
    intros Ht Hv Hf. destruct (rt_W m Ht Hv Hf) as (w & Hw & _ & Hr). exists w. split; [exact Hw|].
    intros rest. unfold read_message. apply Hr. rewrite app_length. lia.
  Qed.
End Universe.
