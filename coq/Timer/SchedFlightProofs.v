(** Lemmas about Timer/SchedFlight.v (in-flight firings) on top of Timer/SchedProofs.v. *)
From Coq Require Import List NArith ZArith Bool Lia Permutation.
From Coq Require Import ZifyN ZifyNat ZifyBool.
From stdpp Require Import gmap.
From Vivid Require Import Timer.SchedModel Timer.SchedProofs Timer.SchedFlight.
Local Open Scope Z_scope.

(** * lists *)

Lemma nth_error_split3 {A} (l : list A) n a :
  nth_error l n = Some a -> l = firstn n l ++ a :: skipn (S n) l.
Proof.
  revert n. induction l as [|x l IH]; intros [|n] H; cbn in H; try discriminate.
  - injection H as ->. reflexivity.
  - cbn [firstn skipn app]. f_equal. apply IH, H.
Qed.

Lemma perm_filter {A} (P : A -> bool) (l l' : list A) :
  Permutation l l' -> Permutation (List.filter P l) (List.filter P l').
Proof.
  induction 1 as [|x l l' _ IH|x y l|l l' l'' _ IH1 _ IH2]; cbn.
  - constructor.
  - destruct (P x); [constructor|]; exact IH.
  - destruct (P x), (P y); try apply Permutation_refl. constructor.
  - eapply Permutation_trans; eauto.
Qed.

Lemma filter_map_comm {A B} (P : B -> bool) (g : A -> B) (l : list A) :
  map g (List.filter (fun a => P (g a)) l) = List.filter P (map g l).
Proof. induction l as [|a l IH]; cbn; [reflexivity|]. destruct (P (g a)); cbn; rewrite IH; reflexivity. Qed.

Lemma filter_app' {A} (P : A -> bool) (l1 l2 : list A) :
  List.filter P (l1 ++ l2) = List.filter P l1 ++ List.filter P l2.
Proof. induction l1 as [|a l1 IH]; cbn; [reflexivity|]. destruct (P a); cbn; rewrite IH; reflexivity. Qed.

Lemma perm_singleton {A} (a : A) (l : list A) : Permutation l [a] -> l = [a].
Proof. intros H. apply Permutation_sym, Permutation_length_1_inv in H. exact H. Qed.

(** * the base of a flight run is the atomic model *)

Lemma fetched_tick_new o b : fetched o b = match o with OTick dt => tick_new dt b | _ => [] end.
Proof. destruct o; reflexivity. Qed.

Lemma step_fired_fetched o b : fired (fst (step o b)) = fired b ++ fetched o b.
Proof. rewrite step_fired, fetched_tick_new. reflexivity. Qed.

Lemma bops_app l1 l2 : bops (l1 ++ l2) = bops l1 ++ bops l2.
Proof. unfold bops. apply flat_map_app. Qed.

Lemma bops_cons_base o l : bops (FBase o :: l) = o :: bops l.
Proof. reflexivity. Qed.

Lemma fstep_base o s :
  base (fst (fstep o s)) = match o with FBase o => fst (step o (base s)) | _ => base s end.
Proof. destruct o as [o|n|a]; cbn; [reflexivity| |reflexivity]. destruct (nth_error (flight s) n); reflexivity. Qed.

Lemma fstep_stopping_mono o s (z : bytes) : z ∈ stopping s -> z ∈ stopping (fst (fstep o s)).
Proof.
  destruct o as [o|n|a]; cbn; [auto| |set_solver]. destruct (nth_error (flight s) n); cbn; auto.
Qed.

Lemma frun_base fops : forall s, base (frun fops s) = run (bops fops) (base s).
Proof.
  induction fops as [|o fops IH]; intros s; cbn [frun]; [reflexivity|].
  rewrite IH, fstep_base. destruct o; reflexivity.
Qed.

Lemma frun_app l1 l2 s : frun (l1 ++ l2) s = frun l2 (frun l1 s).
Proof. revert s. induction l1 as [|o l1 IH]; intros s; cbn; [reflexivity|apply IH]. Qed.

Lemma frun_split pre o post s : frun (pre ++ o :: post) s = frun post (fst (fstep o (frun pre s))).
Proof. rewrite frun_app. reflexivity. Qed.

Lemma base_finit : base finit = init.
Proof. reflexivity. Qed.

(** base of the state after [pre ++ FBase o :: post] *)
Lemma frun_base_split pre o post :
  base (frun (pre ++ FBase o :: post) finit) = run (bops pre ++ o :: bops post) init.
Proof. rewrite frun_base, bops_app, bops_cons_base. reflexivity. Qed.

(** * the invariant: conservation of Tells, landings are sound *)

Definition Cons (s : fsched) : Prop :=
  Permutation (map l_fire (landed s) ++ flight s) (fired (base s)).

Definition LInv (s : fsched) : Prop :=
  forall l, In l (landed s) ->
    f_time (l_fire l) <= l_time l /\ l_time l <= now (base s) /\
    (l_dead l = true -> f_recv (l_fire l) ∈ dead (base s) \/ f_recv (l_fire l) ∈ stopping s).

Record FInv (s : fsched) : Prop := mkFInv {
  fi_inv : Inv (base s);
  fi_cons : Cons s;
  fi_land : LInv s;
}.

Lemma finv_init : FInv finit.
Proof.
  constructor; [apply inv_init|unfold Cons; cbn; constructor|intros l []].
Qed.

Lemma cons_flight_fired s f : Cons s -> In f (flight s) -> In f (fired (base s)).
Proof. intros C H. eapply Permutation_in; [exact C|]. apply in_app_iff. right. exact H. Qed.

Lemma cons_landed_fired s l : Cons s -> In l (landed s) -> In (l_fire l) (fired (base s)).
Proof. intros C H. eapply Permutation_in; [exact C|]. apply in_app_iff. left. apply in_map, H. Qed.

Lemma fstep_finv o s : FInv s -> FInv (fst (fstep o s)).
Proof.
  intros [I C L]. destruct o as [o|n|a0]; cbn.
  - constructor; cbn.
    + apply step_inv, I.
    + unfold Cons in *; cbn. rewrite step_fired_fetched, app_assoc. apply Permutation_app_tail, C.
    + intros l Hl. cbn [base landed flight] in *. destruct (L l Hl) as (H1 & H2 & H3). split; [exact H1|]. split.
      * pose proof (step_now_mono o (base s)). lia.
      * intros Hd. destruct (H3 Hd) as [H|H]; [left; apply step_dead_mono, H|right; exact H].
  - destruct (nth_error (flight s) n) as [f|] eqn:En; cbn; [|constructor; assumption].
    pose proof (nth_error_split3 _ _ _ En) as Es.
    assert (Hin : In f (flight s)) by (eapply nth_error_In; eauto).
    constructor; cbn.
    + exact I.
    + unfold Cons in *; cbn. rewrite map_app; cbn.
      eapply Permutation_trans; [|exact C]. rewrite <- app_assoc. apply Permutation_app_head.
      rewrite Es at 3. cbn. apply Permutation_middle.
    + intros l Hl. cbn [base landed flight] in *. apply in_app_iff in Hl as [Hl|[<-|[]]]; [apply L, Hl|]. cbn.
      pose proof (cons_flight_fired s f C Hin) as Hf. apply (inv_fired _ I) in Hf as [_ Hle].
      split; [exact Hle|]. split; [lia|]. unfold dead_letter, is_dead. intros Hd. apply orb_true_iff in Hd as [Hd|Hd]; apply bool_decide_eq_true in Hd; auto.
  - constructor; cbn; [exact I|exact C|].
    intros l Hl. cbn [base landed flight stopping] in *. destruct (L l Hl) as (H1 & H2 & H3). split; [exact H1|]. split; [exact H2|].
    intros Hd. destruct (H3 Hd) as [H|H]; [left; exact H|right; set_solver].
Qed.

Lemma frun_finv fops : forall s, FInv s -> FInv (frun fops s).
Proof. induction fops as [|o fops IH]; intros s H; cbn; [exact H|]. apply IH, fstep_finv, H. Qed.

Lemma reach_finv fops : FInv (frun fops finit).
Proof. apply frun_finv, finv_init. Qed.

(** conservation, restricted to the Tells that satisfy P *)
Lemma cons_by (P : firing -> bool) s :
  Cons s -> Permutation (map l_fire (landed_by P s) ++ flight_by P s) (List.filter P (fired (base s))).
Proof.
  intros C. unfold landed_by, flight_by. rewrite filter_map_comm, <- filter_app'. apply perm_filter, C.
Qed.

Lemma cons_by_length (P : firing -> bool) s :
  Cons s -> (length (landed_by P s) + length (flight_by P s) = length (List.filter P (fired (base s))))%nat.
Proof. intros C. apply cons_by with (P := P) in C. apply Permutation_length in C. rewrite app_length, map_length in C. exact C. Qed.

Lemma filter_is_id x b : List.filter (is_id x) (fired b) = fires_of x b.
Proof. reflexivity. Qed.

Lemma In_landed_by P s l : In l (landed_by P s) <-> In l (landed s) /\ P (l_fire l) = true.
Proof. unfold landed_by. rewrite filter_In. tauto. Qed.

Lemma In_flight_by P s f : In f (flight_by P s) <-> In f (flight s) /\ P f = true.
Proof. unfold flight_by. rewrite filter_In. tauto. Qed.

(** a landing / a Tell in flight of call x is one of the pops of call x *)
Lemma landing_of_fired x s l : Cons s -> In l (landings_of x s) -> In (l_fire l) (fires_of x (base s)).
Proof.
  intros C H. apply In_landed_by in H as [H Hp]. apply In_fires_of. split; [apply cons_landed_fired; assumption|].
  unfold is_id in Hp. lia.
Qed.

Lemma flight_of_fired x s f : Cons s -> In f (flight_of x s) -> In f (fires_of x (base s)).
Proof.
  intros C H. apply In_flight_by in H as [H Hp]. apply In_fires_of. split; [apply cons_flight_fired; assumption|].
  unfold is_id in Hp. lia.
Qed.

(** * what arrives after a state *)

Lemma frun_landed_app fops : forall s,
  exists new, landed (frun fops s) = landed s ++ new /\
    forall l, In l new -> now (base s) <= l_time l /\
                          (f_recv (l_fire l) ∈ dead (base s) \/ f_recv (l_fire l) ∈ stopping s -> l_dead l = true).
Proof.
  induction fops as [|o fops IH]; intros s; cbn [frun].
  - exists []. rewrite app_nil_r. split; [reflexivity|intros l []].
  - destruct (IH (fst (fstep o s))) as (new & E & Hn). destruct o as [o|n|a0]; cbn in *.
    + exists new. split; [exact E|]. intros l Hl. destruct (Hn l Hl) as [H1 H2]. split.
      * pose proof (step_now_mono o (base s)). lia.
      * intros [Hd|Hd]; apply H2; [left; apply step_dead_mono, Hd|right; exact Hd].
    + destruct (nth_error (flight s) n) as [f|]; cbn in *; [|exists new; auto].
      exists (land_rec (base s) (stopping s) f :: new). split; [rewrite E, <- app_assoc; reflexivity|].
      intros l [<-|Hl]; [|apply Hn, Hl]. cbn. split; [lia|].
      unfold dead_letter, is_dead. intros [Hd|Hd]; apply orb_true_iff; [left|right]; apply bool_decide_eq_true; exact Hd.
    + exists new. split; [exact E|]. intros l Hl. destruct (Hn l Hl) as [H1 H2]. split; [exact H1|].
      intros [Hd|Hd]; apply H2; [left; exact Hd|right; set_solver].
Qed.

(** * theorems about one scheduling call *)

Section call.
  Variables (pre : list fop) (o : op) (a recv ref : bytes) (p : N).
  Hypothesis Hs : is_sched o a recv ref p.
  Hypothesis Hok : snd (step o (base (frun pre finit))) = ROk.

  Let x := nid (base (frun pre finit)).

  Lemma call_ok' : snd (step o (run (bops pre) init)) = ROk.
  Proof. rewrite frun_base in Hok. exact Hok. Qed.

  Lemma call_x : x = nid (run (bops pre) init).
  Proof. unfold x. rewrite frun_base. reflexivity. Qed.

  (** payload, receiver, owner of whatever arrives *)
  Lemma flight_payload post l :
    In l (landings_of x (frun (pre ++ FBase o :: post) finit)) ->
    f_owner (l_fire l) = a /\ f_recv (l_fire l) = recv /\ f_ref (l_fire l) = ref /\ f_payload (l_fire l) = p /\
    f_time (l_fire l) <= l_time l /\
    (l_dead l = true -> recv ∈ dead (base (frun (pre ++ FBase o :: post) finit)) \/
                        recv ∈ stopping (frun (pre ++ FBase o :: post) finit)).
  Proof.
    intros H. set (S := frun (pre ++ FBase o :: post) finit) in *.
    pose proof (reach_finv (pre ++ FBase o :: post)) as [I C L]. fold S in I, C, L.
    pose proof (landing_of_fired _ _ _ C H) as Hf.
    unfold S in Hf. rewrite frun_base_split, call_x in Hf.
    destruct (thm_payload (bops pre) o a recv ref p (bops post) _ Hs call_ok' Hf) as (H1 & H2 & H3 & H4 & _).
    apply In_landed_by in H as [H _]. destruct (L l H) as (G1 & _ & G3).
    repeat split; auto. intros Hd. rewrite <- H2. apply G3, Hd.
  Qed.

  (** after the owner has removed the job (Cancel(ref) / Clear / termination / restart): exactly the Tells that were
      in flight at the removal may still arrive, and each of them has a firing instant before the removal *)
  Lemma flight_removed mid c post :
    removes a ref c ->
    let S1 := frun (pre ++ FBase o :: mid) finit in
    let S2 := frun (pre ++ FBase o :: mid ++ FBase c :: post) finit in
    (forall l, In l (landings_of x S2) -> f_time (l_fire l) <= fnow S1) /\
    (forall f, In f (flight_of x S2) -> f_time f <= fnow S1) /\
    (length (landings_of x S2) + length (flight_of x S2) = length (landings_of x S1) + length (flight_of x S1))%nat.
  Proof.
    intros R S1 S2.
    pose proof (reach_finv (pre ++ FBase o :: mid)) as [I1 C1 _]. fold S1 in I1, C1.
    pose proof (reach_finv (pre ++ FBase o :: mid ++ FBase c :: post)) as [I2 C2 _]. fold S2 in I2, C2.
    assert (E : fires_of x (base S2) = fires_of x (base S1)).
    { unfold S1, S2. rewrite !frun_base_split, bops_app, bops_cons_base, call_x.
      apply (thm_cancel_stops (bops pre) o a recv ref p (bops mid) c (bops post) Hs call_ok' R). }
    assert (T : forall f, In f (fires_of x (base S1)) -> f_time f <= fnow S1).
    { intros f Hf. apply In_fires_of in Hf as [Hf _]. apply (inv_fired _ I1) in Hf as [_ Hle]. exact Hle. }
    split; [|split].
    - intros l Hl. apply T. rewrite <- E. apply landing_of_fired; assumption.
    - intros f Hf. apply T. rewrite <- E. apply flight_of_fired; assumption.
    - unfold landings_of, flight_of. rewrite !cons_by_length by assumption. rewrite !filter_is_id, E. reflexivity.
  Qed.
End call.

(** * Once *)

Lemma flight_once_safety pre a recv ref d p post :
  snd (step (OOnce a recv ref d p) (base (frun pre finit))) = ROk ->
  let x := nid (base (frun pre finit)) in
  let S := frun (pre ++ FBase (OOnce a recv ref d p) :: post) finit in
  (length (landings_of x S) + length (flight_of x S) <= 1)%nat /\
  (forall l, In l (landings_of x S) -> fnow (frun pre finit) + d <= f_time (l_fire l) /\ f_time (l_fire l) <= l_time l).
Proof.
  intros Hok x S. pose proof (reach_finv (pre ++ FBase (OOnce a recv ref d p) :: post)) as [I C L]. fold S in I, C, L.
  assert (Hok' : snd (step (OOnce a recv ref d p) (run (bops pre) init)) = ROk) by (rewrite frun_base in Hok; exact Hok).
  assert (Hx : x = nid (run (bops pre) init)) by (unfold x; rewrite frun_base; reflexivity).
  clearbody x. subst x.
  destruct (thm_once_safety (bops pre) a recv ref d p (bops post) Hok') as [H1 H2].
  split.
  - unfold landings_of, flight_of. rewrite cons_by_length by exact C. rewrite filter_is_id.
    unfold S. rewrite frun_base_split. exact H1.
  - intros l Hl. pose proof (landing_of_fired _ _ _ C Hl) as Hf. unfold S in Hf. rewrite frun_base_split in Hf.
    split; [unfold fnow; rewrite frun_base; apply H2, Hf|].
    apply In_landed_by in Hl as [Hl _]. apply (L l Hl).
Qed.

Lemma flight_once_cancelled pre a recv ref d p mid c post :
  snd (step (OOnce a recv ref d p) (base (frun pre finit))) = ROk -> removes a ref c -> elapsed (bops mid) < d ->
  let x := nid (base (frun pre finit)) in
  let S := frun (pre ++ FBase (OOnce a recv ref d p) :: mid ++ FBase c :: post) finit in
  landings_of x S = [] /\ flight_of x S = [].
Proof.
  intros Hok R Hel x S. pose proof (reach_finv (pre ++ FBase (OOnce a recv ref d p) :: mid ++ FBase c :: post)) as [I C L]. fold S in I, C, L.
  assert (Hok' : snd (step (OOnce a recv ref d p) (run (bops pre) init)) = ROk) by (rewrite frun_base in Hok; exact Hok).
  assert (Hx : x = nid (run (bops pre) init)) by (unfold x; rewrite frun_base; reflexivity).
  clearbody x. subst x.
  pose proof (thm_once_cancelled (bops pre) a recv ref d p (bops mid) c (bops post) Hok' R Hel) as E.
  pose proof (cons_by_length (is_id (nid (run (bops pre) init))) S C) as Hlen. rewrite filter_is_id in Hlen.
  unfold S in Hlen at 3. rewrite frun_base_split, bops_app, bops_cons_base, E in Hlen. cbn in Hlen.
  unfold landings_of, flight_of.
  destruct (landed_by _ S); [|cbn in Hlen; lia]. destruct (flight_by _ S); [|cbn in Hlen; lia]. auto.
Qed.

Lemma flight_once_delivered pre a recv ref d p post1 dt post2 :
  snd (step (OOnce a recv ref d p) (base (frun pre finit))) = ROk ->
  no_stall (bops post1) -> Forall (fun o => ~ removes a ref o) (bops post1) ->
  d <= elapsed (bops post1) + Z.max dt 0 ->
  let x := nid (base (frun pre finit)) in
  let S := frun (pre ++ FBase (OOnce a recv ref d p) :: post1 ++ FBase (OTick dt) :: post2) finit in
  exists f,
    f_time f = fnow (frun pre finit) + d /\ f_payload f = p /\ f_recv f = recv /\ f_owner f = a /\ f_ref f = ref /\
    ((landings_of x S = [] /\ flight_of x S = [f]) \/
     (exists l, landings_of x S = [l] /\ flight_of x S = [] /\ l_fire l = f /\ f_time f <= l_time l /\
                (recv ∉ dead (base S) -> recv ∉ stopping S -> l_dead l = false))).

Proof.
  intros Hok Hns Hnr Hel x S.
  pose proof (reach_finv (pre ++ FBase (OOnce a recv ref d p) :: post1 ++ FBase (OTick dt) :: post2)) as [I C L]. fold S in I, C, L.
  assert (Hok' : snd (step (OOnce a recv ref d p) (run (bops pre) init)) = ROk) by (rewrite frun_base in Hok; exact Hok).
  assert (Hx : x = nid (run (bops pre) init)) by (unfold x; rewrite frun_base; reflexivity).
  clearbody x. subst x.
  destruct (thm_once_delivered (bops pre) a recv ref d p (bops post1) dt (bops post2) Hok' Hns Hnr Hel)
    as (f & E & Ht & Hp & Hr & Ho & Hf & _).
  exists f. unfold fnow. rewrite frun_base. repeat (split; [assumption|]).
  set (x := nid (run (bops pre) init)) in *.
  pose proof (cons_by (is_id x) S C) as P. rewrite filter_is_id in P.
  unfold S in P at 3. rewrite frun_base_split, bops_app, bops_cons_base in P. fold x in P. rewrite E in P.
  fold (landings_of x S) in P. fold (flight_of x S) in P.
  pose proof (Permutation_length P) as Hlen. rewrite app_length, map_length in Hlen. cbn in Hlen.
  destruct (landings_of x S) as [|l [|l' ls]] eqn:El; cbn in Hlen; try lia.
  - left. split; [reflexivity|]. cbn in P. apply perm_singleton, P.
  - right. destruct (flight_of x S); [|cbn in Hlen; lia]. cbn in P. apply perm_singleton in P. injection P as Ef.
    exists l. repeat split; auto.
    + assert (Hl : In l (landed S)).
      { assert (H0 : In l (landings_of x S)) by (rewrite El; left; reflexivity). apply In_landed_by in H0. tauto. }
      rewrite <- Ef. apply (L l Hl).
    + intros Hnd Hns'. destruct (l_dead l) eqn:Ed; [exfalso|reflexivity].
      assert (Hl : In l (landed S)).
      { assert (H0 : In l (landings_of x S)) by (rewrite El; left; reflexivity). apply In_landed_by in H0. tauto. }
      destruct (L l Hl) as (_ & _ & H3). rewrite <- Hr, <- Ef in Hnd, Hns'. destruct (H3 Ed); tauto.
Qed.

(** * Loop *)

Lemma flight_loop_exact pre a recv ref i p post :
  snd (step (OLoop a recv ref i p) (base (frun pre finit))) = ROk ->
  no_stall (bops post) -> Forall (fun o => ~ removes a ref o) (bops post) ->
  let x := nid (base (frun pre finit)) in
  let S := frun (pre ++ FBase (OLoop a recv ref i p) :: post) finit in
  Permutation (map (fun l => f_time (l_fire l)) (landings_of x S) ++ map f_time (flight_of x S))
              (grid (fnow (frun pre finit)) i (Z.to_nat ((fnow S - fnow (frun pre finit)) / i))).
Proof.
  intros Hok Hns Hnr x S.
  pose proof (reach_finv (pre ++ FBase (OLoop a recv ref i p) :: post)) as [I C L]. fold S in I, C, L.
  assert (Hok' : snd (step (OLoop a recv ref i p) (run (bops pre) init)) = ROk) by (rewrite frun_base in Hok; exact Hok).
  assert (Hx : x = nid (run (bops pre) init)) by (unfold x; rewrite frun_base; reflexivity).
  clearbody x. subst x.
  pose proof (thm_loop_exact (bops pre) a recv ref i p (bops post) Hok' Hns Hnr) as E.
  pose proof (cons_by (is_id (nid (run (bops pre) init))) S C) as P. rewrite filter_is_id in P.
  apply (Permutation_map f_time) in P. rewrite map_app, map_map in P.
  unfold fnow. unfold S at 3. rewrite !frun_base, bops_app, bops_cons_base. change (base finit) with init. rewrite <- E.
  unfold S in P at 3. rewrite frun_base_split in P. exact P.
Qed.

Lemma flight_loop_grid pre a recv ref i p post :
  snd (step (OLoop a recv ref i p) (base (frun pre finit))) = ROk -> no_stall (bops post) ->
  let x := nid (base (frun pre finit)) in
  let S := frun (pre ++ FBase (OLoop a recv ref i p) :: post) finit in
  exists m : nat,
    Permutation (map (fun l => f_time (l_fire l)) (landings_of x S) ++ map f_time (flight_of x S))
                (grid (fnow (frun pre finit)) i m) /\
    fnow (frun pre finit) + Z.of_nat m * i <= fnow S.
Proof.
  intros Hok Hns x S.
  pose proof (reach_finv (pre ++ FBase (OLoop a recv ref i p) :: post)) as [I C L]. fold S in I, C, L.
  assert (Hok' : snd (step (OLoop a recv ref i p) (run (bops pre) init)) = ROk) by (rewrite frun_base in Hok; exact Hok).
  assert (Hx : x = nid (run (bops pre) init)) by (unfold x; rewrite frun_base; reflexivity).
  clearbody x. subst x.
  destruct (thm_loop_grid (bops pre) a recv ref i p (bops post) Hok' Hns) as (m & E & Hle).
  exists m. pose proof (cons_by (is_id (nid (run (bops pre) init))) S C) as P. rewrite filter_is_id in P.
  apply (Permutation_map f_time) in P. rewrite map_app, map_map in P.
  unfold fnow. unfold S at 3. rewrite !frun_base, bops_app, bops_cons_base. change (base finit) with init. split; [|exact Hle].
  rewrite <- E. unfold S in P at 3. rewrite frun_base_split in P. exact P.
Qed.

(** * termination of the owner *)

Lemma step_filter_dead_owner o s (a0 : bytes) :
  Inv s -> a0 ∈ dead s -> List.filter (owned_by a0) (fired (fst (step o s))) = List.filter (owned_by a0) (fired s).
Proof.
  intros I Hd. rewrite step_fired, filter_app'. rewrite (filter_none _ (match o with OTick dt => tick_new dt s | _ => [] end)).
  - apply app_nil_r.
  - intros f H. destruct o; try destruct H.
    unfold tick_new in H. apply in_flat_map in H as ((k, j) & Hin & Hf). apply elem_of_list_In, elem_of_map_to_list in Hin.
    cbn in Hf. apply advance_fires in Hf as (t & -> & _); [|lia]. unfold owned_by. cbn.
    apply bool_decide_eq_false. intros Ho. apply (inv_alive _ I _ _ Hin). rewrite Ho. exact Hd.
Qed.

Lemma run_filter_dead_owner ops (a0 : bytes) : forall s,
  Inv s -> a0 ∈ dead s -> List.filter (owned_by a0) (fired (run ops s)) = List.filter (owned_by a0) (fired s).
Proof.
  induction ops as [|o ops IH]; intros s I Hd; cbn [run]; [reflexivity|].
  rewrite IH; [apply step_filter_dead_owner; assumption|apply step_inv, I|apply step_dead_mono, Hd].
Qed.

Lemma flight_death pre (a : bytes) post :
  let S1 := frun pre finit in
  let S2 := frun (pre ++ FBase (ODied a) :: post) finit in
  (forall l, In l (landed_by (owned_by a) S2) -> f_time (l_fire l) <= fnow S1) /\
  (forall f, In f (flight_by (owned_by a) S2) -> f_time f <= fnow S1) /\
  (length (landed_by (owned_by a) S2) + length (flight_by (owned_by a) S2) =
   length (landed_by (owned_by a) S1) + length (flight_by (owned_by a) S1))%nat /\
  (exists new, landed S2 = landed S1 ++ new /\
     forall l, In l new -> fnow S1 <= l_time l /\ (f_recv (l_fire l) = a -> l_dead l = true)).
Proof.
  intros S1 S2.
  pose proof (reach_finv pre) as [I1 C1 _]. fold S1 in I1, C1.
  pose proof (reach_finv (pre ++ FBase (ODied a) :: post)) as [I2 C2 _]. fold S2 in I2, C2.
  assert (E : List.filter (owned_by a) (fired (base S2)) = List.filter (owned_by a) (fired (base S1))).
  { unfold S2. rewrite frun_split, frun_base. cbn [fstep fst base].
    rewrite run_filter_dead_owner; [|apply step_inv, I1|apply died_is_dead].
    rewrite step_fired, app_nil_r. reflexivity. }
  split; [|split; [|split]].
  - intros l Hl. apply In_landed_by in Hl as [Hl Hp].
    assert (Hf : In (l_fire l) (List.filter (owned_by a) (fired (base S2)))) by (apply filter_In; split; [apply cons_landed_fired; assumption|exact Hp]).
    rewrite E in Hf. apply filter_In in Hf as [Hf _]. apply (inv_fired _ I1) in Hf as [_ Hle]. exact Hle.
  - intros f Hf0. apply In_flight_by in Hf0 as [Hf0 Hp].
    assert (Hf : In f (List.filter (owned_by a) (fired (base S2)))) by (apply filter_In; split; [apply cons_flight_fired; assumption|exact Hp]).
    rewrite E in Hf. apply filter_In in Hf as [Hf _]. apply (inv_fired _ I1) in Hf as [_ Hle]. exact Hle.
  - rewrite !cons_by_length by assumption. rewrite E. reflexivity.
  - unfold S2. rewrite frun_split. fold S1.
    destruct (frun_landed_app post (fst (fstep (FBase (ODied a)) S1))) as (new & En & Hn).
    exists new. split; [exact En|]. intros l Hl. destruct (Hn l Hl) as [H1 H2]. cbn [fstep fst base] in H1, H2. split.
    + pose proof (step_now_mono (ODied a) (base S1)). unfold fnow. lia.
    + intros Hr. apply H2. left. rewrite Hr. apply died_is_dead.
Qed.

(** the whole stop sequence: it begins with [FStopping a]; its handlers (OnKill, the children's OnKilled, the own
    OnKilled) are the ops [killing] - among them any scheduling calls of a; it ends with [ODied a] (Clear) *)
Lemma flight_stop_sequence pre (a : bytes) killing post :
  let S0 := frun pre finit in
  let S1 := frun (pre ++ FStopping a :: killing) finit in
  let S2 := frun (pre ++ FStopping a :: killing ++ FBase (ODied a) :: post) finit in
  (forall l, In l (landed_by (owned_by a) S2) -> f_time (l_fire l) <= fnow S1) /\
  (forall f, In f (flight_by (owned_by a) S2) -> f_time f <= fnow S1) /\
  (length (landed_by (owned_by a) S2) + length (flight_by (owned_by a) S2) =
   length (landed_by (owned_by a) S1) + length (flight_by (owned_by a) S1))%nat /\
  (exists new, landed S2 = landed S0 ++ new /\ forall l, In l new -> f_recv (l_fire l) = a -> l_dead l = true).
Proof.
  intros S0 S1 S2.
  assert (E2 : S2 = frun ((pre ++ FStopping a :: killing) ++ FBase (ODied a) :: post) finit).
  { unfold S2. rewrite <- app_assoc. reflexivity. }
  destruct (flight_death (pre ++ FStopping a :: killing) a post) as (H1 & H2 & H3 & _).
  rewrite <- E2 in H1, H2, H3. fold S1 in H1, H2, H3.
  split; [exact H1|]. split; [exact H2|]. split; [exact H3|].
  unfold S2. rewrite frun_split. fold S0.
  destruct (frun_landed_app (killing ++ FBase (ODied a) :: post) (fst (fstep (FStopping a) S0))) as (new & En & Hn).
  exists new. split; [exact En|]. intros l Hl Hr. apply (Hn l Hl). right. cbn. rewrite Hr. set_solver.
Qed.

(** * restart of the owner *)

Definition Fresh (a0 : bytes) (n0 : N) (s : sched) : Prop :=
  forall k j, tbl s !! k = Some j -> j_owner j = a0 -> (n0 <= j_id j)%N.

Lemma step_fresh a0 n0 o s : (n0 <= nid s)%N -> Fresh a0 n0 s -> Fresh a0 n0 (fst (step o s)).
Proof.
  intros Hn F k j' H Ho. apply step_tbl_origin in H as [(j & Hj & (Hi & Hw & _) & _)|Hid]; [|lia].
  rewrite Hi. apply (F k j Hj). congruence.
Qed.

Lemma step_filter_fresh a0 n0 o s :
  Fresh a0 n0 s -> List.filter (old_job_of a0 n0) (fired (fst (step o s))) = List.filter (old_job_of a0 n0) (fired s).
Proof.
  intros F. rewrite step_fired, filter_app'. rewrite (filter_none _ (match o with OTick dt => tick_new dt s | _ => [] end)).
  - apply app_nil_r.
  - intros f H. destruct o; try destruct H.
    unfold tick_new in H. apply in_flat_map in H as ((k, j) & Hin & Hf). apply elem_of_list_In, elem_of_map_to_list in Hin.
    cbn in Hf. apply advance_fires in Hf as (t & -> & _); [|lia]. unfold old_job_of, owned_by. cbn.
    destruct (bool_decide (j_owner j = a0)) eqn:Eo; [|reflexivity]. apply bool_decide_eq_true in Eo.
    pose proof (F k j Hin Eo). cbn. lia.
Qed.

Lemma run_filter_fresh a0 n0 ops : forall s,
  (n0 <= nid s)%N -> Fresh a0 n0 s ->
  List.filter (old_job_of a0 n0) (fired (run ops s)) = List.filter (old_job_of a0 n0) (fired s).
Proof.
  induction ops as [|o ops IH]; intros s Hn F; cbn [run]; [reflexivity|].
  rewrite IH; [apply step_filter_fresh, F|pose proof (step_nid_mono o s); lia|apply step_fresh; assumption].
Qed.

Lemma restarted_fresh s (a0 : bytes) : Inv s -> Fresh a0 (nid s) (fst (step (ORestarted a0) s)).
Proof.
  intros I k j H Ho. exfalso.
  destruct (decide (a0 ∈ dead s)) as [Hd|Hd].
  - unfold step, if_alive, is_dead in H. rewrite bool_decide_eq_true_2 in H by exact Hd. cbn in H.
    apply (inv_alive _ I _ _ H). rewrite Ho. exact Hd.
  - destruct (restarted_clears s a0 I Hd) as [Hno _]. apply (Hno k j H Ho).
Qed.

Lemma restarted_nid s (a0 : bytes) : nid (fst (step (ORestarted a0) s)) = nid s.
Proof. unfold step, if_alive. destruct (is_dead s a0); reflexivity. Qed.

Lemma flight_restart pre (a : bytes) post :
  let S1 := frun pre finit in
  let S2 := frun (pre ++ FBase (ORestarted a) :: post) finit in
  let old := old_job_of a (nid (base S1)) in
  (forall l, In l (landed_by old S2) -> f_time (l_fire l) <= fnow S1) /\
  (forall f, In f (flight_by old S2) -> f_time f <= fnow S1) /\
  (length (landed_by old S2) + length (flight_by old S2) = length (landed_by old S1) + length (flight_by old S1))%nat.
Proof.
  intros S1 S2 old.
  pose proof (reach_finv pre) as [I1 C1 _]. fold S1 in I1, C1.
  pose proof (reach_finv (pre ++ FBase (ORestarted a) :: post)) as [I2 C2 _]. fold S2 in I2, C2.
  assert (E : List.filter old (fired (base S2)) = List.filter old (fired (base S1))).
  { unfold S2. rewrite frun_split, frun_base. cbn [fstep fst base]. fold S1. unfold old.
    rewrite run_filter_fresh; [|rewrite restarted_nid; lia|apply restarted_fresh, I1].
    rewrite step_fired, app_nil_r. reflexivity. }
  split; [|split].
  - intros l Hl. apply In_landed_by in Hl as [Hl Hp].
    assert (Hf : In (l_fire l) (List.filter old (fired (base S2)))) by (apply filter_In; split; [apply cons_landed_fired; assumption|exact Hp]).
    rewrite E in Hf. apply filter_In in Hf as [Hf _]. apply (inv_fired _ I1) in Hf as [_ Hle]. exact Hle.
  - intros f Hf0. apply In_flight_by in Hf0 as [Hf0 Hp].
    assert (Hf : In f (List.filter old (fired (base S2)))) by (apply filter_In; split; [apply cons_flight_fired; assumption|exact Hp]).
    rewrite E in Hf. apply filter_In in Hf as [Hf _]. apply (inv_fired _ I1) in Hf as [_ Hle]. exact Hle.
  - rewrite !cons_by_length by assumption. rewrite E. reflexivity.
Qed.

(** every scheduling call of [a] before the restart completed - the calls its handlers made during the restart's stop
    sequence ([killing]: OnKill handler, the children's OnKilled, the own OnKilled) included - is a job of the old
    incarnation *)
Lemma flight_restart_sequence pre (a : bytes) killing post :
  let S1 := frun (pre ++ killing) finit in
  let S2 := frun (pre ++ killing ++ FBase (ORestarted a) :: post) finit in
  let old := old_job_of a (nid (base S1)) in
  (forall l, In l (landed_by old S2) -> f_time (l_fire l) <= fnow S1) /\
  (forall f, In f (flight_by old S2) -> f_time f <= fnow S1) /\
  (length (landed_by old S2) + length (flight_by old S2) = length (landed_by old S1) + length (flight_by old S1))%nat /\
  (forall k j, tbl (base (frun (pre ++ killing ++ [FBase (ORestarted a)]) finit)) !! k = Some j -> j_owner j <> a).
Proof.
  intros S1 S2 old.
  assert (E2 : S2 = frun ((pre ++ killing) ++ FBase (ORestarted a) :: post) finit).
  { unfold S2. rewrite <- app_assoc. reflexivity. }
  destruct (flight_restart (pre ++ killing) a post) as (H1 & H2 & H3).
  rewrite <- E2 in H1, H2, H3. fold S1 in H1, H2, H3.
  split; [exact H1|]. split; [exact H2|]. split; [exact H3|].
  intros k j H Ho. rewrite app_assoc, frun_split in H. cbn [frun fstep fst base] in H. fold S1 in H.
  pose proof (reach_finv (pre ++ killing)) as [I1 _ _]. fold S1 in I1.
  pose proof (restarted_fresh (base S1) a I1 k j H Ho) as Hge.
  pose proof (inv_idlt _ (step_inv (ORestarted a) _ I1) _ _ H) as Hlt. rewrite restarted_nid in Hlt. lia.
Qed.

Lemma landing_sound fops l :
  let S := frun fops finit in
  In l (landed S) ->
  In (l_fire l) (fired (base S)) /\ f_time (l_fire l) <= l_time l /\ l_time l <= fnow S /\
  (l_dead l = true -> f_recv (l_fire l) ∈ dead (base S) \/ f_recv (l_fire l) ∈ stopping S).
Proof.
  intros S H. pose proof (reach_finv fops) as [I C L]. fold S in I, C, L.
  split; [apply cons_landed_fired; assumption|]. apply (L l H).
Qed.

Lemma thm_conservation fops :
  Permutation (map l_fire (landed (frun fops finit)) ++ flight (frun fops finit)) (fired (base (frun fops finit))).
Proof. apply (fi_cons _ (reach_finv fops)). Qed.

Lemma thm_base_atomic fops : base (frun fops finit) = run (bops fops) init.
Proof. apply frun_base. Qed.

(** * the driver is a scheduler of the general machine *)

Lemma frun_lands_base fops s : bops fops = [] -> base (frun fops s) = base s.
Proof. intros H. rewrite frun_base, H. reflexivity. Qed.

Lemma land_seq (rdy : firing -> bool) b st : forall l keep L,
  List.filter rdy keep = [] ->
  exists fops, bops fops = [] /\
    frun fops (mkF b (keep ++ l) L st) =
    mkF b (keep ++ List.filter (fun f => negb (rdy f)) l) (L ++ map (land_rec b st) (List.filter rdy l)) st.
Proof.
  induction l as [|x l IH]; intros keep L Hk.
  - exists []. split; [reflexivity|]. cbn. rewrite !app_nil_r. reflexivity.
  - cbn [List.filter]. destruct (rdy x) eqn:Ex; cbn [negb].
    + destruct (IH keep (L ++ [land_rec b st x]) Hk) as (fops & Hb & E).
      exists (FLand (length keep) :: fops). split; [exact Hb|].
      cbn [frun fstep flight base landed stopping].
      assert (Hn : nth_error (keep ++ x :: l) (length keep) = Some x).
      { rewrite nth_error_app2 by lia. rewrite Nat.sub_diag. reflexivity. }
      rewrite Hn. cbn [fst].
      assert (H1 : firstn (length keep) (keep ++ x :: l) = keep).
      { rewrite firstn_app, Nat.sub_diag, firstn_all. cbn. apply app_nil_r. }
      assert (H2 : skipn (S (length keep)) (keep ++ x :: l) = l).
      { rewrite skipn_app. rewrite skipn_all2 by lia. replace (S (length keep) - length keep)%nat with 1%nat by lia. reflexivity. }
      rewrite H1, H2, E. cbn [map]. rewrite <- app_assoc. reflexivity.
    + destruct (IH (keep ++ [x]) L) as (fops & Hb & E).
      { rewrite filter_app', Hk. cbn. rewrite Ex. reflexivity. }
      exists fops. split; [exact Hb|]. rewrite <- !app_assoc in E. cbn in E. exact E.
Qed.

Lemma land_ready_frun d :
  exists fops, bops fops = [] /\ fs (land_ready d) = frun fops (fs d).
Proof.
  destruct d as [[b fl L st] bl hd w]. unfold land_ready; cbn [fs blocked held waiting base flight landed stopping].
  destruct (land_seq (ready bl w) b st fl [] L eq_refl) as (fops & Hb & E).
  exists fops. split; [exact Hb|]. cbn [app] in E. symmetry. exact E.
Qed.

Lemma dstep_frun o d :
  exists fops, fs (fst (dstep o d)) = frun fops (fs d) /\
               bops fops = match o with DBase o => [o] | _ => [] end.
Proof.
  unfold dstep; cbn [fst].
  destruct (land_ready_frun (fst (dapply o d))) as (fops & Hb & E).
  destruct o as [o|a|a|a r|a r|a]; cbn [dapply fst] in *.
  - exists (FBase o :: fops). split; [rewrite E; reflexivity|]. rewrite bops_cons_base, Hb. reflexivity.
  - exists fops. split; [exact E|exact Hb].
  - exists fops. split; [exact E|exact Hb].
  - exists fops. split; [exact E|exact Hb].
  - exists fops. split; [exact E|exact Hb].
  - exists (FStopping a :: fops). split; [rewrite E; reflexivity|exact Hb].
Qed.

Lemma dbops_cons o l : dbops (o :: l) = match o with DBase o => [o] | _ => [] end ++ dbops l.
Proof. reflexivity. Qed.

Lemma drun_frun dops : forall d,
  exists fops, fs (drun dops d) = frun fops (fs d) /\ bops fops = dbops dops.
Proof.
  induction dops as [|o dops IH]; intros d; cbn [drun].
  - exists []. split; reflexivity.
  - destruct (dstep_frun o d) as (f1 & E1 & B1). destruct (IH (fst (dstep o d))) as (f2 & E2 & B2).
    exists (f1 ++ f2). split; [rewrite frun_app, <- E1; exact E2|].
    rewrite bops_app, B1, B2, dbops_cons. reflexivity.
Qed.

Lemma drun_is_frun dops :
  exists fops, fs (drun dops dinit) = frun fops finit /\ bops fops = dbops dops.
Proof. apply (drun_frun dops dinit). Qed.

(** * the atomic model is the prompt schedule of the flight machine *)

Definition Prompt (d : dsched) : Prop :=
  blocked d = ∅ /\ held d = ∅ /\ waiting d = [] /\ stopping (fs d) = ∅ /\ flight (fs d) = [] /\
  map l_fire (landed (fs d)) = fired (base (fs d)) /\
  Forall (fun l => l_dead l = f_dead (l_fire l)) (landed (fs d)).

Lemma ready_empty f : ready ∅ [] f = true.
Proof. unfold ready. rewrite (bool_decide_eq_false_2 (_ ∈ ∅)) by set_solver. rewrite (bool_decide_eq_false_2 (_ ∈ [])) by (apply not_elem_of_nil). reflexivity. Qed.

Lemma fetched_dead o b f : In f (fetched o b) -> f_dead f = dead_letter (fst (step o b)) ∅ (f_recv f).
Proof.
  destruct o; try (intros []). cbn [fetched]. intros H.
  apply in_flat_map in H as ((k, j) & _ & Hf). cbn in Hf. apply advance_fires in Hf as (t & -> & _); [|lia].
  unfold dead_letter. rewrite (bool_decide_eq_false_2 (_ ∈ ∅)) by set_solver. rewrite orb_false_r. reflexivity.
Qed.

Lemma dstep_prompt o d : Prompt d -> Prompt (fst (dstep (DBase o) d)).
Proof.
  intros (Hb & Hh & Hw & Hst & Hf & Hm & Hd). unfold dstep, land_ready; cbn [fst dapply fs blocked held waiting fstep base flight landed stopping].
  assert (E0 : List.filter (fun f => bool_decide (key_of f ∈ held d)) (fetched o (base (fs d))) = []).
  { apply filter_none. intros f _. rewrite Hh. apply bool_decide_eq_false_2. set_solver. }
  rewrite Hb, Hh, Hf, Hst, Hw. rewrite Hh in E0. rewrite E0. cbn [app].
  assert (E1 : List.filter (ready ∅ []) (fetched o (base (fs d))) = fetched o (base (fs d))) by (apply filter_all; intros; apply ready_empty).
  assert (E2 : List.filter (fun f => negb (ready ∅ [] f)) (fetched o (base (fs d))) = []) by (apply filter_none; intros; rewrite ready_empty; reflexivity).
  rewrite E1, E2. repeat split; cbn [fs base landed flight blocked held waiting stopping].
  - rewrite map_app, map_map, Hm, step_fired_fetched. cbn. rewrite map_id. reflexivity.
  - apply Forall_app. split; [exact Hd|]. apply Coq.Lists.List.Forall_forall. intros l Hl. apply in_map_iff in Hl as (f & <- & Hin). cbn.
    symmetry. apply fetched_dead, Hin.
Qed.

Lemma drun_prompt ops : forall d, Prompt d -> Prompt (drun (map DBase ops) d).
Proof. induction ops as [|o ops IH]; intros d H; cbn; [exact H|]. apply IH, dstep_prompt, H. Qed.

Lemma prompt_init : Prompt dinit.
Proof. repeat split; constructor. Qed.

Lemma dstep_base_only o d : base (fs (fst (dstep o d))) = match o with DBase o => fst (step o (base (fs d))) | _ => base (fs d) end.
Proof. destruct o; reflexivity. Qed.

Lemma drun_base ops : forall d, base (fs (drun (map DBase ops) d)) = run ops (base (fs d)).
Proof. induction ops as [|o ops IH]; intros d; cbn [map drun run]; [reflexivity|]. rewrite IH, dstep_base_only. reflexivity. Qed.

Lemma thm_atomic_is_prompt ops :
  let d := drun (map DBase ops) dinit in
  flight (fs d) = [] /\
  map l_fire (landed (fs d)) = fired (run ops init) /\
  Forall (fun l => l_dead l = f_dead (l_fire l)) (landed (fs d)).
Proof.
  intros d. destruct (drun_prompt ops dinit prompt_init) as (_ & _ & _ & _ & Hf & Hm & Hd). fold d in Hf, Hm, Hd.
  split; [exact Hf|]. split; [|exact Hd]. rewrite Hm. unfold d. rewrite drun_base. reflexivity.
Qed.
