(** Model of /repo/internal/actor/scheduler.go (the per-actor [Scheduler]) on top of the go-quartz
    [StdScheduler] of the actor system (github.com/reugn/go-quartz v0.15.2, quartz/scheduler.go,
    trigger.go, queue.go), as they are.

    Time is a virtual clock [now : Z] in milliseconds.  The quartz job queue is the table [tbl], keyed
    by the job key.  The key is the BYTE STRING  path ++ ":" ++ reference  ([uniqueJobKey]); ':' is a legal
    character of actor paths (internal/utils/ref.go pathRegexp) and of references, so different
    (owner, reference) pairs can render the same key - the model keeps the string so that this is visible.
    Every actor owns a map [jobKeys] reference -> key ([jk], indexed by the owner's path).

    [scheduleJob] writes jobKeys[reference] FIRST, then calls quartz [ScheduleJob], whose
    [ErrJobAlreadyExists] (a job with an equal key is queued) is IGNORED: [schedule] below does exactly
    that.  [Cancel] deletes the jobKeys entry and then the queued job with that key (whoever owns it);
    [Clear] does so for every entry of jobKeys; termination and restart of the owner call [Clear]
    (killed_handler.go cleanupScheduler).

    The quartz execution loop is modelled per job, because a firing changes nothing but the fired job:
    in a window [lo, hi] in which the loop is responsive ([OTick]) a job whose next run time n is <= hi is
    processed at the instant max lo n; quartz's misfire rule ([validateJob]): if n < (that instant) -
    OutdatedThreshold (100 ms) the job is OUTDATED - a RunOnceTrigger has expired and the job is dropped
    without ever firing, a SimpleTrigger skips and continues at (instant + interval).  [OStall] advances
    the clock WITHOUT the loop running (process suspended, CPU starvation, stop-the-world pause).
    A SimpleTrigger with an interval <= 0 never leaves the head of the queue: the loop spins for ever;
    this is the explicit outcome [spin] (every later step answers [RSpin]; the theorems exclude it).
    A firing is the Tell of a SchedulerMessage to the receiver ([Scheduler.tell]); [Context.onScheduler]
    replaces the envelope's message by the wrapped one, so the behaviour sees the original payload:
    a [firing] record carries the payload, the receiver, the instant and whether the receiver was dead
    at that instant (then the Tell ends as a dead letter). *)
From Coq Require Import List NArith ZArith Bool.
From stdpp Require Import gmap.
Local Open Scope Z_scope.

Notation bytes := (list N).

Definition colon : N := 58%N.
Definition job_key (path ref : bytes) : bytes := path ++ colon :: ref.

(** quartz SchedulerConfig.OutdatedThreshold as set by NewStdScheduler *)
Definition thr : Z := 100.

Inductive trig : Type :=
| TOnce             (* quartz.RunOnceTrigger *)
| TLoop (i : Z)     (* quartz.SimpleTrigger{Interval} *)
| TCron.            (* quartz.CronTrigger: fire times are not interpreted (never within the model's horizon) *)

Record job : Type := mkJob {
  j_id : N;            (* which scheduling call created it (model-only: the n-th accepted-or-rejected call) *)
  j_owner : bytes;     (* path of the actor whose ctx.Scheduler() was used *)
  j_recv : bytes;      (* path of the receiver *)
  j_ref : bytes;       (* ScheduleOptions.Reference *)
  j_payload : N;       (* the message *)
  j_trig : trig;
  j_next : Z;          (* scheduledJob.priority = next run time *)
}.

Record firing : Type := mkFiring {
  f_id : N; f_owner : bytes; f_recv : bytes; f_ref : bytes; f_payload : N;
  f_time : Z;          (* the instant of the Tell *)
  f_dead : bool;       (* receiver already terminated: the Tell becomes a dead letter *)
}.

Notation jobtbl := (gmap (list N) job).
Notation keymap := (gmap (list N) (list N)).
Notation actormap := (gmap (list N) (gmap (list N) (list N))).

Record sched : Type := mkSched {
  now : Z;
  tbl : jobtbl;          (* the quartz queue *)
  jk : actormap;         (* owner path -> jobKeys *)
  dead : gset (list N);  (* terminated actors *)
  fired : list firing;   (* every Tell done by a job so far *)
  nid : N;               (* scheduling calls so far *)
  spin : bool;           (* the quartz loop is spinning on a SimpleTrigger with interval <= 0 *)
}.

Definition init : sched := mkSched 0 ∅ ∅ ∅ [] 0%N false.

Definition jk_of (s : sched) (a : bytes) : keymap := default ∅ (jk s !! a).
Definition is_dead (s : sched) (a : bytes) : bool := bool_decide (a ∈ dead s).

(** ** the quartz loop, per job *)

Definition fire_of (dd : gset (list N)) (j : job) (t : Z) : firing :=
  mkFiring (j_id j) (j_owner j) (j_recv j) (j_ref j) (j_payload j) t (bool_decide (j_recv j ∈ dd)).

Definition set_next (j : job) (n : Z) : job :=
  mkJob (j_id j) (j_owner j) (j_recv j) (j_ref j) (j_payload j) (j_trig j) n.

(** [c] consecutive runs of a SimpleTrigger job, the first due at [n]; none is earlier than [lo] *)
Fixpoint loop_fires (dd : gset (list N)) (j : job) (n i lo : Z) (c : nat) : list firing :=
  match c with
  | O => []
  | S c' => fire_of dd j (Z.max lo n) :: loop_fires dd j (n + i) i lo c'
  end.

Inductive adv : Type :=
| AKeep (j : job)   (* still queued (with this next run time) *)
| ADrop             (* left the queue *)
| ASpin.            (* interval <= 0: the loop never gets past this job *)

(** what the loop does with job [j] while it is responsive from [lo] to [hi] *)
Definition advance (dd : gset (list N)) (lo hi : Z) (j : job) : list firing * adv :=
  let n := j_next j in
  match j_trig j with
  | TCron => ([], AKeep j)
  | TOnce =>
      if hi <? n then ([], AKeep j)
      else if n <? lo - thr then ([], ADrop)                     (* outdated: trigger expired, never fires *)
      else ([fire_of dd j (Z.max lo n)], ADrop)
  | TLoop i =>
      if hi <? n then ([], AKeep j)
      else if i <=? 0 then ([], ASpin)
      else
        let n1 := if n <? lo - thr then lo + i else n in            (* outdated: skip, continue at now + i *)
        if hi <? n1 then ([], AKeep (set_next j n1))
        else let c := (hi - n1) / i + 1 in
             (loop_fires dd j n1 i lo (Z.to_nat c), AKeep (set_next j (n1 + c * i)))
  end.

Definition adv_keep (j : job) (a : adv) : option job :=
  match a with AKeep j' => Some j' | ADrop => None | ASpin => Some j end.
Definition adv_spin (a : adv) : bool := match a with ASpin => true | _ => false end.

Definition tick (dt : Z) (s : sched) : sched :=
  let lo := now s in
  let hi := lo + Z.max dt 0 in
  let l := map_to_list (tbl s) in
  mkSched hi
    (omap (fun j => adv_keep j (snd (advance (dead s) lo hi j))) (tbl s))
    (jk s) (dead s)
    (fired s ++ flat_map (fun kj => fst (advance (dead s) lo hi (snd kj))) l)
    (nid s)
    (spin s || existsb (fun kj => adv_spin (snd (advance (dead s) lo hi (snd kj)))) l).

(** ** the actor-side Scheduler *)

Definition with_tbl (s : sched) (t : jobtbl) : sched :=
  mkSched (now s) t (jk s) (dead s) (fired s) (nid s) (spin s).
Definition with_jk (s : sched) (a : bytes) (m : keymap) : sched :=
  mkSched (now s) (tbl s) (<[a := m]> (jk s)) (dead s) (fired s) (nid s) (spin s).

(** scheduleJob: jobKeys first, then quartz ScheduleJob whose error is ignored *)
Definition schedule (s : sched) (a recv ref : bytes) (p : N) (tr : trig) (next : Z) : sched :=
  let k := job_key a ref in
  let j := mkJob (nid s) a recv ref p tr next in
  mkSched (now s)
    (match tbl s !! k with Some _ => tbl s | None => <[k := j]> (tbl s) end)
    (<[a := <[ref := k]> (jk_of s a)]> (jk s))
    (dead s) (fired s) (nid s + 1)%N (spin s).

Definition delete_all (ks : list bytes) (t : jobtbl) : jobtbl := foldr delete t ks.

(** Clear: DeleteJob for every jobKeys entry, errors ignored; jobKeys ends empty *)
Definition clear (s : sched) (a : bytes) : sched :=
  with_jk (with_tbl s (delete_all (map snd (map_to_list (jk_of s a))) (tbl s))) a ∅.

Inductive res : Type :=
| ROk               (* nil *)
| RParseErr         (* vivid.ErrorCronParse *)
| RNotFound         (* vivid.ErrorNotFound *)
| RQuartzNotFound   (* jobKeys knew the reference but the queue had no such job: quartz's "job not found", returned unconverted *)
| RBool (b : bool)  (* Exists *)
| RUnit             (* Clear / clock steps / lifecycle steps return nothing *)
| RDeadActor        (* the actor has terminated: none of its handlers runs, the call does not happen *)
| RSpin             (* the quartz loop is spinning: nothing is modelled from here on *)
| RDump (jks : list (bytes * list bytes)) (keys : list bytes).

Definition cancel (s : sched) (a ref : bytes) : sched * res :=
  match jk_of s a !! ref with
  | None => (s, RNotFound)
  | Some k =>
      (with_jk (with_tbl s (delete k (tbl s))) a (delete ref (jk_of s a)),
       match tbl s !! k with Some _ => ROk | None => RQuartzNotFound end)
  end.

Inductive op : Type :=
| OOnce (a recv ref : bytes) (d : Z) (p : N)          (* ctx.Scheduler().Once(recv, d, p, WithSchedulerReference(ref)) inside a handler of actor a *)
| OLoop (a recv ref : bytes) (i : Z) (p : N)
| OCron (a recv ref : bytes) (valid : bool) (p : N)   (* valid = whether quartz parses the expression *)
| OCancel (a ref : bytes)
| OClear (a : bytes)
| OExists (a ref : bytes)
| ODied (a : bytes)         (* the actor terminates: cleanupScheduler, then it is dead *)
| ORestarted (a : bytes)    (* the actor is restarted: cleanupScheduler *)
| OTick (dt : Z)            (* dt ms pass, the quartz loop is responsive *)
| OStall (dt : Z)           (* dt ms pass, the quartz loop does not run *)
| ODump (actors : list bytes).

(** byte-wise lexicographic order (Go's string order), insertion sort - for canonical dumps *)
Fixpoint lex_leb (a b : bytes) : bool :=
  match a, b with
  | [], _ => true
  | _ :: _, [] => false
  | x :: a', y :: b' => if (x <? y)%N then true else if (y <? x)%N then false else lex_leb a' b'
  end.
Fixpoint ins_bytes (x : bytes) (l : list bytes) : list bytes :=
  match l with
  | [] => [x]
  | y :: r => if lex_leb x y then x :: l else y :: ins_bytes x r
  end.
Definition sort_bytes (l : list bytes) : list bytes := foldr ins_bytes [] l.

Definition dump (s : sched) (actors : list bytes) : res :=
  RDump (map (fun a => (a, sort_bytes (map fst (map_to_list (jk_of s a))))) actors)
        (sort_bytes (map fst (map_to_list (tbl s)))).

Definition if_alive (s : sched) (a : bytes) (k : sched * res) : sched * res :=
  if is_dead s a then (s, RDeadActor) else k.

Definition step (o : op) (s : sched) : sched * res :=
  if spin s then (s, RSpin) else
  match o with
  | OOnce a recv ref d p => if_alive s a (schedule s a recv ref p TOnce (now s + d), ROk)
  | OLoop a recv ref i p => if_alive s a (schedule s a recv ref p (TLoop i) (now s + i), ROk)
  | OCron a recv ref valid p =>
      if_alive s a (if valid then (schedule s a recv ref p TCron 0, ROk) else (s, RParseErr))   (* parsed BEFORE scheduleJob *)
  | OCancel a ref => if_alive s a (cancel s a ref)
  | OClear a => if_alive s a (clear s a, RUnit)
  | OExists a ref => if_alive s a (s, RBool (bool_decide (is_Some (jk_of s a !! ref))))
  | ODied a =>
      if_alive s a (let s' := clear s a in
                 (mkSched (now s') (tbl s') (jk s') ({[a]} ∪ dead s') (fired s') (nid s') (spin s'), RUnit))
  | ORestarted a => if_alive s a (clear s a, RUnit)
  | OTick dt => (tick dt s, RUnit)
  | OStall dt => (mkSched (now s + Z.max dt 0) (tbl s) (jk s) (dead s) (fired s) (nid s) (spin s), RUnit)
  | ODump actors => (s, dump s actors)
  end.

Fixpoint run (ops : list op) (s : sched) : sched :=
  match ops with
  | [] => s
  | o :: r => run r (fst (step o s))
  end.

Fixpoint run_res (ops : list op) (s : sched) : list res :=
  match ops with
  | [] => []
  | o :: r => snd (step o s) :: run_res r (fst (step o s))
  end.

(** ** vocabulary of the theorems *)

(** the Tells done so far by the job of scheduling call [x] *)
Definition fires_of (x : N) (s : sched) : list firing :=
  List.filter (fun f => (f_id f =? x)%N) (fired s).

(** virtual time that passes during an op sequence *)
Definition op_dt (o : op) : Z :=
  match o with OTick dt | OStall dt => Z.max dt 0 | _ => 0 end.
Definition elapsed (ops : list op) : Z := fold_right (fun o z => op_dt o + z) 0 ops.

Definition is_stall (o : op) : bool := match o with OStall _ => true | _ => false end.
Definition no_stall (ops : list op) : Prop := Forall (fun o => is_stall o = false) ops.

(** [o] is a Cancel / Clear / termination / restart that can delete a queued job with key [k]: a Cancel
    whose (actor, reference) renders [k], or a Clear of an actor one of whose references would render [k] *)
Definition touches (k : bytes) (o : op) : Prop :=
  match o with
  | OCancel a r => job_key a r = k
  | OClear a | ODied a | ORestarted a => exists r, job_key a r = k
  | _ => False
  end.

(** the owner [a] removes its job with reference [ref]: Cancel(ref), Clear, its termination, its restart *)
Definition removes (a ref : bytes) (o : op) : Prop :=
  o = OCancel a ref \/ o = OClear a \/ o = ODied a \/ o = ORestarted a.

Definition loops_positive (ops : list op) : Prop :=
  Forall (fun o => match o with OLoop _ _ _ i _ => 0 < i | _ => True end) ops.

(** the instants t0 + i, t0 + 2i, ..., t0 + m*i *)
Definition grid (t0 i : Z) (m : nat) : list Z := map (fun k => t0 + Z.of_nat k * i) (seq 1 m).

(** [o] is a scheduling call of actor [a] with reference [ref] that reaches scheduleJob *)
Definition is_sched (o : op) (a recv ref : bytes) (p : N) : Prop :=
  (exists d, o = OOnce a recv ref d p) \/ (exists i, o = OLoop a recv ref i p) \/ o = OCron a recv ref true p.
