(** Model of /repo/internal/actor/scheduler.go (the per-actor [Scheduler]) on top of the go-quartz
    [StdScheduler] of the actor system (github.com/reugn/go-quartz v0.15.2, quartz/scheduler.go,
    trigger.go, queue.go), as they are (after the fixes 06e0030, 9c4b505, 7fd453c).

    Time is a virtual clock [now : Z] in milliseconds.  The quartz job queue is the table [tbl], keyed
    by the job key.  The key is quartz's JobKey{name = reference, group = path of the owner}
    ([uniqueJobKey] = NewJobKeyWithGroup(reference, path)); JobKey.Equals compares both components, so the
    key is the PAIR (path, reference).  Every actor owns a map [jobKeys] reference -> key ([jk], indexed by
    the owner's path).

    [Once] rejects a negative delay and [Loop] a non-positive interval with vivid.ErrorIllegalArgument before
    anything else happens.  [scheduleJob] calls quartz [ScheduleJob] FIRST: an empty key name (= empty
    reference) is refused with quartz's illegal-argument error, a key that is already queued with
    [ErrJobAlreadyExists]; either error is returned to the caller and nothing has changed.  Only after a
    successful ScheduleJob is jobKeys[reference] written.  [Cancel] deletes the jobKeys entry and then the
    queued job with that key; [Clear] does so for every entry of jobKeys; termination and restart of the
    owner call [Clear] (killed_handler.go cleanupScheduler).

    The quartz execution loop is modelled per job, because a firing changes nothing but the fired job:
    in a window [lo, hi] in which the loop is responsive ([OTick]) a job whose next run time n is <= hi is
    processed at the instant max lo n; quartz's misfire rule ([validateJob]): if n < (that instant) -
    OutdatedThreshold (100 ms) the job is OUTDATED - a RunOnceTrigger has expired and the job is dropped
    without ever firing, a SimpleTrigger skips and continues at (instant + interval).  [OStall] advances
    the clock WITHOUT the loop running (process suspended, CPU starvation, stop-the-world pause).
    A firing is the Tell of a SchedulerMessage to the receiver ([Scheduler.tell]); [Context.onScheduler]
    replaces the envelope's message by the wrapped one, so the behaviour sees the original payload:
    a [firing] record carries the payload, the receiver, the instant and whether the receiver was dead
    at that instant (then the Tell ends as a dead letter).
    In THIS model a firing is atomic (pop, Tell and arrival in one step).  Timer/SchedFlight.v refines it: [fired] is
    then the list of POPS, and the Tell arrives in a step of its own, at any later time; it also gives the stop
    sequence its phases.  [ODied a] / [ORestarted a] are the END of the stop sequence (killed_handler.go
    cleanupScheduler runs after the actor's own OnKilled handler): scheduler calls made by the handlers of the stop
    sequence are ordinary ops of a BEFORE that step. *)
From Coq Require Import List NArith ZArith Bool.
From stdpp Require Import gmap.
Local Open Scope Z_scope.

Notation bytes := (list N).
Notation key := (list N * list N)%type.

Definition job_key (path ref : bytes) : key := (path, ref).

(** quartz SchedulerConfig.OutdatedThreshold as set by NewStdScheduler *)
Definition thr : Z := 100.

Inductive trig : Type :=
| TOnce             (* quartz.RunOnceTrigger *)
| TLoop (i : Z)     (* quartz.SimpleTrigger{Interval} *)
| TCron.            (* quartz.CronTrigger: fire times are not interpreted (never within the model's horizon) *)

Record job : Type := mkJob {
  j_id : N;            (* which scheduling call created it (model-only: the n-th successful call) *)
  j_owner : bytes;     (* path of the actor whose ctx.Scheduler() was used *)
  j_recv : bytes;      (* path of the receiver *)
  j_ref : bytes;       (* ScheduleOptions.Reference *)
  j_payload : N;       (* the message *)
  j_trig : trig;
  j_next : Z;          (* scheduledJob.priority = next run time *)
}.

Record firing : Type := mkFiring {
  f_id : N; f_owner : bytes; f_recv : bytes; f_ref : bytes; f_payload : N;
  f_time : Z;          (* the instant of the Tell *)
  f_dead : bool;       (* receiver already terminated: the Tell becomes a dead letter *)
}.

Notation jobtbl := (gmap (list N * list N) job).
Notation keymap := (gmap (list N) (list N * list N)).
Notation actormap := (gmap (list N) (gmap (list N) (list N * list N))).

Record sched : Type := mkSched {
  now : Z;
  tbl : jobtbl;          (* the quartz queue *)
  jk : actormap;         (* owner path -> jobKeys *)
  dead : gset (list N);  (* terminated actors *)
  fired : list firing;   (* every Tell done by a job so far *)
  nid : N;               (* successful scheduling calls so far *)
}.

Definition init : sched := mkSched 0 ∅ ∅ ∅ [] 0%N.

Definition jk_of (s : sched) (a : bytes) : keymap := default ∅ (jk s !! a).
Definition is_dead (s : sched) (a : bytes) : bool := bool_decide (a ∈ dead s).

(** ** the quartz loop, per job *)

Definition fire_of (dd : gset (list N)) (j : job) (t : Z) : firing :=
  mkFiring (j_id j) (j_owner j) (j_recv j) (j_ref j) (j_payload j) t (bool_decide (j_recv j ∈ dd)).

Definition set_next (j : job) (n : Z) : job :=
  mkJob (j_id j) (j_owner j) (j_recv j) (j_ref j) (j_payload j) (j_trig j) n.

(** [c] consecutive runs of a SimpleTrigger job, the first due at [n]; none is earlier than [lo] *)
Fixpoint loop_fires (dd : gset (list N)) (j : job) (n i lo : Z) (c : nat) : list firing :=
  match c with
  | O => []
  | S c' => fire_of dd j (Z.max lo n) :: loop_fires dd j (n + i) i lo c'
  end.

Inductive adv : Type :=
| AKeep (j : job)   (* still queued (with this next run time) *)
| ADrop.            (* left the queue *)

(** what the loop does with job [j] while it is responsive from [lo] to [hi]
    (an interval <= 0 cannot be queued: [Loop] rejects it; the clause is there for totality) *)
Definition advance (dd : gset (list N)) (lo hi : Z) (j : job) : list firing * adv :=
  let n := j_next j in
  match j_trig j with
  | TCron => ([], AKeep j)
  | TOnce =>
      if hi <? n then ([], AKeep j)
      else if n <? lo - thr then ([], ADrop)                     (* outdated: trigger expired, never fires *)
      else ([fire_of dd j (Z.max lo n)], ADrop)
  | TLoop i =>
      if hi <? n then ([], AKeep j)
      else if i <=? 0 then ([], AKeep j)
      else
        let n1 := if n <? lo - thr then lo + i else n in            (* outdated: skip, continue at now + i *)
        if hi <? n1 then ([], AKeep (set_next j n1))
        else let c := (hi - n1) / i + 1 in
             (loop_fires dd j n1 i lo (Z.to_nat c), AKeep (set_next j (n1 + c * i)))
  end.

Definition adv_keep (a : adv) : option job :=
  match a with AKeep j' => Some j' | ADrop => None end.

Definition tick (dt : Z) (s : sched) : sched :=
  let lo := now s in
  let hi := lo + Z.max dt 0 in
  mkSched hi
    (omap (fun j => adv_keep (snd (advance (dead s) lo hi j))) (tbl s))
    (jk s) (dead s)
    (fired s ++ flat_map (fun kj => fst (advance (dead s) lo hi (snd kj))) (map_to_list (tbl s)))
    (nid s).

(** ** the actor-side Scheduler *)

Definition with_tbl (s : sched) (t : jobtbl) : sched :=
  mkSched (now s) t (jk s) (dead s) (fired s) (nid s).
Definition with_jk (s : sched) (a : bytes) (m : keymap) : sched :=
  mkSched (now s) (tbl s) (<[a := m]> (jk s)) (dead s) (fired s) (nid s).

Inductive res : Type :=
| ROk               (* nil *)
| RParseErr         (* vivid.ErrorCronParse *)
| RNotFound         (* vivid.ErrorNotFound *)
| RQuartzNotFound   (* jobKeys knew the reference but the queue had no such job: quartz's "job not found", returned unconverted *)
| RIllegalArg       (* vivid.ErrorIllegalArgument: negative delay / non-positive interval *)
| RExists           (* quartz's "job already exists" (the reference is still queued), returned unconverted *)
| REmptyRef         (* quartz's "illegal argument: empty key name is not allowed", returned unconverted *)
| RBool (b : bool)  (* Exists *)
| RUnit             (* Clear / clock steps / lifecycle steps return nothing *)
| RDeadActor        (* the actor has terminated: none of its handlers runs, the call does not happen *)
| RDump (jks : list (bytes * list bytes)) (keys : list (bytes * bytes)).

(** the state after a successful scheduleJob: the job is queued, then jobKeys[reference] is written *)
Definition insert_job (s : sched) (a recv ref : bytes) (p : N) (tr : trig) (next : Z) : sched :=
  let k := job_key a ref in
  mkSched (now s)
    (<[k := mkJob (nid s) a recv ref p tr next]> (tbl s))
    (<[a := <[ref := k]> (jk_of s a)]> (jk s))
    (dead s) (fired s) (nid s + 1)%N.

(** scheduleJob: quartz ScheduleJob first; its error is returned and nothing changes *)
Definition schedule (s : sched) (a recv ref : bytes) (p : N) (tr : trig) (next : Z) : sched * res :=
  match ref with
  | [] => (s, REmptyRef)
  | _ :: _ =>
      match tbl s !! job_key a ref with
      | Some _ => (s, RExists)
      | None => (insert_job s a recv ref p tr next, ROk)
      end
  end.

Definition delete_all (ks : list key) (t : jobtbl) : jobtbl := foldr delete t ks.

(** Clear: DeleteJob for every jobKeys entry, errors ignored; jobKeys ends empty *)
Definition clear (s : sched) (a : bytes) : sched :=
  with_jk (with_tbl s (delete_all (map snd (map_to_list (jk_of s a))) (tbl s))) a ∅.

Definition cancel (s : sched) (a ref : bytes) : sched * res :=
  match jk_of s a !! ref with
  | None => (s, RNotFound)
  | Some k =>
      (with_jk (with_tbl s (delete k (tbl s))) a (delete ref (jk_of s a)),
       match tbl s !! k with Some _ => ROk | None => RQuartzNotFound end)
  end.

Inductive op : Type :=
| OOnce (a recv ref : bytes) (d : Z) (p : N)          (* ctx.Scheduler().Once(recv, d, p, reference ref) inside a handler of actor a *)
| OLoop (a recv ref : bytes) (i : Z) (p : N)
| OCron (a recv ref : bytes) (valid : bool) (p : N)   (* valid = whether quartz parses the expression *)
| OCancel (a ref : bytes)
| OClear (a : bytes)
| OExists (a ref : bytes)
| ODied (a : bytes)         (* the actor terminates: cleanupScheduler, then it is dead *)
| ORestarted (a : bytes)    (* the actor is restarted: cleanupScheduler *)
| OTick (dt : Z)            (* dt ms pass, the quartz loop is responsive *)
| OStall (dt : Z)           (* dt ms pass, the quartz loop does not run *)
| ODump (actors : list bytes).

(** byte-wise lexicographic order (Go's string order), insertion sort - for canonical dumps *)
Fixpoint lex_leb (a b : bytes) : bool :=
  match a, b with
  | [], _ => true
  | _ :: _, [] => false
  | x :: a', y :: b' => if (x <? y)%N then true else if (y <? x)%N then false else lex_leb a' b'
  end.
Definition lex_ltb (a b : bytes) : bool := negb (lex_leb b a).
Definition key_leb (x y : key) : bool :=
  if lex_ltb (fst x) (fst y) then true else if lex_ltb (fst y) (fst x) then false else lex_leb (snd x) (snd y).
Fixpoint ins_sorted {A} (le : A -> A -> bool) (x : A) (l : list A) : list A :=
  match l with
  | [] => [x]
  | y :: r => if le x y then x :: l else y :: ins_sorted le x r
  end.
Definition sort_by {A} (le : A -> A -> bool) (l : list A) : list A := foldr (ins_sorted le) [] l.

Definition dump (s : sched) (actors : list bytes) : res :=
  RDump (map (fun a => (a, sort_by lex_leb (map fst (map_to_list (jk_of s a))))) actors)
        (sort_by key_leb (map fst (map_to_list (tbl s)))).

Definition if_alive (s : sched) (a : bytes) (k : sched * res) : sched * res :=
  if is_dead s a then (s, RDeadActor) else k.

Definition step (o : op) (s : sched) : sched * res :=
  match o with
  | OOnce a recv ref d p =>
      if_alive s a (if d <? 0 then (s, RIllegalArg) else schedule s a recv ref p TOnce (now s + d))
  | OLoop a recv ref i p =>
      if_alive s a (if i <=? 0 then (s, RIllegalArg) else schedule s a recv ref p (TLoop i) (now s + i))
  | OCron a recv ref valid p =>
      if_alive s a (if valid then schedule s a recv ref p TCron 0 else (s, RParseErr))   (* parsed BEFORE scheduleJob *)
  | OCancel a ref => if_alive s a (cancel s a ref)
  | OClear a => if_alive s a (clear s a, RUnit)
  | OExists a ref => if_alive s a (s, RBool (bool_decide (is_Some (jk_of s a !! ref))))
  | ODied a =>
      if_alive s a (let s' := clear s a in
                    (mkSched (now s') (tbl s') (jk s') ({[a]} ∪ dead s') (fired s') (nid s'), RUnit))
  | ORestarted a => if_alive s a (clear s a, RUnit)
  | OTick dt => (tick dt s, RUnit)
  | OStall dt => (mkSched (now s + Z.max dt 0) (tbl s) (jk s) (dead s) (fired s) (nid s), RUnit)
  | ODump actors => (s, dump s actors)
  end.

Fixpoint run (ops : list op) (s : sched) : sched :=
  match ops with
  | [] => s
  | o :: r => run r (fst (step o s))
  end.

Fixpoint run_res (ops : list op) (s : sched) : list res :=
  match ops with
  | [] => []
  | o :: r => snd (step o s) :: run_res r (fst (step o s))
  end.

(** ** vocabulary of the theorems *)

(** the Tells done so far by the job of scheduling call [x] *)
Definition fires_of (x : N) (s : sched) : list firing :=
  List.filter (fun f => (f_id f =? x)%N) (fired s).

(** virtual time that passes during an op sequence *)
Definition op_dt (o : op) : Z :=
  match o with OTick dt | OStall dt => Z.max dt 0 | _ => 0 end.
Definition elapsed (ops : list op) : Z := fold_right (fun o z => op_dt o + z) 0 ops.

Definition is_stall (o : op) : bool := match o with OStall _ => true | _ => false end.
Definition no_stall (ops : list op) : Prop := Forall (fun o => is_stall o = false) ops.

(** the owner [a] removes its job with reference [ref]: Cancel(ref), Clear, its termination, its restart *)
Definition removes (a ref : bytes) (o : op) : Prop :=
  o = OCancel a ref \/ o = OClear a \/ o = ODied a \/ o = ORestarted a.

(** the instants t0 + i, t0 + 2i, ..., t0 + m*i *)
Definition grid (t0 i : Z) (m : nat) : list Z := map (fun k => t0 + Z.of_nat k * i) (seq 1 m).

(** [o] is a scheduling call of actor [a] with reference [ref] *)
Definition is_sched (o : op) (a recv ref : bytes) (p : N) : Prop :=
  (exists d, o = OOnce a recv ref d p) \/ (exists i, o = OLoop a recv ref i p) \/ o = OCron a recv ref true p.
