(** Concrete witnesses (closed by computation) for Properties/C20.v. *)
From Coq Require Import List NArith ZArith Bool Lia.
From stdpp Require Import gmap.
From Vivid Require Import Timer.SchedModel Timer.SchedProofs.
Local Open Scope Z_scope.

Ltac conj_refl := lazymatch goal with |- _ /\ _ => split; [reflexivity|conj_refl] | _ => reflexivity end.

Definition w_a : bytes := [47; 97]%N.             (* "/a"   *)
Definition w_ab : bytes := [47; 97; 58; 98]%N.    (* "/a:b" *)
Definition w_b : bytes := [47; 98]%N.             (* "/b"   *)
Definition w_bc : bytes := [98; 58; 99]%N.        (* "b:c"  *)
Definition w_c : bytes := [99]%N.                 (* "c"    *)
Definition w_r : bytes := [114]%N.                (* "r"    *)

(** the former collision "/a" ":" "b:c" = "/a:b" ":" "c": the keys are pairs now, both jobs live side by side *)
Definition w_collision : list op :=
  [OOnce w_a w_a w_bc 100 1; OOnce w_ab w_ab w_c 50 2; OCancel w_ab w_c; OTick 1000].
Lemma wit_no_collision :
  run_res w_collision init = [ROk; ROk; ROk; RUnit] /\
  map (fun f => (f_payload f, f_time f)) (fired (run w_collision init)) = [(1%N, 100)].
Proof. vm_compute. conj_refl. Qed.

(** a live reference used again: quartz's error is returned, nothing changes, the first job goes on *)
Definition w_reuse : list op :=
  [OOnce w_a w_a w_r 300 1; OOnce w_a w_a w_r 50 2; OLoop w_a w_a w_r 50 3; OTick 1000; OOnce w_a w_a w_r 50 4; OTick 1000].
Lemma wit_reuse :
  run_res w_reuse init = [ROk; RExists; RExists; RUnit; ROk; RUnit] /\
  map (fun f => (f_payload f, f_time f)) (fired (run w_reuse init)) = [(1%N, 300); (4%N, 1050)].
Proof. vm_compute. conj_refl. Qed.

(** after a Once has fired its reference stays in jobKeys: Exists answers true, Cancel answers quartz's error *)
Definition w_stale : list op := [OOnce w_a w_a w_r 50 1; OTick 100; OExists w_a w_r; OCancel w_a w_r; OCancel w_a w_r].
Lemma wit_stale : run_res w_stale init = [ROk; RUnit; RBool true; RQuartzNotFound; RNotFound].
Proof. vm_compute. reflexivity. Qed.

(** quartz's misfire rule: the loop does not run for more than 100 ms across the deadline *)
Definition w_stall : list op := [OOnce w_a w_a w_r 500 1; OStall 700; OTick 100000; OExists w_a w_r].
Lemma wit_stall :
  run_res w_stall init = [ROk; RUnit; RUnit; RBool true] /\ fired (run w_stall init) = [] /\
  map_to_list (tbl (run w_stall init)) = [].
Proof. vm_compute. conj_refl. Qed.

Definition w_stall_loop : list op := [OLoop w_a w_a w_r 100 1; OStall 250; OTick 300].
Lemma wit_stall_loop :
  map f_time (fired (run w_stall_loop init)) = [350; 450; 550] /\ now (run w_stall_loop init) = 550.
Proof. vm_compute. split; reflexivity. Qed.

(** rejected arguments *)
Lemma wit_rejected :
  run_res [OOnce w_a w_a w_r (-1) 1; OLoop w_a w_a w_r 0 2; OLoop w_a w_a w_r (-1000) 3; OOnce w_a w_a [] 5 4; OOnce w_a w_a w_r 0 5;
           OCron w_a w_a w_c false 6; OTick 10; ODump [w_a]] init
  = [RIllegalArg; RIllegalArg; RIllegalArg; REmptyRef; ROk; RParseErr; RUnit; RDump [(w_a, [w_r])] []].
Proof. vm_compute. reflexivity. Qed.
