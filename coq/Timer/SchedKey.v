(** The job key as the code builds it: internal/actor/scheduler.go [uniqueJobKey] =
    quartz.NewJobKeyWithGroup(reference, path) (go-quartz v0.15.2 quartz/job_key.go): the key is the pair
    (group, name) - [JobKey.Equals] compares both, the queue ([jobQueue.Push/Get/Remove]) uses only [Equals] - but an EMPTY
    group is replaced by the constant "default".  [JobKey.String] = group ++ "::" ++ name is used in log lines only. *)
From Coq Require Import List NArith.
From stdpp Require Import gmap.
From Vivid Require Import Timer.SchedModel.
Import ListNotations.
Local Open Scope N_scope.

Definition default_group : bytes := [100; 101; 102; 97; 117; 108; 116].   (* "default" *)

(** NewJobKeyWithGroup(name, group), as the pair (group, name) *)
Definition quartz_key (name group : bytes) : key :=
  (match group with [] => default_group | _ :: _ => group end, name).

Definition unique_job_key (path ref : bytes) : key := quartz_key ref path.

Definition key_eqb (k1 k2 : key) : bool := bool_decide (k1 = k2).

(** JobKey.String() *)
Definition key_string (k : key) : bytes := fst k ++ [58; 58] ++ snd k.

(** an actor path: "/" followed by anything (internal/actor ref construction; never empty) *)
Definition is_path (a : bytes) : Prop := exists r, a = 47 :: r.
