(** In-flight firings: the refinement of Timer/SchedModel.v in which a firing is NOT atomic.

    go-quartz v0.15.2, quartz/scheduler.go: at the firing instant the execution loop pops the job under the
    queue lock ([fetchAndReschedule]: Pop, validate, Push of the rescheduled job - a RunOnceTrigger has expired
    and is not pushed again) and then starts a NEW goroutine for the job ([executeAndReschedule]:
    [go executeWithRetries]).  That goroutine runs vivid's job function ([Scheduler.scheduleJob]:
    [s.tell(receiver, message, opts)] = [ctx.Tell] / [ctx.TellSelf] of a SchedulerMessage, internal/actor/scheduler.go),
    i.e. the enqueue into the receiver's mailbox; the receiver's mailbox goroutine hands the message to the
    behaviour later (or to the dead-letter stream if the receiver has terminated by then).  Between the pop and
    the behaviour anything can happen: Cancel / Clear (they only take the queue lock: [DeleteJob]), the owner's or the
    receiver's termination, a restart, further firings of the same Loop.

    The machine here has the two steps:
      [FBase o]   an op of the atomic model (Timer/SchedModel.v [step]); what the quartz loop POPS during an [OTick]
                  (the list the atomic model appends to [fired]) is appended to [flight] - a firing record's [f_time]
                  is the firing instant (the pop);
      [FLand n]   the n-th Tell in flight reaches its receiver's behaviour - or the dead-letter stream when the
                  receiver is dead or stopping AT THAT MOMENT ([l_dead]); any of the Tells in flight may be the
                  next one (goroutines and mailboxes are scheduled arbitrarily), at any later time;
      [FStopping a]  the stop sequence of actor a begins ([Context.doKill] for a termination: state killing): from
                  now on [HandleEnvelop] turns every user message for a into a dead letter.  NOTHING is cleared
                  here: the handlers of the stop sequence still run - the OnKill handler, the handlers of the
                  children's OnKilled while a waits for them, a's own OnKilled handler - and may call
                  Once / Loop / Cron / Cancel like any handler (ordinary ops of a); its jobs keep firing (into dead
                  letters when they are addressed to a itself).  The sequence ENDS with [FBase (ODied a)]: that is
                  [killedHandler.cleanupScheduler] = Clear, after the own OnKilled handler (a restart ends with
                  [FBase (ORestarted a)] at the same place of the chain, before the new incarnation is created).
    The goroutine's enqueue and the mailbox's dequeue are one step here: both are arbitrary delays of the same
    message and what the behaviour / the dead-letter stream sees is decided at the dequeue.

    [base] of a flight state is a state of the atomic model and evolves by exactly its [step]: every theorem of
    Properties/C20.v about [fired] is a theorem about the pops of this machine.

    The DRIVER ([dstep]) is the deterministic scheduler of this machine that the correspondence check runs
    against the real code: every Tell in flight lands at once, except while its receiver is BLOCKED (its mailbox
    goroutine sits in a long handler: the messages queue up behind it) or it WAITS AT THE GATE (it was popped while
    its job key was held: the goroutine quartz started is suspended before the Tell until the key is released; a Tell
    popped before the hold has passed the gate already).  [drun_is_frun] (SchedFlightProofs.v): every driver run is a run of
    the general machine. *)
From Coq Require Import List NArith ZArith Bool.
From stdpp Require Import gmap.
From Vivid Require Import Timer.SchedModel.
Local Open Scope Z_scope.

Record landing : Type := mkLanding {
  l_fire : firing;   (* the pop it belongs to; f_time (l_fire l) = the firing instant *)
  l_time : Z;        (* when the receiver's mailbox handed it to the behaviour / to the dead-letter stream *)
  l_dead : bool;     (* dead letter: the receiver had terminated by then *)
}.

Record fsched : Type := mkF {
  base : sched;            (* the atomic model's state: clock, quartz queue, jobKeys, dead actors, [fired] = all pops so far *)
  flight : list firing;    (* popped, the Tell has not reached the receiver's behaviour yet (oldest first) *)
  landed : list landing;   (* what behaviours and the dead-letter stream have seen so far (oldest first) *)
  stopping : gset (list N);  (* actors whose stop sequence has begun (state killing or later) *)
}.

Definition finit : fsched := mkF init [] [] ∅.

(** what the quartz loop pops during op [o] in state [b]: exactly what [step o b] appends to [fired b] *)
Definition fetched (o : op) (b : sched) : list firing :=
  match o with
  | OTick dt => flat_map (fun kj => fst (advance (dead b) (now b) (now b + Z.max dt 0) (snd kj))) (map_to_list (tbl b))
  | _ => []
  end.

Inductive fop : Type :=
| FBase (o : op)
| FLand (n : nat)
| FStopping (a : bytes).

Inductive fres : Type :=
| FR (r : res)
| FLanded (x : N) (dead : bool)   (* a Tell of scheduling call x arrived (dead: as a dead letter) *)
| FNone.                          (* there is no n-th Tell in flight *)

(** a user message for [r] becomes a dead letter: r has terminated, or its stop sequence has begun *)
Definition dead_letter (b : sched) (st : gset (list N)) (r : bytes) : bool := is_dead b r || bool_decide (r ∈ st).

Definition land_rec (b : sched) (st : gset (list N)) (f : firing) : landing :=
  mkLanding f (now b) (dead_letter b st (f_recv f)).

Definition fstep (o : fop) (s : fsched) : fsched * fres :=
  match o with
  | FBase o =>
      (mkF (fst (step o (base s))) (flight s ++ fetched o (base s)) (landed s) (stopping s), FR (snd (step o (base s))))
  | FLand n =>
      match nth_error (flight s) n with
      | Some f => (mkF (base s) (firstn n (flight s) ++ skipn (S n) (flight s))
                       (landed s ++ [land_rec (base s) (stopping s) f]) (stopping s),
                   FLanded (f_id f) (dead_letter (base s) (stopping s) (f_recv f)))
      | None => (s, FNone)
      end
  | FStopping a => (mkF (base s) (flight s) (landed s) ({[a]} ∪ stopping s), FR RUnit)
  end.

Fixpoint frun (ops : list fop) (s : fsched) : fsched :=
  match ops with
  | [] => s
  | o :: r => frun r (fst (fstep o s))
  end.

Fixpoint frun_res (ops : list fop) (s : fsched) : list fres :=
  match ops with
  | [] => []
  | o :: r => snd (fstep o s) :: frun_res r (fst (fstep o s))
  end.

(** ** vocabulary of the theorems *)

(** the ops of the atomic model inside a flight run *)
Definition bops (l : list fop) : list op :=
  flat_map (fun o => match o with FBase o => [o] | _ => [] end) l.

Definition fnow (s : fsched) : Z := now (base s).

Definition landed_by (P : firing -> bool) (s : fsched) : list landing :=
  List.filter (fun l => P (l_fire l)) (landed s).
Definition flight_by (P : firing -> bool) (s : fsched) : list firing := List.filter P (flight s).

Definition is_id (x : N) (f : firing) : bool := (f_id f =? x)%N.
Definition owned_by (a : bytes) (f : firing) : bool := bool_decide (f_owner f = a).
(** a Tell of a job that actor [a] scheduled with one of its first [n] successful scheduling calls of the run *)
Definition old_job_of (a : bytes) (n : N) (f : firing) : bool := owned_by a f && (f_id f <? n)%N.

(** what has arrived / is still in flight of scheduling call [x] *)
Definition landings_of (x : N) (s : fsched) : list landing := landed_by (is_id x) s.
Definition flight_of (x : N) (s : fsched) : list firing := flight_by (is_id x) s.

(** ** the driver: the deterministic scheduler used by the correspondence check *)

Global Instance firing_eq_dec : EqDecision firing.
Proof. solve_decision. Defined.

Record dsched : Type := mkD {
  fs : fsched;
  blocked : gset (list N);             (* receivers whose mailbox goroutine is busy: messages queue up *)
  held : gset (list N * list N);       (* job keys (owner path, reference) whose Tell goroutines are stopped at the gate *)
  waiting : list firing;               (* the Tells that were popped while their key was held: they wait at the gate *)
}.

Definition dinit : dsched := mkD finit ∅ ∅ [].

(** a Tell is ready to arrive: it does not wait at the gate and its receiver's mailbox drains.  (A Tell popped BEFORE its
    key was held has passed the gate already: a later hold does not stop it.) *)
Definition ready (bl : gset (list N)) (w : list firing) (f : firing) : bool :=
  negb (bool_decide (f_recv f ∈ bl)) && negb (bool_decide (f ∈ w)).

(** every ready Tell in flight lands now, oldest first *)
Definition land_ready (d : dsched) : dsched :=
  let s := fs d in
  let rdy := ready (blocked d) (waiting d) in
  mkD (mkF (base s) (List.filter (fun f => negb (rdy f)) (flight s))
           (landed s ++ map (land_rec (base s) (stopping s)) (List.filter rdy (flight s))) (stopping s))
      (blocked d) (held d) (waiting d).

Inductive dop : Type :=
| DBase (o : op)
| DBlock (a : bytes)          (* a handler of actor a begins that does not return until DUnblock *)
| DUnblock (a : bytes)
| DHold (a ref : bytes)       (* from now on the Tell goroutines of the key (a, ref) stop before the Tell, until DRelease *)
| DRelease (a ref : bytes)
| DStopping (a : bytes).      (* the stop sequence of a begins *)

Definition key_of (f : firing) : list N * list N := (f_owner f, f_ref f).

Definition dapply (o : dop) (d : dsched) : dsched * res :=
  match o with
  | DBase o =>
      (mkD (fst (fstep (FBase o) (fs d))) (blocked d) (held d)
           (waiting d ++ List.filter (fun f => bool_decide (key_of f ∈ held d)) (fetched o (base (fs d)))),
       snd (step o (base (fs d))))
  | DBlock a => (mkD (fs d) ({[a]} ∪ blocked d) (held d) (waiting d), RUnit)
  | DUnblock a => (mkD (fs d) (blocked d ∖ {[a]}) (held d) (waiting d), RUnit)
  | DHold a r => (mkD (fs d) (blocked d) ({[(a, r)]} ∪ held d) (waiting d), RUnit)
  | DRelease a r => (mkD (fs d) (blocked d) (held d ∖ {[(a, r)]})
                         (List.filter (fun f => negb (bool_decide (key_of f = (a, r)))) (waiting d)), RUnit)
  | DStopping a => (mkD (fst (fstep (FStopping a) (fs d))) (blocked d) (held d) (waiting d), RUnit)
  end.

Definition dstep (o : dop) (d : dsched) : dsched * res :=
  (land_ready (fst (dapply o d)), snd (dapply o d)).

Fixpoint drun (ops : list dop) (d : dsched) : dsched :=
  match ops with
  | [] => d
  | o :: r => drun r (fst (dstep o d))
  end.

Fixpoint drun_res (ops : list dop) (d : dsched) : list res :=
  match ops with
  | [] => []
  | o :: r => snd (dstep o d) :: drun_res r (fst (dstep o d))
  end.

Definition dbops (l : list dop) : list op :=
  flat_map (fun o => match o with DBase o => [o] | _ => [] end) l.
