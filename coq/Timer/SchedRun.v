(** Executable entry point of the scheduler model for the correspondence check.
    input  = ( op ... )
             op = (0 a recv ref d p) Once | (1 a recv ref i p) Loop | (2 a recv ref valid p) Cron
                | (3 a ref) Cancel | (4 a) Clear | (5 a ref) Exists | (6 a) owner terminated | (7 a) owner restarted
                | (8 dt) Tick | (9 dt) Stall | (10 (a ...)) Dump           d, i, dt signed (tz), in ms
    output = ( (result ...) ((delivered dead-lettered) ...) )
             one result per op; one pair of counts per scheduling call that returned nil, in call order.
             results: 0 nil | 1 not-found | 2 cron parse error | 3 quartz job-not-found | 4 no result (Clear, clock and
             lifecycle steps) | 5 dead actor | 7 vivid illegal argument | 8 quartz job-already-exists |
             9 quartz empty key name | (b) Exists | (((path (ref ...)) ...) ((path ref) ...)) dump *)
From Coq Require Import List NArith ZArith.
From stdpp Require Import gmap.
From Vivid Require Import Base.Tm Timer.SchedModel.
Local Open Scope N_scope.

Definition get_op (t : tm) : option op :=
  match t with
  | TL [TN 0; TB a; TB r; TB ref; d; TN p] => match get_z d with Some d => Some (OOnce a r ref d p) | None => None end
  | TL [TN 1; TB a; TB r; TB ref; i; TN p] => match get_z i with Some i => Some (OLoop a r ref i p) | None => None end
  | TL [TN 2; TB a; TB r; TB ref; v; TN p] => match get_bool v with Some v => Some (OCron a r ref v p) | None => None end
  | TL [TN 3; TB a; TB ref] => Some (OCancel a ref)
  | TL [TN 4; TB a] => Some (OClear a)
  | TL [TN 5; TB a; TB ref] => Some (OExists a ref)
  | TL [TN 6; TB a] => Some (ODied a)
  | TL [TN 7; TB a] => Some (ORestarted a)
  | TL [TN 8; dt] => match get_z dt with Some dt => Some (OTick dt) | None => None end
  | TL [TN 9; dt] => match get_z dt with Some dt => Some (OStall dt) | None => None end
  | TL [TN 10; l] => match get_list get_b l with Some l => Some (ODump l) | None => None end
  | _ => None
  end.

Definition t_res (r : res) : tm :=
  match r with
  | ROk => TN 0
  | RNotFound => TN 1
  | RParseErr => TN 2
  | RQuartzNotFound => TN 3
  | RUnit => TN 4
  | RDeadActor => TN 5
  | RIllegalArg => TN 7
  | RExists => TN 8
  | REmptyRef => TN 9
  | RBool b => TL [tbool b]
  | RDump jks keys => TL [tlist (fun p => TL [TB (fst p); tlist TB (snd p)]) jks; tlist (fun k => TL [TB (fst k); TB (snd k)]) keys]
  end.

Definition count_fires (s : sched) (x : N) : tm :=
  let fs := fires_of x s in
  TL [TN (N.of_nat (length (List.filter (fun f => negb (f_dead f)) fs)));
      TN (N.of_nat (length (List.filter f_dead fs)))].

Definition run_sched (t : tm) : tm :=
  match get_list get_op t with
  | Some ops =>
      let s := run ops init in
      TL [tlist t_res (run_res ops init);
          tlist (count_fires s) (map N.of_nat (seq 0 (N.to_nat (nid s))))]
  | None => tm_err 1
  end.
