(** Executable entry point of the scheduler model for the correspondence check.
    Three input formats: the atomic model (below), the driver of the in-flight machine ([run_sched_flight]: the
    format of every timed scenario of the harness), job keys ([run_sched]).
    atomic model:
    input  = ( op ... )
             op = (0 a recv ref d p) Once | (1 a recv ref i p) Loop | (2 a recv ref valid p) Cron
                | (3 a ref) Cancel | (4 a) Clear | (5 a ref) Exists | (6 a) owner terminated | (7 a) owner restarted
                | (8 dt) Tick | (9 dt) Stall | (10 (a ...)) Dump           d, i, dt signed (tz), in ms
    output = ( (result ...) ((delivered dead-lettered) ...) )
             one result per op; one pair of counts per scheduling call that returned nil, in call order.
             results: 0 nil | 1 not-found | 2 cron parse error | 3 quartz job-not-found | 4 no result (Clear, clock and
             lifecycle steps) | 5 dead actor | 7 vivid illegal argument | 8 quartz job-already-exists |
             9 quartz empty key name | (b) Exists | (((path (ref ...)) ...) ((path ref) ...)) dump *)
From Coq Require Import List NArith ZArith.
From stdpp Require Import gmap.
From Vivid Require Import Base.Tm Timer.SchedModel Timer.SchedFlight Timer.SchedKey.
Local Open Scope N_scope.

Definition get_op (t : tm) : option op :=
  match t with
  | TL [TN 0; TB a; TB r; TB ref; d; TN p] => match get_z d with Some d => Some (OOnce a r ref d p) | None => None end
  | TL [TN 1; TB a; TB r; TB ref; i; TN p] => match get_z i with Some i => Some (OLoop a r ref i p) | None => None end
  | TL [TN 2; TB a; TB r; TB ref; v; TN p] => match get_bool v with Some v => Some (OCron a r ref v p) | None => None end
  | TL [TN 3; TB a; TB ref] => Some (OCancel a ref)
  | TL [TN 4; TB a] => Some (OClear a)
  | TL [TN 5; TB a; TB ref] => Some (OExists a ref)
  | TL [TN 6; TB a] => Some (ODied a)
  | TL [TN 7; TB a] => Some (ORestarted a)
  | TL [TN 8; dt] => match get_z dt with Some dt => Some (OTick dt) | None => None end
  | TL [TN 9; dt] => match get_z dt with Some dt => Some (OStall dt) | None => None end
  | TL [TN 10; l] => match get_list get_b l with Some l => Some (ODump l) | None => None end
  | _ => None
  end.

Definition t_res (r : res) : tm :=
  match r with
  | ROk => TN 0
  | RNotFound => TN 1
  | RParseErr => TN 2
  | RQuartzNotFound => TN 3
  | RUnit => TN 4
  | RDeadActor => TN 5
  | RIllegalArg => TN 7
  | RExists => TN 8
  | REmptyRef => TN 9
  | RBool b => TL [tbool b]
  | RDump jks keys => TL [tlist (fun p => TL [TB (fst p); tlist TB (snd p)]) jks; tlist (fun k => TL [TB (fst k); TB (snd k)]) keys]
  end.

Definition count_fires (s : sched) (x : N) : tm :=
  let fs := fires_of x s in
  TL [TN (N.of_nat (length (List.filter (fun f => negb (f_dead f)) fs)));
      TN (N.of_nat (length (List.filter f_dead fs)))].

(** the atomic model (Timer/SchedModel.v) *)
Definition run_sched_atomic (t : tm) : tm :=
  match get_list get_op t with
  | Some ops =>
      let s := run ops init in
      TL [tlist t_res (run_res ops init);
          tlist (count_fires s) (map N.of_nat (seq 0 (N.to_nat (nid s))))]
  | None => tm_err 1
  end.

(** the driver of the in-flight machine (Timer/SchedFlight.v):
    input  = ( (15 g) dop ... ) or ( (15 g m) dop ... )
             g = the slot of the harness's time grid in ms; m = which internal observations this build of vivid does not
             offer (bit 0: the per-actor reference record, bit 1: the go-quartz queue): the corresponding component of every
             dump is projected out (printed as the empty list on both sides)
             dop = op (as above) | (11 a) a long handler of a begins | (12 a) it ends
                 | (13 a ref) Tell goroutines of the key (a, ref) are suspended | (14 a ref) resumed
                 | (16 a) the stop sequence of a begins
    output = ( (result ...) ((delivered dead-lettered ((slot dead) ...)) ...) in-flight )
             per scheduling call that returned nil: the counts and, oldest first, the slot of every arrival
             (arrival time / g; a Tell that lands in the clock step that popped it arrives at its firing instant);
             in-flight = the Tells still in flight at the end *)
Definition get_dop (t : tm) : option dop :=
  match t with
  | TL [TN 11; TB a] => Some (DBlock a)
  | TL [TN 12; TB a] => Some (DUnblock a)
  | TL [TN 13; TB a; TB r] => Some (DHold a r)
  | TL [TN 14; TB a; TB r] => Some (DRelease a r)
  | TL [TN 16; TB a] => Some (DStopping a)
  | _ => match get_op t with Some o => Some (DBase o) | None => None end
  end.

Definition is_tick_dop (o : dop) : bool :=
  match o with DBase (OTick _) => true | _ => false end.

(** (call, arrival time, dead) of everything that lands during the run, in order *)
Fixpoint drun_arrivals (ops : list dop) (d : dsched) : list (N * Z * bool) :=
  match ops with
  | [] => []
  | o :: r =>
      let d' := fst (dstep o d) in
      map (fun l => (f_id (l_fire l), (if is_tick_dop o then f_time (l_fire l) else l_time l), l_dead l))
          (skipn (length (landed (fs d))) (landed (fs d')))
      ++ drun_arrivals r d'
  end.

Definition t_arrivals (g : Z) (arr : list (N * Z * bool)) (x : N) : tm :=
  let mine := List.filter (fun e => (fst (fst e) =? x)) arr in
  TL [TN (N.of_nat (length (List.filter (fun e => negb (snd e)) mine)));
      TN (N.of_nat (length (List.filter (fun e => snd e) mine)));
      tlist (fun e => TL [TN (Z.to_N (Z.div (snd (fst e)) g)); tbool (snd e)]) mine].

Definition t_res_proj (m : N) (r : res) : tm :=
  match r with
  | RDump jks keys =>
      TL [if N.testbit m 0 then TL [] else tlist (fun p => TL [TB (fst p); tlist TB (snd p)]) jks;
          if N.testbit m 1 then TL [] else tlist (fun k => TL [TB (fst k); TB (snd k)]) keys]
  | _ => t_res r
  end.

Definition run_sched_flight (g m : N) (ts : list tm) : tm :=
  match get_list get_dop (TL ts) with
  | Some ops =>
      let d := drun ops dinit in
      let arr := drun_arrivals ops dinit in
      TL [tlist (t_res_proj m) (drun_res ops dinit);
          tlist (t_arrivals (Z.of_N g) arr) (map N.of_nat (seq 0 (N.to_nat (nid (base (fs d))))));
          TN (N.of_nat (length (flight (fs d))))]
  | None => tm_err 1
  end.

(** job keys (Timer/SchedKey.v):
    (17 name group)          quartz.NewJobKeyWithGroup(name, group)           -> (group name)
    (18 n1 g1 n2 g2)         NewJobKeyWithGroup(n1, g1).Equals(NewJobKeyWithGroup(n2, g2))  -> bool
    (19 path reference)      uniqueJobKey of the actor with that path          -> (group name) *)
Definition t_key (k : key) : tm := TL [TB (fst k); TB (snd k)].

Definition run_sched (t : tm) : tm :=
  match t with
  | TL (TL [TN 15; TN g] :: ts) => if (g =? 0) then tm_err 2 else run_sched_flight g 0 ts
  | TL (TL [TN 15; TN g; TN m] :: ts) => if (g =? 0) then tm_err 2 else run_sched_flight g m ts
  | TL [TN 17; TB name; TB group] => t_key (quartz_key name group)
  | TL [TN 18; TB n1; TB g1; TB n2; TB g2] => tbool (key_eqb (quartz_key n1 g1) (quartz_key n2 g2))
  | TL [TN 19; TB path; TB ref] => t_key (unique_job_key path ref)
  | _ => run_sched_atomic t
  end.
