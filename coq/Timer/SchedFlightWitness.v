(** Concrete runs of the in-flight machine (closed by computation) for Properties/C20_flight.v. *)
From Coq Require Import List NArith ZArith Bool Lia.
From stdpp Require Import gmap.
From Vivid Require Import Timer.SchedModel Timer.SchedProofs Timer.SchedWitness Timer.SchedFlight Timer.SchedFlightProofs.
Local Open Scope Z_scope.

Definition w_l : bytes := [108]%N.   (* "l" *)
Definition w_w : bytes := [119]%N.   (* "w" *)

(** what arrived, as (call, firing instant, arrival time, dead letter) *)
Definition arrivals (s : fsched) : list (N * Z * Z * bool) :=
  map (fun l => (f_id (l_fire l), f_time (l_fire l), l_time l, l_dead l)) (landed s).

(** a Once whose Tell is in flight when Cancel is called: Cancel answers quartz's "job not found" - and the message
    arrives 300 ms after Cancel returned *)
Definition wf_late_once : list fop :=
  [FBase (OOnce w_a w_a w_r 100 1); FBase (OTick 100); FBase (OExists w_a w_r); FBase (OCancel w_a w_r); FBase (OTick 300); FLand 0; FBase (OTick 1000)].
Lemma wit_late_once :
  frun_res wf_late_once finit = [FR ROk; FR RUnit; FR (RBool true); FR RQuartzNotFound; FR RUnit; FLanded 0 false; FR RUnit] /\
  arrivals (frun wf_late_once finit) = [(0%N, 100, 400, false)] /\ flight (frun wf_late_once finit) = [].
Proof. vm_compute. conj_refl. Qed.

(** a Loop: two Tells in flight at once; Cancel returns nil; both arrive afterwards (here: the later one first); the
    instants after the Cancel never fire *)
Definition wf_late_loop : list fop :=
  [FBase (OLoop w_a w_a w_r 100 1); FBase (OTick 250); FBase (OCancel w_a w_r); FBase (OTick 1000); FLand 1; FLand 0; FBase (OTick 1000)].
Lemma wit_late_loop :
  frun_res wf_late_loop finit = [FR ROk; FR RUnit; FR ROk; FR RUnit; FLanded 0 false; FLanded 0 false; FR RUnit] /\
  map f_time (flight (frun [FBase (OLoop w_a w_a w_r 100 1); FBase (OTick 250)] finit)) = [100; 200] /\
  arrivals (frun wf_late_loop finit) = [(0%N, 200, 1250, false); (0%N, 100, 1250, false)] /\
  fired (base (frun wf_late_loop finit)) = fired (base (frun [FBase (OLoop w_a w_a w_r 100 1); FBase (OTick 250)] finit)).
Proof. vm_compute. conj_refl. Qed.

(** in flight when the owner terminates: to the owner itself a dead letter, to another actor a delivery *)
Definition wf_death : list fop :=
  [FBase (OOnce w_a w_a w_r 100 1); FBase (OOnce w_a w_b w_c 100 2); FBase (OTick 100); FStopping w_a; FBase (ODied w_a);
   FBase (OTick 50); FLand 0; FLand 0; FBase (OTick 1000)].
Lemma wit_death :
  map (fun e => (fst (fst (fst e)), snd (fst e), snd e)) (arrivals (frun wf_death finit)) = [(1%N, 150, false); (0%N, 150, true)] /\
  flight (frun wf_death finit) = [].
Proof. vm_compute. conj_refl. Qed.

(** in flight across a restart: the message of the OLD incarnation's job is delivered to the NEW incarnation *)
Definition wf_restart : list fop :=
  [FBase (OOnce w_a w_a w_r 100 1); FBase (OLoop w_a w_a w_c 100 2); FBase (OTick 100); FBase (ORestarted w_a); FBase (OExists w_a w_r);
   FBase (OOnce w_a w_a w_r 100 3); FLand 0; FLand 0; FBase (OTick 1000)].
Lemma wit_restart :
  frun_res wf_restart finit = [FR ROk; FR ROk; FR RUnit; FR RUnit; FR (RBool false); FR ROk; FLanded 1 false; FLanded 0 false; FR RUnit] /\
  arrivals (frun wf_restart finit) = [(1%N, 100, 100, false); (0%N, 100, 100, false)] /\
  flight (frun wf_restart finit) = [(mkFiring 2 w_a w_a w_r 3 200 false)].
Proof. vm_compute. conj_refl. Qed.

(** a stop sequence: the handlers of the sequence still schedule (accepted, queued - the dump shows them), the actor's
    jobs keep firing (into dead letters when addressed to the stopping actor), and everything dies at the END *)
Definition wf_stop : list fop :=
  [FBase (OLoop w_a w_a w_l 100 1); FBase (OLoop w_a w_b w_c 100 2); FBase (OTick 50);
   FStopping w_a;
   FBase (OOnce w_a w_a w_w 200 3);         (* OnKill handler *)
   FBase (OOnce w_a w_a w_l 200 4);         (* ... on a live reference: refused *)
   FBase (OTick 100); FLand 0; FLand 0;     (* the actor waits for its child: its Loops fire *)
   FBase (OLoop w_a w_b w_r 100 5);         (* handler of the child's OnKilled *)
   FBase (OCancel w_a w_c);
   FBase (OOnce w_a w_b w_bc 100 6);        (* own OnKilled handler *)
   FBase (ODump [w_a]);
   FBase (ODied w_a);
   FBase (ODump [w_a]); FBase (OTick 5000)].
Lemma wit_stop :
  frun_res wf_stop finit =
    [FR ROk; FR ROk; FR RUnit; FR RUnit; FR ROk; FR RExists; FR RUnit; FLanded 1 false; FLanded 0 true; FR ROk; FR ROk; FR ROk;
     FR (RDump [(w_a, [w_bc; w_l; w_r; w_w])] [(w_a, w_bc); (w_a, w_l); (w_a, w_r); (w_a, w_w)]);
     FR RUnit; FR (RDump [(w_a, [])] []); FR RUnit] /\
  arrivals (frun wf_stop finit) = [(1%N, 100, 150, false); (0%N, 100, 150, true)] /\
  flight (frun wf_stop finit) = [] /\ length (fired (base (frun wf_stop finit))) = 2%nat.
Proof. vm_compute. conj_refl. Qed.

(** the driver: a receiver in a long handler (messages queue up), a suspended Tell goroutine *)
Definition wd_block : list dop :=
  [DBase (OLoop w_a w_a w_r 100 1); DBase (OTick 50); DBlock w_a; DBase (OTick 200); DBase (OCancel w_a w_r); DUnblock w_a; DBase (OTick 1000)].
Definition wd_hold : list dop :=
  [DHold w_a w_r; DBase (OOnce w_a w_a w_r 100 1); DBase (OOnce w_a w_b w_c 100 2); DBase (OTick 150); DBase (OCancel w_a w_r);
   DStopping w_a; DBase (ODied w_a); DBase (OTick 150); DRelease w_a w_r; DBase (OTick 1000)].
Lemma wit_driver :
  drun_res wd_block dinit = [ROk; RUnit; RUnit; RUnit; ROk; RUnit; RUnit] /\
  arrivals (fs (drun wd_block dinit)) = [(0%N, 100, 250, false); (0%N, 200, 250, false)] /\
  drun_res wd_hold dinit = [RUnit; ROk; ROk; RUnit; RQuartzNotFound; RUnit; RUnit; RUnit; RUnit; RUnit] /\
  arrivals (fs (drun wd_hold dinit)) = [(1%N, 100, 150, false); (0%N, 100, 300, true)].
Proof. vm_compute. conj_refl. Qed.
