(** Lemmas about Timer/SchedModel.v. *)
From Coq Require Import List NArith ZArith Bool Lia.
From Coq Require Import ZifyN ZifyNat ZifyBool.
From stdpp Require Import gmap.
From Vivid Require Import Timer.SchedModel.
Local Open Scope Z_scope.

(** * small facts *)

Lemma job_key_inj_ref a r1 r2 : job_key a r1 = job_key a r2 -> r1 = r2.
Proof. unfold job_key. intros H. apply app_inv_head in H. congruence. Qed.

Lemma delete_all_lookup_in (ks : list bytes) (t : jobtbl) (k : bytes) : k ∈ ks -> delete_all ks t !! k = None.
Proof.
  induction ks as [|x ks IH]; cbn; [inversion 1|].
  intros H. destruct (decide (k = x)) as [->|Hne]; [apply lookup_delete|].
  rewrite lookup_delete_ne by congruence. apply IH. inversion H; subst; [congruence|assumption].
Qed.
Lemma delete_all_lookup_notin (ks : list bytes) (t : jobtbl) (k : bytes) : k ∉ ks -> delete_all ks t !! k = t !! k.
Proof.
  induction ks as [|x ks IH]; cbn; [reflexivity|].
  intros H. apply not_elem_of_cons in H as [H1 H2]. rewrite lookup_delete_ne by congruence. auto.
Qed.
Lemma delete_all_lookup_Some (ks : list bytes) (t : jobtbl) (k : bytes) j :
  delete_all ks t !! k = Some j <-> t !! k = Some j /\ k ∉ ks.
Proof.
  destruct (decide (k ∈ ks)) as [Hin|Hnin].
  - rewrite delete_all_lookup_in by assumption. split; [discriminate|tauto].
  - rewrite delete_all_lookup_notin by assumption. tauto.
Qed.

Lemma jk_of_with_jk s a m b : jk_of (with_jk s a m) b = if decide (a = b) then m else jk_of s b.
Proof.
  unfold jk_of, with_jk; cbn. destruct (decide (a = b)) as [->|Hne].
  - rewrite lookup_insert. reflexivity.
  - rewrite lookup_insert_ne by assumption. reflexivity.
Qed.
Lemma jk_of_with_tbl s t b : jk_of (with_tbl s t) b = jk_of s b.
Proof. reflexivity. Qed.

Lemma values_elem (m : keymap) (k : bytes) : k ∈ map snd (map_to_list m) <-> exists r, m !! r = Some k.
Proof.
  rewrite elem_of_list_In, in_map_iff. split.
  - intros ((r, k') & <- & Hin). exists r. apply elem_of_list_In, elem_of_map_to_list in Hin. exact Hin.
  - intros (r & Hr). exists (r, k). split; [reflexivity|]. apply elem_of_list_In, elem_of_map_to_list. exact Hr.
Qed.

(** * the per-job loop *)

Lemma loop_fires_spec dd j n i lo c f :
  In f (loop_fires dd j n i lo c) ->
  exists q : nat, (q < c)%nat /\ f = fire_of dd j (Z.max lo (n + Z.of_nat q * i)).
Proof.
  revert n. induction c as [|c IH]; intros n; cbn; [tauto|].
  intros [<-|H].
  - exists 0%nat. split; [lia|]. f_equal. lia.
  - apply IH in H as (q & Hq & ->). exists (S q). split; [lia|]. f_equal. lia.
Qed.

Lemma loop_fires_times dd j n i lo c :
  lo <= n -> 0 <= i ->
  map f_time (loop_fires dd j n i lo c) = map (fun q => n + Z.of_nat q * i) (seq 0 c).
Proof.
  revert n. induction c as [|c IH]; intros n Hn Hi; [reflexivity|].
  cbn [loop_fires map seq]. f_equal; [cbn; lia|].
  rewrite IH by lia. rewrite <- seq_shift, map_map. apply map_ext. intros q. lia.
Qed.

Lemma loop_fires_id dd j n i lo c f : In f (loop_fires dd j n i lo c) -> f_id f = j_id j.
Proof. intros H. apply loop_fires_spec in H as (q & _ & ->). reflexivity. Qed.

(** every Tell of [advance] is a Tell of that job, inside the window and not before its run time *)
Lemma advance_fires dd lo hi j f :
  lo <= hi -> In f (fst (advance dd lo hi j)) ->
  exists t, f = fire_of dd j t /\ lo <= t <= hi /\ j_next j <= t.
Proof.
  intros Hle. unfold advance. destruct (j_trig j) as [|i|]; cbn [fst].
  - destruct (hi <? j_next j) eqn:E1; [cbn; tauto|].
    destruct (j_next j <? lo - thr) eqn:E2; [cbn; tauto|]. cbn. intros [<-|[]].
    eexists. split; [reflexivity|]. lia.
  - destruct (hi <? j_next j) eqn:E1; [cbn; tauto|].
    destruct (i <=? 0) eqn:E0; [cbn; tauto|].
    set (n1 := if j_next j <? lo - thr then lo + i else j_next j).
    destruct (hi <? n1) eqn:E3; [cbn; tauto|]. cbn [fst].
    intros H. apply loop_fires_spec in H as (q & Hq & ->).
    eexists. split; [reflexivity|].
    assert (Hn1 : j_next j <= n1 /\ lo - thr <= n1) by (subst n1; destruct (j_next j <? lo - thr) eqn:E4; unfold thr in *; lia).
    assert (Hc : 0 <= (hi - n1) / i) by (apply Z.div_pos; lia).
    assert (Hq' : Z.of_nat q <= (hi - n1) / i) by lia.
    assert (Hm : (hi - n1) / i * i <= hi - n1) by (rewrite Z.mul_comm; apply Z.mul_div_le; lia).
    nia.
  - cbn. tauto.
Qed.

Definition same_job (j j' : job) : Prop :=
  j_id j' = j_id j /\ j_owner j' = j_owner j /\ j_recv j' = j_recv j /\ j_ref j' = j_ref j /\
  j_payload j' = j_payload j /\ j_trig j' = j_trig j.

Lemma same_job_refl j : same_job j j.
Proof. repeat split. Qed.
Lemma same_job_set_next j n : same_job j (set_next j n).
Proof. repeat split. Qed.

Lemma advance_keep dd lo hi j j' :
  adv_keep j (snd (advance dd lo hi j)) = Some j' -> same_job j j' /\ j_next j <= j_next j' \/ False.
Proof.
  unfold advance. destruct (j_trig j) as [|i|] eqn:Et; cbn [snd].
  - destruct (hi <? j_next j); [cbn; intros [= <-]; left; split; [apply same_job_refl|lia]|].
    destruct (j_next j <? lo - thr); cbn; discriminate.
  - destruct (hi <? j_next j) eqn:E1; [cbn; intros [= <-]; left; split; [apply same_job_refl|lia]|].
    destruct (i <=? 0) eqn:E0; [cbn; intros [= <-]; left; split; [apply same_job_refl|lia]|].
    set (n1 := if j_next j <? lo - thr then lo + i else j_next j).
    assert (Hn1 : j_next j <= n1) by (subst n1; destruct (j_next j <? lo - thr) eqn:E4; unfold thr in *; lia).
    destruct (hi <? n1) eqn:E3; cbn; intros [= <-]; left; (split; [apply same_job_set_next|cbn]); [lia|].
    assert (Hc : 0 <= (hi - n1) / i) by (apply Z.div_pos; lia). nia.
  - cbn. intros [= <-]. left. split; [apply same_job_refl|lia].
Qed.

Lemma advance_keep' dd lo hi j j' :
  adv_keep j (snd (advance dd lo hi j)) = Some j' -> same_job j j' /\ j_next j <= j_next j'.
Proof. intros H. apply advance_keep in H as [H|[]]. exact H. Qed.

(** * the representation invariant *)

Record Inv (s : sched) : Prop := mkInv {
  inv_key : forall k j, tbl s !! k = Some j -> k = job_key (j_owner j) (j_ref j);
  inv_own : forall k j, tbl s !! k = Some j -> jk_of s (j_owner j) !! j_ref j = Some k;
  inv_alive : forall k j, tbl s !! k = Some j -> j_owner j ∉ dead s;
  inv_idlt : forall k j, tbl s !! k = Some j -> (j_id j < nid s)%N;
  inv_uniq : forall k1 k2 j1 j2, tbl s !! k1 = Some j1 -> tbl s !! k2 = Some j2 -> j_id j1 = j_id j2 -> k1 = k2;
  inv_jk : forall a r k, jk_of s a !! r = Some k -> k = job_key a r;
  inv_fired : forall f, In f (fired s) -> (f_id f < nid s)%N /\ f_time f <= now s;
  inv_deadjk : forall a, a ∈ dead s -> jk_of s a = ∅;
}.

Lemma inv_init : Inv init.
Proof.
  constructor; unfold init, jk_of; cbn; intros; try (rewrite lookup_empty in *; cbn in *; try rewrite lookup_empty in *; discriminate); try tauto; try set_solver.
Qed.

Lemma jk_of_schedule s a recv ref p tr nx b :
  jk_of (schedule s a recv ref p tr nx) b =
  if decide (a = b) then <[ref := job_key a ref]> (jk_of s a) else jk_of s b.
Proof.
  unfold jk_of at 1, schedule; cbn. destruct (decide (a = b)) as [->|Hne].
  - rewrite lookup_insert. reflexivity.
  - rewrite lookup_insert_ne by assumption. reflexivity.
Qed.

Lemma schedule_tbl_lookup s a recv ref p tr nx k0 j0 :
  tbl (schedule s a recv ref p tr nx) !! k0 = Some j0 <->
  tbl s !! k0 = Some j0 \/
  (tbl s !! job_key a ref = None /\ k0 = job_key a ref /\ j0 = mkJob (nid s) a recv ref p tr nx).
Proof.
  unfold schedule; cbn. destruct (tbl s !! job_key a ref) eqn:E.
  - split; [auto|]. intros [H|(H & _)]; [exact H|discriminate].
  - destruct (decide (k0 = job_key a ref)) as [->|Hne].
    + rewrite lookup_insert, E. split; [intros [= <-]; right; auto|]. intros [H|(_ & _ & ->)]; [discriminate|reflexivity].
    + rewrite lookup_insert_ne by congruence. split; [auto|]. intros [H|(_ & H & _)]; [exact H|contradiction].
Qed.

Lemma schedule_inv s a recv ref p tr nx : Inv s -> a ∉ dead s -> Inv (schedule s a recv ref p tr nx).
Proof.
  intros I Ha. constructor.
  - intros k j H. apply schedule_tbl_lookup in H as [H|(_ & -> & ->)]; [eapply inv_key; eauto|reflexivity].
  - intros k j H. rewrite jk_of_schedule. apply schedule_tbl_lookup in H as [H|(_ & -> & ->)]; cbn.
    + destruct (decide (a = j_owner j)) as [->|Hne]; [|eapply inv_own; eauto].
      destruct (decide (ref = j_ref j)) as [->|Hr].
      * rewrite lookup_insert. f_equal. symmetry. eapply inv_key; eauto.
      * rewrite lookup_insert_ne by assumption. eapply inv_own; eauto.
    + rewrite decide_True by reflexivity. apply lookup_insert.
  - intros k j H. apply schedule_tbl_lookup in H as [H|(_ & -> & ->)]; cbn; [eapply inv_alive; eauto|exact Ha].
  - intros k j H. apply schedule_tbl_lookup in H as [H|(_ & -> & ->)]; cbn; [pose proof (inv_idlt _ I _ _ H); lia|lia].
  - intros k1 k2 j1 j2 H1 H2 Hid.
    apply schedule_tbl_lookup in H1 as [H1|(_ & -> & ->)]; apply schedule_tbl_lookup in H2 as [H2|(_ & -> & ->)].
    + eapply inv_uniq; eauto.
    + pose proof (inv_idlt _ I _ _ H1). cbn in Hid. lia.
    + pose proof (inv_idlt _ I _ _ H2). cbn in Hid. lia.
    + reflexivity.
  - intros b r k. rewrite jk_of_schedule. destruct (decide (a = b)) as [<-|Hne]; [|apply (inv_jk _ I)].
    destruct (decide (ref = r)) as [<-|Hr].
    + rewrite lookup_insert. congruence.
    + rewrite lookup_insert_ne by assumption. apply (inv_jk _ I).
  - intros f H. cbn in H. apply (inv_fired _ I) in H. cbn. lia.
  - intros b Hb. cbn in Hb. rewrite jk_of_schedule. rewrite decide_False by (intros ->; contradiction). apply (inv_deadjk _ I). exact Hb.
Qed.

Lemma cancel_inv s a ref : Inv s -> Inv (fst (cancel s a ref)).
Proof.
  intros I. unfold cancel. destruct (jk_of s a !! ref) as [k|] eqn:E; [|exact I]. cbn [fst].
  pose proof (inv_jk _ I _ _ _ E) as Hk.
  constructor; cbn.
  - intros k0 j H. apply lookup_delete_Some in H as [_ H]. eapply inv_key; eauto.
  - intros k0 j H. apply lookup_delete_Some in H as [Hne H]. rewrite jk_of_with_jk, jk_of_with_tbl.
    destruct (decide (a = j_owner j)) as [Ho|Ho]; [|eapply inv_own; eauto].
    rewrite lookup_delete_ne; [subst a; eapply inv_own; eauto|].
    intros ->. apply Hne. rewrite Hk, Ho. symmetry. eapply inv_key; eauto.
  - intros k0 j H. apply lookup_delete_Some in H as [_ H]. eapply inv_alive; eauto.
  - intros k0 j H. apply lookup_delete_Some in H as [_ H]. eapply inv_idlt; eauto.
  - intros k1 k2 j1 j2 H1 H2 Hid. apply lookup_delete_Some in H1 as [_ H1]. apply lookup_delete_Some in H2 as [_ H2]. exact (inv_uniq _ I _ _ _ _ H1 H2 Hid).
  - intros b r k0. rewrite jk_of_with_jk, jk_of_with_tbl. destruct (decide (a = b)) as [<-|Hne]; [|apply (inv_jk _ I)].
    intros H. apply lookup_delete_Some in H as [_ H]. eapply inv_jk; eauto.
  - apply (inv_fired _ I).
  - intros b Hb. rewrite jk_of_with_jk, jk_of_with_tbl. destruct (decide (a = b)) as [<-|Hne]; [|apply (inv_deadjk _ I); exact Hb].
    rewrite (inv_deadjk _ I _ Hb). apply delete_empty.
Qed.

(** after Clear no queued job is owned by the actor *)
Lemma clear_no_owner s a k j : Inv s -> tbl (clear s a) !! k = Some j -> j_owner j <> a.
Proof.
  intros I H Ho. unfold clear in H; cbn in H. apply delete_all_lookup_Some in H as [H Hn].
  apply Hn. apply values_elem. exists (j_ref j). rewrite <- Ho. eapply inv_own; eauto.
Qed.

Lemma clear_inv s a : Inv s -> Inv (clear s a).
Proof.
  intros I. constructor.
  - intros k j H. cbn in H. apply delete_all_lookup_Some in H as [H _]. exact (inv_key _ I _ _ H).
  - intros k j H. pose proof (clear_no_owner _ _ _ _ I H) as Ho. cbn in H. apply delete_all_lookup_Some in H as [H _].
    unfold clear. rewrite jk_of_with_jk, jk_of_with_tbl. rewrite decide_False by congruence. exact (inv_own _ I _ _ H).
  - intros k j H. cbn in H. apply delete_all_lookup_Some in H as [H _]. exact (inv_alive _ I _ _ H).
  - intros k j H. cbn in H. apply delete_all_lookup_Some in H as [H _]. exact (inv_idlt _ I _ _ H).
  - intros k1 k2 j1 j2 H1 H2 Hid. cbn in H1, H2. apply delete_all_lookup_Some in H1 as [H1 _]. apply delete_all_lookup_Some in H2 as [H2 _]. exact (inv_uniq _ I _ _ _ _ H1 H2 Hid).
  - intros b r k. unfold clear. rewrite jk_of_with_jk, jk_of_with_tbl. destruct (decide (a = b)) as [<-|Hne]; [rewrite lookup_empty; discriminate|apply (inv_jk _ I)].
  - apply (inv_fired _ I).
  - intros b Hb. unfold clear. rewrite jk_of_with_jk, jk_of_with_tbl. destruct (decide (a = b)) as [<-|Hne]; [reflexivity|apply (inv_deadjk _ I); exact Hb].
Qed.

Lemma tick_tbl_lookup dt s k :
  tbl (tick dt s) !! k =
  tbl s !! k ≫= (fun j => adv_keep j (snd (advance (dead s) (now s) (now s + Z.max dt 0) j))).
Proof. unfold tick; cbn. apply lookup_omap. Qed.

Lemma tick_tbl_Some dt s k j' :
  tbl (tick dt s) !! k = Some j' ->
  exists j, tbl s !! k = Some j /\ same_job j j' /\ j_next j <= j_next j'.
Proof.
  rewrite tick_tbl_lookup. destruct (tbl s !! k) as [j|] eqn:E; cbn; [|discriminate].
  intros H. apply advance_keep' in H. exists j. tauto.
Qed.

Lemma tick_fired_In dt s f :
  In f (fired (tick dt s)) ->
  In f (fired s) \/
  exists k j t, tbl s !! k = Some j /\ f = fire_of (dead s) j t /\ now s <= t <= now s + Z.max dt 0 /\ j_next j <= t.
Proof.
  unfold tick; cbn. rewrite in_app_iff, in_flat_map. intros [H|((k, j) & Hin & Hf)]; [left; exact H|right].
  apply elem_of_list_In, elem_of_map_to_list in Hin. cbn in Hf.
  apply advance_fires in Hf as (t & -> & Ht & Hn); [|lia]. exists k, j, t. auto.
Qed.

Lemma tick_inv dt s : Inv s -> Inv (tick dt s).
Proof.
  intros I. constructor.
  - intros k j' H. apply tick_tbl_Some in H as (j & H & (_ & Ho & _ & Hr & _) & _). rewrite Ho, Hr. eapply inv_key; eauto.
  - intros k j' H. apply tick_tbl_Some in H as (j & H & (_ & Ho & _ & Hr & _) & _). rewrite Ho, Hr. apply (inv_own _ I _ _ H).
  - intros k j' H. apply tick_tbl_Some in H as (j & H & (_ & Ho & _) & _). rewrite Ho. apply (inv_alive _ I _ _ H).
  - intros k j' H. apply tick_tbl_Some in H as (j & H & (Hi & _) & _). rewrite Hi. apply (inv_idlt _ I _ _ H).
  - intros k1 k2 j1 j2 H1 H2 Hid. apply tick_tbl_Some in H1 as (j1' & H1 & (Hi1 & _) & _). apply tick_tbl_Some in H2 as (j2' & H2 & (Hi2 & _) & _).
    eapply inv_uniq; eauto. congruence.
  - apply (inv_jk _ I).
  - intros f H. apply tick_fired_In in H as [H|(k & j & t & Hj & -> & Ht & _)].
    + apply (inv_fired _ I) in H. cbn. lia.
    + cbn. pose proof (inv_idlt _ I _ _ Hj). lia.
  - apply (inv_deadjk _ I).
Qed.

Lemma step_inv o s : Inv s -> Inv (fst (step o s)).
Proof.
  intros I. unfold step. destruct (spin s); [exact I|].
  destruct o as [a recv ref d p|a recv ref i p|a recv ref v p|a ref|a|a ref|a|a|dt|dt|l]; unfold if_alive, is_dead;
    try (destruct (bool_decide (a ∈ dead s)) eqn:Ed; [exact I|apply bool_decide_eq_false in Ed]); cbn [fst].
  - apply schedule_inv; assumption.
  - apply schedule_inv; assumption.
  - destruct v; cbn [fst]; [apply schedule_inv; assumption|exact I].
  - apply cancel_inv; assumption.
  - apply clear_inv; assumption.
  - exact I.
  - pose proof (clear_inv s a I) as I'. constructor; cbn.
    + apply (inv_key _ I').
    + apply (inv_own _ I').
    + intros k j H Hd. apply elem_of_union in Hd as [Hd|Hd].
      * apply elem_of_singleton in Hd. exact (clear_no_owner _ _ _ _ I H Hd).
      * exact (inv_alive _ I' _ _ H Hd).
    + apply (inv_idlt _ I').
    + apply (inv_uniq _ I').
    + apply (inv_jk _ I').
    + apply (inv_fired _ I').
    + intros b Hb. apply elem_of_union in Hb as [Hb|Hb].
      * apply elem_of_singleton in Hb. subst b. unfold clear. change (jk_of (with_jk (with_tbl s (delete_all (map snd (map_to_list (jk_of s a))) (tbl s))) a ∅) a = ∅).
        rewrite jk_of_with_jk, decide_True by reflexivity. reflexivity.
      * apply (inv_deadjk _ I'). exact Hb.
  - apply clear_inv; assumption.
  - apply tick_inv; assumption.
  - constructor; cbn; try apply I. intros f H. apply (inv_fired _ I) in H. lia.
  - exact I.
Qed.

Lemma run_inv ops : forall s, Inv s -> Inv (run ops s).
Proof. induction ops as [|o ops IH]; intros s I; cbn; [exact I|]. apply IH, step_inv, I. Qed.

(** * what a step does to the Tells and to the queue *)

Definition tick_new (dt : Z) (s : sched) : list firing :=
  flat_map (fun kj => fst (advance (dead s) (now s) (now s + Z.max dt 0) (snd kj))) (map_to_list (tbl s)).

Definition is_tick (o : op) : bool := match o with OTick _ => true | _ => false end.

Lemma cancel_fired s a ref : fired (fst (cancel s a ref)) = fired s.
Proof. unfold cancel. destruct (jk_of s a !! ref); reflexivity. Qed.
Lemma cancel_now s a ref : now (fst (cancel s a ref)) = now s.
Proof. unfold cancel. destruct (jk_of s a !! ref); reflexivity. Qed.
Lemma cancel_nid s a ref : nid (fst (cancel s a ref)) = nid s.
Proof. unfold cancel. destruct (jk_of s a !! ref); reflexivity. Qed.
Lemma cancel_spin s a ref : spin (fst (cancel s a ref)) = spin s.
Proof. unfold cancel. destruct (jk_of s a !! ref); reflexivity. Qed.
Lemma cancel_dead s a ref : dead (fst (cancel s a ref)) = dead s.
Proof. unfold cancel. destruct (jk_of s a !! ref); reflexivity. Qed.

Ltac step_cases o s :=
  unfold step; destruct (spin s) eqn:Espin; [|
  destruct o as [a recv ref d p|a recv ref i p|a recv ref v p|a ref|a|a ref|a|a|dt|dt|l]; unfold if_alive, is_dead;
    try (destruct (bool_decide (a ∈ dead s)) eqn:Ed; [|apply bool_decide_eq_false in Ed]) ].

Lemma step_fired o s :
  fired (fst (step o s)) =
  fired s ++ (if spin s then [] else match o with OTick dt => tick_new dt s | _ => [] end).
Proof.
  step_cases o s; cbn [fst]; try (rewrite app_nil_r; reflexivity); try reflexivity.
  - destruct v; cbn; rewrite app_nil_r; reflexivity.
  - rewrite cancel_fired, app_nil_r. reflexivity.
Qed.

Lemma step_nid_mono o s : (nid s <= nid (fst (step o s)))%N.
Proof.
  step_cases o s; cbn [fst]; cbn; try lia.
  - destruct v; cbn; lia.
  - rewrite cancel_nid. lia.
Qed.

Lemma step_now_mono o s : now s <= now (fst (step o s)).
Proof.
  step_cases o s; cbn [fst]; cbn; try lia.
  - destruct v; cbn; lia.
  - rewrite cancel_now. lia.
Qed.

Lemma step_dead_mono o s (z : bytes) : z ∈ dead s -> z ∈ dead (fst (step o s)).
Proof.
  step_cases o s; cbn [fst]; cbn; try tauto.
  - destruct v; cbn; tauto.
  - rewrite cancel_dead. tauto.
  - set_solver.
Qed.

(** a queued job after a step is a queued job from before (same identity, run time not earlier), or the
    job of the scheduling call this step is *)
Lemma step_tbl_origin o s k j' :
  tbl (fst (step o s)) !! k = Some j' ->
  (exists j, tbl s !! k = Some j /\ same_job j j' /\ j_next j <= j_next j') \/ j_id j' = nid s.
Proof.
  assert (Hold : forall t : jobtbl, t = tbl s -> t !! k = Some j' ->
            (exists j, tbl s !! k = Some j /\ same_job j j' /\ j_next j <= j_next j') \/ j_id j' = nid s).
  { intros t -> H. left. exists j'. split; [exact H|]. split; [apply same_job_refl|lia]. }
  step_cases o s; cbn [fst]; try (apply Hold; reflexivity).
  - intros H. apply schedule_tbl_lookup in H as [H|(_ & _ & ->)]; [eapply Hold; eauto|right; reflexivity].
  - intros H. apply schedule_tbl_lookup in H as [H|(_ & _ & ->)]; [eapply Hold; eauto|right; reflexivity].
  - destruct v; cbn [fst]; [|apply Hold; reflexivity].
    intros H. apply schedule_tbl_lookup in H as [H|(_ & _ & ->)]; [eapply Hold; eauto|right; reflexivity].
  - unfold cancel. destruct (jk_of s a !! ref); cbn [fst]; [|apply Hold; reflexivity].
    cbn. intros H. apply lookup_delete_Some in H as [_ H]. eapply Hold; eauto.
  - cbn. intros H. apply delete_all_lookup_Some in H as [H _]. eapply Hold; eauto.
  - cbn. intros H. apply delete_all_lookup_Some in H as [H _]. eapply Hold; eauto.
  - cbn. intros H. apply delete_all_lookup_Some in H as [H _]. eapply Hold; eauto.
  - intros H. apply tick_tbl_Some in H. left. exact H.
Qed.

Lemma step_spin_frozen o s : spin s = true -> fst (step o s) = s.
Proof. intros H. unfold step. rewrite H. reflexivity. Qed.
Lemma run_spin_frozen ops s : spin s = true -> run ops s = s.
Proof. induction ops as [|o ops IH]; intros H; cbn; [reflexivity|]. rewrite step_spin_frozen by exact H. auto. Qed.

Lemma step_spin_mono o s : spin s = true -> spin (fst (step o s)) = true.
Proof. intros H. rewrite step_spin_frozen; assumption. Qed.
Lemma run_spin_false_prefix ops1 ops2 s : spin (run (ops1 ++ ops2) s) = false -> spin (run ops1 s) = false.
Proof.
  revert s. induction ops1 as [|o ops IH]; intros s; cbn.
  - intros H. destruct (spin s) eqn:E; [|reflexivity]. rewrite run_spin_frozen in H by exact E. congruence.
  - apply IH.
Qed.
Lemma run_app ops1 ops2 s : run (ops1 ++ ops2) s = run ops2 (run ops1 s).
Proof. revert s. induction ops1; intros s; cbn; auto. Qed.

Lemma run_nid_mono ops s : (nid s <= nid (run ops s))%N.
Proof. revert s. induction ops as [|o ops IH]; intros s; cbn; [lia|]. pose proof (step_nid_mono o s). pose proof (IH (fst (step o s))). lia. Qed.
Lemma run_dead_mono ops s a : a ∈ dead s -> a ∈ dead (run ops s).
Proof. revert s. induction ops as [|o ops IH]; intros s; cbn; [tauto|]. intros H. apply IH, step_dead_mono, H. Qed.

(** * the Tells of one scheduling call *)

Lemma fires_of_app x s l s' : fired s' = fired s ++ l ->
  fires_of x s' = fires_of x s ++ List.filter (fun f => (f_id f =? x)%N) l.
Proof. unfold fires_of. intros ->. apply List.filter_app. Qed.

Lemma filter_flat_map {A B} (P : B -> bool) (F : A -> list B) l :
  List.filter P (flat_map F l) = flat_map (fun a => List.filter P (F a)) l.
Proof. induction l as [|a l IH]; cbn; [reflexivity|]. rewrite List.filter_app, IH. reflexivity. Qed.

Lemma flat_map_nil {A B} (G : A -> list B) l : (forall b, In b l -> G b = []) -> flat_map G l = [].
Proof. induction l as [|b l IH]; cbn; intros H; [reflexivity|]. rewrite H by auto. cbn. apply IH. auto. Qed.

Lemma flat_map_single {A B} (G : A -> list B) l a :
  List.NoDup l -> In a l -> (forall b, In b l -> b <> a -> G b = []) -> flat_map G l = G a.
Proof.
  induction l as [|b l IH]; cbn; [tauto|]. intros Hnd [->|Hin] H.
  - inversion Hnd; subst. rewrite flat_map_nil; [apply app_nil_r|].
    intros b Hb. apply H; [auto|]. intros ->. contradiction.
  - inversion Hnd; subst. rewrite (H b); [|auto|intros ->; contradiction]. cbn. apply IH; auto.
Qed.

Lemma filter_all {A} (P : A -> bool) l : (forall a, In a l -> P a = true) -> List.filter P l = l.
Proof. induction l as [|a l IH]; cbn; intros H; [reflexivity|]. rewrite H by auto. f_equal. apply IH. auto. Qed.
Lemma filter_none {A} (P : A -> bool) l : (forall a, In a l -> P a = false) -> List.filter P l = [].
Proof. induction l as [|a l IH]; cbn; intros H; [reflexivity|]. rewrite H by auto. apply IH. auto. Qed.

Definition Gone (x : N) (s : sched) : Prop := forall k j, tbl s !! k = Some j -> j_id j <> x.

Lemma advance_fires_id dd lo hi j f : lo <= hi -> In f (fst (advance dd lo hi j)) -> f_id f = j_id j.
Proof. intros Hle H. apply advance_fires in H as (t & -> & _); [reflexivity|exact Hle]. Qed.

Lemma tick_new_gone x dt s : Gone x s -> List.filter (fun f => (f_id f =? x)%N) (tick_new dt s) = [].
Proof.
  intros G. unfold tick_new. rewrite filter_flat_map. apply flat_map_nil. intros (k, j) Hin.
  apply elem_of_list_In, elem_of_map_to_list in Hin. apply filter_none. intros f Hf. cbn in Hf.
  apply advance_fires_id in Hf; [|lia]. apply N.eqb_neq. rewrite Hf. exact (G _ _ Hin).
Qed.

Lemma tick_new_job x dt s k j : Inv s -> tbl s !! k = Some j -> j_id j = x ->
  List.filter (fun f => (f_id f =? x)%N) (tick_new dt s) = fst (advance (dead s) (now s) (now s + Z.max dt 0) j).
Proof.
  intros I Hj Hx. unfold tick_new. rewrite filter_flat_map.
  rewrite (flat_map_single _ _ (k, j)).
  - cbn. apply filter_all. intros f Hf. apply advance_fires_id in Hf; [|lia]. apply N.eqb_eq. congruence.
  - apply NoDup_ListNoDup, NoDup_map_to_list.
  - apply elem_of_list_In, elem_of_map_to_list. exact Hj.
  - intros (k', j') Hin Hne. apply elem_of_list_In, elem_of_map_to_list in Hin. cbn.
    apply filter_none. intros f Hf. apply advance_fires_id in Hf; [|lia]. apply N.eqb_neq. rewrite Hf. intros Hid.
    apply Hne. assert (k' = k) by (eapply (inv_uniq _ I); eauto; congruence). subst k'. congruence.
Qed.

Lemma step_gone x o s : Inv s -> (x < nid s)%N -> Gone x s ->
  Gone x (fst (step o s)) /\ fires_of x (fst (step o s)) = fires_of x s.
Proof.
  intros I Hx G. split.
  - intros k j' H. apply step_tbl_origin in H as [(j & Hj & (Hid & _) & _)|Hid]; [rewrite Hid; exact (G _ _ Hj)|lia].
  - rewrite (fires_of_app x s _ _ (step_fired o s)). destruct (spin s); [apply app_nil_r|].
    destruct o; try apply app_nil_r. rewrite tick_new_gone by exact G. apply app_nil_r.
Qed.

Lemma run_gone x ops : forall s, Inv s -> (x < nid s)%N -> Gone x s ->
  Gone x (run ops s) /\ fires_of x (run ops s) = fires_of x s.
Proof.
  induction ops as [|o ops IH]; intros s I Hx G; cbn; [auto|].
  destruct (step_gone x o s I Hx G) as [G' E]. pose proof (step_nid_mono o s).
  destruct (IH _ (step_inv o s I) ltac:(lia) G') as [G'' E']. split; [exact G''|congruence].
Qed.

(** identity of the job of scheduling call [x] *)
Record Track (x : N) (a recv ref : bytes) (p : N) (tr : trig) (s : sched) : Prop := mkTrack {
  tr_lt : (x < nid s)%N;
  tr_job : forall k j, tbl s !! k = Some j -> j_id j = x ->
           j_owner j = a /\ j_recv j = recv /\ j_ref j = ref /\ j_payload j = p /\ j_trig j = tr;
  tr_fir : forall f, In f (fired s) -> f_id f = x ->
           f_owner f = a /\ f_recv f = recv /\ f_ref f = ref /\ f_payload f = p;
}.

Lemma step_track x a recv ref p tr o s :
  Track x a recv ref p tr s -> Track x a recv ref p tr (fst (step o s)).
Proof.
  intros T. constructor.
  - pose proof (tr_lt _ _ _ _ _ _ _ T). pose proof (step_nid_mono o s). lia.
  - intros k j' H Hid. pose proof (tr_lt _ _ _ _ _ _ _ T).
    apply step_tbl_origin in H as [(j & Hj & (Hi & Ho & Hr & Hf & Hp & Ht) & _)|Hn]; [|lia].
    rewrite Ho, Hr, Hf, Hp, Ht. apply (tr_job _ _ _ _ _ _ _ T _ _ Hj). congruence.
  - intros f H Hid. rewrite step_fired in H. apply in_app_iff in H as [H|H]; [apply (tr_fir _ _ _ _ _ _ _ T _ H Hid)|].
    destruct (spin s); [destruct H|]. destruct o; try destruct H.
    unfold tick_new in H. apply in_flat_map in H as ((k, j) & Hin & Hf). apply elem_of_list_In, elem_of_map_to_list in Hin.
    cbn in Hf. apply advance_fires in Hf as (t & -> & _); [|lia]. cbn in Hid |- *.
    destruct (tr_job _ _ _ _ _ _ _ T _ _ Hin Hid) as (? & ? & ? & ? & ?). auto.
Qed.

Lemma run_track x a recv ref p tr ops : forall s,
  Track x a recv ref p tr s -> Track x a recv ref p tr (run ops s).
Proof. induction ops as [|o ops IH]; intros s T; cbn; [exact T|]. apply IH, step_track, T. Qed.

Lemma schedule_track s a recv ref p tr nx : Inv s ->
  Track (nid s) a recv ref p tr (schedule s a recv ref p tr nx).
Proof.
  intros I. constructor.
  - cbn. lia.
  - intros k j H Hid. apply schedule_tbl_lookup in H as [H|(_ & _ & ->)]; [|cbn; auto].
    pose proof (inv_idlt _ I _ _ H). lia.
  - intros f H Hid. cbn in H. apply (inv_fired _ I) in H. lia.
Qed.
