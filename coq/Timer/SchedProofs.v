(** Lemmas about Timer/SchedModel.v. *)
From Coq Require Import List NArith ZArith Bool Lia.
From Coq Require Import ZifyN ZifyNat ZifyBool.
From stdpp Require Import gmap.
From Vivid Require Import Timer.SchedModel.
Local Open Scope Z_scope.

(** * small facts *)

Lemma job_key_inj a1 r1 a2 r2 : job_key a1 r1 = job_key a2 r2 -> a1 = a2 /\ r1 = r2.
Proof. unfold job_key. intros H. injection H as -> ->. auto. Qed.

Lemma delete_all_lookup_in (ks : list key) (t : jobtbl) (k : key) : k ∈ ks -> delete_all ks t !! k = None.
Proof.
  induction ks as [|x ks IH]; cbn; [inversion 1|].
  intros H. destruct (decide (k = x)) as [->|Hne]; [apply lookup_delete|].
  rewrite lookup_delete_ne by congruence. apply IH. inversion H; subst; [congruence|assumption].
Qed.
Lemma delete_all_lookup_notin (ks : list key) (t : jobtbl) (k : key) : k ∉ ks -> delete_all ks t !! k = t !! k.
Proof.
  induction ks as [|x ks IH]; cbn; [reflexivity|].
  intros H. apply not_elem_of_cons in H as [H1 H2]. rewrite lookup_delete_ne by congruence. auto.
Qed.
Lemma delete_all_lookup_Some (ks : list key) (t : jobtbl) (k : key) j :
  delete_all ks t !! k = Some j <-> t !! k = Some j /\ k ∉ ks.
Proof.
  destruct (decide (k ∈ ks)) as [Hin|Hnin].
  - rewrite delete_all_lookup_in by assumption. split; [discriminate|tauto].
  - rewrite delete_all_lookup_notin by assumption. tauto.
Qed.

Lemma jk_of_with_jk s a m b : jk_of (with_jk s a m) b = if decide (a = b) then m else jk_of s b.
Proof.
  unfold jk_of, with_jk; cbn. destruct (decide (a = b)) as [->|Hne].
  - rewrite lookup_insert. reflexivity.
  - rewrite lookup_insert_ne by assumption. reflexivity.
Qed.
Lemma jk_of_with_tbl s t b : jk_of (with_tbl s t) b = jk_of s b.
Proof. reflexivity. Qed.

Lemma values_elem (m : keymap) (k : key) : k ∈ map snd (map_to_list m) <-> exists r, m !! r = Some k.
Proof.
  rewrite elem_of_list_In, in_map_iff. split.
  - intros ((r, k') & <- & Hin). exists r. apply elem_of_list_In, elem_of_map_to_list in Hin. exact Hin.
  - intros (r & Hr). exists (r, k). split; [reflexivity|]. apply elem_of_list_In, elem_of_map_to_list. exact Hr.
Qed.

(** * the per-job loop *)

Lemma loop_fires_spec dd j n i lo c f :
  In f (loop_fires dd j n i lo c) ->
  exists q : nat, (q < c)%nat /\ f = fire_of dd j (Z.max lo (n + Z.of_nat q * i)).
Proof.
  revert n. induction c as [|c IH]; intros n; cbn; [tauto|].
  intros [<-|H].
  - exists 0%nat. split; [lia|]. f_equal. lia.
  - apply IH in H as (q & Hq & ->). exists (S q). split; [lia|]. f_equal. lia.
Qed.

Lemma loop_fires_times dd j n i lo c :
  lo <= n -> 0 <= i ->
  map f_time (loop_fires dd j n i lo c) = map (fun q => n + Z.of_nat q * i) (seq 0 c).
Proof.
  revert n. induction c as [|c IH]; intros n Hn Hi; [reflexivity|].
  cbn [loop_fires map seq]. f_equal; [cbn; lia|].
  rewrite IH by lia. rewrite <- seq_shift, map_map. apply map_ext. intros q. lia.
Qed.

Lemma loop_fires_id dd j n i lo c f : In f (loop_fires dd j n i lo c) -> f_id f = j_id j.
Proof. intros H. apply loop_fires_spec in H as (q & _ & ->). reflexivity. Qed.

(** every Tell of [advance] is a Tell of that job, inside the window and not before its run time *)
Lemma advance_fires dd lo hi j f :
  lo <= hi -> In f (fst (advance dd lo hi j)) ->
  exists t, f = fire_of dd j t /\ lo <= t <= hi /\ j_next j <= t.
Proof.
  intros Hle. unfold advance. destruct (j_trig j) as [|i|]; cbn [fst].
  - destruct (hi <? j_next j) eqn:E1; [cbn; tauto|].
    destruct (j_next j <? lo - thr) eqn:E2; [cbn; tauto|]. cbn. intros [<-|[]].
    eexists. split; [reflexivity|]. lia.
  - destruct (hi <? j_next j) eqn:E1; [cbn; tauto|].
    destruct (i <=? 0) eqn:E0; [cbn; tauto|].
    set (n1 := if j_next j <? lo - thr then lo + i else j_next j).
    destruct (hi <? n1) eqn:E3; [cbn; tauto|]. cbn [fst].
    intros H. apply loop_fires_spec in H as (q & Hq & ->).
    eexists. split; [reflexivity|].
    assert (Hn1 : j_next j <= n1 /\ lo - thr <= n1) by (subst n1; destruct (j_next j <? lo - thr) eqn:E4; unfold thr in *; lia).
    assert (Hc : 0 <= (hi - n1) / i) by (apply Z.div_pos; lia).
    assert (Hq' : Z.of_nat q <= (hi - n1) / i) by lia.
    assert (Hm : (hi - n1) / i * i <= hi - n1) by (rewrite Z.mul_comm; apply Z.mul_div_le; lia).
    nia.
  - cbn. tauto.
Qed.

Definition same_job (j j' : job) : Prop :=
  j_id j' = j_id j /\ j_owner j' = j_owner j /\ j_recv j' = j_recv j /\ j_ref j' = j_ref j /\
  j_payload j' = j_payload j /\ j_trig j' = j_trig j.

Lemma same_job_refl j : same_job j j.
Proof. repeat split. Qed.
Lemma same_job_set_next j n : same_job j (set_next j n).
Proof. repeat split. Qed.

Lemma advance_keep dd lo hi j j' :
  adv_keep (snd (advance dd lo hi j)) = Some j' -> same_job j j' /\ j_next j <= j_next j' \/ False.
Proof.
  unfold advance. destruct (j_trig j) as [|i|] eqn:Et; cbn [snd].
  - destruct (hi <? j_next j); [cbn; intros [= <-]; left; split; [apply same_job_refl|lia]|].
    destruct (j_next j <? lo - thr); cbn; discriminate.
  - destruct (hi <? j_next j) eqn:E1; [cbn; intros [= <-]; left; split; [apply same_job_refl|lia]|].
    destruct (i <=? 0) eqn:E0; [cbn; intros [= <-]; left; split; [apply same_job_refl|lia]|].
    set (n1 := if j_next j <? lo - thr then lo + i else j_next j).
    assert (Hn1 : j_next j <= n1) by (subst n1; destruct (j_next j <? lo - thr) eqn:E4; unfold thr in *; lia).
    destruct (hi <? n1) eqn:E3; cbn; intros [= <-]; left; (split; [apply same_job_set_next|cbn]); [lia|].
    assert (Hc : 0 <= (hi - n1) / i) by (apply Z.div_pos; lia). nia.
  - cbn. intros [= <-]. left. split; [apply same_job_refl|lia].
Qed.

Lemma advance_keep' dd lo hi j j' :
  adv_keep (snd (advance dd lo hi j)) = Some j' -> same_job j j' /\ j_next j <= j_next j'.
Proof. intros H. apply advance_keep in H as [H|[]]. exact H. Qed.

(** * the representation invariant *)

Record Inv (s : sched) : Prop := mkInv {
  inv_key : forall k j, tbl s !! k = Some j -> k = job_key (j_owner j) (j_ref j);
  inv_own : forall k j, tbl s !! k = Some j -> jk_of s (j_owner j) !! j_ref j = Some k;
  inv_alive : forall k j, tbl s !! k = Some j -> j_owner j ∉ dead s;
  inv_idlt : forall k j, tbl s !! k = Some j -> (j_id j < nid s)%N;
  inv_uniq : forall k1 k2 j1 j2, tbl s !! k1 = Some j1 -> tbl s !! k2 = Some j2 -> j_id j1 = j_id j2 -> k1 = k2;
  inv_jk : forall a r k, jk_of s a !! r = Some k -> k = job_key a r;
  inv_fired : forall f, In f (fired s) -> (f_id f < nid s)%N /\ f_time f <= now s;
  inv_deadjk : forall a, a ∈ dead s -> jk_of s a = ∅;
}.

Lemma inv_init : Inv init.
Proof.
  constructor; unfold init, jk_of; cbn; intros; try (rewrite lookup_empty in *; cbn in *; try rewrite lookup_empty in *; discriminate); try tauto; try set_solver.
Qed.

Lemma jk_of_insert s a recv ref p tr nx b :
  jk_of (insert_job s a recv ref p tr nx) b =
  if decide (a = b) then <[ref := job_key a ref]> (jk_of s a) else jk_of s b.
Proof.
  unfold jk_of at 1, insert_job; cbn. destruct (decide (a = b)) as [->|Hne].
  - rewrite lookup_insert. reflexivity.
  - rewrite lookup_insert_ne by assumption. reflexivity.
Qed.

Lemma insert_tbl_lookup s a recv ref p tr nx k0 j0 :
  tbl s !! job_key a ref = None ->
  (tbl (insert_job s a recv ref p tr nx) !! k0 = Some j0 <->
   tbl s !! k0 = Some j0 \/ (k0 = job_key a ref /\ j0 = mkJob (nid s) a recv ref p tr nx)).
Proof.
  intros E. unfold insert_job; cbn. destruct (decide (k0 = job_key a ref)) as [->|Hne].
  - rewrite lookup_insert, E. split; [intros [= <-]; right; auto|]. intros [H|(_ & ->)]; [discriminate|reflexivity].
  - rewrite lookup_insert_ne by congruence. split; [auto|]. intros [H|(H & _)]; [exact H|contradiction].
Qed.

Lemma insert_inv s a recv ref p tr nx :
  Inv s -> a ∉ dead s -> tbl s !! job_key a ref = None -> Inv (insert_job s a recv ref p tr nx).
Proof.
  intros I Ha Hfree. constructor.
  - intros k j H. apply insert_tbl_lookup in H as [H|(-> & ->)]; [eapply inv_key; eauto|reflexivity|exact Hfree].
  - intros k j H. rewrite jk_of_insert. apply insert_tbl_lookup in H as [H|(-> & ->)]; [| |exact Hfree]; cbn.
    + destruct (decide (a = j_owner j)) as [->|Hne]; [|eapply inv_own; eauto].
      destruct (decide (ref = j_ref j)) as [->|Hr].
      * rewrite lookup_insert. f_equal. symmetry. eapply inv_key; eauto.
      * rewrite lookup_insert_ne by assumption. eapply inv_own; eauto.
    + rewrite decide_True by reflexivity. apply lookup_insert.
  - intros k j H. apply insert_tbl_lookup in H as [H|(-> & ->)]; [| |exact Hfree]; cbn; [eapply inv_alive; eauto|exact Ha].
  - intros k j H. apply insert_tbl_lookup in H as [H|(-> & ->)]; [| |exact Hfree]; cbn; [pose proof (inv_idlt _ I _ _ H); lia|lia].
  - intros k1 k2 j1 j2 H1 H2 Hid.
    apply insert_tbl_lookup in H1 as [H1|(-> & ->)]; [| |exact Hfree]; (apply insert_tbl_lookup in H2 as [H2|(-> & ->)]; [| |exact Hfree]).
    + eapply inv_uniq; eauto.
    + pose proof (inv_idlt _ I _ _ H1). cbn in Hid. lia.
    + pose proof (inv_idlt _ I _ _ H2). cbn in Hid. lia.
    + reflexivity.
  - intros b r k. rewrite jk_of_insert. destruct (decide (a = b)) as [<-|Hne]; [|apply (inv_jk _ I)].
    destruct (decide (ref = r)) as [<-|Hr].
    + rewrite lookup_insert. congruence.
    + rewrite lookup_insert_ne by assumption. apply (inv_jk _ I).
  - intros f H. cbn in H. apply (inv_fired _ I) in H. cbn. lia.
  - intros b Hb. cbn in Hb. rewrite jk_of_insert. rewrite decide_False by (intros ->; contradiction). apply (inv_deadjk _ I). exact Hb.
Qed.

(** scheduleJob either fails and changes nothing, or the key was free and the job is inserted *)
Lemma schedule_cases s a recv ref p tr nx :
  (fst (schedule s a recv ref p tr nx) = s /\ snd (schedule s a recv ref p tr nx) <> ROk) \/
  (tbl s !! job_key a ref = None /\ ref <> [] /\
   schedule s a recv ref p tr nx = (insert_job s a recv ref p tr nx, ROk)).
Proof.
  unfold schedule. destruct ref as [|x ref]; [left; split; [reflexivity|discriminate]|].
  destruct (tbl s !! job_key a (x :: ref)) eqn:E; [left; split; [reflexivity|discriminate]|].
  right. split; [reflexivity|]. split; [discriminate|reflexivity].
Qed.

Lemma schedule_inv s a recv ref p tr nx : Inv s -> a ∉ dead s -> Inv (fst (schedule s a recv ref p tr nx)).
Proof.
  intros I Ha. destruct (schedule_cases s a recv ref p tr nx) as [[E _]|(Hf & _ & E)]; rewrite E; [exact I|].
  apply insert_inv; assumption.
Qed.

Lemma cancel_inv s a ref : Inv s -> Inv (fst (cancel s a ref)).
Proof.
  intros I. unfold cancel. destruct (jk_of s a !! ref) as [k|] eqn:E; [|exact I]. cbn [fst].
  pose proof (inv_jk _ I _ _ _ E) as Hk.
  constructor; cbn.
  - intros k0 j H. apply lookup_delete_Some in H as [_ H]. eapply inv_key; eauto.
  - intros k0 j H. apply lookup_delete_Some in H as [Hne H]. rewrite jk_of_with_jk, jk_of_with_tbl.
    destruct (decide (a = j_owner j)) as [Ho|Ho]; [|eapply inv_own; eauto].
    rewrite lookup_delete_ne; [subst a; eapply inv_own; eauto|].
    intros ->. apply Hne. rewrite Hk, Ho. symmetry. eapply inv_key; eauto.
  - intros k0 j H. apply lookup_delete_Some in H as [_ H]. eapply inv_alive; eauto.
  - intros k0 j H. apply lookup_delete_Some in H as [_ H]. eapply inv_idlt; eauto.
  - intros k1 k2 j1 j2 H1 H2 Hid. apply lookup_delete_Some in H1 as [_ H1]. apply lookup_delete_Some in H2 as [_ H2]. exact (inv_uniq _ I _ _ _ _ H1 H2 Hid).
  - intros b r k0. rewrite jk_of_with_jk, jk_of_with_tbl. destruct (decide (a = b)) as [<-|Hne]; [|apply (inv_jk _ I)].
    intros H. apply lookup_delete_Some in H as [_ H]. eapply inv_jk; eauto.
  - apply (inv_fired _ I).
  - intros b Hb. rewrite jk_of_with_jk, jk_of_with_tbl. destruct (decide (a = b)) as [<-|Hne]; [|apply (inv_deadjk _ I); exact Hb].
    rewrite (inv_deadjk _ I _ Hb). apply delete_empty.
Qed.

(** after Clear no queued job is owned by the actor *)
Lemma clear_no_owner s a k j : Inv s -> tbl (clear s a) !! k = Some j -> j_owner j <> a.
Proof.
  intros I H Ho. unfold clear in H; cbn in H. apply delete_all_lookup_Some in H as [H Hn].
  apply Hn. apply values_elem. exists (j_ref j). rewrite <- Ho. eapply inv_own; eauto.
Qed.

Lemma clear_inv s a : Inv s -> Inv (clear s a).
Proof.
  intros I. constructor.
  - intros k j H. cbn in H. apply delete_all_lookup_Some in H as [H _]. exact (inv_key _ I _ _ H).
  - intros k j H. pose proof (clear_no_owner _ _ _ _ I H) as Ho. cbn in H. apply delete_all_lookup_Some in H as [H _].
    unfold clear. rewrite jk_of_with_jk, jk_of_with_tbl. rewrite decide_False by congruence. exact (inv_own _ I _ _ H).
  - intros k j H. cbn in H. apply delete_all_lookup_Some in H as [H _]. exact (inv_alive _ I _ _ H).
  - intros k j H. cbn in H. apply delete_all_lookup_Some in H as [H _]. exact (inv_idlt _ I _ _ H).
  - intros k1 k2 j1 j2 H1 H2 Hid. cbn in H1, H2. apply delete_all_lookup_Some in H1 as [H1 _]. apply delete_all_lookup_Some in H2 as [H2 _]. exact (inv_uniq _ I _ _ _ _ H1 H2 Hid).
  - intros b r k. unfold clear. rewrite jk_of_with_jk, jk_of_with_tbl. destruct (decide (a = b)) as [<-|Hne]; [rewrite lookup_empty; discriminate|apply (inv_jk _ I)].
  - apply (inv_fired _ I).
  - intros b Hb. unfold clear. rewrite jk_of_with_jk, jk_of_with_tbl. destruct (decide (a = b)) as [<-|Hne]; [reflexivity|apply (inv_deadjk _ I); exact Hb].
Qed.

Lemma tick_tbl_lookup dt s k :
  tbl (tick dt s) !! k =
  tbl s !! k ≫= (fun j => adv_keep (snd (advance (dead s) (now s) (now s + Z.max dt 0) j))).
Proof. unfold tick; cbn. apply lookup_omap. Qed.

Lemma tick_tbl_Some dt s k j' :
  tbl (tick dt s) !! k = Some j' ->
  exists j, tbl s !! k = Some j /\ same_job j j' /\ j_next j <= j_next j'.
Proof.
  rewrite tick_tbl_lookup. destruct (tbl s !! k) as [j|] eqn:E; cbn; [|discriminate].
  intros H. apply advance_keep' in H. exists j. tauto.
Qed.

Lemma tick_fired_In dt s f :
  In f (fired (tick dt s)) ->
  In f (fired s) \/
  exists k j t, tbl s !! k = Some j /\ f = fire_of (dead s) j t /\ now s <= t <= now s + Z.max dt 0 /\ j_next j <= t.
Proof.
  unfold tick; cbn. rewrite in_app_iff, in_flat_map. intros [H|((k, j) & Hin & Hf)]; [left; exact H|right].
  apply elem_of_list_In, elem_of_map_to_list in Hin. cbn in Hf.
  apply advance_fires in Hf as (t & -> & Ht & Hn); [|lia]. exists k, j, t. auto.
Qed.

Lemma tick_inv dt s : Inv s -> Inv (tick dt s).
Proof.
  intros I. constructor.
  - intros k j' H. apply tick_tbl_Some in H as (j & H & (_ & Ho & _ & Hr & _) & _). rewrite Ho, Hr. eapply inv_key; eauto.
  - intros k j' H. apply tick_tbl_Some in H as (j & H & (_ & Ho & _ & Hr & _) & _). rewrite Ho, Hr. apply (inv_own _ I _ _ H).
  - intros k j' H. apply tick_tbl_Some in H as (j & H & (_ & Ho & _) & _). rewrite Ho. apply (inv_alive _ I _ _ H).
  - intros k j' H. apply tick_tbl_Some in H as (j & H & (Hi & _) & _). rewrite Hi. apply (inv_idlt _ I _ _ H).
  - intros k1 k2 j1 j2 H1 H2 Hid. apply tick_tbl_Some in H1 as (j1' & H1 & (Hi1 & _) & _). apply tick_tbl_Some in H2 as (j2' & H2 & (Hi2 & _) & _).
    eapply inv_uniq; eauto. congruence.
  - apply (inv_jk _ I).
  - intros f H. apply tick_fired_In in H as [H|(k & j & t & Hj & -> & Ht & _)].
    + apply (inv_fired _ I) in H. cbn. lia.
    + cbn. pose proof (inv_idlt _ I _ _ Hj). lia.
  - apply (inv_deadjk _ I).
Qed.

Lemma step_inv o s : Inv s -> Inv (fst (step o s)).
Proof.
  intros I. unfold step.
  destruct o as [a recv ref d p|a recv ref i p|a recv ref v p|a ref|a|a ref|a|a|dt|dt|l]; unfold if_alive, is_dead;
    try (destruct (bool_decide (a ∈ dead s)) eqn:Ed; [exact I|apply bool_decide_eq_false in Ed]); cbn [fst].
  - destruct (d <? 0); [exact I|]. apply schedule_inv; assumption.
  - destruct (i <=? 0); [exact I|]. apply schedule_inv; assumption.
  - destruct v; [apply schedule_inv; assumption|exact I].
  - apply cancel_inv; assumption.
  - apply clear_inv; assumption.
  - exact I.
  - pose proof (clear_inv s a I) as I'. constructor; cbn.
    + apply (inv_key _ I').
    + apply (inv_own _ I').
    + intros k j H Hd. apply elem_of_union in Hd as [Hd|Hd].
      * apply elem_of_singleton in Hd. exact (clear_no_owner _ _ _ _ I H Hd).
      * exact (inv_alive _ I' _ _ H Hd).
    + apply (inv_idlt _ I').
    + apply (inv_uniq _ I').
    + apply (inv_jk _ I').
    + apply (inv_fired _ I').
    + intros b Hb. apply elem_of_union in Hb as [Hb|Hb].
      * apply elem_of_singleton in Hb. subst b. unfold clear. change (jk_of (with_jk (with_tbl s (delete_all (map snd (map_to_list (jk_of s a))) (tbl s))) a ∅) a = ∅).
        rewrite jk_of_with_jk, decide_True by reflexivity. reflexivity.
      * apply (inv_deadjk _ I'). exact Hb.
  - apply clear_inv; assumption.
  - apply tick_inv; assumption.
  - constructor; cbn; try apply I. intros f H. apply (inv_fired _ I) in H. lia.
  - exact I.
Qed.

Lemma run_inv ops : forall s, Inv s -> Inv (run ops s).
Proof. induction ops as [|o ops IH]; intros s I; cbn; [exact I|]. apply IH, step_inv, I. Qed.

(** * what a step does to the Tells and to the queue *)

Definition tick_new (dt : Z) (s : sched) : list firing :=
  flat_map (fun kj => fst (advance (dead s) (now s) (now s + Z.max dt 0) (snd kj))) (map_to_list (tbl s)).

Definition is_tick (o : op) : bool := match o with OTick _ => true | _ => false end.

Lemma cancel_fired s a ref : fired (fst (cancel s a ref)) = fired s.
Proof. unfold cancel. destruct (jk_of s a !! ref); reflexivity. Qed.
Lemma cancel_now s a ref : now (fst (cancel s a ref)) = now s.
Proof. unfold cancel. destruct (jk_of s a !! ref); reflexivity. Qed.
Lemma cancel_nid s a ref : nid (fst (cancel s a ref)) = nid s.
Proof. unfold cancel. destruct (jk_of s a !! ref); reflexivity. Qed.
Lemma cancel_dead s a ref : dead (fst (cancel s a ref)) = dead s.
Proof. unfold cancel. destruct (jk_of s a !! ref); reflexivity. Qed.

Lemma schedule_fired s a recv ref p tr nx : fired (fst (schedule s a recv ref p tr nx)) = fired s.
Proof. destruct (schedule_cases s a recv ref p tr nx) as [[E _]|(_ & _ & E)]; rewrite E; reflexivity. Qed.
Lemma schedule_now s a recv ref p tr nx : now (fst (schedule s a recv ref p tr nx)) = now s.
Proof. destruct (schedule_cases s a recv ref p tr nx) as [[E _]|(_ & _ & E)]; rewrite E; reflexivity. Qed.
Lemma schedule_dead s a recv ref p tr nx : dead (fst (schedule s a recv ref p tr nx)) = dead s.
Proof. destruct (schedule_cases s a recv ref p tr nx) as [[E _]|(_ & _ & E)]; rewrite E; reflexivity. Qed.
Lemma schedule_nid_mono s a recv ref p tr nx : (nid s <= nid (fst (schedule s a recv ref p tr nx)))%N.
Proof. destruct (schedule_cases s a recv ref p tr nx) as [[E _]|(_ & _ & E)]; rewrite E; cbn; lia. Qed.

(** a queued job after scheduleJob is a job from before, or the new one *)
Lemma schedule_tbl_origin s a recv ref p tr nx k j' :
  tbl (fst (schedule s a recv ref p tr nx)) !! k = Some j' -> tbl s !! k = Some j' \/ j_id j' = nid s.
Proof.
  destruct (schedule_cases s a recv ref p tr nx) as [[E _]|(Hf & _ & E)]; rewrite E; cbn [fst]; [auto|].
  intros H. apply insert_tbl_lookup in H as [H|(_ & ->)]; [left; exact H|right; reflexivity|exact Hf].
Qed.
Lemma schedule_tbl_keep s a recv ref p tr nx k j0 :
  tbl s !! k = Some j0 -> tbl (fst (schedule s a recv ref p tr nx)) !! k = Some j0.
Proof.
  intros Hj. destruct (schedule_cases s a recv ref p tr nx) as [[E _]|(Hf & _ & E)]; rewrite E; cbn [fst]; [exact Hj|].
  apply insert_tbl_lookup; [exact Hf|left; exact Hj].
Qed.

Ltac step_cases o s :=
  unfold step;
  destruct o as [a recv ref d p|a recv ref i p|a recv ref v p|a ref|a|a ref|a|a|dt|dt|l]; unfold if_alive, is_dead;
    try (destruct (bool_decide (a ∈ dead s)) eqn:Ed; [|apply bool_decide_eq_false in Ed]).

Lemma step_fired o s :
  fired (fst (step o s)) = fired s ++ (match o with OTick dt => tick_new dt s | _ => [] end).
Proof.
  step_cases o s; cbn [fst]; try (rewrite app_nil_r; reflexivity); try reflexivity.
  - destruct (d <? 0); cbn [fst]; rewrite ?schedule_fired, app_nil_r; reflexivity.
  - destruct (i <=? 0); cbn [fst]; rewrite ?schedule_fired, app_nil_r; reflexivity.
  - destruct v; cbn [fst]; rewrite ?schedule_fired, app_nil_r; reflexivity.
  - rewrite cancel_fired, app_nil_r. reflexivity.
Qed.

Lemma step_nid_mono o s : (nid s <= nid (fst (step o s)))%N.
Proof.
  step_cases o s; cbn [fst]; try (cbn; lia).
  - destruct (d <? 0); cbn [fst]; [lia|apply schedule_nid_mono].
  - destruct (i <=? 0); cbn [fst]; [lia|apply schedule_nid_mono].
  - destruct v; cbn [fst]; [apply schedule_nid_mono|lia].
  - rewrite cancel_nid. lia.
Qed.

Lemma step_now_mono o s : now s <= now (fst (step o s)).
Proof.
  step_cases o s; cbn [fst]; try (cbn; lia).
  - destruct (d <? 0); cbn [fst]; rewrite ?schedule_now; lia.
  - destruct (i <=? 0); cbn [fst]; rewrite ?schedule_now; lia.
  - destruct v; cbn [fst]; rewrite ?schedule_now; lia.
  - rewrite cancel_now. lia.
Qed.

Lemma step_dead_mono o s (z : bytes) : z ∈ dead s -> z ∈ dead (fst (step o s)).
Proof.
  step_cases o s; cbn [fst]; try (cbn; tauto).
  - destruct (d <? 0); cbn [fst]; rewrite ?schedule_dead; tauto.
  - destruct (i <=? 0); cbn [fst]; rewrite ?schedule_dead; tauto.
  - destruct v; cbn [fst]; rewrite ?schedule_dead; tauto.
  - rewrite cancel_dead. tauto.
  - cbn. set_solver.
Qed.

(** a queued job after a step is a queued job from before (same identity, run time not earlier), or the
    job of the scheduling call this step is *)
Lemma step_tbl_origin o s k j' :
  tbl (fst (step o s)) !! k = Some j' ->
  (exists j, tbl s !! k = Some j /\ same_job j j' /\ j_next j <= j_next j') \/ j_id j' = nid s.
Proof.
  assert (Hold : forall t : jobtbl, t = tbl s -> t !! k = Some j' ->
            (exists j, tbl s !! k = Some j /\ same_job j j' /\ j_next j <= j_next j') \/ j_id j' = nid s).
  { intros t -> H. left. exists j'. split; [exact H|]. split; [apply same_job_refl|lia]. }
  assert (Hsch : forall a recv ref p tr nx, tbl (fst (schedule s a recv ref p tr nx)) !! k = Some j' ->
            (exists j, tbl s !! k = Some j /\ same_job j j' /\ j_next j <= j_next j') \/ j_id j' = nid s).
  { intros a recv ref p tr nx H. apply schedule_tbl_origin in H as [H|H]; [eapply Hold; eauto|right; exact H]. }
  step_cases o s; cbn [fst]; try (apply Hold; reflexivity).
  - destruct (d <? 0); cbn [fst]; [apply Hold; reflexivity|apply Hsch].
  - destruct (i <=? 0); cbn [fst]; [apply Hold; reflexivity|apply Hsch].
  - destruct v; cbn [fst]; [apply Hsch|apply Hold; reflexivity].
  - unfold cancel. destruct (jk_of s a !! ref); cbn [fst]; [|apply Hold; reflexivity].
    cbn. intros H. apply lookup_delete_Some in H as [_ H]. eapply Hold; eauto.
  - cbn. intros H. apply delete_all_lookup_Some in H as [H _]. eapply Hold; eauto.
  - cbn. intros H. apply delete_all_lookup_Some in H as [H _]. eapply Hold; eauto.
  - cbn. intros H. apply delete_all_lookup_Some in H as [H _]. eapply Hold; eauto.
  - intros H. apply tick_tbl_Some in H. left. exact H.
Qed.

Lemma run_app ops1 ops2 s : run (ops1 ++ ops2) s = run ops2 (run ops1 s).
Proof. revert s. induction ops1; intros s; cbn; auto. Qed.

Lemma run_nid_mono ops s : (nid s <= nid (run ops s))%N.
Proof. revert s. induction ops as [|o ops IH]; intros s; cbn; [lia|]. pose proof (step_nid_mono o s). pose proof (IH (fst (step o s))). lia. Qed.
Lemma run_dead_mono ops s a : a ∈ dead s -> a ∈ dead (run ops s).
Proof. revert s. induction ops as [|o ops IH]; intros s; cbn; [tauto|]. intros H. apply IH, step_dead_mono, H. Qed.

(** * the Tells of one scheduling call *)

Lemma fires_of_app x s l s' : fired s' = fired s ++ l ->
  fires_of x s' = fires_of x s ++ List.filter (fun f => (f_id f =? x)%N) l.
Proof. unfold fires_of. intros ->. apply List.filter_app. Qed.

Lemma filter_flat_map {A B} (P : B -> bool) (F : A -> list B) l :
  List.filter P (flat_map F l) = flat_map (fun a => List.filter P (F a)) l.
Proof. induction l as [|a l IH]; cbn; [reflexivity|]. rewrite List.filter_app, IH. reflexivity. Qed.

Lemma flat_map_nil {A B} (G : A -> list B) l : (forall b, In b l -> G b = []) -> flat_map G l = [].
Proof. induction l as [|b l IH]; cbn; intros H; [reflexivity|]. rewrite H by auto. cbn. apply IH. auto. Qed.

Lemma flat_map_single {A B} (G : A -> list B) l a :
  List.NoDup l -> In a l -> (forall b, In b l -> b <> a -> G b = []) -> flat_map G l = G a.
Proof.
  induction l as [|b l IH]; cbn; [tauto|]. intros Hnd [->|Hin] H.
  - inversion Hnd; subst. rewrite flat_map_nil; [apply app_nil_r|].
    intros b Hb. apply H; [auto|]. intros ->. contradiction.
  - inversion Hnd; subst. rewrite (H b); [|auto|intros ->; contradiction]. cbn. apply IH; auto.
Qed.

Lemma filter_all {A} (P : A -> bool) l : (forall a, In a l -> P a = true) -> List.filter P l = l.
Proof. induction l as [|a l IH]; cbn; intros H; [reflexivity|]. rewrite H by auto. f_equal. apply IH. auto. Qed.
Lemma filter_none {A} (P : A -> bool) l : (forall a, In a l -> P a = false) -> List.filter P l = [].
Proof. induction l as [|a l IH]; cbn; intros H; [reflexivity|]. rewrite H by auto. apply IH. auto. Qed.

Definition Gone (x : N) (s : sched) : Prop := forall k j, tbl s !! k = Some j -> j_id j <> x.

Lemma advance_fires_id dd lo hi j f : lo <= hi -> In f (fst (advance dd lo hi j)) -> f_id f = j_id j.
Proof. intros Hle H. apply advance_fires in H as (t & -> & _); [reflexivity|exact Hle]. Qed.

Lemma tick_new_gone x dt s : Gone x s -> List.filter (fun f => (f_id f =? x)%N) (tick_new dt s) = [].
Proof.
  intros G. unfold tick_new. rewrite filter_flat_map. apply flat_map_nil. intros (k, j) Hin.
  apply elem_of_list_In, elem_of_map_to_list in Hin. apply filter_none. intros f Hf. cbn in Hf.
  apply advance_fires_id in Hf; [|lia]. apply N.eqb_neq. rewrite Hf. exact (G _ _ Hin).
Qed.

Lemma tick_new_job x dt s k j : Inv s -> tbl s !! k = Some j -> j_id j = x ->
  List.filter (fun f => (f_id f =? x)%N) (tick_new dt s) = fst (advance (dead s) (now s) (now s + Z.max dt 0) j).
Proof.
  intros I Hj Hx. unfold tick_new. rewrite filter_flat_map.
  rewrite (flat_map_single _ _ (k, j)).
  - cbn. apply filter_all. intros f Hf. apply advance_fires_id in Hf; [|lia]. apply N.eqb_eq. congruence.
  - apply NoDup_ListNoDup, NoDup_map_to_list.
  - apply elem_of_list_In, elem_of_map_to_list. exact Hj.
  - intros (k', j') Hin Hne. apply elem_of_list_In, elem_of_map_to_list in Hin. cbn.
    apply filter_none. intros f Hf. apply advance_fires_id in Hf; [|lia]. apply N.eqb_neq. rewrite Hf. intros Hid.
    apply Hne. assert (k' = k) by (eapply (inv_uniq _ I); eauto; congruence). subst k'. congruence.
Qed.

Lemma step_gone x o s : Inv s -> (x < nid s)%N -> Gone x s ->
  Gone x (fst (step o s)) /\ fires_of x (fst (step o s)) = fires_of x s.
Proof.
  intros I Hx G. split.
  - intros k j' H. apply step_tbl_origin in H as [(j & Hj & (Hid & _) & _)|Hid]; [rewrite Hid; exact (G _ _ Hj)|lia].
  - rewrite (fires_of_app x s _ _ (step_fired o s)).
    destruct o; try apply app_nil_r. rewrite tick_new_gone by exact G. apply app_nil_r.
Qed.

Lemma run_gone x ops : forall s, Inv s -> (x < nid s)%N -> Gone x s ->
  Gone x (run ops s) /\ fires_of x (run ops s) = fires_of x s.
Proof.
  induction ops as [|o ops IH]; intros s I Hx G; cbn; [auto|].
  destruct (step_gone x o s I Hx G) as [G' E]. pose proof (step_nid_mono o s).
  destruct (IH _ (step_inv o s I) ltac:(lia) G') as [G'' E']. split; [exact G''|congruence].
Qed.

(** identity of the job of scheduling call [x] *)
Record Track (x : N) (a recv ref : bytes) (p : N) (tr : trig) (s : sched) : Prop := mkTrack {
  tr_lt : (x < nid s)%N;
  tr_job : forall k j, tbl s !! k = Some j -> j_id j = x ->
           j_owner j = a /\ j_recv j = recv /\ j_ref j = ref /\ j_payload j = p /\ j_trig j = tr;
  tr_fir : forall f, In f (fired s) -> f_id f = x ->
           f_owner f = a /\ f_recv f = recv /\ f_ref f = ref /\ f_payload f = p;
}.

Lemma step_track x a recv ref p tr o s :
  Track x a recv ref p tr s -> Track x a recv ref p tr (fst (step o s)).
Proof.
  intros T. constructor.
  - pose proof (tr_lt _ _ _ _ _ _ _ T). pose proof (step_nid_mono o s). lia.
  - intros k j' H Hid. pose proof (tr_lt _ _ _ _ _ _ _ T).
    apply step_tbl_origin in H as [(j & Hj & (Hi & Ho & Hr & Hf & Hp & Ht) & _)|Hn]; [|lia].
    rewrite Ho, Hr, Hf, Hp, Ht. apply (tr_job _ _ _ _ _ _ _ T _ _ Hj). congruence.
  - intros f H Hid. rewrite step_fired in H. apply in_app_iff in H as [H|H]; [apply (tr_fir _ _ _ _ _ _ _ T _ H Hid)|].
    destruct o; try destruct H.
    unfold tick_new in H. apply in_flat_map in H as ((k, j) & Hin & Hf). apply elem_of_list_In, elem_of_map_to_list in Hin.
    cbn in Hf. apply advance_fires in Hf as (t & -> & _); [|lia]. cbn in Hid |- *.
    destruct (tr_job _ _ _ _ _ _ _ T _ _ Hin Hid) as (? & ? & ? & ? & ?). auto.
Qed.

Lemma run_track x a recv ref p tr ops : forall s,
  Track x a recv ref p tr s -> Track x a recv ref p tr (run ops s).
Proof. induction ops as [|o ops IH]; intros s T; cbn; [exact T|]. apply IH, step_track, T. Qed.

Lemma insert_track s a recv ref p tr nx : Inv s -> tbl s !! job_key a ref = None ->
  Track (nid s) a recv ref p tr (insert_job s a recv ref p tr nx).
Proof.
  intros I Hfree. constructor.
  - cbn. lia.
  - intros k j H Hid. apply insert_tbl_lookup in H as [H|(_ & ->)]; [|cbn; auto|exact Hfree].
    pose proof (inv_idlt _ I _ _ H). lia.
  - intros f H Hid. cbn in H. apply (inv_fired _ I) in H. lia.
Qed.

(** * removal by the owner, and ops that cannot remove a key *)

Lemma track_alive_or_gone x a recv ref p tr s :
  Inv s -> Track x a recv ref p tr s -> a ∈ dead s -> Gone x s.
Proof.
  intros I T Hd k j Hj Hid. destruct (tr_job _ _ _ _ _ _ _ T _ _ Hj Hid) as (Ho & _).
  apply (inv_alive _ I _ _ Hj). rewrite Ho. exact Hd.
Qed.

Lemma step_removes x a0 recv0 ref0 p0 tr o s :
  Inv s -> Track x a0 recv0 ref0 p0 tr s -> removes a0 ref0 o -> Gone x (fst (step o s)).
Proof.
  intros I T R.
  destruct (decide (a0 ∈ dead s)) as [Hd|Hd].
  { pose proof (track_alive_or_gone _ _ _ _ _ _ _ I T Hd) as G.
    apply (step_gone x o s I (tr_lt _ _ _ _ _ _ _ T) G). }
  assert (Hfields : forall k j, tbl s !! k = Some j -> j_id j = x -> j_owner j = a0 /\ j_ref j = ref0).
  { intros k j Hj Hid. destruct (tr_job _ _ _ _ _ _ _ T _ _ Hj Hid) as (? & _ & ? & _). auto. }
  unfold step, if_alive, is_dead.
  destruct R as [-> | [-> | [-> | ->]]]; rewrite bool_decide_eq_false_2 by exact Hd; cbn [fst].
  - unfold cancel. destruct (jk_of s a0 !! ref0) as [k0|] eqn:E; cbn [fst].
    + intros k j Hj Hid. cbn in Hj. apply lookup_delete_Some in Hj as [Hne Hj].
      destruct (Hfields _ _ Hj Hid) as [Ho Hr]. pose proof (inv_own _ I _ _ Hj) as Hown. rewrite Ho, Hr, E in Hown. congruence.
    + intros k j Hj Hid. destruct (Hfields _ _ Hj Hid) as [Ho Hr]. pose proof (inv_own _ I _ _ Hj) as Hown. rewrite Ho, Hr, E in Hown. discriminate.
  - intros k j Hj Hid. pose proof (clear_no_owner _ _ _ _ I Hj) as Hno. cbn in Hj. apply delete_all_lookup_Some in Hj as [Hj _].
    destruct (Hfields _ _ Hj Hid). contradiction.
  - intros k j Hj Hid. cbn in Hj. change (tbl (clear s a0) !! k = Some j) in Hj. pose proof (clear_no_owner _ _ _ _ I Hj) as Hno.
    cbn in Hj. apply delete_all_lookup_Some in Hj as [Hj _]. destruct (Hfields _ _ Hj Hid). contradiction.
  - intros k j Hj Hid. pose proof (clear_no_owner _ _ _ _ I Hj) as Hno. cbn in Hj. apply delete_all_lookup_Some in Hj as [Hj _].
    destruct (Hfields _ _ Hj Hid). contradiction.
Qed.

(** only the owner's Cancel(ref) / Clear / termination / restart removes the key (path, ref) from the queue
    (keys of different actors or references never coincide) *)
Lemma step_untouched a0 ref0 o s j0 :
  Inv s -> ~ removes a0 ref0 o -> is_tick o = false ->
  tbl s !! job_key a0 ref0 = Some j0 -> tbl (fst (step o s)) !! job_key a0 ref0 = Some j0.
Proof.
  intros I Ht Hnt Hj. step_cases o s; cbn [fst]; try exact Hj; try discriminate.
  - destruct (d <? 0); cbn [fst]; [exact Hj|apply schedule_tbl_keep, Hj].
  - destruct (i <=? 0); cbn [fst]; [exact Hj|apply schedule_tbl_keep, Hj].
  - destruct v; cbn [fst]; [apply schedule_tbl_keep, Hj|exact Hj].
  - unfold cancel. destruct (jk_of s a !! ref) as [k1|] eqn:E; cbn [fst]; [|exact Hj]. cbn.
    rewrite lookup_delete_ne; [exact Hj|]. intros ->. apply Ht. left.
    pose proof (inv_jk _ I _ _ _ E) as Hk. apply job_key_inj in Hk as [-> ->]. reflexivity.
  - cbn. apply delete_all_lookup_Some. split; [exact Hj|]. intros Hin. apply values_elem in Hin as (r & Hr).
    apply Ht. right. left. pose proof (inv_jk _ I _ _ _ Hr) as Hk. apply job_key_inj in Hk as [-> _]. reflexivity.
  - cbn. apply delete_all_lookup_Some. split; [exact Hj|]. intros Hin. apply values_elem in Hin as (r & Hr).
    apply Ht. right. right. left. pose proof (inv_jk _ I _ _ _ Hr) as Hk. apply job_key_inj in Hk as [-> _]. reflexivity.
  - cbn. apply delete_all_lookup_Some. split; [exact Hj|]. intros Hin. apply values_elem in Hin as (r & Hr).
    apply Ht. right. right. right. pose proof (inv_jk _ I _ _ _ Hr) as Hk. apply job_key_inj in Hk as [-> _]. reflexivity.
Qed.

Lemma step_tbl_origin_nontick o s k j' :
  is_tick o = false -> tbl (fst (step o s)) !! k = Some j' -> tbl s !! k = Some j' \/ j_id j' = nid s.
Proof.
  intros Hnt. step_cases o s; cbn [fst]; try (intros H; left; exact H); try discriminate.
  - destruct (d <? 0); cbn [fst]; [intros H; left; exact H|apply schedule_tbl_origin].
  - destruct (i <=? 0); cbn [fst]; [intros H; left; exact H|apply schedule_tbl_origin].
  - destruct v; cbn [fst]; [apply schedule_tbl_origin|intros H; left; exact H].
  - unfold cancel. destruct (jk_of s a !! ref); cbn [fst]; [|intros H; left; exact H].
    cbn. intros H. apply lookup_delete_Some in H as [_ H]. left; exact H.
  - cbn. intros H. apply delete_all_lookup_Some in H as [H _]. left; exact H.
  - cbn. intros H. apply delete_all_lookup_Some in H as [H _]. left; exact H.
  - cbn. intros H. apply delete_all_lookup_Some in H as [H _]. left; exact H.
Qed.

Lemma step_now o s : now (fst (step o s)) = now s + op_dt o.
Proof.
  step_cases o s; cbn [fst op_dt]; try (cbn; lia).
  - destruct (d <? 0); cbn [fst]; rewrite ?schedule_now; lia.
  - destruct (i <=? 0); cbn [fst]; rewrite ?schedule_now; lia.
  - destruct v; cbn [fst]; rewrite ?schedule_now; lia.
  - rewrite cancel_now. lia.
Qed.

Lemma elapsed_cons o ops : elapsed (o :: ops) = op_dt o + elapsed ops.
Proof. reflexivity. Qed.
Lemma elapsed_app l1 l2 : elapsed (l1 ++ l2) = elapsed l1 + elapsed l2.
Proof. induction l1 as [|o l1 IH]; [reflexivity|]. rewrite <- app_comm_cons, !elapsed_cons, IH. lia. Qed.

Lemma run_now ops : forall s, now (run ops s) = now s + elapsed ops.
Proof.
  induction ops as [|o ops IH]; intros s; [cbn; lia|].
  rewrite elapsed_cons. cbn [run]. rewrite IH, step_now. lia.
Qed.

(** a scheduling call that returned nil: the actor is alive, the key was free, the job is inserted *)
Lemma sched_ok o a0 recv0 ref0 p0 s :
  is_sched o a0 recv0 ref0 p0 -> snd (step o s) = ROk ->
  exists tr nx, fst (step o s) = insert_job s a0 recv0 ref0 p0 tr nx /\
    a0 ∉ dead s /\ tbl s !! job_key a0 ref0 = None /\
    ((exists d, o = OOnce a0 recv0 ref0 d p0 /\ tr = TOnce /\ nx = now s + d /\ 0 <= d) \/
     (exists i, o = OLoop a0 recv0 ref0 i p0 /\ tr = TLoop i /\ nx = now s + i /\ 0 < i) \/
     (o = OCron a0 recv0 ref0 true p0 /\ tr = TCron)).
Proof.
  intros Hs Hok. unfold step, if_alive, is_dead in *.
  destruct Hs as [(d & ->) | [(i & ->) | ->]];
    (destruct (bool_decide (a0 ∈ dead s)) eqn:Ed; [discriminate|apply bool_decide_eq_false in Ed]).
  - destruct (d <? 0) eqn:Ed0; [discriminate|].
    destruct (schedule_cases s a0 recv0 ref0 p0 TOnce (now s + d)) as [[_ Hne]|(Hf & _ & E)]; [contradiction|].
    rewrite E. do 2 eexists. split; [reflexivity|]. split; [exact Ed|]. split; [exact Hf|]. left. exists d. repeat split; lia.
  - destruct (i <=? 0) eqn:Ei0; [discriminate|].
    destruct (schedule_cases s a0 recv0 ref0 p0 (TLoop i) (now s + i)) as [[_ Hne]|(Hf & _ & E)]; [contradiction|].
    rewrite E. do 2 eexists. split; [reflexivity|]. split; [exact Ed|]. split; [exact Hf|]. right. left. exists i. repeat split; lia.
  - destruct (schedule_cases s a0 recv0 ref0 p0 TCron 0) as [[_ Hne]|(Hf & _ & E)]; [contradiction|].
    rewrite E. do 2 eexists. split; [reflexivity|]. split; [exact Ed|]. split; [exact Hf|]. right. right. auto.
Qed.

(** * every queued SimpleTrigger has a positive interval *)

Definition PosInv (s : sched) : Prop := forall k j i, tbl s !! k = Some j -> j_trig j = TLoop i -> 0 < i.

Lemma step_pos o s : PosInv s -> PosInv (fst (step o s)).
Proof.
  intros Hp.
  assert (Hsched : forall a recv ref p tr nx, (forall i, tr = TLoop i -> 0 < i) -> PosInv (fst (schedule s a recv ref p tr nx))).
  { intros a recv ref p tr nx Htr k j i H Ht.
    destruct (schedule_cases s a recv ref p tr nx) as [[E _]|(Hf & _ & E)]; rewrite E in H; cbn [fst] in H; [eapply Hp; eauto|].
    apply insert_tbl_lookup in H as [H|(_ & ->)]; [eapply Hp; eauto|auto|exact Hf]. }
  step_cases o s; cbn [fst]; try exact Hp.
  - destruct (d <? 0); cbn [fst]; [exact Hp|]. apply Hsched. discriminate.
  - destruct (i <=? 0) eqn:Ei; cbn [fst]; [exact Hp|]. apply Hsched. intros i' [= <-]. lia.
  - destruct v; cbn [fst]; [|exact Hp]. apply Hsched. discriminate.
  - unfold cancel. destruct (jk_of s a !! ref); cbn [fst]; [|exact Hp].
    intros k j i H. cbn in H. apply lookup_delete_Some in H as [_ H]. eapply Hp; eauto.
  - intros k j i H. cbn in H. apply delete_all_lookup_Some in H as [H _]. eapply Hp; eauto.
  - intros k j i H. cbn in H. apply delete_all_lookup_Some in H as [H _]. eapply Hp; eauto.
  - intros k j i H. cbn in H. apply delete_all_lookup_Some in H as [H _]. eapply Hp; eauto.
  - intros k j' i H Ht. apply tick_tbl_Some in H as (j & Hj & (_ & _ & _ & _ & _ & Htr) & _). eapply Hp; eauto. congruence.
Qed.

Lemma reach_pos ops : PosInv (run ops init).
Proof.
  assert (H : forall s, PosInv s -> PosInv (run ops s)).
  { induction ops as [|o ops IH]; intros s P; cbn; [exact P|]. apply IH, step_pos, P. }
  apply H. intros k j i Hj. cbn in Hj. rewrite lookup_empty in Hj. discriminate.
Qed.

(** * jobs die with their actor *)

Lemma dead_no_jobs s (a : bytes) : Inv s -> a ∈ dead s ->
  (forall k j, tbl s !! k = Some j -> j_owner j <> a) /\ jk_of s a = ∅.
Proof.
  intros I Hd. split; [|apply (inv_deadjk _ I); exact Hd].
  intros k j Hj Ho. apply (inv_alive _ I _ _ Hj). rewrite Ho. exact Hd.
Qed.

Lemma died_is_dead s (a : bytes) : a ∈ dead (fst (step (ODied a) s)).
Proof.
  unfold step, if_alive, is_dead.
  destruct (bool_decide (a ∈ dead s)) eqn:E; cbn [fst]; [apply bool_decide_eq_true in E; exact E|]. cbn. set_solver.
Qed.

Lemma restarted_clears s (a : bytes) : Inv s -> a ∉ dead s ->
  let s' := fst (step (ORestarted a) s) in
  (forall k j, tbl s' !! k = Some j -> j_owner j <> a) /\ jk_of s' a = ∅.
Proof.
  intros I Hd. unfold step, if_alive, is_dead. rewrite bool_decide_eq_false_2 by exact Hd. cbn [fst].
  split.
  - intros k j Hj. eapply clear_no_owner; eauto.
  - unfold clear. rewrite jk_of_with_jk, decide_True by reflexivity. reflexivity.
Qed.

(** every Tell of a job owned by a dead actor was done before a step *)
Lemma step_fired_dead_owner o s (a0 : bytes) f :
  Inv s -> a0 ∈ dead s -> In f (fired (fst (step o s))) -> f_owner f = a0 -> In f (fired s).
Proof.
  intros I Hd H Ho. rewrite step_fired in H. apply in_app_iff in H as [H|H]; [exact H|exfalso].
  destruct o; try destruct H.
  unfold tick_new in H. apply in_flat_map in H as ((k, j) & Hin & Hf). apply elem_of_list_In, elem_of_map_to_list in Hin.
  cbn in Hf. apply advance_fires in Hf as (t & -> & _); [|lia]. cbn in Ho.
  apply (inv_alive _ I _ _ Hin). rewrite Ho. exact Hd.
Qed.

Lemma run_fired_dead_owner ops (a0 : bytes) f : forall s,
  Inv s -> a0 ∈ dead s -> In f (fired (run ops s)) -> f_owner f = a0 -> In f (fired s).
Proof.
  induction ops as [|o ops IH]; intros s I Hd H Ho; cbn in H; [exact H|].
  apply (step_fired_dead_owner o s a0 f I Hd); [|exact Ho].
  apply IH; [apply step_inv, I|apply step_dead_mono, Hd|exact H|exact Ho].
Qed.

(** * Once *)

Lemma gone_dec x s : Gone x s \/ exists k j, tbl s !! k = Some j /\ j_id j = x.
Proof.
  destruct (decide (Exists (fun kj : key * job => j_id (snd kj) = x) (map_to_list (tbl s)))) as [H|H].
  - right. apply Exists_exists in H as ((k, j) & Hin & Hid). apply elem_of_map_to_list in Hin. exists k, j. auto.
  - left. intros k j Hj Hid. apply H. apply Exists_exists. exists (k, j). split; [apply elem_of_map_to_list; exact Hj|exact Hid].
Qed.

Lemma step_tick dt s : fst (step (OTick dt) s) = tick dt s.
Proof. reflexivity. Qed.

Lemma step_fires_nontick x o s : is_tick o = false -> fires_of x (fst (step o s)) = fires_of x s.
Proof.
  intros Hnt. rewrite (fires_of_app x s _ _ (step_fired o s)).
  destruct o; try apply app_nil_r. discriminate.
Qed.

Lemma tick_fires_job x dt s k j : Inv s -> tbl s !! k = Some j -> j_id j = x ->
  fires_of x (tick dt s) = fires_of x s ++ fst (advance (dead s) (now s) (now s + Z.max dt 0) j) /\
  tbl (tick dt s) !! k = adv_keep (snd (advance (dead s) (now s) (now s + Z.max dt 0) j)) /\
  (forall k' j', tbl (tick dt s) !! k' = Some j' -> j_id j' = x -> k' = k).
Proof.
  intros I Hj Hid. split; [|split].
  - rewrite (fires_of_app x s (tick_new dt s)) by reflexivity. f_equal. eapply tick_new_job; eauto.
  - rewrite tick_tbl_lookup, Hj. reflexivity.
  - intros k' j' H Hid'. apply tick_tbl_Some in H as (j0 & Hj0 & (Hi & _) & _).
    eapply (inv_uniq _ I); eauto. congruence.
Qed.

Record OnceInv (x : N) (D : Z) (s : sched) : Prop := mkOnceInv {
  oi_job : forall k j, tbl s !! k = Some j -> j_id j = x -> j_next j = D /\ fires_of x s = [];
  oi_len : (length (fires_of x s) <= 1)%nat;
  oi_time : forall f, In f (fires_of x s) -> D <= f_time f;
}.

Lemma step_once_inv x a0 recv0 ref0 p0 D o s :
  Inv s -> Track x a0 recv0 ref0 p0 TOnce s -> OnceInv x D s -> OnceInv x D (fst (step o s)).
Proof.
  intros I T O.
  destruct (is_tick o) eqn:Et.
  - destruct o; try discriminate. rewrite step_tick.
    destruct (gone_dec x s) as [G|(k & j & Hj & Hid)].
    + destruct (step_gone x (OTick dt) s I (tr_lt _ _ _ _ _ _ _ T) G) as [G' E]. rewrite step_tick in G', E.
      constructor; [intros k j Hj Hid; exfalso; exact (G' _ _ Hj Hid)|rewrite E; apply O|rewrite E; apply O].
    + destruct (tick_fires_job x dt s k j I Hj Hid) as (Ef & Ek & Hu).
      destruct (tr_job _ _ _ _ _ _ _ T _ _ Hj Hid) as (_ & _ & _ & _ & Htr).
      destruct (oi_job _ _ _ O _ _ Hj Hid) as [Hn Hf0]. rewrite Hf0 in Ef. cbn [app] in Ef.
      unfold advance in Ef, Ek. rewrite Htr, Hn in Ef, Ek.
      destruct (now s + Z.max dt 0 <? D) eqn:E1; cbn [fst snd adv_keep] in Ef, Ek.
      * constructor; rewrite Ef; [|cbn [length]; lia|cbn [In]; tauto].
        intros k' j' Hj' Hid'. assert (k' = k) by (eapply Hu; eauto). subst k'. rewrite Ek in Hj'. injection Hj' as <-. auto.
      * destruct (D <? now s - thr) eqn:E2; cbn [fst snd adv_keep] in Ef, Ek.
        -- constructor; rewrite Ef; [|cbn [length]; lia|cbn [In]; tauto].
           intros k' j' Hj' Hid'. assert (k' = k) by (eapply Hu; eauto). subst k'. rewrite Ek in Hj'. discriminate.
        -- constructor; rewrite Ef; [|cbn [length]; lia|intros f [<-|[]]; cbn; lia].
           intros k' j' Hj' Hid'. assert (k' = k) by (eapply Hu; eauto). subst k'. rewrite Ek in Hj'. discriminate.
  - pose proof (step_fires_nontick x o s Et) as E. constructor; [|rewrite E; apply O|rewrite E; apply O].
    intros k j' Hj' Hid. rewrite E. apply (step_tbl_origin_nontick o s k j' Et) in Hj' as [Hj'|Hn].
    + exact (oi_job _ _ _ O _ _ Hj' Hid).
    + pose proof (tr_lt _ _ _ _ _ _ _ T). lia.
Qed.

Lemma run_once_inv x a0 recv0 ref0 p0 D ops : forall s,
  Inv s -> Track x a0 recv0 ref0 p0 TOnce s -> OnceInv x D s -> OnceInv x D (run ops s).
Proof.
  induction ops as [|o ops IH]; intros s I T O; cbn; [exact O|].
  apply IH; [apply step_inv, I|apply step_track, T|eapply step_once_inv; eauto].
Qed.

Lemma fires_of_fresh x s : Inv s -> (nid s <= x)%N -> fires_of x s = [].
Proof.
  intros I H. unfold fires_of. apply filter_none. intros f Hf. apply (inv_fired _ I) in Hf. apply N.eqb_neq. lia.
Qed.

Lemma insert_fires x s a recv ref p tr nx : fires_of x (insert_job s a recv ref p tr nx) = fires_of x s.
Proof. reflexivity. Qed.

Lemma insert_once_inv s a recv ref p nx : Inv s -> tbl s !! job_key a ref = None ->
  OnceInv (nid s) nx (insert_job s a recv ref p TOnce nx).
Proof.
  intros I Hfree. constructor; rewrite insert_fires, fires_of_fresh by (auto; lia); cbn; [|lia|tauto].
  intros k j H Hid. apply insert_tbl_lookup in H as [H|(_ & ->)]; [|cbn; auto|exact Hfree].
  pose proof (inv_idlt _ I _ _ H). lia.
Qed.

(** the Once job of call [x] is still queued, not yet due / has been told exactly once, at its instant *)
Definition Pending (x : N) (k : key) (D : Z) (s : sched) : Prop :=
  exists j, tbl s !! k = Some j /\ j_id j = x /\ now s <= D.
Definition Done (x : N) (D : Z) (s : sched) : Prop :=
  Gone x s /\ exists f, fires_of x s = [f] /\ f_time f = D.

Lemma step_once_progress x a0 recv0 ref0 p0 D o s :
  Inv s -> Track x a0 recv0 ref0 p0 TOnce s -> OnceInv x D s ->
  is_stall o = false -> ~ removes a0 ref0 o -> Pending x (job_key a0 ref0) D s ->
  (Pending x (job_key a0 ref0) D (fst (step o s)) \/ Done x D (fst (step o s))) /\
  (forall dt, o = OTick dt -> D <= now s + Z.max dt 0 -> Done x D (fst (step o s))).
Proof.
  intros I T O Hst Hto (j & Hj & Hid & Hnow).
  destruct (is_tick o) eqn:Et.
  - destruct o; try discriminate. rewrite step_tick.
    destruct (tick_fires_job x dt s _ j I Hj Hid) as (Ef & Ek & Hu).
    destruct (tr_job _ _ _ _ _ _ _ T _ _ Hj Hid) as (_ & _ & _ & _ & Htr).
    destruct (oi_job _ _ _ O _ _ Hj Hid) as [Hn Hf0]. rewrite Hf0 in Ef. cbn [app] in Ef.
    unfold advance in Ef, Ek. rewrite Htr, Hn in Ef, Ek.
    destruct (now s + Z.max dt 0 <? D) eqn:E1; cbn [fst snd adv_keep] in Ef, Ek.
    + split; [left; exists j; cbn; repeat split; auto; lia|]. intros dt' [= <-] Hd. lia.
    + rewrite (proj2 (Z.ltb_ge D (now s - thr))) in Ef, Ek by (unfold thr; lia). cbn [fst snd adv_keep] in Ef, Ek.
      assert (Dn : Done x D (tick dt s)).
      { split.
        - intros k' j' Hj' Hid'. assert (k' = job_key a0 ref0) by (eapply Hu; eauto). subst k'. rewrite Ek in Hj'. discriminate.
        - eexists. split; [exact Ef|]. cbn. lia. }
      split; [right; exact Dn|intros; exact Dn].
  - split; [left|intros dt ->; discriminate].
    exists j. split; [apply step_untouched; assumption|]. split; [exact Hid|].
    rewrite step_now. destruct o; cbn; try lia; discriminate.
Qed.

Lemma done_stable x D ops s : Inv s -> (x < nid s)%N -> Done x D s -> Done x D (run ops s).
Proof.
  intros I Hx [G (f & Ef & Ht)]. destruct (run_gone x ops s I Hx G) as [G' E]. split; [exact G'|]. exists f. rewrite E. auto.
Qed.

Lemma run_once_progress x a0 recv0 ref0 p0 D ops : forall s,
  Inv s -> Track x a0 recv0 ref0 p0 TOnce s -> OnceInv x D s ->
  no_stall ops -> Forall (fun o => ~ removes a0 ref0 o) ops ->
  Pending x (job_key a0 ref0) D s \/ Done x D s ->
  Pending x (job_key a0 ref0) D (run ops s) \/ Done x D (run ops s).
Proof.
  induction ops as [|o ops IH]; intros s I T O Hns Hto H; cbn; [exact H|].
  inversion Hns; subst. inversion Hto; subst.
  apply IH; try assumption; [apply step_inv, I|apply step_track, T|eapply step_once_inv; eauto|].
  destruct H as [P|Dn].
  - eapply step_once_progress; eauto.
  - right. apply (done_stable x D [o] s I (tr_lt _ _ _ _ _ _ _ T) Dn).
Qed.

(** dead letters: a Tell flagged dead went to a terminated receiver *)
Definition DL (s : sched) : Prop := forall f, In f (fired s) -> f_dead f = true -> f_recv f ∈ dead s.

Lemma step_dl o s : DL s -> DL (fst (step o s)).
Proof.
  intros H f Hf Hd. rewrite step_fired in Hf. apply in_app_iff in Hf as [Hf|Hf]; [apply step_dead_mono, (H _ Hf Hd)|].
  destruct o; try destruct Hf. rewrite step_tick.
  unfold tick_new in Hf. apply in_flat_map in Hf as ((k, j) & Hin & Hf). cbn in Hf.
  apply advance_fires in Hf as (t & -> & _); [|lia]. cbn in Hd |- *. apply bool_decide_eq_true in Hd. exact Hd.
Qed.
Lemma run_dl ops : forall s, DL s -> DL (run ops s).
Proof. induction ops as [|o ops IH]; intros s H; cbn; [exact H|]. apply IH, step_dl, H. Qed.
Lemma dl_init : DL init.
Proof. intros f []. Qed.

(** * Loop *)

Lemma map_seq_shift {A} (f : nat -> A) a c : map f (seq a c) = map (fun q => f (a + q)%nat) (seq 0 c).
Proof.
  revert a. induction c as [|c IH]; intros a; [reflexivity|]. cbn [seq map]. f_equal; [f_equal; lia|].
  rewrite IH. rewrite <- seq_shift, map_map. apply map_ext. intros q. f_equal. lia.
Qed.

Lemma grid_app t0 i m c :
  grid t0 i (m + c) = grid t0 i m ++ map (fun q => t0 + (Z.of_nat m + 1) * i + Z.of_nat q * i) (seq 0 c).
Proof.
  unfold grid. rewrite seq_app, map_app. f_equal. rewrite map_seq_shift. apply map_ext. intros q.
  rewrite !Nat2Z.inj_add. change (Z.of_nat 1) with 1. ring.
Qed.

Lemma tick_now dt s : now (tick dt s) = now s + Z.max dt 0.
Proof. reflexivity. Qed.

Definition LoopInv (x : N) (t0 i : Z) (s : sched) : Prop :=
  exists m : nat,
    map f_time (fires_of x s) = grid t0 i m /\ t0 + Z.of_nat m * i <= now s /\
    (forall k j, tbl s !! k = Some j -> j_id j = x -> j_next j = t0 + (Z.of_nat m + 1) * i /\ now s < j_next j).

Lemma step_loop_inv x a0 recv0 ref0 p0 t0 i0 o s :
  Inv s -> Track x a0 recv0 ref0 p0 (TLoop i0) s -> 0 < i0 -> is_stall o = false ->
  LoopInv x t0 i0 s -> LoopInv x t0 i0 (fst (step o s)).
Proof.
  intros I T Hi Hst L.
  destruct L as (m & Hf & Hle & Hjob).
  destruct (is_tick o) eqn:Et.
  - destruct o; try discriminate. rewrite step_tick.
    destruct (gone_dec x s) as [G|(k & j & Hj & Hid)].
    + destruct (step_gone x (OTick dt) s I (tr_lt _ _ _ _ _ _ _ T) G) as [G' E]. rewrite step_tick in G', E.
      exists m. rewrite E, tick_now. split; [exact Hf|]. split; [lia|]. intros k j Hj Hid. exfalso. exact (G' _ _ Hj Hid).
    + destruct (tick_fires_job x dt s k j I Hj Hid) as (Ef & Ek & Hu).
      destruct (tr_job _ _ _ _ _ _ _ T _ _ Hj Hid) as (_ & _ & _ & _ & Htr).
      destruct (Hjob _ _ Hj Hid) as [Hn Hlt].
      unfold advance in Ef, Ek. rewrite Htr in Ef, Ek.
      destruct (now s + Z.max dt 0 <? j_next j) eqn:E1; cbn [fst snd adv_keep] in Ef, Ek.
      * exists m. rewrite Ef, app_nil_r, tick_now. split; [exact Hf|]. split; [lia|].
        intros k' j' Hj' Hid'. assert (k' = k) by (eapply Hu; eauto). subst k'. rewrite Ek in Hj'. injection Hj' as <-. split; [exact Hn|lia].
      * rewrite (proj2 (Z.leb_gt i0 0)) in Ef, Ek by lia.
        rewrite (proj2 (Z.ltb_ge (j_next j) (now s - thr))) in Ef, Ek by (unfold thr; lia).
        rewrite E1 in Ef, Ek. cbn [fst snd adv_keep] in Ef, Ek.
        set (c := (now s + Z.max dt 0 - j_next j) / i0 + 1) in *.
        assert (Hq : 0 <= (now s + Z.max dt 0 - j_next j) / i0) by (apply Z.div_pos; lia).
        assert (Hm1 : i0 * ((now s + Z.max dt 0 - j_next j) / i0) <= now s + Z.max dt 0 - j_next j) by (apply Z.mul_div_le; lia).
        assert (Hm2 : now s + Z.max dt 0 - j_next j < i0 * Z.succ ((now s + Z.max dt 0 - j_next j) / i0)) by (apply Z.mul_succ_div_gt; lia).
        exists (m + Z.to_nat c)%nat. rewrite Ef, map_app, Hf, tick_now, grid_app.
        rewrite loop_fires_times by lia. rewrite Hn.
        assert (Hc : Z.of_nat (m + Z.to_nat c) = Z.of_nat m + c) by (subst c; lia).
        split; [reflexivity|]. split; [subst c; nia|].
        intros k' j' Hj' Hid'. assert (k' = k) by (eapply Hu; eauto). subst k'. rewrite Ek in Hj'. injection Hj' as <-.
        cbn [j_next set_next]. rewrite Hc. split; [rewrite Hn; ring|subst c; nia].
  - exists m. rewrite (step_fires_nontick x o s Et). rewrite step_now.
    assert (Hz : op_dt o = 0) by (destruct o; try reflexivity; discriminate). rewrite Hz, Z.add_0_r.
    split; [exact Hf|]. split; [exact Hle|].
    intros k j' Hj' Hid. apply (step_tbl_origin_nontick o s k j' Et) in Hj' as [Hj'|Hn'].
    + exact (Hjob _ _ Hj' Hid).
    + pose proof (tr_lt _ _ _ _ _ _ _ T). lia.
Qed.

Lemma run_loop_inv x a0 recv0 ref0 p0 t0 i0 ops : forall s,
  Inv s -> Track x a0 recv0 ref0 p0 (TLoop i0) s -> 0 < i0 -> no_stall ops ->
  LoopInv x t0 i0 s -> LoopInv x t0 i0 (run ops s).
Proof.
  induction ops as [|o ops IH]; intros s I T Hi Hns L; cbn; [exact L|]. inversion Hns; subst.
  apply IH; [apply step_inv, I|apply step_track, T|exact Hi|assumption|eapply step_loop_inv; eauto].
Qed.

Definition Present (x : N) (k : key) (s : sched) : Prop := exists j, tbl s !! k = Some j /\ j_id j = x.

Lemma step_present x a0 recv0 ref0 p0 i0 o s :
  Inv s -> Track x a0 recv0 ref0 p0 (TLoop i0) s -> 0 < i0 -> ~ removes a0 ref0 o ->
  Present x (job_key a0 ref0) s -> Present x (job_key a0 ref0) (fst (step o s)).
Proof.
  intros I T Hi Hto (j & Hj & Hid). destruct (is_tick o) eqn:Et.
  - destruct o; try discriminate. rewrite step_tick.
    destruct (tick_fires_job x dt s _ j I Hj Hid) as (_ & Ek & _).
    destruct (tr_job _ _ _ _ _ _ _ T _ _ Hj Hid) as (_ & _ & _ & _ & Htr).
    assert (Hk : exists j', adv_keep (snd (advance (dead s) (now s) (now s + Z.max dt 0) j)) = Some j').
    { unfold advance. rewrite Htr. destruct (now s + Z.max dt 0 <? j_next j); [eexists; reflexivity|].
      rewrite (proj2 (Z.leb_gt i0 0)) by lia.
      destruct (now s + Z.max dt 0 <? (if j_next j <? now s - thr then now s + i0 else j_next j)); eexists; reflexivity. }
    destruct Hk as (j' & Hk). exists j'. rewrite Ek. split; [exact Hk|].
    apply advance_keep' in Hk as [(Hi' & _) _]. congruence.
  - exists j. split; [apply step_untouched; assumption|exact Hid].
Qed.

Lemma run_present x a0 recv0 ref0 p0 i0 ops : forall s,
  Inv s -> Track x a0 recv0 ref0 p0 (TLoop i0) s -> 0 < i0 -> Forall (fun o => ~ removes a0 ref0 o) ops ->
  Present x (job_key a0 ref0) s -> Present x (job_key a0 ref0) (run ops s).
Proof.
  induction ops as [|o ops IH]; intros s I T Hi Hto P; cbn; [exact P|]. inversion Hto; subst.
  apply IH; try assumption; [apply step_inv, I|apply step_track, T|eapply step_present; eauto].
Qed.

(** * the statements of Properties/C20.v *)

Lemma run_split pre o post s : run (pre ++ o :: post) s = run post (fst (step o (run pre s))).
Proof. rewrite run_app. reflexivity. Qed.

Lemma In_fires_of x s f : In f (fires_of x s) <-> In f (fired s) /\ f_id f = x.
Proof. unfold fires_of. rewrite filter_In, N.eqb_eq. tauto. Qed.

Lemma reach_inv ops : Inv (run ops init).
Proof. apply run_inv, inv_init. Qed.

Lemma after_sched pre o a recv ref p :
  is_sched o a recv ref p -> snd (step o (run pre init)) = ROk ->
  exists tr nx,
    fst (step o (run pre init)) = insert_job (run pre init) a recv ref p tr nx /\
    Inv (fst (step o (run pre init))) /\
    Track (nid (run pre init)) a recv ref p tr (fst (step o (run pre init))) /\
    a ∉ dead (run pre init) /\ tbl (run pre init) !! job_key a ref = None /\
    ((exists d, o = OOnce a recv ref d p /\ tr = TOnce /\ nx = now (run pre init) + d /\ 0 <= d) \/
     (exists i, o = OLoop a recv ref i p /\ tr = TLoop i /\ nx = now (run pre init) + i /\ 0 < i) \/
     (o = OCron a recv ref true p /\ tr = TCron)).
Proof.
  intros Hs Hok. destruct (sched_ok o a recv ref p _ Hs Hok) as (tr & nx & E & Hd & Hf & K).
  exists tr, nx. split; [exact E|]. split; [apply step_inv, reach_inv|]. split; [|auto].
  rewrite E. apply insert_track; [apply reach_inv|exact Hf].
Qed.

Lemma thm_payload pre o a recv ref p post f :
  is_sched o a recv ref p -> snd (step o (run pre init)) = ROk ->
  In f (fires_of (nid (run pre init)) (run (pre ++ o :: post) init)) ->
  f_owner f = a /\ f_recv f = recv /\ f_ref f = ref /\ f_payload f = p /\
  (f_dead f = true -> recv ∈ dead (run (pre ++ o :: post) init)).
Proof.
  intros Hs Hok Hf. destruct (after_sched pre o a recv ref p Hs Hok) as (tr & nx & E & I' & T & _).
  apply In_fires_of in Hf as [Hin Hid].
  assert (DLf : DL (run (pre ++ o :: post) init)) by apply run_dl, dl_init.
  rewrite run_split in Hin |- *.
  pose proof (run_track _ _ _ _ _ _ post _ T) as T'.
  destruct (tr_fir _ _ _ _ _ _ _ T' _ Hin Hid) as (Ho & Hr & Hrf & Hp).
  repeat (split; [assumption|]). intros Hdl. rewrite <- Hr. rewrite <- run_split. apply DLf; [rewrite run_split; exact Hin|exact Hdl].
Qed.

Lemma once_kind pre a recv ref d p tr nx :
  ((exists d', OOnce a recv ref d p = OOnce a recv ref d' p /\ tr = TOnce /\ nx = now (run pre init) + d' /\ 0 <= d') \/
   (exists i, OOnce a recv ref d p = OLoop a recv ref i p /\ tr = TLoop i /\ nx = now (run pre init) + i /\ 0 < i) \/
   (OOnce a recv ref d p = OCron a recv ref true p /\ tr = TCron)) ->
  tr = TOnce /\ nx = now (run pre init) + d /\ 0 <= d.
Proof. intros [(d' & [= <-] & ? & ? & ?)|[(i & [=] & _)|([=] & _)]]. auto. Qed.

Lemma loop_kind pre a recv ref i p tr nx :
  ((exists d', OLoop a recv ref i p = OOnce a recv ref d' p /\ tr = TOnce /\ nx = now (run pre init) + d' /\ 0 <= d') \/
   (exists i', OLoop a recv ref i p = OLoop a recv ref i' p /\ tr = TLoop i' /\ nx = now (run pre init) + i' /\ 0 < i') \/
   (OLoop a recv ref i p = OCron a recv ref true p /\ tr = TCron)) ->
  tr = TLoop i /\ nx = now (run pre init) + i /\ 0 < i.
Proof. intros [(d' & [=] & _)|[(i' & [= <-] & ? & ? & ?)|([=] & _)]]. auto. Qed.

Lemma thm_once_safety pre a recv ref d p post :
  snd (step (OOnce a recv ref d p) (run pre init)) = ROk ->
  (length (fires_of (nid (run pre init)) (run (pre ++ OOnce a recv ref d p :: post) init)) <= 1)%nat /\
  (forall f, In f (fires_of (nid (run pre init)) (run (pre ++ OOnce a recv ref d p :: post) init)) ->
             now (run pre init) + d <= f_time f).
Proof.
  intros Hok.
  destruct (after_sched pre (OOnce a recv ref d p) a recv ref p (or_introl (ex_intro _ d eq_refl)) Hok) as (tr & nx & E & I' & T & Hd & Hfree & K).
  apply once_kind in K as (-> & -> & Hd0).
  rewrite run_split.
  assert (O : OnceInv (nid (run pre init)) (now (run pre init) + d) (fst (step (OOnce a recv ref d p) (run pre init)))).
  { rewrite E. apply insert_once_inv; [apply reach_inv|exact Hfree]. }
  pose proof (run_once_inv _ _ _ _ _ _ post _ I' T O) as O'.
  split; [apply O'|apply O'].
Qed.

Lemma thm_cancel_stops pre o a recv ref p mid c post :
  is_sched o a recv ref p -> snd (step o (run pre init)) = ROk -> removes a ref c ->
  fires_of (nid (run pre init)) (run (pre ++ o :: mid ++ c :: post) init) =
  fires_of (nid (run pre init)) (run (pre ++ o :: mid) init).
Proof.
  intros Hs Hok R. destruct (after_sched pre o a recv ref p Hs Hok) as (tr & nx & E & I' & T & _).
  rewrite !run_split.
  set (s2 := run mid (fst (step o (run pre init)))).
  assert (I2 : Inv s2) by (apply run_inv, I').
  assert (T2 : Track (nid (run pre init)) a recv ref p tr s2) by (apply run_track, T).
  pose proof (step_removes _ _ _ _ _ _ c s2 I2 T2 R) as G.
  assert (Hnt : is_tick c = false) by (destruct R as [-> | [-> | [-> | ->]]]; reflexivity).
  pose proof (step_track _ _ _ _ _ _ c _ T2) as T3.
  destruct (run_gone _ post _ (step_inv c s2 I2) (tr_lt _ _ _ _ _ _ _ T3) G) as [_ Ef].
  rewrite Ef. apply step_fires_nontick. exact Hnt.
Qed.

Lemma thm_once_cancelled pre a recv ref d p mid c post :
  snd (step (OOnce a recv ref d p) (run pre init)) = ROk -> removes a ref c -> elapsed mid < d ->
  fires_of (nid (run pre init)) (run (pre ++ OOnce a recv ref d p :: mid ++ c :: post) init) = [].
Proof.
  intros Hok R Hel.
  rewrite (thm_cancel_stops pre (OOnce a recv ref d p) a recv ref p mid c post (or_introl (ex_intro _ d eq_refl)) Hok R).
  destruct (fires_of _ _) as [|f l] eqn:Ef; [reflexivity|exfalso].
  assert (Hin : In f (fires_of (nid (run pre init)) (run (pre ++ OOnce a recv ref d p :: mid) init))) by (rewrite Ef; left; reflexivity).
  pose proof (proj2 (thm_once_safety pre a recv ref d p mid Hok) f Hin) as Hge.
  apply In_fires_of in Hin as [Hin _]. apply (inv_fired _ (reach_inv _)) in Hin as [_ Hle].
  rewrite run_split, run_now, step_now in Hle. cbn [op_dt] in Hle. lia.
Qed.

Lemma thm_once_delivered pre a recv ref d p post1 dt post2 :
  snd (step (OOnce a recv ref d p) (run pre init)) = ROk ->
  no_stall post1 -> Forall (fun o => ~ removes a ref o) post1 ->
  d <= elapsed post1 + Z.max dt 0 ->
  exists f,
    fires_of (nid (run pre init)) (run (pre ++ OOnce a recv ref d p :: post1 ++ OTick dt :: post2) init) = [f] /\
    f_time f = now (run pre init) + d /\ f_payload f = p /\ f_recv f = recv /\ f_owner f = a /\ f_ref f = ref /\
    (recv ∉ dead (run (pre ++ OOnce a recv ref d p :: post1 ++ OTick dt :: post2) init) -> f_dead f = false).
Proof.
  intros Hok Hns Hto Hel.
  set (o := OOnce a recv ref d p) in *. set (x := nid (run pre init)). set (D := now (run pre init) + d).
  assert (Hs : is_sched o a recv ref p) by (left; exists d; reflexivity).
  destruct (after_sched pre o a recv ref p Hs Hok) as (tr & nx & E & I' & T & Hd & Hfree & K).
  apply once_kind in K as (-> & -> & Hd0).
  set (s1' := fst (step o (run pre init))) in *.
  assert (O : OnceInv x D s1') by (rewrite E; apply insert_once_inv; [apply reach_inv|exact Hfree]).
  assert (P : Pending x (job_key a ref) D s1').
  { eexists. split; [rewrite E; apply insert_tbl_lookup; [exact Hfree|right; split; reflexivity]|]. cbn. split; [reflexivity|].
    rewrite E. cbn. lia. }
  set (s2 := run post1 s1').
  assert (I2 : Inv s2) by (apply run_inv, I').
  assert (T2 : Track x a recv ref p TOnce s2) by (apply run_track, T).
  assert (O2 : OnceInv x D s2) by (eapply run_once_inv; eauto).
  assert (PD2 : Pending x (job_key a ref) D s2 \/ Done x D s2) by (eapply run_once_progress; eauto).
  assert (Hn2 : now s2 = now (run pre init) + elapsed post1).
  { unfold s2. rewrite run_now. unfold s1'. rewrite step_now. cbn [op_dt o]. lia. }
  assert (D3 : Done x D (fst (step (OTick dt) s2))).
  { destruct PD2 as [P2|D2].
    - eapply (proj2 (step_once_progress x a recv ref p D (OTick dt) s2 I2 T2 O2 eq_refl
               (fun H => match H with or_introl e | or_intror (or_introl e) | or_intror (or_intror (or_introl e)) | or_intror (or_intror (or_intror e)) => ltac:(discriminate e) end) P2)); [reflexivity|].
      unfold D. lia.
    - apply (done_stable x D [OTick dt] s2 I2 (tr_lt _ _ _ _ _ _ _ T2) D2). }
  pose proof (step_track _ _ _ _ _ _ (OTick dt) _ T2) as T3.
  pose proof (done_stable x D post2 _ (step_inv (OTick dt) s2 I2) (tr_lt _ _ _ _ _ _ _ T3) D3) as [_ (f & Ef & Ht)].
  assert (Efin : run (pre ++ o :: post1 ++ OTick dt :: post2) init = run post2 (fst (step (OTick dt) s2))).
  { rewrite run_split. fold s1'. rewrite run_app. reflexivity. }
  exists f. rewrite Efin. split; [exact Ef|]. split; [exact Ht|].
  assert (Hin : In f (fires_of x (run (pre ++ o :: post1 ++ OTick dt :: post2) init))) by (rewrite Efin, Ef; left; reflexivity).
  destruct (thm_payload pre o a recv ref p (post1 ++ OTick dt :: post2) f Hs Hok Hin) as (Ho & Hr & Hrf & Hp & Hdl).
  repeat (split; [assumption|]). intros Hnd. destruct (f_dead f); [|reflexivity]. exfalso. apply Hnd. rewrite <- Efin. apply Hdl. reflexivity.
Qed.

Lemma insert_loop_inv s a recv ref p i : Inv s -> tbl s !! job_key a ref = None -> 0 < i ->
  LoopInv (nid s) (now s) i (insert_job s a recv ref p (TLoop i) (now s + i)).
Proof.
  intros I Hfree Hi. exists 0%nat. rewrite insert_fires, fires_of_fresh by (auto; lia). split; [reflexivity|]. split; [cbn; lia|].
  intros k j H Hid. apply insert_tbl_lookup in H as [H|(_ & ->)]; [pose proof (inv_idlt _ I _ _ H); lia| |exact Hfree].
  cbn. lia.
Qed.

Lemma thm_loop_grid pre a recv ref i p post :
  snd (step (OLoop a recv ref i p) (run pre init)) = ROk -> no_stall post ->
  exists m : nat,
    map f_time (fires_of (nid (run pre init)) (run (pre ++ OLoop a recv ref i p :: post) init)) = grid (now (run pre init)) i m /\
    now (run pre init) + Z.of_nat m * i <= now (run (pre ++ OLoop a recv ref i p :: post) init).
Proof.
  intros Hok Hns.
  destruct (after_sched pre (OLoop a recv ref i p) a recv ref p (or_intror (or_introl (ex_intro _ i eq_refl))) Hok) as (tr & nx & E & I' & T & Hd & Hfree & K).
  apply loop_kind in K as (-> & -> & Hi).
  rewrite run_split.
  assert (L : LoopInv (nid (run pre init)) (now (run pre init)) i (fst (step (OLoop a recv ref i p) (run pre init)))).
  { rewrite E. apply insert_loop_inv; [apply reach_inv|exact Hfree|exact Hi]. }
  destruct (run_loop_inv _ _ _ _ _ _ _ post _ I' T Hi Hns L) as (m & Hf & Hle & _). exists m. auto.
Qed.

Lemma thm_loop_exact pre a recv ref i p post :
  snd (step (OLoop a recv ref i p) (run pre init)) = ROk ->
  no_stall post -> Forall (fun o => ~ removes a ref o) post ->
  map f_time (fires_of (nid (run pre init)) (run (pre ++ OLoop a recv ref i p :: post) init)) =
  grid (now (run pre init)) i
       (Z.to_nat ((now (run (pre ++ OLoop a recv ref i p :: post) init) - now (run pre init)) / i)).
Proof.
  intros Hok Hns Hto.
  destruct (after_sched pre (OLoop a recv ref i p) a recv ref p (or_intror (or_introl (ex_intro _ i eq_refl))) Hok) as (tr & nx & E & I' & T & Hd & Hfree & K).
  apply loop_kind in K as (-> & -> & Hi).
  rewrite run_split.
  assert (L : LoopInv (nid (run pre init)) (now (run pre init)) i (fst (step (OLoop a recv ref i p) (run pre init)))).
  { rewrite E. apply insert_loop_inv; [apply reach_inv|exact Hfree|exact Hi]. }
  assert (P : Present (nid (run pre init)) (job_key a ref) (fst (step (OLoop a recv ref i p) (run pre init)))).
  { eexists. split; [rewrite E; apply insert_tbl_lookup; [exact Hfree|right; split; reflexivity]|reflexivity]. }
  destruct (run_loop_inv _ _ _ _ _ _ _ post _ I' T Hi Hns L) as (m & Hf & Hle & Hjob).
  destruct (run_present _ _ _ _ _ _ post _ I' T Hi Hto P) as (j & Hj & Hid).
  destruct (Hjob _ _ Hj Hid) as [Hn Hlt]. rewrite Hn in Hlt.
  rewrite Hf. f_equal.
  set (nw := now (run post (fst (step (OLoop a recv ref i p) (run pre init))))) in *.
  set (t0 := now (run pre init)) in *.
  assert (Hq : Z.of_nat m = (nw - t0) / i).
  { apply (Z.div_unique_pos (nw - t0) i (Z.of_nat m) (nw - t0 - i * Z.of_nat m)); lia. }
  rewrite <- Hq. lia.
Qed.

(** a scheduling call that does not return nil changes nothing *)
Lemma thm_failed_call o a recv ref p s :
  is_sched o a recv ref p -> snd (step o s) <> ROk -> fst (step o s) = s.
Proof.
  intros Hs Hne. unfold step, if_alive in *.
  destruct Hs as [(d & ->) | [(i & ->) | ->]]; (destruct (is_dead s a); [reflexivity|]).
  - destruct (d <? 0); [reflexivity|].
    destruct (schedule_cases s a recv ref p TOnce (now s + d)) as [[E _]|(_ & _ & E)]; [exact E|rewrite E in Hne; contradiction].
  - destruct (i <=? 0); [reflexivity|].
    destruct (schedule_cases s a recv ref p (TLoop i) (now s + i)) as [[E _]|(_ & _ & E)]; [exact E|rewrite E in Hne; contradiction].
  - destruct (schedule_cases s a recv ref p TCron 0) as [[E _]|(_ & _ & E)]; [exact E|rewrite E in Hne; contradiction].
Qed.

(** a reference that is still queued cannot be scheduled again: quartz's error, nothing changes *)
Lemma thm_reuse_rejected o a recv ref p s j :
  is_sched o a recv ref p -> tbl s !! job_key a ref = Some j ->
  fst (step o s) = s /\ snd (step o s) <> ROk.
Proof.
  intros Hs Hj.
  assert (Hne : snd (step o s) <> ROk).
  { intros Hok. destruct (sched_ok o a recv ref p s Hs Hok) as (_ & _ & _ & _ & Hf & _). congruence. }
  split; [eapply thm_failed_call; eauto|exact Hne].
Qed.

Lemma thm_reuse_result s a recv ref d p j :
  is_dead s a = false -> 0 <= d -> ref <> [] -> tbl s !! job_key a ref = Some j ->
  step (OOnce a recv ref d p) s = (s, RExists).
Proof.
  intros Hd Hd0 Hr Hj. unfold step, if_alive. rewrite Hd. rewrite (proj2 (Z.ltb_ge d 0)) by lia.
  unfold schedule. destruct ref; [contradiction|]. rewrite Hj. reflexivity.
Qed.

Lemma thm_once_negative_rejected s a recv ref d p :
  is_dead s a = false -> d < 0 -> step (OOnce a recv ref d p) s = (s, RIllegalArg).
Proof. intros Hd Hneg. unfold step, if_alive. rewrite Hd. rewrite (proj2 (Z.ltb_lt d 0)) by lia. reflexivity. Qed.

Lemma thm_loop_nonpositive_rejected s a recv ref i p :
  is_dead s a = false -> i <= 0 -> step (OLoop a recv ref i p) s = (s, RIllegalArg).
Proof. intros Hd Hneg. unfold step, if_alive. rewrite Hd. rewrite (proj2 (Z.leb_le i 0)) by lia. reflexivity. Qed.

Lemma thm_cron_invalid s a recv ref p :
  is_dead s a = false -> step (OCron a recv ref false p) s = (s, RParseErr).
Proof. intros Hd. unfold step, if_alive. rewrite Hd. reflexivity. Qed.

Lemma thm_cancel_unknown s a ref :
  is_dead s a = false -> jk_of s a !! ref = None -> step (OCancel a ref) s = (s, RNotFound).
Proof. intros Hd Hn. unfold step, if_alive. rewrite Hd. unfold cancel. rewrite Hn. reflexivity. Qed.

Lemma thm_registered ops k j :
  tbl (run ops init) !! k = Some j ->
  k = job_key (j_owner j) (j_ref j) /\
  jk_of (run ops init) (j_owner j) !! j_ref j = Some k /\
  j_owner j ∉ dead (run ops init).
Proof.
  intros H. pose proof (reach_inv ops) as I.
  split; [exact (inv_key _ I _ _ H)|]. split; [exact (inv_own _ I _ _ H)|exact (inv_alive _ I _ _ H)].
Qed.

Lemma thm_loops_positive ops k j i : tbl (run ops init) !! k = Some j -> j_trig j = TLoop i -> 0 < i.
Proof. apply reach_pos. Qed.

Lemma thm_death ops (a : bytes) :
  a ∈ dead (run ops init) ->
  (forall k j, tbl (run ops init) !! k = Some j -> j_owner j <> a) /\ jk_of (run ops init) a = ∅.
Proof. apply dead_no_jobs, reach_inv. Qed.

Lemma thm_death_no_fire pre (a : bytes) post f :
  In f (fired (run (pre ++ ODied a :: post) init)) -> f_owner f = a -> In f (fired (run pre init)).
Proof.
  intros Hin Ho. rewrite run_split in Hin.
  apply (run_fired_dead_owner post a f _ (step_inv _ _ (reach_inv pre)) (died_is_dead _ a)) in Hin; [|exact Ho].
  rewrite step_fired in Hin. rewrite app_nil_r in Hin. exact Hin.
Qed.

Lemma thm_restart pre (a : bytes) :
  a ∉ dead (run pre init) ->
  (forall k j, tbl (run (pre ++ [ORestarted a]) init) !! k = Some j -> j_owner j <> a) /\
  jk_of (run (pre ++ [ORestarted a]) init) a = ∅.
Proof. intros Hd. rewrite run_split. cbn [run]. apply restarted_clears; [apply reach_inv|exact Hd]. Qed.
