(** Lemmas about Timer/SchedKey.v *)
From Coq Require Import List NArith.
From stdpp Require Import gmap.
From Vivid Require Import Timer.SchedModel Timer.SchedKey.
Import ListNotations.
Local Open Scope N_scope.

Lemma unique_key_nonempty a r : a <> [] -> unique_job_key a r = job_key a r.
Proof. destruct a; [congruence|reflexivity]. Qed.

Lemma unique_key_path a r : is_path a -> unique_job_key a r = job_key a r.
Proof. intros [x ->]. reflexivity. Qed.

Lemma unique_key_inj a1 r1 a2 r2 :
  a1 <> [] -> a2 <> [] -> unique_job_key a1 r1 = unique_job_key a2 r2 -> a1 = a2 /\ r1 = r2.
Proof.
  intros H1 H2. rewrite !unique_key_nonempty by assumption. unfold job_key. intros H. injection H as -> ->. auto.
Qed.

Lemma unique_key_inj_paths a1 r1 a2 r2 :
  is_path a1 -> is_path a2 -> unique_job_key a1 r1 = unique_job_key a2 r2 -> a1 = a2 /\ r1 = r2.
Proof. intros [x1 ->] [x2 ->]. apply unique_key_inj; discriminate. Qed.

Lemma unique_key_empty_group_collides r : unique_job_key [] r = unique_job_key default_group r /\ [] <> default_group.
Proof. split; [reflexivity|discriminate]. Qed.

(** the printed form is not injective (it is not what the queue compares) *)
Lemma key_string_collides :
  key_string ([47; 97], [58; 58; 98]) = key_string ([47; 97; 58; 58], [98]) /\
  ([47; 97], [58; 58; 98]) <> (([47; 97; 58; 58], [98]) : key).
Proof. split; [reflexivity|discriminate]. Qed.

Lemma key_eqb_spec k1 k2 : key_eqb k1 k2 = true <-> k1 = k2.
Proof. unfold key_eqb. apply bool_decide_eq_true. Qed.
