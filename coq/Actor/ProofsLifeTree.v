(** C06 invariants: Killed => no children; released is final (at most one cleanup per context);
    registry / children-map / generation bookkeeping. *)
From Coq Require Import List NArith ZArith Bool Lia.
From Vivid Require Import Base.Tm Actor.Core Actor.CoreRun Actor.SpecLife Actor.ProofsLife Actor.ProofsLifeInv Actor.ProofsLifeSum
  Actor.ProofsLifePhase Actor.ProofsLifeGen.
Import ListNotations.
Local Open Scope N_scope.
#[local] Strategy 100 [run_atomic FUEL].

(* ------------------------------------------------------------------ Killed => no children *)

Definition knc (a : aid) (x : actor) : Prop := a_state x = Killed -> a_children x = [].

Lemma get_functional s a x y : get s a = Some x -> get s a = Some y -> x = y.
Proof. congruence. Qed.

Lemma knc_exec s t h i s1 front x0 x1 :
  exec1 s t h i = (s1, front) -> get s (self_of t) = Some x0 -> get s1 (self_of t) = Some x1 ->
  knc (self_of t) x0 -> knc (self_of t) x1.
Proof.
  intros He Hg Hg1 HP. unfold knc in *.
  destruct (exec1_self _ _ _ _ _ _ _ He Hg) as (x' & Hg' & _ & _ & F1 & _ & _ & _ & _ & F6).
  rewrite Hg1 in Hg'. inversion Hg'; subst x'. clear Hg'.
  destruct (is_spawn i) eqn:Hsp.
  - destruct i as [| | | | | | | | |ac| | | | | | | | | | | |]; try discriminate Hsp. destruct ac; try discriminate Hsp.
    specialize (F1 eq_refl).
    destruct (a_state x0) eqn:Hst.
    3:{ rewrite (exec1_spawn_parent_dead s t h sp x0 Hg Hst) in He. inversion He; subst.
        change (get (add_obs s (OSpawn (self_of t) (sp_name sp) 1)) (self_of t)) with (get s (self_of t)) in Hg1.
        rewrite Hg in Hg1. inversion Hg1; subst. intros _. apply HP. reflexivity. }
    all: intros Hk; rewrite F1 in Hk; discriminate Hk.
  - destruct i; try (specialize (F1 eq_refl); specialize (F6 eq_refl eq_refl); rewrite F1, F6; exact HP); try discriminate Hsp.
    + (* IOnKilled *)
      specialize (F1 eq_refl). rewrite F1.
      destruct (a_zombie x0) eqn:Hz.
      { rewrite (exec1_IOnKilled_zombie _ _ _ _ who Hg Hz) in He. inversion He; subst. rewrite Hg in Hg1. inversion Hg1; subst. exact HP. }
      destruct (ref_eq s who (RObj (self_of t))) eqn:Hre.
      { assert (He' : exec1 s t h (IOnKilled who) = (s, [ICheckMark])) by (unfold exec1; rewrite Hg, Hz, Hre; reflexivity).
        rewrite He' in He. inversion He; subst. rewrite Hg in Hg1. inversion Hg1; subst. exact HP. }
      destruct (exec1_IOnKilled_other _ _ h _ who Hg Hz Hre) as (x' & He' & Hch & _).
      rewrite He' in He. inversion He; subst. rewrite (get_set_actor_same _ _ _ _ Hg) in Hg1. inversion Hg1; subst x'.
      intros Hk. specialize (HP Hk). destruct Hch as [->|(c & p & _ & _ & _ & ->)]; [exact HP|]. rewrite HP. reflexivity.
    + (* ICheckMark *)
      specialize (F6 eq_refl eq_refl). rewrite F6.
      destruct (a_children x0) eqn:Hch; [reflexivity|].
      rewrite (exec1_ICheckMark_noop _ _ h _ Hg) in He by (left; congruence).
      inversion He; subst. rewrite Hg in Hg1. inversion Hg1; subst. exact HP.
    + (* IRestartFinish *)
      specialize (F6 eq_refl eq_refl). rewrite F6.
      destruct (hooks_ok x0) eqn:Hok.
      * destruct (exec1_restart_finish_ok _ _ h _ Hg Hok) as (x' & He' & Hst' & _).
        rewrite He' in He. inversion He; subst. rewrite (get_set_actor_same _ _ _ _ Hg) in Hg1. inversion Hg1; subst x'.
        rewrite Hst'. discriminate.
      * destruct (exec1_restart_finish_fail _ _ h _ Hg Hok) as (x' & He' & _ & Hst' & _).
        rewrite He' in He. inversion He; subst. rewrite (get_set_actor_same _ _ _ _ Hg) in Hg1. inversion Hg1; subst x'.
        rewrite Hst'. exact HP.
Qed.

Lemma dispatch_state_children s a x e s1 ins y :
  get s a = Some x -> dispatch s a x e = (s1, ins) -> get s1 a = Some y ->
  a_children y = a_children x /\ a_zombie y = a_zombie x /\
  (a_state y = a_state x \/ (a_state x = Running /\ a_state y = Killing)).
Proof.
  intros Hg Hd Hy.
  destruct (dispatch_frame _ _ _ _ _ _ Hg Hd) as (y' & Hact & _ & _ & _ & _ & _ & _ & _ & _ & _ & _ & _ & _ & _ & _ & _ & _ & Hz & Hch & _).
  assert (Hy' : get s1 a = Some y') by (unfold get; rewrite Hact; apply (nth_error_upd_same _ _ _ _ Hg)).
  rewrite Hy in Hy'. inversion Hy'; subst y'. split; [exact Hch|]. split; [exact Hz|].
  clear Hact Hz Hch Hy'. unfold dispatch in Hd. unfold get in Hy, Hg.
  repeat (match type of Hd with
          | (_, _) = (_, _) => inversion Hd; subst s1 ins; clear Hd
          | context [match ?y with _ => _ end] => destruct y eqn:?
          end).
  all: cbn [actors add_ghost set_actor] in Hy.
  all: try rewrite (nth_error_upd_same _ _ _ _ Hg) in Hy; try rewrite Hg in Hy; inversion Hy; subst y; clear Hy.
  all: cbn; repeat (destr_match; cbn); try (left; congruence); try (right; split; congruence).
Qed.

Theorem killed_no_children s a x : reachable s -> get s a = Some x -> a_state x = Killed -> a_children x = [].
Proof.
  intros Hr. revert a x. apply (LQ_reachable knc); try exact Hr.
  - intros a x y Hv HP. unfold knc. destruct Hv as (_ & _ & _ & _ & -> & _ & _ & -> & _). exact HP.
  - intros a p n g pa sp _. unfold knc. reflexivity.
  - unfold knc. reflexivity.
  - intros s0 a x i rest h s1 front x1 _ _ _ HP Hg He Hg1.
    apply (knc_exec s0 (TA a) h i s1 front (upd_pend x rest) x1 He Hg Hg1). exact HP.
  - intros s0 k x i h s1 front x1 _ HP Hg He Hg1. apply (knc_exec s0 (TX k) h i s1 front x x1 He Hg Hg1 HP).
  - intros s0 a x e s1 ins y _ HP Hg Hd Hy. unfold knc in *.
    destruct (dispatch_state_children _ _ _ _ _ _ _ Hg Hd Hy) as (-> & _ & [->|[_ ->]]); [exact HP|discriminate].
Qed.

(* ------------------------------------------------------------------ released is final *)

(** HandleEnvelop of a Killed non-zombie context: dead letter, nothing else *)
Lemma dispatch_dead s a x e :
  a_state x = Killed -> a_zombie x = false ->
  dispatch s a x e =
    match a_parent x with
    | None => (add_ghost s (ODropped (e_msg e)), [IEndHandler])
    | Some _ => (s, [IEnqMb 0 {| e_sys := false; e_sender := root_ref; e_msg := MDeadLetter (e_sys e) (e_msg e) |}; IEnqDone; IEndHandler])
    end.
Proof. intros Hs Hz. unfold dispatch. rewrite Hs, Hz. reflexivity. Qed.

Definition rel (a : aid) (s : state) : Prop := exists x, get s a = Some x /\ released x.

Lemma released_lsame x y : lsame x y -> released x -> released y.
Proof.
  intros Hl (H1 & H2 & H3). destruct Hl as (_ & _ & _ & _ & Hs & Hz & _ & _ & _ & _ & _ & _ & _ & _ & _ & _ & Hp).
  unfold released. rewrite Hs, Hz, Hp. auto.
Qed.

Lemma nonsig_life i : sig i = false -> life_src i = false /\ is_unzombie i = false.
Proof. unfold sig. intros H. repeat (apply orb_false_elim in H as [H ?]). auto. Qed.

Lemma released_pop x i rest front y :
  released x -> a_pend x = i :: rest -> life_src i = false -> is_unzombie i = false ->
  (forall j, In j front -> life_src j = false) ->
  a_state y = a_state x -> a_zombie y = a_zombie x -> a_pend y = front ++ rest -> released y.
Proof.
  intros (H1 & H2 & H3) Hp Hl Hu Hf E1 E2 E3. unfold released. rewrite E1, E2, E3. rewrite Hp in H2, H3.
  cbn [forallb existsb] in H2, H3. rewrite Hl in H2. rewrite Hu in H3. cbn in H2, H3.
  split; [exact H1|]. split.
  - rewrite forallb_app. rewrite H2, andb_true_r. apply forallb_forall. intros j Hj.
    rewrite (Hf j Hj). reflexivity.
  - intros Hz. rewrite existsb_app. rewrite (H3 Hz). apply orb_true_r.
Qed.

Lemma rel_mb a s s' : mb_equiv s s' -> rel a s -> rel a s'.
Proof.
  intros (Hm & _) (x & Hg & Hr). specialize (Hm a). rewrite Hg in Hm. unfold rel.
  destruct (get s' a) as [y|]; [|contradiction]. exists y. split; [reflexivity|apply (released_lsame x y Hm Hr)].
Qed.

Lemma rel_pop a s t i rest front :
  SInv s -> rel a s -> pend_of s t = i :: rest -> sig i = false -> (forall j, In j front -> sig j = false) ->
  rel a (set_pend s t (front ++ rest)).
Proof.
  intros _ (x & Hg & Hr) Hp Hs Hf. destruct t as [b|k].
  - destruct (Nat.eq_dec b a) as [->|Hba].
    + exists (upd_pend x (front ++ rest)). split; [apply (get_set_pend_TA_same _ _ _ _ Hg)|].
      cbn [pend_of] in Hp. rewrite Hg in Hp.
      destruct (nonsig_life _ Hs) as [Hl Hu].
      apply (released_pop x i rest front _ Hr Hp Hl Hu); try reflexivity. intros j Hj. apply (nonsig_life _ (Hf j Hj)).
    + exists x. split; [rewrite get_set_pend_TA_other by exact Hba; exact Hg|exact Hr].
  - exists x. split; [rewrite get_set_pend_TX; exact Hg|exact Hr].
Qed.

Lemma rel_cons a s b x sq uq pa co cu :
  SInv s -> rel a s -> get s b = Some x -> is_busy (a_cons x) = false -> a_pend x = [] -> is_busy co = false ->
  cu = a_cur x -> rel a (set_actor s b (set_mb x sq uq pa co cu)).
Proof.
  intros _ (y & Hg & Hr) Hgb _ _ _ _. destruct (Nat.eq_dec b a) as [->|Hba].
  - rewrite Hg in Hgb. inversion Hgb; subst y. eexists. split; [apply (get_set_actor_same _ _ _ _ Hg)|]. exact Hr.
  - exists y. split; [rewrite get_set_actor_other by exact Hba; exact Hg|exact Hr].
Qed.

(** the context's own micro-step: a released context stays released and does not execute ICleanup;
    executing ICleanup makes it released *)
Lemma released_exec_self a s0 x i rest h s1 front x1 :
  INV a x -> a_pend x = i :: rest -> yielding i = false -> (forall sys to sender m, i <> IEnq sys to sender m) ->
  get s0 a = Some (upd_pend x rest) -> exec1 s0 (TA a) h i = (s1, front) -> get s1 a = Some x1 ->
  (released x -> i <> ICleanup /\ released (upd_pend x1 (front ++ rest))) /\
  (i = ICleanup -> released (upd_pend x1 (front ++ rest))).
Proof.
  intros HI Hpx Hy Hne Hg0 He Hg1.
  pose proof (INV_exec_self a s0 x i rest h s1 front x1 HI Hpx Hy Hne Hg0 He Hg1) as HI1.
  destruct (INV_head _ _ _ _ HI Hpx) as (Hz & Hb & Hel & Hph).
  change a with (self_of (TA a)) in Hg0, Hg1.
  split.
  - intros (R1 & R2 & R3). pose proof (conj R1 (conj R2 R3)) as HR. rewrite Hpx in R2, R3. cbn [forallb existsb] in R2, R3.
    apply andb_prop in R2 as [R2 R2']. apply negb_true_iff in R2.
    assert (Hgen : is_unzombie i = false -> is_end i = false -> is_obs_seen i = false ->
                   i <> ICleanup /\ released (upd_pend x1 (front ++ rest))).
    { intros U1 U2 U3.
      assert (Hgs : gen_sig i = false) by (destruct i; try reflexivity; discriminate R2).
      assert (C1 : chg_state i = false) by (destruct i; try reflexivity; discriminate R2).
      assert (C2 : chg_zombie i = false) by (destruct i; try reflexivity; try discriminate R2; discriminate U1).
      destruct (exec1_self _ _ _ _ _ _ _ He Hg0) as (x1' & Hg1' & Hc & _ & F1 & F2 & _).
      rewrite Hg1 in Hg1'. inversion Hg1'; subst x1'.
      split; [intros ->; discriminate R2|].
      apply (released_pop x i rest front); try assumption.
      * intros j Hj. apply (nonsig_life _ (exec1_front_plain _ _ _ _ _ _ Hgs He j Hj)).
      * cbn. rewrite (F1 C1). reflexivity.
      * cbn. rewrite (F2 C2). reflexivity.
      * reflexivity. }
    destruct i; try (apply Hgen; reflexivity); try discriminate Hy.
    + (* IUnzombie *)
      split; [discriminate|].
      rewrite (exec1_IUnzombie _ _ _ _ Hg0) in He. inversion He; subst s1 front; clear He.
      rewrite (get_set_actor_same _ _ _ _ Hg0) in Hg1. inversion Hg1; subst x1; clear Hg1.
      split; [exact R1|]. split; [exact R2'|]. cbn. discriminate.
    + (* IObs *)
      destruct o; try (apply Hgen; reflexivity). inversion Hph.
    + (* IEndHandler *)
      split; [discriminate|].
      pose proof (end_last_end _ _ Hel eq_refl) as Hr. subst rest.
      assert (He' : exec1 s0 (TA a) h IEndHandler =
                    (set_actor s0 a (set_mb (upd_pend x []) (a_sq x) (a_uq x) (a_paused x) C1 (a_cur x)), [])).
      { unfold exec1. rewrite Hg0. reflexivity. }
      rewrite He' in He. inversion He; subst s1 front; clear He.
      rewrite (get_set_actor_same _ _ _ _ Hg0) in Hg1. inversion Hg1; subst x1; clear Hg1.
      split; [exact R1|]. split; [reflexivity|]. cbn. intros Hzz. specialize (R3 Hzz). discriminate R3.
  - intros ->.
    pose proof (exec1_front_plain _ _ _ _ _ _ (eq_refl : gen_sig ICleanup = false) He) as Hfront.
    pose proof He as He2. rewrite (exec1_ICleanup _ _ _ _ Hg0) in He2.
    assert (Hs1 : actors s1 = actors s0) by (inversion He2; reflexivity). clear He2.
    unfold get in Hg1, Hg0. rewrite Hs1, Hg0 in Hg1. inversion Hg1; subst x1; clear Hg1.
    inversion Hph; subst.
    + (* PhCleanup *)
      split; [assumption|]. cbn [upd_pend a_pend a_zombie]. split.
      * rewrite forallb_app. apply andb_true_intro. split.
        -- apply forallb_forall. intros j Hj. destruct (nonsig_life _ (Hfront j Hj)) as [-> _]. reflexivity.
        -- apply forallb_forall. intros j Hj. destruct (life_src j) eqn:Hl; [|reflexivity].
           assert (Hin : In j (filter sig rest)) by (apply filter_In; split; [exact Hj|unfold sig; rewrite Hl; reflexivity]).
           match goal with H : [IEndHandler] = filter sig rest |- _ => rewrite <- H in Hin end.
           destruct Hin as [<-|[]]. discriminate Hl.
      * intros Hzz. congruence.
    + (* PhCleanupUnz *)
      split; [assumption|]. cbn [upd_pend a_pend a_zombie]. split.
      * rewrite forallb_app. apply andb_true_intro. split.
        -- apply forallb_forall. intros j Hj. destruct (nonsig_life _ (Hfront j Hj)) as [-> _]. reflexivity.
        -- apply forallb_forall. intros j Hj. destruct (life_src j) eqn:Hl; [|reflexivity].
           assert (Hin : In j (filter sig rest)) by (apply filter_In; split; [exact Hj|unfold sig; rewrite Hl; reflexivity]).
           match goal with H : [IUnzombie; IEndHandler] = filter sig rest |- _ => rewrite <- H in Hin end.
           destruct Hin as [<-|[<-|[]]]; discriminate Hl.
      * intros _. rewrite existsb_app. apply orb_true_intro. right.
        assert (Hin : In IUnzombie (filter sig rest)) by (match goal with H : [IUnzombie; IEndHandler] = filter sig rest |- _ => rewrite <- H; left; reflexivity end).
        apply filter_In in Hin as [Hin _]. apply existsb_exists. exists IUnzombie. split; [exact Hin|reflexivity].
Qed.

Lemma exec1_keeps s t h i s' front b y :
  exec1 s t h i = (s', front) -> b <> self_of t -> get s b = Some y -> get s' b = Some y.
Proof.
  intros He Hb Hy.
  destruct (get s (self_of t)) as [x|] eqn:Hg.
  2:{ unfold exec1 in He. rewrite Hg in He. inversion He; subst. exact Hy. }
  destruct (is_spawn i) eqn:Hsp.
  - destruct i as [| | | | | | | | |ac| | | | | | | | | | | |]; try discriminate Hsp. destruct ac; try discriminate Hsp.
    destruct (a_state x) eqn:Hst.
    3:{ rewrite (exec1_spawn_parent_dead s t h sp x Hg Hst) in He. inversion He; subst. exact Hy. }
    all: assert (Hnk : a_state x <> Killed) by congruence.
    all: destruct (sp_prelaunch sp) eqn:Hpl;
      [|rewrite (exec1_spawn_prelaunch_fail s t h sp x Hg Hnk Hpl) in He; inversion He; subst; exact Hy].
    all: destruct (alookup (reg s) (a_path x ++ [sp_name sp])) as [c|] eqn:Hr;
      [rewrite (exec1_spawn_exists s t h sp x c Hg Hnk Hpl Hr) in He; inversion He; subst; exact Hy|].
    all: destruct (exec1_spawn_ok s t h sp x s' front Hg Hnk Hpl Hr He) as (_ & _ & Hoth & _).
    all: rewrite (Hoth b Hb); [exact Hy|]; pose proof (get_lt _ _ _ Hy); lia.
  - destruct (exec1_summary s t h i s' front x Hsp He Hg) as (x' & Ha & _).
    unfold get in *. rewrite Ha. rewrite nth_error_upd_other by congruence. exact Hy.
Qed.

Lemma rel_astep a s t i rest :
  SInv s -> rel a s -> err s = false -> pend_of s t = i :: rest -> yielding i = false ->
  (forall sys to sender m, i <> IEnq sys to sender m) -> err (astep s t i rest) = false -> rel a (astep s t i rest).
Proof.
  intros [HA HX] (xa & Hga & Hra) He0 Hp Hy Hne He1. destruct t as [b|k].
  - destruct (pend_of_TA_cons _ _ _ _ Hp) as (x & Hg & Hpx).
    destruct (astep_TA s b i rest x Hg) as (s1 & front & x1 & He & Hg1 & Hp1 & Heq). rewrite Heq in *. clear Heq.
    assert (Hg0 : get (set_actor s b (upd_pend x rest)) b = Some (upd_pend x rest)) by apply (get_set_actor_same _ _ _ _ Hg).
    destruct (Nat.eq_dec b a) as [->|Hba].
    + rewrite Hga in Hg. inversion Hg; subst xa.
      exists (upd_pend x1 (front ++ rest)). split; [apply (get_set_actor_same _ _ _ _ Hg1)|].
      apply (proj1 (released_exec_self a _ x i rest [] s1 front x1 (HA a x Hga) Hpx Hy Hne Hg0 He Hg1) Hra).
    + exists xa. split; [|exact Hra]. rewrite get_set_actor_other by exact Hba.
      apply (exec1_keeps _ _ _ _ _ _ a xa He); [cbn; congruence|]. rewrite get_set_actor_other by exact Hba. exact Hga.
  - destruct (pend_of_TX_cons _ _ _ _ Hp) as (ex & Hn & Hpx).
    assert (Hs : sig i = false) by (apply (HX k ex Hn); rewrite Hpx; left; reflexivity).
    destruct (nonsig_chg _ Hs) as (Hgs & C1 & C2 & _).
    destruct (astep_TX s k i rest ex Hn) as (s1 & front & ex1 & He & Hn1 & Hp1 & Hoth & Heq). rewrite Heq in *. clear Heq.
    unfold rel. change (get (set_ext s1 k {| x_pend := front ++ rest; x_held := x_held ex1 |}) a) with (get s1 a).
    destruct (Nat.eq_dec a 0) as [->|Ha0].
    + assert (Hg0 : get (set_ext s k {| x_pend := rest; x_held := x_held ex |}) (self_of (TX k)) = Some xa) by exact Hga.
      destruct (exec1_self _ _ _ _ _ _ _ He Hg0) as (x1 & Hg1 & Hc & _ & F1 & F2 & _).
      exists x1. split; [exact Hg1|]. destruct Hra as (R1 & R2 & R3). unfold released.
      rewrite (F1 C1), (F2 C2). destruct Hc as (_ & _ & _ & _ & _ & _ & _ & _ & ->). auto.
    + exists xa. split; [|exact Hra]. apply (exec1_keeps _ _ _ _ _ _ a xa He); [cbn; exact Ha0|exact Hga].
Qed.

Lemma rel_handle a s b x e s1 ins :
  SInv s -> rel a s -> err s = false -> get s b = Some x -> a_cons x = CH e -> a_pend x = [] ->
  let x0 := set_mb x (a_sq x) (a_uq x) (a_paused x) (CBusy (mode_top x)) (a_cur x) in
  dispatch (set_actor s b x0) b x0 e = (s1, ins) ->
  rel a (set_pend s1 (TA b) ins).
Proof.
  intros _ (xa & Hga & Hra) _ Hg Hc Hpx x0 Hd.
  assert (Hg0 : get (set_actor s b x0) b = Some x0) by apply (get_set_actor_same _ _ _ _ Hg).
  destruct (Nat.eq_dec b a) as [->|Hba].
  - rewrite Hga in Hg. inversion Hg; subst xa. destruct Hra as (R1 & R2 & R3).
    assert (Hz : a_zombie x = false).
    { destruct (a_zombie x); [|reflexivity]. specialize (R3 eq_refl). rewrite Hpx in R3. discriminate R3. }
    rewrite (dispatch_dead _ a x0 e R1 Hz) in Hd.
    destruct (a_parent x0); inversion Hd; subst s1 ins; clear Hd.
    + exists (upd_pend x0 [IEnqMb 0 {| e_sys := false; e_sender := root_ref; e_msg := MDeadLetter (e_sys e) (e_msg e) |}; IEnqDone; IEndHandler]).
      split; [apply (get_set_pend_TA_same _ _ _ _ Hg0)|]. split; [exact R1|]. split; [reflexivity|]. cbn. rewrite Hz. discriminate.
    + exists (upd_pend x0 [IEndHandler]).
      split; [apply (get_set_pend_TA_same (add_ghost (set_actor s a x0) (ODropped (e_msg e))) _ _ _ Hg0)|].
      split; [exact R1|]. split; [reflexivity|]. cbn. rewrite Hz. discriminate.
  - destruct (dispatch_frame _ _ _ _ _ _ Hg0 Hd) as (y & Hact & _).
    exists xa. split; [|exact Hra]. rewrite get_set_pend_TA_other by exact Hba.
    unfold get. rewrite Hact. rewrite nth_error_upd_other by exact Hba.
    fold (get (set_actor s b x0) a). rewrite get_set_actor_other by exact Hba. exact Hga.
Qed.

(** a released context stays released *)
Theorem released_stable a s ev : SInv s -> rel a s -> err (step s ev) = false -> rel a (step s ev).
Proof.
  apply (Q_step (rel a) (rel_mb a) (rel_pop a) (rel_astep a)).
  - intros s0 b x sq uq pa co cu. apply rel_cons.
  - intros s0 b x e s1 ins. apply rel_handle.
Qed.

(* ------------------------------------------------------------------ at most one cleanup per context *)

Definition cnt (a : aid) (l : list (tid * instr)) : nat := length (filter (is_cleanup_of a) l).

Lemma run_atomic_tr_S f s t :
  run_atomic_tr (S f) s t =
  match pend_of s t with
  | [] => []
  | IEnq sys to sender m :: rest => []
  | i :: rest => if yielding i then [] else (t, i) :: run_atomic_tr f (astep s t i rest) t
  end.
Proof. reflexivity. Qed.

Lemma rel_run_atomic a f s t : SInv s -> rel a s -> err (run_atomic f s t) = false -> rel a (run_atomic f s t).
Proof.
  intros HI HQ He.
  refine (proj2 (SQ_run_atomic (rel a) (rel_mb a) (rel_pop a) (rel_astep a) f s t (conj HI HQ) He)).
Qed.

Lemma cnt_run_atomic a f s t :
  SInv s -> err (run_atomic f s t) = false ->
  (rel a s -> cnt a (run_atomic_tr f s t) = 0%nat) /\ (cnt a (run_atomic_tr f s t) <= 1)%nat /\
  (cnt a (run_atomic_tr f s t) = 1%nat -> rel a (run_atomic f s t)).
Proof.
  revert s. induction f as [|f IH]; intros s HI Herr; [discriminate Herr|].
  rewrite run_atomic_tr_S. rewrite run_atomic_S in *.
  assert (Htriv : (rel a s -> cnt a [] = 0%nat) /\ (cnt a [] <= 1)%nat /\ (cnt a [] = 1%nat -> rel a s))
    by (cbn; repeat split; [lia|discriminate]).
  destruct (pend_of s t) as [|i rest] eqn:Hp; [exact Htriv|].
  assert (Hgen : yielding i = false -> (forall sys to sender m, i <> IEnq sys to sender m) ->
                 err (run_atomic f (astep s t i rest) t) = false ->
                 (rel a s -> cnt a ((t, i) :: run_atomic_tr f (astep s t i rest) t) = 0%nat) /\
                 (cnt a ((t, i) :: run_atomic_tr f (astep s t i rest) t) <= 1)%nat /\
                 (cnt a ((t, i) :: run_atomic_tr f (astep s t i rest) t) = 1%nat -> rel a (run_atomic f (astep s t i rest) t))).
  { intros Hy Hne He. pose proof (err_false_run_atomic _ _ _ He) as He1. pose proof (err_false_astep _ _ _ _ He1) as He0.
    pose proof (SInv_astep s t i rest HI Hp Hy Hne) as HI1.
    destruct (IH _ HI1 He) as (IH1 & IH2 & IH3).
    unfold cnt in *. cbn [filter]. destruct (is_cleanup_of a (t, i)) eqn:Hc.
    - destruct t as [b|k]; [|discriminate Hc]. destruct i; try discriminate Hc. apply Nat.eqb_eq in Hc. subst b.
      destruct (pend_of_TA_cons _ _ _ _ Hp) as (x & Hg & Hpx).
      assert (Hnr : ~ rel a s).
      { intros (x' & Hg' & _ & R2 & _). rewrite Hg in Hg'. inversion Hg'; subst x'. rewrite Hpx in R2. discriminate R2. }
      assert (Hr1 : rel a (astep s (TA a) ICleanup rest)).
      { destruct (astep_TA s a ICleanup rest x Hg) as (s1 & front & x1 & Hex & Hg1 & Hp1 & ->).
        assert (Hg0 : get (set_actor s a (upd_pend x rest)) a = Some (upd_pend x rest)) by apply (get_set_actor_same _ _ _ _ Hg).
        exists (upd_pend x1 (front ++ rest)). split; [apply (get_set_actor_same _ _ _ _ Hg1)|].
        apply (proj2 (released_exec_self a _ x ICleanup rest [] s1 front x1 (proj1 HI a x Hg) Hpx Hy Hne Hg0 Hex Hg1) eq_refl). }
      specialize (IH1 Hr1). cbn [length]. rewrite IH1. split; [intros Hr; contradiction|]. split; [lia|].
      intros _. apply rel_run_atomic; assumption.
    - split; [intros Hr; apply IH1; apply rel_astep; assumption|]. split; assumption. }
  destruct i; try exact Htriv; try (apply Hgen; [reflexivity|intros; discriminate|exact Herr]).
  - cbn [cnt filter length]. repeat split; [lia|discriminate].
  - destruct remaining; [apply Hgen; [reflexivity|intros; discriminate|exact Herr]|exact Htriv].
Qed.

Lemma SInv_handle_pre s a x e s1 ins :
  SInv s -> get s a = Some x -> a_cons x = CH e ->
  let x0 := set_mb x (a_sq x) (a_uq x) (a_paused x) (CBusy (mode_top x)) (a_cur x) in
  dispatch (set_actor s a x0) a x0 e = (s1, ins) -> SInv (set_pend s1 (TA a) ins).
Proof.
  intros HI Hg Hc x0 Hd. pose proof (proj1 HI a x Hg) as HIx.
  assert (Hg0 : get (set_actor s a x0) a = Some x0) by apply (get_set_actor_same _ _ _ _ Hg).
  destruct (dispatch_frame _ _ _ _ _ _ Hg0 Hd) as (y & Hact & Hex & _ & _ & _ & _ & _ & _ & _ & _ & _ & _ & _ & _ & _ & _ & Hcons & _).
  assert (Hg1 : get s1 a = Some y) by (unfold get; rewrite Hact; apply (nth_error_upd_same _ _ _ _ Hg0)).
  assert (Hz0 : a_zombie x0 = true -> a_state x0 = Killed) by apply HIx.
  destruct (dispatch_phase a _ x0 e s1 ins y Hg0 Hz0 Hd Hg1) as (Hzy & Hel & Hph).
  split.
  - intros b z Hb. destruct (Nat.eq_dec a b) as [<-|Hab].
    + rewrite (get_set_pend_TA_same _ _ _ _ Hg1) in Hb. inversion Hb; subst z.
      apply mk_INV; unfold cur_not_own; cbn [upd_pend a_state a_zombie a_cur a_cons a_pend]; try assumption.
      rewrite Hcons. reflexivity.
    + rewrite get_set_pend_TA_other in Hb by exact Hab.
      unfold get in Hb. rewrite Hact in Hb. rewrite nth_error_upd_other in Hb by exact Hab.
      fold (get (set_actor s a x0) b) in Hb. rewrite get_set_actor_other in Hb by exact Hab. apply (proj1 HI b z Hb).
  - cbn [set_pend]. unfold with_actor. rewrite Hg1. unfold ext_plain. cbn [exts set_actor]. rewrite Hex. exact (proj2 HI).
Qed.

Lemma cnt_step a s ev :
  SInv s -> err (step s ev) = false ->
  (rel a s -> cnt a (step_tr s ev) = 0%nat) /\ (cnt a (step_tr s ev) <= 1)%nat /\
  (cnt a (step_tr s ev) = 1%nat -> rel a (step s ev)).
Proof.
  intros HI Herr. pose proof (err_false_step _ _ Herr) as He0.
  assert (Htriv : forall s', (rel a s -> cnt a [] = 0%nat) /\ (cnt a [] <= 1)%nat /\ (cnt a [] = 1%nat -> rel a s'))
    by (intros; cbn; repeat split; [lia|discriminate]).
  assert (Hpre : forall s' t, SInv s' -> (rel a s -> rel a s') -> err (run_atomic FUEL s' t) = false ->
                 (rel a s -> cnt a (run_atomic_tr FUEL s' t) = 0%nat) /\ (cnt a (run_atomic_tr FUEL s' t) <= 1)%nat /\
                 (cnt a (run_atomic_tr FUEL s' t) = 1%nat -> rel a (run_atomic FUEL s' t))).
  { intros s' t HI' Hrr He. destruct (cnt_run_atomic a FUEL s' t HI' He) as (H1 & H2 & H3). repeat split; auto. }
  destruct ev; cbn [step step_tr] in *; try apply Htriv.
  - (* EvHandle *)
    destruct (get s a0) as [x|] eqn:Hg; [|apply Htriv]. destruct (a_cons x) eqn:Hc; try apply Htriv.
    assert (Hpx : a_pend x = []) by (apply (INV_not_busy _ _ (proj1 HI a0 x Hg)); rewrite Hc; reflexivity).
    destruct (dispatch (set_actor s a0 (set_mb x (a_sq x) (a_uq x) (a_paused x) (CBusy (mode_top x)) (a_cur x))) a0
                (set_mb x (a_sq x) (a_uq x) (a_paused x) (CBusy (mode_top x)) (a_cur x)) e) as [s1 ins] eqn:Hd.
    apply Hpre; [apply (SInv_handle_pre s a0 x e s1 ins HI Hg Hc Hd)| |exact Herr].
    intros Hr. apply (rel_handle a s a0 x e s1 ins HI Hr He0 Hg Hc Hpx Hd).
  - (* EvEnqDone *)
    destruct (pend_of s t) as [|i rest] eqn:Hp; [apply Htriv|]. destruct i; try apply Htriv.
    apply Hpre; [apply (SInv_pop s t IEnqDone rest HI Hp eq_refl)| |exact Herr].
    intros Hr. apply (rel_pop a s t IEnqDone rest [] HI Hr Hp eq_refl). intros j [].
  - (* EvPauseSt *)
    destruct (pend_of s t) as [|i rest] eqn:Hp; [apply Htriv|]. destruct i; try apply Htriv.
    match goal with |- context [set_pend ?s1 t rest] => assert (Hm : mb_equiv s s1) by (apply mb_equiv_with_actor; intros; repeat split) end.
    apply Hpre; [apply (SInv_pop _ t IPauseSt rest (SInv_mb _ _ Hm HI)); [rewrite (pend_of_mb _ _ t Hm); exact Hp|reflexivity]| |exact Herr].
    intros Hr. apply (rel_pop a _ t IPauseSt rest [] (SInv_mb _ _ Hm HI) (rel_mb a _ _ Hm Hr)); [rewrite (pend_of_mb _ _ t Hm); exact Hp|reflexivity|intros j []].
  - (* EvResume1 *)
    destruct (pend_of s t) as [|i rest] eqn:Hp; [apply Htriv|]. destruct i; try apply Htriv.
    destruct (get s (self_of t)) as [x|] eqn:Hg; [|apply Htriv]. destruct (a_paused x); [apply Htriv|].
    apply Hpre; [apply (SInv_pop s t IResume1 rest HI Hp eq_refl)| |exact Herr].
    intros Hr. apply (rel_pop a s t IResume1 rest [] HI Hr Hp eq_refl). intros j [].
  - (* EvResume2 *)
    destruct (pend_of s t) as [|i rest] eqn:Hp; [apply Htriv|]. destruct i; try apply Htriv.
    apply Hpre; [apply (SInv_pop s t IResume2 rest HI Hp eq_refl)| |exact Herr].
    intros Hr. apply (rel_pop a s t IResume2 rest [] HI Hr Hp eq_refl). intros j [].
  - (* EvStart *)
    apply Hpre; [exact HI|auto|exact Herr].
Qed.

Lemma err_false_run_events evs s : err (run_events evs s) = false -> err s = false.
Proof.
  revert s. induction evs as [|ev evs IH]; intros s H; [exact H|].
  cbn [run_events fold_left] in H. apply IH in H. apply (err_false_step _ _ H).
Qed.

Lemma cnt_app a l1 l2 : cnt a (l1 ++ l2) = (cnt a l1 + cnt a l2)%nat.
Proof. unfold cnt. rewrite filter_app, app_length. reflexivity. Qed.

Lemma cnt_run a evs s :
  SInv s -> err (run_events evs s) = false ->
  (cnt a (run_tr evs s) <= 1)%nat /\ (rel a s -> cnt a (run_tr evs s) = 0%nat).
Proof.
  revert s. induction evs as [|ev evs IH]; intros s HI Herr; [cbn; split; [lia|reflexivity]|].
  cbn [run_tr]. change (run_events (ev :: evs) s) with (run_events evs (step s ev)) in Herr.
  pose proof (err_false_run_events _ _ Herr) as He1.
  destruct (cnt_step a s ev HI He1) as (E1 & E2 & E3).
  destruct (IH (step s ev) (SInv_step _ _ HI He1) Herr) as (I1 & I2).
  rewrite cnt_app. split.
  - destruct (Nat.eq_dec (cnt a (step_tr s ev)) 1) as [H1|H1]; [rewrite (I2 (E3 H1)); lia|lia].
  - intros Hr. rewrite (E1 Hr). rewrite I2; [reflexivity|]. apply released_stable; assumption.
Qed.

(** in every run, every context executes its cleanup (UnsubscribeAll, registry delete, OnKilled to watchers and
    parent, ActorKilledEvent) at most once *)
Theorem cleanup_at_most_once scs evs a :
  err (run_events evs (init_with scs)) = false ->
  (length (filter (is_cleanup_of a) (run_tr evs (init_with scs))) <= 1)%nat.
Proof. intros H. apply (proj1 (cnt_run a evs _ (SInv_init scs) H)). Qed.

(* ------------------------------------------------------------------ state changes per instruction *)

Lemma exec1_state_changes s t h i s' front x :
  exec1 s t h i = (s', front) -> get s (self_of t) = Some x ->
  exists x', get s' (self_of t) = Some x' /\
    (i <> ICheckMark -> i <> IRestartFinish -> a_state x' = a_state x) /\
    (i <> IUnzombie -> i <> IRestartFinish -> a_zombie x' = a_zombie x).
Proof.
  intros He Hg. destruct (exec1_self _ _ _ _ _ _ _ He Hg) as (x' & Hg' & _ & _ & F1 & F2 & _).
  exists x'. split; [exact Hg'|]. split.
  - intros N1 N2. apply F1. destruct i; try reflexivity; congruence.
  - intros N1 N2. apply F2. destruct i; try reflexivity; congruence.
Qed.

Lemma exec1_ICheckMark_cases s t h x :
  get s (self_of t) = Some x ->
  (a_children x = [] /\ a_state x = Killing /\
   exists x', fst (exec1 s t h ICheckMark) = set_actor s (self_of t) x' /\ a_state x' = Killed /\ a_children x' = []) \/
  ((a_children x <> [] \/ a_state x <> Killing) /\ exec1 s t h ICheckMark = (s, [])).
Proof.
  intros Hg. destruct (a_children x) eqn:Hc.
  - destruct (a_state x) eqn:Hs.
    + right. split; [right; discriminate|]. apply (exec1_ICheckMark_noop _ _ h _ Hg). right. congruence.
    + left. split; [reflexivity|]. split; [reflexivity|].
      destruct (exec1_ICheckMark_marks _ _ h _ Hg Hc Hs) as (x' & He & H1 & H2 & _). exists x'. rewrite He. auto.
    + right. split; [right; discriminate|]. apply (exec1_ICheckMark_noop _ _ h _ Hg). right. congruence.
  - right. split; [left; discriminate|]. apply (exec1_ICheckMark_noop _ _ h _ Hg). left. congruence.
Qed.
