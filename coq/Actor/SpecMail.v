(** Derived notions for C03 (no user message silently lost) and C09 (no survivor stays paused; queued mail
    survives restart) over the ActorCore model (Actor/Core.v).  Definitions only; proofs in Actor/ProofsMail*.v. *)
From Coq Require Import List NArith ZArith Bool.
From Vivid Require Import Actor.Core Actor.CoreRun.
Import ListNotations.

(** * reachability: any external scripts, any event list (= any schedule), model inside its domain *)
Definition init_with (scs : list (list action)) : state := set_exts (init_state (length scs)) 0 scs.
Definition reachable (s : state) : Prop := exists scs evs, s = run_events evs (init_with scs) /\ err s = false.

(** * envelopes an actor's mailbox holds *)
(** the envelope the consumer popped and has not yet given to HandleEnvelop *)
Definition held (x : actor) : list envelope := match a_cons x with CH e => [e] | _ => [] end.
(** system queue, user queue, in hand *)
Definition inbox (x : actor) : list envelope := a_sq x ++ a_uq x ++ held x.

(** the dead-letter report of an envelope (what deadLetterMailbox.Enqueue / HandleEnvelop's dead branch send to the guard) *)
Definition dead_env (e : envelope) : envelope :=
  {| e_sys := false; e_sender := root_ref; e_msg := MDeadLetter (e_sys e) (e_msg e) |}.

(** where an envelope addressed to resolved mailbox [m] lands, and as what *)
Definition landing (m : mbox) (e : envelope) : aid * envelope :=
  match m with MbActor a => (a, e) | MbRoot => (0, e) | MbDead => (0, dead_env e) end.

(** what the queue insertion [EvPush t choice] inserts in state [s], and where: [None] when the thread's next
    instruction is not an enqueue (the step then sets [err]) *)
Definition push_of (s : state) (t : tid) (choice : nat) : option (aid * envelope) :=
  match pend_of s t with
  | IEnqR sys mb sender m :: _ => Some (landing mb {| e_sys := sys; e_sender := sender; e_msg := m |})
  | IEnqMb a e :: _ => Some (a, e)
  | ISupPause _ _ rem _ :: _ =>
      match nth_error rem choice with
      | Some to => Some (landing (fst (resolve s to)) {| e_sys := true; e_sender := RObj (self_of t); e_msg := MCmdPause |})
      | None => None
      end
  | IEnqAny sys tos sender m :: _ =>
      match nth_error tos choice with
      | Some to => Some (landing (fst (resolve s to)) {| e_sys := sys; e_sender := sender; e_msg := m |})
      | None => None
      end
  | _ => None
  end.

(** the envelope [EvHandle a] gives to HandleEnvelop *)
Definition handle_of (s : state) (a : aid) : option envelope :=
  match get s a with
  | Some x => match a_cons x with CH e => Some e | _ => None end
  | None => None
  end.

(** * counting, for an arbitrary class [P] of messages (e.g. "the user message with tag 7") *)
Definition cnt_env (P : msg -> bool) (l : list envelope) : nat := length (filter (fun e => P (e_msg e)) l).
Fixpoint cnt_inbox (P : msg -> bool) (l : list actor) : nat :=
  match l with [] => 0 | x :: r => cnt_env P (inbox x) + cnt_inbox P r end.
(** envelopes of class P queued or in hand anywhere *)
Definition in_mail (P : msg -> bool) (s : state) : nat := cnt_inbox P (actors s).

Definition b2n (b : bool) : nat := if b then 1 else 0.
(** does event [ev] insert / hand over an envelope of class P in state [s] *)
Definition pushes1 (P : msg -> bool) (s : state) (ev : event) : nat :=
  match ev with
  | EvPush t c => match push_of s t c with Some (_, e) => b2n (P (e_msg e)) | None => 0 end
  | _ => 0
  end.
Definition handles1 (P : msg -> bool) (s : state) (ev : event) : nat :=
  match ev with
  | EvHandle a => match handle_of s a with Some e => b2n (P (e_msg e)) | None => 0 end
  | _ => 0
  end.
(** number of queue insertions / handler calls of class P along a run *)
Fixpoint pushes (P : msg -> bool) (evs : list event) (s : state) : nat :=
  match evs with [] => 0 | ev :: r => pushes1 P s ev + pushes P r (step s ev) end.
Fixpoint handles (P : msg -> bool) (evs : list event) (s : state) : nat :=
  match evs with [] => 0 | ev :: r => handles1 P s ev + handles P r (step s ev) end.

(** * the four outcomes of HandleEnvelop for a user message *)
Inductive outcome := OutProcessed | OutZombie | OutDeadLetter | OutDropped.
Definition is_kill_msg (m : msg) : bool := match m with MKill _ _ => true | _ => false end.
(** HandleEnvelop's "killingOrKilled" for envelope [e] *)
Definition is_dead (x : actor) (e : envelope) : bool :=
  match a_state x with Killed => true | Running => false | Killing => negb (e_sys e) && negb (is_kill_msg (e_msg e)) end.
Definition user_outcome (x : actor) (e : envelope) : outcome :=
  if a_zombie x then OutZombie
  else if is_dead x e then match a_parent x with Some _ => OutDeadLetter | None => OutDropped end
  else OutProcessed.

(** the actor record when HandleEnvelop starts (consumer inside the handler), and when a handler that sent
    nothing has returned with [cur] as the context's current envelope *)
Definition busy (x : actor) : actor := set_mb x (a_sq x) (a_uq x) (a_paused x) (CBusy (mode_top x)) (a_cur x).
Definition handled (x : actor) (cur : option envelope) : actor :=
  upd_pend (set_mb x (a_sq x) (a_uq x) (a_paused x) C1 cur) [].
(** the dead-letter report HandleEnvelop sends to the guard for [e] *)
Definition dead_report (e : envelope) : list instr := [IEnqMb 0 (dead_env e); IEnqDone; IEndHandler].

Definition count_obs (f : obs -> bool) (l : list obs) : nat := length (filter f l).
Definition is_dl_of (P : msg -> bool) (o : obs) : bool := match o with ODeadLetter _ m => P m | _ => false end.
Definition is_drop_of (P : msg -> bool) (o : obs) : bool := match o with ODropped m => P m | _ => false end.
Definition is_seen_of (P : msg -> bool) (o : obs) : bool := match o with OSeen _ _ _ m => P m | _ => false end.

(** message classes *)
Definition user_tag (tag : N) (m : msg) : bool := match m with MUser t _ => N.eqb t tag | _ => false end.
Definition is_user (m : msg) : bool := match m with MUser _ _ => true | _ => false end.
Definition dl_of (P : msg -> bool) (m : msg) : bool := match m with MDeadLetter _ inner => P inner | _ => false end.

(** * well-formedness of the pending instruction lists (an invariant of reachable states):
    an actor's handler list is empty, or the consumer is inside the handler and the list ends with the one
    [IEndHandler]; external callers only ever hold API-level instructions *)
Definition is_end (i : instr) : bool := match i with IEndHandler => true | _ => false end.
Definition no_end (l : list instr) : Prop := forallb (fun i => negb (is_end i)) l = true.
Definition pend_shape (x : actor) : Prop :=
  a_pend x = [] \/ exists md l, a_cons x = CBusy md /\ a_pend x = l ++ [IEndHandler] /\ no_end l.
Definition ext_instr (i : instr) : bool :=
  match i with
  | IAct _ | IEnq _ _ _ _ | IEnqR _ _ _ _ | IEnqMb _ _ | IEnqDone | IEnqAny _ _ _ _ | IPub _ _ | IObs _ => true
  | _ => false
  end.
Definition wf (s : state) : Prop :=
  Forall pend_shape (actors s) /\ Forall (fun ex => forallb ext_instr (x_pend ex) = true) (exts s).

(** * quiescence (C09): nothing pending anywhere, every consumer idle, nothing processable queued *)
Definition idle_actor (x : actor) : bool :=
  match a_pend x, a_cons x, a_sq x with
  | [], C0, [] => if a_paused x then true else match a_uq x with [] => true | _ => false end
  | _, _, _ => false
  end.
Definition quiescent (s : state) : bool :=
  forallb idle_actor (actors s) && forallb (fun ex => match x_pend ex with [] => true | _ => false end) (exts s).
Definition paused_survivor (x : actor) : bool :=
  match a_state x with Running => negb (a_zombie x) && a_paused x | _ => false end.

(** * a deterministic driver used by the Examples: run only the listed threads (an actor's thread = its
    consumer + its handler), always the first one that has something to do, until none has or the fuel ends *)
Definition next_of_instr (t : tid) (i : instr) : option event :=
  match i with
  | IEnqR _ _ _ _ | IEnqMb _ _ | IEnqAny _ _ _ _ | ISupPause _ _ (_ :: _) _ => Some (EvPush t 0)
  | IEnqDone => Some (EvEnqDone t)
  | IPauseSt => Some (EvPauseSt t)
  | IResume1 => Some (EvResume1 t)
  | IResume2 => Some (EvResume2 t)
  | _ => None
  end.
Definition next_event (s : state) (t : tid) : option event :=
  match t with
  | TX i =>
      match pend_of s t with
      | [] => None
      | ins :: _ => match next_of_instr t ins with Some ev => Some ev | None => Some (EvStart i) end
      end
  | TA a =>
      match get s a with
      | None => None
      | Some x =>
          match a_pend x with
          | ins :: _ => next_of_instr t ins
          | [] =>
              match a_cons x with
              | CH _ => Some (EvHandle a)
              | C1 => Some (EvSysPop a)
              | C2 => Some (EvLoadPaused a)
              | C3 => Some (EvUserPop a)
              | C0 => match a_sq x, a_uq x, a_paused x with
                      | _ :: _, _, _ => Some (EvSysPop a)
                      | [], _ :: _, false => Some (EvSysPop a)
                      | _, _, _ => None
                      end
              | CBusy _ => None
              end
          end
      end
  end.
Fixpoint first_event (s : state) (ts : list tid) : option event :=
  match ts with
  | [] => None
  | t :: r => match next_event s t with Some ev => Some ev | None => first_event s r end
  end.
(** returns the events chosen, in order *)
Fixpoint drive (fuel : nat) (ts : list tid) (s : state) : list event :=
  match fuel with
  | O => []
  | S f => match first_event s ts with
           | Some ev => ev :: drive f ts (step s ev)
           | None => []
           end
  end.
Definition all_tids (s : state) : list tid := map TX (seq 0 (length (exts s))) ++ map TA (seq 0 (length (actors s))).
(** run everything to quiescence (threads in index order, external callers first) *)
Fixpoint drive_all (fuel : nat) (s : state) : list event :=
  match fuel with
  | O => []
  | S f => match first_event s (all_tids s) with
           | Some ev => ev :: drive_all f (step s ev)
           | None => []
           end
  end.

(** * per-index views of the actor table (the default is the value of a record that does not exist yet) *)
Definition sq_at (s : state) (b : aid) : list envelope := match get s b with Some x => a_sq x | None => [] end.
Definition uq_at (s : state) (b : aid) : list envelope := match get s b with Some x => a_uq x | None => [] end.
Definition held_at (s : state) (b : aid) : list envelope := match get s b with Some x => held x | None => [] end.
Definition paused_at (s : state) (b : aid) : bool := match get s b with Some x => a_paused x | None => false end.
Definition cons_at (s : state) (b : aid) : cons := match get s b with Some x => a_cons x | None => C0 end.

(** the actor whose thread / consumer an event belongs to *)
Definition event_actor (ev : event) : aid :=
  match ev with
  | EvSysPop a | EvLoadPaused a | EvUserPop a | EvHandle a => a
  | EvPush t _ | EvEnqDone t | EvPauseSt t | EvResume1 t | EvResume2 t => self_of t
  | EvStart _ => 0
  end.

(** what an event appends to / removes from the head of actor [b]'s queues *)
Definition pushed_to (s : state) (ev : event) (b : aid) (sys : bool) : list envelope :=
  match ev with
  | EvPush t c => match push_of s t c with
                  | Some (tgt, e) => if Nat.eqb tgt b && Bool.eqb (e_sys e) sys then [e] else []
                  | None => []
                  end
  | _ => []
  end.
Definition popped_from (s : state) (ev : event) (b : aid) (sys : bool) : list envelope :=
  match ev, sys with
  | EvSysPop a, true =>
      if Nat.eqb a b then match get s a with
                          | Some x => match a_cons x, a_sq x with (C0 | C1), e :: _ => [e] | _, _ => [] end
                          | None => [] end
      else []
  | EvUserPop a, false =>
      if Nat.eqb a b then match get s a with
                          | Some x => match a_cons x, a_uq x with C3, e :: _ => [e] | _, _ => [] end
                          | None => [] end
      else []
  | _, _ => []
  end.
(** along a run *)
Fixpoint pushed_run (b : aid) (sys : bool) (evs : list event) (s : state) : list envelope :=
  match evs with [] => [] | ev :: r => pushed_to s ev b sys ++ pushed_run b sys r (step s ev) end.
Fixpoint popped_run (b : aid) (sys : bool) (evs : list event) (s : state) : list envelope :=
  match evs with [] => [] | ev :: r => popped_from s ev b sys ++ popped_run b sys r (step s ev) end.

(** the envelope an event takes out of the consumer's hands (gives to HandleEnvelop) *)
Definition handled_at (s : state) (ev : event) (b : aid) : list envelope :=
  match ev with
  | EvHandle a => if Nat.eqb a b then match handle_of s a with Some e => [e] | None => [] end else []
  | _ => []
  end.

(** the last Pause / Resume word of actor [b]'s own mailbox along an event list *)
Definition own_pause_word (ev : event) (b : aid) : option bool :=
  match ev with
  | EvPauseSt t => if Nat.eqb (self_of t) b then Some true else None
  | EvResume1 t => if Nat.eqb (self_of t) b then Some false else None
  | _ => None
  end.
Fixpoint last_pause_word (b : aid) (evs : list event) (acc : option bool) : option bool :=
  match evs with
  | [] => acc
  | ev :: r => last_pause_word b r (match own_pause_word ev b with Some v => Some v | None => acc end)
  end.

(** what HandleEnvelop itself records in the ghost log for envelope [e] at actor record [x] *)
Definition dispatch_ghost (x : actor) (e : envelope) : list obs :=
  if is_dead x e && negb (a_zombie x) then
    match a_parent x with None => [ODropped (e_msg e)] | Some _ => [] end
  else match e_msg e, a_parent x with
       | MDeadLetter sys m, None => [ODeadLetter sys m]
       | _, _ => []
       end.
Definition event_ghost (s : state) (ev : event) : list obs :=
  match ev with
  | EvHandle a => match get s a with
                  | Some x => match a_cons x with CH e => dispatch_ghost x e | _ => [] end
                  | None => []
                  end
  | _ => []
  end.
Fixpoint run_ghost (evs : list event) (s : state) : list obs :=
  match evs with [] => [] | ev :: r => event_ghost s ev ++ run_ghost r (step s ev) end.
Definition not_guard_closed (o : obs) : bool := match o with OGuardClosed => false | _ => true end.
