(** ActorCore: executable model of internal/actor (Context.HandleEnvelop and its handlers, ActorOf, tell /
    findMailbox with reference caches, supervision, kill / killed chain, restart, zombie, stash, behaviour
    stack, watch) + internal/guard + the event-stream tables, as the code is in /repo now.

    Granularity (= what the controlled scheduler can interleave in the real system): a thread (an actor's
    handler, or an external API caller) runs from one mailbox operation to the next.  The mailbox
    operations are: the queue insertion of an Enqueue ([EvPush]), the status CAS that ends an Enqueue
    ([EvEnqDone]), Pause's store and Resume's two CASes on a mailbox, and on the consumer side the
    system-queue pop, the paused load, the user-queue pop and the handler call.  Everything between two such
    operations (registry and stream-table operations, actor-local updates, user code) runs atomically with
    the operation that precedes it.  The mailbox handshake itself (status word, counters, goroutine
    start) is abstracted: it is the subject of C01/C02.

    User code is data: behaviours are action scripts carried by messages and actor specs, supervision
    decisions and hook outcomes are lists in the spec; theorems quantify over all of them. *)
From Coq Require Import List NArith ZArith Bool.
Import ListNotations.

Notation aid := nat.
Notation path := (list N).

Inductive astate := Running | Killing | Killed.
Inductive decision := DRestart | DGRestart | DStop | DGStop | DResume | DEscalate | DInvalid.

(** a Go *Ref value: the ref object owned by a Context (shared, with a mailbox cache), a freshly
    parsed / cloned ref (no cache, never shared), or nil *)
Inductive rref := RObj (a : aid) | RFresh (p : path) | RNone.

Inductive rexpr := XSelf | XParent | XSender | XChild (n : N) | XPath (p : path) | XHeld (i : nat) | XNil.

Inductive action :=
| ATell (r : rexpr) (tag : N) (acts : list action)
| ATellSelf (tag : N) (acts : list action)
| ASpawn (sp : spec)
| AKill (r : rexpr) (poison : bool)
| AStash
| AUnstash (n : option Z)
| APanic
| AWatch (r : rexpr)
| AUnwatch (r : rexpr)
| ASub (ty : N)
| AUnsub (ty : N)
| AUnsubAll
| APub (ty payload : N)
| ABecome (mode : N) (discard : bool)
| AUnbecome (discard : bool)
with spec :=
| Spec (name : N) (on_launch on_kill on_killed : list action)
       (strategy : N)                       (* 0 = none (system default), 1 = one-for-one, 2 = one-for-all *)
       (decisions : list decision)          (* consumed one per supervised failure; afterwards Stop *)
       (prelaunch_ok : bool)
       (hooks : list (bool * bool * bool))  (* per restart: OnPreRestart ok, OnRestarted ok, OnPrelaunch ok *)
       (provider : bool).

Definition sp_name (s : spec) := let 'Spec n _ _ _ _ _ _ _ _ := s in n.
Definition sp_launch (s : spec) := let 'Spec _ l _ _ _ _ _ _ _ := s in l.
Definition sp_kill (s : spec) := let 'Spec _ _ k _ _ _ _ _ _ := s in k.
Definition sp_killed (s : spec) := let 'Spec _ _ _ k _ _ _ _ _ := s in k.
Definition sp_strategy (s : spec) := let 'Spec _ _ _ _ st _ _ _ _ := s in st.
Definition sp_decisions (s : spec) := let 'Spec _ _ _ _ _ d _ _ _ := s in d.
Definition sp_prelaunch (s : spec) := let 'Spec _ _ _ _ _ _ p _ _ := s in p.
Definition sp_hooks (s : spec) := let 'Spec _ _ _ _ _ _ _ h _ := s in h.
Definition sp_provider (s : spec) := let 'Spec _ _ _ _ _ _ _ _ p := s in p.
Definition root_spec : spec := Spec 0 [] [] [] 0 [] true [] false.

Inductive supctx := SupCtx (child : rref) (targets : list rref) (sub : option supctx).

Inductive msg :=
| MLaunch
| MKill (killer : rref) (poison : bool)
| MKilled (who : rref)
| MSup (c : supctx)
| MCmdPause
| MCmdResume
| MRestart (poison : bool)
| MWatch
| MUnwatch
| MUser (tag : N) (acts : list action)
| MEvent (ty : N) (payload : list N)
| MDeadLetter (sys : bool) (inner : msg).

Record envelope := { e_sys : bool; e_sender : rref; e_msg : msg }.

(** event types of the runtime (user event types are >= 100) *)
Definition evDeathLetter : N := 1.
Definition evSpawned : N := 2.
Definition evLaunched : N := 3.
Definition evKilled : N := 4.
Definition evFailed : N := 5.
Definition evPaused : N := 6.
Definition evResumed : N := 7.
Definition evRestarting : N := 8.
Definition evRestarted : N := 9.
Definition evWatched : N := 10.
Definition evUnwatched : N := 11.

Inductive obs :=
| OSeen (who : aid) (inst mode : N) (m : msg)
| OSpawn (by_ : aid) (name : N) (result : N)      (* 0 ok, 1 parent dead, 2 prelaunch failed, 3 already exists *)
| OGuardClosed
| ODeadLetter (sys : bool) (m : msg)              (* ghost: the guard published a dead-letter event for this message *)
| ODropped (m : msg).                             (* ghost: undeliverable after the system stopped *)

Inductive mbox := MbActor (a : aid) | MbRoot | MbDead.

Inductive recov := RecFail | RecLog | RecKilled (who : rref).

Inductive instr :=
(* ---- yielding instructions: each waits for the matching event ---- *)
| IEnq (sys : bool) (to : rref) (sender : rref) (m : msg)
| IEnqR (sys : bool) (to : mbox) (sender : rref) (m : msg)        (* a tell whose target mailbox has been looked up (findMailbox runs before Enqueue) *)
| IEnqMb (to : aid) (e : envelope)
| IEnqDone
| IEnqAny (sys : bool) (tos : list rref) (sender : rref) (m : msg)
| ISupPause (c : supctx) (d : decision) (remaining done : list rref)   (* pause the targets, in the order the Go slice happens to have *)
| IPauseSt
| IResume1
| IResume2
(* ---- atomic instructions / macros ---- *)
| IAct (a : action)
| IBeh (m : msg) (acts : list action) (r : recov)
| IFailed
| IPub (ty : N) (payload : list N)
| IDoKill (poison : bool)
| IOnKilled (who : rref)
| ICheckMark
| ICleanup
| IRestartFinish
| IUnzombie
| ISupApply (c : supctx) (d : decision) (targets : list rref)
| IObs (o : obs)
| IEndHandler.

Inductive cons := C0 | C1 | C2 | C3 | CH (e : envelope)
  | CBusy (mode : N).   (* in a handler; [mode] = the behaviour HandleEnvelop peeked from the stack when it started *)

Record actor := {
  a_path : path; a_gen : N; a_parent : option aid; a_spec : spec;
  a_state : astate; a_zombie : bool; a_restarting : option bool;     (* Some poison *)
  a_children : list (path * aid);
  a_watchers : list (path * rref);
  a_stash : list envelope;
  a_modes : list N;
  a_inst : N;
  a_decisions : list decision;
  a_hooks : list (bool * bool * bool);
  a_cache : option aid;                 (* mailbox cache of this context's own ref object *)
  a_sq : list envelope; a_uq : list envelope; a_paused : bool;
  a_cons : cons;
  a_cur : option envelope;
  a_pend : list instr;
}.

Record ext := { x_pend : list instr; x_held : list aid }.

Record state := {
  actors : list actor;
  reg : list (path * aid);
  gens : list (path * N);
  subs : list (N * list (path * aid));          (* event type -> subscriber path -> context *)
  exts : list ext;
  olog : list obs;                              (* what user code / API callers can see, in order *)
  ghost : list obs;                             (* runtime-internal facts used by the statements (dead letters, drops) *)
  err : bool;                                   (* the model was driven outside its domain (fuel, bad event) *)
}.

Inductive tid := TA (a : aid) | TX (i : nat).

(* ------------------------------------------------------------------ helpers *)

Fixpoint upd {A} (l : list A) (i : nat) (x : A) : list A :=
  match l, i with
  | [], _ => []
  | _ :: r, O => x :: r
  | y :: r, S i' => y :: upd r i' x
  end.

Fixpoint path_eqb (p q : path) : bool :=
  match p, q with
  | [], [] => true
  | x :: p', y :: q' => N.eqb x y && path_eqb p' q'
  | _, _ => false
  end.

Fixpoint alookup {A} (l : list (path * A)) (p : path) : option A :=
  match l with
  | [] => None
  | (q, v) :: r => if path_eqb p q then Some v else alookup r p
  end.
Fixpoint aremove {A} (l : list (path * A)) (p : path) : list (path * A) :=
  match l with
  | [] => []
  | (q, v) :: r => if path_eqb p q then aremove r p else (q, v) :: aremove r p
  end.
Definition aset {A} (l : list (path * A)) (p : path) (v : A) : list (path * A) := aremove l p ++ [(p, v)].

Fixpoint nlookup {A} (l : list (N * A)) (k : N) : option A :=
  match l with
  | [] => None
  | (q, v) :: r => if N.eqb k q then Some v else nlookup r k
  end.
Fixpoint nremove {A} (l : list (N * A)) (k : N) : list (N * A) :=
  match l with
  | [] => []
  | (q, v) :: r => if N.eqb k q then nremove r k else (q, v) :: nremove r k
  end.
Definition nset {A} (l : list (N * A)) (k : N) (v : A) : list (N * A) := nremove l k ++ [(k, v)].

Definition get (s : state) (a : aid) : option actor := nth_error (actors s) a.

Definition set_actor (s : state) (a : aid) (x : actor) : state :=
  {| actors := upd (actors s) a x; reg := reg s; gens := gens s; subs := subs s; exts := exts s; olog := olog s; ghost := ghost s; err := err s |}.
Definition set_reg (s : state) (r : list (path * aid)) : state :=
  {| actors := actors s; reg := r; gens := gens s; subs := subs s; exts := exts s; olog := olog s; ghost := ghost s; err := err s |}.
Definition set_subs (s : state) (r : list (N * list (path * aid))) : state :=
  {| actors := actors s; reg := reg s; gens := gens s; subs := r; exts := exts s; olog := olog s; ghost := ghost s; err := err s |}.
Definition add_obs (s : state) (o : obs) : state :=
  {| actors := actors s; reg := reg s; gens := gens s; subs := subs s; exts := exts s; olog := olog s ++ [o]; ghost := ghost s; err := err s |}.
Definition add_ghost (s : state) (o : obs) : state :=
  {| actors := actors s; reg := reg s; gens := gens s; subs := subs s; exts := exts s; olog := olog s; ghost := ghost s ++ [o]; err := err s |}.
Definition set_err (s : state) : state :=
  {| actors := actors s; reg := reg s; gens := gens s; subs := subs s; exts := exts s; olog := olog s; ghost := ghost s; err := true |}.
Definition set_ext (s : state) (i : nat) (x : ext) : state :=
  {| actors := actors s; reg := reg s; gens := gens s; subs := subs s; exts := upd (exts s) i x; olog := olog s; ghost := ghost s; err := err s |}.

(** functional update of an actor record *)
Definition with_actor (s : state) (a : aid) (f : actor -> actor) : state :=
  match get s a with Some x => set_actor s a (f x) | None => set_err s end.

Definition upd_pend (x : actor) (p : list instr) : actor :=
  {| a_path := a_path x; a_gen := a_gen x; a_parent := a_parent x; a_spec := a_spec x; a_state := a_state x; a_zombie := a_zombie x;
     a_restarting := a_restarting x; a_children := a_children x; a_watchers := a_watchers x; a_stash := a_stash x; a_modes := a_modes x;
     a_inst := a_inst x; a_decisions := a_decisions x; a_hooks := a_hooks x; a_cache := a_cache x; a_sq := a_sq x; a_uq := a_uq x;
     a_paused := a_paused x; a_cons := a_cons x; a_cur := a_cur x; a_pend := p |}.

Definition self_of (t : tid) : aid := match t with TA a => a | TX _ => 0 end.

Definition pend_of (s : state) (t : tid) : list instr :=
  match t with
  | TA a => match get s a with Some x => a_pend x | None => [] end
  | TX i => match nth_error (exts s) i with Some x => x_pend x | None => [] end
  end.
Definition set_pend (s : state) (t : tid) (p : list instr) : state :=
  match t with
  | TA a => with_actor s a (fun x => upd_pend x p)
  | TX i => match nth_error (exts s) i with
            | Some x => set_ext s i {| x_pend := p; x_held := x_held x |}
            | None => set_err s
            end
  end.

Definition ref_path (s : state) (r : rref) : option path :=
  match r with
  | RObj a => match get s a with Some x => Some (a_path x) | None => None end
  | RFresh p => Some p
  | RNone => None
  end.

Definition ref_eq (s : state) (r1 r2 : rref) : bool :=
  match ref_path s r1, ref_path s r2 with
  | Some p, Some q => path_eqb p q
  | _, _ => false
  end.

(** System.findMailbox: where an envelope addressed through [r] lands.  The cache of a context's ref object
    is filled on the first registry hit and never changes afterwards. *)

Definition resolve (s : state) (r : rref) : mbox * state :=
  match r with
  | RNone => (MbRoot, s)
  | RFresh p =>
      match alookup (reg s) p with
      | Some y => (MbActor y, s)
      | None => if path_eqb p [] then (MbRoot, s) else (MbDead, s)
      end
  | RObj a =>
      match get s a with
      | None => (MbDead, set_err s)
      | Some x =>
          match a_cache x with
          | Some y => (MbActor y, s)
          | None =>
              match alookup (reg s) (a_path x) with
              | Some y =>
                  (MbActor y,
                   set_actor s a {| a_path := a_path x; a_gen := a_gen x; a_parent := a_parent x; a_spec := a_spec x; a_state := a_state x;
                                    a_zombie := a_zombie x; a_restarting := a_restarting x; a_children := a_children x; a_watchers := a_watchers x;
                                    a_stash := a_stash x; a_modes := a_modes x; a_inst := a_inst x; a_decisions := a_decisions x; a_hooks := a_hooks x;
                                    a_cache := Some y; a_sq := a_sq x; a_uq := a_uq x; a_paused := a_paused x; a_cons := a_cons x; a_cur := a_cur x;
                                    a_pend := a_pend x |})
              | None => if path_eqb (a_path x) [] then (MbRoot, s) else (MbDead, s)
              end
          end
      end
  end.

(** queue insertion into actor [a]'s mailbox *)
Definition push_mb (s : state) (a : aid) (e : envelope) : state :=
  with_actor s a (fun x =>
    {| a_path := a_path x; a_gen := a_gen x; a_parent := a_parent x; a_spec := a_spec x; a_state := a_state x; a_zombie := a_zombie x;
       a_restarting := a_restarting x; a_children := a_children x; a_watchers := a_watchers x; a_stash := a_stash x; a_modes := a_modes x;
       a_inst := a_inst x; a_decisions := a_decisions x; a_hooks := a_hooks x; a_cache := a_cache x;
       a_sq := if e_sys e then a_sq x ++ [e] else a_sq x;
       a_uq := if e_sys e then a_uq x else a_uq x ++ [e];
       a_paused := a_paused x; a_cons := a_cons x; a_cur := a_cur x; a_pend := a_pend x |}).

Definition root_ref : rref := RObj 0.

(** deliver envelope [e] to resolved mailbox [m]: an unknown local target is reported to the root as a dead letter *)
Definition deliver (s : state) (m : mbox) (e : envelope) : state * aid :=
  match m with
  | MbActor a => (push_mb s a e, a)
  | MbRoot => (push_mb s 0 e, 0)
  | MbDead => (push_mb s 0 {| e_sys := false; e_sender := root_ref; e_msg := MDeadLetter (e_sys e) (e_msg e) |}, 0)
  end.

Definition subscribers (s : state) (ty : N) : list (path * aid) :=
  match nlookup (subs s) ty with Some l => l | None => [] end.

(** eventStream.UnsubscribeAll: the path is removed from every type it is subscribed to; a type whose
    subscriber map becomes empty is deleted (types it was not subscribed to are left alone) *)
Fixpoint unsub_all (l : list (N * list (path * aid))) (p : path) : list (N * list (path * aid)) :=
  match l with
  | [] => []
  | (ty, m) :: r =>
      match alookup m p with
      | Some _ => match aremove m p with [] => unsub_all r p | m' => (ty, m') :: unsub_all r p end
      | None => (ty, m) :: unsub_all r p
      end
  end.

Definition eval_ref (s : state) (self : aid) (held : list aid) (r : rexpr) : rref :=
  match r with
  | XSelf => RObj self
  | XParent => match get s self with
               | Some x => match a_parent x with Some p => RObj p | None => RNone end
               | None => RNone
               end
  | XSender => match get s self with
               | Some x => match a_cur x with Some e => e_sender e | None => RNone end
               | None => RNone
               end
  | XChild n => match get s self with
                | Some x => match alookup (a_children x) (a_path x ++ [n]) with Some c => RObj c | None => RFresh (a_path x ++ [n]) end
                | None => RNone
                end
  | XPath p => RFresh p
  | XHeld i => match nth_error held i with Some a => RObj a | None => RNone end
  | XNil => RNone
  end.

Fixpoint take_until_panic (acts : list action) : list action * bool :=
  match acts with
  | [] => ([], false)
  | APanic :: _ => ([], true)
  | a :: r => let (p, b) := take_until_panic r in (a :: p, b)
  end.

Definition mode_top (x : actor) : N := match a_modes x with [] => 0%N | m :: _ => m end.

(** the actions the (scripted) user behaviour performs for message [m] *)
Definition beh_actions (x : actor) (m : msg) : list action :=
  match m with
  | MLaunch => sp_launch (a_spec x)
  | MKill _ _ => sp_kill (a_spec x)
  | MKilled _ => sp_killed (a_spec x)
  | MUser _ acts => acts
  | _ => []
  end.

Definition actor_key (x : actor) : list N := a_path x ++ [a_gen x].

(* ------------------------------------------------------------------ actor-local field updates *)

Definition upd_local (x : actor) (st : astate) (zo : bool) (rs : option bool) (ch : list (path * aid)) (wa : list (path * rref))
           (sta : list envelope) (mo : list N) (ins : N) (de : list decision) (ho : list (bool * bool * bool)) : actor :=
  {| a_path := a_path x; a_gen := a_gen x; a_parent := a_parent x; a_spec := a_spec x; a_state := st; a_zombie := zo;
     a_restarting := rs; a_children := ch; a_watchers := wa; a_stash := sta; a_modes := mo; a_inst := ins; a_decisions := de; a_hooks := ho;
     a_cache := a_cache x; a_sq := a_sq x; a_uq := a_uq x; a_paused := a_paused x; a_cons := a_cons x; a_cur := a_cur x; a_pend := a_pend x |}.

Definition set_state (x : actor) (st : astate) := upd_local x st (a_zombie x) (a_restarting x) (a_children x) (a_watchers x) (a_stash x) (a_modes x) (a_inst x) (a_decisions x) (a_hooks x).
Definition set_zombie (x : actor) (z : bool) := upd_local x (a_state x) z (a_restarting x) (a_children x) (a_watchers x) (a_stash x) (a_modes x) (a_inst x) (a_decisions x) (a_hooks x).
Definition set_restarting (x : actor) (r : option bool) := upd_local x (a_state x) (a_zombie x) r (a_children x) (a_watchers x) (a_stash x) (a_modes x) (a_inst x) (a_decisions x) (a_hooks x).
Definition set_children (x : actor) (c : list (path * aid)) := upd_local x (a_state x) (a_zombie x) (a_restarting x) c (a_watchers x) (a_stash x) (a_modes x) (a_inst x) (a_decisions x) (a_hooks x).
Definition set_watchers (x : actor) (w : list (path * rref)) := upd_local x (a_state x) (a_zombie x) (a_restarting x) (a_children x) w (a_stash x) (a_modes x) (a_inst x) (a_decisions x) (a_hooks x).
Definition set_stash (x : actor) (st : list envelope) := upd_local x (a_state x) (a_zombie x) (a_restarting x) (a_children x) (a_watchers x) st (a_modes x) (a_inst x) (a_decisions x) (a_hooks x).
Definition set_modes (x : actor) (m : list N) := upd_local x (a_state x) (a_zombie x) (a_restarting x) (a_children x) (a_watchers x) (a_stash x) m (a_inst x) (a_decisions x) (a_hooks x).
Definition set_inst (x : actor) (i : N) := upd_local x (a_state x) (a_zombie x) (a_restarting x) (a_children x) (a_watchers x) (a_stash x) (a_modes x) i (a_decisions x) (a_hooks x).
Definition set_decisions (x : actor) (d : list decision) := upd_local x (a_state x) (a_zombie x) (a_restarting x) (a_children x) (a_watchers x) (a_stash x) (a_modes x) (a_inst x) d (a_hooks x).
Definition set_hooks (x : actor) (h : list (bool * bool * bool)) := upd_local x (a_state x) (a_zombie x) (a_restarting x) (a_children x) (a_watchers x) (a_stash x) (a_modes x) (a_inst x) (a_decisions x) h.

Definition set_mb (x : actor) (sq uq : list envelope) (pa : bool) (co : cons) (cu : option envelope) : actor :=
  {| a_path := a_path x; a_gen := a_gen x; a_parent := a_parent x; a_spec := a_spec x; a_state := a_state x; a_zombie := a_zombie x;
     a_restarting := a_restarting x; a_children := a_children x; a_watchers := a_watchers x; a_stash := a_stash x; a_modes := a_modes x;
     a_inst := a_inst x; a_decisions := a_decisions x; a_hooks := a_hooks x; a_cache := a_cache x; a_sq := sq; a_uq := uq; a_paused := pa;
     a_cons := co; a_cur := cu; a_pend := a_pend x |}.

Definition new_actor (p : path) (g : N) (parent : option aid) (sp : spec) : actor :=
  {| a_path := p; a_gen := g; a_parent := parent; a_spec := sp; a_state := Running; a_zombie := false; a_restarting := None;
     a_children := []; a_watchers := []; a_stash := []; a_modes := [0%N]; a_inst := 0%N; a_decisions := sp_decisions sp; a_hooks := sp_hooks sp;
     a_cache := None; a_sq := []; a_uq := []; a_paused := false; a_cons := C0; a_cur := None; a_pend := [] |}.

Definition init_state (n_ext : nat) : state :=
  {| actors := [new_actor [] 0%N None root_spec]; reg := []; gens := []; subs := [];
     exts := repeat {| x_pend := []; x_held := [] |} n_ext; olog := []; ghost := []; err := false |}.

Definition rref_parent (x : actor) : rref := match a_parent x with Some p => RObj p | None => RNone end.

Definition is_graceful (d : decision) : bool := match d with DGRestart | DGStop => true | _ => false end.

Fixpoint chain_targets (c : supctx) : list rref :=
  match c with SupCtx _ ts sub => ts ++ match sub with Some c' => chain_targets c' | None => [] end end.

(* ------------------------------------------------------------------ one atomic instruction *)

(** [exec1 s t i] executes the non-yielding instruction [i] of thread [t]: returns the new state and the
    instructions to put in front of the thread's remaining list. *)
Definition exec1 (s : state) (t : tid) (held : list aid) (i : instr) : state * list instr :=
  let self := self_of t in
  match get s self with
  | None => (set_err s, [])
  | Some x =>
    match i with
    | IAct a =>
        match a with
        | ATell r tag acts => (s, [IEnq false (eval_ref s self held r) (RObj self) (MUser tag acts); IEnqDone])
        | ATellSelf tag acts => (s, [IEnqMb self {| e_sys := false; e_sender := RObj self; e_msg := MUser tag acts |}; IEnqDone])
        | AKill r poison => (s, [IEnq (negb poison) (eval_ref s self held r) (RObj self) (MKill (RObj self) poison); IEnqDone])
        | AWatch r => (s, [IEnq true (eval_ref s self held r) (RObj self) MWatch; IEnqDone])
        | AUnwatch r => (s, [IEnq true (eval_ref s self held r) (RObj self) MUnwatch; IEnqDone])
        | AStash =>
            match a_cur x with
            | Some e => (set_actor s self (set_stash x (a_stash x ++ [e])), [])
            | None => (set_err s, [])
            end
        | AUnstash None =>
            match a_stash x with
            | [] => (s, [])
            | e :: r => (set_actor s self (set_stash x r), [IEnqMb self e; IEnqDone])
            end
        | AUnstash (Some n) =>
            let len := Z.of_nat (length (a_stash x)) in
            let k := Z.to_nat (Z.max (Z.min n len) 0) in
            if Nat.eqb (length (a_stash x)) 0 then (s, []) else
            (set_actor s self (set_stash x (skipn k (a_stash x))),
             flat_map (fun e => [IEnqMb self e; IEnqDone]) (firstn k (a_stash x)))
        | APanic => (s, [])     (* handled by IBeh *)
        | ASub ty =>
            let l := subscribers s ty in
            match alookup l (a_path x) with
            | Some _ => (s, [])
            | None => (set_subs s (nset (subs s) ty (l ++ [(a_path x, self)])), [])
            end
        | AUnsub ty =>
            match nlookup (subs s) ty with
            | None => (s, [])
            | Some l => (set_subs s (nset (subs s) ty (aremove l (a_path x))), [])
            end
        | AUnsubAll => (set_subs s (unsub_all (subs s) (a_path x)), [])
        | APub ty payload => (s, [IPub ty [payload]])
        | ABecome m discard => (set_actor s self (set_modes x (m :: (if discard then [] else a_modes x))), [])
        | AUnbecome discard =>
            let ms := if discard then [] else tl (a_modes x) in
            (set_actor s self (set_modes x (match ms with [] => [0%N] | _ => ms end)), [])
        | ASpawn sp =>
            (* Context.ActorOf *)
            match a_state x with
            | Killed => (add_obs s (OSpawn self (sp_name sp) 1), [])
            | st =>
                if negb (sp_prelaunch sp) then (add_obs s (OSpawn self (sp_name sp) 2), []) else
                let p := a_path x ++ [sp_name sp] in
                match alookup (reg s) p with
                | Some _ => (add_obs s (OSpawn self (sp_name sp) 3), [])
                | None =>
                    let g := match alookup (gens s) p with Some g => g | None => 0%N end in
                    let c := length (actors s) in
                    let s1 := {| actors := actors s ++ [new_actor p g (Some self) sp]; reg := reg s ++ [(p, c)];
                                 gens := aset (gens s) p (g + 1)%N; subs := subs s;
                                 exts := match t with
                                         | TX i => match nth_error (exts s) i with
                                                   | Some ex => upd (exts s) i {| x_pend := x_pend ex; x_held := x_held ex ++ [c] |}
                                                   | None => exts s
                                                   end
                                         | TA _ => exts s
                                         end;
                                 olog := olog s; ghost := ghost s; err := err s |} in
                    let s2 := with_actor s1 self (fun x1 => set_children x1 (aset (a_children x1) p c)) in
                    (s2, [IEnq true (RObj c) (RObj self) MLaunch; IEnqDone; IPub evSpawned (p ++ [g])]
                         ++ match st with Killing => [IEnq true (RObj c) (RObj self) (MKill (RObj self) false); IEnqDone] | _ => [] end
                         ++ [IObs (OSpawn self (sp_name sp) 0)])
                end
            end
        end
    | IBeh m acts r =>
        if a_zombie x then (s, []) else
        match a_parent x with
        | None =>       (* the guard actor: closes the stop signal on its own OnKilled, ignores everything else *)
            match m with
            | MKilled who => if ref_eq s who (RObj self) then (add_ghost s OGuardClosed, []) else (s, [])
            | _ => (s, [])
            end
        | Some _ =>
        let (pre, panics) := take_until_panic acts in
        let s1 := add_obs s (OSeen self (a_inst x) (match a_cons x with CBusy md => md | _ => mode_top x end) m) in
        (s1, map IAct pre ++
             if panics then
               match r with
               | RecLog => []
               | RecFail => [IFailed]
               | RecKilled who =>
                   match a_state x with
                   | Running => if ref_eq s who (RObj self) then [] else [IFailed]
                   | _ => []
                   end
               end
             else [])
        end
    | IFailed =>
        (s, [IPauseSt; IEnq true (rref_parent x) (RObj self) (MSup (SupCtx (RObj self) [] None)); IEnqDone;
             IPub evFailed (actor_key x); IPub evPaused (actor_key x)])
    | IPub ty payload =>
        match subscribers s ty with
        | [] => (s, [])
        | l => (s, [IEnqAny false (map (fun p => RObj (snd p)) l) root_ref (MEvent ty payload)])
        end
    | IDoKill poison =>
        (s, (match a_children x with
             | [] => []
             | l => [IEnqAny (negb poison) (map (fun p => RObj (snd p)) l) (RObj self) (MKill (RObj self) poison)]
             end)
            ++ [IBeh (match a_cur x with Some e => e_msg e | None => MKill RNone poison end) (sp_kill (a_spec x))
                     (match a_restarting x with Some _ => RecLog | None => RecLog end);
                IOnKilled (RObj self)])
    | IOnKilled who =>
        if a_zombie x then
          (s, [ICleanup; IUnzombie])
        else if ref_eq s who (RObj self) then (s, [ICheckMark])
        else
          (* the entry is removed only if it still refers to the very context that terminated *)
          let x1 := match who with
                    | RObj c => match ref_path s who with
                                | Some p => match alookup (a_children x) p with
                                            | Some c' => if Nat.eqb c c' then set_children x (aremove (a_children x) p) else x
                                            | None => x
                                            end
                                | None => x
                                end
                    | _ => x
                    end in
          (set_actor s self x1, [IBeh (MKilled who) (sp_killed (a_spec x)) (RecKilled who); ICheckMark])
    | ICheckMark =>
        match a_children x, a_state x with
        | [], Killing =>
            let x1 := set_state x Killed in
            let e := {| e_sys := true; e_sender := match a_cur x with Some e0 => e_sender e0 | None => RNone end; e_msg := MKilled (RObj self) |} in
            let x2 := set_mb x1 (a_sq x1) (a_uq x1) (a_paused x1) (a_cons x1) (Some e) in
            (set_actor s self x2,
             [IBeh (MKilled (RObj self)) (sp_killed (a_spec x)) RecLog]
             ++ match a_restarting x with
                | None => [ICleanup]
                | Some _ => [IRestartFinish]
                end)
        | _, _ => (s, [])
        end
    | ICleanup =>
        (* UnsubscribeAll; removeActorContext; watchers; parent; ActorKilledEvent; mailbox.Resume *)
        let s1 := set_subs s (unsub_all (subs s) (a_path x)) in
        let s2 := set_reg s1 (aremove (reg s1) (a_path x)) in
        (s2, (match a_watchers x with
              | [] => []
              | l => [IEnqAny true (map snd l) (RObj self) (MKilled (RObj self))]
              end)
             ++ (match a_parent x with
                 | Some p => [IEnq true (RObj p) (RObj self) (MKilled (RObj self)); IEnqDone]
                 | None => []
                 end)
             ++ [IPub evKilled (actor_key x); IResume1])
    | IUnzombie => (set_actor s self (set_zombie x false), [])
    | IRestartFinish =>
        let x1 := if sp_provider (a_spec x) then set_inst x (a_inst x + 1)%N else x in
        let x2 := set_modes x1 [0%N] in
        let '(ok, hooks') := match a_hooks x with
                             | (_, r_ok, p_ok) :: rest => (r_ok && p_ok, rest)
                             | [] => (true, [])
                             end in
        let x3 := set_hooks x2 hooks' in
        if ok then
          (* state := running; mailbox.Resume(); events; then OnLaunch is handled inline (HandleEnvelop called directly) *)
          let x4 := set_state (set_restarting x3 None) Running in
          let launch := {| e_sys := true; e_sender := rref_parent x; e_msg := MLaunch |} in
          let x5 := set_mb x4 (a_sq x4) (a_uq x4) (a_paused x4) (CBusy 0%N) (Some launch) in
          (set_actor s self x5,
           [IResume1; IPub evRestarted (actor_key x); IPub evResumed (actor_key x);
            IBeh MLaunch (sp_launch (a_spec x)) RecFail; IPub evLaunched (actor_key x)])
        else
          (set_actor s self (set_zombie x3 true), [IResume1])
    | ISupApply c d targets =>
        let c1 := match c with SupCtx ch _ sub => SupCtx ch targets sub end in
        let resume_all := flat_map (fun r => [IEnq true r (RObj self) MCmdResume; IEnqDone]) (chain_targets c1) in
        match d with
        | DRestart | DGRestart =>
            (s, flat_map (fun r => [IEnq (negb (is_graceful d)) r (RObj self) (MRestart (is_graceful d)); IEnqDone]) targets
                ++ if is_graceful d then resume_all else [])
        | DStop | DGStop =>
            (s, flat_map (fun r => [IEnq (negb (is_graceful d)) r (RObj self) (MKill (RObj self) (is_graceful d)); IEnqDone]) targets
                ++ if is_graceful d then resume_all else [])
        | DResume => (s, resume_all)
        | DEscalate | DInvalid =>     (* out-of-range decisions are handled as Escalate *)
            (s, [IPauseSt; IEnq true (rref_parent x) (RObj self) (MSup (SupCtx (RObj self) [] (Some c1))); IEnqDone])
        end
    | ISupPause c d [] done => (s, [ISupApply c d done])
    | IObs o => (add_obs s o, [])
    | IEndHandler =>
        (set_actor s self (set_mb x (a_sq x) (a_uq x) (a_paused x) C1 (a_cur x)), [])
    | _ => (set_err s, [])
    end
  end.

Definition yielding (i : instr) : bool :=
  match i with
  | IEnqR _ _ _ _ | IEnqMb _ _ | IEnqDone | IEnqAny _ _ _ _ | ISupPause _ _ (_ :: _) _ | IPauseSt | IResume1 | IResume2 => true
  | _ => false
  end.

Definition held_of (s : state) (t : tid) : list aid :=
  match t with TX i => match nth_error (exts s) i with Some x => x_held x | None => [] end | TA _ => [] end.

(** run the atomic instructions at the head of thread [t] until a yielding instruction (or the end) *)
Fixpoint run_atomic (fuel : nat) (s : state) (t : tid) : state :=
  match fuel with
  | O => set_err s
  | S f =>
      match pend_of s t with
      | [] => s
      | IEnq sys to sender m :: rest =>
          (* Context.tell: findMailbox runs now, the queue insertion is the next scheduling point *)
          let (mb, s1) := resolve s to in
          set_pend s1 t (IEnqR sys mb sender m :: rest)
      | i :: rest =>
          if yielding i then s
          else
            let s0 := set_pend s t rest in
            let (s1, front) := exec1 s0 t (held_of s0 t) i in
            run_atomic f (set_pend s1 t (front ++ pend_of s1 t)) t
      end
  end.

Definition FUEL : nat := 4000.

(* ------------------------------------------------------------------ dispatch: Context.HandleEnvelop *)

Definition strategy_of (s : state) (x : actor) : N := sp_strategy (a_spec x).

Definition dispatch (s : state) (a : aid) (x : actor) (e : envelope) : state * list instr :=
  let is_kill := match e_msg e with MKill _ _ => true | _ => false end in
  let dead := match a_state x with Killed => true | Running => false | Killing => negb (e_sys e) && negb is_kill end in
  if dead && negb (a_zombie x) then
    match a_parent x with
    | None => (add_ghost s (ODropped (e_msg e)), [IEndHandler])
    | Some _ => (s, [IEnqMb 0 {| e_sys := false; e_sender := root_ref; e_msg := MDeadLetter (e_sys e) (e_msg e) |}; IEnqDone; IEndHandler])
    end
  else
    let x1 := set_mb x (a_sq x) (a_uq x) (a_paused x) (a_cons x) (Some e) in
    let s1 := set_actor s a x1 in
    match e_msg e with
    | MLaunch => (s1, [IBeh MLaunch (sp_launch (a_spec x)) RecFail; IPub evLaunched (actor_key x); IEndHandler])
    | MKill k poison =>
        if a_zombie x then (s1, [IDoKill poison; IEndHandler])
        else match a_state x with
             | Running => (set_actor s a (set_state x1 Killing), [IDoKill poison; IEndHandler])
             | Killing =>
                 (* already stopping: an immediate kill is passed on to the remaining children *)
                 (* already stopping or restarting: the kill cancels a restart in progress *)
                 let s1 := set_actor s a (set_restarting x1 None) in
                 if poison then (s1, [IEndHandler])
                 else (s1, (match a_children x with
                            | [] => []
                            | l => [IEnqAny true (map (fun p => RObj (snd p)) l) (RObj a) (MKill (RObj a) false)]
                            end) ++ [IEndHandler])
             | Killed => (s1, [IEndHandler])
             end
    | MKilled who => (s1, [IOnKilled who; IEndHandler])
    | MSup c =>
        (* onSupervise: snapshot of the supervisor's children, strategy, decision, pause targets, apply *)
        let strat := sp_strategy (a_spec x) in
        let '(d, ds) := match strat with
                        | 0%N => (DStop, a_decisions x)
                        | _ => match a_decisions x with d :: r => (d, r) | [] => (DStop, []) end
                        end in
        let targets := match strat with
                       | 2%N => map (fun p => RObj (snd p)) (a_children x)
                       | _ => match c with SupCtx ch _ _ => [ch] end
                       end in
        (set_actor s a (set_decisions x1 ds),
         [ISupPause c d targets []; IEndHandler])
    | MCmdPause => (s1, [IPauseSt; IPub evPaused (actor_key x); IEndHandler])
    | MCmdResume => (s1, [IResume1; IPub evResumed (actor_key x); IEndHandler])
    | MRestart poison =>
        match a_state x with
        | Running =>
            let x2 := set_restarting (set_state x1 Killing) (Some poison) in
            let kill := {| e_sys := true; e_sender := e_sender e; e_msg := MKill (RObj a) poison |} in
            let x3 := set_mb x2 (a_sq x2) (a_uq x2) (a_paused x2) (a_cons x2) (Some kill) in
            let x4 := match a_hooks x3 with
                      | (_, r_ok, p_ok) :: rest => x3     (* OnPreRestart outcome is only logged *)
                      | [] => x3
                      end in
            (set_actor s a x4, [IPub evRestarting (actor_key x); IDoKill poison; IEndHandler])
        | st =>
            (* not running: the directive is dropped, but the mailbox the supervisor paused is resumed, and an
               actor that is in the middle of a stop passes an immediate kill to its remaining children *)
            (s1, [IResume1]
                 ++ (match st, a_children x with
                     | Killing, (_ :: _) as l => [IEnqAny true (map (fun p => RObj (snd p)) l) (RObj a) (MKill (RObj a) false)]
                     | _, _ => []
                     end)
                 ++ [IEndHandler])
        end
    | MWatch =>
        let sender := e_sender e in
        if ref_eq s sender (rref_parent x) then (s1, [IEndHandler]) else
        match ref_path s sender with
        | None => (s1, [IEndHandler])
        | Some p =>
            match alookup (a_watchers x) p with
            | Some _ => (s1, [IEndHandler])
            | None => (set_actor s a (set_watchers x1 (a_watchers x1 ++ [(p, sender)])), [IPub evWatched (actor_key x); IEndHandler])
            end
        end
    | MUnwatch =>
        match ref_path s (e_sender e) with
        | None => (s1, [IEndHandler])
        | Some p =>
            match alookup (a_watchers x) p with
            | None => (s1, [IEndHandler])
            | Some _ => (set_actor s a (set_watchers x1 (aremove (a_watchers x1) p)), [IPub evUnwatched (actor_key x); IEndHandler])
            end
        end
    | MUser tag acts => (s1, [IBeh (e_msg e) acts RecFail; IEndHandler])
    | MEvent ty payload => (s1, [IBeh (e_msg e) [] RecFail; IEndHandler])
    | MDeadLetter sys inner =>
        (* only the guard (root) reacts: it republishes the dead letter on the event stream *)
        match a_parent x with
        | None => (add_ghost s1 (ODeadLetter sys inner), [IPub evDeathLetter (match inner with MUser tag _ => [1%N; tag] | MEvent ty _ => [2%N; ty] | _ => [0%N] end); IEndHandler])
        | Some _ => (s1, [IBeh (e_msg e) [] RecFail; IEndHandler])
        end
    end.

(* ------------------------------------------------------------------ events (the steps of the machine) *)

Inductive event :=
| EvSysPop (a : aid)
| EvLoadPaused (a : aid)
| EvUserPop (a : aid)
| EvHandle (a : aid)
| EvPush (t : tid) (choice : nat)      (* queue insertion of the thread's pending enqueue; [choice] indexes IEnqAny's targets *)
| EvEnqDone (t : tid)
| EvPauseSt (t : tid)
| EvResume1 (t : tid)
| EvResume2 (t : tid)
| EvStart (i : nat).                   (* an external caller starts running *)

Definition step (s : state) (ev : event) : state :=
  match ev with
  | EvSysPop a =>
      match get s a with
      | Some x =>
          match a_cons x, a_sq x with
          | (C0 | C1), e :: r => set_actor s a (set_mb x r (a_uq x) (a_paused x) (CH e) (a_cur x))
          | (C0 | C1), [] => set_actor s a (set_mb x [] (a_uq x) (a_paused x) C2 (a_cur x))
          | _, _ => set_err s
          end
      | None => set_err s
      end
  | EvLoadPaused a =>
      match get s a with
      | Some x =>
          match a_cons x with
          | C2 => set_actor s a (set_mb x (a_sq x) (a_uq x) (a_paused x) (if a_paused x then C0 else C3) (a_cur x))
          | _ => set_err s
          end
      | None => set_err s
      end
  | EvUserPop a =>
      match get s a with
      | Some x =>
          match a_cons x, a_uq x with
          | C3, e :: r => set_actor s a (set_mb x (a_sq x) r (a_paused x) (CH e) (a_cur x))
          | C3, [] => set_actor s a (set_mb x (a_sq x) [] (a_paused x) C0 (a_cur x))
          | _, _ => set_err s
          end
      | None => set_err s
      end
  | EvHandle a =>
      match get s a with
      | Some x =>
          match a_cons x with
          | CH e =>
              let x0 := set_mb x (a_sq x) (a_uq x) (a_paused x) (CBusy (mode_top x)) (a_cur x) in
              let (s1, ins) := dispatch (set_actor s a x0) a x0 e in
              run_atomic FUEL (set_pend s1 (TA a) ins) (TA a)
          | _ => set_err s
          end
      | None => set_err s
      end
  | EvStart i => run_atomic FUEL s (TX i)
  | EvPush t choice =>
      match pend_of s t with
      | IEnqR sys mb sender m :: rest =>
          let (s2, _) := deliver s mb {| e_sys := sys; e_sender := sender; e_msg := m |} in
          set_pend s2 t rest
      | IEnqMb a e :: rest => set_pend (push_mb s a e) t rest
      | ISupPause c d rem done :: rest =>
          match nth_error rem choice with
          | Some to =>
              let (mb, s1) := resolve s to in
              let (s2, _) := deliver s1 mb {| e_sys := true; e_sender := RObj (self_of t); e_msg := MCmdPause |} in
              set_pend s2 t (IEnqDone :: ISupPause c d (firstn choice rem ++ skipn (S choice) rem) (done ++ [to]) :: rest)
          | None => set_err s
          end
      | IEnqAny sys tos sender m :: rest =>
          match nth_error tos choice with
          | Some to =>
              let (mb, s1) := resolve s to in
              let (s2, _) := deliver s1 mb {| e_sys := sys; e_sender := sender; e_msg := m |} in
              let tos' := firstn choice tos ++ skipn (S choice) tos in
              set_pend s2 t (IEnqDone :: match tos' with [] => rest | _ => IEnqAny sys tos' sender m :: rest end)
          | None => set_err s
          end
      | _ => set_err s
      end
  | EvEnqDone t =>
      match pend_of s t with
      | IEnqDone :: rest => run_atomic FUEL (set_pend s t rest) t
      | _ => set_err s
      end
  | EvPauseSt t =>
      match pend_of s t with
      | IPauseSt :: rest =>
          let s1 := with_actor s (self_of t) (fun x => set_mb x (a_sq x) (a_uq x) true (a_cons x) (a_cur x)) in
          run_atomic FUEL (set_pend s1 t rest) t
      | _ => set_err s
      end
  | EvResume1 t =>
      match pend_of s t, get s (self_of t) with
      | IResume1 :: rest, Some x =>
          if a_paused x then
            set_pend (set_actor s (self_of t) (set_mb x (a_sq x) (a_uq x) false (a_cons x) (a_cur x))) t (IResume2 :: rest)
          else run_atomic FUEL (set_pend s t rest) t
      | _, _ => set_err s
      end
  | EvResume2 t =>
      match pend_of s t with
      | IResume2 :: rest => run_atomic FUEL (set_pend s t rest) t
      | _ => set_err s
      end
  end.

Definition run_events (evs : list event) (s : state) : state := fold_left step evs s.

(** where does the thread's pending enqueue land (for the lock-step comparison) *)
Definition push_target (s : state) (t : tid) (choice : nat) : option (mbox * bool) :=
  match pend_of s t with
  | IEnqR sys mb _ _ :: _ => Some (mb, sys)
  | IEnqMb a e :: _ => Some (MbActor a, e_sys e)
  | IEnqAny sys tos _ _ :: _ => match nth_error tos choice with Some to => Some (fst (resolve s to), sys) | None => None end
  | ISupPause _ _ rem _ :: _ => match nth_error rem choice with Some to => Some (fst (resolve s to), true) | None => None end
  | _ => None
  end.
