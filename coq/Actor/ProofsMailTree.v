(** Registration invariant: an actor that is not terminated (or is about to run its cleanup / finish its restart, or
    is a zombie not yet released) is registered under its path; a reference cache names its owner or the owner has
    been released; the root is never registered. *)
From Coq Require Import List NArith ZArith Bool Lia Arith.
From Vivid Require Import Actor.Core Actor.CoreRun Actor.SpecMail Actor.ProofsMailBase Actor.ProofsMail Actor.ProofsMailInv
  Actor.ProofsMailWf Actor.ProofsMailAcct Actor.ProofsMailReg Actor.ProofsMailMicro Actor.ProofsMailLife Actor.ProofsMailStep.
Import ListNotations.

(** * association lists on paths *)
Lemma path_eqb_refl p : path_eqb p p = true.
Proof. induction p; cbn; [reflexivity|]. rewrite N.eqb_refl, IHp. reflexivity. Qed.
Lemma path_eqb_neq p q : p <> q -> path_eqb p q = false.
Proof. intros H. destruct (path_eqb p q) eqn:E; [|reflexivity]. exfalso. apply H, path_eqb_eq, E. Qed.

Lemma alookup_app_some {A} (l : list (path * A)) r p v : alookup l p = Some v -> alookup (l ++ r) p = Some v.
Proof. induction l as [|[q w] l IH]; cbn [alookup app]; [discriminate|]. destruct (path_eqb p q); auto. Qed.
Lemma alookup_app_none {A} (l : list (path * A)) r p : alookup l p = None -> alookup (l ++ r) p = alookup r p.
Proof. induction l as [|[q w] l IH]; cbn [alookup app]; [reflexivity|]. destruct (path_eqb p q); [discriminate|auto]. Qed.
Lemma alookup_aremove_same {A} (l : list (path * A)) p : alookup (aremove l p) p = None.
Proof.
  induction l as [|[q w] l IH]; cbn [aremove alookup]; [reflexivity|].
  destruct (path_eqb p q) eqn:E; [exact IH|]. cbn [alookup]. rewrite E. exact IH.
Qed.
Lemma alookup_aremove_other {A} (l : list (path * A)) p q : path_eqb q p = false -> alookup (aremove l p) q = alookup l q.
Proof.
  intros Hne. induction l as [|[r w] l IH]; cbn [aremove alookup]; [reflexivity|].
  destruct (path_eqb p r) eqn:E.
  - apply path_eqb_eq in E. subst r. rewrite Hne. exact IH.
  - cbn [alookup]. destruct (path_eqb q r); [reflexivity|exact IH].
Qed.

(** * what an atomic instruction does to the registry *)
Lemma exec1_reg s t h i x :
  get s (self_of t) = Some x ->
  reg (fst (exec1 s t h i)) =
  match i with
  | ICleanup => aremove (reg s) (a_path x)
  | IAct (ASpawn sp) =>
      match a_state x with
      | Killed => reg s
      | _ => if negb (sp_prelaunch sp) then reg s
             else match alookup (reg s) (a_path x ++ [sp_name sp]) with
                  | Some _ => reg s
                  | None => reg s ++ [(a_path x ++ [sp_name sp], length (actors s))]
                  end
      end
  | _ => reg s
  end.
Proof.
  intros Hg. unfold exec1. rewrite Hg.
  destruct i; cbn [fst]; try reflexivity.
  - destruct remaining; reflexivity.
  - destruct a; cbn [fst]; try reflexivity.
    + destruct (a_state x); cbn [fst]; try reflexivity.
      all: destruct (negb (sp_prelaunch sp)); [reflexivity|].
      all: destruct (alookup (reg s) (a_path x ++ [sp_name sp])); [reflexivity|].
      all: cbn [fst]; cbv zeta.
      all: match goal with |- context[with_actor ?s1 ?a ?f] => destruct (with_actor_fields s1 a f) as (_ & _ & -> & _) end.
      all: reflexivity.
    + destruct (a_cur x); reflexivity.
    + destruct n as [n|]; [destruct (Nat.eqb (length (a_stash x)) 0)|destruct (a_stash x)]; reflexivity.
    + destruct (alookup (subscribers s ty) (a_path x)); reflexivity.
    + destruct (nlookup (subs s) ty); reflexivity.
  - destruct (a_zombie x); [reflexivity|]. destruct (a_parent x).
    + destruct (take_until_panic acts). reflexivity.
    + destruct m; try reflexivity. destruct (ref_eq s who (RObj (self_of t))); reflexivity.
  - destruct (subscribers s ty); reflexivity.
  - destruct (a_zombie x); [reflexivity|]. destruct (ref_eq s who (RObj (self_of t))); reflexivity.
  - destruct (a_children x); [|reflexivity]. destruct (a_state x); reflexivity.
  - destruct (a_hooks x) as [|[[h1 h2] h3] rest]; [reflexivity|]. destruct (h2 && h3); reflexivity.
  - destruct d; reflexivity.
Qed.

Definition regd (s : state) (a : aid) (x : actor) : Prop := alookup (reg s) (a_path x) = Some a.

Definition must_reg (x : actor) : Prop :=
  a_state x <> Killed \/ In ICleanup (lf (a_pend x)) \/ In IRestartFinish (lf (a_pend x)) \/
  (a_zombie x = true /\ uzc (a_pend x) = 0).

Definition RInv (s : state) : Prop :=
  (exists x0, get s 0 = Some x0 /\ a_parent x0 = None /\ a_path x0 = []) /\
  (forall a x, get s a = Some x -> a <> 0 -> (exists q, a_parent x = Some q /\ q < a) /\ a_path x <> []) /\
  alookup (reg s) [] = None /\
  (forall a x, get s a = Some x -> a <> 0 -> must_reg x -> regd s a x) /\
  (forall a x y, get s a = Some x -> a_cache x = Some y -> y = a \/ ~ regd s a x).

(** a step that leaves the registry and the table length alone, keeps paths and parents, fills caches only from the
    registry and does not make any record newly "must be registered" preserves [RInv] *)
Lemma RInv_transfer s s' :
  reg s' = reg s -> length (actors s') = length (actors s) ->
  (forall b x', get s' b = Some x' -> exists x, get s b = Some x /\ a_path x' = a_path x /\ a_parent x' = a_parent x /\
      crel s x x' /\ (must_reg x' -> must_reg x)) ->
  RInv s -> RInv s'.
Proof.
  intros Hr Hl H (Ra & Rb & Rc & R1 & R8).
  split; [|split; [|split; [|split]]].
  - destruct Ra as (x0 & Hg0 & Hp0 & Hpa0).
    assert (Hlt : 0 < length (actors s')) by (rewrite Hl; eapply nth_error_lt; exact Hg0).
    destruct (get s' 0) as [x0'|] eqn:E; [|apply nth_error_None in E; lia].
    destruct (H 0 x0' E) as (x & Hx & P1 & P2 & _). assert (x = x0) by congruence; subst. exists x0'. split; [reflexivity|split; congruence].
  - intros a x' Hg' Hne. destruct (H a x' Hg') as (x & Hx & P1 & P2 & _). destruct (Rb a x Hx Hne) as [(q & Hq & Hlt) Hpn].
    split; [exists q; split; [congruence|exact Hlt]|congruence].
  - rewrite Hr. exact Rc.
  - intros a x' Hg' Hne Hm. destruct (H a x' Hg') as (x & Hx & P1 & P2 & _ & Hmm). unfold regd. rewrite Hr, P1. apply (R1 a x Hx Hne (Hmm Hm)).
  - intros a x' y Hg' Hc. destruct (H a x' Hg') as (x & Hx & P1 & P2 & Hcr & _). unfold regd. rewrite Hr, P1.
    destruct Hcr as [E|(N & z & Ez & Lz)].
    + apply (R8 a x y Hx). congruence.
    + assert (z = y) by congruence; subst z. destruct (Nat.eq_dec y a) as [->|Hne]; [left; reflexivity|right]. intros Hreg. congruence.
Qed.

Lemma must_reg_soft x y : soft x y -> (must_reg y <-> must_reg x).
Proof. intros (A & B & C & D & _). unfold must_reg. rewrite A, B, D. tauto. Qed.

Lemma RInv_quiet s s' : quiet s s' -> RInv s -> RInv s'.
Proof.
  intros (Hr & _ & Hl & Hs & Hc). apply RInv_transfer; [exact Hr|exact Hl|].
  intros b x' Hg'. assert (Hlt : b < length (actors s)) by (rewrite <- Hl; eapply nth_error_lt; exact Hg').
  destruct (get s b) as [x|] eqn:Hg; [|apply nth_error_None in Hg; lia].
  destruct (softT_get _ _ _ _ Hs Hg) as (y & Hy & Hsoft). assert (y = x') by congruence; subst y.
  exists x. split; [reflexivity|]. pose proof Hsoft as (_ & _ & _ & _ & P1 & P2 & _).
  split; [exact P1|split; [exact P2|split; [apply (Hc b x x' Hg Hg')|apply (proj1 (must_reg_soft _ _ Hsoft))]]].
Qed.

Lemma crel_refl s x : crel s x x. Proof. left. reflexivity. Qed.

(** replacing a plain head by plain instructions does not change what must be registered *)
Lemma must_reg_plain_head x y i rest pre :
  a_pend x = i :: rest -> plain i = true -> lf pre = [] -> uzc pre = 0 ->
  a_state y = a_state x -> a_zombie y = a_zombie x -> a_pend y = pre ++ rest -> (must_reg y <-> must_reg x).
Proof.
  intros Hp Hpl Hf Hu Hs Hz Hpy. unfold must_reg, plain in *. apply andb_true_iff in Hpl. destruct Hpl as [H1 H2].
  apply negb_true_iff in H1, H2. rewrite Hs, Hz, Hpy, Hp, lf_app, uzc_app, Hf, Hu, (lf_cons_plain _ _ H1), (uzc_cons_plain _ _ H2). cbn [app plus]. tauto.
Qed.

Lemma RInv_plain s s1 t i rest pre :
  quiet s s1 -> pend_of s t = i :: rest -> plain i = true -> lf pre = [] -> uzc pre = 0 ->
  RInv s -> RInv (set_pend s1 t (pre ++ rest)).
Proof.
  intros Hq Hp Hpl Hf Hu HR. pose proof Hq as (Hr & _ & Hl & Hs & Hc).
  apply (RInv_transfer s); [rewrite set_pend_reg; exact Hr|rewrite len_set_pend; exact Hl| |exact HR].
  intros b x' Hg'.
  assert (Hlt : b < length (actors s)) by (rewrite <- Hl, <- (len_set_pend s1 t (pre ++ rest)); eapply nth_error_lt; exact Hg').
  destruct (get s b) as [x|] eqn:Hg; [|apply nth_error_None in Hg; lia].
  destruct (softT_get _ _ _ _ Hs Hg) as (y & Hy & Hsoft). pose proof (Hc b x y Hg Hy) as Hcr.
  pose proof Hsoft as (A & B & C & D & P1 & P2 & _).
  exists x. split; [reflexivity|].
  destruct t as [a|j].
  - destruct (Nat.eq_dec a b) as [->|Hne].
    + rewrite (set_pend_TA _ _ _ _ Hy), (get_set_same' _ _ _ _ Hy) in Hg'. inversion Hg'; subst x'.
      destruct (pend_of_TA_cons _ _ _ _ Hp) as (x0 & Hg0 & Hpx). assert (x0 = x) by congruence; subst x0.
      cbn [upd_pend a_path a_parent]. split; [exact P1|split; [exact P2|split]].
      * destruct Hcr as [E|E]; [left; exact E|right; exact E].
      * apply (proj1 (must_reg_plain_head x (upd_pend y (pre ++ rest)) i rest pre Hpx Hpl Hf Hu A B eq_refl)).
    + assert (E : get (set_pend s1 (TA a) (pre ++ rest)) b = get s1 b).
      { cbn [set_pend]. unfold with_actor. destruct (get s1 a); [apply get_set_other; exact Hne|reflexivity]. }
      rewrite E in Hg'. assert (x' = y) by congruence; subst.
      split; [exact P1|split; [exact P2|split; [exact Hcr|apply (proj1 (must_reg_soft _ _ Hsoft))]]].
  - assert (E : get (set_pend s1 (TX j) (pre ++ rest)) b = get s1 b) by (unfold get; rewrite set_pend_TX_actors; reflexivity).
    rewrite E in Hg'. assert (x' = y) by congruence; subst.
    split; [exact P1|split; [exact P2|split; [exact Hcr|apply (proj1 (must_reg_soft _ _ Hsoft))]]].
Qed.

(** * one atomic step of an actor's handler never makes its record newly "must be registered" *)
Lemma lf_cleanup_sends a x : lf (cleanup_sends a x ++ [IPub evKilled (actor_key x); IResume1]) = [] /\
                             uzc (cleanup_sends a x ++ [IPub evKilled (actor_key x); IResume1]) = 0.
Proof. unfold cleanup_sends. destruct (a_watchers x), (a_parent x); split; reflexivity. Qed.

Lemma must_reg_astep_TA s a x i rest x' :
  get s a = Some x -> a_pend x = i :: rest -> linv x -> i <> ICleanup ->
  get (astep s (TA a) i rest) a = Some x' -> must_reg x' -> must_reg x.
Proof.
  intros Hg Hp Hinv Hnc Hg' Hm.
  assert (Hl : a < length (actors s)) by (eapply nth_error_lt; exact Hg).
  destruct (life_plain_cases i) as [Hpl|[Hli| ->]].
  - (* plain *)
    destruct (astep_TA_get s a x i rest Hg Hp) as (y & Hy & Hpy & E). cbv zeta in *.
    set (s0 := set_actor s a (upd_pend x rest)) in *.
    assert (Hg0 : get s0 (self_of (TA a)) = Some (upd_pend x rest)) by (apply get_set_same; exact Hl).
    destruct (exec1_plain_lc s0 (TA a) [] i _ Hg0 Hpl) as (y' & Hy' & Hs & Hz & _). cbn [self_of] in Hy'.
    assert (y' = y) by congruence; subst y'. destruct (exec1_front_plain s0 (TA a) [] i Hpl) as [Hf Hu].
    rewrite E in Hg'. rewrite get_set_same in Hg' by (eapply nth_error_lt; exact Hy). inversion Hg'; subst x'.
    apply (proj1 (must_reg_plain_head x (upd_pend y (snd (exec1 s0 (TA a) [] i) ++ rest)) i rest _ Hp Hpl Hf Hu Hs Hz eq_refl)). exact Hm.
  - (* lifecycle *)
    destruct Hinv as (L1 & L2 & L3 & L4 & L5). unfold life_ok in L5. rewrite Hp in L3, L4, L5.
    rewrite (lf_cons_life _ _ Hli) in L5.
    assert (Hu0 : uzc (i :: rest) = uzc rest) by (apply uzc_cons_plain; destruct i; try discriminate Hli; reflexivity).
    rewrite Hu0 in *.
    assert (Hlr : lf rest = []) by (destruct (lf rest); [reflexivity|destruct i; try discriminate Hli; contradiction]).
    rewrite Hlr in L5.
    unfold must_reg. rewrite Hp, (lf_cons_life _ _ Hli), Hlr, Hu0.
    destruct i; try discriminate Hli; try congruence.
    + (* IDoKill *)
      rewrite (astep_dokill s a x rest Hg) in Hg'. rewrite (get_set_same' _ _ _ _ Hg) in Hg'. inversion Hg'; subst x'. clear Hg'.
      unfold must_reg in Hm. cbn [upd_pend a_state a_zombie a_pend] in Hm. rewrite <- app_assoc, !lf_app, !uzc_app, Hlr in Hm.
      destruct (a_children x); cbn [app lf uzc filter life is_unzombie length plus In] in Hm; fold (uzc rest) in Hm;
        destruct Hm as [H|[H|[H|H]]]; auto; try (destruct H as [H|H]; [discriminate H|contradiction]); try (destruct H as [H _]; congruence).
    + (* IOnKilled *)
      destruct (a_zombie x) eqn:Hz; [right; right; right; split; [reflexivity|exact L5]|].
      set (s0 := set_actor s a (upd_pend x rest)) in *.
      destruct (ref_eq s0 who (RObj a)) eqn:Hr.
      * rewrite (astep_onkilled_self s a x rest Hg who Hz Hr) in Hg'. rewrite (get_set_same' _ _ _ _ Hg) in Hg'. inversion Hg'; subst x'. clear Hg'.
        unfold must_reg in Hm. cbn [upd_pend a_state a_zombie a_pend app lf uzc filter life is_unzombie length] in Hm.
        fold (lf rest) in Hm; fold (uzc rest) in Hm. rewrite Hlr in Hm.
        destruct Hm as [H|[H|[H|H]]]; auto; try (destruct H as [H|H]; [discriminate H|contradiction]); try (destruct H as [H _]; congruence).
      * rewrite (astep_onkilled_other s a x rest Hg who Hz Hr) in Hg'. rewrite (get_set_same' _ _ _ _ Hg) in Hg'. inversion Hg'; subst x'. clear Hg'.
        unfold must_reg in Hm. cbn [upd_pend set_children upd_local a_state a_zombie a_pend app lf uzc filter life is_unzombie length] in Hm.
        fold (lf rest) in Hm; fold (uzc rest) in Hm. rewrite Hlr in Hm.
        destruct Hm as [H|[H|[H|H]]]; auto; try (destruct H as [H|H]; [discriminate H|contradiction]); try (destruct H as [H _]; congruence).
    + (* ICheckMark *)
      destruct (a_state x) eqn:Hst; try (left; discriminate).
      rewrite (astep_checkmark_idle s a x rest Hg) in Hg' by (right; congruence).
      rewrite (get_set_same' _ _ _ _ Hg) in Hg'. inversion Hg'; subst x'. clear Hg'.
      unfold must_reg in Hm. cbn [upd_pend a_state a_zombie a_pend] in Hm. rewrite Hlr, Hst in Hm.
      destruct Hm as [H|[H|[H|H]]]; auto; contradiction.
    + (* IRestartFinish *) right; right; left. left. reflexivity.
  - (* IUnzombie *)
    rewrite (astep_unzombie s a x rest Hg) in Hg'. rewrite (get_set_same' _ _ _ _ Hg) in Hg'. inversion Hg'; subst x'. clear Hg'.
    unfold must_reg in *. cbn [upd_pend set_zombie upd_local a_state a_zombie a_pend] in Hm. rewrite Hp, (lf_cons_plain IUnzombie rest eq_refl).
    destruct Hm as [H|[H|[H|[H _]]]]; auto; discriminate.
Qed.

(** * ActorOf, for any thread *)
Lemma exec1_spawn s t h sp x :
  get s (self_of t) = Some x ->
  let r := exec1 s t h (IAct (ASpawn sp)) in
  let p := a_path x ++ [sp_name sp] in
  (actors (fst r) = actors s /\ reg (fst r) = reg s) \/
  (alookup (reg s) p = None /\ a_state x <> Killed /\
   reg (fst r) = reg s ++ [(p, length (actors s))] /\
   exists g, actors (fst r) = upd (actors s) (self_of t) (set_children x (aset (a_children x) p (length (actors s))))
                              ++ [new_actor p g (Some (self_of t)) sp]).
Proof.
  intros Hg. cbv zeta. unfold exec1. rewrite Hg.
  assert (Hl : self_of t < length (actors s)) by (eapply nth_error_lt; exact Hg).
  destruct (a_state x) eqn:Est; cbn [fst]; try (left; split; reflexivity).
  all: destruct (negb (sp_prelaunch sp)); [left; split; reflexivity|].
  all: destruct (alookup (reg s) (a_path x ++ [sp_name sp])) eqn:Elk; [left; split; reflexivity|].
  all: right; cbn [fst]; cbv zeta.
  all: match goal with |- context[with_actor ?s1 _ _] =>
         assert (Hg1 : get s1 (self_of t) = Some x)
           by (unfold get; cbn [actors]; rewrite nth_error_app1 by exact Hl; exact Hg);
         rewrite (with_actor_some _ _ _ _ Hg1) end.
  all: split; [reflexivity|]; split; [discriminate|]; split; [reflexivity|]; eexists;
       cbn [set_actor actors]; rewrite upd_app_l by exact Hl; reflexivity.
Qed.

Lemma alookup_single p (c : aid) q : alookup [(p, c)] q = if path_eqb q p then Some c else None.
Proof. reflexivity. Qed.

(** appending a fresh registration *)
Lemma RInv_spawn s s' self x p c g sp y :
  RInv s -> get s self = Some x -> c = length (actors s) -> p = a_path x ++ [sp_name sp] -> alookup (reg s) p = None ->
  reg s' = reg s ++ [(p, c)] ->
  actors s' = upd (actors s) self y ++ [new_actor p g (Some self) sp] ->
  a_path y = a_path x -> a_parent y = a_parent x -> a_cache y = a_cache x -> (must_reg y -> must_reg x) ->
  RInv s'.
Proof.
  intros (Ra & Rb & Rc & R1 & R8) Hg Hc Hp Hlk Hr Ha P1 P2 P3 Hm.
  assert (Hl : self < length (actors s)) by (eapply nth_error_lt; exact Hg).
  assert (Hold : forall b x', b < length (actors s) -> get s' b = Some x' ->
            exists xb, get s b = Some xb /\ a_path x' = a_path xb /\ a_parent x' = a_parent xb /\ a_cache x' = a_cache xb /\ (must_reg x' -> must_reg xb)).
  { intros b x' Hlt Hg'. unfold get in Hg'. rewrite Ha in Hg'. rewrite nth_error_app1 in Hg' by (rewrite upd_length; exact Hlt).
    destruct (Nat.eq_dec self b) as [<-|Hne].
    - rewrite nth_upd_eq in Hg' by exact Hl. inversion Hg'; subst. exists x. auto.
    - rewrite nth_upd_neq in Hg' by exact Hne. exists x'. auto. }
  assert (Hnew : get s' c = Some (new_actor p g (Some self) sp)).
  { unfold get. rewrite Ha. rewrite nth_error_app2 by (rewrite upd_length; lia). rewrite upd_length, Hc, Nat.sub_diag. reflexivity. }
  assert (Hcases : forall b x', get s' b = Some x' -> b < length (actors s) \/ (b = c /\ x' = new_actor p g (Some self) sp)).
  { intros b x' Hg'. destruct (Nat.lt_ge_cases b (length (actors s))) as [H|H]; [left; exact H|right].
    unfold get in Hg'. rewrite Ha in Hg'. rewrite nth_error_app2 in Hg' by (rewrite upd_length; exact H). rewrite upd_length in Hg'.
    destruct (b - length (actors s)) as [|k] eqn:E; cbn in Hg'; [|destruct k; discriminate Hg'].
    split; [lia|congruence]. }
  assert (Hpne : p <> []) by (rewrite Hp; destruct (a_path x); discriminate).
  split; [|split; [|split; [|split]]].
  - destruct Ra as (x0 & Hg0 & A & B). assert (H0 : 0 < length (actors s)) by (eapply nth_error_lt; exact Hg0).
    assert (exists x0', get s' 0 = Some x0') as [x0' Hx0'].
    { unfold get. rewrite Ha. rewrite nth_error_app1 by (rewrite upd_length; exact H0).
      destruct (nth_error (upd (actors s) self y) 0) eqn:E; [eauto|]. apply nth_error_None in E. rewrite upd_length in E. lia. }
    destruct (Hold 0 x0' H0 Hx0') as (xb & Hxb & Q1 & Q2 & _). assert (xb = x0) by congruence; subst. exists x0'. split; [exact Hx0'|split; congruence].
  - intros b x' Hg' Hne. destruct (Hcases b x' Hg') as [Hlt|[-> ->]].
    + destruct (Hold b x' Hlt Hg') as (xb & Hxb & Q1 & Q2 & _). destruct (Rb b xb Hxb Hne) as [(q & Hq & Hqlt) Hpn].
      split; [exists q; split; [congruence|exact Hqlt]|congruence].
    + cbn. split; [exists self; split; [reflexivity|lia]|exact Hpne].
  - rewrite Hr, (alookup_app_none _ _ _ Rc), alookup_single. rewrite path_eqb_neq; [reflexivity|congruence].
  - intros b x' Hg' Hne Hmr. unfold regd. rewrite Hr. destruct (Hcases b x' Hg') as [Hlt|[-> ->]].
    + destruct (Hold b x' Hlt Hg') as (xb & Hxb & Q1 & _ & _ & Q4). rewrite Q1. apply alookup_app_some. apply (R1 b xb Hxb Hne (Q4 Hmr)).
    + cbn [a_path new_actor]. rewrite (alookup_app_none _ _ _ Hlk), alookup_single, path_eqb_refl. reflexivity.
  - intros b x' z Hg' Hcz. unfold regd. rewrite Hr. destruct (Hcases b x' Hg') as [Hlt|[-> ->]].
    + destruct (Hold b x' Hlt Hg') as (xb & Hxb & Q1 & _ & Q3 & _). rewrite Q1.
      destruct (R8 b xb z Hxb ltac:(congruence)) as [E|Hn]; [left; exact E|right]. intros Hreg. apply Hn.
      apply alookup_app_one in Hreg. destruct Hreg as [H|[_ H]]; [exact H|lia].
    + discriminate Hcz.
Qed.

Lemma instr_eq_cleanup i : i = ICleanup \/ i <> ICleanup.
Proof. destruct i; try (right; discriminate). left; reflexivity. Qed.
Lemma instr_is_spawn i : (exists sp, i = IAct (ASpawn sp)) \/ (forall sp, i <> IAct (ASpawn sp)).
Proof. destruct i; try (right; intros sp; discriminate). destruct a; try (right; intros sp0; discriminate). left. eauto. Qed.

Lemma app_eq_len {A} (l1 l2 r1 r2 : list A) : length l1 = length l2 -> l1 ++ r1 = l2 ++ r2 -> l1 = l2 /\ r1 = r2.
Proof.
  revert l2. induction l1 as [|h t IH]; intros [|h2 t2] Hl E; cbn in *; try discriminate; [auto|].
  inversion E; subst. destruct (IH t2 ltac:(lia) H1) as [-> ->]. auto.
Qed.
Lemma upd_app_inj (l : list actor) a y y' news n : a < length l -> upd l a y ++ news = upd l a y' ++ [n] -> news = [n] /\ y = y'.
Proof.
  intros Hl E. assert (Hlen : length (upd l a y) = length (upd l a y')) by (rewrite !upd_length; reflexivity).
  destruct (app_eq_len _ _ _ _ Hlen E) as [E1 E2]. split; [exact E2|].
  apply (f_equal (fun l => nth_error l a)) in E1. rewrite !nth_upd_eq in E1 by exact Hl. congruence.
Qed.

Lemma RInv_self s t : RInv s -> forall i rest, pend_of s t = i :: rest -> exists x, get s (self_of t) = Some x.
Proof.
  intros (Ra & _) i rest Hp. destruct t as [a|j]; cbn [self_of].
  - destruct (pend_of_TA_cons _ _ _ _ Hp) as (x & Hg & _). eauto.
  - destruct Ra as (x0 & Hg0 & _). eauto.
Qed.

Lemma regd_cleanup_other s a x b xb :
  RInv s -> get s a = Some x -> In ICleanup (lf (a_pend x)) -> get s b = Some xb -> b <> a -> regd s b xb ->
  alookup (aremove (reg s) (a_path x)) (a_path xb) = Some b.
Proof.
  intros (Ra & Rb & Rc & R1 & R8) Hg Hin Hgb Hne Hreg. unfold regd in Hreg.
  rewrite alookup_aremove_other; [exact Hreg|]. apply path_eqb_neq. intros E.
  destruct (Nat.eq_dec a 0) as [->|Ha0].
  - destruct Ra as (x0 & Hg0 & _ & Hp0). assert (x0 = x) by congruence; subst. rewrite E, Hp0, Rc in Hreg. discriminate.
  - assert (Hra : regd s a x) by (apply (R1 a x Hg Ha0); right; left; exact Hin). unfold regd in Hra. rewrite <- E in Hra. congruence.
Qed.

Lemma RInv_astep s t i rest :
  wf s -> LI s -> RInv s -> pend_of s t = i :: rest -> yielding i = false -> is_enq i = false -> RInv (astep s t i rest).
Proof.
  intros W I HR Hp Hyld Hq.
  destruct (RInv_self s t HR i rest Hp) as (x & Hg).
  assert (Hl : self_of t < length (actors s)) by (eapply nth_error_lt; exact Hg).
  (* lifecycle instructions only occur in actor threads *)
  assert (Hext : forall j, t = TX j -> plain i = true).
  { intros j ->. destruct (pend_of_TX_cons _ _ _ _ Hp) as (ex & Hn & Hpx). destruct W as [_ HX].
    pose proof (Forall_nth _ _ _ _ HX Hn) as Hok. cbv beta in Hok. rewrite Hpx in Hok. cbn [forallb] in Hok.
    apply andb_true_iff in Hok. apply ext_instr_plain. apply Hok. }
  destruct (instr_eq_cleanup i) as [-> |Hnc].
  - (* ICleanup *)
    destruct t as [a|j]; [|specialize (Hext j eq_refl); discriminate Hext]. cbn [self_of] in *.
    destruct (pend_of_TA_cons _ _ _ _ Hp) as (x1 & Hg1 & Hpx). assert (x1 = x) by congruence; subst x1.
    rewrite (astep_cleanup s a x rest Hg).
    pose proof (I _ _ Hg) as (L1 & L2 & L3 & L4 & L5). unfold life_ok in L5. rewrite Hpx in L3, L4, L5.
    rewrite (lf_cons_life ICleanup rest eq_refl) in L5. rewrite (uzc_cons_plain ICleanup rest eq_refl) in *.
    assert (Hlr : lf rest = []) by (destruct (lf rest); [reflexivity|contradiction]). rewrite Hlr in L5. destruct L5 as [Hk Hzu].
    assert (Hin : In ICleanup (lf (a_pend x))) by (rewrite Hpx, (lf_cons_life ICleanup rest eq_refl); left; reflexivity).
    destruct (lf_cleanup_sends a x) as [Hcf Hcu].
    pose proof HR as (Ra & Rb & Rc & R1 & R8).
    set (sr := set_reg (set_subs s (unsub_all (subs s) (a_path x))) (aremove (reg s) (a_path x))).
    set (xn := upd_pend x ((cleanup_sends a x ++ [IPub evKilled (actor_key x); IResume1]) ++ rest)).
    assert (Hget : forall b, get (set_actor sr a xn) b = if Nat.eqb a b then Some xn else get s b).
    { intros b. destruct (Nat.eqb_spec a b) as [<-|Hne]; [apply (get_set_same sr a xn Hl)|apply (get_set_other sr a b xn Hne)]. }
    split; [|split; [|split; [|split]]].
    + destruct Ra as (x0 & Hg0 & A & B). rewrite Hget. destruct (Nat.eqb_spec a 0) as [->|Hne].
      * assert (x0 = x) by congruence; subst. exists xn. auto.
      * exists x0. auto.
    + intros b xb Hgb Hne. rewrite Hget in Hgb. destruct (Nat.eqb_spec a b) as [<-|Hab].
      * inversion Hgb; subst xb. apply (Rb a x Hg Hne).
      * apply (Rb b xb Hgb Hne).
    + cbn [set_actor reg sr set_reg]. destruct (alookup (aremove (reg s) (a_path x)) []) eqn:E; [|reflexivity].
      apply alookup_aremove in E. congruence.
    + intros b xb Hgb Hne Hm. rewrite Hget in Hgb. unfold regd. cbn [set_actor reg sr set_reg]. destruct (Nat.eqb_spec a b) as [<-|Hab].
      * inversion Hgb; subst xb. exfalso. unfold must_reg, xn in Hm. cbn [upd_pend a_state a_zombie a_pend] in Hm.
        rewrite lf_app, uzc_app, Hcf, Hcu, Hlr in Hm. cbn [app plus In] in Hm.
        destruct Hm as [H|[H|[H|[H1 H2]]]]; try contradiction. specialize (Hzu H1). lia.
      * apply (regd_cleanup_other s a x b xb HR Hg Hin Hgb ltac:(congruence)). apply (R1 b xb Hgb Hne Hm).
    + intros b xb z Hgb Hcz. rewrite Hget in Hgb. unfold regd. cbn [set_actor reg sr set_reg].
      assert (Hxb : exists xo, get s b = Some xo /\ a_cache xo = Some z /\ a_path xb = a_path xo).
      { destruct (Nat.eqb_spec a b) as [<-|Hab]; [inversion Hgb; subst xb; exists x; auto|exists xb; auto]. }
      destruct Hxb as (xo & Hxo & Hco & Hpo). rewrite Hpo.
      destruct (R8 b xo z Hxo Hco) as [E|Hn]; [left; exact E|right]. intros Hreg. apply Hn. apply alookup_aremove in Hreg. exact Hreg.
  - (* every other instruction *)
    destruct (astep_table s t i rest x Hg Hp) as (Hg0 & y & news & Hy & Hnews & Ha1 & Ha & Hr & Hl0 & Hr0). cbv zeta in *.
    set (s0 := set_pend s t rest) in *. set (x0 := popped t x rest) in *.
    pose proof (exec1_reg s0 t (held_of s0 t) i x0 Hg0) as Hreg1.
    assert (Hx0 : a_path x0 = a_path x /\ a_parent x0 = a_parent x /\ a_cache x0 = a_cache x /\ a_state x0 = a_state x)
      by (unfold x0; destruct t; repeat split).
    destruct Hx0 as (X1 & X2 & X3 & X4).
    (* the record of the executing context is not newly "must be registered" *)
    assert (Hmr : forall xs, get (astep s t i rest) (self_of t) = Some xs -> self_of t <> 0 -> must_reg xs -> must_reg x).
    { intros xs Hxs Hne0 Hm. destruct t as [a|j]; cbn [self_of] in *; [|congruence].
      destruct (pend_of_TA_cons _ _ _ _ Hp) as (x1 & Hg1 & Hpx). assert (x1 = x) by congruence; subst x1.
      apply (must_reg_astep_TA s a x i rest xs Hg Hpx (I _ _ Hg) Hnc Hxs Hm). }
    assert (Hself : get (astep s t i rest) (self_of t) = Some (pushed t y (snd (exec1 s0 t (held_of s0 t) i) ++ rest))).
    { unfold get. rewrite Ha. rewrite nth_error_app1 by (rewrite upd_length; exact Hl). apply nth_upd_eq. exact Hl. }
    set (ys := pushed t y (snd (exec1 s0 t (held_of s0 t) i) ++ rest)) in *.
    assert (Hys : a_path ys = a_path x /\ a_parent ys = a_parent x /\ a_cache ys = a_cache x).
    { unfold ys. destruct t; cbn [pushed upd_pend a_path a_parent a_cache];
        rewrite (lu_path _ _ _ Hy), (lu_parent _ _ _ Hy), (lu_cache _ _ _ Hy); auto. }
    destruct Hys as (Y1 & Y2 & Y3).
    destruct (instr_is_spawn i) as [[sp ->]|Hns].
    + (* ActorOf *)
      destruct (exec1_spawn s0 t (held_of s0 t) sp x0 Hg0) as [[Hsa Hsr]|(Hlk & Hst & Hsr & g & Hsa)]; cbv zeta in *.
      * (* refused *)
        assert (Hnn : news = []).
        { rewrite Hsa in Ha1. apply (f_equal (@length actor)) in Ha1. rewrite app_length, upd_length in Ha1. destruct news; [reflexivity|cbn in Ha1; lia]. }
        subst news. rewrite app_nil_r in Ha.
        apply (RInv_transfer s); [rewrite Hr, Hsr; exact Hr0|rewrite Ha; apply upd_length| |exact HR].
        intros b xb Hgb. unfold get in Hgb. rewrite Ha in Hgb. destruct (Nat.eq_dec (self_of t) b) as [<-|Hne].
        -- rewrite nth_upd_eq in Hgb by exact Hl. inversion Hgb; subst xb. exists x. split; [exact Hg|].
           split; [exact Y1|split; [exact Y2|split; [left; exact Y3|]]].
           intros Hm. destruct (Nat.eq_dec (self_of t) 0) as [E0|Hne0].
           ++ destruct t as [a|j]; cbn [self_of] in *.
              ** subst a. destruct (pend_of_TA_cons _ _ _ _ Hp) as (x1 & Hg1 & Hpx). assert (x1 = x) by congruence; subst x1.
                 apply (must_reg_astep_TA s 0 x _ rest _ Hg Hpx (I _ _ Hg) Hnc Hself Hm).
              ** (* an external caller: the root's lifecycle fields and pending list are untouched *)
                 destruct (exec1_plain_lc s0 (TX j) (held_of s0 (TX j)) (IAct (ASpawn sp)) x0 Hg0 eq_refl) as (y' & Hy' & Hs' & Hz' & _).
                 cbn [self_of] in Hy'. assert (Hyy : y' = y).
                 { unfold get in Hy'. rewrite Ha1 in Hy'. rewrite app_nil_r in Hy'. rewrite nth_upd_eq in Hy' by (rewrite Hl0; exact Hl). congruence. }
                 subst y'. unfold must_reg in *. unfold ys in Hm. cbn [pushed] in Hm. rewrite Hs', Hz', (lu_pend _ _ _ Hy) in Hm. exact Hm.
           ++ apply (Hmr _ Hself Hne0 Hm).
        -- rewrite nth_upd_neq in Hgb by exact Hne. exists xb. split; [exact Hgb|]. split; [reflexivity|split; [reflexivity|split; [left; reflexivity|auto]]].
      * (* success *)
        rewrite Hl0 in *. rewrite Hr0 in *.
        assert (Hnews' : news = [new_actor (a_path x0 ++ [sp_name sp]) g (Some (self_of t)) sp] /\
                         y = set_children x0 (aset (a_children x0) (a_path x0 ++ [sp_name sp]) (length (actors s)))).
        { rewrite Hsa in Ha1. symmetry in Ha1. apply upd_app_inj in Ha1; [|rewrite Hl0; exact Hl].
          exact Ha1. }
        destruct Hnews' as [-> Hyeq].
        eapply (RInv_spawn s _ (self_of t) x (a_path x ++ [sp_name sp]) (length (actors s)) g sp ys HR Hg eq_refl eq_refl);
          [rewrite <- X1; exact Hlk|rewrite Hr, Hsr, X1; reflexivity|rewrite Ha, X1; reflexivity|exact Y1|exact Y2|exact Y3|].
        intros Hm. destruct t as [a|j]; cbn [self_of] in *.
        -- destruct (pend_of_TA_cons _ _ _ _ Hp) as (x1 & Hg1 & Hpx). assert (x1 = x) by congruence; subst x1.
           apply (must_reg_astep_TA s a x _ rest _ Hg Hpx (I _ _ Hg) Hnc Hself Hm).
        -- unfold ys in Hm. cbn [pushed] in Hm. rewrite Hyeq in Hm. unfold must_reg in *. cbn in Hm. exact Hm.
    + (* no registry change, no new record *)
      assert (Hreg' : reg (fst (exec1 s0 t (held_of s0 t) i)) = reg s0).
      { rewrite Hreg1. destruct i; try reflexivity; [destruct a; try reflexivity; exfalso; eapply Hns; reflexivity|congruence]. }
      assert (Hnn : news = []).
      { destruct (exec1_reg_shape s0 t (held_of s0 t) i x0 Hg0) as [(_ & y2 & Hy2 & _)|[(q & _ & Hy2)|(p & g & sp & y2 & Hr2 & _)]]; cbv zeta in *.
        - rewrite Hy2 in Ha1. apply (f_equal (@length actor)) in Ha1. rewrite app_length, !upd_length in Ha1. destruct news; [reflexivity|cbn in Ha1; lia].
        - rewrite Hy2 in Ha1. apply (f_equal (@length actor)) in Ha1. rewrite app_length, !upd_length in Ha1. destruct news; [reflexivity|cbn in Ha1; lia].
        - rewrite Hreg' in Hr2. apply (f_equal (@length (path * aid))) in Hr2. rewrite app_length in Hr2. cbn in Hr2. lia. }
      subst news. rewrite app_nil_r in Ha.
      apply (RInv_transfer s); [rewrite Hr, Hreg'; exact Hr0|rewrite Ha; apply upd_length| |exact HR].
      intros b xb Hgb. unfold get in Hgb. rewrite Ha in Hgb. destruct (Nat.eq_dec (self_of t) b) as [<-|Hne].
      * rewrite nth_upd_eq in Hgb by exact Hl. inversion Hgb; subst xb. exists x. split; [exact Hg|].
        split; [exact Y1|split; [exact Y2|split; [left; exact Y3|]]].
        intros Hm. destruct t as [a|j]; cbn [self_of] in *.
        -- destruct (pend_of_TA_cons _ _ _ _ Hp) as (x1 & Hg1 & Hpx). assert (x1 = x) by congruence; subst x1.
           apply (must_reg_astep_TA s a x _ rest _ Hg Hpx (I _ _ Hg) Hnc Hself Hm).
        -- destruct (exec1_plain_lc s0 (TX j) (held_of s0 (TX j)) _ x0 Hg0 (Hext j eq_refl)) as (y' & Hy' & Hs' & Hz' & _).
           cbn [self_of] in Hy'. assert (Hyy : y' = y).
           { unfold get in Hy'. rewrite Ha1 in Hy'. rewrite app_nil_r in Hy'. rewrite nth_upd_eq in Hy' by (rewrite Hl0; exact Hl). congruence. }
           subst y'. unfold must_reg in *. unfold ys in Hm. cbn [pushed] in Hm. rewrite Hs', Hz', (lu_pend _ _ _ Hy) in Hm. exact Hm.
      * rewrite nth_upd_neq in Hgb by exact Hne. exists xb. split; [exact Hgb|]. split; [reflexivity|split; [reflexivity|split; [left; reflexivity|auto]]].
Qed.

Lemma RInv_handle s a x e :
  wf s -> LI s -> RInv s -> get s a = Some x -> a_cons x = CH e -> RInv (mstep s (MHandle a)).
Proof.
  intros W I HR Hg Hc. cbn [mstep]. rewrite Hg, Hc.
  assert (Hl : a < length (actors s)) by (eapply nth_error_lt; exact Hg).
  assert (Hpx : a_pend x = []).
  { destruct W as [HA _]. apply pend_shape_idle; [eapply Forall_nth; eauto|]. intros md E; congruence. }
  set (s0 := set_actor s a (busy x)).
  assert (Hg0 : get s0 a = Some (busy x)) by (apply get_set_same; exact Hl).
  pose proof (I _ _ Hg) as (L1 & _).
  destruct (dispatch_life s0 a (busy x) e Hg0 L1) as (y & Hy & Hz & Hch & Hpd & Hst & Hu & Hlf).
  destruct (dispatch_effect s0 a (busy x) e Hg0) as (y2 & Hdf & Ha & _ & _ & _ & Hr & _).
  destruct (dispatch s0 a (busy x) e) as [s1 ins]. cbn [fst snd] in *.
  assert (Hyy : y2 = y).
  { unfold get in Hy. rewrite Ha in Hy. rewrite nth_upd_eq in Hy by (unfold s0; cbn; rewrite upd_length; exact Hl). congruence. }
  subst y2.
  apply (RInv_transfer s); [rewrite set_pend_reg; exact Hr|rewrite len_set_pend, Ha; unfold s0; cbn; rewrite !upd_length; reflexivity| |exact HR].
  intros b xb Hgb. rewrite (set_pend_TA _ _ _ _ Hy) in Hgb.
  destruct (Nat.eq_dec a b) as [<-|Hne].
  - rewrite (get_set_same' _ _ _ _ Hy) in Hgb. inversion Hgb; subst xb. exists x. split; [exact Hg|].
    cbn [upd_pend a_path a_parent]. rewrite (df_path _ _ Hdf), (df_parent _ _ Hdf). cbn [busy set_mb a_path a_parent].
    split; [reflexivity|split; [reflexivity|split]].
    + left. cbn [upd_pend a_cache]. rewrite (df_cache _ _ Hdf). reflexivity.
    + unfold must_reg. cbn [upd_pend a_state a_zombie a_pend]. rewrite Hz, Hu, Hpx. cbn [busy set_mb a_state a_zombie lf filter uzc length In] in *.
      intros [H|[H|[H|H]]].
      * left. intros Hk. apply H. destruct Hst as [E|[E _]]; congruence.
      * destruct Hlf as [E|[[p E]|[w E]]]; rewrite E in H; cbn in H; intuition discriminate.
      * destruct Hlf as [E|[[p E]|[w E]]]; rewrite E in H; cbn in H; intuition discriminate.
      * right; right; right. exact H.
  - rewrite get_set_other in Hgb by exact Hne.
    assert (E : get s1 b = get s b).
    { unfold get. rewrite Ha. unfold s0. cbn [set_actor actors]. rewrite upd_upd. apply nth_upd_neq. exact Hne. }
    rewrite E in Hgb. exists xb. split; [exact Hgb|]. split; [reflexivity|split; [reflexivity|split; [left; reflexivity|auto]]].
Qed.

Theorem RInv_mstep s m : wf s -> LI s -> RInv s -> RInv (mstep s m).
Proof.
  intros W I HR.
  destruct (mstep_cases s m) as [Hq|[(t & i & rest & pre & s1 & Hp & Hpl & Hf & Hu & Hq & _ & E)|[(a & x & e & -> & Hg & Hc)|(t & i & rest & -> & Hp & Hy & Hq & E)]]].
  - apply (RInv_quiet s); assumption.
  - rewrite E. apply (RInv_plain s s1 t i rest pre); assumption.
  - apply (RInv_handle s a x e); assumption.
  - rewrite E. apply RInv_astep; assumption.
Qed.

Lemma RInv_init scs : RInv (init_with scs).
Proof.
  unfold init_with.
  assert (Ha : forall scs s i, actors (set_exts s i scs) = actors s).
  { clear. induction scs as [|sc r IH]; intros s i; cbn [set_exts]; [reflexivity|]. rewrite IH. apply set_pend_TX_actors. }
  assert (Hr : forall scs s i, reg (set_exts s i scs) = reg s).
  { clear. induction scs as [|sc r IH]; intros s i; cbn [set_exts]; [reflexivity|]. rewrite IH. apply set_pend_reg. }
  assert (Hget : forall b, get (set_exts (init_state (length scs)) 0 scs) b = get (init_state (length scs)) b) by (intros; unfold get; rewrite Ha; reflexivity).
  split; [|split; [|split; [|split]]].
  - rewrite Hget. eexists. split; [reflexivity|split; reflexivity].
  - intros a x Hg Hne. rewrite Hget in Hg. destruct a as [|[|a]]; cbn in Hg; congruence.
  - rewrite Hr. reflexivity.
  - intros a x Hg Hne. rewrite Hget in Hg. destruct a as [|[|a]]; cbn in Hg; congruence.
  - intros a x y Hg Hc. rewrite Hget in Hg. destruct a as [|[|a]]; cbn in Hg; try discriminate. inversion Hg; subst. discriminate Hc.
Qed.

Theorem RInv_reachable s : reachable s -> RInv s.
Proof.
  revert s. apply (micro_invariant_with (fun s => wf s /\ LI s) RInv).
  - intros scs. split; [apply wf_init|apply LI_init].
  - intros s m [W I]. split; [apply wf_mstep; exact W|apply LI_mstep; assumption].
  - apply RInv_init.
  - intros s m [W I] HR. apply RInv_mstep; assumption.
Qed.
