(** Proofs for C03 between the API call and the queue insertion (statements: Properties/C03_copies.v; notions:
    Actor/SpecCopies.v).  Main result [thread_balance_run]: along any run, for every thread t and every class P of user
    messages,  pending(t) before + issued by t  =  inserted by t + turned into a dead-letter report at the insertion
    + pending(t) after. *)
From Coq Require Import List NArith ZArith Bool Lia Arith.
From Vivid Require Import Actor.Core Actor.CoreRun Actor.SpecMail Actor.SpecStash Actor.SpecCopies
  Actor.ProofsMailBase Actor.ProofsMail Actor.ProofsMailInv Actor.ProofsMailWf Actor.ProofsStash.
From Vivid Require Actor.ProofsSup Actor.ProofsMailMicro2 Actor.ProofsMailAcct.
Import ListNotations.

(* ------------------------------------------------------------------ counting *)

Lemma pend_list_app P l1 l2 : pend_list P (l1 ++ l2) = pend_list P l1 + pend_list P l2.
Proof. induction l1 as [|i l1 IH]; [reflexivity|]. cbn [app pend_list]. rewrite IH. lia. Qed.

Lemma pend_list_map_act P l : pend_list P (map IAct l) = 0.
Proof. induction l as [|a l IH]; [reflexivity|]. cbn [map pend_list pend1]. exact IH. Qed.

Lemma nonuser P m : user_class P -> is_user m = false -> b2n (P m) = 0.
Proof. intros HP Hm. destruct (P m) eqn:E; [|reflexivity]. rewrite (HP m E) in Hm. discriminate. Qed.

Lemma pend_list_tells P (f : rref -> instr) m l :
  (forall r, pend1 P (f r) = b2n (P m)) -> pend_list P (flat_map (fun r => [f r; IEnqDone]) l) = length l * b2n (P m).
Proof.
  intros Hf. induction l as [|r l IH]; [reflexivity|]. cbn [flat_map app pend_list pend1 length]. rewrite IH, Hf. lia.
Qed.

Lemma pend_list_unstash P a es : pend_list P (flat_map (fun e => [IEnqMb a e; IEnqDone]) es) = cnt_env P es.
Proof.
  induction es as [|e es IH]; [reflexivity|]. cbn [flat_map app pend_list pend1]. rewrite IH.
  unfold cnt_env. cbn [filter]. destruct (P (e_msg e)); reflexivity.
Qed.

Lemma cnt_env_app P l1 l2 : cnt_env P (l1 ++ l2) = cnt_env P l1 + cnt_env P l2.
Proof. unfold cnt_env. rewrite filter_app, app_length. reflexivity. Qed.

(* ------------------------------------------------------------------ one instruction *)

Ltac nu HP :=
  repeat match goal with
         | |- context[b2n (?P ?m)] =>
             lazymatch m with
             | MUser _ _ => fail
             | _ => rewrite (nonuser P m HP eq_refl)
             end
         end.

Lemma exec1_issues P s t h i :
  user_class P -> yielding i = false -> is_enq i = false ->
  pend_list P (snd (exec1 s t h i)) = issued1 P s t i.
Proof.
  intros HP Hy He. unfold issued1, exec1. destruct (get s (self_of t)) as [x|] eqn:Hg; [|reflexivity].
  destruct i; try discriminate Hy; try discriminate He; cbn [snd pend_list pend1]; try reflexivity.
  - (* ISupPause [] *) destruct remaining; [reflexivity|discriminate Hy].
  - (* IAct *)
    destruct a; cbn [snd pend_list pend1 e_msg]; nu HP; try reflexivity.
    + lia.
    + lia.
    + (* ASpawn *)
      destruct (a_state x); cbn [snd pend_list]; try reflexivity.
      all: destruct (negb (sp_prelaunch sp)); cbn [snd pend_list]; [reflexivity|].
      all: destruct (alookup (reg s) (a_path x ++ [sp_name sp])); cbn [snd pend_list pend1 app]; nu HP; reflexivity.
    + (* AStash *) destruct (a_cur x); reflexivity.
    + (* AUnstash *)
      destruct n as [n|].
      * destruct (a_stash x) as [|e0 r] eqn:Es.
        { cbn [length Nat.eqb snd pend_list]. rewrite firstn_nil. reflexivity. }
        cbn [length Nat.eqb snd]. rewrite pend_list_unstash. reflexivity.
      * destruct (a_stash x) as [|e0 r] eqn:Es; [reflexivity|]. cbn [snd pend_list pend1 unstash_k firstn].
        unfold cnt_env. cbn [filter]. destruct (P (e_msg e0)); reflexivity.
    + (* ASub *) destruct (alookup (subscribers s ty) (a_path x)); reflexivity.
    + (* AUnsub *) destruct (nlookup (subs s) ty); reflexivity.
  - (* IBeh *)
    destruct (a_zombie x); [reflexivity|]. destruct (a_parent x).
    + destruct (take_until_panic acts) as [pre panics]. cbn [snd]. rewrite pend_list_app, pend_list_map_act.
      destruct panics; [|reflexivity]. destruct r; try reflexivity.
      destruct (a_state x); try reflexivity. destruct (ref_eq s who (RObj (self_of t))); reflexivity.
    + destruct m; try reflexivity. destruct (ref_eq s who (RObj (self_of t))); reflexivity.
  - (* IFailed *) nu HP. reflexivity.
  - (* IPub *) destruct (subscribers s ty); cbn [snd pend_list pend1]; nu HP; [reflexivity|lia].
  - (* IDoKill *)
    destruct (a_children x); cbn [snd app pend_list pend1]; nu HP; [reflexivity|lia].
  - (* IOnKilled *)
    destruct (a_zombie x); [reflexivity|]. destruct (ref_eq s who (RObj (self_of t))); reflexivity.
  - (* ICheckMark *)
    destruct (a_children x); [|reflexivity]. destruct (a_state x); try reflexivity.
    cbn [snd app pend_list pend1]. destruct (a_restarting x); reflexivity.
  - (* ICleanup *)
    cbn [snd]. rewrite !pend_list_app.
    destruct (a_watchers x); destruct (a_parent x); cbn [pend_list pend1]; nu HP; lia.
  - (* IRestartFinish *)
    destruct (a_hooks x) as [|[[h1 h2] h3] hs]; [reflexivity|]. destruct (h2 && h3); reflexivity.
  - (* ISupApply *)
    destruct d; cbn [snd is_graceful negb]; rewrite ?pend_list_app;
      rewrite ?(pend_list_tells P (fun r => IEnq false r (RObj (self_of t)) (MRestart true)) (MRestart true)) by (intros; reflexivity);
      rewrite ?(pend_list_tells P (fun r => IEnq true r (RObj (self_of t)) (MRestart false)) (MRestart false)) by (intros; reflexivity);
      rewrite ?(pend_list_tells P (fun r => IEnq false r (RObj (self_of t)) (MKill (RObj (self_of t)) true)) (MKill (RObj (self_of t)) true)) by (intros; reflexivity);
      rewrite ?(pend_list_tells P (fun r => IEnq true r (RObj (self_of t)) (MKill (RObj (self_of t)) false)) (MKill (RObj (self_of t)) false)) by (intros; reflexivity);
      rewrite ?(pend_list_tells P (fun r => IEnq true r (RObj (self_of t)) MCmdResume) MCmdResume) by (intros; reflexivity);
      cbn [pend_list pend1]; nu HP; lia.
Qed.

(** HandleEnvelop itself (before the behaviour runs) sends no user message *)
Lemma dispatch_no_user P s a x e : user_class P -> pend_list P (snd (dispatch s a x e)) = 0.
Proof.
  intros HP. unfold dispatch.
  repeat match goal with
         | |- context[if ?c then _ else _] => destruct c
         | |- context[match ?c with _ => _ end] => destruct c
         end; cbn [snd]; rewrite ?pend_list_app; cbn [pend_list pend1 e_msg]; nu HP; lia.
Qed.

(* ------------------------------------------------------------------ one atomic phase *)

Lemma exec1_pend s t h i t' : pend_of (fst (exec1 s t h i)) t' = pend_of s t'.
Proof.
  destruct t' as [b|j].
  - assert (K : keeps a_pend [] s (fst (exec1 s t h i))).
    { apply keeps_exec1; [|reflexivity]. intros x y Hl. apply (lu_pend _ _ _ Hl). }
    exact (K b).
  - cbn [pend_of]. pose proof (exec1_exts_pend s t h i) as E.
    apply (f_equal (fun l => nth_error l j)) in E. rewrite !nth_error_map in E.
    destruct (nth_error (exts (fst (exec1 s t h i))) j), (nth_error (exts s) j); cbn in E; congruence.
Qed.

Lemma err_false_before_run_atomic f s t : err (run_atomic f s t) = false -> err s = false.
Proof. intros H. destruct (err s) eqn:E; [|reflexivity]. rewrite (err_mono_run_atomic f s t E) in H. discriminate. Qed.

Lemma err_false_before_set_pend s t l : err (set_pend s t l) = false -> err s = false.
Proof. intros H. destruct (err s) eqn:E; [|reflexivity]. rewrite (set_pend_err_mono s t l E) in H. discriminate. Qed.

Lemma atomic_sum_S g f s t :
  atomic_sum g (S f) s t =
  match pend_of s t with
  | [] => 0
  | IEnq _ _ _ _ :: _ => 0
  | i :: rest =>
      if yielding i then 0
      else let s0 := set_pend s t rest in
           let (s1, front) := exec1 s0 t (held_of s0 t) i in
           g s0 t i + atomic_sum g f (set_pend s1 t (front ++ pend_of s1 t)) t
  end.
Proof. reflexivity. Qed.

Lemma pend1_atomic P i : yielding i = false -> is_enq i = false -> pend1 P i = 0.
Proof. destruct i; cbn; try discriminate; try reflexivity. destruct remaining; [reflexivity|discriminate]. Qed.

Lemma atomic_balance P : user_class P -> forall f s t,
  err (run_atomic f s t) = false ->
  pend_list P (pend_of (run_atomic f s t) t) = pend_list P (pend_of s t) + atomic_sum (issued1 P) f s t.
Proof.
  intros HP. induction f as [|f IH]; intros s t Herr; [discriminate Herr|].
  rewrite run_atomic_S in *. rewrite atomic_sum_S. destruct (pend_of s t) as [|i rest] eqn:Hp.
  - rewrite Hp. cbn [pend_list]. lia.
  - assert (Hgen : yielding i = false -> is_enq i = false ->
        err (let s0 := set_pend s t rest in let (s1, front) := exec1 s0 t (held_of s0 t) i in
             run_atomic f (set_pend s1 t (front ++ pend_of s1 t)) t) = false ->
        pend_list P (pend_of (let s0 := set_pend s t rest in let (s1, front) := exec1 s0 t (held_of s0 t) i in
             run_atomic f (set_pend s1 t (front ++ pend_of s1 t)) t) t)
        = pend_list P (i :: rest) +
          (let s0 := set_pend s t rest in let (s1, front) := exec1 s0 t (held_of s0 t) i in
           issued1 P s0 t i + atomic_sum (issued1 P) f (set_pend s1 t (front ++ pend_of s1 t)) t)).
    { intros Hy He Herr'. cbv zeta in *.
      pose proof (exec1_issues P (set_pend s t rest) t (held_of (set_pend s t rest) t) i HP Hy He) as Hi.
      pose proof (exec1_pend (set_pend s t rest) t (held_of (set_pend s t rest) t) i t) as Hpe.
      destruct (exec1 (set_pend s t rest) t (held_of (set_pend s t rest) t) i) as [s1 front] eqn:E.
      cbn [fst snd] in Hi, Hpe.
      rewrite (IH _ _ Herr').
      pose proof (err_false_before_run_atomic _ _ _ Herr') as E2.
      rewrite (ProofsMailMicro2.pend_of_set_pend_ok _ _ _ E2).
      assert (E0 : err (set_pend s t rest) = false).
      { pose proof (err_false_before_set_pend _ _ _ E2) as E1.
        destruct (err (set_pend s t rest)) eqn:E0; [|reflexivity].
        assert (X : err (fst (exec1 (set_pend s t rest) t (held_of (set_pend s t rest) t) i)) = true)
          by (apply (proj2 (proj2 (exec1_state (set_pend s t rest) t (held_of (set_pend s t rest) t) i))); exact E0).
        rewrite E in X. cbn [fst] in X. congruence. }
      rewrite Hpe, (ProofsMailMicro2.pend_of_set_pend_ok _ _ _ E0).
      rewrite pend_list_app, Hi. cbn [pend_list]. rewrite (pend1_atomic P i Hy He). lia. }
    destruct (yielding i) eqn:Hy.
    + assert (E : (match i with IEnq sys to sender m => let (mb, s1) := resolve s to in set_pend s1 t (IEnqR sys mb sender m :: rest)
                   | _ => s end) = s) by (destruct i; try reflexivity; discriminate Hy).
      destruct i; try discriminate Hy; rewrite Hp; lia.
    + destruct (is_enq i) eqn:He.
      * destruct i; try discriminate He.
        destruct (resolve s to) as [mb s1] eqn:Er.
        rewrite (ProofsMailMicro2.pend_of_set_pend_ok _ _ _ Herr). cbn [pend_list pend1]. lia.
      * destruct i; try discriminate He; try discriminate Hy; try exact (Hgen eq_refl eq_refl Herr).
Qed.

(* ------------------------------------------------------------------ one event *)

Lemma tid_eqb_spec t u : reflect (t = u) (tid_eqb t u).
Proof.
  destruct t as [a|i], u as [b|j]; cbn [tid_eqb]; try (constructor; discriminate).
  - destruct (Nat.eqb_spec a b); constructor; congruence.
  - destruct (Nat.eqb_spec i j); constructor; congruence.
Qed.

Lemma tid_eqb_refl t : tid_eqb t t = true.
Proof. destruct (tid_eqb_spec t t); congruence. Qed.

Lemma remove_nth_length {A} (l : list A) c x : nth_error l c = Some x -> S (length (firstn c l ++ skipn (S c) l)) = length l.
Proof.
  revert c. induction l as [|h l IH]; intros [|c] H; cbn in *; try discriminate; [reflexivity|].
  rewrite (IH c H). reflexivity.
Qed.

Lemma pre_atomic_thread s ev s' t : pre_atomic s ev = Some (s', t) -> t = SpecSup.ev_thread ev.
Proof.
  destruct ev; cbn [pre_atomic]; try discriminate.
  - destruct (get s a) as [x|]; [|discriminate]. destruct (a_cons x); try discriminate.
    destruct (dispatch _ a _ e). intros H. injection H as _ <-. reflexivity.
  - destruct (pend_of s t0) as [|i rest]; [discriminate|]. destruct i; try discriminate. intros H. injection H as _ <-. reflexivity.
  - destruct (pend_of s t0) as [|i rest]; [discriminate|]. destruct i; try discriminate. intros H. injection H as _ <-. reflexivity.
  - destruct (pend_of s t0) as [|i rest]; [discriminate|]. destruct i; try discriminate.
    destruct (get s (self_of t0)) as [x|]; [|discriminate]. destruct (a_paused x); [discriminate|].
    intros H. injection H as _ <-. reflexivity.
  - destruct (pend_of s t0) as [|i rest]; [discriminate|]. destruct i; try discriminate. intros H. injection H as _ <-. reflexivity.
  - intros H. injection H as _ <-. reflexivity.
Qed.

Lemma landing_weight P mb e :
  user_class P ->
  b2n (P (e_msg (snd (landing mb e)))) + match mb with MbDead => b2n (P (e_msg e)) | _ => 0 end = b2n (P (e_msg e)).
Proof.
  intros HP. destruct mb; cbn [landing snd]; try lia.
  unfold dead_env. cbn [e_msg]. rewrite (nonuser P (MDeadLetter (e_sys e) (e_msg e)) HP eq_refl). lia.
Qed.

Theorem step_thread_balance P s ev t :
  user_class P -> wf s -> err (step s ev) = false ->
  pend_list P (pend_of (step s ev) t) + pushed1 P s ev t + dead_at_push1 P s ev t =
  pend_list P (pend_of s t) + step_sum (issued1 P) s ev t.
Proof.
  intros HP W Herr.
  destruct (tid_eqb_spec (SpecSup.ev_thread ev) t) as [Et|Nt].
  2:{ (* another thread's step *)
    rewrite (ProofsSup.step_pend_frame s ev t Nt).
    assert (E1 : pushed1 P s ev t = 0).
    { destruct ev; try reflexivity. cbn [pushed1 SpecSup.ev_thread] in *. destruct (tid_eqb_spec t0 t); [congruence|reflexivity]. }
    assert (E2 : dead_at_push1 P s ev t = 0).
    { destruct ev; try reflexivity. cbn [dead_at_push1 SpecSup.ev_thread] in *. destruct (tid_eqb_spec t0 t); [congruence|reflexivity]. }
    assert (E3 : step_sum (issued1 P) s ev t = 0).
    { unfold step_sum. destruct (pre_atomic s ev) as [[s' t']|] eqn:E; [|reflexivity].
      rewrite (pre_atomic_thread _ _ _ _ E). destruct (tid_eqb_spec (SpecSup.ev_thread ev) t); [congruence|reflexivity]. }
    rewrite E1, E2, E3. lia. }
  subst t. unfold step_sum. rewrite (step_pre s ev) in *.
  destruct (pre_atomic s ev) as [[s' t']|] eqn:Epre.
  - (* an atomic phase of this thread *)
    pose proof (pre_atomic_thread _ _ _ _ Epre) as Et. subst t'. rewrite tid_eqb_refl.
    rewrite (atomic_balance P HP FUEL s' _ Herr).
    assert (Es' : err s' = false) by (apply (err_false_before_run_atomic _ _ _ Herr)).
    assert (Z1 : pushed1 P s ev (SpecSup.ev_thread ev) = 0) by (destruct ev; try reflexivity; discriminate Epre).
    assert (Z2 : dead_at_push1 P s ev (SpecSup.ev_thread ev) = 0) by (destruct ev; try reflexivity; discriminate Epre).
    rewrite Z1, Z2.
    assert (Hpl : pend_list P (pend_of s' (SpecSup.ev_thread ev)) = pend_list P (pend_of s (SpecSup.ev_thread ev))); [|lia].
    destruct ev; cbn [pre_atomic SpecSup.ev_thread] in *; try discriminate Epre.
    + (* EvHandle *)
      destruct (get s a) as [x|] eqn:Hg; [|discriminate]. destruct (a_cons x) eqn:Hc; try discriminate.
      pose proof (dispatch_no_user P (set_actor s a (set_mb x (a_sq x) (a_uq x) (a_paused x) (CBusy (mode_top x)) (a_cur x))) a
                    (set_mb x (a_sq x) (a_uq x) (a_paused x) (CBusy (mode_top x)) (a_cur x)) e HP) as Hd.
      destruct (dispatch _ a _ e) as [s1 ins]. cbn [snd] in Hd. injection Epre as <-.
      change (with_actor s1 a (fun x : actor => upd_pend x ins)) with (set_pend s1 (TA a) ins) in *.
      rewrite (ProofsMailMicro2.pend_of_set_pend_ok s1 (TA a) ins Es'), Hd.
      cbn [pend_of]. rewrite Hg.
      destruct W as [Wa _]. rewrite Forall_forall in Wa.
      assert (Hin : In x (actors s)) by (apply (nth_error_In _ a); exact Hg).
      destruct (Wa x Hin) as [Hp|(md & l & Hb & _)]; [rewrite Hp; reflexivity|congruence].
    + destruct (pend_of s t) as [|i rest]; [discriminate|]. destruct i; try discriminate. injection Epre as <-.
      rewrite (ProofsMailMicro2.pend_of_set_pend_ok _ _ _ Es'). reflexivity.
    + destruct (pend_of s t) as [|i rest]; [discriminate|]. destruct i; try discriminate. injection Epre as <-.
      rewrite (ProofsMailMicro2.pend_of_set_pend_ok _ _ _ Es'). reflexivity.
    + destruct (pend_of s t) as [|i rest]; [discriminate|]. destruct i; try discriminate.
      destruct (get s (self_of t)) as [x|]; [|discriminate]. destruct (a_paused x); [discriminate|]. injection Epre as <-.
      rewrite (ProofsMailMicro2.pend_of_set_pend_ok _ _ _ Es'). reflexivity.
    + destruct (pend_of s t) as [|i rest]; [discriminate|]. destruct i; try discriminate. injection Epre as <-.
      rewrite (ProofsMailMicro2.pend_of_set_pend_ok _ _ _ Es'). reflexivity.
    + injection Epre as <-. reflexivity.
  - (* no atomic phase *)
    destruct ev; cbn [pre_atomic step SpecSup.ev_thread pushed1 dead_at_push1] in *.
    + (* EvSysPop *)
      destruct (get s a) as [x|] eqn:Hg; [|discriminate Herr].
      assert (K : forall co sq, pend_of (set_actor s a (set_mb x sq (a_uq x) (a_paused x) co (a_cur x))) (TA a) = pend_of s (TA a)).
      { intros. cbn [pend_of]. rewrite (get_set_same' _ _ _ _ Hg), Hg. reflexivity. }
      destruct (a_cons x), (a_sq x); try discriminate Herr; rewrite K; lia.
    + destruct (get s a) as [x|] eqn:Hg; [|discriminate Herr].
      destruct (a_cons x); try discriminate Herr.
      cbn [pend_of]. rewrite (get_set_same' _ _ _ _ Hg), Hg. cbn [set_mb a_pend]. lia.
    + destruct (get s a) as [x|] eqn:Hg; [|discriminate Herr].
      assert (K : forall co uq, pend_of (set_actor s a (set_mb x (a_sq x) uq (a_paused x) co (a_cur x))) (TA a) = pend_of s (TA a)).
      { intros. cbn [pend_of]. rewrite (get_set_same' _ _ _ _ Hg), Hg. reflexivity. }
      destruct (a_cons x), (a_uq x); try discriminate Herr; rewrite K; lia.
    + (* EvHandle that does not fit *)
      destruct (get s a) as [x|]; [|discriminate Herr]. destruct (a_cons x); try discriminate Herr.
      destruct (dispatch _ a _ e). discriminate Epre.
    + (* EvPush *)
      rewrite tid_eqb_refl. unfold pushes1, push_of.
      destruct (pend_of s t) as [|i rest] eqn:Hp; [discriminate Herr|].
      destruct i; try discriminate Herr.
      * (* a resolved tell *)
        pose proof (landing_weight P to {| e_sys := sys; e_sender := sender; e_msg := m |} HP) as Lw. cbn [e_msg] in Lw.
        destruct (deliver s to {| e_sys := sys; e_sender := sender; e_msg := m |}) as [s2 a0].
        rewrite (ProofsMailMicro2.pend_of_set_pend_ok _ _ _ Herr). cbn [pend_list pend1].
        destruct (landing to {| e_sys := sys; e_sender := sender; e_msg := m |}) as [tg e'] eqn:El. cbn [snd] in Lw.
        destruct to; lia.
      * rewrite (ProofsMailMicro2.pend_of_set_pend_ok _ _ _ Herr). cbn [pend_list pend1]. lia.
      * (* a fan-out *)
        destruct (nth_error tos choice) as [to|] eqn:En; [|discriminate Herr].
        pose proof (landing_weight P (fst (resolve s to)) {| e_sys := sys; e_sender := sender; e_msg := m |} HP) as Lw. cbn [e_msg] in Lw.
        pose proof (remove_nth_length tos choice to En) as Hlen.
        destruct (resolve s to) as [mb s1]. cbn [fst] in *.
        destruct (deliver s1 mb {| e_sys := sys; e_sender := sender; e_msg := m |}) as [s2 a0].
        rewrite (ProofsMailMicro2.pend_of_set_pend_ok _ _ _ Herr).
        destruct (landing mb {| e_sys := sys; e_sender := sender; e_msg := m |}) as [tg e'] eqn:El. cbn [snd] in Lw.
        destruct (firstn choice tos ++ skipn (S choice) tos) as [|r0 tos'] eqn:Et; cbn [pend_list pend1 length] in *;
          destruct mb; nia.
      * (* the pause loop of a supervisor *)
        destruct (nth_error remaining choice) as [to|] eqn:En; [|discriminate Herr].
        pose proof (landing_weight P (fst (resolve s to)) {| e_sys := true; e_sender := RObj (self_of t); e_msg := MCmdPause |} HP) as Lw.
        cbn [e_msg] in Lw.
        pose proof (remove_nth_length remaining choice to En) as Hlen.
        destruct (resolve s to) as [mb s1]. cbn [fst] in *.
        destruct (deliver s1 mb {| e_sys := true; e_sender := RObj (self_of t); e_msg := MCmdPause |}) as [s2 a0].
        rewrite (ProofsMailMicro2.pend_of_set_pend_ok _ _ _ Herr).
        destruct (landing mb {| e_sys := true; e_sender := RObj (self_of t); e_msg := MCmdPause |}) as [tg e'] eqn:El. cbn [snd] in Lw.
        cbn [pend_list pend1 length] in *. destruct mb; nia.
    + destruct (pend_of s t) as [|i rest]; [discriminate Herr|]. destruct i; try discriminate Herr. discriminate Epre.
    + destruct (pend_of s t) as [|i rest]; [discriminate Herr|]. destruct i; try discriminate Herr. discriminate Epre.
    + (* EvResume1 on a paused mailbox *)
      destruct (pend_of s t) as [|i rest] eqn:Hp; [discriminate Herr|]. destruct i; try discriminate Herr.
      destruct (get s (self_of t)) as [x|] eqn:Hg; [|discriminate Herr].
      destruct (a_paused x); [|discriminate Epre].
      rewrite (ProofsMailMicro2.pend_of_set_pend_ok _ _ _ Herr). cbn [pend_list pend1]. lia.
    + destruct (pend_of s t) as [|i rest]; [discriminate Herr|]. destruct i; try discriminate Herr. discriminate Epre.
    + discriminate Epre.
Qed.

(* ------------------------------------------------------------------ a run *)

Theorem thread_balance_run P : user_class P -> forall evs s t,
  wf s -> err (run_events evs s) = false ->
  pend_list P (pend_of (run_events evs s) t) + pushed P evs s t + dead_at_push P evs s t =
  pend_list P (pend_of s t) + issued P evs s t.
Proof.
  intros HP. induction evs as [|ev r IH]; intros s t W Herr.
  - cbn. lia.
  - change (run_events (ev :: r) s) with (run_events r (step s ev)) in *.
    pose proof (err_false_run_head r s ev Herr) as He.
    pose proof (step_thread_balance P s ev t HP W He) as B1.
    pose proof (IH (step s ev) t (proj1 (step_wf_held s ev W He)) Herr) as B2.
    unfold issued in *. cbn [pushed dead_at_push run_sum]. lia.
Qed.

Lemma pend_zero_set_pend_act P s t sc :
  (forall u, pend_list P (pend_of s u) = 0) -> forall u, pend_list P (pend_of (set_pend s t (map IAct sc)) u) = 0.
Proof.
  intros H u. destruct (tid_eqb_spec u t) as [->|Nu]; [|rewrite (ProofsSup.pend_of_set_pend_other s t _ u Nu); apply H].
  destruct t as [a|i]; cbn [set_pend].
  - unfold with_actor. destruct (get s a) as [x|] eqn:Hg.
    + cbn [pend_of]. rewrite (get_set_same' _ _ _ _ Hg). cbn [upd_pend a_pend]. apply pend_list_map_act.
    + specialize (H (TA a)). cbn [pend_of] in *. change (get (set_err s) a) with (get s a). exact H.
  - destruct (nth_error (exts s) i) as [ex|] eqn:Hn.
    + cbn [pend_of set_ext exts]. rewrite nth_upd_eq by (eapply nth_error_lt; exact Hn). cbn [x_pend]. apply pend_list_map_act.
    + specialize (H (TX i)). cbn [pend_of] in *. change (exts (set_err s)) with (exts s). exact H.
Qed.

Lemma pend_zero_init P scs t : pend_list P (pend_of (init_with scs) t) = 0.
Proof.
  unfold init_with.
  assert (G : forall scs s i, (forall u, pend_list P (pend_of s u) = 0) -> forall u, pend_list P (pend_of (set_exts s i scs) u) = 0).
  { clear. induction scs as [|sc r IH]; intros s i H u; cbn [set_exts]; [apply H|].
    apply IH. apply pend_zero_set_pend_act. exact H. }
  apply G. intros u. destruct u as [a|j]; cbn [pend_of].
  - unfold get, init_state. cbn [actors]. destruct a as [|[|a]]; reflexivity.
  - unfold init_state. cbn [exts]. destruct (nth_error (repeat {| x_pend := []; x_held := [] |} (length scs)) j) as [ex|] eqn:E; [|reflexivity].
    apply nth_error_In, repeat_spec in E. subst ex. reflexivity.
Qed.

(** every history from an initial state: what a thread has issued = what it has inserted + what became a dead-letter
    report at the insertion + what is still pending in its instruction list *)
Theorem thread_history P scs evs t :
  user_class P -> err (run_events evs (init_with scs)) = false ->
  issued P evs (init_with scs) t =
  pushed P evs (init_with scs) t + dead_at_push P evs (init_with scs) t + pend_list P (pend_of (run_events evs (init_with scs)) t).
Proof.
  intros HP He. pose proof (thread_balance_run P HP evs (init_with scs) t (ProofsMailAcct.wf_init scs) He) as H.
  rewrite pend_zero_init in H. lia.
Qed.

(** at quiescence nothing is pending anywhere *)
Lemma quiescent_no_pending s t : quiescent s = true -> pend_of s t = [].
Proof.
  unfold quiescent. intros H. apply andb_prop in H as [Ha Hx]. rewrite forallb_forall in Ha, Hx.
  destruct t as [a|i]; cbn [pend_of].
  - destruct (get s a) as [x|] eqn:Hg; [|reflexivity].
    specialize (Ha x (nth_error_In _ _ Hg)). unfold idle_actor in Ha. destruct (a_pend x); [reflexivity|discriminate Ha].
  - destruct (nth_error (exts s) i) as [ex|] eqn:Hn; [|reflexivity].
    specialize (Hx ex (nth_error_In _ _ Hn)). destruct (x_pend ex); [reflexivity|discriminate Hx].
Qed.

Theorem thread_history_quiescent P scs evs t :
  user_class P -> err (run_events evs (init_with scs)) = false -> quiescent (run_events evs (init_with scs)) = true ->
  issued P evs (init_with scs) t = pushed P evs (init_with scs) t + dead_at_push P evs (init_with scs) t.
Proof.
  intros HP He Hq. rewrite (thread_history P scs evs t HP He), (quiescent_no_pending _ t Hq). cbn [pend_list]. lia.
Qed.

(* ------------------------------------------------------------------ issued = sent + taken out of the own stash *)

Lemma issued1_split P s t i : issued1 P s t i = sent1 P s t i + untaken1 P s t i.
Proof.
  unfold issued1, sent1, untaken1. destruct (get s (self_of t)) as [x|]; [|reflexivity].
  destruct i; try reflexivity. destruct a; try reflexivity; lia.
Qed.

Lemma atomic_sum_split (f g h : state -> tid -> instr -> nat) :
  (forall s t i, f s t i = g s t i + h s t i) ->
  forall n s t, atomic_sum f n s t = atomic_sum g n s t + atomic_sum h n s t.
Proof.
  intros E. induction n as [|n IH]; intros s t; [reflexivity|].
  rewrite !atomic_sum_S. destruct (pend_of s t) as [|i rest]; [reflexivity|].
  assert (Hgen : (if yielding i then 0 else
      let s0 := set_pend s t rest in let (s1, front) := exec1 s0 t (held_of s0 t) i in
      f s0 t i + atomic_sum f n (set_pend s1 t (front ++ pend_of s1 t)) t) =
    (if yielding i then 0 else
      let s0 := set_pend s t rest in let (s1, front) := exec1 s0 t (held_of s0 t) i in
      g s0 t i + atomic_sum g n (set_pend s1 t (front ++ pend_of s1 t)) t) +
    (if yielding i then 0 else
      let s0 := set_pend s t rest in let (s1, front) := exec1 s0 t (held_of s0 t) i in
      h s0 t i + atomic_sum h n (set_pend s1 t (front ++ pend_of s1 t)) t)).
  { destruct (yielding i); [reflexivity|]. cbv zeta.
    destruct (exec1 (set_pend s t rest) t (held_of (set_pend s t rest) t) i) as [s1 front].
    rewrite E, IH. lia. }
  destruct i; try exact Hgen. reflexivity.
Qed.

Theorem issued_split P evs : forall s t, issued P evs s t = sent P evs s t + untaken P evs s t.
Proof.
  unfold issued, sent, untaken. induction evs as [|ev r IH]; intros s t; [reflexivity|].
  cbn [run_sum]. rewrite IH. unfold step_sum. destruct (pre_atomic s ev) as [[s' t']|]; [|lia].
  destruct (tid_eqb t' t); [|lia]. rewrite (atomic_sum_split _ _ _ (issued1_split P)). lia.
Qed.

(** what an actor's Unstash calls issue is what the stash log says they took *)
Lemma untaken1_sops P s t i : untaken1 P s t i = cnt_env P (taken_of (self_of t) (instr_sops s t i)).
Proof.
  unfold untaken1, instr_sops. destruct (get s (self_of t)) as [x|]; [|reflexivity].
  destruct i; try reflexivity. destruct a; try reflexivity.
  - destruct (a_cur x); cbn [taken_of flat_map]; reflexivity.
  - destruct (a_stash x) as [|e0 r] eqn:Es.
    + rewrite firstn_nil. reflexivity.
    + rewrite <- Es. cbn [taken_of flat_map]. rewrite Nat.eqb_refl, app_nil_r. reflexivity.
Qed.

Lemma atomic_untaken_sops P : forall n s t,
  atomic_sum (untaken1 P) n s t = cnt_env P (taken_of (self_of t) (atomic_sops n s t)).
Proof.
  induction n as [|n IH]; intros s t; [reflexivity|].
  rewrite atomic_sum_S, atomic_sops_S. destruct (pend_of s t) as [|i rest]; [reflexivity|].
  assert (Hgen : (if yielding i then 0 else
      let s0 := set_pend s t rest in let (s1, front) := exec1 s0 t (held_of s0 t) i in
      untaken1 P s0 t i + atomic_sum (untaken1 P) n (set_pend s1 t (front ++ pend_of s1 t)) t) =
    cnt_env P (taken_of (self_of t) (if yielding i then [] else
      let s0 := set_pend s t rest in let (s1, front) := exec1 s0 t (held_of s0 t) i in
      instr_sops s0 t i ++ atomic_sops n (set_pend s1 t (front ++ pend_of s1 t)) t))).
  { destruct (yielding i); [reflexivity|]. cbv zeta.
    destruct (exec1 (set_pend s t rest) t (held_of (set_pend s t rest) t) i) as [s1 front].
    rewrite taken_app, cnt_env_app, IH, untaken1_sops. reflexivity. }
  destruct i; try exact Hgen. reflexivity.
Qed.

Lemma taken_of_foreign b ops : Forall (fun o => sop_actor o <> b) ops -> taken_of b ops = [].
Proof. intros F. apply (proj2 (parked_of_foreign b ops F)). Qed.

Theorem untaken_is_taken P b : b <> 0%nat -> forall evs s,
  untaken P evs s (TA b) = cnt_env P (taken_of b (run_sops evs s)).
Proof.
  intros Hb. unfold untaken. induction evs as [|ev r IH]; intros s; [reflexivity|].
  cbn [run_sum run_sops]. rewrite taken_app, cnt_env_app, IH. f_equal.
  unfold step_sum, step_sops. destruct (pre_atomic s ev) as [[s' t']|] eqn:E; [|reflexivity].
  destruct (tid_eqb_spec t' (TA b)) as [->|Nt].
  - apply (atomic_untaken_sops P FUEL s' (TA b)).
  - rewrite taken_of_foreign; [reflexivity|].
    eapply Forall_impl; [|apply atomic_sops_actor]. cbn. intros o Ho. rewrite Ho.
    destruct t' as [c|k]; cbn [self_of]; [congruence|auto].
Qed.

(** the stash history in counts *)
Theorem parked_count P scs evs b :
  cnt_env P (parked_of b (run_sops evs (init_with scs))) =
  cnt_env P (taken_of b (run_sops evs (init_with scs))) + cnt_env P (stash_at (run_events evs (init_with scs)) b).
Proof. rewrite (history_balance scs evs b), cnt_env_app. reflexivity. Qed.

(** an actor's own books: what it sent + what it parked = what it inserted + what became a dead-letter report at the
    insertion + what is still pending in its handler + what is still parked *)
Theorem actor_books P scs evs b :
  user_class P -> b <> 0%nat -> err (run_events evs (init_with scs)) = false ->
  sent P evs (init_with scs) (TA b) + cnt_env P (parked_of b (run_sops evs (init_with scs))) =
  pushed P evs (init_with scs) (TA b) + dead_at_push P evs (init_with scs) (TA b) +
  pend_list P (pend_of (run_events evs (init_with scs)) (TA b)) + cnt_env P (stash_at (run_events evs (init_with scs)) b).
Proof.
  intros HP Hb He. pose proof (thread_history P scs evs (TA b) HP He) as H1.
  rewrite issued_split, (untaken_is_taken P b Hb) in H1. rewrite (parked_count P scs evs b). lia.
Qed.
