(** C19, history level, part 3: user code runs only in a context that is still registered.
    [uinv]: in a context's pending instruction list nothing that can lead to user code ([IAct], [IBeh], the five
    lifecycle instructions) follows a lifecycle instruction, and if anything of that kind is pending the context
    "must be registered" ([must_reg], Actor/ProofsMailTree.v: not Killed, or its cleanup / restart completion is
    still pending, or it is a zombie that has not been released).  Invariant of every micro-step. *)
From Coq Require Import List NArith ZArith Bool Permutation Lia Arith.
From Vivid Require Import Actor.Core Actor.CoreRun Actor.SpecMail Actor.ProofsMailBase Actor.ProofsMail Actor.ProofsMailInv Actor.ProofsMailWf
  Actor.ProofsMailAcct Actor.ProofsMailReg Actor.ProofsMailMicro Actor.ProofsMailLife Actor.ProofsMailStep Actor.ProofsMailTree.
Import ListNotations.

(* ------------------------------------------------------------------ the list predicates *)

Definition src (i : instr) : bool := match i with IAct _ | IBeh _ _ _ => true | _ => life i end.
Definition nosrc (l : list instr) : bool := forallb (fun i => negb (src i)) l.
Fixpoint al (l : list instr) : bool :=
  match l with [] => true | j :: post => (if life j then nosrc post else true) && al post end.

Lemma nosrc_app l1 l2 : nosrc (l1 ++ l2) = nosrc l1 && nosrc l2. Proof. apply forallb_app. Qed.
Lemma nosrc_cons i l : nosrc (i :: l) = negb (src i) && nosrc l. Proof. reflexivity. Qed.
Lemma life_src i : life i = true -> src i = true. Proof. destruct i; try discriminate; reflexivity. Qed.
Lemma nosrc_al l : nosrc l = true -> al l = true.
Proof.
  induction l as [|i l IH]; [reflexivity|]. rewrite nosrc_cons. intros H. apply andb_true_iff in H. destruct H as [H1 H2].
  cbn [al]. rewrite (IH H2), H2. destruct (life i); reflexivity.
Qed.
Lemma nosrc_lf l : nosrc l = true -> lf l = [].
Proof.
  induction l as [|i l IH]; [reflexivity|]. rewrite nosrc_cons. intros H. apply andb_true_iff in H. destruct H as [H1 H2].
  unfold lf in *. cbn [filter]. destruct (life i) eqn:E; [rewrite (life_src _ E) in H1; discriminate|auto].
Qed.
Lemma al_app_nolife pre rest : lf pre = [] -> al (pre ++ rest) = al rest.
Proof.
  induction pre as [|j pre IH]; [reflexivity|]. unfold lf in *. cbn [filter app al]. destruct (life j); [discriminate|]. auto.
Qed.
Lemma al_app_front pre rest : al pre = true -> nosrc rest = true -> al (pre ++ rest) = true.
Proof.
  induction pre as [|j pre IH]; intros H1 H2; [apply nosrc_al; exact H2|]. cbn [app al] in *.
  apply andb_true_iff in H1. destruct H1 as [Ha Hb]. rewrite (IH Hb H2), andb_true_r.
  destruct (life j); [|reflexivity]. rewrite nosrc_app, Ha, H2. reflexivity.
Qed.
Lemma al_cons_life i rest : al (i :: rest) = true -> life i = true -> nosrc rest = true.
Proof. cbn [al]. intros H Hl. rewrite Hl in H. apply andb_true_iff in H. apply H. Qed.
Lemma al_tail i rest : al (i :: rest) = true -> al rest = true.
Proof. cbn [al]. intros H. apply andb_true_iff in H. apply H. Qed.
Lemma nosrc_uzc_map_IAct l : nosrc (map IAct l) = true -> l = [].
Proof. destruct l; [reflexivity|discriminate]. Qed.

(** the invariant of one context *)
Definition uinv (x : actor) : Prop := al (a_pend x) = true /\ (must_reg x \/ nosrc (a_pend x) = true).
Definition UI (s : state) : Prop := forall a x, get s a = Some x -> uinv x.

Lemma must_reg_fields x y :
  a_state y = a_state x -> a_zombie y = a_zombie x -> lf (a_pend y) = lf (a_pend x) -> uzc (a_pend y) = uzc (a_pend x) ->
  must_reg x -> must_reg y.
Proof. unfold must_reg. intros -> -> -> ->. auto. Qed.

Lemma uinv_fields x y : a_state y = a_state x -> a_zombie y = a_zombie x -> a_pend y = a_pend x -> uinv x -> uinv y.
Proof.
  intros H1 H2 H3 [A B]. split; [rewrite H3; exact A|]. destruct B as [B|B]; [left|right; rewrite H3; exact B].
  apply (must_reg_fields x y); auto; rewrite H3; reflexivity.
Qed.
Lemma uinv_soft x y : soft x y -> uinv x -> uinv y.
Proof. intros (A & B & _ & D & _). apply uinv_fields; assumption. Qed.
Lemma uinv_new x : is_new x -> uinv x.
Proof. intros (p & g & par & sp & ->). split; [reflexivity|right; reflexivity]. Qed.

(** replacing a head that is neither a lifecycle instruction nor IUnzombie by instructions of that kind *)
Lemma uinv_plain_head x y i pre rest :
  a_pend x = i :: rest -> plain i = true -> lf pre = [] -> uzc pre = 0 -> (src i = false -> nosrc pre = true) ->
  a_state y = a_state x -> a_zombie y = a_zombie x -> a_pend y = pre ++ rest -> uinv x -> uinv y.
Proof.
  intros Hp Hpl Hf Hu Hn Hs Hz Hpy [A B]. rewrite Hp in A, B. pose proof Hpl as Hpl'. unfold plain in Hpl'.
  apply andb_true_iff in Hpl'. destruct Hpl' as [Hl _]. apply negb_true_iff in Hl.
  split.
  - rewrite Hpy, (al_app_nolife _ _ Hf). eapply al_tail; exact A.
  - destruct B as [B|B].
    + left. apply (proj2 (must_reg_plain_head x y i rest pre Hp Hpl Hf Hu Hs Hz Hpy)). exact B.
    + right. rewrite nosrc_cons in B. apply andb_true_iff in B. destruct B as [B1 B2]. apply negb_true_iff in B1.
      rewrite Hpy, nosrc_app, (Hn B1), B2. reflexivity.
Qed.

(* ------------------------------------------------------------------ a finer classification of micro-steps *)

(** [ProofsMailLife.mstep_cases] with two more facts in the "plain" case: the replaced head cannot lead to user
    code, and neither can what replaces it *)
Lemma mstep_cases2 s m :
  quiet s (mstep s m) \/
  (exists t i rest pre s1, pend_of s t = i :: rest /\ plain i = true /\ lf pre = [] /\ uzc pre = 0 /\ quiet s s1 /\
                            mself m = self_of t /\ mstep s m = set_pend s1 t (pre ++ rest) /\ nosrc pre = true) \/
  (exists a x e, m = MHandle a /\ get s a = Some x /\ a_cons x = CH e) \/
  (exists t i rest, m = MAtomic t /\ pend_of s t = i :: rest /\ yielding i = false /\ is_enq i = false /\
                    mstep s m = astep s t i rest).
Proof.
  assert (Hplain : forall t i rest pre s1, pend_of s t = i :: rest -> plain i = true -> lf pre = [] -> uzc pre = 0 -> quiet s s1 ->
            mself m = self_of t -> mstep s m = set_pend s1 t (pre ++ rest) -> nosrc pre = true ->
            quiet s (mstep s m) \/
            (exists t i rest pre s1, pend_of s t = i :: rest /\ plain i = true /\ lf pre = [] /\ uzc pre = 0 /\ quiet s s1 /\
                            mself m = self_of t /\ mstep s m = set_pend s1 t (pre ++ rest) /\ nosrc pre = true) \/
            (exists a x e, m = MHandle a /\ get s a = Some x /\ a_cons x = CH e) \/
            (exists t i rest, m = MAtomic t /\ pend_of s t = i :: rest /\ yielding i = false /\ is_enq i = false /\
                    mstep s m = astep s t i rest)).
  { intros t i rest pre s1 H1 H2 H3 H4 H5 H6 H7 H8. right; left. exists t, i, rest, pre, s1. auto 10. }
  destruct m; cbn [mstep step mself] in *.
  - left. destruct (get s a) as [x|] eqn:Hg; [|apply quiet_same; reflexivity].
    destruct (a_cons x), (a_sq x); try (apply quiet_same; reflexivity); apply quiet_set_mb; exact Hg.
  - left. destruct (get s a) as [x|] eqn:Hg; [|apply quiet_same; reflexivity].
    destruct (a_cons x); try (apply quiet_same; reflexivity); apply quiet_set_mb; exact Hg.
  - left. destruct (get s a) as [x|] eqn:Hg; [|apply quiet_same; reflexivity].
    destruct (a_cons x), (a_uq x); try (apply quiet_same; reflexivity); apply quiet_set_mb; exact Hg.
  - destruct (get s a) as [x|] eqn:Hg; [|left; apply quiet_same; reflexivity].
    destruct (a_cons x) eqn:Hc; try (left; apply quiet_same; reflexivity).
    right; right; left. exists a, x, e. auto.
  - destruct (pend_of s t) as [|i rest] eqn:Hp; [left; apply quiet_same; reflexivity|].
    destruct i; try (left; apply quiet_same; reflexivity).
    + rewrite deliver_eq in *. apply (Hplain t _ rest [] _ Hp eq_refl eq_refl eq_refl (quiet_push_mb s _ _) eq_refl eq_refl eq_refl).
    + apply (Hplain t _ rest [] _ Hp eq_refl eq_refl eq_refl (quiet_push_mb s _ _) eq_refl eq_refl eq_refl).
    + destruct (nth_error tos c) as [r|]; [|left; apply quiet_same; reflexivity].
      pose proof (quiet_resolve s r) as Hr. destruct (resolve s r) as [mb s1]. cbn [snd] in Hr. rewrite deliver_eq in *.
      assert (Hq : quiet s (push_mb s1 (fst (landing mb {| e_sys := sys; e_sender := sender; e_msg := m |})) (snd (landing mb {| e_sys := sys; e_sender := sender; e_msg := m |}))))
        by (eapply quiet_trans; [exact Hr|apply quiet_push_mb]).
      destruct (firstn c tos ++ skipn (S c) tos) as [|r0 tl0].
      * apply (Hplain t _ rest [IEnqDone] _ Hp eq_refl eq_refl eq_refl Hq eq_refl eq_refl eq_refl).
      * apply (Hplain t _ rest [IEnqDone; IEnqAny sys (r0 :: tl0) sender m] _ Hp eq_refl eq_refl eq_refl Hq eq_refl eq_refl eq_refl).
    + destruct (nth_error remaining c) as [r|]; [|left; apply quiet_same; reflexivity].
      pose proof (quiet_resolve s r) as Hr. destruct (resolve s r) as [mb s1]. cbn [snd] in Hr. rewrite deliver_eq in *.
      match goal with |- context[set_pend ?s2 t (IEnqDone :: ?i2 :: rest)] =>
        assert (Hq : quiet s s2) by (eapply quiet_trans; [exact Hr|apply quiet_push_mb]);
        apply (Hplain t _ rest [IEnqDone; i2] _ Hp eq_refl eq_refl eq_refl Hq eq_refl eq_refl eq_refl) end.
  - destruct (pend_of s t) as [|i rest] eqn:Hp; [left; apply quiet_same; reflexivity|].
    destruct i; try (left; apply quiet_same; reflexivity).
    apply (Hplain t _ rest [] s Hp eq_refl eq_refl eq_refl (quiet_refl s) eq_refl eq_refl eq_refl).
  - destruct (pend_of s t) as [|i rest] eqn:Hp; [left; apply quiet_same; reflexivity|].
    destruct i; try (left; apply quiet_same; reflexivity).
    match goal with |- context[set_pend ?s1 t rest] =>
      assert (Hq : quiet s s1) by (apply quiet_with_actor; intros; split; [repeat split|reflexivity]);
      apply (Hplain t _ rest [] s1 Hp eq_refl eq_refl eq_refl Hq eq_refl eq_refl eq_refl) end.
  - destruct (pend_of s t) as [|i rest] eqn:Hp; [left; apply quiet_same; reflexivity|].
    destruct i; try (left; apply quiet_same; reflexivity).
    destruct (get s (self_of t)) as [x|] eqn:Hg; [|left; apply quiet_same; reflexivity].
    destruct (a_paused x).
    + match goal with |- context[set_pend ?s1 t (IResume2 :: rest)] =>
        assert (Hq : quiet s s1) by (apply quiet_set_mb; exact Hg);
        apply (Hplain t _ rest [IResume2] s1 Hp eq_refl eq_refl eq_refl Hq eq_refl eq_refl eq_refl) end.
    + apply (Hplain t _ rest [] s Hp eq_refl eq_refl eq_refl (quiet_refl s) eq_refl eq_refl eq_refl).
  - destruct (pend_of s t) as [|i rest] eqn:Hp; [left; apply quiet_same; reflexivity|].
    destruct i; try (left; apply quiet_same; reflexivity).
    apply (Hplain t _ rest [] s Hp eq_refl eq_refl eq_refl (quiet_refl s) eq_refl eq_refl eq_refl).
  - destruct (pend_of s t) as [|i rest] eqn:Hp; [left; apply quiet_refl|].
    destruct (is_enq i) eqn:Hq.
    + destruct i; try discriminate Hq.
      apply (Hplain t _ rest [IEnqR sys (fst (resolve s to)) sender m] _ Hp eq_refl eq_refl eq_refl (quiet_resolve s to) eq_refl eq_refl eq_refl).
    + destruct (yielding i) eqn:Hy.
      * left. destruct i; try discriminate Hy; try apply quiet_refl; try (destruct remaining; [discriminate Hy|apply quiet_refl]).
      * right; right; right. exists t, i, rest. split; [reflexivity|]. split; [exact Hp|]. split; [exact Hy|]. split; [exact Hq|].
        destruct i; try discriminate Hq; try discriminate Hy; try reflexivity; try (destruct remaining; [reflexivity|discriminate Hy]).
Qed.

(* ------------------------------------------------------------------ what exec1 and dispatch put in front *)

Lemma nosrc_flat_map {A} (f : A -> list instr) l : (forall a, nosrc (f a) = true) -> nosrc (flat_map f l) = true.
Proof. intros H. induction l; cbn [flat_map]; [reflexivity|]. rewrite nosrc_app, H, IHl. reflexivity. Qed.

(** an instruction that cannot lead to user code is replaced by instructions of that kind *)
Lemma exec1_front_nosrc s t h i : src i = false -> nosrc (snd (exec1 s t h i)) = true.
Proof.
  intros Hi. unfold exec1. destruct (get s (self_of t)) as [x|]; [|reflexivity].
  destruct i; try discriminate Hi; cbn [snd]; try reflexivity.
  - destruct remaining; reflexivity.
  - destruct (subscribers s ty); reflexivity.
  - destruct d; cbn [snd is_graceful]; rewrite ?nosrc_app;
      repeat match goal with
             | |- context[nosrc (flat_map ?f ?l)] => rewrite (nosrc_flat_map f l) by reflexivity
             end; reflexivity.
Qed.

Lemma dispatch_al s a x e : al (snd (dispatch s a x e)) = true.
Proof.
  unfold dispatch.
  repeat match goal with |- context[match ?e with _ => _ end] => destruct e end; reflexivity.
Qed.

Definition deadb (x : actor) (e : envelope) : bool :=
  (match a_state x with Killed => true | Running => false | Killing => negb (e_sys e) && negb (match e_msg e with MKill _ _ => true | _ => false end) end)
  && negb (a_zombie x).

Lemma dispatch_dead_nosrc s a x e : deadb x e = true -> nosrc (snd (dispatch s a x e)) = true.
Proof. unfold dispatch, deadb. intros ->. destruct (a_parent x); reflexivity. Qed.

Lemma deadb_false x e : deadb x e = false -> a_state x <> Killed \/ a_zombie x = true.
Proof. unfold deadb. destruct (a_state x), (a_zombie x); cbn; intros H; try discriminate; auto; left; discriminate. Qed.

(* ------------------------------------------------------------------ one atomic instruction of the context's own handler *)

Lemma nosrc_cleanup_sends a x : nosrc (cleanup_sends a x) = true.
Proof. unfold cleanup_sends. destruct (a_watchers x), (a_parent x); reflexivity. Qed.

Lemma must_reg_of_src x : uinv x -> nosrc (a_pend x) = false -> must_reg x.
Proof. intros [_ [H|H]] Hn; [exact H|congruence]. Qed.

(** lifecycle head [i]: nothing behind it can lead to user code, the context must be registered, and of the four
    reasons only "not Killed" and "unreleased zombie" are possible *)
Lemma life_head x i rest :
  a_pend x = i :: rest -> life i = true -> i <> ICleanup -> i <> IRestartFinish -> uinv x ->
  nosrc rest = true /\ (a_state x <> Killed \/ (a_zombie x = true /\ uzc rest = 0)).
Proof.
  intros Hp Hl Hc Hr [A B]. rewrite Hp in A, B. pose proof (al_cons_life _ _ A Hl) as Hn. split; [exact Hn|].
  destruct B as [B|B]; [|rewrite nosrc_cons, (life_src _ Hl) in B; discriminate B].
  unfold must_reg in B. rewrite Hp in B. rewrite (lf_cons_life _ _ Hl), (nosrc_lf _ Hn) in B.
  destruct B as [B|[B|[B|[B1 B2]]]]; [left; exact B| | |right].
  - destruct B as [B|[]]. congruence.
  - destruct B as [B|[]]. congruence.
  - split; [exact B1|]. rewrite uzc_cons_plain in B2; [exact B2|]. destruct i; try discriminate Hl; reflexivity.
Qed.

Lemma mk_uinv_life y pend :
  al pend = true ->
  (a_state y <> Killed \/ In ICleanup (lf pend) \/ In IRestartFinish (lf pend) \/ (a_zombie y = true /\ uzc pend = 0)) ->
  uinv (upd_pend y pend).
Proof. intros A B. split; [exact A|]. left. exact B. Qed.

Lemma uinv_astep_TA s a x i rest :
  get s a = Some x -> a_pend x = i :: rest -> yielding i = false -> is_enq i = false -> linv x -> uinv x ->
  exists x', get (astep s (TA a) i rest) a = Some x' /\ uinv x'.
Proof.
  intros Hg Hp Hy Hq HL HU.
  assert (Hl : a < length (actors s)) by (eapply nth_error_lt; exact Hg).
  assert (Hset : forall y l, get (set_actor s a (upd_pend y l)) a = Some (upd_pend y l)) by (intros; apply get_set_same; exact Hl).
  destruct (plain i) eqn:Hpl.
  - (* neither a lifecycle instruction nor IUnzombie *)
    destruct (astep_TA_get s a x i rest Hg Hp) as (y & Hy1 & Hpy & E). cbv zeta in *.
    set (s0 := set_actor s a (upd_pend x rest)) in *.
    assert (Hg0 : get s0 (self_of (TA a)) = Some (upd_pend x rest)) by (apply get_set_same; exact Hl).
    destruct (exec1_plain_lc s0 (TA a) [] i _ Hg0 Hpl) as (y' & Hy' & Hs & Hz & _). cbn [self_of] in Hy'.
    assert (y' = y) by congruence; subst y'.
    destruct (exec1_front_plain s0 (TA a) [] i Hpl) as [Hf Hu].
    rewrite E. eexists. split; [apply (get_set_same' _ _ _ _ Hy1)|].
    eapply (uinv_plain_head x _ i _ rest Hp Hpl Hf Hu); [intros Hi; apply exec1_front_nosrc; exact Hi|exact Hs|exact Hz|reflexivity|exact HU].
  - unfold plain in Hpl. destruct (is_unzombie i) eqn:Hun.
    + (* IUnzombie *)
      destruct i; try discriminate Hun. rewrite (astep_unzombie s a x rest Hg). eexists. split; [apply Hset|].
      destruct HU as [A B]. rewrite Hp in A, B. split; [cbn [upd_pend a_pend]; eapply al_tail; exact A|].
      cbn [upd_pend a_pend]. destruct B as [B|B]; [left|right; rewrite nosrc_cons in B; apply andb_true_iff in B; apply B].
      unfold must_reg in *. rewrite Hp in B. cbn [upd_pend set_zombie upd_local a_state a_zombie a_pend].
      rewrite (lf_cons_plain IUnzombie rest eq_refl) in B. destruct B as [B|[B|[B|[_ B]]]]; auto. discriminate B.
    + assert (Hlife : life i = true) by (destruct (life i); [reflexivity|discriminate Hpl]). clear Hpl.
      destruct i; try discriminate Hlife.
      * (* IDoKill *)
        destruct (life_head x _ rest Hp eq_refl ltac:(discriminate) ltac:(discriminate) HU) as [Hn Hm].
        rewrite (astep_dokill s a x rest Hg). eexists. split; [apply Hset|].
        apply mk_uinv_life.
        -- apply al_app_front; [|exact Hn]. destruct (a_children x); reflexivity.
        -- destruct Hm as [Hm|[Hm1 Hm2]]; [left; exact Hm|right; right; right]. split; [exact Hm1|].
           rewrite uzc_app, Hm2. destruct (a_children x); reflexivity.
      * (* IOnKilled *)
        destruct (life_head x _ rest Hp eq_refl ltac:(discriminate) ltac:(discriminate) HU) as [Hn Hm].
        destruct (a_zombie x) eqn:Hz.
        -- rewrite (astep_onkilled_zombie s a x rest Hg who Hz). eexists. split; [apply Hset|].
           apply mk_uinv_life; [|right; left; left; reflexivity].
           apply al_app_front; [|exact Hn]. reflexivity.
        -- destruct Hm as [Hm|[Hm _]]; [|discriminate Hm].
           destruct (ref_eq (set_actor s a (upd_pend x rest)) who (RObj a)) eqn:Hre.
           ++ rewrite (astep_onkilled_self s a x rest Hg who Hz Hre). eexists. split; [apply Hset|].
              apply mk_uinv_life; [|left; exact Hm]. apply al_app_front; [reflexivity|exact Hn].
           ++ rewrite (astep_onkilled_other s a x rest Hg who Hz Hre). eexists. split; [apply Hset|].
              apply mk_uinv_life; [|left; exact Hm]. apply al_app_front; [reflexivity|exact Hn].
      * (* ICheckMark *)
        destruct (life_head x _ rest Hp eq_refl ltac:(discriminate) ltac:(discriminate) HU) as [Hn Hm].
        destruct (a_children x) as [|c cs] eqn:Hch.
        -- destruct (a_state x) eqn:Hst.
           ++ rewrite (astep_checkmark_idle s a x rest Hg) by (right; congruence). eexists. split; [apply Hset|].
              split; [apply nosrc_al; exact Hn|right; exact Hn].
           ++ rewrite (astep_checkmark_kill s a x rest Hg Hch Hst). eexists. split; [apply Hset|].
              apply mk_uinv_life.
              ** apply al_app_front; [|exact Hn]. destruct (a_restarting x); reflexivity.
              ** destruct (a_restarting x); [right; right; left|right; left]; rewrite lf_app; apply in_or_app; left; left; reflexivity.
           ++ rewrite (astep_checkmark_idle s a x rest Hg) by (right; congruence). eexists. split; [apply Hset|].
              split; [apply nosrc_al; exact Hn|right; exact Hn].
        -- rewrite (astep_checkmark_idle s a x rest Hg) by (left; congruence). eexists. split; [apply Hset|].
           split; [apply nosrc_al; exact Hn|right; exact Hn].
      * (* ICleanup *)
        destruct HU as [A _]. rewrite Hp in A. pose proof (al_cons_life _ _ A eq_refl) as Hn.
        rewrite (astep_cleanup s a x rest Hg). eexists. split; [apply get_set_same; cbn; exact Hl|].
        assert (Hns : nosrc ((cleanup_sends a x ++ [IPub evKilled (actor_key x); IResume1]) ++ rest) = true)
          by (rewrite !nosrc_app, nosrc_cleanup_sends, Hn; reflexivity).
        split; [apply nosrc_al; exact Hns|right; exact Hns].
      * (* IRestartFinish *)
        destruct HU as [A _]. rewrite Hp in A. pose proof (al_cons_life _ _ A eq_refl) as Hn.
        destruct (restart_ok x) eqn:Hok.
        -- rewrite (astep_restart_ok s a x rest Hg Hok). eexists. split; [apply Hset|].
           apply mk_uinv_life; [|left; discriminate].
           rewrite al_app_nolife by reflexivity. apply nosrc_al. exact Hn.
        -- rewrite (astep_restart_fail s a x rest Hg Hok). eexists. split; [apply Hset|].
           apply mk_uinv_life; [|right; right; right].
           ++ rewrite al_app_nolife by reflexivity. apply nosrc_al. exact Hn.
           ++ split; [unfold zombied; destruct (sp_provider (a_spec x)); reflexivity|].
              destruct HL as (_ & _ & _ & _ & L5). unfold life_ok in L5. rewrite Hp in L5.
              rewrite (lf_cons_life IRestartFinish rest eq_refl), (nosrc_lf _ Hn) in L5. destruct L5 as (_ & _ & L5).
              rewrite uzc_app. rewrite (uzc_cons_plain IRestartFinish rest eq_refl) in L5. rewrite L5. reflexivity.
Qed.

(* ------------------------------------------------------------------ every micro-step *)

Theorem UI_mstep s m : wf s -> LI s -> UI s -> UI (mstep s m).
Proof.
  intros W I U b x' Hg'.
  destruct (get s b) as [x|] eqn:Hg; [|apply uinv_new; eapply mstep_new; eauto].
  destruct (mstep_cases2 s m) as [Hq|[(t & i & rest & pre & s1 & Hp & Hpl & Hf & Hu & Hq & _ & E & Hn)|[(a & xa & e & -> & Hga & Hc)|(t & i & rest & -> & Hp & Hy & Hq & E)]]].
  - (* only queues, caches, flags, consumer positions *)
    destruct Hq as (_ & _ & _ & Hs & _). destruct (softT_get _ _ _ _ Hs Hg) as (y & Hy & Hsoft).
    assert (y = x') by congruence; subst. eapply uinv_soft; [exact Hsoft|apply (U _ _ Hg)].
  - (* a yielding head / a tell being resolved *)
    rewrite E in Hg'. destruct Hq as (_ & _ & _ & Hs & _). destruct (softT_get _ _ _ _ Hs Hg) as (y1 & Hg1 & Hsoft).
    destruct t as [a|j].
    + destruct (Nat.eq_dec a b) as [->|Hne].
      * destruct (pend_of_TA_cons _ _ _ _ Hp) as (x0 & Hg0 & Hpx). assert (x0 = x) by congruence; subst x0.
        rewrite (set_pend_TA _ _ _ _ Hg1), (get_set_same' _ _ _ _ Hg1) in Hg'. inversion Hg'; subst x'.
        destruct Hsoft as (A & B & _).
        eapply (uinv_plain_head x _ i pre rest Hpx Hpl Hf Hu (fun _ => Hn)); [exact A|exact B|reflexivity|apply (U _ _ Hg)].
      * assert (E2 : get (set_pend s1 (TA a) (pre ++ rest)) b = get s1 b).
        { cbn [set_pend]. unfold with_actor. destruct (get s1 a); [apply get_set_other; exact Hne|reflexivity]. }
        rewrite E2 in Hg'. assert (x' = y1) by congruence; subst. eapply uinv_soft; [exact Hsoft|apply (U _ _ Hg)].
    + assert (E2 : get (set_pend s1 (TX j) (pre ++ rest)) b = get s1 b) by (unfold get; rewrite set_pend_TX_actors; reflexivity).
      rewrite E2 in Hg'. assert (x' = y1) by congruence; subst. eapply uinv_soft; [exact Hsoft|apply (U _ _ Hg)].
  - (* HandleEnvelop *)
    cbn [mstep] in Hg'. rewrite Hga, Hc in Hg'.
    assert (Hl : a < length (actors s)) by (eapply nth_error_lt; exact Hga).
    set (s0 := set_actor s a (busy xa)) in *.
    assert (Hg0 : get s0 a = Some (busy xa)) by (apply get_set_same; exact Hl).
    pose proof (I _ _ Hga) as (L1 & _).
    destruct (dispatch_life s0 a (busy xa) e Hg0 L1) as (y & Hy & Hz & _ & _ & Hst & Hu & _).
    destruct (dispatch_effect s0 a (busy xa) e Hg0) as (y2 & _ & Ha & _).
    pose proof (dispatch_al s0 a (busy xa) e) as Hal.
    pose proof (dispatch_dead_nosrc s0 a (busy xa) e) as Hdn.
    destruct (dispatch s0 a (busy xa) e) as [s1 ins]. cbn [fst snd] in *.
    rewrite (set_pend_TA _ _ _ _ Hy) in Hg'.
    destruct (Nat.eq_dec a b) as [->|Hne].
    + rewrite (get_set_same' _ _ _ _ Hy) in Hg'. inversion Hg'; subst x'. clear Hg'.
      split; [exact Hal|]. cbn [upd_pend a_pend].
      destruct (deadb (busy xa) e) eqn:Hd; [right; apply Hdn; reflexivity|left].
      unfold must_reg. cbn [upd_pend a_state a_zombie a_pend].
      destruct (deadb_false _ _ Hd) as [Hk|Hzo]; cbn [busy set_mb a_state a_zombie] in *.
      * left. destruct Hst as [->|[_ ->]]; [exact Hk|discriminate].
      * right; right; right. split; [congruence|exact Hu].
    + rewrite get_set_other in Hg' by exact Hne.
      assert (E : get s1 b = get s b).
      { unfold get. rewrite Ha. unfold s0. cbn [set_actor actors]. rewrite upd_upd. apply nth_upd_neq. exact Hne. }
      rewrite E, Hg in Hg'. inversion Hg'; subst. apply (U _ _ Hg).
  - (* one atomic instruction *)
    rewrite E in Hg'. destruct (Nat.eq_dec b (self_of t)) as [->|Hne].
    + destruct t as [a|j]; cbn [self_of] in *.
      * destruct (pend_of_TA_cons _ _ _ _ Hp) as (x0 & Hg0 & Hpx). rewrite Hg in Hg0. inversion Hg0; subst x0.
        destruct (uinv_astep_TA s a x i rest Hg Hpx Hy Hq (I _ _ Hg) (U _ _ Hg)) as (x'' & Hx'' & Hu). congruence.
      * (* an external caller runs as the guard: API-level instructions leave state, zombie flag and the guard's list alone *)
        destruct (pend_of_TX_cons _ _ _ _ Hp) as (ex & Hn & Hpx).
        destruct W as [_ HX]. pose proof (Forall_nth _ _ _ _ HX Hn) as Hok. cbv beta in Hok. rewrite Hpx in Hok. cbn [forallb] in Hok.
        apply andb_true_iff in Hok. destruct Hok as [Hi _]. apply ext_instr_plain in Hi.
        unfold astep in Hg'. set (s0 := set_pend s (TX j) rest) in *.
        assert (Hg0 : get s0 (self_of (TX j)) = Some x) by (unfold get, s0; rewrite set_pend_TX_actors; exact Hg).
        destruct (exec1_plain_lc s0 (TX j) (held_of s0 (TX j)) i x Hg0 Hi) as (y & Hy' & Hs & Hz & _).
        destruct (exec1_actors s0 (TX j) (held_of s0 (TX j)) i x Hg0) as (y2 & news & Hy2 & _ & Ha).
        destruct (exec1 s0 (TX j) (held_of s0 (TX j)) i) as [s1 front]. cbn [fst snd self_of] in *.
        assert (E2 : get (set_pend s1 (TX j) (front ++ pend_of s1 (TX j))) 0 = get s1 0) by (unfold get; rewrite set_pend_TX_actors; reflexivity).
        rewrite E2, Hy' in Hg'. inversion Hg'; subst x'.
        assert (Hy2' : y2 = y).
        { unfold get in Hy'. rewrite Ha in Hy'. rewrite nth_error_app1 in Hy' by (rewrite upd_length; eapply nth_error_lt; exact Hg0).
          rewrite nth_upd_eq in Hy' by (eapply nth_error_lt; exact Hg0). congruence. }
        subst y2. eapply uinv_fields; [exact Hs|exact Hz|exact (lu_pend _ _ _ Hy2)|apply (U _ _ Hg)].
    + destruct (foreign_astep s t i rest b x Hg Hne) as (y & Hy' & Hls). assert (x' = y) by congruence; subst.
      rewrite Hls. apply (uinv_fields x); try reflexivity. apply (U _ _ Hg).
Qed.

Lemma UI_init scs : UI (init_with scs).
Proof.
  intros a x Hg. unfold get in Hg. unfold init_with in Hg.
  assert (H : forall scs s i, actors (set_exts s i scs) = actors s).
  { clear. induction scs as [|sc r IH]; intros s i; cbn [set_exts]; [reflexivity|]. rewrite IH. apply set_pend_TX_actors. }
  rewrite H in Hg. cbn in Hg. destruct a as [|a]; cbn in Hg; [inversion Hg; subst|destruct a; discriminate].
  apply uinv_new. do 4 eexists. reflexivity.
Qed.

(** the basis used below: well-formed lists, lifecycle invariant, registry invariant, user code only where registered *)
Definition Base (s : state) : Prop := wf s /\ LI s /\ RInv s /\ UI s.
Lemma Base_init scs : Base (init_with scs).
Proof. split; [apply wf_init|split; [apply LI_init|split; [apply RInv_init|apply UI_init]]]. Qed.
Lemma Base_mstep s m : Base s -> Base (mstep s m).
Proof.
  intros (W & I & R & U). split; [apply wf_mstep; exact W|split; [apply LI_mstep; assumption|split; [apply RInv_mstep; assumption|apply UI_mstep; assumption]]].
Qed.

(** a context whose handler is about to run a user action is registered *)
Lemma user_action_registered s a x act rest :
  Base s -> get s a = Some x -> a <> 0 -> a_pend x = IAct act :: rest -> alookup (reg s) (a_path x) = Some a.
Proof.
  intros (_ & _ & (_ & _ & _ & R1 & _) & U) Hg Hne Hp. apply (R1 a x Hg Hne).
  apply must_reg_of_src; [apply (U _ _ Hg)|]. rewrite Hp. reflexivity.
Qed.
