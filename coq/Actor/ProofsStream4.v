(** C19, history level, part 3: user code runs only in a context that is still registered.
    [uinv]: in a context's pending instruction list nothing that can lead to user code ([IAct], [IBeh], the five
    lifecycle instructions) follows a lifecycle instruction, and if anything of that kind is pending the context
    "must be registered" ([must_reg], Actor/ProofsMailTree.v: not Killed, or its cleanup / restart completion is
    still pending, or it is a zombie that has not been released).  Invariant of every micro-step. *)
From Coq Require Import List NArith ZArith Bool Permutation Lia Arith.
From Vivid Require Import Actor.Core Actor.CoreRun Actor.SpecMail Actor.ProofsMailBase Actor.ProofsMail Actor.ProofsMailInv Actor.ProofsMailWf
  Actor.ProofsMailAcct Actor.ProofsMailReg Actor.ProofsMailMicro Actor.ProofsMailLife Actor.ProofsMailStep Actor.ProofsMailTree.
Import ListNotations.

(* ------------------------------------------------------------------ the list predicates *)

Definition src (i : instr) : bool := match i with IAct _ | IBeh _ _ _ => true | _ => life i end.
Definition nosrc (l : list instr) : bool := forallb (fun i => negb (src i)) l.
Fixpoint al (l : list instr) : bool :=
  match l with [] => true | j :: post => (if life j then nosrc post else true) && al post end.

Lemma nosrc_app l1 l2 : nosrc (l1 ++ l2) = nosrc l1 && nosrc l2. Proof. apply forallb_app. Qed.
Lemma nosrc_cons i l : nosrc (i :: l) = negb (src i) && nosrc l. Proof. reflexivity. Qed.
Lemma life_src i : life i = true -> src i = true. Proof. destruct i; try discriminate; reflexivity. Qed.
Lemma nosrc_al l : nosrc l = true -> al l = true.
Proof.
  induction l as [|i l IH]; [reflexivity|]. rewrite nosrc_cons. intros H. apply andb_true_iff in H. destruct H as [H1 H2].
  cbn [al]. rewrite (IH H2), H2. destruct (life i); reflexivity.
Qed.
Lemma nosrc_lf l : nosrc l = true -> lf l = [].
Proof.
  induction l as [|i l IH]; [reflexivity|]. rewrite nosrc_cons. intros H. apply andb_true_iff in H. destruct H as [H1 H2].
  unfold lf in *. cbn [filter]. destruct (life i) eqn:E; [rewrite (life_src _ E) in H1; discriminate|auto].
Qed.
Lemma al_app_nolife pre rest : lf pre = [] -> al (pre ++ rest) = al rest.
Proof.
  induction pre as [|j pre IH]; [reflexivity|]. unfold lf in *. cbn [filter app al]. destruct (life j); [discriminate|]. auto.
Qed.
Lemma al_app_front pre rest : al pre = true -> nosrc rest = true -> al (pre ++ rest) = true.
Proof.
  induction pre as [|j pre IH]; intros H1 H2; [apply nosrc_al; exact H2|]. cbn [app al] in *.
  apply andb_true_iff in H1. destruct H1 as [Ha Hb]. rewrite (IH Hb H2), andb_true_r.
  destruct (life j); [|reflexivity]. rewrite nosrc_app, Ha, H2. reflexivity.
Qed.
Lemma al_cons_life i rest : al (i :: rest) = true -> life i = true -> nosrc rest = true.
Proof. cbn [al]. intros H Hl. rewrite Hl in H. apply andb_true_iff in H. apply H. Qed.
Lemma al_tail i rest : al (i :: rest) = true -> al rest = true.
Proof. cbn [al]. intros H. apply andb_true_iff in H. apply H. Qed.
Lemma nosrc_uzc_map_IAct l : nosrc (map IAct l) = true -> l = [].
Proof. destruct l; [reflexivity|discriminate]. Qed.

(** the invariant of one context *)
Definition uinv (x : actor) : Prop := al (a_pend x) = true /\ (must_reg x \/ nosrc (a_pend x) = true).
Definition UI (s : state) : Prop := forall a x, get s a = Some x -> uinv x.

Lemma must_reg_fields x y :
  a_state y = a_state x -> a_zombie y = a_zombie x -> lf (a_pend y) = lf (a_pend x) -> uzc (a_pend y) = uzc (a_pend x) ->
  must_reg x -> must_reg y.
Proof. unfold must_reg. intros -> -> -> ->. auto. Qed.

Lemma uinv_fields x y : a_state y = a_state x -> a_zombie y = a_zombie x -> a_pend y = a_pend x -> uinv x -> uinv y.
Proof.
  intros H1 H2 H3 [A B]. split; [rewrite H3; exact A|]. destruct B as [B|B]; [left|right; rewrite H3; exact B].
  apply (must_reg_fields x y); auto; rewrite H3; reflexivity.
Qed.
Lemma uinv_soft x y : soft x y -> uinv x -> uinv y.
Proof. intros (A & B & _ & D & _). apply uinv_fields; assumption. Qed.
Lemma uinv_new x : is_new x -> uinv x.
Proof. intros (p & g & par & sp & ->). split; [reflexivity|right; reflexivity]. Qed.

(** replacing a head that is neither a lifecycle instruction nor IUnzombie by instructions of that kind *)
Lemma uinv_plain_head x y i pre rest :
  a_pend x = i :: rest -> plain i = true -> lf pre = [] -> uzc pre = 0 -> (src i = false -> nosrc pre = true) ->
  a_state y = a_state x -> a_zombie y = a_zombie x -> a_pend y = pre ++ rest -> uinv x -> uinv y.
Proof.
  intros Hp Hpl Hf Hu Hn Hs Hz Hpy [A B]. rewrite Hp in A, B. pose proof Hpl as Hpl'. unfold plain in Hpl'.
  apply andb_true_iff in Hpl'. destruct Hpl' as [Hl _]. apply negb_true_iff in Hl.
  split.
  - rewrite Hpy, (al_app_nolife _ _ Hf). eapply al_tail; exact A.
  - destruct B as [B|B].
    + left. apply (proj2 (must_reg_plain_head x y i rest pre Hp Hpl Hf Hu Hs Hz Hpy)). exact B.
    + right. rewrite nosrc_cons in B. apply andb_true_iff in B. destruct B as [B1 B2]. apply negb_true_iff in B1.
      rewrite Hpy, nosrc_app, (Hn B1), B2. reflexivity.
Qed.

(* ------------------------------------------------------------------ a finer classification of micro-steps *)

(** [ProofsMailLife.mstep_cases] with two more facts in the "plain" case: the replaced head cannot lead to user
    code, and neither can what replaces it *)
Lemma mstep_cases2 s m :
  quiet s (mstep s m) \/
  (exists t i rest pre s1, pend_of s t = i :: rest /\ plain i = true /\ lf pre = [] /\ uzc pre = 0 /\ quiet s s1 /\
                            mself m = self_of t /\ mstep s m = set_pend s1 t (pre ++ rest) /\ nosrc pre = true) \/
  (exists a x e, m = MHandle a /\ get s a = Some x /\ a_cons x = CH e) \/
  (exists t i rest, m = MAtomic t /\ pend_of s t = i :: rest /\ yielding i = false /\ is_enq i = false /\
                    mstep s m = astep s t i rest).
Proof.
  assert (Hplain : forall t i rest pre s1, pend_of s t = i :: rest -> plain i = true -> lf pre = [] -> uzc pre = 0 -> quiet s s1 ->
            mself m = self_of t -> mstep s m = set_pend s1 t (pre ++ rest) -> nosrc pre = true ->
            quiet s (mstep s m) \/
            (exists t i rest pre s1, pend_of s t = i :: rest /\ plain i = true /\ lf pre = [] /\ uzc pre = 0 /\ quiet s s1 /\
                            mself m = self_of t /\ mstep s m = set_pend s1 t (pre ++ rest) /\ nosrc pre = true) \/
            (exists a x e, m = MHandle a /\ get s a = Some x /\ a_cons x = CH e) \/
            (exists t i rest, m = MAtomic t /\ pend_of s t = i :: rest /\ yielding i = false /\ is_enq i = false /\
                    mstep s m = astep s t i rest)).
  { intros t i rest pre s1 H1 H2 H3 H4 H5 H6 H7 H8. right; left. exists t, i, rest, pre, s1. auto 10. }
  destruct m; cbn [mstep step mself] in *.
  - left. destruct (get s a) as [x|] eqn:Hg; [|apply quiet_same; reflexivity].
    destruct (a_cons x), (a_sq x); try (apply quiet_same; reflexivity); apply quiet_set_mb; exact Hg.
  - left. destruct (get s a) as [x|] eqn:Hg; [|apply quiet_same; reflexivity].
    destruct (a_cons x); try (apply quiet_same; reflexivity); apply quiet_set_mb; exact Hg.
  - left. destruct (get s a) as [x|] eqn:Hg; [|apply quiet_same; reflexivity].
    destruct (a_cons x), (a_uq x); try (apply quiet_same; reflexivity); apply quiet_set_mb; exact Hg.
  - destruct (get s a) as [x|] eqn:Hg; [|left; apply quiet_same; reflexivity].
    destruct (a_cons x) eqn:Hc; try (left; apply quiet_same; reflexivity).
    right; right; left. exists a, x, e. auto.
  - destruct (pend_of s t) as [|i rest] eqn:Hp; [left; apply quiet_same; reflexivity|].
    destruct i; try (left; apply quiet_same; reflexivity).
    + rewrite deliver_eq in *. apply (Hplain t _ rest [] _ Hp eq_refl eq_refl eq_refl (quiet_push_mb s _ _) eq_refl eq_refl eq_refl).
    + apply (Hplain t _ rest [] _ Hp eq_refl eq_refl eq_refl (quiet_push_mb s _ _) eq_refl eq_refl eq_refl).
    + destruct (nth_error tos c) as [r|]; [|left; apply quiet_same; reflexivity].
      pose proof (quiet_resolve s r) as Hr. destruct (resolve s r) as [mb s1]. cbn [snd] in Hr. rewrite deliver_eq in *.
      assert (Hq : quiet s (push_mb s1 (fst (landing mb {| e_sys := sys; e_sender := sender; e_msg := m |})) (snd (landing mb {| e_sys := sys; e_sender := sender; e_msg := m |}))))
        by (eapply quiet_trans; [exact Hr|apply quiet_push_mb]).
      destruct (firstn c tos ++ skipn (S c) tos) as [|r0 tl0].
      * apply (Hplain t _ rest [IEnqDone] _ Hp eq_refl eq_refl eq_refl Hq eq_refl eq_refl eq_refl).
      * apply (Hplain t _ rest [IEnqDone; IEnqAny sys (r0 :: tl0) sender m] _ Hp eq_refl eq_refl eq_refl Hq eq_refl eq_refl eq_refl).
    + destruct (nth_error remaining c) as [r|]; [|left; apply quiet_same; reflexivity].
      pose proof (quiet_resolve s r) as Hr. destruct (resolve s r) as [mb s1]. cbn [snd] in Hr. rewrite deliver_eq in *.
      match goal with |- context[set_pend ?s2 t (IEnqDone :: ?i2 :: rest)] =>
        assert (Hq : quiet s s2) by (eapply quiet_trans; [exact Hr|apply quiet_push_mb]);
        apply (Hplain t _ rest [IEnqDone; i2] _ Hp eq_refl eq_refl eq_refl Hq eq_refl eq_refl eq_refl) end.
  - destruct (pend_of s t) as [|i rest] eqn:Hp; [left; apply quiet_same; reflexivity|].
    destruct i; try (left; apply quiet_same; reflexivity).
    apply (Hplain t _ rest [] s Hp eq_refl eq_refl eq_refl (quiet_refl s) eq_refl eq_refl eq_refl).
  - destruct (pend_of s t) as [|i rest] eqn:Hp; [left; apply quiet_same; reflexivity|].
    destruct i; try (left; apply quiet_same; reflexivity).
    match goal with |- context[set_pend ?s1 t rest] =>
      assert (Hq : quiet s s1) by (apply quiet_with_actor; intros; split; [repeat split|reflexivity]);
      apply (Hplain t _ rest [] s1 Hp eq_refl eq_refl eq_refl Hq eq_refl eq_refl eq_refl) end.
  - destruct (pend_of s t) as [|i rest] eqn:Hp; [left; apply quiet_same; reflexivity|].
    destruct i; try (left; apply quiet_same; reflexivity).
    destruct (get s (self_of t)) as [x|] eqn:Hg; [|left; apply quiet_same; reflexivity].
    destruct (a_paused x).
    + match goal with |- context[set_pend ?s1 t (IResume2 :: rest)] =>
        assert (Hq : quiet s s1) by (apply quiet_set_mb; exact Hg);
        apply (Hplain t _ rest [IResume2] s1 Hp eq_refl eq_refl eq_refl Hq eq_refl eq_refl eq_refl) end.
    + apply (Hplain t _ rest [] s Hp eq_refl eq_refl eq_refl (quiet_refl s) eq_refl eq_refl eq_refl).
  - destruct (pend_of s t) as [|i rest] eqn:Hp; [left; apply quiet_same; reflexivity|].
    destruct i; try (left; apply quiet_same; reflexivity).
    apply (Hplain t _ rest [] s Hp eq_refl eq_refl eq_refl (quiet_refl s) eq_refl eq_refl eq_refl).
  - destruct (pend_of s t) as [|i rest] eqn:Hp; [left; apply quiet_refl|].
    destruct (is_enq i) eqn:Hq.
    + destruct i; try discriminate Hq.
      apply (Hplain t _ rest [IEnqR sys (fst (resolve s to)) sender m] _ Hp eq_refl eq_refl eq_refl (quiet_resolve s to) eq_refl eq_refl eq_refl).
    + destruct (yielding i) eqn:Hy.
      * left. destruct i; try discriminate Hy; try apply quiet_refl; try (destruct remaining; [discriminate Hy|apply quiet_refl]).
      * right; right; right. exists t, i, rest. split; [reflexivity|]. split; [exact Hp|]. split; [exact Hy|]. split; [exact Hq|].
        destruct i; try discriminate Hq; try discriminate Hy; try reflexivity; try (destruct remaining; [reflexivity|discriminate Hy]).
Qed.

(* ------------------------------------------------------------------ what exec1 and dispatch put in front *)

Lemma nosrc_flat_map {A} (f : A -> list instr) l : (forall a, nosrc (f a) = true) -> nosrc (flat_map f l) = true.
Proof. intros H. induction l; cbn [flat_map]; [reflexivity|]. rewrite nosrc_app, H, IHl. reflexivity. Qed.

(** an instruction that cannot lead to user code is replaced by instructions of that kind *)
Lemma exec1_front_nosrc s t h i : src i = false -> nosrc (snd (exec1 s t h i)) = true.
Proof.
  intros Hi. unfold exec1. destruct (get s (self_of t)) as [x|]; [|reflexivity].
  destruct i; try discriminate Hi; cbn [snd]; try reflexivity.
  - destruct remaining; reflexivity.
  - destruct (subscribers s ty); reflexivity.
  - destruct d; cbn [snd is_graceful]; rewrite ?nosrc_app;
      repeat match goal with
             | |- context[nosrc (flat_map ?f ?l)] => rewrite (nosrc_flat_map f l) by reflexivity
             end; reflexivity.
Qed.

Lemma dispatch_al s a x e : al (snd (dispatch s a x e)) = true.
Proof.
  unfold dispatch.
  repeat match goal with |- context[match ?e with _ => _ end] => destruct e end; reflexivity.
Qed.

Definition deadb (x : actor) (e : envelope) : bool :=
  (match a_state x with Killed => true | Running => false | Killing => negb (e_sys e) && negb (match e_msg e with MKill _ _ => true | _ => false end) end)
  && negb (a_zombie x).

Lemma dispatch_dead_nosrc s a x e : deadb x e = true -> nosrc (snd (dispatch s a x e)) = true.
Proof. unfold dispatch, deadb. intros ->. destruct (a_parent x); reflexivity. Qed.

Lemma deadb_false x e : deadb x e = false -> a_state x <> Killed \/ a_zombie x = true.
Proof. unfold deadb. destruct (a_state x), (a_zombie x); cbn; intros H; try discriminate; auto; left; discriminate. Qed.
