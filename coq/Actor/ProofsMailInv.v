(** Invariant-style theorems for C03 / C09 over [step] and [run_events]: error monotonicity, how each event
    changes the queues, well-formedness of pending lists, conservation of envelopes, FIFO of the user queue. *)
From Coq Require Import List NArith ZArith Bool Lia Arith.
From Vivid Require Import Actor.Core Actor.CoreRun Actor.SpecMail Actor.ProofsMailBase Actor.ProofsMail.
Import ListNotations.

(** * effect of [dispatch] *)
Record disp_frame (x y : actor) : Prop := {
  df_path : a_path y = a_path x; df_gen : a_gen y = a_gen x; df_parent : a_parent y = a_parent x;
  df_spec : a_spec y = a_spec x; df_cache : a_cache y = a_cache x;
  df_sq : a_sq y = a_sq x; df_uq : a_uq y = a_uq x; df_paused : a_paused y = a_paused x;
  df_cons : a_cons y = a_cons x; df_pend : a_pend y = a_pend x; df_stash : a_stash y = a_stash x;
  df_children : a_children y = a_children x; df_zombie : a_zombie y = a_zombie x;
}.

Ltac df_solve := constructor; cbn; reflexivity.

Lemma dispatch_effect s a x e :
  get s a = Some x ->
  exists y, disp_frame x y /\ actors (fst (dispatch s a x e)) = upd (actors s) a y /\
            olog (fst (dispatch s a x e)) = olog s /\ err (fst (dispatch s a x e)) = err s /\
            exts (fst (dispatch s a x e)) = exts s /\ reg (fst (dispatch s a x e)) = reg s /\
            subs (fst (dispatch s a x e)) = subs s /\
            (ghost (fst (dispatch s a x e)) = ghost s \/ exists o, ghost (fst (dispatch s a x e)) = ghost s ++ [o]).
Proof.
  intros Hg.
  assert (Hsame : actors s = upd (actors s) a x) by (symmetry; apply upd_same; exact Hg).
  unfold dispatch.
  repeat match goal with
         | |- context[if ?c then _ else _] => destruct c
         | |- context[match ?c with _ => _ end] => destruct c
         end;
  cbn [fst];
  first [ exists x; split; [df_solve|]; cbn; repeat split; auto; eauto; fail
        | eexists; split; [|split; [reflexivity|cbn; repeat split; auto; eauto]]; df_solve ].
Qed.

(** * small facts *)
Lemma keeps_upd {A} (pi : actor -> A) d s s' a x y :
  get s a = Some x -> actors s' = upd (actors s) a y -> pi y = pi x -> keeps pi d s s'.
Proof. intros Hg Ha Hp. eapply keeps_upd_app with (news := []); eauto. rewrite app_nil_r. exact Ha. Qed.

Lemma keeps_with_actor {A} (pi : actor -> A) d s a f :
  (forall x, pi (f x) = pi x) -> keeps pi d s (with_actor s a f).
Proof.
  intros H. unfold with_actor. destruct (get s a) as [x|] eqn:E.
  - eapply keeps_set_actor; [exact E|apply H].
  - apply keeps_same_actors. reflexivity.
Qed.

Lemma deliver_eq s mb e : deliver s mb e = (push_mb s (fst (landing mb e)) (snd (landing mb e)), fst (landing mb e)).
Proof. destruct mb; reflexivity. Qed.

Lemma push_mb_fields s a e :
  olog (push_mb s a e) = olog s /\ ghost (push_mb s a e) = ghost s /\ reg (push_mb s a e) = reg s /\
  subs (push_mb s a e) = subs s /\ exts (push_mb s a e) = exts s /\ (err s = true -> err (push_mb s a e) = true).
Proof. unfold push_mb. apply with_actor_fields. Qed.

Lemma dispatch_err s a x e : get s a = Some x -> err (fst (dispatch s a x e)) = err s.
Proof. intros Hg. destruct (dispatch_effect s a x e Hg) as (y & _ & _ & _ & H & _). exact H. Qed.

(** * errors are sticky *)
Lemma err_mono_step s ev : err s = true -> err (step s ev) = true.
Proof.
  intros He. destruct ev; cbn [step].
  - destruct (get s a) as [x|]; [|reflexivity]. destruct (a_cons x), (a_sq x); cbn; auto.
  - destruct (get s a) as [x|]; [|reflexivity]. destruct (a_cons x); cbn; auto.
  - destruct (get s a) as [x|]; [|reflexivity]. destruct (a_cons x), (a_uq x); cbn; auto.
  - destruct (get s a) as [x|] eqn:Hg; [|reflexivity]. destruct (a_cons x); try reflexivity.
    match goal with |- context[dispatch ?s0 a ?x0 e] =>
      pose proof (dispatch_err s0 a x0 e (get_set_same' s a x0 x Hg)) as Hd;
      destruct (dispatch s0 a x0 e) as [s1 ins] end.
    cbn [fst] in Hd. apply err_mono_run_atomic, set_pend_err_mono. rewrite Hd. exact He.
  - destruct (pend_of s t) as [|i rest]; [reflexivity|]. destruct i; try reflexivity.
    + rewrite deliver_eq. apply set_pend_err_mono. apply push_mb_fields. exact He.
    + apply set_pend_err_mono. apply push_mb_fields. exact He.
    + destruct (nth_error tos choice); [|reflexivity].
      pose proof (resolve_err_mono s r He) as Hr. destruct (resolve s r) as [mb s1]. cbn [snd] in Hr.
      rewrite deliver_eq. apply set_pend_err_mono. apply push_mb_fields. exact Hr.
    + destruct (nth_error remaining choice); [|reflexivity].
      pose proof (resolve_err_mono s r He) as Hr. destruct (resolve s r) as [mb s1]. cbn [snd] in Hr.
      rewrite deliver_eq. apply set_pend_err_mono. apply push_mb_fields. exact Hr.
  - destruct (pend_of s t) as [|i rest]; [reflexivity|]. destruct i; try reflexivity.
    apply err_mono_run_atomic, set_pend_err_mono. exact He.
  - destruct (pend_of s t) as [|i rest]; [reflexivity|]. destruct i; try reflexivity.
    apply err_mono_run_atomic, set_pend_err_mono. apply with_actor_fields. exact He.
  - destruct (pend_of s t) as [|i rest]; [reflexivity|]. destruct i; try reflexivity.
    destruct (get s (self_of t)) as [x|]; [|reflexivity]. destruct (a_paused x).
    + apply set_pend_err_mono. exact He.
    + apply err_mono_run_atomic, set_pend_err_mono. exact He.
  - destruct (pend_of s t) as [|i rest]; [reflexivity|]. destruct i; try reflexivity.
    apply err_mono_run_atomic, set_pend_err_mono. exact He.
  - apply err_mono_run_atomic. exact He.
Qed.

Lemma err_mono_run evs s : err s = true -> err (run_events evs s) = true.
Proof. revert s. induction evs as [|ev r IH]; intros s H; [exact H|]. change (err (run_events r (step s ev)) = true). apply IH, err_mono_step, H. Qed.

Lemma err_false_step s ev : err (step s ev) = false -> err s = false.
Proof. intros H. destruct (err s) eqn:E; [|reflexivity]. rewrite (err_mono_step s ev E) in H. discriminate. Qed.

Lemma err_false_run_head evs s ev : err (run_events (ev :: evs) s) = false -> err (step s ev) = false.
Proof. intros H. change (err (run_events evs (step s ev)) = false) in H. destruct (err (step s ev)) eqn:E; [|reflexivity]. rewrite (err_mono_run evs _ E) in H. discriminate. Qed.

(** * projections that do not depend on the mailbox flags are kept by every event except push and pop *)
Definition thread_event (ev : event) : bool :=
  match ev with EvSysPop _ | EvUserPop _ | EvPush _ _ => false | _ => true end.

Definition pause_event (ev : event) : bool := match ev with EvPauseSt _ | EvResume1 _ => true | _ => false end.

Section KeepsStep.
  Context {A : Type} (pi : actor -> A) (d : A).
  Hypothesis Hpend : forall x p, pi (upd_pend x p) = pi x.
  Hypothesis Hcache : forall x c, pi (set_cache x c) = pi x.
  Hypothesis Hlocal : forall i x y, local_upd i x y -> pi y = pi x.
  Hypothesis Hnew : forall p g par sp, pi (new_actor p g par sp) = d.
  Hypothesis Hdisp : forall x y, disp_frame x y -> pi y = pi x.
  Hypothesis Hmb : forall x co cu, pi (set_mb x (a_sq x) (a_uq x) (a_paused x) co cu) = pi x.

  Lemma keeps_ra f s t : keeps pi d s (run_atomic f s t).
  Proof. apply keeps_run_atomic; auto. Qed.

  Lemma keeps_sp_ra f s t l : keeps pi d s (run_atomic f (set_pend s t l) t).
  Proof. eapply keeps_trans; [apply keeps_set_pend; exact Hpend|apply keeps_ra]. Qed.

  (** thread events other than Pause / Resume's first CAS *)
  Lemma keeps_step_thread_np s ev : thread_event ev = true -> pause_event ev = false -> keeps pi d s (step s ev).
  Proof.
    intros Hev Hnp. destruct ev; try discriminate Hev; try discriminate Hnp; cbn [step].
    - (* EvLoadPaused *)
      destruct (get s a) as [x|] eqn:Hg; [|apply keeps_same_actors; reflexivity].
      destruct (a_cons x); try (apply keeps_same_actors; reflexivity).
      eapply keeps_set_actor; [exact Hg|apply Hmb].
    - (* EvHandle *)
      destruct (get s a) as [x|] eqn:Hg; [|apply keeps_same_actors; reflexivity].
      destruct (a_cons x); try (apply keeps_same_actors; reflexivity).
      match goal with |- context[dispatch ?s0 a ?x0 e] =>
        assert (K0 : keeps pi d s s0) by (eapply keeps_set_actor; [exact Hg|apply Hmb]);
        destruct (dispatch_effect s0 a x0 e (get_set_same' s a x0 x Hg)) as (y & Hy & Ha & _);
        assert (K1 : keeps pi d s0 (fst (dispatch s0 a x0 e)))
          by (eapply keeps_upd; [apply (get_set_same' s a x0 x Hg)|exact Ha|apply Hdisp; exact Hy]);
        destruct (dispatch s0 a x0 e) as [s1 ins] end.
      cbn [fst] in K1. eapply keeps_trans; [exact K0|]. eapply keeps_trans; [exact K1|]. apply keeps_sp_ra.
    - (* EvEnqDone *)
      destruct (pend_of s t) as [|i rest]; [apply keeps_same_actors; reflexivity|].
      destruct i; try (apply keeps_same_actors; reflexivity). apply keeps_sp_ra.
    - (* EvResume2 *)
      destruct (pend_of s t) as [|i rest]; [apply keeps_same_actors; reflexivity|].
      destruct i; try (apply keeps_same_actors; reflexivity). apply keeps_sp_ra.
    - (* EvStart *) apply keeps_ra.
  Qed.

  Hypothesis Hpa : forall x pa, pi (set_mb x (a_sq x) (a_uq x) pa (a_cons x) (a_cur x)) = pi x.

  Lemma keeps_step_thread s ev : thread_event ev = true -> keeps pi d s (step s ev).
  Proof.
    intros Hev. destruct (pause_event ev) eqn:Hp; [|apply keeps_step_thread_np; assumption].
    destruct ev; try discriminate Hp; cbn [step].
    - (* EvPauseSt *)
      destruct (pend_of s t) as [|i rest]; [apply keeps_same_actors; reflexivity|].
      destruct i; try (apply keeps_same_actors; reflexivity).
      eapply keeps_trans; [|apply keeps_sp_ra]. apply keeps_with_actor. intros x. apply Hpa.
    - (* EvResume1 *)
      destruct (pend_of s t) as [|i rest]; [apply keeps_same_actors; reflexivity|].
      destruct i; try (apply keeps_same_actors; reflexivity).
      destruct (get s (self_of t)) as [x|] eqn:Hg; [|apply keeps_same_actors; reflexivity].
      destruct (a_paused x).
      + eapply keeps_trans; [|apply keeps_set_pend; exact Hpend]. eapply keeps_set_actor; [exact Hg|apply Hpa].
      + apply keeps_sp_ra.
  Qed.
End KeepsStep.

Lemma keeps_sq_thread s ev : thread_event ev = true -> keeps a_sq [] s (step s ev).
Proof. apply keeps_step_thread; auto; intros; try reflexivity; match goal with H : _ |- _ => apply H end. Qed.
Lemma keeps_uq_thread s ev : thread_event ev = true -> keeps a_uq [] s (step s ev).
Proof. apply keeps_step_thread; auto; intros; try reflexivity; match goal with H : _ |- _ => apply H end. Qed.

(** * C03-d / C09-c: how one event changes the queues *)
Definition q_at (sys : bool) : state -> aid -> list envelope := if sys then sq_at else uq_at.

Lemma q_at_keeps sys s s' : keeps a_sq [] s s' -> keeps a_uq [] s s' -> forall b, q_at sys s' b = q_at sys s b.
Proof. intros H1 H2 b. destruct sys; [apply H1|apply H2]. Qed.

Lemma push_mb_q s a x e b sys :
  get s a = Some x ->
  q_at sys (push_mb s a e) b = q_at sys s b ++ (if Nat.eqb a b && Bool.eqb (e_sys e) sys then [e] else []).
Proof.
  intros Hg. unfold push_mb. rewrite (with_actor_some _ _ _ _ Hg).
  destruct (Nat.eqb_spec a b) as [<-|Hne].
  - destruct sys; unfold q_at, sq_at, uq_at; rewrite (get_set_same' _ _ _ _ Hg), Hg; cbn [a_sq a_uq andb];
      destruct (e_sys e); cbn [Bool.eqb]; rewrite ?app_nil_r; reflexivity.
  - cbn [andb]. rewrite app_nil_r. destruct sys; unfold q_at, sq_at, uq_at; rewrite get_set_other by exact Hne; reflexivity.
Qed.

Lemma push_mb_none s a e : get s a = None -> push_mb s a e = set_err s.
Proof. intros H. unfold push_mb. apply with_actor_none. exact H. Qed.

Lemma q_at_set_pend sys s t l b : q_at sys (set_pend s t l) b = q_at sys s b.
Proof. apply q_at_keeps; apply keeps_set_pend; reflexivity. Qed.

Lemma q_at_resolve sys s r b : q_at sys (snd (resolve s r)) b = q_at sys s b.
Proof. apply q_at_keeps; apply keeps_resolve; reflexivity. Qed.

(** the insertion performed by a push on an already resolved target *)
Lemma push_step_q sys s1 t l tgt e b :
  err (set_pend (push_mb s1 tgt e) t l) = false ->
  q_at sys (set_pend (push_mb s1 tgt e) t l) b =
  q_at sys s1 b ++ (if Nat.eqb tgt b && Bool.eqb (e_sys e) sys then [e] else []).
Proof.
  intros He. rewrite q_at_set_pend. destruct (get s1 tgt) as [x|] eqn:Hg.
  - apply (push_mb_q _ _ _ _ _ _ Hg).
  - rewrite (push_mb_none _ _ _ Hg) in He. rewrite set_pend_err_mono in He by reflexivity. discriminate.
Qed.

Lemma queue_step s ev b sys :
  err (step s ev) = false ->
  popped_from s ev b sys ++ q_at sys (step s ev) b = q_at sys s b ++ pushed_to s ev b sys.
Proof.
  intros He.
  destruct (thread_event ev) eqn:Hte.
  { replace (popped_from s ev b sys) with (@nil envelope) by (destruct ev; try discriminate Hte; destruct sys; reflexivity).
    replace (pushed_to s ev b sys) with (@nil envelope) by (destruct ev; try discriminate Hte; reflexivity).
    rewrite app_nil_r. cbn [app]. apply q_at_keeps; [apply keeps_sq_thread|apply keeps_uq_thread]; exact Hte. }
  destruct ev; try discriminate Hte; cbn [pushed_to]; rewrite ?app_nil_r.
  - (* EvSysPop *)
    cbn [step popped_from] in *. destruct (get s a) as [x|] eqn:Hg; [|discriminate He].
    destruct (Nat.eqb_spec a b) as [<-|Hne].
    + destruct (a_cons x) eqn:Hc, (a_sq x) eqn:Hs; try discriminate He;
        destruct sys; cbn [app]; unfold q_at, sq_at, uq_at; rewrite (get_set_same' _ _ _ _ Hg), Hg; cbn; congruence.
    + assert (Hp : (if sys then @nil envelope else []) = []) by (destruct sys; reflexivity).
      destruct sys; cbn [app];
      destruct (a_cons x), (a_sq x); try discriminate He; unfold q_at, sq_at, uq_at; rewrite get_set_other by exact Hne; reflexivity.
  - (* EvUserPop *)
    cbn [step popped_from] in *. destruct (get s a) as [x|] eqn:Hg; [|discriminate He].
    destruct (Nat.eqb_spec a b) as [<-|Hne].
    + destruct (a_cons x) eqn:Hc, (a_uq x) eqn:Hs; try discriminate He;
        destruct sys; cbn [app]; unfold q_at, sq_at, uq_at; rewrite (get_set_same' _ _ _ _ Hg), Hg; cbn; congruence.
    + destruct sys; cbn [app];
      destruct (a_cons x), (a_uq x); try discriminate He; unfold q_at, sq_at, uq_at; rewrite get_set_other by exact Hne; reflexivity.
  - (* EvPush *)
    replace (popped_from s (EvPush t choice) b sys) with (@nil envelope) by (destruct sys; reflexivity). cbn [app].
    cbn [step] in *. unfold push_of.
    destruct (pend_of s t) as [|i rest]; [discriminate He|]. destruct i; try discriminate He.
    + rewrite deliver_eq in *. destruct (landing to _) as [tgt e']. cbn [fst snd] in *. apply push_step_q. exact He.
    + apply push_step_q. exact He.
    + destruct (nth_error tos choice) as [r|]; [|discriminate He].
      pose proof (q_at_resolve sys s r b) as Hr. destruct (resolve s r) as [mb s1]. cbn [fst snd] in *.
      rewrite deliver_eq in *. destruct (landing mb _) as [tgt e']. cbn [fst snd] in *.
      rewrite <- Hr. apply push_step_q. exact He.
    + destruct (nth_error remaining choice) as [r|]; [|discriminate He].
      pose proof (q_at_resolve sys s r b) as Hr. destruct (resolve s r) as [mb s1]. cbn [fst snd] in *.
      rewrite deliver_eq in *. destruct (landing mb _) as [tgt e']. cbn [fst snd] in *.
      rewrite <- Hr. apply push_step_q. exact He.
Qed.

(** FIFO along a whole run: what was popped followed by what is still queued = what was there followed by
    what was pushed, in order - for each actor and each of its two queues *)
Lemma queue_run sys b evs s :
  err (run_events evs s) = false ->
  popped_run b sys evs s ++ q_at sys (run_events evs s) b = q_at sys s b ++ pushed_run b sys evs s.
Proof.
  revert s. induction evs as [|ev r IH]; intros s He.
  - cbn. rewrite app_nil_r. reflexivity.
  - change (run_events (ev :: r) s) with (run_events r (step s ev)) in *.
    cbn [popped_run pushed_run]. rewrite <- app_assoc, (IH _ He), app_assoc.
    rewrite (queue_step s ev b sys (err_false_run_head r s ev He)), <- app_assoc. reflexivity.
Qed.

(** * C09-c: the consumer reaches the user-pop position only through a paused-load that saw "not paused" *)
Definition c3_back (s s' : state) : Prop :=
  forall b x', get s' b = Some x' -> a_cons x' = C3 -> exists x, get s b = Some x /\ a_cons x = C3.

Lemma c3_refl s : c3_back s s. Proof. intros b x' H1 H2. eauto. Qed.
Lemma c3_trans a b c : c3_back a b -> c3_back b c -> c3_back a c.
Proof. intros H1 H2 i x'' Hg Hc. destruct (H2 i x'' Hg Hc) as (x' & Hg' & Hc'). exact (H1 i x' Hg' Hc'). Qed.
Lemma c3_same_actors s s' : actors s' = actors s -> c3_back s s'.
Proof. intros H b x' Hg Hc. exists x'. unfold get in *. rewrite <- H. auto. Qed.

Lemma c3_upd_app s s' a x y news :
  get s a = Some x -> actors s' = upd (actors s) a y ++ news -> (a_cons y = C3 -> a_cons x = C3) ->
  Forall (fun n => a_cons n <> C3) news -> c3_back s s'.
Proof.
  intros Hg Ha Hy Hn b x' Hb Hc. unfold get in Hb. rewrite Ha in Hb.
  assert (Hl : a < length (actors s)) by (eapply nth_error_lt; exact Hg).
  destruct (Nat.lt_ge_cases b (length (actors s))) as [Hlt|Hge].
  - rewrite nth_error_app1 in Hb by (rewrite upd_length; exact Hlt).
    destruct (Nat.eq_dec a b) as [<-|Hne].
    + rewrite nth_upd_eq in Hb by exact Hl. inversion Hb; subst. eauto.
    + rewrite nth_upd_neq in Hb by exact Hne. eauto.
  - rewrite nth_error_app2 in Hb by (rewrite upd_length; exact Hge). apply nth_error_In in Hb.
    rewrite Forall_forall in Hn. exfalso. exact (Hn _ Hb Hc).
Qed.

Lemma c3_set_actor s a x y : get s a = Some x -> (a_cons y = C3 -> a_cons x = C3) -> c3_back s (set_actor s a y).
Proof. intros Hg Hy. eapply c3_upd_app with (news := []); [exact Hg|cbn; rewrite app_nil_r; reflexivity|exact Hy|constructor]. Qed.

Lemma c3_with_actor s a f : (forall x, a_cons (f x) = C3 -> a_cons x = C3) -> c3_back s (with_actor s a f).
Proof.
  intros H. unfold with_actor. destruct (get s a) as [x|] eqn:E; [|apply c3_same_actors; reflexivity].
  eapply c3_set_actor; [exact E|apply H].
Qed.

Lemma c3_set_pend s t l : c3_back s (set_pend s t l).
Proof.
  destruct t as [a|i]; [|apply c3_same_actors, set_pend_TX_actors].
  unfold set_pend. apply c3_with_actor. intros x H; exact H.
Qed.

Lemma c3_resolve s r : c3_back s (snd (resolve s r)).
Proof.
  destruct (resolve_shape s r) as [H|[H|(a & x & y & _ & Hg & _ & _ & H & _)]]; rewrite H;
    [apply c3_refl|apply c3_same_actors; reflexivity|]. eapply c3_set_actor; [exact Hg|intros E; exact E].
Qed.

Lemma c3_exec1 s t h i : c3_back s (fst (exec1 s t h i)).
Proof.
  destruct (get s (self_of t)) as [x|] eqn:E.
  - destruct (exec1_actors s t h i x E) as (y & news & Hy & Hnews & Ha).
    eapply c3_upd_app; [exact E|exact Ha| |].
    + intros Hc. destruct (lu_cons _ _ _ Hy) as [H|[[_ H]|[_ H]]]; congruence.
    + rewrite Forall_forall in *. intros n Hin. destruct (Hnews n Hin) as (p & g & par & sp & ->). discriminate.
  - rewrite (exec1_none _ _ _ _ E). apply c3_same_actors. reflexivity.
Qed.

Lemma c3_run_atomic f s t : c3_back s (run_atomic f s t).
Proof.
  apply run_atomic_rel.
  - apply c3_refl.
  - apply c3_trans.
  - intros; apply c3_same_actors; reflexivity.
  - intros; apply c3_set_pend.
  - intros; apply c3_resolve.
  - intros; apply c3_exec1.
Qed.

Lemma c3_sp_ra f s t l : c3_back s (run_atomic f (set_pend s t l) t).
Proof. eapply c3_trans; [apply c3_set_pend|apply c3_run_atomic]. Qed.

Lemma c3_push_mb s a e : c3_back s (push_mb s a e).
Proof. unfold push_mb. apply c3_with_actor. intros x H; exact H. Qed.

Lemma c3_step s ev b x' :
  get (step s ev) b = Some x' -> a_cons x' = C3 ->
  exists x, get s b = Some x /\ (a_cons x = C3 \/ (ev = EvLoadPaused b /\ a_cons x = C2 /\ a_paused x = false)).
Proof.
  intros Hg' Hc'.
  assert (Hgen : c3_back s (step s ev) -> exists x, get s b = Some x /\ (a_cons x = C3 \/ (ev = EvLoadPaused b /\ a_cons x = C2 /\ a_paused x = false))).
  { intros H. destruct (H b x' Hg' Hc') as (x & Hg & Hc). eauto. }
  destruct ev; cbn [step] in *.
  - apply Hgen. destruct (get s a) as [x|] eqn:Hg; [|apply c3_same_actors; reflexivity].
    destruct (a_cons x), (a_sq x); try (apply c3_same_actors; reflexivity); (eapply c3_set_actor; [exact Hg|discriminate]).
  - destruct (get s a) as [x|] eqn:Hg; [|apply Hgen, c3_same_actors; reflexivity].
    destruct (a_cons x) eqn:Hc; try (apply Hgen, c3_same_actors; reflexivity).
    destruct (Nat.eq_dec a b) as [<-|Hne].
    + rewrite (get_set_same' _ _ _ _ Hg) in Hg'. inversion Hg'; subst. cbn [set_mb a_cons] in Hc'.
      exists x. split; [exact Hg|]. right. destruct (a_paused x); [discriminate|auto].
    + rewrite get_set_other in Hg' by exact Hne. eauto.
  - apply Hgen. destruct (get s a) as [x|] eqn:Hg; [|apply c3_same_actors; reflexivity].
    destruct (a_cons x), (a_uq x); try (apply c3_same_actors; reflexivity); (eapply c3_set_actor; [exact Hg|discriminate]).
  - apply Hgen. destruct (get s a) as [x|] eqn:Hg; [|apply c3_same_actors; reflexivity].
    destruct (a_cons x); try (apply c3_same_actors; reflexivity).
    match goal with |- context[dispatch ?s0 a ?x0 e] =>
      assert (K0 : c3_back s s0) by (eapply c3_set_actor; [exact Hg|discriminate]);
      destruct (dispatch_effect s0 a x0 e (get_set_same' s a x0 x Hg)) as (y & Hy & Ha & _);
      assert (K1 : c3_back s0 (fst (dispatch s0 a x0 e)))
        by (eapply c3_upd_app with (news := []); [apply (get_set_same' s a x0 x Hg)|rewrite app_nil_r; exact Ha|rewrite (df_cons _ _ Hy); discriminate|constructor]);
      destruct (dispatch s0 a x0 e) as [s1 ins] end.
    cbn [fst] in K1. eapply c3_trans; [exact K0|]. eapply c3_trans; [exact K1|]. apply c3_sp_ra.
  - apply Hgen. destruct (pend_of s t) as [|i rest]; [apply c3_same_actors; reflexivity|].
    destruct i; try (apply c3_same_actors; reflexivity).
    + rewrite deliver_eq. eapply c3_trans; [apply c3_push_mb|apply c3_set_pend].
    + eapply c3_trans; [apply c3_push_mb|apply c3_set_pend].
    + destruct (nth_error tos choice) as [r|]; [|apply c3_same_actors; reflexivity].
      pose proof (c3_resolve s r) as Hr. destruct (resolve s r) as [mb s1]. cbn [snd] in Hr. rewrite deliver_eq.
      eapply c3_trans; [exact Hr|]. eapply c3_trans; [apply c3_push_mb|apply c3_set_pend].
    + destruct (nth_error remaining choice) as [r|]; [|apply c3_same_actors; reflexivity].
      pose proof (c3_resolve s r) as Hr. destruct (resolve s r) as [mb s1]. cbn [snd] in Hr. rewrite deliver_eq.
      eapply c3_trans; [exact Hr|]. eapply c3_trans; [apply c3_push_mb|apply c3_set_pend].
  - apply Hgen. destruct (pend_of s t) as [|i rest]; [apply c3_same_actors; reflexivity|].
    destruct i; try (apply c3_same_actors; reflexivity). apply c3_sp_ra.
  - apply Hgen. destruct (pend_of s t) as [|i rest]; [apply c3_same_actors; reflexivity|].
    destruct i; try (apply c3_same_actors; reflexivity).
    eapply c3_trans; [|apply c3_sp_ra]. apply c3_with_actor. intros x H; exact H.
  - apply Hgen. destruct (pend_of s t) as [|i rest]; [apply c3_same_actors; reflexivity|].
    destruct i; try (apply c3_same_actors; reflexivity).
    destruct (get s (self_of t)) as [x|] eqn:Hg; [|apply c3_same_actors; reflexivity].
    destruct (a_paused x).
    + eapply c3_trans; [|apply c3_set_pend]. eapply c3_set_actor; [exact Hg|intros H; exact H].
    + apply c3_sp_ra.
  - apply Hgen. destruct (pend_of s t) as [|i rest]; [apply c3_same_actors; reflexivity|].
    destruct i; try (apply c3_same_actors; reflexivity). apply c3_sp_ra.
  - apply Hgen. apply c3_run_atomic.
Qed.

(** a user envelope is popped only in that position *)
Lemma user_pop_needs_c3 s ev b e : popped_from s ev b false = [e] ->
  ev = EvUserPop b /\ exists x, get s b = Some x /\ a_cons x = C3 /\ exists r, a_uq x = e :: r.
Proof.
  destruct ev; cbn [popped_from]; try discriminate.
  destruct (Nat.eqb_spec a b) as [<-|Hne]; [|discriminate].
  destruct (get s a) as [x|] eqn:Hg; [|discriminate].
  destruct (a_cons x) eqn:Hc; try discriminate. destruct (a_uq x) as [|e0 r] eqn:Hu; [discriminate|].
  intros H. inversion H; subst. split; [reflexivity|]. exists x. repeat split; eauto.
Qed.

(** * C09: the paused flag is written only by the mailbox's own Pause / Resume words *)
Definition pause_effect (ev : event) (b : aid) : option bool :=
  match ev with
  | EvPauseSt t => if Nat.eqb (self_of t) b then Some true else None
  | EvResume1 t => if Nat.eqb (self_of t) b then Some false else None
  | _ => None
  end.

Lemma keeps_paused_np s ev : thread_event ev = true -> pause_event ev = false -> keeps a_paused false s (step s ev).
Proof. apply keeps_step_thread_np; auto; intros; try reflexivity; match goal with H : _ |- _ => apply H end. Qed.

Lemma paused_push_mb s a e b : paused_at (push_mb s a e) b = paused_at s b.
Proof. unfold push_mb. apply (keeps_with_actor a_paused false). intros; reflexivity. Qed.

Lemma paused_step s ev b :
  err (step s ev) = false ->
  paused_at (step s ev) b = match pause_effect ev b with Some v => v | None => paused_at s b end.
Proof.
  intros He.
  assert (Hsp : forall s0 t l, paused_at (set_pend s0 t l) b = paused_at s0 b)
    by (intros; apply (keeps_set_pend a_paused false); reflexivity).
  assert (Hra : forall f s0 t, paused_at (run_atomic f s0 t) b = paused_at s0 b)
    by (intros; apply keeps_paused_run_atomic).
  assert (Hres : forall s0 r, paused_at (snd (resolve s0 r)) b = paused_at s0 b)
    by (intros; apply (keeps_resolve a_paused false); reflexivity).
  destruct (thread_event ev) eqn:Hte.
  - destruct (pause_event ev) eqn:Hpe.
    + destruct ev; try discriminate Hpe; cbn [step pause_effect] in *.
      * (* EvPauseSt *)
        destruct (pend_of s t) as [|i rest]; [discriminate He|]. destruct i; try discriminate He.
        rewrite Hra, Hsp. destruct (get s (self_of t)) as [x|] eqn:Hg.
        -- rewrite (with_actor_some _ _ _ _ Hg). unfold paused_at. destruct (Nat.eqb_spec (self_of t) b) as [<-|Hne].
           ++ rewrite (get_set_same' _ _ _ _ Hg). reflexivity.
           ++ rewrite get_set_other by exact Hne. reflexivity.
        -- rewrite (with_actor_none _ _ _ Hg) in He. rewrite err_mono_run_atomic in He; [discriminate|].
           apply set_pend_err_mono. reflexivity.
      * (* EvResume1 *)
        destruct (pend_of s t) as [|i rest]; [discriminate He|]. destruct i; try discriminate He.
        destruct (get s (self_of t)) as [x|] eqn:Hg; [|discriminate He].
        destruct (a_paused x) eqn:Hpa.
        -- rewrite Hsp. unfold paused_at. destruct (Nat.eqb_spec (self_of t) b) as [<-|Hne].
           ++ rewrite (get_set_same' _ _ _ _ Hg). reflexivity.
           ++ rewrite get_set_other by exact Hne. reflexivity.
        -- rewrite Hra, Hsp. unfold paused_at. destruct (Nat.eqb_spec (self_of t) b) as [<-|Hne]; [rewrite Hg; exact Hpa|reflexivity].
    + replace (pause_effect ev b) with (@None bool) by (destruct ev; try discriminate Hpe; reflexivity).
      apply keeps_paused_np; assumption.
  - destruct ev; try discriminate Hte; cbn [pause_effect step] in *.
    + destruct (get s a) as [x|] eqn:Hg; [|discriminate He].
      destruct (a_cons x), (a_sq x); try discriminate He; unfold paused_at;
        (destruct (Nat.eq_dec a b) as [<-|Hne]; [rewrite (get_set_same' _ _ _ _ Hg), Hg; reflexivity|rewrite get_set_other by exact Hne; reflexivity]).
    + destruct (get s a) as [x|] eqn:Hg; [|discriminate He].
      destruct (a_cons x), (a_uq x); try discriminate He; unfold paused_at;
        (destruct (Nat.eq_dec a b) as [<-|Hne]; [rewrite (get_set_same' _ _ _ _ Hg), Hg; reflexivity|rewrite get_set_other by exact Hne; reflexivity]).
    + destruct (pend_of s t) as [|i rest]; [discriminate He|]. destruct i; try discriminate He.
      * rewrite deliver_eq. rewrite Hsp. apply paused_push_mb.
      * rewrite Hsp. apply paused_push_mb.
      * destruct (nth_error tos choice) as [r|]; [|discriminate He].
        pose proof (Hres s r) as Hr. destruct (resolve s r) as [mb s1]. cbn [snd] in Hr. rewrite deliver_eq, Hsp, paused_push_mb. exact Hr.
      * destruct (nth_error remaining choice) as [r|]; [|discriminate He].
        pose proof (Hres s r) as Hr. destruct (resolve s r) as [mb s1]. cbn [snd] in Hr. rewrite deliver_eq, Hsp, paused_push_mb. exact Hr.
Qed.
