(** Tree invariants of C06-c, part 1: an OnKilled naming actor c is found outside c's own context only after c has
    released its path (c's cleanup removes the registry entry before it sends the notifications). *)
From Coq Require Import List NArith ZArith Bool Lia.
From Vivid Require Import Base.Tm Actor.Core Actor.CoreRun Actor.SpecLife Actor.ProofsLife Actor.ProofsLifeInv Actor.ProofsLifeSum
  Actor.ProofsLifePhase Actor.ProofsLifeGen Actor.ProofsLifeTree Actor.ProofsLifeReg.
Import ListNotations.
Local Open Scope N_scope.
#[local] Strategy 100 [run_atomic FUEL].

Definition mkb (c : aid) (m : msg) : bool := match m with MKilled (RObj b) => Nat.eqb b c | _ => false end.
Definition env_mk (c : aid) (e : envelope) : bool := mkb c (e_msg e).
Definition instr_mk (c : aid) (i : instr) : bool :=
  match i with
  | IEnq _ _ _ m | IEnqR _ _ _ m | IEnqAny _ _ _ m => mkb c m
  | IEnqMb _ e => env_mk c e
  | IOnKilled (RObj b) => Nat.eqb b c
  | _ => false
  end.
(** instructions of c's own thread that would carry "c was killed" to somebody else *)
Definition send_mk (c : aid) (i : instr) : bool :=
  match i with
  | IEnq _ _ _ m | IEnqR _ _ _ m | IEnqAny _ _ _ m => mkb c m
  | IEnqMb b e => negb (Nat.eqb b c) && env_mk c e
  | _ => false
  end.

Definition taint (c : aid) (y : actor) : bool :=
  existsb (env_mk c) (a_sq y) || existsb (env_mk c) (a_uq y) || existsb (env_mk c) (a_stash y)
  || (match a_cons y with CH e => env_mk c e | _ => false end)
  || (match a_cur y with Some e => env_mk c e | None => false end)
  || existsb (instr_mk c) (a_pend y).

Definition otaint (c q : aid) (y : actor) : bool :=
  if Nat.eqb q c then existsb (send_mk c) (a_pend y) else taint c y.

Definition isreg (s : state) (c : aid) : Prop := exists x, get s c = Some x /\ alookup (reg s) (a_path x) = Some c.
(** c is registered, or does not exist yet *)
Definition live (s : state) (c : aid) : Prop := (c <> 0%nat /\ isreg s c) \/ (length (actors s) <= c)%nat.

Definition clean (s : state) (c : aid) : Prop :=
  (forall q y, get s q = Some y -> otaint c q y = false) /\
  (forall k ex, nth_error (exts s) k = Some ex -> existsb (instr_mk c) (x_pend ex) = false).

Definition T2 (s : state) : Prop := forall c, live s c -> clean s c.

(* ------------------------------------------------------------------ small facts *)

Lemma send_le_instr c i : send_mk c i = true -> instr_mk c i = true.
Proof. destruct i; cbn; try discriminate; auto. intros H. apply andb_prop in H as [_ H]. exact H. Qed.

Lemma taint_split c y :
  taint c y = true <->
  (existsb (env_mk c) (a_sq y) = true \/ existsb (env_mk c) (a_uq y) = true \/ existsb (env_mk c) (a_stash y) = true \/
   (match a_cons y with CH e => env_mk c e | _ => false end) = true \/
   (match a_cur y with Some e => env_mk c e | None => false end) = true \/
   existsb (instr_mk c) (a_pend y) = true).
Proof. unfold taint. rewrite !orb_true_iff. tauto. Qed.

Lemma otaint_false_pend c q y : otaint c q y = false -> existsb (send_mk c) (a_pend y) = false.
Proof.
  unfold otaint. destruct (Nat.eqb q c); [auto|]. intros H.
  destruct (existsb (send_mk c) (a_pend y)) eqn:E; [|reflexivity].
  apply existsb_exists in E as (i & Hi & Hs). apply send_le_instr in Hs.
  assert (Ht : taint c y = true) by (apply taint_split; do 5 right; apply existsb_exists; exists i; auto). congruence.
Qed.

(** same record except the mailbox cache and the paused flag *)
Definition csame (x y : actor) : Prop :=
  lsame x y /\ a_sq y = a_sq x /\ a_uq y = a_uq x.

Lemma taint_csame c x y : csame x y -> taint c y = taint c x.
Proof.
  intros ((_ & _ & _ & _ & _ & _ & _ & _ & _ & Hst & _ & _ & _ & _ & Hco & Hcu & Hp) & Hsq & Huq).
  unfold taint. rewrite Hst, Hco, Hcu, Hp, Hsq, Huq. reflexivity.
Qed.

Lemma otaint_csame c q x y : csame x y -> otaint c q y = otaint c q x.
Proof.
  intros H. unfold otaint. rewrite (taint_csame c x y H).
  destruct H as ((_ & _ & _ & _ & _ & _ & _ & _ & _ & _ & _ & _ & _ & _ & _ & _ & Hp) & _). rewrite Hp. reflexivity.
Qed.

(** states that differ in caches / paused flags only *)
Definition cequiv (s s' : state) : Prop :=
  (forall b, match get s b, get s' b with
             | Some x, Some y => csame x y
             | None, None => True
             | _, _ => False
             end) /\ exts s' = exts s /\ reg s' = reg s.

Lemma length_of_get s s' :
  (forall b, match get s b, get s' b with Some _, Some _ => True | None, None => True | _, _ => False end) ->
  length (actors s') = length (actors s).
Proof.
  intros H. unfold get in H.
  destruct (Nat.lt_trichotomy (length (actors s')) (length (actors s))) as [Hl|[Hl|Hl]]; [|exact Hl|].
  - specialize (H (length (actors s'))).
    assert (E2 : nth_error (actors s') (length (actors s')) = None) by (apply nth_error_None; lia).
    rewrite E2 in H. destruct (nth_error (actors s) (length (actors s'))) eqn:E1; [contradiction|].
    apply nth_error_None in E1. lia.
  - specialize (H (length (actors s))).
    assert (E2 : nth_error (actors s) (length (actors s)) = None) by (apply nth_error_None; lia).
    rewrite E2 in H. destruct (nth_error (actors s') (length (actors s))) eqn:E1; [contradiction|].
    apply nth_error_None in E1. lia.
Qed.

Lemma live_cequiv s s' c : cequiv s s' -> live s' c -> live s c.
Proof.
  intros (Hm & _ & Hr) [(Hc0 & y & Hy & Hl)|Hlen].
  - left. split; [exact Hc0|]. pose proof (Hm c) as Hc. rewrite Hy in Hc. destruct (get s c) as [x|] eqn:Hx; [|contradiction].
    exists x. split; [exact Hx|]. rewrite Hr in Hl. destruct Hc as ((Hp & _) & _). rewrite <- Hp. exact Hl.
  - right. rewrite <- (length_of_get s s'); [exact Hlen|].
    intros b. specialize (Hm b). destruct (get s b), (get s' b); auto.
Qed.

Lemma clean_cequiv s s' c : cequiv s s' -> clean s c -> clean s' c.
Proof.
  intros (Hm & He & _) (C1 & C2). split.
  - intros q y Hy. specialize (Hm q). rewrite Hy in Hm. destruct (get s q) as [x|] eqn:Hx; [|contradiction].
    rewrite (otaint_csame c q x y Hm). apply (C1 q x Hx).
  - rewrite He. exact C2.
Qed.

Lemma T2_cequiv s s' : cequiv s s' -> T2 s -> T2 s'.
Proof. intros Hc HT c Hl. apply (clean_cequiv s s' c Hc). apply HT. apply (live_cequiv s s' c Hc Hl). Qed.

Lemma cequiv_refl s : cequiv s s.
Proof. split; [|split; reflexivity]. intros b. destruct (get s b); [split; [apply lsame_refl|split; reflexivity]|exact I]. Qed.

Lemma cequiv_set_actor s a x y : get s a = Some x -> csame x y -> cequiv s (set_actor s a y).
Proof.
  intros Hg Hc. split; [|split; reflexivity]. intros b. destruct (Nat.eq_dec a b) as [<-|Hab].
  - rewrite (get_set_actor_same _ _ _ _ Hg), Hg. exact Hc.
  - rewrite get_set_actor_other by exact Hab. destruct (get s b); [split; [apply lsame_refl|split; reflexivity]|exact I].
Qed.

Lemma cequiv_set_err s : cequiv s (set_err s).
Proof. split; [|split; reflexivity]. intros b. change (get (set_err s) b) with (get s b). destruct (get s b); [split; [apply lsame_refl|split; reflexivity]|exact I]. Qed.

Lemma cequiv_resolve s r : cequiv s (snd (resolve s r)).
Proof.
  destruct r as [a|p|]; cbn [resolve]; [| |apply cequiv_refl].
  - destruct (get s a) as [x|] eqn:Hg; [|apply cequiv_set_err].
    destruct (a_cache x); [apply cequiv_refl|].
    destruct (alookup (reg s) (a_path x)); [|destruct (path_eqb (a_path x) []); apply cequiv_refl].
    cbn [snd]. apply (cequiv_set_actor _ _ x); [exact Hg|]. split; [repeat split|split; reflexivity].
  - destruct (alookup (reg s) p); [apply cequiv_refl|]. destruct (path_eqb p []); apply cequiv_refl.
Qed.

Lemma cequiv_trans s1 s2 s3 : cequiv s1 s2 -> cequiv s2 s3 -> cequiv s1 s3.
Proof.
  intros (H1 & E1 & R1) (H2 & E2 & R2). split; [|split; congruence].
  intros b. specialize (H1 b). specialize (H2 b).
  destruct (get s1 b), (get s2 b), (get s3 b); try contradiction; try exact I.
  destruct H1 as (L1 & A1 & B1), H2 as (L2 & A2 & B2). split; [|split; congruence].
  unfold lsame in *. intuition congruence.
Qed.

(* ------------------------------------------------------------------ operations that keep registry and paths *)

Definition psame (s s' : state) : Prop :=
  reg s' = reg s /\ forall b, option_map a_path (get s' b) = option_map a_path (get s b).

Lemma live_psame s s' c : psame s s' -> live s' c -> live s c.
Proof.
  intros (Hr & Hp) [(Hc0 & y & Hy & Hl)|Hlen].
  - left. split; [exact Hc0|]. specialize (Hp c). rewrite Hy in Hp. destruct (get s c) as [x|] eqn:Hx; [|discriminate Hp].
    cbn [option_map] in Hp. inversion Hp as [Hpp]. exists x. split; [exact Hx|]. rewrite <- Hpp, <- Hr. exact Hl.
  - right. rewrite <- (length_of_get s s'); [exact Hlen|].
    intros b. specialize (Hp b). destruct (get s b), (get s' b); try discriminate Hp; exact I.
Qed.

Lemma psame_set_pend s t p : psame s (set_pend s t p).
Proof.
  destruct t as [a|k]; cbn [set_pend].
  - unfold with_actor. destruct (get s a) as [x|] eqn:Hg; [|split; [reflexivity|intros b; reflexivity]].
    split; [reflexivity|]. intros b. destruct (Nat.eq_dec a b) as [<-|Hab].
    + rewrite (get_set_actor_same _ _ _ _ Hg), Hg. reflexivity.
    + rewrite get_set_actor_other by exact Hab. reflexivity.
  - destruct (nth_error (exts s) k); split; try reflexivity; intros b; reflexivity.
Qed.

Lemma psame_set_actor s a x y : get s a = Some x -> a_path y = a_path x -> psame s (set_actor s a y).
Proof.
  intros Hg Hp. split; [reflexivity|]. intros b. destruct (Nat.eq_dec a b) as [<-|Hab].
  - rewrite (get_set_actor_same _ _ _ _ Hg), Hg. cbn [option_map]. rewrite Hp. reflexivity.
  - rewrite get_set_actor_other by exact Hab. reflexivity.
Qed.

Lemma existsb_false_forall {A} (f : A -> bool) l : existsb f l = false -> forall j, In j l -> f j = false.
Proof.
  intros H j Hj. destruct (f j) eqn:E; [|reflexivity].
  assert (existsb f l = true) by (apply existsb_exists; exists j; auto). congruence.
Qed.

Lemma existsb_false_intro {A} (f : A -> bool) l : (forall j, In j l -> f j = false) -> existsb f l = false.
Proof.
  intros H. destruct (existsb f l) eqn:E; [|reflexivity]. apply existsb_exists in E as (j & Hj & Hf). rewrite (H j Hj) in Hf. discriminate.
Qed.

(** replacing the pending list of a thread by instructions that carry nothing new *)
Lemma T2_set_pend s t l p :
  T2 s -> pend_of s t = l ->
  (forall c j, In j p -> instr_mk c j = true -> existsb (instr_mk c) l = true) ->
  (forall c j, In j p -> send_mk c j = true -> existsb (send_mk c) l = true) ->
  T2 (set_pend s t p).
Proof.
  intros HT Hl Hi Hs c Hlive. apply (live_psame _ _ c (psame_set_pend s t p)) in Hlive.
  destruct (HT c Hlive) as (C1 & C2). destruct t as [a|k].
  - cbn [pend_of] in Hl. split.
    + intros q y Hy. destruct (Nat.eq_dec a q) as [<-|Haq].
      * cbn [set_pend] in Hy. unfold with_actor in Hy. destruct (get s a) as [x|] eqn:Hg; [|apply (C1 a y Hy)].
        rewrite (get_set_actor_same _ _ _ _ Hg) in Hy. inversion Hy; subst y. specialize (C1 a x Hg).
        unfold otaint in *. destruct (Nat.eqb a c).
        -- cbn [upd_pend a_pend]. apply existsb_false_intro. intros j Hj. destruct (send_mk c j) eqn:E; [|reflexivity].
           rewrite <- Hl in Hs. rewrite (Hs c j Hj E) in C1. discriminate C1.
        -- destruct (taint c (upd_pend x p)) eqn:E; [|reflexivity]. exfalso.
           apply taint_split in E. cbn [upd_pend a_sq a_uq a_stash a_cons a_cur a_pend] in E.
           assert (Hx : taint c x = true).
           { apply taint_split. destruct E as [E|[E|[E|[E|[E|E]]]]]; [tauto|tauto|tauto|tauto|tauto|]. do 5 right.
             apply existsb_exists in E as (j & Hj & Hm). rewrite <- Hl in Hi. apply (Hi c j Hj Hm). }
           congruence.
      * rewrite get_set_pend_TA_other in Hy by exact Haq. apply (C1 q y Hy).
    + cbn [set_pend]. unfold with_actor. destruct (get s a); exact C2.
  - cbn [pend_of] in Hl. split.
    + intros q y Hy. rewrite get_set_pend_TX in Hy. apply (C1 q y Hy).
    + cbn [set_pend]. destruct (nth_error (exts s) k) as [ex|] eqn:Hn; [|exact C2].
      intros j exj Hj. unfold set_ext in Hj; cbn [exts] in Hj. destruct (Nat.eq_dec k j) as [<-|Hkj].
      * rewrite (nth_error_upd_same _ _ _ _ Hn) in Hj. inversion Hj; subst exj. cbn [x_pend].
        apply existsb_false_intro. intros i Hin. destruct (instr_mk c i) eqn:E; [|reflexivity].
        rewrite <- Hl in Hi. specialize (Hi c i Hin E). rewrite (C2 k ex Hn) in Hi. discriminate Hi.
      * rewrite nth_error_upd_other in Hj by exact Hkj. apply (C2 j exj Hj).
Qed.

Lemma T2_pop s t i rest : T2 s -> pend_of s t = i :: rest -> T2 (set_pend s t rest).
Proof.
  intros HT Hp. apply (T2_set_pend s t (i :: rest) rest HT Hp).
  - intros c j Hj Hm. apply existsb_exists. exists j. split; [right; exact Hj|exact Hm].
  - intros c j Hj Hm. apply existsb_exists. exists j. split; [right; exact Hj|exact Hm].
Qed.

(* ------------------------------------------------------------------ queue insertion *)

Lemma psame_push_mb s b e : psame s (push_mb s b e).
Proof.
  unfold push_mb, with_actor. destruct (get s b) as [x|] eqn:Hg; [|split; [reflexivity|intros q; reflexivity]].
  apply (psame_set_actor _ _ x); [exact Hg|reflexivity].
Qed.

Lemma T2_push_mb s b e :
  T2 s -> (forall c, live s c -> b <> c -> env_mk c e = false) -> T2 (push_mb s b e).
Proof.
  intros HT He c Hlive. apply (live_psame _ _ c (psame_push_mb s b e)) in Hlive.
  destruct (HT c Hlive) as (C1 & C2). unfold push_mb, with_actor.
  destruct (get s b) as [x|] eqn:Hg; [|split; [exact C1|exact C2]].
  split; [|exact C2]. intros q y Hy. destruct (Nat.eq_dec b q) as [<-|Hbq].
  - rewrite (get_set_actor_same _ _ _ _ Hg) in Hy. inversion Hy; subst y. specialize (C1 b x Hg).
    unfold otaint in *. destruct (Nat.eqb b c) eqn:Hbc; [exact C1|].
    apply Nat.eqb_neq in Hbc. specialize (He c Hlive Hbc).
    match goal with |- taint c ?yy = false => destruct (taint c yy) eqn:E end; [|reflexivity]. exfalso.
    apply taint_split in E. cbn [a_sq a_uq a_stash a_cons a_cur a_pend] in E.
    assert (Hx : taint c x = true).
    { apply taint_split. destruct E as [E|[E|[E|[E|[E|E]]]]]; [| |tauto|tauto|tauto|tauto].
      - destruct (e_sys e); [|tauto]. rewrite existsb_app in E. cbn [existsb] in E. rewrite He in E. cbn in E.
        rewrite orb_false_r in E. tauto.
      - destruct (e_sys e); [tauto|]. rewrite existsb_app in E. cbn [existsb] in E. rewrite He in E. cbn in E.
        rewrite orb_false_r in E. tauto. }
    congruence.
  - rewrite get_set_actor_other in Hy by exact Hbq. apply (C1 q y Hy).
Qed.

Definition mb_target (m : mbox) : aid := match m with MbActor b => b | _ => 0%nat end.

Lemma T2_deliver s mb e :
  T2 s -> (forall c, live s c -> mb_target mb <> c -> env_mk c e = false) -> T2 (fst (deliver s mb e)).
Proof.
  intros HT He. destruct mb as [b| |]; cbn [deliver fst].
  - apply T2_push_mb; [exact HT|exact He].
  - apply T2_push_mb; [exact HT|exact He].
  - apply T2_push_mb; [exact HT|]. intros c _ _. reflexivity.
Qed.

(** what the head of a thread's pending list can carry, for a registered (or future) c *)
Lemma head_clean s t i rest c :
  T2 s -> live s c -> pend_of s t = i :: rest ->
  send_mk c i = false /\ (t <> TA c -> instr_mk c i = false).
Proof.
  intros HT Hl Hp. destruct (HT c Hl) as (C1 & C2). destruct t as [q|k].
  - cbn [pend_of] in Hp. destruct (get s q) as [y|] eqn:Hg; [|discriminate Hp].
    specialize (C1 q y Hg). split.
    + pose proof (otaint_false_pend c q y C1) as H. rewrite Hp in H. cbn [existsb] in H. apply orb_false_elim in H as [H _]. exact H.
    + intros Hne. unfold otaint in C1. destruct (Nat.eqb q c) eqn:E; [apply Nat.eqb_eq in E; congruence|].
      destruct (instr_mk c i) eqn:Ei; [|reflexivity].
      assert (taint c y = true) by (apply taint_split; do 5 right; rewrite Hp; cbn [existsb]; rewrite Ei; reflexivity). congruence.
  - cbn [pend_of] in Hp. destruct (nth_error (exts s) k) as [ex|] eqn:Hn; [|discriminate Hp].
    specialize (C2 k ex Hn). rewrite Hp in C2. cbn [existsb] in C2. apply orb_false_elim in C2 as [C2 _].
    split; [|intros _; exact C2]. destruct (send_mk c i) eqn:E; [|reflexivity]. apply send_le_instr in E. congruence.
Qed.

Lemma mb_equiv_psame_pend s s' t : mb_equiv s s' -> pend_of s' t = pend_of s t.
Proof. apply pend_of_mb. Qed.

Lemma live_resolve s r c : live (snd (resolve s r)) c <-> live s c.
Proof.
  pose proof (cequiv_resolve s r) as Hc. split; [apply (live_cequiv _ _ c Hc)|].
  intros [(Hc0 & x & Hx & Hl)|Hlen].
  - left. split; [exact Hc0|]. destruct Hc as (Hm & _ & Hr). specialize (Hm c). rewrite Hx in Hm.
    destruct (get (snd (resolve s r)) c) as [y|] eqn:Hy; [|contradiction]. exists y. split; [exact Hy|].
    rewrite Hr. destruct Hm as ((Hp & _) & _). rewrite Hp. exact Hl.
  - right. destruct Hc as (Hm & _). rewrite (length_of_get s (snd (resolve s r))); [exact Hlen|].
    intros b. specialize (Hm b). destruct (get s b), (get (snd (resolve s r)) b); auto.
Qed.

Lemma T2_push s t choice : SInv s -> T2 s -> err (step s (EvPush t choice)) = false -> T2 (step s (EvPush t choice)).
Proof.
  intros _ HT Herr. cbn [step] in *.
  destruct (pend_of s t) as [|i rest] eqn:Hp; [discriminate|].
  destruct i; try discriminate.
  - (* IEnqR *)
    destruct (deliver s to {| e_sys := sys; e_sender := sender; e_msg := m |}) as [s2 u] eqn:Hdl.
    pose proof (mb_equiv_deliver s to {| e_sys := sys; e_sender := sender; e_msg := m |}) as Hm. rewrite Hdl in Hm. cbn [fst] in Hm.
    assert (HT2 : T2 s2).
    { pose proof (T2_deliver s to {| e_sys := sys; e_sender := sender; e_msg := m |} HT) as H. rewrite Hdl in H. apply H.
      intros c Hl _. destruct (head_clean s t _ rest c HT Hl Hp) as [H1 _]. exact H1. }
    apply (T2_pop s2 t (IEnqR sys to sender m) rest HT2). rewrite (pend_of_mb _ _ t Hm). exact Hp.
  - (* IEnqMb *)
    pose proof (mb_equiv_push_mb s to e) as Hm.
    assert (HT2 : T2 (push_mb s to e)).
    { apply T2_push_mb; [exact HT|]. intros c Hl Hne. destruct (head_clean s t _ rest c HT Hl Hp) as [H1 H2].
      cbn [send_mk] in H1. apply Nat.eqb_neq in Hne. rewrite Hne in H1. exact H1. }
    apply (T2_pop _ t (IEnqMb to e) rest HT2). rewrite (pend_of_mb _ _ t Hm). exact Hp.
  - (* IEnqAny *)
    destruct (nth_error tos choice) as [to|]; [|discriminate].
    pose proof (mb_equiv_resolve s to) as Hm1. pose proof (cequiv_resolve s to) as Hc1.
    pose proof (live_resolve s to) as Hlr.
    destruct (resolve s to) as [mb s1]. cbn [snd] in *.
    destruct (deliver s1 mb {| e_sys := sys; e_sender := sender; e_msg := m |}) as [s2 u] eqn:Hdl.
    pose proof (mb_equiv_deliver s1 mb {| e_sys := sys; e_sender := sender; e_msg := m |}) as Hm2. rewrite Hdl in Hm2. cbn [fst] in Hm2.
    assert (HT2 : T2 s2).
    { pose proof (T2_deliver s1 mb {| e_sys := sys; e_sender := sender; e_msg := m |} (T2_cequiv _ _ Hc1 HT)) as H. rewrite Hdl in H. apply H.
      intros c Hl _. apply Hlr in Hl. destruct (head_clean s t _ rest c HT Hl Hp) as [H1 _]. exact H1. }
    assert (Hp2 : pend_of s2 t = IEnqAny sys tos sender m :: rest)
      by (rewrite (pend_of_mb _ _ t Hm2), (pend_of_mb _ _ t Hm1); exact Hp).
    apply (T2_set_pend s2 t _ _ HT2 Hp2).
    + intros c j Hj Hmk. cbn [existsb instr_mk]. destruct Hj as [<-|Hj]; [discriminate Hmk|].
      destruct (firstn choice tos ++ skipn (S choice) tos).
      * apply orb_true_intro. right. apply existsb_exists. exists j. auto.
      * destruct Hj as [<-|Hj]; [cbn in Hmk; rewrite Hmk; reflexivity|].
        apply orb_true_intro. right. apply existsb_exists. exists j. auto.
    + intros c j Hj Hmk. cbn [existsb send_mk]. destruct Hj as [<-|Hj]; [discriminate Hmk|].
      destruct (firstn choice tos ++ skipn (S choice) tos).
      * apply orb_true_intro. right. apply existsb_exists. exists j. auto.
      * destruct Hj as [<-|Hj]; [cbn in Hmk; rewrite Hmk; reflexivity|].
        apply orb_true_intro. right. apply existsb_exists. exists j. auto.
  - (* ISupPause *)
    destruct (nth_error remaining choice) as [to|]; [|discriminate].
    pose proof (mb_equiv_resolve s to) as Hm1. pose proof (cequiv_resolve s to) as Hc1.
    destruct (resolve s to) as [mb s1]. cbn [snd] in *.
    destruct (deliver s1 mb {| e_sys := true; e_sender := RObj (self_of t); e_msg := MCmdPause |}) as [s2 u] eqn:Hdl.
    pose proof (mb_equiv_deliver s1 mb {| e_sys := true; e_sender := RObj (self_of t); e_msg := MCmdPause |}) as Hm2. rewrite Hdl in Hm2. cbn [fst] in Hm2.
    assert (HT2 : T2 s2).
    { pose proof (T2_deliver s1 mb {| e_sys := true; e_sender := RObj (self_of t); e_msg := MCmdPause |} (T2_cequiv _ _ Hc1 HT)) as H. rewrite Hdl in H. apply H.
      intros c1 _ _. reflexivity. }
    assert (Hp2 : pend_of s2 t = ISupPause c d remaining done :: rest)
      by (rewrite (pend_of_mb _ _ t Hm2), (pend_of_mb _ _ t Hm1); exact Hp).
    apply (T2_set_pend s2 t _ _ HT2 Hp2).
    + intros c0 j Hj Hmk. destruct Hj as [<-|[<-|Hj]]; try discriminate Hmk.
      cbn [existsb]. apply orb_true_intro. right. apply existsb_exists. exists j. auto.
    + intros c0 j Hj Hmk. destruct Hj as [<-|[<-|Hj]]; try discriminate Hmk.
      cbn [existsb]. apply orb_true_intro. right. apply existsb_exists. exists j. auto.
Qed.

(* ------------------------------------------------------------------ replacing one context's record *)

Lemma T2_ext s s' : actors s' = actors s -> reg s' = reg s -> exts s' = exts s -> T2 s -> T2 s'.
Proof.
  intros Ha Hr He HT c Hl.
  assert (Hl0 : live s c).
  { destruct Hl as [(Hc0 & x & Hx & Hlk)|Hlen]; [left; split; [exact Hc0|]|right; rewrite <- Ha; exact Hlen].
    exists x. unfold get in *. rewrite <- Ha, <- Hr. auto. }
  destruct (HT c Hl0) as (C1 & C2). split.
  - intros q y Hy. apply (C1 q y). unfold get in *. rewrite <- Ha. exact Hy.
  - rewrite He. exact C2.
Qed.

Lemma T2_set_actor s a x y :
  T2 s -> get s a = Some x -> a_path y = a_path x ->
  (forall c, live s c -> a <> c -> taint c y = true -> taint c x = true) ->
  (forall c, live s c -> existsb (send_mk c) (a_pend y) = true -> existsb (send_mk c) (a_pend x) = true) ->
  T2 (set_actor s a y).
Proof.
  intros HT Hg Hp Ht Hs c Hl. apply (live_psame _ _ c (psame_set_actor s a x y Hg Hp)) in Hl.
  destruct (HT c Hl) as (C1 & C2). split; [|exact C2].
  intros q z Hz. destruct (Nat.eq_dec a q) as [<-|Haq].
  - rewrite (get_set_actor_same _ _ _ _ Hg) in Hz. inversion Hz; subst z. specialize (C1 a x Hg).
    unfold otaint in *. destruct (Nat.eqb a c) eqn:Hac.
    + destruct (existsb (send_mk c) (a_pend y)) eqn:E; [|reflexivity]. rewrite (Hs c Hl E) in C1. discriminate C1.
    + apply Nat.eqb_neq in Hac. destruct (taint c y) eqn:E; [|reflexivity]. rewrite (Ht c Hl Hac E) in C1. discriminate C1.
  - rewrite get_set_actor_other in Hz by exact Haq. apply (C1 q z Hz).
Qed.

Lemma T2_consumer s ev :
  (match ev with EvSysPop _ | EvLoadPaused _ | EvUserPop _ => True | _ => False end) ->
  SInv s -> T2 s -> err (step s ev) = false -> T2 (step s ev).
Proof.
  intros Hev _ HT Herr. destruct ev; try contradiction; cbn [step] in *.
  - destruct (get s a) as [x|] eqn:Hg; [|discriminate].
    destruct (a_cons x) eqn:Hc; try discriminate; destruct (a_sq x) as [|e r] eqn:Hsq; try discriminate;
    apply (T2_set_actor s a x _ HT Hg); try reflexivity; try (intros c _ H; exact H);
    intros c _ _ H; apply taint_split in H; apply taint_split; cbn [set_mb a_sq a_uq a_stash a_cons a_cur a_pend] in H;
    rewrite ?Hsq, ?Hc; cbn [existsb]; rewrite ?orb_true_iff; try tauto.
  - destruct (get s a) as [x|] eqn:Hg; [|discriminate].
    destruct (a_cons x) eqn:Hc; try discriminate.
    apply (T2_set_actor s a x _ HT Hg); try reflexivity; try (intros c _ H; exact H).
    intros c _ _ H; apply taint_split in H; apply taint_split; cbn [set_mb a_sq a_uq a_stash a_cons a_cur a_pend] in H.
    rewrite Hc. destruct (a_paused x); tauto.
  - destruct (get s a) as [x|] eqn:Hg; [|discriminate].
    destruct (a_cons x) eqn:Hc; try discriminate; destruct (a_uq x) as [|e r] eqn:Huq; try discriminate;
    apply (T2_set_actor s a x _ HT Hg); try reflexivity; try (intros c _ H; exact H);
    intros c _ _ H; apply taint_split in H; apply taint_split; cbn [set_mb a_sq a_uq a_stash a_cons a_cur a_pend] in H;
    rewrite ?Huq, ?Hc; cbn [existsb]; rewrite ?orb_true_iff; try tauto.
Qed.

Lemma upd_upd {A} (l : list A) i x y : upd (upd l i x) i y = upd l i y.
Proof. revert i; induction l as [|z l IH]; intros [|i]; cbn [upd]; try reflexivity. rewrite IH. reflexivity. Qed.

(** HandleEnvelop: whatever the new record and instruction list carry was carried by the envelope *)
Lemma dispatch_taint s a x e s1 ins y c :
  get s a = Some x -> dispatch s a x e = (s1, ins) -> get s1 a = Some y ->
  (taint c (upd_pend y ins) = true -> env_mk c e = true \/ taint c x = true) /\ existsb (send_mk c) ins = false.
Proof.
  intros Hg He Hy. unfold dispatch in He. unfold get in Hy, Hg.
  repeat (match type of He with
          | (_, _) = (_, _) => inversion He; subst s1 ins; clear He
          | context [match ?y with _ => _ end] => destruct y eqn:?
          end).
  all: cbn [actors add_ghost set_actor] in Hy.
  all: try rewrite (nth_error_upd_same _ _ _ _ Hg) in Hy; try rewrite Hg in Hy; inversion Hy; subst y; clear Hy.
  all: (split; [|cbn; repeat (destr_match; cbn); reflexivity]).
  all: intros H; apply taint_split in H; rewrite taint_split; unfold env_mk in *.
  all: cbn in H; repeat (match type of H with context [match ?z with _ => _ end] => destruct z eqn:? end; cbn in H).
  all: cbn; try match goal with Hm : e_msg _ = _ |- _ => rewrite Hm in *; cbn in * end.
  all: rewrite ?orb_false_r in H.
  all: try (destruct H as [H|[H|[H|[H|[H|H]]]]]; auto 10; try discriminate H; fail).
Qed.

Lemma T2_handle s a x e s1 ins :
  SInv s -> T2 s -> err s = false -> get s a = Some x -> a_cons x = CH e -> a_pend x = [] ->
  let x0 := set_mb x (a_sq x) (a_uq x) (a_paused x) (CBusy (mode_top x)) (a_cur x) in
  dispatch (set_actor s a x0) a x0 e = (s1, ins) ->
  T2 (set_pend s1 (TA a) ins).
Proof.
  intros _ HT _ Hg Hc Hpx x0 Hd.
  assert (Hg0 : get (set_actor s a x0) a = Some x0) by apply (get_set_actor_same _ _ _ _ Hg).
  destruct (dispatch_frame _ _ _ _ _ _ Hg0 Hd) as (y & Hact & Hex & Hreg & _ & _ & _ & _ & Hpath & _).
  assert (Hg1 : get s1 a = Some y) by (unfold get; rewrite Hact; apply (nth_error_upd_same _ _ _ _ Hg0)).
  apply (T2_ext (set_actor s a (upd_pend y ins))).
  - cbn [set_pend]. unfold with_actor. rewrite Hg1. cbn [actors set_actor]. rewrite Hact. cbn [actors set_actor]. rewrite !upd_upd. reflexivity.
  - cbn [set_pend]. unfold with_actor. rewrite Hg1. cbn [reg set_actor]. rewrite Hreg. reflexivity.
  - cbn [set_pend]. unfold with_actor. rewrite Hg1. cbn [exts set_actor]. rewrite Hex. reflexivity.
  - apply (T2_set_actor s a x _ HT Hg).
    + cbn [upd_pend a_path]. rewrite Hpath. reflexivity.
    + intros c _ _ H. destruct (dispatch_taint _ _ _ _ _ _ _ c Hg0 Hd Hg1) as (D1 & _).
      destruct (D1 H) as [He|Hx0].
      * apply taint_split. rewrite Hc. tauto.
      * apply taint_split in Hx0. apply taint_split. cbn [x0 set_mb a_sq a_uq a_stash a_cons a_cur a_pend] in Hx0. rewrite Hc.
        destruct Hx0 as [H1|[H1|[H1|[H1|[H1|H1]]]]]; auto 10. discriminate H1.
    + intros c _ H. destruct (dispatch_taint _ _ _ _ _ _ _ c Hg0 Hd Hg1) as (_ & D2).
      cbn [upd_pend a_pend] in H. congruence.
Qed.

Lemma T2_resolve s t sys to sender m rest :
  SInv s -> T2 s -> pend_of s t = IEnq sys to sender m :: rest ->
  T2 (set_pend (snd (resolve s to)) t (IEnqR sys (fst (resolve s to)) sender m :: rest)).
Proof.
  intros _ HT Hp. pose proof (cequiv_resolve s to) as Hc. pose proof (mb_equiv_resolve s to) as Hm.
  apply (T2_set_pend _ t (IEnq sys to sender m :: rest)); [apply (T2_cequiv _ _ Hc HT)|rewrite (pend_of_mb _ _ t Hm); exact Hp| |].
  - intros c j [<-|Hj] Hmk; cbn [existsb instr_mk] in *; [rewrite Hmk; reflexivity|].
    apply orb_true_intro. right. apply existsb_exists. exists j. auto.
  - intros c j [<-|Hj] Hmk; cbn [existsb send_mk] in *; [rewrite Hmk; reflexivity|].
    apply orb_true_intro. right. apply existsb_exists. exists j. auto.
Qed.

Lemma cequiv_of_paused s a f :
  (forall x, csame x (f x)) -> cequiv s (with_actor s a f).
Proof.
  intros Hf. unfold with_actor. destruct (get s a) as [x|] eqn:Hg; [|apply cequiv_set_err].
  apply (cequiv_set_actor _ _ x); [exact Hg|apply Hf].
Qed.

Lemma T2_pause s t rest :
  SInv s -> T2 s -> pend_of s t = IPauseSt :: rest ->
  T2 (set_pend (with_actor s (self_of t) (fun x => set_mb x (a_sq x) (a_uq x) true (a_cons x) (a_cur x))) t rest).
Proof.
  intros _ HT Hp.
  assert (Hc : cequiv s (with_actor s (self_of t) (fun x => set_mb x (a_sq x) (a_uq x) true (a_cons x) (a_cur x))))
    by (apply cequiv_of_paused; intros x; split; [repeat split|split; reflexivity]).
  assert (Hm : mb_equiv s (with_actor s (self_of t) (fun x => set_mb x (a_sq x) (a_uq x) true (a_cons x) (a_cur x))))
    by (apply mb_equiv_with_actor; intros; repeat split).
  apply (T2_pop _ t IPauseSt rest (T2_cequiv _ _ Hc HT)). rewrite (pend_of_mb _ _ t Hm). exact Hp.
Qed.

Lemma T2_resume1p s t rest x :
  SInv s -> T2 s -> pend_of s t = IResume1 :: rest -> get s (self_of t) = Some x ->
  T2 (set_pend (set_actor s (self_of t) (set_mb x (a_sq x) (a_uq x) false (a_cons x) (a_cur x))) t (IResume2 :: rest)).
Proof.
  intros _ HT Hp Hg.
  assert (Hc : cequiv s (set_actor s (self_of t) (set_mb x (a_sq x) (a_uq x) false (a_cons x) (a_cur x))))
    by (apply (cequiv_set_actor _ _ x); [exact Hg|split; [repeat split|split; reflexivity]]).
  assert (Hm : mb_equiv s (set_actor s (self_of t) (set_mb x (a_sq x) (a_uq x) false (a_cons x) (a_cur x))))
    by (apply (mb_equiv_set_actor _ _ x); [exact Hg|repeat split]).
  apply (T2_set_pend _ t (IResume1 :: rest)); [apply (T2_cequiv _ _ Hc HT)|rewrite (pend_of_mb _ _ t Hm); exact Hp| |].
  - intros c j [<-|Hj] Hmk; [discriminate Hmk|]. cbn [existsb]. apply orb_true_intro. right. apply existsb_exists. exists j. auto.
  - intros c j [<-|Hj] Hmk; [discriminate Hmk|]. cbn [existsb]. apply orb_true_intro. right. apply existsb_exists. exists j. auto.
Qed.

Lemma T2_pophead s t i rest :
  SInv s -> T2 s -> pend_of s t = i :: rest -> (i = IEnqDone \/ i = IResume1 \/ i = IResume2) -> T2 (set_pend s t rest).
Proof. intros _ HT Hp _. apply (T2_pop s t i rest HT Hp). Qed.

(* ------------------------------------------------------------------ exec1: what the emitted instructions carry *)

Lemma existsb_skipn {A} (f : A -> bool) k l : existsb f (skipn k l) = true -> existsb f l = true.
Proof.
  intros H. apply existsb_exists in H as (j & Hj & Hf). apply existsb_exists. exists j. split; [|exact Hf].
  rewrite <- (firstn_skipn k l). apply in_or_app. right. exact Hj.
Qed.
Lemma In_firstn {A} (x : A) k l : In x (firstn k l) -> In x l.
Proof. intros H. rewrite <- (firstn_skipn k l). apply in_or_app. left. exact H. Qed.

(** emitted instructions carry "c was killed" only if the stash did (Unstash) - unless c is the executing context *)
Lemma exec1_front_taint s t h i s' front x c :
  exec1 s t h i = (s', front) -> get s (self_of t) = Some x -> c <> self_of t ->
  forall j, In j front -> instr_mk c j = true -> existsb (env_mk c) (a_stash x) = true.
Proof.
  intros He Hg Hc. unfold exec1 in He. rewrite Hg in He.
  assert (Hsc : Nat.eqb (self_of t) c = false) by (apply Nat.eqb_neq; congruence).
  destruct i;
  repeat (match type of He with
          | (_, _) = (_, _) => inversion He; subst s' front; clear He
          | context [match ?y with _ => _ end] => destruct y eqn:?
          end);
  intros j Hj Hm; in_front Hj; subst; cbn in Hm; rewrite ?Hsc in Hm; try discriminate Hm.
  - (* Unstash n *)
    apply existsb_exists. eexists. split; [eapply In_firstn; eassumption|exact Hm].
  - (* Unstash one *)
    cbn [existsb]. unfold env_mk in *. rewrite Hm. reflexivity.
Qed.

(** the executing context itself emits a notification of its own death to others only in its cleanup *)
Lemma exec1_front_send s t h i s' front x :
  exec1 s t h i = (s', front) -> get s (self_of t) = Some x ->
  forall j, In j front -> send_mk (self_of t) j = true -> i = ICleanup.
Proof.
  intros He Hg. unfold exec1 in He. rewrite Hg in He.
  destruct i;
  repeat (match type of He with
          | (_, _) = (_, _) => inversion He; subst s' front; clear He
          | context [match ?y with _ => _ end] => destruct y eqn:?
          end);
  intros j Hj Hm; in_front Hj; subst; cbn in Hm; rewrite ?Nat.eqb_refl in Hm; try discriminate Hm; try reflexivity.
Qed.

(** the executing context's record: apart from its own death, nothing new *)
Lemma exec1_self_taint s t h i s' front x x' c :
  exec1 s t h i = (s', front) -> get s (self_of t) = Some x -> get s' (self_of t) = Some x' -> c <> self_of t ->
  taint c x' = true -> taint c x = true.
Proof.
  intros He Hg Hg' Hc.
  assert (Hsc : Nat.eqb (self_of t) c = false) by (apply Nat.eqb_neq; congruence).
  destruct (is_spawn i) eqn:Hsp.
  { destruct i as [| | | | | | | | |ac| | | | | | | | | | | |]; try discriminate Hsp. destruct ac; try discriminate Hsp.
    destruct (exec1_spawn_cases _ _ _ _ _ _ _ He Hg) as [(o & ->)|(Hnk & Hpl & Hr)].
    - change (get (add_obs s o) (self_of t)) with (get s (self_of t)) in Hg'. rewrite Hg in Hg'. inversion Hg'; subst. auto.
    - destruct (exec1_spawn_ok s t h sp x s' front Hg Hnk Hpl Hr He) as (_ & _ & _ & Hs & _).
      rewrite Hs in Hg'. inversion Hg'; subst x'. intros H. exact H. }
  unfold exec1 in He. rewrite Hg in He. unfold get in Hg, Hg'.
  destruct i; try discriminate Hsp;
  repeat (match type of He with
          | (_, _) = (_, _) => inversion He; subst s' front; clear He
          | context [match ?y with _ => _ end] => destruct y eqn:?
          end); try discriminate Hsp.
  all: cbn [actors set_actor add_obs set_subs set_reg set_err add_ghost] in Hg'.
  all: try rewrite (nth_error_upd_same _ _ _ _ Hg) in Hg'; try rewrite Hg in Hg'.
  all: try (inversion Hg'; subst x'; clear Hg'; intros H; exact H).
  all: try (inversion Hg'; subst x'; clear Hg'; intros H; apply taint_split in H; apply taint_split;
            cbn in H; repeat (match type of H with context [match ?z with _ => _ end] => destruct z eqn:? end; cbn in H);
            rewrite ?Hsc in H; cbn in H;
            repeat match goal with E : _ = _ |- _ => rewrite E end;
            destruct H as [H|[H|[H|[H|[H|H]]]]]; auto 10; try discriminate H; fail).
  - (* Stash *)
    inversion Hg'; subst x'. intros H. apply taint_split in H. apply taint_split.
    cbn [set_stash upd_local a_sq a_uq a_stash a_cons a_cur a_pend] in H. rewrite Heqo.
    destruct H as [H|[H|[H|[H|[H|H]]]]]; auto 10.
    + rewrite existsb_app in H. cbn [existsb] in H. rewrite orb_false_r in H. apply orb_prop in H as [H|H]; auto 10.
    + rewrite Heqo in H. auto 10.
  - (* Unstash n *)
    inversion Hg'; subst x'. intros H. apply taint_split in H. apply taint_split.
    cbn [set_stash upd_local a_sq a_uq a_stash a_cons a_cur a_pend] in H.
    destruct H as [H|[H|[H|[H|[H|H]]]]]; auto 10. apply existsb_skipn in H. auto 10.
  - (* Unstash one *)
    inversion Hg'; subst x'. intros H. apply taint_split in H. apply taint_split.
    cbn [set_stash upd_local a_sq a_uq a_stash a_cons a_cur a_pend] in H. rewrite Heql. cbn [existsb].
    destruct H as [H|[H|[H|[H|[H|H]]]]]; auto 10. rewrite H, orb_true_r. auto 10.
Qed.

(* ------------------------------------------------------------------ the micro-step *)

Lemma alookup_aremove_Some {A} (l : list (path * A)) p q v : alookup (aremove l p) q = Some v -> alookup l q = Some v.
Proof.
  induction l as [|[r w] l IH]; cbn [aremove alookup]; [discriminate|].
  destruct (path_eqb p r) eqn:E.
  - intros H. specialize (IH H). destruct (path_eqb q r) eqn:E2; [|exact IH].
    apply path_eqb_eq in E, E2. subst. rewrite alookup_aremove_same in H. discriminate H.
  - cbn [alookup]. destruct (path_eqb q r); [auto|exact IH].
Qed.

Lemma live_exec1 s t h i s' front x c :
  exec1 s t h i = (s', front) -> get s (self_of t) = Some x -> live s' c -> live s c.
Proof.
  intros He Hg Hl. destruct (is_spawn i) eqn:Hsp.
  - destruct i as [| | | | | | | | |ac| | | | | | | | | | | |]; try discriminate Hsp. destruct ac; try discriminate Hsp.
    destruct (exec1_spawn_cases _ _ _ _ _ _ _ He Hg) as [(o & ->)|(Hnk & Hpl & Hr)]; [exact Hl|].
    destruct (exec1_spawn_ok s t h sp x s' front Hg Hnk Hpl Hr He) as (Hlen & Hnew & Hoth & Hself & Hreg & _).
    destruct Hl as [(Hc0 & y & Hy & Hlk)|Hlen']; [|right; lia].
    destruct (Nat.eq_dec c (length (actors s))) as [->|Hcn]; [right; lia|]. left. split; [exact Hc0|].
    assert (Hyx : exists y0, get s c = Some y0 /\ a_path y0 = a_path y).
    { destruct (Nat.eq_dec c (self_of t)) as [->|Hcs].
      - rewrite Hself in Hy. inversion Hy; subst y. exists x. split; [exact Hg|reflexivity].
      - rewrite (Hoth c Hcs Hcn) in Hy. exists y. split; [exact Hy|reflexivity]. }
    destruct Hyx as (y0 & Hy0 & Hp). exists y0. split; [exact Hy0|]. rewrite Hp.
    rewrite Hreg, alookup_app in Hlk. destruct (alookup (reg s) (a_path y)) as [v|]; [exact Hlk|].
    cbn [alookup] in Hlk. destruct (path_eqb (a_path y) (a_path x ++ [sp_name sp])); [|discriminate Hlk].
    inversion Hlk. congruence.
  - destruct (exec1_summary s t h i s' front x Hsp He Hg) as (x' & Ha & Hc & _ & _ & _ & _ & _ & _ & _ & _ & _ & _ & Hrg & _).
    assert (Hlen : length (actors s') = length (actors s)) by (rewrite Ha; apply length_upd).
    destruct Hl as [(Hc0 & y & Hy & Hlk)|Hlen']; [|right; lia]. left. split; [exact Hc0|].
    assert (Hyx : exists y0, get s c = Some y0 /\ a_path y0 = a_path y).
    { unfold get in Hy. rewrite Ha in Hy. destruct (Nat.eq_dec (self_of t) c) as [<-|Hcs].
      - rewrite (nth_error_upd_same _ _ _ _ Hg) in Hy. inversion Hy; subst y. exists x. split; [exact Hg|]. symmetry. apply Hc.
      - rewrite nth_error_upd_other in Hy by exact Hcs. exists y. split; [exact Hy|reflexivity]. }
    destruct Hyx as (y0 & Hy0 & Hp). exists y0. split; [exact Hy0|]. rewrite Hp.
    destruct (chg_reg i) eqn:Hcr; [|rewrite <- (Hrg eq_refl); exact Hlk].
    destruct i; try discriminate Hcr. rewrite (exec1_ICleanup _ _ _ _ Hg) in He. inversion He; subst s'.
    cbn [reg set_reg set_subs] in Hlk. apply (alookup_aremove_Some _ _ _ _ Hlk).
Qed.

Lemma taint_new c p g pa sp : taint c (new_actor p g pa sp) = false.
Proof. reflexivity. Qed.

Lemma taint_upd_pend c y P :
  taint c (upd_pend y P) = true -> taint c (upd_pend y []) = true \/ existsb (instr_mk c) P = true.
Proof.
  intros H. apply taint_split in H. cbn [upd_pend a_sq a_uq a_stash a_cons a_cur a_pend] in H.
  destruct H as [H|[H|[H|[H|[H|H]]]]]; [left|left|left|left|left|right; exact H];
  apply taint_split; cbn [upd_pend a_sq a_uq a_stash a_cons a_cur a_pend]; auto 10.
Qed.

Lemma taint_upd_pend_mono c y P Q0 :
  (forall j, In j P -> In j Q0) -> taint c (upd_pend y P) = true -> taint c (upd_pend y Q0) = true.
Proof.
  intros Hsub H. apply taint_split in H. apply taint_split. cbn [upd_pend a_sq a_uq a_stash a_cons a_cur a_pend] in *.
  destruct H as [H|[H|[H|[H|[H|H]]]]]; auto 10. do 5 right.
  apply existsb_exists in H as (j & Hj & Hm). apply existsb_exists. exists j. auto.
Qed.

Lemma T2_astep s t i rest :
  SInv s -> T2 s -> err s = false -> pend_of s t = i :: rest -> yielding i = false ->
  (forall sys to sender m, i <> IEnq sys to sender m) -> err (astep s t i rest) = false -> T2 (astep s t i rest).
Proof.
  intros [HA HX] HT He0 Hp Hy Hne He1.
  pose proof (T2_pop s t i rest HT Hp) as HT0.
  destruct t as [a|k].
  - destruct (pend_of_TA_cons _ _ _ _ Hp) as (x & Hg & Hpx).
    destruct (astep_TA s a i rest x Hg) as (s1 & front & x1 & He & Hg1 & Hp1 & Heq). rewrite Heq in *. clear Heq.
    assert (Hs0 : set_pend s (TA a) rest = set_actor s a (upd_pend x rest)) by (cbn [set_pend]; unfold with_actor; rewrite Hg; reflexivity).
    rewrite Hs0 in HT0. set (s0 := set_actor s a (upd_pend x rest)) in *.
    assert (Hg0 : get s0 (self_of (TA a)) = Some (upd_pend x rest)) by apply (get_set_actor_same _ _ _ _ Hg).
    intros c Hlive.
    assert (Hl1 : live s1 c).
    { apply (live_psame s1 (set_actor s1 a (upd_pend x1 (front ++ rest))) c); [|exact Hlive]. apply (psame_set_actor s1 a x1); [exact Hg1|reflexivity]. }
    pose proof (live_exec1 _ _ _ _ _ _ _ c He Hg0 Hl1) as Hl0.
    destruct (HT0 c Hl0) as (C1 & C2). split.
    + intros q y Hq. destruct (Nat.eq_dec a q) as [<-|Haq].
      * rewrite (get_set_actor_same _ _ _ _ Hg1) in Hq. inversion Hq; subst y. clear Hq.
        assert (Hg0a : get s0 a = Some (upd_pend x rest)) by exact Hg0.
        specialize (C1 a _ Hg0a). unfold otaint in *. cbn [upd_pend a_pend] in *.
        destruct (Nat.eqb a c) eqn:Hac.
        -- apply Nat.eqb_eq in Hac. subst c. rewrite existsb_app, C1, orb_false_r.
           apply existsb_false_intro. intros j Hj. destruct (send_mk a j) eqn:Es; [|reflexivity]. exfalso.
           pose proof (exec1_front_send _ _ _ _ _ _ _ He Hg0 j Hj Es) as ->.
           rewrite (exec1_ICleanup _ _ _ _ Hg0) in He. inversion He as [[Hs1 Hfr]].
           destruct Hl1 as [(_ & y & Hy1 & Hlk)|Hlen].
           ++ rewrite Hg1 in Hy1. inversion Hy1; subst y. rewrite <- Hs1 in Hlk, Hg1. cbn [reg set_reg set_subs] in Hlk.
              unfold get in Hg1, Hg0. cbn [actors set_reg set_subs] in Hg1. cbn [self_of] in Hg0. rewrite Hg0 in Hg1. inversion Hg1; subst x1.
              rewrite alookup_aremove_same in Hlk. discriminate Hlk.
           ++ pose proof (get_lt _ _ _ Hg1). lia.
        -- apply Nat.eqb_neq in Hac.
           destruct (taint c (upd_pend x1 (front ++ rest))) eqn:E; [|reflexivity]. exfalso.
           assert (Hx1 : upd_pend x1 rest = x1) by (destruct x1; cbn in *; subst; reflexivity).
           destruct (taint_upd_pend c x1 _ E) as [E1|E1].
           ++ assert (E2 : taint c x1 = true) by (rewrite <- Hx1; apply (taint_upd_pend_mono c x1 [] rest); [intros j []|exact E1]).
              rewrite (exec1_self_taint _ _ _ _ _ _ _ _ c He Hg0 Hg1 (fun Ec => Hac (eq_sym Ec)) E2) in C1. discriminate C1.
           ++ rewrite existsb_app in E1. apply orb_prop in E1 as [E1|E1].
              ** apply existsb_exists in E1 as (j & Hj & Hm).
                 pose proof (exec1_front_taint _ _ _ _ _ _ _ c He Hg0 (fun Ec => Hac (eq_sym Ec)) j Hj Hm) as Hst.
                 assert (taint c (upd_pend x rest) = true) by (apply taint_split; auto 10). congruence.
              ** assert (taint c (upd_pend x rest) = true) by (apply taint_split; cbn [upd_pend a_pend]; auto 10). congruence.
      * rewrite get_set_actor_other in Hq by exact Haq.
        destruct (exec1_other _ _ _ _ _ _ q y He (fun E => Haq (eq_sym E)) Hq) as [Hq0|(_ & _ & sp & x0 & _ & _ & _ & _ & _ & ->)].
        -- apply (C1 q y Hq0).
        -- unfold otaint. destruct (Nat.eqb q c); reflexivity.
    + intros k ex Hk. change (exts (set_actor s1 a (upd_pend x1 (front ++ rest)))) with (exts s1) in Hk.
      pose proof (exec1_exts_pend _ _ _ _ _ _ He k) as Hx. rewrite Hk in Hx. cbn [option_map] in Hx.
      destruct (nth_error (exts s0) k) as [ex0|] eqn:Hk0; [|discriminate Hx]. cbn [option_map] in Hx.
      inversion Hx as [Hxp]. rewrite Hxp. apply (C2 k ex0 Hk0).
  - destruct (pend_of_TX_cons _ _ _ _ Hp) as (ex & Hn & Hpx).
    destruct (astep_TX s k i rest ex Hn) as (s1 & front & ex1 & He & Hn1 & Hp1 & Hoth & Heq). rewrite Heq in *. clear Heq.
    assert (Hs0 : set_pend s (TX k) rest = set_ext s k {| x_pend := rest; x_held := x_held ex |}) by (cbn [set_pend]; rewrite Hn; reflexivity).
    rewrite Hs0 in HT0. set (s0 := set_ext s k {| x_pend := rest; x_held := x_held ex |}) in *.
    destruct (get s 0) as [x|] eqn:Hg.
    2:{ unfold exec1 in He. cbn [self_of] in He. change (get s0 0%nat) with (get s 0%nat) in He.
        rewrite Hg in He. inversion He; subst s1. discriminate He1. }
    assert (Hg0 : get s0 (self_of (TX k)) = Some x) by exact Hg.
    intros c Hlive.
    assert (Hl1 : live s1 c).
    { destruct Hlive as [(Hc0 & y & Hyy & Hlk)|Hlen]; [left; split; [exact Hc0|]; exists y; split; [exact Hyy|exact Hlk]|right; exact Hlen]. }
    pose proof (live_exec1 _ _ _ _ _ _ _ c He Hg0 Hl1) as Hl0.
    assert (Hc0 : c <> 0%nat).
    { destruct Hl0 as [(Hc0 & _)|Hlen]; [exact Hc0|]. pose proof (get_lt _ _ _ Hg0). cbn [self_of] in *. change (actors s0) with (actors s) in *. lia. }
    destruct (HT0 c Hl0) as (C1 & C2).
    destruct (exec1_self _ _ _ _ _ _ _ He Hg0) as (x1 & Hg1 & _).
    assert (Hroot : taint c x = false).
    { specialize (C1 0%nat x Hg0). unfold otaint in C1. destruct (Nat.eqb 0 c) eqn:E; [apply Nat.eqb_eq in E; congruence|exact C1]. }
    split.
    + intros q y Hq. change (get (set_ext s1 k {| x_pend := front ++ rest; x_held := x_held ex1 |}) q) with (get s1 q) in Hq.
      destruct (Nat.eq_dec q 0) as [->|Hq0].
      * cbn [self_of] in Hg1. rewrite Hg1 in Hq. inversion Hq; subst y.
        unfold otaint. destruct (Nat.eqb 0 c) eqn:E; [apply Nat.eqb_eq in E; congruence|].
        destruct (taint c x1) eqn:E1; [|reflexivity].
        rewrite (exec1_self_taint _ _ _ _ _ _ _ _ c He Hg0 Hg1 Hc0 E1) in Hroot. discriminate Hroot.
      * destruct (exec1_other _ _ _ _ _ _ q y He Hq0 Hq) as [Hq1|(_ & _ & sp & x0 & _ & _ & _ & _ & _ & ->)].
        -- apply (C1 q y Hq1).
        -- unfold otaint. destruct (Nat.eqb q c); reflexivity.
    + intros j exj Hj. unfold set_ext in Hj; cbn [exts] in Hj.
      destruct (Nat.eq_dec k j) as [<-|Hkj].
      * rewrite (nth_error_upd_same _ _ _ _ Hn1) in Hj. inversion Hj; subst exj. cbn [x_pend].
        rewrite existsb_app. apply orb_false_intro.
        -- apply existsb_false_intro. intros q Hq. destruct (instr_mk c q) eqn:Em; [|reflexivity]. exfalso.
           pose proof (exec1_front_taint _ _ _ _ _ _ _ c He Hg0 Hc0 q Hq Em) as Hst.
           assert (taint c x = true) by (apply taint_split; auto 10). congruence.
        -- assert (Hk0 : nth_error (exts s0) k = Some {| x_pend := rest; x_held := x_held ex |})
             by (unfold s0, set_ext; cbn [exts]; apply (nth_error_upd_same _ _ _ _ Hn)).
           apply (C2 k _ Hk0).
      * rewrite nth_error_upd_other in Hj by exact Hkj.
        pose proof (exec1_exts_pend _ _ _ _ _ _ He j) as Hx. rewrite Hj in Hx. cbn [option_map] in Hx.
        destruct (nth_error (exts s0) j) as [ex0|] eqn:Hk0; [|discriminate Hx]. cbn [option_map] in Hx.
        inversion Hx as [Hxp]. rewrite Hxp. apply (C2 j ex0 Hk0).
Qed.
