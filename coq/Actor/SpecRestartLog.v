(** Derived notions for the restart clause of C05 over whole histories of the ActorCore model: what the log of
    behaviour invocations of an actor - with the actor INSTANCE that ran and the BEHAVIOUR (stack mode) that was
    invoked - looks like across a supervised restart.  Definitions only; proofs in Actor/ProofsRestartLog.v.

    [seen_full a (olog s)] (Actor/SpecLife.v) is the list of (instance, mode, message) of every invocation of
    actor [a]'s behaviour so far: instance = the provider's instance counter of the actor object whose method ran,
    mode = 0 for the actor's OnReceive, m for a behaviour installed by Become(m). *)
From Coq Require Import List NArith ZArith Bool.
From Vivid Require Import Base.Tm Actor.Core Actor.CoreRun Actor.SpecLife.
Import ListNotations.
Local Open Scope N_scope.

(** the instance a restart of record [x] puts in charge when instance [i] was: a fresh one if a provider is configured *)
Definition next_inst (x : actor) (i : N) : N := if sp_provider (a_spec x) then i + 1 else i.

(** the restart clause on a log: whatever directly follows the invocation for the actor's own OnKilled was handled by
    the behaviour the stack is reset to (mode 0 = OnReceive) of the instance the restart put in charge *)
Definition restart_log_ok (a : aid) (x : actor) (l : list (N * N * msg)) : Prop :=
  forall pre i1 md1 i2 md2 m post,
    l = pre ++ (i1, md1, MKilled (RObj a)) :: (i2, md2, m) :: post -> md2 = 0 /\ i2 = next_inst x i1.

Definition is_rf (i : instr) : bool := match i with IRestartFinish => true | _ => false end.
