(** Proofs for the history-level "consulted exactly once" clause (statements: Properties/C08_history.v; notions:
    Actor/SpecConsult.v).  Main result [decisions_track_consults]: in every run from an initial state, for every
    context, what is left of its decision maker is what remains after exactly as many answers as the number of
    failure reports the context has handled: no report is answered twice, none is skipped, and nothing else
    (restart, stop, zombie transition, any other message, any other actor) ever consumes an answer. *)
From Coq Require Import List NArith ZArith Bool Lia Arith.
From Vivid Require Import Actor.Core Actor.CoreRun Actor.SpecMail Actor.SpecSup Actor.SpecStash Actor.SpecConsult
  Actor.ProofsMailBase Actor.ProofsMail Actor.ProofsMailInv Actor.ProofsStash.
Import ListNotations.

(** * how one primitive changes the decision makers: [c a] = 1 when it consumes one answer of [a] *)
Definition dtl (n : nat) (l : list decision) : list decision := match n with O => l | S _ => tl l end.

Definition evolves (c : aid -> nat) (s s' : state) : Prop :=
  (forall a x, get s a = Some x ->
     exists x', get s' a = Some x' /\ a_spec x' = a_spec x /\ a_decisions x' = dtl (c a) (a_decisions x)) /\
  (forall a x', get s a = None -> get s' a = Some x' -> a_decisions x' = sp_decisions (a_spec x')).

Definition zero : aid -> nat := fun _ => 0.

Lemma evolves_refl s : evolves zero s s.
Proof. split; [intros a x H; exists x; auto|intros a x' H1 H2; congruence]. Qed.

Lemma evolves_trans c s1 s2 s3 : evolves c s1 s2 -> evolves zero s2 s3 -> evolves c s1 s3.
Proof.
  intros [A1 B1] [A2 B2]. split.
  - intros a x H. destruct (A1 a x H) as (x2 & G2 & S2 & D2). destruct (A2 a x2 G2) as (x3 & G3 & S3 & D3).
    exists x3. cbn [zero dtl] in D3. repeat split; congruence.
  - intros a x3 H1 H3. destruct (get s2 a) as [x2|] eqn:G2.
    + destruct (A2 a x2 G2) as (x3' & G3 & S3 & D3). cbn [zero dtl] in D3.
      assert (x3' = x3) by congruence. subst x3'. rewrite D3, S3. apply (B1 a x2 H1 G2).
    + apply (B2 a x3 G2 H3).
Qed.

Lemma evolves_zero_trans s1 s2 s3 : evolves zero s1 s2 -> evolves zero s2 s3 -> evolves zero s1 s3.
Proof. apply evolves_trans. Qed.

Lemma evolves_same_actors s s' : actors s' = actors s -> evolves zero s s'.
Proof.
  intros H. split.
  - intros a x G. exists x. unfold get in *. rewrite H. auto.
  - intros a x' G1 G2. unfold get in *. rewrite H in G2. congruence.
Qed.

(** one record replaced by one with the same spec and decision maker, new records (fresh contexts) appended *)
Lemma evolves_upd_app s s' a x y news :
  get s a = Some x -> actors s' = upd (actors s) a y ++ news ->
  a_spec y = a_spec x -> a_decisions y = a_decisions x -> Forall is_new news -> evolves zero s s'.
Proof.
  intros Hg Ha Hs Hd Hn.
  assert (Hl : a < length (actors s)) by (eapply nth_error_lt; exact Hg).
  split.
  - intros b xb Gb. unfold get in *. rewrite Ha.
    assert (Hb : b < length (actors s)) by (eapply nth_error_lt; exact Gb).
    rewrite nth_error_app1 by (rewrite upd_length; exact Hb).
    destruct (Nat.eq_dec a b) as [<-|Hne].
    + rewrite nth_upd_eq by exact Hl. exists y. assert (xb = x) by congruence. subst xb. auto.
    + rewrite nth_upd_neq by exact Hne. exists xb. auto.
  - intros b x' G1 G2. unfold get in *. rewrite Ha in G2.
    assert (Hb : length (actors s) <= b) by (apply nth_error_None; exact G1).
    rewrite nth_error_app2 in G2 by (rewrite upd_length; exact Hb).
    apply nth_error_In in G2. rewrite Forall_forall in Hn. destruct (Hn x' G2) as (p & g & par & sp & ->). reflexivity.
Qed.

Lemma evolves_set_actor s a x y :
  get s a = Some x -> a_spec y = a_spec x -> a_decisions y = a_decisions x -> evolves zero s (set_actor s a y).
Proof.
  intros Hg Hs Hd. eapply evolves_upd_app with (news := []); eauto. cbn [set_actor actors]. rewrite app_nil_r. reflexivity.
Qed.

Lemma evolves_with_actor s a f :
  (forall x, a_spec (f x) = a_spec x /\ a_decisions (f x) = a_decisions x) -> evolves zero s (with_actor s a f).
Proof.
  intros H. unfold with_actor. destruct (get s a) as [x|] eqn:E.
  - apply (evolves_set_actor s a x (f x) E); apply H.
  - apply evolves_same_actors. reflexivity.
Qed.

Lemma evolves_set_pend s t l : evolves zero s (set_pend s t l).
Proof.
  destruct t as [a|i].
  - destruct (get s a) as [x|] eqn:E.
    + rewrite (set_pend_TA _ _ _ _ E). apply (evolves_set_actor s a x _ E); reflexivity.
    + rewrite (set_pend_TA_none _ _ _ E). apply evolves_same_actors. reflexivity.
  - apply evolves_same_actors. apply set_pend_TX_actors.
Qed.

Lemma evolves_resolve s r : evolves zero s (snd (resolve s r)).
Proof.
  destruct (resolve_shape s r) as [H|[H|(a & x & y & _ & Hg & _ & _ & H & _)]]; rewrite H.
  - apply evolves_refl.
  - apply evolves_same_actors. reflexivity.
  - apply (evolves_set_actor s a x _ Hg); reflexivity.
Qed.

Lemma evolves_push_mb s a e : evolves zero s (push_mb s a e).
Proof. unfold push_mb. apply evolves_with_actor. intros x. split; reflexivity. Qed.

Lemma evolves_deliver s mb e : evolves zero s (fst (deliver s mb e)).
Proof. rewrite deliver_eq. cbn [fst]. apply evolves_push_mb. Qed.

(** * [exec1]: no instruction touches a decision maker or a spec *)
Lemma exec1_dec s t h i x :
  get s (self_of t) = Some x ->
  exists y news, a_spec y = a_spec x /\ a_decisions y = a_decisions x /\ Forall is_new news /\
                 actors (fst (exec1 s t h i)) = upd (actors s) (self_of t) y ++ news.
Proof.
  intros Hg.
  assert (Hid : actors s = upd (actors s) (self_of t) x ++ []).
  { rewrite app_nil_r. symmetry. apply ProofsMailBase.upd_same. exact Hg. }
  assert (Hsame : exists y news, a_spec y = a_spec x /\ a_decisions y = a_decisions x /\ Forall is_new news /\
                                 actors s = upd (actors s) (self_of t) y ++ news).
  { exists x, []. repeat split; auto. }
  assert (Hset : forall y, a_spec y = a_spec x -> a_decisions y = a_decisions x ->
            exists y0 news, a_spec y0 = a_spec x /\ a_decisions y0 = a_decisions x /\ Forall is_new news /\
                            actors (set_actor s (self_of t) y) = upd (actors s) (self_of t) y0 ++ news).
  { intros y H1 H2. exists y, []. repeat split; auto. cbn [set_actor actors]. rewrite app_nil_r. reflexivity. }
  unfold exec1. rewrite Hg.
  destruct i; try exact Hsame.
  - (* ISupPause *) destruct remaining; exact Hsame.
  - (* IAct *)
    destruct a; try exact Hsame.
    + (* ASpawn *)
      destruct (a_state x) eqn:Est; try exact Hsame.
      all: destruct (negb (sp_prelaunch sp)); [exact Hsame|].
      all: destruct (alookup (reg s) (a_path x ++ [sp_name sp])); [exact Hsame|].
      all: cbn [fst].
      all: match goal with |- context[with_actor ?s1 _ _] =>
        assert (Hg1 : get s1 (self_of t) = Some x)
          by (unfold get; cbn [actors]; rewrite nth_error_app1 by (eapply nth_error_lt; exact Hg); exact Hg);
        rewrite (with_actor_some _ _ _ _ Hg1)
      end.
      all: eexists; eexists; split; [|split; [|split;
        [|cbn [set_actor actors]; rewrite upd_app_l by (eapply nth_error_lt; exact Hg); reflexivity]]].
      all: try reflexivity.
      all: constructor; [do 4 eexists; reflexivity|constructor].
    + (* AStash *) destruct (a_cur x); [apply Hset; reflexivity|exact Hsame].
    + (* AUnstash *)
      destruct n as [n|].
      * destruct (Nat.eqb (length (a_stash x)) 0); [exact Hsame|]. cbn [fst]. apply Hset; reflexivity.
      * destruct (a_stash x); [exact Hsame|]. apply Hset; reflexivity.
    + (* ASub *) destruct (alookup (subscribers s ty) (a_path x)); exact Hsame.
    + (* AUnsub *) destruct (nlookup (subs s) ty); exact Hsame.
    + (* ABecome *) apply Hset; reflexivity.
    + (* AUnbecome *) apply Hset; reflexivity.
  - (* IBeh *)
    destruct (a_zombie x); [exact Hsame|]. destruct (a_parent x).
    + destruct (take_until_panic acts). exact Hsame.
    + destruct m; try exact Hsame. destruct (ref_eq s who (RObj (self_of t))); exact Hsame.
  - (* IPub *) destruct (subscribers s ty); exact Hsame.
  - (* IOnKilled *)
    destruct (a_zombie x); [exact Hsame|]. destruct (ref_eq s who (RObj (self_of t))); [exact Hsame|].
    cbn [fst]. apply Hset;
    repeat match goal with |- context[match ?e with _ => _ end] => destruct e end; reflexivity.
  - (* ICheckMark *)
    destruct (a_children x); [|exact Hsame]. destruct (a_state x) eqn:Est; try exact Hsame.
    cbn [fst]. apply Hset; reflexivity.
  - (* IRestartFinish *)
    destruct (a_hooks x) as [|[[h1 h2] h3] rest].
    + cbn [fst]. apply Hset; destruct (sp_provider (a_spec x)); reflexivity.
    + destruct (h2 && h3); cbn [fst]; apply Hset; destruct (sp_provider (a_spec x)); reflexivity.
  - (* IUnzombie *) apply Hset; reflexivity.
  - (* ISupApply *) destruct d; exact Hsame.
  - (* IEndHandler *) apply Hset; reflexivity.
Qed.

Lemma evolves_exec1 s t h i : evolves zero s (fst (exec1 s t h i)).
Proof.
  destruct (get s (self_of t)) as [x|] eqn:E.
  - destruct (exec1_dec s t h i x E) as (y & news & Hs & Hd & Hn & Ha). eapply evolves_upd_app; eauto.
  - rewrite (exec1_none _ _ _ _ E). apply evolves_same_actors. reflexivity.
Qed.

Lemma evolves_run_atomic f s t : evolves zero s (run_atomic f s t).
Proof.
  apply run_atomic_rel.
  - apply evolves_refl.
  - apply evolves_zero_trans.
  - intros s0. apply evolves_same_actors. reflexivity.
  - intros s0 l. apply evolves_set_pend.
  - intros s0 r. apply evolves_resolve.
  - intros s0 h i. apply evolves_exec1.
Qed.

(** * [dispatch]: only the handling of a failure report by a context with a strategy consumes an answer - exactly one *)
Lemma dispatch_dec s a x e :
  get s a = Some x ->
  exists y, actors (fst (dispatch s a x e)) = upd (actors s) a y /\ a_spec y = a_spec x /\
            a_decisions y = dtl (if consulting x e then 1 else 0) (a_decisions x).
Proof.
  intros Hg.
  assert (Hsame : actors s = upd (actors s) a x) by (symmetry; apply ProofsMailBase.upd_same; exact Hg).
  unfold consulting, dead_for, is_sup_msg, dispatch.
  destruct (e_msg e) eqn:Em; cbn [andb negb];
  repeat match goal with
         | |- context[if ?c then _ else _] => destruct c eqn:?
         | |- context[match ?c with _ => _ end] => destruct c eqn:?
         end;
  cbn [fst]; try discriminate;
  try (first [ exists x; split; [exact Hsame|split; reflexivity]
             | eexists; split; [reflexivity|split; cbn; reflexivity] ]).
  all: match goal with H : _ = (_, _) |- _ => revert H end.
  all: match goal with |- context[a_decisions ?xx] => destruct (a_decisions xx) end.
  all: intros Hp; inversion Hp; subst; eexists; (split; [reflexivity|split; cbn; reflexivity]).
Qed.

(** * one event *)
Lemma evolves_ext c c' s s' : (forall a, c a = c' a) -> evolves c s s' -> evolves c' s s'.
Proof.
  intros E [A B]. split; [|exact B]. intros a x H. destruct (A a x H) as (x' & G & S & D). exists x'. rewrite <- E. auto.
Qed.

(** one record replaced: same spec, [n] answers of its decision maker consumed *)
Lemma evolves_upd_c s s' a x y n :
  get s a = Some x -> actors s' = upd (actors s) a y -> a_spec y = a_spec x -> a_decisions y = dtl n (a_decisions x) ->
  evolves (fun b => if Nat.eqb a b then n else 0) s s'.
Proof.
  intros Hg Ha Hs Hd.
  assert (Hl : a < length (actors s)) by (eapply nth_error_lt; exact Hg).
  split.
  - intros b xb Gb. unfold get in *. rewrite Ha.
    destruct (Nat.eqb_spec a b) as [<-|Hne].
    + rewrite nth_upd_eq by exact Hl. exists y. assert (xb = x) by congruence. subst xb. auto.
    + rewrite nth_upd_neq by exact Hne. exists xb. auto.
  - intros b x' G1 G2. unfold get in *. rewrite Ha in G2.
    assert (Hb : length (actors s) <= b) by (apply nth_error_None; exact G1).
    assert (Hn : nth_error (upd (actors s) a y) b = None) by (apply nth_error_None; rewrite upd_length; exact Hb).
    congruence.
Qed.

Lemma consult1_other s ev a : (forall b, ev <> EvHandle b) -> consult1 s ev a = 0.
Proof. intros H. destruct ev; try reflexivity. exfalso. exact (H a0 eq_refl). Qed.

(** the part of [step] before its atomic phase: HandleEnvelop's own bookkeeping *)
Lemma pre_atomic_evolves s ev s' t : pre_atomic s ev = Some (s', t) -> evolves (consult1 s ev) s s'.
Proof.
  destruct ev; cbn [pre_atomic]; try discriminate.
  - (* EvHandle *)
    destruct (get s a) as [x|] eqn:Hg; [|discriminate]. destruct (a_cons x) as [| | | |e|] eqn:Hc; try discriminate.
    set (x0 := set_mb x (a_sq x) (a_uq x) (a_paused x) (CBusy (mode_top x)) (a_cur x)).
    assert (Hg0 : get (set_actor s a x0) a = Some x0) by (apply (get_set_same' s a x0 x Hg)).
    destruct (dispatch_dec (set_actor s a x0) a x0 e Hg0) as (y & Ha & Hs & Hd).
    destruct (dispatch (set_actor s a x0) a x0 e) as [s1 ins]. cbn [fst] in Ha.
    intros H. injection H as <- <-.
    eapply evolves_trans; [|exact (evolves_set_pend s1 (TA a) ins)].
    eapply evolves_ext; [|eapply (evolves_upd_c s s1 a x y (if consulting x e then 1 else 0) Hg)].
    + intros b. cbn [consult1]. rewrite Nat.eqb_sym. destruct (Nat.eqb_spec b a) as [->|Hne]; [|reflexivity].
      rewrite Hg, Hc. destruct (consulting x e); reflexivity.
    + rewrite Ha. cbn [set_actor actors]. apply upd_upd.
    + exact Hs.
    + exact Hd.
  - destruct (pend_of s t0) as [|i rest]; [discriminate|]. destruct i; try discriminate.
    intros H. injection H as <- <-. eapply evolves_ext; [|apply evolves_set_pend]. intros b. reflexivity.
  - destruct (pend_of s t0) as [|i rest]; [discriminate|]. destruct i; try discriminate.
    intros H. injection H as <- <-. eapply evolves_ext with (c := zero); [intros b; reflexivity|].
    eapply evolves_trans; [|apply evolves_set_pend]. apply evolves_with_actor. intros x. split; reflexivity.
  - destruct (pend_of s t0) as [|i rest]; [discriminate|]. destruct i; try discriminate.
    destruct (get s (self_of t0)) as [x|]; [|discriminate]. destruct (a_paused x); [discriminate|].
    intros H. injection H as <- <-. eapply evolves_ext; [|apply evolves_set_pend]. intros b. reflexivity.
  - destruct (pend_of s t0) as [|i rest]; [discriminate|]. destruct i; try discriminate.
    intros H. injection H as <- <-. eapply evolves_ext; [|apply evolves_set_pend]. intros b. reflexivity.
  - intros H. injection H as <- <-. eapply evolves_ext; [|apply evolves_refl]. intros b. reflexivity.
Qed.

(** an event without an atomic phase *)
Lemma no_atomic_evolves s ev : pre_atomic s ev = None -> evolves (consult1 s ev) s (step s ev).
Proof.
  assert (Z : forall s', evolves zero s s' -> (forall a, consult1 s ev a = 0) -> evolves (consult1 s ev) s s').
  { intros s' H E. eapply evolves_ext; [|exact H]. intros a. symmetry. apply E. }
  destruct ev; cbn [pre_atomic step].
  - intros _. apply Z; [|intros b; reflexivity].
    destruct (get s a) as [x|] eqn:Hg; [|apply evolves_same_actors; reflexivity].
    destruct (a_cons x), (a_sq x); try (apply evolves_same_actors; reflexivity);
      (eapply evolves_set_actor; [exact Hg|reflexivity|reflexivity]).
  - intros _. apply Z; [|intros b; reflexivity].
    destruct (get s a) as [x|] eqn:Hg; [|apply evolves_same_actors; reflexivity].
    destruct (a_cons x); try (apply evolves_same_actors; reflexivity).
    eapply evolves_set_actor; [exact Hg|reflexivity|reflexivity].
  - intros _. apply Z; [|intros b; reflexivity].
    destruct (get s a) as [x|] eqn:Hg; [|apply evolves_same_actors; reflexivity].
    destruct (a_cons x), (a_uq x); try (apply evolves_same_actors; reflexivity);
      (eapply evolves_set_actor; [exact Hg|reflexivity|reflexivity]).
  - (* EvHandle that does not fit: the step only sets err *)
    destruct (get s a) as [x|] eqn:Hg.
    + destruct (a_cons x) eqn:Hc; try (intros _; apply Z; [apply evolves_same_actors; reflexivity|
        intros b; cbn [consult1]; destruct (Nat.eqb_spec a b) as [<-|]; [rewrite Hg, Hc|]; reflexivity]).
      destruct (dispatch _ a _ e). discriminate.
    + intros _. apply Z; [apply evolves_same_actors; reflexivity|].
      intros b. cbn [consult1]. destruct (Nat.eqb_spec a b) as [<-|]; [rewrite Hg|]; reflexivity.
  - intros _. apply Z; [|intros b; reflexivity].
    destruct (pend_of s t) as [|i rest]; [apply evolves_same_actors; reflexivity|].
    destruct i; try (apply evolves_same_actors; reflexivity).
    + pose proof (evolves_deliver s to {| e_sys := sys; e_sender := sender; e_msg := m |}) as K.
      destruct (deliver s to _) as [s2 a0]. cbn [fst] in K.
      eapply evolves_trans; [exact K|apply evolves_set_pend].
    + eapply evolves_trans; [apply evolves_push_mb|apply evolves_set_pend].
    + destruct (nth_error tos choice) as [to|]; [|apply evolves_same_actors; reflexivity].
      pose proof (evolves_resolve s to) as K1. destruct (resolve s to) as [mb s1]. cbn [snd] in K1.
      pose proof (evolves_deliver s1 mb {| e_sys := sys; e_sender := sender; e_msg := m |}) as K2.
      destruct (deliver s1 mb _) as [s2 a0]. cbn [fst] in K2.
      eapply evolves_trans; [exact K1|]. eapply evolves_trans; [exact K2|apply evolves_set_pend].
    + destruct (nth_error remaining choice) as [to|]; [|apply evolves_same_actors; reflexivity].
      pose proof (evolves_resolve s to) as K1. destruct (resolve s to) as [mb s1]. cbn [snd] in K1.
      pose proof (evolves_deliver s1 mb {| e_sys := true; e_sender := RObj (self_of t); e_msg := MCmdPause |}) as K2.
      destruct (deliver s1 mb _) as [s2 a0]. cbn [fst] in K2.
      eapply evolves_trans; [exact K1|]. eapply evolves_trans; [exact K2|apply evolves_set_pend].
  - destruct (pend_of s t) as [|i rest]; [intros _; apply Z; [apply evolves_same_actors; reflexivity|intros b; reflexivity]|].
    destruct i; try (intros _; apply Z; [apply evolves_same_actors; reflexivity|intros b; reflexivity]). discriminate.
  - destruct (pend_of s t) as [|i rest]; [intros _; apply Z; [apply evolves_same_actors; reflexivity|intros b; reflexivity]|].
    destruct i; try (intros _; apply Z; [apply evolves_same_actors; reflexivity|intros b; reflexivity]). discriminate.
  - destruct (pend_of s t) as [|i rest]; [intros _; apply Z; [apply evolves_same_actors; reflexivity|intros b; reflexivity]|].
    destruct i; try (intros _; apply Z; [apply evolves_same_actors; reflexivity|intros b; reflexivity]).
    destruct (get s (self_of t)) as [x|] eqn:Hg; [|intros _; apply Z; [apply evolves_same_actors; reflexivity|intros b; reflexivity]].
    destruct (a_paused x); [|discriminate]. intros _. apply Z; [|intros b; reflexivity].
    eapply evolves_trans; [|apply evolves_set_pend]. eapply evolves_set_actor; [exact Hg|reflexivity|reflexivity].
  - destruct (pend_of s t) as [|i rest]; [intros _; apply Z; [apply evolves_same_actors; reflexivity|intros b; reflexivity]|].
    destruct i; try (intros _; apply Z; [apply evolves_same_actors; reflexivity|intros b; reflexivity]). discriminate.
  - discriminate.
Qed.

Theorem step_evolves s ev : evolves (consult1 s ev) s (step s ev).
Proof.
  rewrite (step_pre s ev). destruct (pre_atomic s ev) as [[s' t]|] eqn:E.
  - eapply evolves_trans; [exact (pre_atomic_evolves s ev s' t E)|apply evolves_run_atomic].
  - apply no_atomic_evolves. exact E.
Qed.

(** * the invariant: the decision maker of every context is at position [k a] *)
Definition tracks (k : aid -> nat) (s : state) : Prop :=
  (forall a x, get s a = Some x -> a_decisions x = skipn (k a) (sp_decisions (a_spec x))) /\
  (forall a, get s a = None -> k a = 0).

Lemma skipn_dtl {A} n (c : nat) (l : list A) :
  c <= 1 -> skipn (n + c) l = match c with O => skipn n l | S _ => tl (skipn n l) end.
Proof.
  intros Hc. destruct c as [|[|c]]; [rewrite Nat.add_0_r; reflexivity| |lia].
  rewrite Nat.add_1_r. revert l. induction n as [|n IH]; intros l; [destruct l; reflexivity|].
  destruct l as [|h l]; [reflexivity|]. cbn [skipn]. apply IH.
Qed.

Lemma consult1_le s ev a : consult1 s ev a <= 1.
Proof.
  destruct ev; cbn [consult1]; try lia. destruct (Nat.eqb a0 a); [|lia].
  destruct (get s a) as [x|]; [|lia]. destruct (a_cons x); try lia. destruct (consulting x e); lia.
Qed.

Lemma consult1_none s ev a : get s a = None -> consult1 s ev a = 0.
Proof. intros H. destruct ev; cbn [consult1]; try reflexivity. destruct (Nat.eqb a0 a); [rewrite H|]; reflexivity. Qed.

Lemma tracks_step k s ev : tracks k s -> tracks (fun a => k a + consult1 s ev a) (step s ev).
Proof.
  intros [T1 T2]. destruct (step_evolves s ev) as [A B]. split.
  - intros a x' G'. destruct (get s a) as [x|] eqn:G.
    + destruct (A a x G) as (x'' & G'' & S & D). assert (x'' = x') by congruence. subst x''.
      rewrite D, S, (T1 a x G), (skipn_dtl _ _ _ (consult1_le s ev a)).
      destruct (consult1 s ev a); reflexivity.
    + rewrite (B a x' G G'), (T2 a G), (consult1_none s ev a G). reflexivity.
  - intros a G'. destruct (get s a) as [x|] eqn:G.
    + destruct (A a x G) as (x'' & G'' & _). congruence.
    + rewrite (T2 a G), (consult1_none s ev a G). reflexivity.
Qed.

Lemma tracks_ext k k' s : (forall a, k a = k' a) -> tracks k s -> tracks k' s.
Proof. intros E [T1 T2]. split; intros a; rewrite <- E; auto. Qed.

Lemma tracks_run evs : forall k s, tracks k s -> tracks (fun a => k a + consults a evs s) (run_events evs s).
Proof.
  induction evs as [|ev r IH]; intros k s T.
  - cbn [consults run_events fold_left]. eapply tracks_ext; [|exact T]. intros a. lia.
  - change (run_events (ev :: r) s) with (run_events r (step s ev)).
    eapply tracks_ext; [|apply (IH _ _ (tracks_step k s ev T))]. intros a. cbn [consults]. lia.
Qed.

Lemma tracks_init scs : tracks zero (init_with scs).
Proof.
  unfold init_with.
  assert (H : forall scs s i, evolves zero s (set_exts s i scs)).
  { clear. induction scs as [|sc r IH]; intros s i; cbn [set_exts]; [apply evolves_refl|].
    eapply evolves_trans; [apply evolves_set_pend|apply IH]. }
  destruct (H scs (init_state (length scs)) 0) as [A B]. split.
  - intros a x' G'. destruct (get (init_state (length scs)) a) as [x|] eqn:G.
    + destruct (A a x G) as (x'' & G'' & S & D). assert (x'' = x') by congruence. subst x''.
      cbn [zero dtl] in D. rewrite D, S. unfold get, init_state in G. cbn [actors] in G.
      destruct a as [|a]; [|destruct a; discriminate G]. cbn [nth_error] in G. injection G as <-. reflexivity.
    + rewrite (B a x' G G'). reflexivity.
  - intros a _. reflexivity.
Qed.

(** every history: what is left of a context's decision maker is what remains after exactly as many answers as
    the failure reports the context has handled *)
Theorem decisions_track_consults scs evs a x :
  get (run_events evs (init_with scs)) a = Some x ->
  a_decisions x = skipn (consults a evs (init_with scs)) (sp_decisions (a_spec x)).
Proof. intros G. exact (proj1 (tracks_run evs zero _ (tracks_init scs)) a x G). Qed.

(** ... and the answer a live supervisor with a strategy applies to the report it handles next is the answer its
    decision maker gives to its k-th call, k = the number of reports it has handled so far *)
Theorem next_decision_is_kth scs evs a x e c :
  get (run_events evs (init_with scs)) a = Some x -> e_msg e = MSup c -> consulting x e = true ->
  exists ds targets,
    dispatch (run_events evs (init_with scs)) a x e =
      (set_actor (run_events evs (init_with scs)) a
         (set_decisions (set_mb x (a_sq x) (a_uq x) (a_paused x) (a_cons x) (Some e)) ds),
       [ISupPause c (kth_decision x (consults a evs (init_with scs))) targets []; IEndHandler]) /\
    ds = skipn (S (consults a evs (init_with scs))) (sp_decisions (a_spec x)).
Proof.
  intros G Em Hc. pose proof (decisions_track_consults scs evs a x G) as D.
  set (s := run_events evs (init_with scs)) in *. set (k := consults a evs (init_with scs)) in *.
  unfold consulting in Hc. rewrite Em in Hc. cbn [is_sup_msg andb] in Hc.
  apply andb_prop in Hc as [Hd Hs]. apply negb_true_iff in Hd. apply negb_true_iff in Hs.
  unfold dead_for in Hd. rewrite Em in Hd.
  unfold dispatch. rewrite Em.
  replace (match a_state x with Killed => true | Running => false | Killing => negb (e_sys e) && negb false end && negb (a_zombie x))
    with false by (symmetry; exact Hd).
  assert (Hsk : forall (l : list decision) n, skipn (S n) l = tl (skipn n l)).
  { clear. intros l n. revert l. induction n as [|n IH]; intros l; [destruct l; reflexivity|].
    destruct l as [|h l]; [reflexivity|]. cbn [skipn]. apply IH. }
  assert (Hnth : forall (l : list decision) n, nth n l DStop = match skipn n l with d :: _ => d | [] => DStop end).
  { clear. intros l n. revert l. induction n as [|n IH]; intros l; destruct l as [|h l]; try reflexivity. cbn [nth skipn]. apply IH. }
  unfold kth_decision. rewrite Hnth, Hsk, <- D.
  destruct (sp_strategy (a_spec x)) as [|p] eqn:Est; [discriminate Hs|].
  destruct (a_decisions x) as [|d r]; destruct c as [ch ts sub]; eexists; eexists; split; reflexivity.
Qed.
