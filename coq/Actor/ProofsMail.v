(** One-step theorems for C03 / C09: routing (findMailbox), HandleEnvelop's outcomes for user messages and
    dead letters, stash, cleanup / resume, the failure report and the supervision directives. *)
From Coq Require Import List NArith ZArith Bool Lia Arith.
From Vivid Require Import Actor.Core Actor.CoreRun Actor.SpecMail Actor.ProofsMailBase.
Import ListNotations.

(** * C03-a routing *)
Lemma routing_actor s r y :
  fst (resolve s r) = MbActor y ->
  (exists p, ref_path s r = Some p /\ alookup (reg s) p = Some y) \/
  (exists a x, r = RObj a /\ get s a = Some x /\ a_cache x = Some y).
Proof.
  unfold resolve, ref_path. destruct r as [a|p|]; cbn [fst].
  - destruct (get s a) as [x|] eqn:E; [|discriminate].
    destruct (a_cache x) as [c|] eqn:Ec.
    + cbn. intros H; inversion H; subst. right. exists a, x. auto.
    + destruct (alookup (reg s) (a_path x)) as [z|] eqn:Er.
      * cbn. intros H; inversion H; subst. left. exists (a_path x). auto.
      * destruct (path_eqb (a_path x) []); discriminate.
  - destruct (alookup (reg s) p) as [z|] eqn:Er.
    + cbn. intros H; inversion H; subst. left. exists p. auto.
    + destruct (path_eqb p []); discriminate.
  - discriminate.
Qed.

(** a reference without a filled cache: a parsed / cloned one, or a context's ref object that was never resolved *)
Definition uncached (s : state) (r : rref) (p : path) : Prop :=
  r = RFresh p \/ exists a x, r = RObj a /\ get s a = Some x /\ a_cache x = None /\ a_path x = p.

Lemma routing_uncached s r p :
  uncached s r p ->
  fst (resolve s r) = match alookup (reg s) p with
                      | Some y => MbActor y
                      | None => if path_eqb p [] then MbRoot else MbDead
                      end.
Proof.
  intros [->|(a & x & -> & Hg & Hc & <-)]; unfold resolve.
  - destruct (alookup (reg s) p); [reflexivity|]. destruct (path_eqb p []); reflexivity.
  - rewrite Hg, Hc. destruct (alookup (reg s) (a_path x)); [reflexivity|]. destruct (path_eqb (a_path x) []); reflexivity.
Qed.

Lemma routing_cached s a x y : get s a = Some x -> a_cache x = Some y -> resolve s (RObj a) = (MbActor y, s).
Proof. intros Hg Hc. unfold resolve. rewrite Hg, Hc. reflexivity. Qed.

Lemma routing_nil s : resolve s RNone = (MbRoot, s).
Proof. reflexivity. Qed.

(** the insertion of an undeliverable envelope: exactly one dead-letter report in the root's user queue *)
Lemma push_mb_user s a x e :
  get s a = Some x -> e_sys e = false ->
  push_mb s a e = set_actor s a (set_mb x (a_sq x) (a_uq x ++ [e]) (a_paused x) (a_cons x) (a_cur x)).
Proof.
  intros Hg He. unfold push_mb. rewrite (with_actor_some _ _ _ _ Hg). rewrite He. reflexivity.
Qed.
Lemma push_mb_sys s a x e :
  get s a = Some x -> e_sys e = true ->
  push_mb s a e = set_actor s a (set_mb x (a_sq x ++ [e]) (a_uq x) (a_paused x) (a_cons x) (a_cur x)).
Proof.
  intros Hg He. unfold push_mb. rewrite (with_actor_some _ _ _ _ Hg). rewrite He. reflexivity.
Qed.

Lemma deliver_dead s e x0 :
  get s 0 = Some x0 ->
  deliver s MbDead e = (set_actor s 0 (set_mb x0 (a_sq x0) (a_uq x0 ++ [dead_env e]) (a_paused x0) (a_cons x0) (a_cur x0)), 0).
Proof. intros Hg. unfold deliver. fold (dead_env e). rewrite (push_mb_user s 0 x0 (dead_env e) Hg eq_refl). reflexivity. Qed.

(** * C03-b HandleEnvelop *)
Lemma is_dead_dispatch x e :
  (match a_state x with
   | Killed => true | Running => false
   | Killing => negb (e_sys e) && negb (match e_msg e with MKill _ _ => true | _ => false end)
   end) = is_dead x e.
Proof. unfold is_dead, is_kill_msg. reflexivity. Qed.

(** the dead branch, for any message: a report to the guard, or (at the stopped guard) a drop *)
Lemma handle_dead s a x e :
  get s a = Some x -> a_cons x = CH e -> a_zombie x = false -> is_dead x e = true ->
  step s (EvHandle a) =
  match a_parent x with
  | Some _ => set_actor s a (upd_pend (busy x) (dead_report e))
  | None => add_ghost (set_actor s a (handled x (a_cur x))) (ODropped (e_msg e))
  end.
Proof.
  intros Hg Hc Hz Hd. rewrite (step_handle _ _ _ _ Hg Hc). cbv zeta.
  assert (Hl : a < length (actors s)) by (eapply nth_error_lt; exact Hg).
  unfold dispatch. cbn [a_state a_zombie set_mb a_parent]. rewrite is_dead_dispatch.
  replace (is_dead _ e) with true by (rewrite <- Hd; reflexivity). rewrite Hz. cbn [negb andb].
  destruct (a_parent x) as [p|].
  - rewrite (set_pend_TA _ _ _ _ (get_set_same _ _ _ Hl)), set_actor_twice. rewrite FUEL_eq.
    ra_yield Hl. reflexivity.
  - match goal with |- context[add_ghost (set_actor s a ?y) ?o] =>
      change (add_ghost (set_actor s a y) o) with (set_actor (add_ghost s o) a y); set (sg := add_ghost s o) end.
    assert (Hl' : a < length (actors sg)) by exact Hl.
    rewrite (set_pend_TA _ _ _ _ (get_set_same _ _ _ Hl')), set_actor_twice. rewrite FUEL_eq.
    ra_exec Hl'. rewrite set_actor_twice.
    unfold exec1 at 1. cbn [self_of]. rewrite (get_set_same _ _ _ Hl'). rewrite set_actor_twice.
    ra_next Hl'.
    ra_done Hl'.
    reflexivity.
Qed.

(** a zombie consumes a user message without running user code and without sending anything *)
Lemma handle_zombie_user s a x e tag acts :
  get s a = Some x -> a_cons x = CH e -> e_msg e = MUser tag acts -> a_zombie x = true ->
  step s (EvHandle a) = set_actor s a (handled x (Some e)).
Proof.
  intros Hg Hc Hm Hz. rewrite (step_handle _ _ _ _ Hg Hc). cbv zeta.
  unfold dispatch. cbn [a_state a_zombie set_mb a_parent]. rewrite Hz, andb_false_r, Hm.
  rewrite set_actor_twice.
  assert (Hl : a < length (actors s)) by (eapply nth_error_lt; exact Hg).
  rewrite (set_pend_TA _ _ _ _ (get_set_same _ _ _ Hl)), set_actor_twice.
  rewrite FUEL_eq.
  ra_exec Hl. rewrite set_actor_twice.
  unfold exec1 at 1. cbn [self_of]. rewrite (get_set_same _ _ _ Hl). cbn [a_zombie upd_pend set_mb]. rewrite Hz.
  ra_next Hl.
  ra_exec Hl. rewrite set_actor_twice.
  unfold exec1 at 1. cbn [self_of]. rewrite (get_set_same _ _ _ Hl). rewrite set_actor_twice.
  ra_next Hl.
  ra_done Hl.
  reflexivity.
Qed.

(** the running guard ignores a user message (guard.Actor.OnReceive has no case for it) *)
Lemma handle_root_user s a x e tag acts :
  get s a = Some x -> a_cons x = CH e -> e_msg e = MUser tag acts -> a_zombie x = false -> is_dead x e = false ->
  a_parent x = None ->
  step s (EvHandle a) = set_actor s a (handled x (Some e)).
Proof.
  intros Hg Hc Hm Hz Hd Hp. rewrite (step_handle _ _ _ _ Hg Hc). cbv zeta.
  unfold dispatch. cbn [a_state a_zombie set_mb a_parent]. rewrite is_dead_dispatch.
  replace (is_dead _ e) with false by (rewrite <- Hd; reflexivity). cbn [andb]. rewrite Hm.
  rewrite set_actor_twice.
  assert (Hl : a < length (actors s)) by (eapply nth_error_lt; exact Hg).
  rewrite (set_pend_TA _ _ _ _ (get_set_same _ _ _ Hl)), set_actor_twice.
  rewrite FUEL_eq.
  ra_exec Hl. rewrite set_actor_twice.
  unfold exec1 at 1. cbn [self_of]. rewrite (get_set_same _ _ _ Hl). cbn [a_zombie a_parent upd_pend set_mb]. rewrite Hz, Hp.
  ra_next Hl.
  ra_exec Hl. rewrite set_actor_twice.
  unfold exec1 at 1. cbn [self_of]. rewrite (get_set_same _ _ _ Hl). rewrite set_actor_twice.
  ra_next Hl.
  ra_done Hl.
  reflexivity.
Qed.

(** a running (or stopping, for a system envelope) actor gives the message to its behaviour: the invocation is
    logged first, whatever the script then does; no dead letter, no drop *)
Lemma handle_processed_user s a x e tag acts p :
  get s a = Some x -> a_cons x = CH e -> e_msg e = MUser tag acts -> a_zombie x = false -> is_dead x e = false ->
  a_parent x = Some p ->
  (exists l, olog (step s (EvHandle a)) = olog s ++ OSeen a (a_inst x) (mode_top x) (MUser tag acts) :: l) /\
  ghost (step s (EvHandle a)) = ghost s.
Proof.
  intros Hg Hc Hm Hz Hd Hp. rewrite (step_handle _ _ _ _ Hg Hc). cbv zeta.
  unfold dispatch. cbn [a_state a_zombie set_mb a_parent]. rewrite is_dead_dispatch.
  replace (is_dead _ e) with false by (rewrite <- Hd; reflexivity). cbn [andb]. rewrite Hm.
  rewrite set_actor_twice.
  assert (Hl : a < length (actors s)) by (eapply nth_error_lt; exact Hg).
  rewrite (set_pend_TA _ _ _ _ (get_set_same _ _ _ Hl)), set_actor_twice.
  rewrite FUEL_eq.
  ra_exec Hl. rewrite !set_actor_twice.
  unfold exec1. cbn [self_of]. rewrite !(get_set_same _ _ _ Hl).
  cbn [a_zombie a_parent a_inst a_cons upd_pend set_mb]. rewrite Hz, Hp.
  destruct (take_until_panic acts) as [pre panics].
  match goal with |- context[run_atomic ?f ?s0 ?t] => set (s1 := s0); set (fu := f) end.
  assert (Ho : olog s1 = olog s ++ [OSeen a (a_inst x) (mode_top x) (MUser tag acts)]).
  { unfold s1. rewrite set_pend_olog. reflexivity. }
  assert (Hgh : ghost s1 = ghost s).
  { unfold s1. rewrite set_pend_ghost. reflexivity. }
  split.
  - destruct (grows_olog_run_atomic fu s1 (TA a)) as [l Hgl]. exists l. rewrite Hgl, Ho, <- app_assoc. reflexivity.
  - rewrite <- Hgh.
    assert (Hg1 : exists y, get s1 a = Some y /\ a_parent y = Some p).
    { assert (Hga : forall Y o, get (add_obs (set_actor s a Y) o) a = Some Y) by (intros; apply (get_set_same s a _ Hl)).
      unfold s1. rewrite (set_pend_TA _ _ _ _ (Hga _ _)).
      eexists. split; [eapply get_set_same'; apply Hga|]. cbn. exact Hp. }
    destruct Hg1 as (y & Hy & Hpy).
    apply (ghost_run_atomic_nonroot fu s1 (TA a) y p Hy Hpy).
Qed.

(** * C03-c the guard and dead letters *)
Definition dl_payload (inner : msg) : list N :=
  match inner with MUser tag _ => [1%N; tag] | MEvent ty _ => [2%N; ty] | _ => [0%N] end.

Lemma handle_guard_dead_letter s a x e sys m :
  get s a = Some x -> a_cons x = CH e -> e_msg e = MDeadLetter sys m -> a_parent x = None ->
  a_zombie x = false -> is_dead x e = false ->
  step s (EvHandle a) =
  add_ghost (set_actor s a
      match subscribers s evDeathLetter with
      | [] => handled x (Some e)
      | l => upd_pend (set_mb x (a_sq x) (a_uq x) (a_paused x) (CBusy (mode_top x)) (Some e))
                      [IEnqAny false (map (fun p => RObj (snd p)) l) root_ref (MEvent evDeathLetter (dl_payload m)); IEndHandler]
      end) (ODeadLetter sys m).
Proof.
  intros Hg Hc Hm Hp Hz Hd. rewrite (step_handle _ _ _ _ Hg Hc). cbv zeta.
  unfold dispatch. cbn [a_state a_zombie set_mb a_parent]. rewrite is_dead_dispatch.
  replace (is_dead _ e) with false by (rewrite <- Hd; reflexivity). cbn [andb]. rewrite Hm, Hp.
  rewrite set_actor_twice.
  assert (Hl : a < length (actors s)) by (eapply nth_error_lt; exact Hg).
  match goal with |- context[add_ghost (set_actor s a ?y) ?o] =>
    change (add_ghost (set_actor s a y) o) with (set_actor (add_ghost s o) a y); set (sg := add_ghost s o) end.
  assert (Hl' : a < length (actors sg)) by exact Hl.
  rewrite (set_pend_TA _ _ _ _ (get_set_same _ _ _ Hl')), set_actor_twice. rewrite FUEL_eq.
  ra_exec Hl'. rewrite set_actor_twice.
  unfold exec1 at 1. cbn [self_of]. rewrite (get_set_same _ _ _ Hl').
  fold (dl_payload m).
  replace (subscribers _ evDeathLetter) with (subscribers s evDeathLetter) by reflexivity.
  destruct (subscribers s evDeathLetter) as [|q l] eqn:Es.
  - ra_next Hl'.
    ra_exec Hl'. rewrite set_actor_twice.
    unfold exec1 at 1. cbn [self_of]. rewrite (get_set_same _ _ _ Hl'). rewrite set_actor_twice.
    ra_next Hl'.
    ra_done Hl'.
    reflexivity.
  - ra_next Hl'.
    ra_yield Hl'.
    reflexivity.
Qed.

(** * C03-c stash *)
Lemma exec1_stash s t h x e :
  get s (self_of t) = Some x -> a_cur x = Some e ->
  exec1 s t h (IAct AStash) = (set_actor s (self_of t) (set_stash x (a_stash x ++ [e])), []).
Proof. intros Hg Hc. unfold exec1. rewrite Hg, Hc. reflexivity. Qed.

(** how many stashed envelopes Unstash re-enqueues, as the code computes it *)
Definition unstash_count (n : option Z) (len : nat) : nat :=
  match n with None => 1 | Some n => Z.to_nat (Z.max (Z.min n (Z.of_nat len)) 0) end.

Lemma exec1_unstash s t h x n :
  get s (self_of t) = Some x -> a_stash x <> [] ->
  let k := unstash_count n (length (a_stash x)) in
  exec1 s t h (IAct (AUnstash n)) =
  (set_actor s (self_of t) (set_stash x (skipn k (a_stash x))),
   flat_map (fun e => [IEnqMb (self_of t) e; IEnqDone]) (firstn k (a_stash x))).
Proof.
  intros Hg Hne. cbv zeta. unfold exec1. rewrite Hg. destruct n as [n|]; cbn [unstash_count].
  - destruct (a_stash x) as [|e0 r] eqn:Es; [congruence|]. reflexivity.
  - destruct (a_stash x) as [|e0 r] eqn:Es; [congruence|]. reflexivity.
Qed.

Lemma exec1_unstash_empty s t h x n :
  get s (self_of t) = Some x -> a_stash x = [] -> exec1 s t h (IAct (AUnstash n)) = (s, []).
Proof. intros Hg He. unfold exec1. rewrite Hg, He. destruct n; reflexivity. Qed.

(** no other instruction touches any stash *)
Lemma exec1_stash_frame s t h i :
  i <> IAct AStash -> (forall n, i <> IAct (AUnstash n)) -> keeps a_stash [] s (fst (exec1 s t h i)).
Proof.
  intros H1 H2. apply keeps_exec1; [|reflexivity].
  intros x y Hl. destruct (lu_stash _ _ _ Hl) as [E|[E|[n E]]]; [exact E|congruence|exfalso; exact (H2 n E)].
Qed.

(** * C03-e cleanup resumes the mailbox *)
Definition cleanup_sends (self : aid) (x : actor) : list instr :=
  (match a_watchers x with
   | [] => []
   | l => [IEnqAny true (map snd l) (RObj self) (MKilled (RObj self))]
   end)
  ++ (match a_parent x with
      | Some p => [IEnq true (RObj p) (RObj self) (MKilled (RObj self)); IEnqDone]
      | None => []
      end).

Lemma exec1_cleanup s t h x :
  get s (self_of t) = Some x ->
  exec1 s t h ICleanup =
  (set_reg (set_subs s (unsub_all (subs s) (a_path x))) (aremove (reg s) (a_path x)),
   cleanup_sends (self_of t) x ++ [IPub evKilled (actor_key x); IResume1]).
Proof. intros Hg. unfold exec1. rewrite Hg. unfold cleanup_sends. cbn [set_subs reg]. rewrite <- app_assoc. reflexivity. Qed.

Lemma step_resume1_paused s t x rest :
  pend_of s t = IResume1 :: rest -> get s (self_of t) = Some x -> a_paused x = true ->
  step s (EvResume1 t) =
  set_pend (set_actor s (self_of t) (set_mb x (a_sq x) (a_uq x) false (a_cons x) (a_cur x))) t (IResume2 :: rest).
Proof. intros Hp Hg Hpa. cbn [step]. rewrite Hp, Hg, Hpa. reflexivity. Qed.

Lemma step_resume1_unpauses s t x rest :
  pend_of s t = IResume1 :: rest -> get s (self_of t) = Some x -> a_paused x = true ->
  exists x', get (step s (EvResume1 t)) (self_of t) = Some x' /\ a_paused x' = false /\ a_uq x' = a_uq x /\ a_sq x' = a_sq x.
Proof.
  intros Hp Hg Hpa. rewrite (step_resume1_paused _ _ _ _ Hp Hg Hpa).
  assert (Hl : self_of t < length (actors s)) by (eapply nth_error_lt; exact Hg).
  destruct t as [a|i].
  - erewrite set_pend_TA by (apply get_set_same; exact Hl). rewrite set_actor_twice.
    eexists. split; [apply get_set_same; exact Hl|]. cbn. auto.
  - unfold set_pend. cbn [exts set_actor].
    destruct (nth_error (exts s) i); (eexists; split; [apply (get_set_same s _ _ Hl)|cbn; auto]).
Qed.

(** * C09-a the failure report *)
Lemma exec1_failed s t h x :
  get s (self_of t) = Some x ->
  exec1 s t h IFailed =
  (s, [IPauseSt; IEnq true (rref_parent x) (RObj (self_of t)) (MSup (SupCtx (RObj (self_of t)) [] None)); IEnqDone;
       IPub evFailed (actor_key x); IPub evPaused (actor_key x)]).
Proof. intros Hg. unfold exec1. rewrite Hg. reflexivity. Qed.

(** does the recovery policy of this invocation report a panic to the supervisor *)
Definition reports (s : state) (self : aid) (x : actor) (r : recov) : bool :=
  match r with
  | RecFail => true
  | RecLog => false
  | RecKilled who => match a_state x with Running => negb (ref_eq s who (RObj self)) | _ => false end
  end.

Lemma exec1_beh s t h x p m acts r :
  get s (self_of t) = Some x -> a_zombie x = false -> a_parent x = Some p ->
  exec1 s t h (IBeh m acts r) =
  (add_obs s (OSeen (self_of t) (a_inst x) (match a_cons x with CBusy md => md | _ => mode_top x end) m),
   map IAct (fst (take_until_panic acts)) ++
   (if snd (take_until_panic acts) && reports s (self_of t) x r then [IFailed] else [])).
Proof.
  intros Hg Hz Hp. unfold exec1. rewrite Hg, Hz, Hp. destruct (take_until_panic acts) as [pre pan]. cbn [fst snd].
  f_equal. f_equal. destruct pan; [|reflexivity]. cbn [andb]. destruct r; cbn [reports]; try reflexivity.
  destruct (a_state x); try reflexivity. destruct (ref_eq s who (RObj (self_of t))); reflexivity.
Qed.

Lemma exec1_beh_zombie s t h x m acts r :
  get s (self_of t) = Some x -> a_zombie x = true -> exec1 s t h (IBeh m acts r) = (s, []).
Proof. intros Hg Hz. unfold exec1. rewrite Hg, Hz. reflexivity. Qed.

Lemma in_map_IAct_IFailed l : ~ In IFailed (map IAct l).
Proof. induction l; cbn; [tauto|]. intros [H|H]; [discriminate|auto]. Qed.

Lemma exec1_beh_failed_iff s t h x p m acts r :
  get s (self_of t) = Some x -> a_zombie x = false -> a_parent x = Some p ->
  (In IFailed (snd (exec1 s t h (IBeh m acts r))) <-> snd (take_until_panic acts) = true /\ reports s (self_of t) x r = true).
Proof.
  intros Hg Hz Hp. rewrite (exec1_beh _ _ _ _ _ _ _ _ Hg Hz Hp). cbn [snd]. rewrite in_app_iff. split.
  - intros [H|H]; [exfalso; exact (in_map_IAct_IFailed _ H)|].
    destruct (snd (take_until_panic acts)), (reports s (self_of t) x r); cbn in H; tauto.
  - intros [-> ->]. right. cbn. auto.
Qed.

(** the kill chain runs the behaviour with the log-only recovery *)
Lemma exec1_dokill s t h x poison :
  get s (self_of t) = Some x ->
  exec1 s t h (IDoKill poison) =
  (s, (match a_children x with
       | [] => []
       | l => [IEnqAny (negb poison) (map (fun p => RObj (snd p)) l) (RObj (self_of t)) (MKill (RObj (self_of t)) poison)]
       end)
      ++ [IBeh (match a_cur x with Some e => e_msg e | None => MKill RNone poison end) (sp_kill (a_spec x)) RecLog;
          IOnKilled (RObj (self_of t))]).
Proof. intros Hg. unfold exec1. rewrite Hg. destruct (a_restarting x); reflexivity. Qed.

Lemma exec1_checkmark s t h x :
  get s (self_of t) = Some x -> a_children x = [] -> a_state x = Killing ->
  exists y, fst (exec1 s t h ICheckMark) = set_actor s (self_of t) y /\ a_state y = Killed /\
            a_uq y = a_uq x /\ a_sq y = a_sq x /\ a_paused y = a_paused x /\ a_stash y = a_stash x /\
  snd (exec1 s t h ICheckMark) =
    [IBeh (MKilled (RObj (self_of t))) (sp_killed (a_spec x)) RecLog;
     match a_restarting x with None => ICleanup | Some _ => IRestartFinish end].
Proof.
  intros Hg Hc Hs. unfold exec1. rewrite Hg, Hc, Hs. eexists. split; [reflexivity|]. cbn. repeat split; auto.
  destruct (a_restarting x); reflexivity.
Qed.

(** * C09-b the directives *)
Definition with_targets (c : supctx) (targets : list rref) : supctx :=
  match c with SupCtx ch _ sub => SupCtx ch targets sub end.
Definition resume_all (self : aid) (c : supctx) : list instr :=
  flat_map (fun r => [IEnq true r (RObj self) MCmdResume; IEnqDone]) (chain_targets c).

Lemma exec1_sup_resume s t h x c targets :
  get s (self_of t) = Some x ->
  exec1 s t h (ISupApply c DResume targets) = (s, resume_all (self_of t) (with_targets c targets)).
Proof. intros Hg. unfold exec1. rewrite Hg. reflexivity. Qed.

Lemma exec1_sup_restart s t h x c targets d :
  get s (self_of t) = Some x -> d = DRestart \/ d = DGRestart ->
  exec1 s t h (ISupApply c d targets) =
  (s, flat_map (fun r => [IEnq (negb (is_graceful d)) r (RObj (self_of t)) (MRestart (is_graceful d)); IEnqDone]) targets
      ++ if is_graceful d then resume_all (self_of t) (with_targets c targets) else []).
Proof. intros Hg [-> | ->]; unfold exec1; rewrite Hg; reflexivity. Qed.

Lemma exec1_sup_stop s t h x c targets d :
  get s (self_of t) = Some x -> d = DStop \/ d = DGStop ->
  exec1 s t h (ISupApply c d targets) =
  (s, flat_map (fun r => [IEnq (negb (is_graceful d)) r (RObj (self_of t)) (MKill (RObj (self_of t)) (is_graceful d)); IEnqDone]) targets
      ++ if is_graceful d then resume_all (self_of t) (with_targets c targets) else []).
Proof. intros Hg [-> | ->]; unfold exec1; rewrite Hg; reflexivity. Qed.

Lemma exec1_sup_escalate s t h x c targets d :
  get s (self_of t) = Some x -> d = DEscalate \/ d = DInvalid ->
  exec1 s t h (ISupApply c d targets) =
  (s, [IPauseSt; IEnq true (rref_parent x) (RObj (self_of t)) (MSup (SupCtx (RObj (self_of t)) [] (Some (with_targets c targets)))); IEnqDone]).
Proof. intros Hg [-> | ->]; unfold exec1; rewrite Hg; reflexivity. Qed.

Lemma exec1_sup_pause_done s t h x c d done :
  get s (self_of t) = Some x -> exec1 s t h (ISupPause c d [] done) = (s, [ISupApply c d done]).
Proof. intros Hg. unfold exec1. rewrite Hg. reflexivity. Qed.

(** the decision and the targets HandleEnvelop computes for a supervision report *)
Definition sup_decision (x : actor) : decision * list decision :=
  match sp_strategy (a_spec x) with
  | 0%N => (DStop, a_decisions x)
  | _ => match a_decisions x with d :: r => (d, r) | [] => (DStop, []) end
  end.
Definition sup_targets (x : actor) (c : supctx) : list rref :=
  match sp_strategy (a_spec x) with
  | 2%N => map (fun p => RObj (snd p)) (a_children x)
  | _ => match c with SupCtx ch _ _ => [ch] end
  end.

Lemma dispatch_sup s a x e c :
  e_msg e = MSup c -> (is_dead x e && negb (a_zombie x)) = false ->
  dispatch s a x e =
  (set_actor s a (set_decisions (set_mb x (a_sq x) (a_uq x) (a_paused x) (a_cons x) (Some e)) (snd (sup_decision x))),
   [ISupPause c (fst (sup_decision x)) (sup_targets x c) []; IEndHandler]).
Proof.
  intros Hm Hd. unfold dispatch. rewrite is_dead_dispatch, Hd, Hm. unfold sup_decision, sup_targets.
  destruct (sp_strategy (a_spec x)) as [|[q|q|]]; try reflexivity; destruct (a_decisions x); reflexivity.
Qed.

Lemma step_push_sup_pause s t c d rem done rest choice to :
  pend_of s t = ISupPause c d rem done :: rest -> nth_error rem choice = Some to ->
  step s (EvPush t choice) =
  set_pend (fst (deliver (snd (resolve s to)) (fst (resolve s to)) {| e_sys := true; e_sender := RObj (self_of t); e_msg := MCmdPause |}))
           t (IEnqDone :: ISupPause c d (firstn choice rem ++ skipn (S choice) rem) (done ++ [to]) :: rest).
Proof.
  intros Hp Hn. cbn [step]. rewrite Hp, Hn. destruct (resolve s to) as [mb s1]. cbn [fst snd].
  destruct (deliver s1 mb _). reflexivity.
Qed.

(** restart: the hooks decide between a fresh running instance and a zombie; both resume the mailbox *)
Definition restart_ok (x : actor) : bool :=
  match a_hooks x with (_, r_ok, p_ok) :: _ => r_ok && p_ok | [] => true end.

Lemma exec1_restart_finish_ok s t h x :
  get s (self_of t) = Some x -> restart_ok x = true ->
  exists y, exec1 s t h IRestartFinish =
    (set_actor s (self_of t) y,
     [IResume1; IPub evRestarted (actor_key x); IPub evResumed (actor_key x);
      IBeh MLaunch (sp_launch (a_spec x)) RecFail; IPub evLaunched (actor_key x)]) /\
    a_state y = Running /\ a_restarting y = None /\ a_zombie y = a_zombie x /\ a_modes y = [0%N] /\
    a_inst y = (if sp_provider (a_spec x) then (a_inst x + 1)%N else a_inst x) /\
    a_uq y = a_uq x /\ a_sq y = a_sq x /\ a_stash y = a_stash x /\ a_paused y = a_paused x /\
    a_cur y = Some {| e_sys := true; e_sender := rref_parent x; e_msg := MLaunch |}.
Proof.
  intros Hg Hok. unfold exec1. rewrite Hg. unfold restart_ok in Hok.
  destruct (a_hooks x) as [|[[h1 h2] h3] rest].
  - eexists. split; [reflexivity|]. destruct (sp_provider (a_spec x)); cbn; repeat split; auto.
  - rewrite Hok. eexists. split; [reflexivity|]. destruct (sp_provider (a_spec x)); cbn; repeat split; auto.
Qed.

Lemma exec1_restart_finish_fail s t h x :
  get s (self_of t) = Some x -> restart_ok x = false ->
  exists y, exec1 s t h IRestartFinish = (set_actor s (self_of t) y, [IResume1]) /\
    a_zombie y = true /\ a_state y = a_state x /\ a_uq y = a_uq x /\ a_sq y = a_sq x /\ a_stash y = a_stash x /\
    a_paused y = a_paused x.
Proof.
  intros Hg Hok. unfold exec1. rewrite Hg. unfold restart_ok in Hok.
  destruct (a_hooks x) as [|[[h1 h2] h3] rest]; [discriminate|].
  rewrite Hok. eexists. split; [reflexivity|]. destruct (sp_provider (a_spec x)); cbn; repeat split; auto.
Qed.

(** zombie release *)
Lemma exec1_onkilled_zombie s t h x who :
  get s (self_of t) = Some x -> a_zombie x = true -> exec1 s t h (IOnKilled who) = (s, [ICleanup; IUnzombie]).
Proof. intros Hg Hz. unfold exec1. rewrite Hg, Hz. reflexivity. Qed.

Lemma exec1_unzombie s t h x :
  get s (self_of t) = Some x -> exec1 s t h IUnzombie = (set_actor s (self_of t) (set_zombie x false), []).
Proof. intros Hg. unfold exec1. rewrite Hg. reflexivity. Qed.

(** what HandleEnvelop installs for a zombie: an OnKill / OnKilled releases it, everything else runs the empty behaviour *)
Lemma dispatch_zombie_kill s a x e k poison :
  a_zombie x = true -> e_msg e = MKill k poison ->
  dispatch s a x e = (set_actor s a (set_mb x (a_sq x) (a_uq x) (a_paused x) (a_cons x) (Some e)), [IDoKill poison; IEndHandler]).
Proof. intros Hz Hm. unfold dispatch. rewrite Hz, andb_false_r, Hm. reflexivity. Qed.

Lemma dispatch_zombie_killed s a x e who :
  a_zombie x = true -> e_msg e = MKilled who ->
  dispatch s a x e = (set_actor s a (set_mb x (a_sq x) (a_uq x) (a_paused x) (a_cons x) (Some e)), [IOnKilled who; IEndHandler]).
Proof. intros Hz Hm. unfold dispatch. rewrite Hz, andb_false_r, Hm. reflexivity. Qed.

(** the commands *)
Lemma dispatch_cmd_resume s a x e :
  e_msg e = MCmdResume -> (is_dead x e && negb (a_zombie x)) = false ->
  dispatch s a x e = (set_actor s a (set_mb x (a_sq x) (a_uq x) (a_paused x) (a_cons x) (Some e)),
                      [IResume1; IPub evResumed (actor_key x); IEndHandler]).
Proof. intros Hm Hd. unfold dispatch. rewrite is_dead_dispatch, Hd, Hm. reflexivity. Qed.

Lemma dispatch_restart_running s a x e poison :
  e_msg e = MRestart poison -> a_state x = Running ->
  exists y, dispatch s a x e = (set_actor s a y, [IPub evRestarting (actor_key x); IDoKill poison; IEndHandler]) /\
            a_state y = Killing /\ a_restarting y = Some poison /\ a_uq y = a_uq x /\ a_sq y = a_sq x /\
            a_stash y = a_stash x /\ a_paused y = a_paused x.
Proof.
  intros Hm Hs. unfold dispatch. rewrite Hs, Hm. cbn [andb].
  destruct (a_hooks _) as [|[[h1 h2] h3] rest]; (eexists; split; [reflexivity|cbn; repeat split; auto]).
Qed.

(** * the four outcomes, stated with [user_outcome] *)
Lemma outcome_processed s a x e tag acts p :
  get s a = Some x -> a_cons x = CH e -> e_msg e = MUser tag acts ->
  user_outcome x e = OutProcessed -> a_parent x = Some p ->
  (exists l, olog (step s (EvHandle a)) = olog s ++ OSeen a (a_inst x) (mode_top x) (MUser tag acts) :: l) /\
  ghost (step s (EvHandle a)) = ghost s.
Proof.
  intros Hg Hc Hm Ho Hp. unfold user_outcome in Ho.
  destruct (a_zombie x) eqn:Hz; [discriminate|]. destruct (is_dead x e) eqn:Hd; [rewrite Hp in Ho; discriminate|].
  exact (handle_processed_user s a x e tag acts p Hg Hc Hm Hz Hd Hp).
Qed.

Lemma outcome_processed_root s a x e tag acts :
  get s a = Some x -> a_cons x = CH e -> e_msg e = MUser tag acts ->
  user_outcome x e = OutProcessed -> a_parent x = None ->
  step s (EvHandle a) = set_actor s a (handled x (Some e)).
Proof.
  intros Hg Hc Hm Ho Hp. unfold user_outcome in Ho.
  destruct (a_zombie x) eqn:Hz; [discriminate|]. destruct (is_dead x e) eqn:Hd; [rewrite Hp in Ho; discriminate|].
  exact (handle_root_user s a x e tag acts Hg Hc Hm Hz Hd Hp).
Qed.

Lemma outcome_zombie s a x e tag acts :
  get s a = Some x -> a_cons x = CH e -> e_msg e = MUser tag acts -> user_outcome x e = OutZombie ->
  step s (EvHandle a) = set_actor s a (handled x (Some e)).
Proof.
  intros Hg Hc Hm Ho. unfold user_outcome in Ho.
  destruct (a_zombie x) eqn:Hz; [|destruct (is_dead x e), (a_parent x); discriminate].
  exact (handle_zombie_user s a x e tag acts Hg Hc Hm Hz).
Qed.

Lemma outcome_dead_letter s a x e tag acts :
  get s a = Some x -> a_cons x = CH e -> e_msg e = MUser tag acts -> user_outcome x e = OutDeadLetter ->
  step s (EvHandle a) =
  set_actor s a (upd_pend (busy x)
    [IEnqMb 0 {| e_sys := false; e_sender := root_ref; e_msg := MDeadLetter (e_sys e) (MUser tag acts) |}; IEnqDone; IEndHandler]).
Proof.
  intros Hg Hc Hm Ho. unfold user_outcome in Ho.
  destruct (a_zombie x) eqn:Hz; [discriminate|]. destruct (is_dead x e) eqn:Hd; [|discriminate].
  destruct (a_parent x) eqn:Hp; [|discriminate].
  rewrite (handle_dead s a x e Hg Hc Hz Hd), Hp. unfold dead_report, dead_env. rewrite Hm. reflexivity.
Qed.

Lemma outcome_dropped s a x e tag acts :
  get s a = Some x -> a_cons x = CH e -> e_msg e = MUser tag acts -> user_outcome x e = OutDropped ->
  step s (EvHandle a) = add_ghost (set_actor s a (handled x (a_cur x))) (ODropped (MUser tag acts)).
Proof.
  intros Hg Hc Hm Ho. unfold user_outcome in Ho.
  destruct (a_zombie x) eqn:Hz; [discriminate|]. destruct (is_dead x e) eqn:Hd; [|discriminate].
  destruct (a_parent x) eqn:Hp; [discriminate|].
  rewrite (handle_dead s a x e Hg Hc Hz Hd), Hp, Hm. reflexivity.
Qed.

Lemma cleanup_ends_with_resume s t h x :
  get s (self_of t) = Some x ->
  exists sends, snd (exec1 s t h ICleanup) = sends ++ [IPub evKilled (actor_key x); IResume1].
Proof. intros Hg. rewrite (exec1_cleanup s t h x Hg). eexists. reflexivity. Qed.

Lemma exec1_beh_not_failed_stopping s t h x p m acts r :
  get s (self_of t) = Some x -> a_zombie x = false -> a_parent x = Some p ->
  a_state x <> Running -> r <> RecFail ->
  ~ In IFailed (snd (exec1 s t h (IBeh m acts r))).
Proof.
  intros Hg Hz Hp Hs Hr Hin. apply (exec1_beh_failed_iff s t h x p m acts r Hg Hz Hp) in Hin. destruct Hin as [_ Hrep].
  destruct r; cbn [reports] in Hrep; try congruence. destruct (a_state x); congruence.
Qed.

Lemma sup_decision_root x : sp_strategy (a_spec x) = 0%N -> sup_decision x = (DStop, a_decisions x).
Proof. intros H. unfold sup_decision. rewrite H. reflexivity. Qed.
