(** Accounting of envelopes along a run (C03-d): every envelope inserted by a push is, at every later moment,
    in a queue or in a consumer's hands, or has been given to HandleEnvelop - exactly once. *)
From Coq Require Import List NArith ZArith Bool Lia Arith.
From Vivid Require Import Actor.Core Actor.CoreRun Actor.SpecMail Actor.ProofsMailBase Actor.ProofsMail Actor.ProofsMailInv Actor.ProofsMailWf.
Import ListNotations.

(** * [wf] is an invariant *)
Lemma wf_set_exts scs : forall s i, wf s -> wf (set_exts s i scs).
Proof.
  induction scs as [|sc r IH]; intros s i W; cbn [set_exts]; [exact W|].
  apply IH. apply wf_set_pend_TX; [exact W|apply forallb_map_IAct].
Qed.

Lemma wf_init scs : wf (init_with scs).
Proof.
  unfold init_with. apply wf_set_exts. split; cbn [init_state actors exts].
  - constructor; [left; reflexivity|constructor].
  - apply Forall_forall. intros ex Hin. apply repeat_spec in Hin. subst. reflexivity.
Qed.

Lemma wf_run evs : forall s, wf s -> err (run_events evs s) = false -> wf (run_events evs s).
Proof.
  induction evs as [|ev r IH]; intros s W He; [exact W|].
  change (run_events (ev :: r) s) with (run_events r (step s ev)) in *.
  apply IH; [|exact He]. apply step_wf_held; [exact W|]. exact (err_false_run_head r s ev He).
Qed.

Lemma reachable_wf s : reachable s -> wf s.
Proof. intros (scs & evs & -> & He). apply wf_run; [apply wf_init|exact He]. Qed.

(** * sums over actor indices *)
Fixpoint sum_upto (n : nat) (f : nat -> nat) : nat := match n with O => 0 | S k => sum_upto k f + f k end.

Lemma sum_upto_ext n f g : (forall b, b < n -> f b = g b) -> sum_upto n f = sum_upto n g.
Proof. induction n as [|n IH]; intros H; cbn [sum_upto]; [reflexivity|]. rewrite IH, H by auto. reflexivity. Qed.
Lemma sum_upto_add n f g : sum_upto n (fun b => f b + g b) = sum_upto n f + sum_upto n g.
Proof. induction n as [|n IH]; cbn [sum_upto]; [reflexivity|]. rewrite IH. lia. Qed.
Lemma sum_upto_shift n f : sum_upto (S n) f = f 0 + sum_upto n (fun b => f (S b)).
Proof. induction n as [|n IH]; [cbn; lia|]. change (sum_upto (S (S n)) f) with (sum_upto (S n) f + f (S n)). rewrite IH. cbn [sum_upto]. lia. Qed.
Lemma sum_upto_zero n f : (forall b, b < n -> f b = 0) -> sum_upto n f = 0.
Proof. induction n as [|n IH]; intros H; cbn [sum_upto]; [reflexivity|]. rewrite IH, H by auto. reflexivity. Qed.
Lemma sum_upto_delta n i v : i < n -> sum_upto n (fun b => if Nat.eqb i b then v else 0) = v.
Proof.
  induction n as [|n IH]; intros H; [lia|]. cbn [sum_upto]. destruct (Nat.eqb_spec i n) as [->|Hne].
  - rewrite sum_upto_zero; [lia|]. intros b Hb. destruct (Nat.eqb_spec n b); [lia|reflexivity].
  - rewrite IH by lia. lia.
Qed.

Lemma cnt_env_app P l1 l2 : cnt_env P (l1 ++ l2) = cnt_env P l1 + cnt_env P l2.
Proof. unfold cnt_env. rewrite filter_app, app_length. reflexivity. Qed.
Lemma cnt_env_one P e : cnt_env P [e] = b2n (P (e_msg e)).
Proof. unfold cnt_env. cbn [filter]. destruct (P (e_msg e)); reflexivity. Qed.

Definition inbox_nth (l : list actor) (b : nat) : list envelope := match nth_error l b with Some x => inbox x | None => [] end.

Lemma cnt_inbox_sum P l : forall n, length l <= n -> cnt_inbox P l = sum_upto n (fun b => cnt_env P (inbox_nth l b)).
Proof.
  induction l as [|x r IH]; intros n Hn.
  - cbn [cnt_inbox]. symmetry. apply sum_upto_zero. intros b _. unfold inbox_nth. destruct b; reflexivity.
  - destruct n as [|n]; [cbn in Hn; lia|]. rewrite sum_upto_shift. cbn [cnt_inbox]. f_equal.
    apply IH. cbn in Hn. lia.
Qed.

(** the envelopes of actor index b *)
Definition cntb (P : msg -> bool) (s : state) (b : aid) : nat := cnt_env P (sq_at s b ++ uq_at s b ++ held_at s b).

Lemma in_mail_sum P s n : length (actors s) <= n -> in_mail P s = sum_upto n (cntb P s).
Proof.
  intros Hn. unfold in_mail. rewrite (cnt_inbox_sum P _ n Hn). apply sum_upto_ext. intros b _.
  unfold cntb, inbox_nth, sq_at, uq_at, held_at, get. destruct (nth_error (actors s) b); reflexivity.
Qed.

(** * one event *)
Lemma cntb_step P s ev b :
  wf s -> err (step s ev) = false ->
  cntb P (step s ev) b + cnt_env P (handled_at s ev b) =
  cntb P s b + cnt_env P (pushed_to s ev b true) + cnt_env P (pushed_to s ev b false).
Proof.
  intros W He. destruct (step_wf_held s ev W He) as [_ Hh]. specialize (Hh b).
  pose proof (queue_step s ev b true He) as Hs. pose proof (queue_step s ev b false He) as Hu. cbn [q_at] in Hs, Hu.
  apply (f_equal (cnt_env P)) in Hh, Hs, Hu. repeat rewrite cnt_env_app in Hh. repeat rewrite cnt_env_app in Hs. repeat rewrite cnt_env_app in Hu.
  unfold cntb. rewrite !cnt_env_app. lia.
Qed.

Lemma handled_sum P s ev n :
  (forall a e, ev = EvHandle a -> handle_of s a = Some e -> a < n) ->
  sum_upto n (fun b => cnt_env P (handled_at s ev b)) = handles1 P s ev.
Proof.
  intros Hn. destruct ev; try (apply sum_upto_zero; intros; reflexivity).
  cbn [handles1 handled_at]. destruct (handle_of s a) as [e|] eqn:E.
  - rewrite <- (sum_upto_delta n a (b2n (P (e_msg e)))) by (eapply Hn; eauto).
    apply sum_upto_ext. intros b _. destruct (Nat.eqb a b); [apply cnt_env_one|reflexivity].
  - apply sum_upto_zero. intros b _. destruct (Nat.eqb a b); reflexivity.
Qed.

Lemma pushed_sum P s ev n :
  (forall t c tgt e, ev = EvPush t c -> push_of s t c = Some (tgt, e) -> tgt < n) ->
  sum_upto n (fun b => cnt_env P (pushed_to s ev b true) + cnt_env P (pushed_to s ev b false)) = pushes1 P s ev.
Proof.
  intros Hn. destruct ev; try (apply sum_upto_zero; intros; reflexivity).
  cbn [pushes1 pushed_to]. destruct (push_of s t choice) as [[tgt e]|] eqn:E.
  - rewrite <- (sum_upto_delta n tgt (b2n (P (e_msg e)))) by (eapply Hn; eauto).
    apply sum_upto_ext. intros b _. destruct (Nat.eqb tgt b); [|reflexivity]. cbn [andb].
    destruct (e_sys e); cbn [Bool.eqb]; rewrite cnt_env_one; cbn [cnt_env filter length]; lia.
  - apply sum_upto_zero. intros b _. reflexivity.
Qed.

Lemma in_mail_step P s ev :
  wf s -> err (step s ev) = false ->
  in_mail P (step s ev) + handles1 P s ev = in_mail P s + pushes1 P s ev.
Proof.
  intros W He.
  set (n := S (length (actors s) + length (actors (step s ev)) +
              match ev with EvHandle a => a | EvPush t c => match push_of s t c with Some (tgt, _) => tgt | None => 0 end | _ => 0 end)).
  rewrite (in_mail_sum P (step s ev) n) by (unfold n; lia). rewrite (in_mail_sum P s n) by (unfold n; lia).
  rewrite <- (handled_sum P s ev n), <- (pushed_sum P s ev n).
  - rewrite <- !sum_upto_add. apply sum_upto_ext. intros b _. pose proof (cntb_step P s ev b W He). lia.
  - intros t c tgt e -> Hpo. unfold n. rewrite Hpo. lia.
  - intros a e -> _. unfold n. lia.
Qed.

(** * a whole run *)
Lemma in_mail_run P evs : forall s,
  wf s -> err (run_events evs s) = false ->
  in_mail P (run_events evs s) + handles P evs s = in_mail P s + pushes P evs s.
Proof.
  induction evs as [|ev r IH]; intros s W He; [cbn; lia|].
  change (run_events (ev :: r) s) with (run_events r (step s ev)) in *. cbn [handles pushes].
  pose proof (err_false_run_head r s ev He) as He1.
  pose proof (in_mail_step P s ev W He1). destruct (step_wf_held s ev W He1) as [W1 _].
  pose proof (IH _ W1 He). lia.
Qed.

Lemma in_mail_init P scs : in_mail P (init_with scs) = 0.
Proof.
  unfold in_mail, init_with.
  assert (H : forall scs s i, actors (set_exts s i scs) = actors s).
  { clear. induction scs as [|sc r IH]; intros s i; cbn [set_exts]; [reflexivity|]. rewrite IH. apply set_pend_TX_actors. }
  rewrite H. reflexivity.
Qed.

Theorem conservation P scs evs :
  err (run_events evs (init_with scs)) = false ->
  pushes P evs (init_with scs) = in_mail P (run_events evs (init_with scs)) + handles P evs (init_with scs).
Proof.
  intros He. pose proof (in_mail_run P evs (init_with scs) (wf_init scs) He). rewrite in_mail_init in H. lia.
Qed.
