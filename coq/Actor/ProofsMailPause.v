(** C09: where a Pause comes from.  Together with [paused_step] (the flag is written only by the mailbox's own
    Pause / Resume words) this says: an actor's mailbox is paused only by Context.failed, by an escalating
    applyDecision, or by a CommandPauseMailbox it handles - and each of the first two is followed, in the same
    instruction list, by exactly one supervision report to the parent. *)
From Coq Require Import List NArith ZArith Bool Lia Arith.
From Vivid Require Import Actor.Core Actor.CoreRun Actor.SpecMail Actor.ProofsMailBase Actor.ProofsMail Actor.ProofsMailInv Actor.ProofsMailWf.
Import ListNotations.

Definition is_pause (i : instr) : bool := match i with IPauseSt => true | _ => false end.
Definition no_pause (l : list instr) : Prop := forallb (fun i => negb (is_pause i)) l = true.

Lemma no_pause_app l1 l2 : no_pause (l1 ++ l2) <-> no_pause l1 /\ no_pause l2.
Proof. unfold no_pause. rewrite forallb_app, andb_true_iff. tauto. Qed.
Lemma no_pause_map_IAct l : no_pause (map IAct l).
Proof. unfold no_pause. induction l; cbn; auto. Qed.
Lemma no_pause_flat_map {A} (f : A -> list instr) l : (forall a, no_pause (f a)) -> no_pause (flat_map f l).
Proof. intros H. induction l; cbn [flat_map]; [reflexivity|]. apply no_pause_app. auto. Qed.
Lemma no_pause_not_in l : no_pause l -> ~ In IPauseSt l.
Proof.
  unfold no_pause. intros H Hin. rewrite forallb_forall in H. specialize (H _ Hin). discriminate H.
Qed.

Definition pausing_instr (i : instr) : bool :=
  match i with
  | IFailed => true
  | ISupApply _ DEscalate _ | ISupApply _ DInvalid _ => true
  | _ => false
  end.

Lemma exec1_no_pause s t h i : pausing_instr i = false -> no_pause (snd (exec1 s t h i)).
Proof.
  intros Hi. unfold exec1. destruct (get s (self_of t)) as [x|]; [|reflexivity].
  destruct i; try discriminate Hi; cbn [snd]; try reflexivity.
  - destruct remaining; reflexivity.
  - destruct a; cbn [snd]; try reflexivity.
    + destruct (a_state x); cbn [snd]; try reflexivity;
        (destruct (negb (sp_prelaunch sp)); [reflexivity|]);
        (destruct (alookup (reg s) (a_path x ++ [sp_name sp])); reflexivity).
    + destruct (a_cur x); reflexivity.
    + destruct n as [n|].
      * destruct (Nat.eqb (length (a_stash x)) 0); [reflexivity|]. cbn [snd]. apply no_pause_flat_map. reflexivity.
      * destruct (a_stash x); reflexivity.
    + destruct (alookup (subscribers s ty) (a_path x)); reflexivity.
    + destruct (nlookup (subs s) ty); reflexivity.
  - destruct (a_zombie x); [reflexivity|]. destruct (a_parent x).
    + destruct (take_until_panic acts) as [pre pan]. cbn [snd]. apply no_pause_app. split; [apply no_pause_map_IAct|].
      destruct pan; [|reflexivity]. destruct r; try reflexivity. destruct (a_state x); try reflexivity.
      destruct (ref_eq s who (RObj (self_of t))); reflexivity.
    + destruct m; try reflexivity. destruct (ref_eq s who (RObj (self_of t))); reflexivity.
  - destruct (subscribers s ty); reflexivity.
  - destruct (a_children x); reflexivity.
  - destruct (a_zombie x); [reflexivity|]. destruct (ref_eq s who (RObj (self_of t))); reflexivity.
  - destruct (a_children x); [|reflexivity]. destruct (a_state x); try reflexivity. destruct (a_restarting x); reflexivity.
  - destruct (a_watchers x), (a_parent x); reflexivity.
  - destruct (a_hooks x) as [|[[h1 h2] h3] rest]; [reflexivity|]. destruct (h2 && h3); reflexivity.
  - destruct d; try discriminate Hi; cbn [snd];
      repeat first [apply no_pause_app; split | apply no_pause_flat_map; intros; reflexivity | reflexivity].
Qed.

Lemma exec1_pause_sites s t h i : In IPauseSt (snd (exec1 s t h i)) -> pausing_instr i = true.
Proof.
  intros Hin. destruct (pausing_instr i) eqn:E; [reflexivity|].
  exfalso. exact (no_pause_not_in _ (exec1_no_pause s t h i E) Hin).
Qed.

Lemma dispatch_pause_sites s a x e : In IPauseSt (snd (dispatch s a x e)) -> e_msg e = MCmdPause.
Proof.
  unfold dispatch.
  repeat match goal with
         | |- context[if ?c then _ else _] => destruct c
         | |- context[match ?c with _ => _ end] => destruct c eqn:?
         end; cbn [snd app In]; intros H;
  repeat match goal with H : _ \/ _ |- _ => destruct H as [H|H] end; try discriminate H; try contradiction; try reflexivity.
Qed.

Lemma paused_step_explicit s ev b :
  err (step s ev) = false ->
  paused_at (step s ev) b =
  match ev with
  | EvPauseSt t => if Nat.eqb (self_of t) b then true else paused_at s b
  | EvResume1 t => if Nat.eqb (self_of t) b then false else paused_at s b
  | _ => paused_at s b
  end.
Proof.
  intros He. rewrite (paused_step s ev b He). unfold pause_effect.
  destruct ev; try reflexivity; destruct (Nat.eqb (self_of t) b); reflexivity.
Qed.

Lemma exec1_pause_sites_explicit s t h i :
  In IPauseSt (snd (exec1 s t h i)) ->
  i = IFailed \/ exists c d targets, i = ISupApply c d targets /\ (d = DEscalate \/ d = DInvalid).
Proof.
  intros H. apply exec1_pause_sites in H. destruct i; try discriminate H; [left; reflexivity|].
  right. exists c, d, targets. split; [reflexivity|]. destruct d; try discriminate H; auto.
Qed.
