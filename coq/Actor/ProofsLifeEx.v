(** A deterministic scheduler (used only to build concrete runs) and the concrete runs used as
    witnesses / examples in Properties/C05.v and Properties/C06.v. *)
From Coq Require Import List NArith ZArith Bool.
From Vivid Require Import Base.Tm Actor.Core Actor.CoreRun Actor.SpecLife.
Import ListNotations.
Local Open Scope N_scope.

Definition thread_event (s : state) (t : tid) : option event :=
  match pend_of s t with
  | IEnqR _ _ _ _ :: _ | IEnqMb _ _ :: _ | IEnqAny _ _ _ _ :: _ | ISupPause _ _ (_ :: _) _ :: _ => Some (EvPush t 0)
  | IEnqDone :: _ => Some (EvEnqDone t)
  | IPauseSt :: _ => Some (EvPauseSt t)
  | IResume1 :: _ => Some (EvResume1 t)
  | IResume2 :: _ => Some (EvResume2 t)
  | _ => None
  end.

Definition actor_event (s : state) (a : aid) : option event :=
  match get s a with
  | None => None
  | Some x =>
    match a_cons x with
    | C0 => match a_sq x with
            | _ :: _ => Some (EvSysPop a)
            | [] => if a_paused x then None else match a_uq x with _ :: _ => Some (EvSysPop a) | [] => None end
            end
    | C1 => Some (EvSysPop a) | C2 => Some (EvLoadPaused a) | C3 => Some (EvUserPop a)
    | CH _ => Some (EvHandle a)
    | CBusy _ => thread_event s (TA a)
    end
  end.

Fixpoint first_some {A} (f : nat -> option A) (n : nat) (k : nat) : option A :=
  match n with O => None | S n' => match f k with Some e => Some e | None => first_some f n' (S k) end end.

(** external callers first (in index order), then the actors in index order *)
Definition next_event (s : state) : option event :=
  match first_some (fun i => thread_event s (TX i)) (length (exts s)) 0 with
  | Some e => Some e
  | None => first_some (actor_event s) (length (actors s)) 0
  end.

Fixpoint sched (n : nat) (s : state) : list event :=
  match n with
  | O => []
  | S n' => match next_event s with Some e => e :: sched n' (step s e) | None => [] end
  end.

Definition leaf (n : N) : spec := Spec n [] [] [] 0 [] true [] false.

(* ---------------- the spawn race (known finding C05-spawn-race-first-message) ---------------- *)

Definition race_scripts : list (list action) := [[ASpawn (leaf 1)]; [ATell (XPath [1]) 7 []]].
Definition race_events : list event :=
  [EvStart 0; EvStart 1; EvPush (TX 1) 0; EvEnqDone (TX 1); EvSysPop 1; EvLoadPaused 1; EvUserPop 1; EvHandle 1]%nat.

(* ---------------- a parent with two children is killed ---------------- *)

Definition tree_parent : spec := Spec 1 [ASpawn (leaf 1); ASpawn (leaf 2)] [] [] 0 [] true [] false.
Definition tree_scripts : list (list action) := [[ASpawn tree_parent; AKill (XHeld 0) false]].
Definition tree_events : list event := EvStart 0 :: sched 400 (step (init_with tree_scripts) (EvStart 0)).
Definition tree_final : state := run_events tree_events (init_with tree_scripts).

(* ---------------- a supervised restart ---------------- *)

Definition rs_child : spec := Spec 1 [] [] [] 0 [] true [(true, true, true)] true.
Definition rs_parent : spec := Spec 1 [ASpawn rs_child; ATell (XChild 1) 5 [ABecome 9 true; APanic]] [] [] 1 [DRestart] true [] false.
Definition rs_scripts : list (list action) := [[ASpawn rs_parent]].
Definition rs_events : list event := EvStart 0 :: sched 400 (step (init_with rs_scripts) (EvStart 0)).
Definition rs_final : state := run_events rs_events (init_with rs_scripts).

(** the same with a failing OnRestarted hook: the child becomes a zombie *)
Definition rz_child : spec := Spec 1 [] [] [] 0 [] true [(true, false, true)] true.
Definition rz_parent : spec := Spec 1 [ASpawn rz_child; ATell (XChild 1) 5 [APanic]] [] [] 1 [DRestart] true [] false.
Definition rz_scripts : list (list action) := [[ASpawn rz_parent]].
Definition rz_events : list event := EvStart 0 :: sched 400 (step (init_with rz_scripts) (EvStart 0)).
Definition rz_final : state := run_events rz_events (init_with rz_scripts).

Lemma first_is_launch_refuted :
  exists scs evs a m rest,
    let s := run_events evs (init_with scs) in
    err s = false /\ seen_of a (olog s) = m :: rest /\ m <> MLaunch.
Proof.
  exists race_scripts, race_events, 1%nat, (MUser 7 []), []. cbv zeta.
  split; [vm_compute; reflexivity|]. split; [vm_compute; reflexivity|discriminate].
Qed.
