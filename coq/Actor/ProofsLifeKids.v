(** Tree invariants of C06-c, part 2: a registered actor is in its parent's children map; hence when an actor is
    marked Killed all its children have been released (children first), and so has its whole subtree. *)
From Coq Require Import List NArith ZArith Bool Lia.
From Vivid Require Import Base.Tm Actor.Core Actor.CoreRun Actor.SpecLife Actor.ProofsLife Actor.ProofsLifeInv Actor.ProofsLifeSum
  Actor.ProofsLifePhase Actor.ProofsLifeGen Actor.ProofsLifeTree Actor.ProofsLifeReg Actor.ProofsLifeTaint Actor.ProofsLifeLog.
Import ListNotations.
Local Open Scope N_scope.
#[local] Strategy 100 [run_atomic FUEL].

(** every context but the root has an existing parent, and while it is registered it is in its parent's children map *)
Definition T1 (s : state) : Prop :=
  forall c xc p, c <> 0%nat -> get s c = Some xc -> a_parent xc = Some p ->
    exists xp, get s p = Some xp /\
      (alookup (reg s) (a_path xc) = Some c -> alookup (a_children xp) (a_path xc) = Some c).

Definition tview (x : actor) : path * option aid * list (path * aid) := (a_path x, a_parent x, a_children x).

Definition tsame (s s' : state) : Prop :=
  reg s' = reg s /\ forall b, option_map tview (get s' b) = option_map tview (get s b).

Lemma T1_tsame s s' : tsame s s' -> T1 s -> T1 s'.
Proof.
  intros (Hr & Hv) HT c yc p Hc0 Hc Hpar.
  pose proof (Hv c) as Vc. rewrite Hc in Vc. destruct (get s c) as [xc|] eqn:Hxc; [|discriminate Vc].
  cbn [option_map] in Vc. unfold tview in Vc. inversion Vc as [[V1 V2 V3]].
  destruct (HT c xc p Hc0 Hxc) as (xp & Hxp & Himp); [rewrite <- V2; exact Hpar|].
  pose proof (Hv p) as Vp. rewrite Hxp in Vp. destruct (get s' p) as [yp|] eqn:Hyp; [|discriminate Vp].
  cbn [option_map] in Vp. unfold tview in Vp. inversion Vp as [[W1 W2 W3]].
  exists yp. split; [reflexivity|]. intros Hreg. rewrite W3, V1. apply Himp. rewrite <- V1, <- Hr. exact Hreg.
Qed.

Lemma tsame_refl s : tsame s s. Proof. split; reflexivity. Qed.
Lemma tsame_trans s1 s2 s3 : tsame s1 s2 -> tsame s2 s3 -> tsame s1 s3.
Proof. intros (R1 & V1) (R2 & V2). split; [congruence|]. intros b. rewrite V2. apply V1. Qed.

Lemma tsame_mb s s' : mb_equiv s s' -> tsame s s'.
Proof.
  intros (Hm & _ & Hr & _). split; [exact Hr|]. intros b. specialize (Hm b).
  destruct (get s b) as [x|], (get s' b) as [y|]; try contradiction; [|reflexivity].
  cbn [option_map]. unfold tview. destruct Hm as (-> & _ & -> & _ & _ & _ & _ & -> & _). reflexivity.
Qed.

Lemma tsame_set_actor s a x y : get s a = Some x -> tview y = tview x -> tsame s (set_actor s a y).
Proof.
  intros Hg Hv. split; [reflexivity|]. intros b. destruct (Nat.eq_dec a b) as [<-|Hab].
  - rewrite (get_set_actor_same _ _ _ _ Hg), Hg. cbn [option_map]. rewrite Hv. reflexivity.
  - rewrite get_set_actor_other by exact Hab. reflexivity.
Qed.

Lemma tsame_set_pend s t p : tsame s (set_pend s t p).
Proof.
  destruct t as [a|k]; cbn [set_pend].
  - unfold with_actor. destruct (get s a) as [x|] eqn:Hg; [|split; [reflexivity|intros b; reflexivity]].
    apply (tsame_set_actor _ _ x); [exact Hg|reflexivity].
  - destruct (nth_error (exts s) k); split; try reflexivity; intros b; reflexivity.
Qed.

Lemma tsame_step_nonatomic s ev :
  (match ev with EvSysPop _ | EvLoadPaused _ | EvUserPop _ | EvPush _ _ => True | _ => False end) ->
  err (step s ev) = false -> tsame s (step s ev).
Proof.
  intros Hev Herr. destruct ev; try contradiction; cbn [step] in *.
  - destruct (get s a) as [x|] eqn:Hg; [|discriminate].
    destruct (a_cons x); try discriminate; destruct (a_sq x); try discriminate; apply (tsame_set_actor _ _ x); try exact Hg; reflexivity.
  - destruct (get s a) as [x|] eqn:Hg; [|discriminate].
    destruct (a_cons x); try discriminate; apply (tsame_set_actor _ _ x); try exact Hg; reflexivity.
  - destruct (get s a) as [x|] eqn:Hg; [|discriminate].
    destruct (a_cons x); try discriminate; destruct (a_uq x); try discriminate; apply (tsame_set_actor _ _ x); try exact Hg; reflexivity.
  - destruct (pend_of s t) as [|i rest] eqn:Hp; [discriminate|].
    destruct i; try discriminate.
    + destruct (deliver s to {| e_sys := sys; e_sender := sender; e_msg := m |}) as [s2 u] eqn:Hdl.
      pose proof (mb_equiv_deliver s to {| e_sys := sys; e_sender := sender; e_msg := m |}) as Hm. rewrite Hdl in Hm. cbn [fst] in Hm.
      apply (tsame_trans _ s2); [apply tsame_mb; exact Hm|apply tsame_set_pend].
    + apply (tsame_trans _ (push_mb s to e)); [apply tsame_mb, mb_equiv_push_mb|apply tsame_set_pend].
    + destruct (nth_error tos choice) as [to|]; [|discriminate].
      pose proof (mb_equiv_resolve s to) as Hm1. destruct (resolve s to) as [mb s1]. cbn [snd] in Hm1.
      destruct (deliver s1 mb {| e_sys := sys; e_sender := sender; e_msg := m |}) as [s2 u] eqn:Hdl.
      pose proof (mb_equiv_deliver s1 mb {| e_sys := sys; e_sender := sender; e_msg := m |}) as Hm2. rewrite Hdl in Hm2. cbn [fst] in Hm2.
      apply (tsame_trans _ s2); [apply tsame_mb; apply (mb_equiv_trans _ _ _ Hm1 Hm2)|apply tsame_set_pend].
    + destruct (nth_error remaining choice) as [to|]; [|discriminate].
      pose proof (mb_equiv_resolve s to) as Hm1. destruct (resolve s to) as [mb s1]. cbn [snd] in Hm1.
      destruct (deliver s1 mb {| e_sys := true; e_sender := RObj (self_of t); e_msg := MCmdPause |}) as [s2 u] eqn:Hdl.
      pose proof (mb_equiv_deliver s1 mb {| e_sys := true; e_sender := RObj (self_of t); e_msg := MCmdPause |}) as Hm2. rewrite Hdl in Hm2. cbn [fst] in Hm2.
      apply (tsame_trans _ s2); [apply tsame_mb; apply (mb_equiv_trans _ _ _ Hm1 Hm2)|apply tsame_set_pend].
Qed.

(** exec1 and the tree *)
Lemma T1_exec1 s t h i s' front x :
  T1 s -> exec1 s t h i = (s', front) -> get s (self_of t) = Some x ->
  (forall c xc, i = IOnKilled (RObj c) -> c <> 0%nat -> c <> self_of t -> get s c = Some xc ->
                alookup (reg s) (a_path xc) = Some c -> False) ->
  T1 s'.
Proof.
  intros HT He Hg Hkill.
  destruct (is_spawn i) eqn:Hsp.
  - destruct i as [| | | | | | | | |ac| | | | | | | | | | | |]; try discriminate Hsp. destruct ac; try discriminate Hsp.
    destruct (exec1_spawn_cases _ _ _ _ _ _ _ He Hg) as [(o & ->)|(Hnk & Hpl & Hr)].
    { apply (T1_tsame s); [split; [reflexivity|intros b; reflexivity]|exact HT]. }
    destruct (exec1_spawn_ok s t h sp x s' front Hg Hnk Hpl Hr He) as (Hlen & Hnew & Hoth & Hself & Hreg & Hlk & _).
    set (p0 := a_path x ++ [sp_name sp]) in *. set (cn := length (actors s)) in *.
    intros c yc p Hc0 Hc Hpar.
    destruct (Nat.eq_dec c cn) as [->|Hcn].
    + rewrite Hnew in Hc. inversion Hc; subst yc. cbn [new_actor a_path a_parent] in *. inversion Hpar; subst p.
      eexists. split; [exact Hself|]. intros _. cbn [set_children upd_local a_children]. apply alookup_aset_same.
    + assert (Hxc : exists xc, get s c = Some xc /\ a_path yc = a_path xc /\ a_parent yc = a_parent xc).
      { destruct (Nat.eq_dec c (self_of t)) as [->|Hcs].
        - rewrite Hself in Hc. inversion Hc; subst yc. exists x. repeat split; try reflexivity. exact Hg.
        - rewrite (Hoth c Hcs Hcn) in Hc. exists yc. repeat split; try reflexivity. exact Hc. }
      destruct Hxc as (xc & Hxc & Hpc & Hparc). rewrite Hparc in Hpar.
      destruct (HT c xc p Hc0 Hxc Hpar) as (xp & Hxp & Himp).
      assert (Hpn : p <> cn) by (pose proof (get_lt _ _ _ Hxp); unfold cn; lia).
      assert (Hregc : alookup (reg s') (a_path yc) = Some c -> alookup (reg s) (a_path xc) = Some c).
      { intros Hrc. rewrite Hreg, alookup_app, Hpc in Hrc. destruct (alookup (reg s) (a_path xc)) as [v|]; [exact Hrc|].
        cbn [alookup] in Hrc. destruct (path_eqb (a_path xc) p0); [|discriminate Hrc]. inversion Hrc. congruence. }
      destruct (Nat.eq_dec p (self_of t)) as [->|Hps].
      * rewrite Hg in Hxp. inversion Hxp; subst xp. eexists. split; [exact Hself|]. intros Hrc. specialize (Hregc Hrc).
        cbn [set_children upd_local a_children]. rewrite Hpc. rewrite alookup_aset_other; [apply Himp; exact Hregc|].
        destruct (path_eqb (a_path xc) p0) eqn:E; [|reflexivity]. apply path_eqb_eq in E. rewrite E in Hregc. unfold p0 in Hregc. congruence.
      * exists xp. split; [rewrite (Hoth p Hps Hpn); exact Hxp|]. intros Hrc. rewrite Hpc. apply Himp. apply Hregc. exact Hrc.
  - destruct (exec1_summary s t h i s' front x Hsp He Hg) as (x' & Ha & Hc & _ & _ & _ & _ & _ & Hch & _ & _ & _ & _ & Hrg & _).
    assert (Hget : forall b, get s' b = if Nat.eqb (self_of t) b then Some x' else get s b).
    { intros b. unfold get. rewrite Ha. destruct (Nat.eqb (self_of t) b) eqn:E.
      - apply Nat.eqb_eq in E. subst b. apply (nth_error_upd_same _ _ _ _ Hg).
      - apply Nat.eqb_neq in E. apply nth_error_upd_other. exact E. }
    destruct Hc as (Hpath & _ & Hparent & _).
    destruct (chg_children i) eqn:Hcc; [|destruct (chg_reg i) eqn:Hcr].
    + (* IOnKilled *)
      destruct i; try discriminate Hcc.
      destruct (a_zombie x) eqn:Hz.
      { rewrite (exec1_IOnKilled_zombie _ _ _ _ who Hg Hz) in He. inversion He; subst. exact HT. }
      destruct (ref_eq s who (RObj (self_of t))) eqn:Hre.
      { assert (He' : exec1 s t h (IOnKilled who) = (s, [ICheckMark])) by (unfold exec1; rewrite Hg, Hz, Hre; reflexivity).
        rewrite He' in He. inversion He; subst. exact HT. }
      destruct (exec1_IOnKilled_other _ _ h _ who Hg Hz Hre) as (x2 & He' & Hch2 & _).
      rewrite He' in He. injection He as Hs' Hfr.
      assert (Hx2 : x' = x2).
      { pose proof (Hget (self_of t)) as H0. rewrite Nat.eqb_refl in H0. rewrite <- Hs' in H0.
        rewrite (get_set_actor_same _ _ _ _ Hg) in H0. congruence. }
      subst x2. pose proof (Hrg eq_refl) as Hrg'.
      intros c yc p Hc0 Hcg Hpar.
      assert (Hxc : exists xc, get s c = Some xc /\ a_path yc = a_path xc /\ a_parent yc = a_parent xc).
      { rewrite Hget in Hcg. destruct (Nat.eqb (self_of t) c) eqn:E.
        - apply Nat.eqb_eq in E. subst c. inversion Hcg; subst yc. exists x. repeat split; auto.
        - exists yc. repeat split; auto. }
      destruct Hxc as (xc & Hxc & Hpc & Hparc). rewrite Hparc in Hpar.
      destruct (HT c xc p Hc0 Hxc Hpar) as (xp & Hxp & Himp).
      rewrite Hget. destruct (Nat.eqb (self_of t) p) eqn:E.
      * apply Nat.eqb_eq in E. subst p. rewrite Hg in Hxp. inversion Hxp; subst xp.
        eexists. split; [reflexivity|]. intros Hrc. rewrite Hrg' in Hrc. rewrite Hpc in *. specialize (Himp Hrc).
        destruct Hch2 as [->|(c0 & p0 & Hw & Hrp & Hl0 & ->)]; [exact Himp|].
        destruct (path_eqb (a_path xc) p0) eqn:Epp.
        -- exfalso. apply path_eqb_eq in Epp. subst p0. rewrite Himp in Hl0. inversion Hl0; subst c0.
           apply (Hkill c xc); try assumption; [congruence|].
           intros ->. subst who. rewrite (ref_eq_self _ _ _ Hg) in Hre. discriminate Hre.
        -- rewrite alookup_aremove_other by exact Epp. exact Himp.
      * exists xp. split; [exact Hxp|]. intros Hrc. rewrite Hrg' in Hrc. rewrite Hpc in *. apply Himp. exact Hrc.
    + (* ICleanup *)
      destruct i; try discriminate Hcr. rewrite (exec1_ICleanup _ _ _ _ Hg) in He. injection He as Hs' Hfr.
      intros c yc p Hc0 Hcg Hpar. rewrite <- Hs' in Hcg.
      change (get (set_reg (set_subs s (unsub_all (subs s) (a_path x))) (aremove (reg s) (a_path x))) c) with (get s c) in Hcg.
      destruct (HT c yc p Hc0 Hcg Hpar) as (xp & Hxp & Himp). exists xp. split; [rewrite <- Hs'; exact Hxp|].
      rewrite <- Hs'. cbn [reg set_reg set_subs]. intros Hrc. apply Himp. apply (alookup_aremove_Some _ _ _ _ Hrc).
    + (* everything else: the tree and the registry are untouched *)
      apply (T1_tsame s); [|exact HT]. split; [apply Hrg; reflexivity|].
      intros b. rewrite Hget. destruct (Nat.eqb (self_of t) b) eqn:E; [|reflexivity].
      apply Nat.eqb_eq in E. subst b. rewrite Hg. cbn [option_map]. unfold tview. rewrite Hpath, Hparent, (Hch eq_refl). reflexivity.
Qed.

(* ------------------------------------------------------------------ T2 and T1 together, all reachable states *)

Definition TT (s : state) : Prop := T2 s /\ T1 s.

Lemma T1_astep s t i rest :
  SInv s -> TT s -> err s = false -> pend_of s t = i :: rest -> yielding i = false ->
  (forall sys to sender m, i <> IEnq sys to sender m) -> err (astep s t i rest) = false -> T1 (astep s t i rest).
Proof.
  intros [HA HX] [HT2 HT1] He0 Hp Hy Hne He1. unfold astep in *.
  pose proof (T1_tsame _ _ (tsame_set_pend s t rest) HT1) as HT0.
  destruct (exec1 (set_pend s t rest) t (held_of (set_pend s t rest) t) i) as [s1 front] eqn:He.
  apply (T1_tsame s1); [apply tsame_set_pend|].
  destruct (get (set_pend s t rest) (self_of t)) as [x0|] eqn:Hg0.
  2:{ unfold exec1 in He. rewrite Hg0 in He. inversion He; subst s1. rewrite err_set_pend in He1 by reflexivity. discriminate He1. }
  apply (T1_exec1 _ _ _ _ _ _ _ HT0 He Hg0).
  intros c xc -> Hc0 Hcs Hgc Hrc.
  assert (Hlive : live s c).
  { apply (live_psame s (set_pend s t rest) c (psame_set_pend s t rest)). left. split; [exact Hc0|]. exists xc. split; assumption. }
  destruct (HT2 c Hlive) as (C1 & _).
  destruct t as [a|k].
  - destruct (pend_of_TA_cons _ _ _ _ Hp) as (x & Hg & Hpx). specialize (C1 a x Hg).
    unfold otaint in C1. cbn [self_of] in Hcs. destruct (Nat.eqb a c) eqn:E; [apply Nat.eqb_eq in E; congruence|].
    assert (taint c x = true).
    { apply taint_split. do 5 right. rewrite Hpx. cbn [existsb instr_mk]. rewrite Nat.eqb_refl. reflexivity. }
    congruence.
  - destruct (pend_of_TX_cons _ _ _ _ Hp) as (ex & Hn & Hpx).
    assert (Hs : sig (IOnKilled (RObj c)) = false) by (apply (HX k ex Hn); rewrite Hpx; left; reflexivity).
    discriminate Hs.
Qed.

Lemma set_exts_forall (P : instr -> Prop) :
  (forall a, P (IAct a)) ->
  forall scs s i, (forall k ex, nth_error (exts s) k = Some ex -> forall j, In j (x_pend ex) -> P j) ->
  forall k ex, nth_error (exts (set_exts s i scs)) k = Some ex -> forall j, In j (x_pend ex) -> P j.
Proof.
  intros HP. induction scs as [|sc scs IH]; intros s i HX; cbn [set_exts]; [exact HX|].
  apply IH. cbn [set_pend]. destruct (nth_error (exts s) i) as [ex|] eqn:Hn; [|exact HX].
  intros j exj Hj q Hq. unfold set_ext in Hj; cbn [exts] in Hj.
  destruct (Nat.eq_dec i j) as [<-|Hij].
  - rewrite (nth_error_upd_same _ _ _ _ Hn) in Hj. inversion Hj; subst exj. cbn [x_pend] in Hq.
    apply in_map_iff in Hq as (ac & <- & _). apply HP.
  - rewrite nth_error_upd_other in Hj by exact Hij. apply (HX j exj Hj q Hq).
Qed.

Lemma TT_reachable s : reachable s -> TT s.
Proof.
  apply (Q2_reachable TT).
  - intros s0 t i rest HI HQ He0 Hp Hy Hne He1. split; [apply T2_astep; try assumption; apply HQ|apply T1_astep; assumption].
  - intros s0 t sys to sender m rest HI [H2 H1] Hp. split; [apply T2_resolve; assumption|].
    apply (T1_tsame s0); [|exact H1].
    apply (tsame_trans _ (snd (resolve s0 to))); [apply tsame_mb, mb_equiv_resolve|apply tsame_set_pend].
  - intros s0 t choice HI [H2 H1] He. split; [apply T2_push; assumption|].
    apply (T1_tsame s0); [|exact H1]. apply tsame_step_nonatomic; [exact I|exact He].
  - intros s0 t i rest HI [H2 H1] Hp Hi. split; [apply (T2_pophead s0 t i rest HI H2 Hp Hi)|].
    apply (T1_tsame s0); [apply tsame_set_pend|exact H1].
  - intros s0 t rest HI [H2 H1] Hp. split; [apply T2_pause; assumption|].
    apply (T1_tsame s0); [|exact H1].
    match goal with |- tsame s0 (set_pend ?s1 t rest) => apply (tsame_trans _ s1); [|apply tsame_set_pend] end.
    apply tsame_mb. apply mb_equiv_with_actor. intros; repeat split.
  - intros s0 t rest x HI [H2 H1] Hp Hg. split; [apply T2_resume1p; assumption|].
    apply (T1_tsame s0); [|exact H1].
    match goal with |- tsame s0 (set_pend ?s1 t _) => apply (tsame_trans _ s1); [|apply tsame_set_pend] end.
    apply (tsame_set_actor _ _ x); [exact Hg|reflexivity].
  - intros s0 ev Hev HI [H2 H1] He. split; [apply T2_consumer; assumption|].
    apply (T1_tsame s0); [|exact H1]. apply tsame_step_nonatomic; [destruct ev; try contradiction; exact I|exact He].
  - intros s0 a x e s1 ins HI [H2 H1] He0 Hg Hc Hpx x0 Hd. split; [apply (T2_handle s0 a x e s1 ins HI H2 He0 Hg Hc Hpx Hd)|].
    apply (T1_tsame s0); [|exact H1].
    assert (Hg0 : get (set_actor s0 a x0) a = Some x0) by apply (get_set_actor_same _ _ _ _ Hg).
    destruct (dispatch_frame _ _ _ _ _ _ Hg0 Hd) as (y & Hact & _ & Hreg & _ & _ & _ & _ & Hpath & _ & Hpar & _ & _ & _ & _ & _ & _ & _ & _ & Hch & _).
    assert (Hg1 : get s1 a = Some y) by (unfold get; rewrite Hact; apply (nth_error_upd_same _ _ _ _ Hg0)).
    split.
    + cbn [set_pend]. unfold with_actor. rewrite Hg1. cbn [reg set_actor]. rewrite Hreg. reflexivity.
    + intros b. destruct (Nat.eq_dec a b) as [<-|Hab].
      * rewrite (get_set_pend_TA_same _ _ _ _ Hg1), Hg. cbn [option_map]. unfold tview. cbn [upd_pend a_path a_parent a_children].
        rewrite Hpath, Hpar, Hch. reflexivity.
      * rewrite get_set_pend_TA_other by exact Hab. unfold get. rewrite Hact. rewrite nth_error_upd_other by exact Hab.
        fold (get (set_actor s0 a x0) b). rewrite get_set_actor_other by exact Hab. reflexivity.
  - intros scs. unfold init_with. split.
    + intros c Hl. split.
      * intros q y Hy. unfold get in Hy. rewrite set_exts_actors in Hy. cbn [actors init_state] in Hy.
        destruct q as [|[|q]]; cbn [nth_error] in Hy; try discriminate. inversion Hy; subst y.
        unfold otaint. destruct (Nat.eqb 0 c); reflexivity.
      * intros k ex Hk. apply existsb_false_intro.
        apply (set_exts_forall (fun j => instr_mk c j = false) (fun _ => eq_refl) scs (init_state (length scs)) 0%nat) with (k := k); [|exact Hk].
        intros k0 ex0 Hn j Hj. cbn [exts init_state] in Hn. apply nth_error_In, repeat_spec in Hn. subst ex0. destruct Hj.
    + intros c xc p Hc0 Hc Hpar. unfold get in Hc. rewrite set_exts_actors in Hc. cbn [actors init_state] in Hc.
      destruct c as [|[|c]]; cbn [nth_error] in Hc; try discriminate. congruence.
Qed.

(* ------------------------------------------------------------------ registered, or released *)

Definition T3 (s : state) : Prop :=
  (forall c, c <> 0%nat -> (c < length (actors s))%nat -> isreg s c \/ rel c s) /\
  (forall p c, alookup (reg s) p = Some c -> p <> []) /\
  (forall x, get s 0%nat = Some x -> a_path x = []).

Lemma isreg_psame_fwd s s' c : psame s s' -> isreg s c -> isreg s' c.
Proof.
  intros (Hr & Hp) (x & Hx & Hl). specialize (Hp c). rewrite Hx in Hp.
  destruct (get s' c) as [y|] eqn:Hy; [|discriminate Hp]. cbn [option_map] in Hp. inversion Hp as [Hpp].
  exists y. split; [exact Hy|]. rewrite Hr, Hpp. exact Hl.
Qed.

Lemma length_psame s s' : psame s s' -> length (actors s') = length (actors s).
Proof.
  intros (_ & Hp). apply length_of_get. intros b. specialize (Hp b). destruct (get s b), (get s' b); try discriminate Hp; exact I.
Qed.

Lemma psame_mb s s' : mb_equiv s s' -> psame s s'.
Proof.
  intros (Hm & _ & Hr & _). split; [exact Hr|]. intros b. specialize (Hm b).
  destruct (get s b) as [x|], (get s' b) as [y|]; try contradiction; [|reflexivity].
  cbn [option_map]. destruct Hm as (-> & _). reflexivity.
Qed.

Lemma T3_keep s s' :
  psame s s' -> (forall c, rel c s -> rel c s') -> T3 s -> T3 s'.
Proof.
  intros Hps Hrel (H1 & H2 & H3). split; [|split].
  - intros c Hc0 Hlt. rewrite (length_psame _ _ Hps) in Hlt. destruct (H1 c Hc0 Hlt) as [H|H]; [left; apply (isreg_psame_fwd _ _ c Hps H)|right; apply Hrel; exact H].
  - destruct Hps as (-> & _). exact H2.
  - intros y Hy. destruct Hps as (_ & Hp). specialize (Hp 0%nat). rewrite Hy in Hp.
    destruct (get s 0) as [x|] eqn:Hx; [|discriminate Hp]. cbn [option_map] in Hp. inversion Hp as [Hpp]. rewrite Hpp. apply H3. reflexivity.
Qed.

Lemma isreg_exec1 s t h i s' front x c :
  exec1 s t h i = (s', front) -> get s (self_of t) = Some x -> isreg s c ->
  isreg s' c \/ (i = ICleanup /\ exists xc, get s c = Some xc /\ a_path xc = a_path x).
Proof.
  intros He Hg (xc & Hxc & Hl). destruct (is_spawn i) eqn:Hsp.
  - left. destruct i as [| | | | | | | | |ac| | | | | | | | | | | |]; try discriminate Hsp. destruct ac; try discriminate Hsp.
    destruct (exec1_spawn_cases _ _ _ _ _ _ _ He Hg) as [(o & ->)|(Hnk & Hpl & Hr)]; [exists xc; split; assumption|].
    destruct (exec1_spawn_ok s t h sp x s' front Hg Hnk Hpl Hr He) as (_ & _ & Hoth & Hself & Hreg & _).
    assert (Hcn : c <> length (actors s)) by (pose proof (get_lt _ _ _ Hxc); lia).
    destruct (Nat.eq_dec c (self_of t)) as [->|Hcs].
    + rewrite Hg in Hxc. inversion Hxc; subst xc. eexists. split; [exact Hself|]. cbn [set_children upd_local a_path].
      rewrite Hreg, alookup_app, Hl. reflexivity.
    + exists xc. split; [rewrite (Hoth c Hcs Hcn); exact Hxc|]. rewrite Hreg, alookup_app, Hl. reflexivity.
  - destruct (exec1_summary s t h i s' front x Hsp He Hg) as (x' & Ha & Hc & _ & _ & _ & _ & _ & _ & _ & _ & _ & _ & Hrg & _).
    assert (Hyc : exists yc, get s' c = Some yc /\ a_path yc = a_path xc).
    { unfold get. rewrite Ha. destruct (Nat.eq_dec (self_of t) c) as [<-|Hcs].
      - rewrite (nth_error_upd_same _ _ _ _ Hg). exists x'. split; [reflexivity|]. rewrite Hg in Hxc. inversion Hxc; subst xc. apply Hc.
      - rewrite nth_error_upd_other by exact Hcs. exists xc. split; [exact Hxc|reflexivity]. }
    destruct Hyc as (yc & Hyc & Hp).
    destruct (chg_reg i) eqn:Hcr.
    + destruct i; try discriminate Hcr. rewrite (exec1_ICleanup _ _ _ _ Hg) in He. injection He as Hs' _.
      destruct (path_eqb (a_path xc) (a_path x)) eqn:E.
      * right. split; [reflexivity|]. exists xc. split; [exact Hxc|]. apply path_eqb_eq. exact E.
      * left. exists yc. split; [exact Hyc|]. rewrite <- Hs'. cbn [reg set_reg set_subs]. rewrite Hp.
        rewrite alookup_aremove_other by exact E. exact Hl.
    + left. exists yc. split; [exact Hyc|]. rewrite (Hrg eq_refl), Hp. exact Hl.
Qed.

Lemma rel_after_cleanup a s rest :
  SInv s -> pend_of s (TA a) = ICleanup :: rest -> rel a (astep s (TA a) ICleanup rest).
Proof.
  intros HI Hp. destruct (pend_of_TA_cons _ _ _ _ Hp) as (x & Hg & Hpx).
  destruct (astep_TA s a ICleanup rest x Hg) as (s1 & front & x1 & Hex & Hg1 & Hp1 & ->).
  assert (Hg0 : get (set_actor s a (upd_pend x rest)) a = Some (upd_pend x rest)) by apply (get_set_actor_same _ _ _ _ Hg).
  exists (upd_pend x1 (front ++ rest)). split; [apply (get_set_actor_same _ _ _ _ Hg1)|].
  apply (proj2 (released_exec_self a _ x ICleanup rest [] s1 front x1 (proj1 HI a x Hg) Hpx eq_refl (fun _ _ _ _ => ltac:(discriminate)) Hg0 Hex Hg1) eq_refl).
Qed.

Lemma reg_exec1_nonempty s t h i s' front x :
  exec1 s t h i = (s', front) -> get s (self_of t) = Some x ->
  (forall p c, alookup (reg s) p = Some c -> p <> []) -> forall p c, alookup (reg s') p = Some c -> p <> [].
Proof.
  intros He Hg H p c Hl. destruct (is_spawn i) eqn:Hsp.
  - destruct i as [| | | | | | | | |ac| | | | | | | | | | | |]; try discriminate Hsp. destruct ac; try discriminate Hsp.
    destruct (exec1_spawn_cases _ _ _ _ _ _ _ He Hg) as [(o & ->)|(Hnk & Hpl & Hr)]; [apply (H p c Hl)|].
    destruct (exec1_spawn_ok s t h sp x s' front Hg Hnk Hpl Hr He) as (_ & _ & _ & _ & Hreg & _).
    rewrite Hreg, alookup_app in Hl. destruct (alookup (reg s) p) as [v|] eqn:E; [apply (H p v E)|].
    cbn [alookup] in Hl. destruct (path_eqb p (a_path x ++ [sp_name sp])) eqn:E2; [|discriminate Hl].
    apply path_eqb_eq in E2. subst p. intros Hn. apply app_eq_nil in Hn as [_ Hn]. discriminate Hn.
  - destruct (exec1_summary s t h i s' front x Hsp He Hg) as (x' & _ & _ & _ & _ & _ & _ & _ & _ & _ & _ & _ & _ & Hrg & _).
    destruct (chg_reg i) eqn:Hcr; [|rewrite (Hrg eq_refl) in Hl; apply (H p c Hl)].
    destruct i; try discriminate Hcr. rewrite (exec1_ICleanup _ _ _ _ Hg) in He. injection He as Hs' _. rewrite <- Hs' in Hl.
    cbn [reg set_reg set_subs] in Hl. apply (H p c (alookup_aremove_Some _ _ _ _ Hl)).
Qed.

Lemma T3_astep s t i rest :
  SInv s -> T3 s -> err s = false -> pend_of s t = i :: rest -> yielding i = false ->
  (forall sys to sender m, i <> IEnq sys to sender m) -> err (astep s t i rest) = false -> T3 (astep s t i rest).
Proof.
  intros HI (H1 & H2 & H3) He0 Hp Hy Hne He1. pose proof HI as [HA HX].
  pose proof (psame_set_pend s t rest) as Hps0.
  pose proof He1 as He1'. unfold astep in He1'.
  destruct (exec1 (set_pend s t rest) t (held_of (set_pend s t rest) t) i) as [s1 front] eqn:He.
  assert (Hfin : astep s t i rest = set_pend s1 t (front ++ pend_of s1 t)) by (unfold astep; rewrite He; reflexivity).
  pose proof (psame_set_pend s1 t (front ++ pend_of s1 t)) as Hps1.
  destruct (get (set_pend s t rest) (self_of t)) as [x0|] eqn:Hg0.
  2:{ unfold exec1 in He. rewrite Hg0 in He. inversion He; subst s1. rewrite err_set_pend in He1' by reflexivity. discriminate He1'. }
  split; [|split].
  - intros c Hc0 Hlt.
    destruct (Nat.lt_ge_cases c (length (actors s))) as [Hold|Hnew].
    + destruct (H1 c Hc0 Hold) as [Hreg|Hrel]; [|right; apply rel_astep; assumption].
      pose proof (isreg_psame_fwd _ _ c Hps0 Hreg) as Hreg0.
      destruct (isreg_exec1 _ _ _ _ _ _ _ c He Hg0 Hreg0) as [Hreg1|(-> & xc & Hxc & Hpath)].
      * left. rewrite Hfin. apply (isreg_psame_fwd _ _ c Hps1 Hreg1).
      * (* ICleanup of a context with the same path as the registered c: it is c itself *)
        destruct t as [a|k].
        2:{ destruct (pend_of_TX_cons _ _ _ _ Hp) as (ex & Hn & Hpx).
            assert (Hs : sig ICleanup = false) by (apply (HX k ex Hn); rewrite Hpx; left; reflexivity). discriminate Hs. }
        destruct (pend_of_TA_cons _ _ _ _ Hp) as (x & Hg & Hpx).
        assert (Hx0 : x0 = upd_pend x rest) by (cbn [self_of] in Hg0; rewrite (get_set_pend_TA_same _ _ _ _ Hg) in Hg0; congruence).
        destruct (Nat.eq_dec c a) as [->|Hca]; [right; apply rel_after_cleanup; assumption|]. exfalso.
        assert (Hxc' : exists xc', get s c = Some xc' /\ a_path xc' = a_path x).
        { rewrite get_set_pend_TA_other in Hxc by (intros E; apply Hca; symmetry; exact E). exists xc. split; [exact Hxc|]. rewrite Hpath, Hx0. reflexivity. }
        destruct Hxc' as (xc' & Hxc' & Hpath'). destruct Hreg as (xr & Hxr & Hlr). rewrite Hxc' in Hxr. inversion Hxr; subst xr.
        destruct (Nat.eq_dec a 0) as [->|Ha0].
        -- (* the root's path is [] (it is never registered); c's path is registered, hence not [] *)
           apply (H2 _ _ Hlr). rewrite Hpath'. apply H3. exact Hg.
        -- destruct (H1 a Ha0 (get_lt _ _ _ Hg)) as [(xa & Hxa & Hla)|(xa & Hxa & Hra)].
           ++ rewrite Hg in Hxa. inversion Hxa; subst xa. rewrite <- Hpath' in Hla. congruence.
           ++ rewrite Hg in Hxa. inversion Hxa; subst xa. destruct Hra as (_ & R2 & _). rewrite Hpx in R2. discriminate R2.
    + (* a context created by this very step: registered *)
      left. rewrite Hfin. apply (isreg_psame_fwd _ _ c Hps1).
      assert (Hl0 : length (actors (set_pend s t rest)) = length (actors s)) by apply (length_psame _ _ Hps0).
      assert (Hlen1 : length (actors (set_pend s1 t (front ++ pend_of s1 t))) = length (actors s1)) by apply (length_psame _ _ Hps1).
      rewrite Hfin, Hlen1 in Hlt.
      destruct (is_spawn i) eqn:Hsp.
      * destruct i as [| | | | | | | | |ac| | | | | | | | | | | |]; try discriminate Hsp. destruct ac; try discriminate Hsp.
        destruct (exec1_spawn_cases _ _ _ _ _ _ _ He Hg0) as [(o & ->)|(Hnk & Hpl & Hr)]; [cbn [actors add_obs] in Hlt; lia|].
        destruct (exec1_spawn_ok _ t _ sp x0 s1 front Hg0 Hnk Hpl Hr He) as (Hlen & Hnewa & _ & _ & _ & Hlk & _).
        assert (c = length (actors (set_pend s t rest))) by lia. subst c.
        eexists. split; [exact Hnewa|]. cbn [new_actor a_path]. exact Hlk.
      * destruct (exec1_summary _ t _ i s1 front x0 Hsp He Hg0) as (x' & Ha & _). rewrite Ha, length_upd in Hlt. lia.
  - rewrite Hfin. destruct Hps1 as (-> & _). apply (reg_exec1_nonempty _ _ _ _ _ _ _ He Hg0). destruct Hps0 as (-> & _). exact H2.
  - intros y Hyy. rewrite Hfin in Hyy. destruct Hps1 as (_ & Hp1). specialize (Hp1 0%nat). rewrite Hyy in Hp1.
    destruct (get s1 0) as [y1|] eqn:Hy1; [|discriminate Hp1]. cbn [option_map] in Hp1. inversion Hp1 as [Hpp1]. rewrite Hpp1.
    destruct (get s 0) as [xr|] eqn:Hxr.
    2:{ exfalso. pose proof (get_lt _ _ _ Hy1) as Hl1. unfold get in Hxr. apply nth_error_None in Hxr.
        pose proof (get_lt _ _ _ Hg0) as Hl0. rewrite (length_psame _ _ Hps0) in Hl0. lia. }
    assert (Hxr0 : exists x00, get (set_pend s t rest) 0%nat = Some x00 /\ a_path x00 = []).
    { destruct Hps0 as (_ & Hp0). specialize (Hp0 0%nat). rewrite Hxr in Hp0.
      destruct (get (set_pend s t rest) 0) as [x00|]; [|discriminate Hp0]. cbn [option_map] in Hp0. inversion Hp0 as [Hpp0].
      exists x00. split; [reflexivity|]. rewrite Hpp0. apply H3. reflexivity. }
    destruct Hxr0 as (x00 & Hx00 & Hp00).
    destruct (Nat.eq_dec (self_of t) 0) as [Hs0|Hs0].
    + rewrite Hs0 in *. rewrite Hg0 in Hx00. inversion Hx00; subst x00.
      destruct (exec1_self _ _ _ _ _ _ _ He ltac:(rewrite Hs0; exact Hg0)) as (x1' & Hg1' & Hc' & _).
      rewrite Hs0 in Hg1'. rewrite Hy1 in Hg1'. inversion Hg1'; subst x1'. destruct Hc' as (-> & _). exact Hp00.
    + rewrite <- Hp00. f_equal. apply (f_equal Some) in Hp00.
      pose proof (exec1_keeps _ _ _ _ _ _ 0%nat x00 He (fun E => Hs0 (eq_sym E)) Hx00) as Hk. congruence.
Qed.

Theorem T3_reachable s : reachable s -> T3 s.
Proof.
  apply (Q_reachable T3).
  - intros s0 s' Hm. apply T3_keep; [apply psame_mb; exact Hm|]. intros c. apply rel_mb. exact Hm.
  - intros s0 t i rest front HI HT Hp Hs Hf. apply (T3_keep s0); [apply psame_set_pend| |exact HT].
    intros c Hr. apply (rel_pop c s0 t i rest front HI Hr Hp Hs Hf).
  - apply T3_astep.
  - intros s0 a x sq uq pa co cu HI HT Hg Hb Hpx Hco Hcu. apply (T3_keep s0); [apply (psame_set_actor _ _ x); [exact Hg|reflexivity]| |exact HT].
    intros c Hr. apply (rel_cons c s0 a x sq uq pa co cu HI Hr Hg Hb Hpx Hco Hcu).
  - intros s0 a x e s1 ins HI HT He0 Hg Hc Hpx x0 Hd. apply (T3_keep s0); [| |exact HT].
    + assert (Hg0 : get (set_actor s0 a x0) a = Some x0) by apply (get_set_actor_same _ _ _ _ Hg).
      destruct (dispatch_frame _ _ _ _ _ _ Hg0 Hd) as (y & Hact & _ & Hreg & _ & _ & _ & _ & Hpath & _).
      assert (Hg1 : get s1 a = Some y) by (unfold get; rewrite Hact; apply (nth_error_upd_same _ _ _ _ Hg0)).
      split.
      * cbn [set_pend]. unfold with_actor. rewrite Hg1. cbn [reg set_actor]. rewrite Hreg. reflexivity.
      * intros b. destruct (Nat.eq_dec a b) as [<-|Hab].
        -- rewrite (get_set_pend_TA_same _ _ _ _ Hg1), Hg. cbn [option_map upd_pend a_path]. rewrite Hpath. reflexivity.
        -- rewrite get_set_pend_TA_other by exact Hab. unfold get. rewrite Hact. rewrite nth_error_upd_other by exact Hab.
           fold (get (set_actor s0 a x0) b). rewrite get_set_actor_other by exact Hab. reflexivity.
    + intros c Hr. apply (rel_handle c s0 a x e s1 ins HI Hr He0 Hg Hc Hpx Hd).
  - intros scs. unfold init_with. split; [|split].
    + intros c Hc0 Hlt. rewrite set_exts_actors in Hlt. cbn [actors init_state length] in Hlt. lia.
    + intros p c Hl. assert (Hr : forall scs0 i s1, reg (set_exts s1 i scs0) = reg s1).
      { induction scs0 as [|sc scs0 IH]; intros i s1; [reflexivity|]. cbn [set_exts]. rewrite IH.
        cbn [set_pend]. destruct (nth_error (exts s1) i); reflexivity. }
      rewrite Hr in Hl. discriminate Hl.
    + intros x Hx. unfold get in Hx. rewrite set_exts_actors in Hx. cbn [actors init_state nth_error] in Hx. inversion Hx. reflexivity.
Qed.

(* ------------------------------------------------------------------ children first, the whole subtree *)

Lemma reachable_parent s c xc : reachable s -> get s c = Some xc -> a_parent xc <> None -> c <> 0%nat.
Proof. intros Hr Hc Hp ->. apply Hp. apply (proj1 (parent_inv s 0%nat xc Hr Hc)). reflexivity. Qed.

(** C06-c: when actor p has been marked Killed, every context whose parent is p has been released
    (it is Killed, not a zombie waiting, its cleanup has run) and is not registered any more: children first *)
Theorem children_first s p xp c xc :
  reachable s -> get s p = Some xp -> a_state xp = Killed ->
  get s c = Some xc -> a_parent xc = Some p ->
  released xc /\ alookup (reg s) (a_path xc) <> Some c.
Proof.
  intros Hr Hp Hk Hc Hpar.
  assert (Hc0 : c <> 0%nat) by (apply (reachable_parent s c xc Hr Hc); congruence).
  destruct (TT_reachable s Hr) as (_ & HT1). destruct (T3_reachable s Hr) as (HT3 & _).
  assert (Hnr : alookup (reg s) (a_path xc) <> Some c).
  { intros Hreg. destruct (HT1 c xc p Hc0 Hc Hpar) as (xp' & Hxp' & Himp). rewrite Hp in Hxp'. inversion Hxp'; subst xp'.
    specialize (Himp Hreg). rewrite (killed_no_children s p xp Hr Hp Hk) in Himp. discriminate Himp. }
  split; [|exact Hnr].
  destruct (HT3 c Hc0 (get_lt _ _ _ Hc)) as [(x' & Hx' & Hl)|(x' & Hx' & Hrel)].
  - rewrite Hc in Hx'. inversion Hx'; subst x'. contradiction.
  - rewrite Hc in Hx'. inversion Hx'; subst x'. exact Hrel.
Qed.

(** descendants: [c] is below [p] in the parent relation *)
Inductive below (s : state) (p : aid) : aid -> Prop :=
| below_child c xc : get s c = Some xc -> a_parent xc = Some p -> below s p c
| below_step c d xd : below s p c -> get s d = Some xd -> a_parent xd = Some c -> below s p d.

(** the whole subtree: when p is Killed every descendant is released and unregistered *)
Theorem subtree_terminated s p xp d :
  reachable s -> get s p = Some xp -> a_state xp = Killed -> below s p d ->
  exists xd, get s d = Some xd /\ released xd /\ alookup (reg s) (a_path xd) <> Some d.
Proof.
  intros Hr Hp Hk Hb. induction Hb as [c xc Hc Hpar|c d xd Hb IH Hd Hpar].
  - exists xc. split; [exact Hc|]. apply (children_first s p xp c xc Hr Hp Hk Hc Hpar).
  - destruct IH as (xc & Hc & (Hkc & _) & _). exists xd. split; [exact Hd|].
    apply (children_first s c xc d xd Hr Hc Hkc Hd Hpar).
Qed.

(** a registered actor is in its parent's children map (the parent exists) *)
Theorem registered_in_parent s c xc p :
  reachable s -> get s c = Some xc -> a_parent xc = Some p -> alookup (reg s) (a_path xc) = Some c ->
  exists xp, get s p = Some xp /\ alookup (a_children xp) (a_path xc) = Some c.
Proof.
  intros Hr Hc Hpar Hreg.
  assert (Hc0 : c <> 0%nat) by (apply (reachable_parent s c xc Hr Hc); congruence).
  destruct (TT_reachable s Hr) as (_ & HT1). destruct (HT1 c xc p Hc0 Hc Hpar) as (xp & Hxp & Himp). exists xp. auto.
Qed.

(** every context but the root is registered or released *)
Theorem registered_or_released s c xc :
  reachable s -> get s c = Some xc -> c <> 0%nat -> alookup (reg s) (a_path xc) = Some c \/ released xc.
Proof.
  intros Hr Hc Hc0. destruct (T3_reachable s Hr) as (HT3 & _).
  destruct (HT3 c Hc0 (get_lt _ _ _ Hc)) as [(x' & Hx' & Hl)|(x' & Hx' & Hrel)]; rewrite Hc in Hx'; inversion Hx'; subst x'; auto.
Qed.

(** an OnKilled naming a registered actor is nowhere outside that actor's own context *)
Theorem no_early_killed_notice s c xc q y :
  reachable s -> c <> 0%nat -> get s c = Some xc -> alookup (reg s) (a_path xc) = Some c ->
  get s q = Some y -> q <> c -> taint c y = false.
Proof.
  intros Hr Hc0 Hc Hreg Hq Hqc. destruct (TT_reachable s Hr) as (HT2 & _).
  destruct (HT2 c) as (C1 & _); [left; split; [exact Hc0|]; exists xc; auto|].
  specialize (C1 q y Hq). unfold otaint in C1. destruct (Nat.eqb q c) eqn:E; [apply Nat.eqb_eq in E; congruence|exact C1].
Qed.
