(** Micro-steps, second level: the atomic loop resolves a tell (findMailbox) right after the instruction that issued
    it, without any other thread in between.  [mstep2] groups "one atomic instruction" with the resolution of a tell
    that it leaves at the head of the list.  Every [mstep2] is one or two [mstep]s, so every invariant of [mstep]
    is an invariant of [mstep2]; and every event is a sequence of [mstep2]s. *)
From Coq Require Import List NArith ZArith Bool Lia Arith.
From Vivid Require Import Actor.Core Actor.CoreRun Actor.SpecMail Actor.ProofsMailBase Actor.ProofsMail Actor.ProofsMailInv
  Actor.ProofsMailMicro.
Import ListNotations.

Definition head_is_enq (s : state) (t : tid) : bool := match pend_of s t with IEnq _ _ _ _ :: _ => true | _ => false end.

Definition mstep2 (s : state) (m : micro) : state :=
  match m with
  | MAtomic t => let s1 := mstep s (MAtomic t) in if head_is_enq s1 t then mstep s1 (MAtomic t) else s1
  | _ => mstep s m
  end.
Definition mrun2 (ms : list micro) (s : state) : state := fold_left mstep2 ms s.

Lemma pend_of_set_pend_ok s t p : err (set_pend s t p) = false -> pend_of (set_pend s t p) t = p.
Proof.
  destruct t as [a|j]; intros He.
  - destruct (get s a) as [x|] eqn:E.
    + rewrite (set_pend_TA _ _ _ _ E) in *. cbn [pend_of]. rewrite (get_set_same' _ _ _ _ E). reflexivity.
    + rewrite (set_pend_TA_none _ _ _ E) in He. discriminate He.
  - cbn [set_pend] in *. destruct (nth_error (exts s) j) as [ex|] eqn:E; [|discriminate He].
    cbn [pend_of set_ext exts]. rewrite nth_upd_eq by (eapply nth_error_lt; exact E). reflexivity.
Qed.

(** an invariant of [mstep] is an invariant of [mstep2] *)
Lemma mstep2_inv (J : state -> Prop) : (forall s m, J s -> J (mstep s m)) -> forall s m, J s -> J (mstep2 s m).
Proof.
  intros H s m Hs. destruct m; try (apply H; exact Hs). cbn [mstep2]. cbv zeta.
  destruct (head_is_enq (mstep s (MAtomic t)) t); [apply H, H; exact Hs|apply H; exact Hs].
Qed.

Lemma err_mono_mstep2 s m : err s = true -> err (mstep2 s m) = true.
Proof. revert s. change (forall s, (fun s0 => err s0 = true) s -> (fun s0 => err s0 = true) (mstep2 s m)). intros s. apply mstep2_inv. intros s0 m0. apply err_mono_mstep. Qed.
Lemma err_mono_mrun2 ms : forall s, err s = true -> err (mrun2 ms s) = true.
Proof. induction ms as [|m ms IH]; intros s H; [exact H|]. apply IH, err_mono_mstep2, H. Qed.

(** the atomic loop as a sequence of [mstep2]s *)
Lemma run_atomic_micro2 t : forall f s, err (run_atomic f s t) = false -> exists n, run_atomic f s t = mrun2 (repeat (MAtomic t) n) s.
Proof.
  induction f as [|f IH]; intros s He; [discriminate He|].
  destruct (pend_of s t) as [|i rest] eqn:Hp; [exists 0; rewrite (run_atomic_nil _ _ _ Hp); reflexivity|].
  destruct (is_enq i) eqn:Hq.
  - destruct i; try discriminate Hq. exists 1. rewrite (run_atomic_enq' _ _ _ _ _ _ _ _ Hp).
    cbn [repeat mrun2 fold_left mstep2]. cbv zeta. cbn [mstep]. rewrite Hp.
    rewrite (run_atomic_enq' _ _ _ _ _ _ _ _ Hp) in He.
    assert (Hh : head_is_enq (set_pend (snd (resolve s to)) t (IEnqR sys (fst (resolve s to)) sender m :: rest)) t = false).
    { unfold head_is_enq. rewrite (pend_of_set_pend_ok _ _ _ He). reflexivity. }
    rewrite Hh. reflexivity.
  - destruct (yielding i) eqn:Hy.
    + exists 0. rewrite (run_atomic_yield _ _ _ _ _ Hp Hy). reflexivity.
    + rewrite (run_atomic_exec _ _ _ _ _ Hp Hy Hq) in *. cbv zeta in *.
      assert (E : (let (s1, front) := exec1 (set_pend s t rest) t (held_of (set_pend s t rest) t) i in
                   run_atomic f (set_pend s1 t (front ++ pend_of s1 t)) t) = run_atomic f (astep s t i rest) t).
      { unfold astep. destruct (exec1 _ _ _ _). reflexivity. }
      rewrite E in *.
      assert (Em : mstep s (MAtomic t) = astep s t i rest) by (apply mstep_atomic_exec; assumption).
      destruct (head_is_enq (astep s t i rest) t) eqn:Hh.
      * (* the next iteration resolves the tell and the loop stops *)
        unfold head_is_enq in Hh. destruct (pend_of (astep s t i rest) t) as [|i2 rest2] eqn:Hp2; [discriminate Hh|].
        destruct i2; try discriminate Hh.
        destruct f as [|f']; [discriminate He|]. rewrite (run_atomic_enq' _ _ _ _ _ _ _ _ Hp2) in *.
        exists 1. cbn [repeat mrun2 fold_left mstep2]. cbv zeta. rewrite Em. unfold head_is_enq. rewrite Hp2. cbn [mstep]. rewrite Hp2. reflexivity.
      * destruct (IH _ He) as [n Hn]. exists (S n). rewrite Hn. cbn [repeat mrun2 fold_left mstep2]. cbv zeta. rewrite Em, Hh. reflexivity.
Qed.

Lemma step_micro2 s ev : err (step s ev) = false -> exists ms, step s ev = mrun2 ms s.
Proof.
  intros He. destruct ev.
  - exists [MSysPop a]. reflexivity.
  - exists [MLoadPaused a]. reflexivity.
  - exists [MUserPop a]. reflexivity.
  - cbn [step] in *. destruct (get s a) as [x|] eqn:Hg; [|discriminate He].
    destruct (a_cons x) eqn:Hc; try discriminate He. cbv zeta in *. fold (busy x) in *.
    destruct (dispatch (set_actor s a (busy x)) a (busy x) e) as [s1 ins] eqn:Hd.
    destruct (run_atomic_micro2 _ _ _ He) as [n Hn]. exists (MHandle a :: repeat (MAtomic (TA a)) n).
    rewrite Hn. cbn [mrun2 fold_left mstep2 mstep]. rewrite Hg, Hc, Hd. reflexivity.
  - exists [MPush t choice]. reflexivity.
  - cbn [step] in *. destruct (pend_of s t) as [|i rest] eqn:Hp; [discriminate He|]. destruct i; try discriminate He.
    destruct (run_atomic_micro2 _ _ _ He) as [n Hn]. exists (MEnqDone t :: repeat (MAtomic t) n).
    rewrite Hn. cbn [mrun2 fold_left mstep2 mstep]. rewrite Hp. reflexivity.
  - cbn [step] in *. destruct (pend_of s t) as [|i rest] eqn:Hp; [discriminate He|]. destruct i; try discriminate He.
    destruct (run_atomic_micro2 _ _ _ He) as [n Hn]. exists (MPauseSt t :: repeat (MAtomic t) n).
    rewrite Hn. cbn [mrun2 fold_left mstep2 mstep]. rewrite Hp. reflexivity.
  - cbn [step] in *. destruct (pend_of s t) as [|i rest] eqn:Hp; [discriminate He|]. destruct i; try discriminate He.
    destruct (get s (self_of t)) as [x|] eqn:Hg; [|discriminate He]. destruct (a_paused x) eqn:Hpa.
    + exists [MResume1 t]. cbn [mrun2 fold_left mstep2 mstep]. rewrite Hp, Hg, Hpa. reflexivity.
    + destruct (run_atomic_micro2 _ _ _ He) as [n Hn]. exists (MResume1 t :: repeat (MAtomic t) n).
      rewrite Hn. cbn [mrun2 fold_left mstep2 mstep]. rewrite Hp, Hg, Hpa. reflexivity.
  - cbn [step] in *. destruct (pend_of s t) as [|i rest] eqn:Hp; [discriminate He|]. destruct i; try discriminate He.
    destruct (run_atomic_micro2 _ _ _ He) as [n Hn]. exists (MResume2 t :: repeat (MAtomic t) n).
    rewrite Hn. cbn [mrun2 fold_left mstep2 mstep]. rewrite Hp. reflexivity.
  - cbn [step] in *. destruct (run_atomic_micro2 _ _ _ He) as [n Hn]. exists (repeat (MAtomic (TX i)) n). exact Hn.
Qed.

(** invariant principle for [mstep2]: [J] is an [mstep]-invariant used as auxiliary *)
Theorem micro2_invariant_err (J I : state -> Prop) :
  (forall scs, J (init_with scs)) -> (forall s m, J s -> J (mstep s m)) ->
  (forall scs, I (init_with scs)) ->
  (forall s m, J s -> I s -> err (mstep2 s m) = false -> I (mstep2 s m)) ->
  forall s, reachable s -> J s /\ I s.
Proof.
  intros HJ0 HJ HI0 HI s (scs & evs & -> & He).
  pose proof (mstep2_inv J HJ) as HJ2.
  assert (Hm : forall ms s0, J s0 -> I s0 -> err (mrun2 ms s0) = false -> J (mrun2 ms s0) /\ I (mrun2 ms s0)).
  { induction ms as [|m ms IH]; intros s0 J0 I0 E0; [split; assumption|]. change (mrun2 (m :: ms) s0) with (mrun2 ms (mstep2 s0 m)) in *.
    assert (Em : err (mstep2 s0 m) = false) by (destruct (err (mstep2 s0 m)) eqn:E; [rewrite (err_mono_mrun2 ms _ E) in E0; discriminate|reflexivity]).
    apply IH; [apply HJ2; exact J0|apply HI; assumption|exact E0]. }
  assert (Hrun : forall evs s0, J s0 -> I s0 -> err (run_events evs s0) = false -> J (run_events evs s0) /\ I (run_events evs s0)).
  { clear He evs. induction evs as [|ev r IH]; intros s0 J0 I0 E0; [split; assumption|].
    change (run_events (ev :: r) s0) with (run_events r (step s0 ev)) in *.
    pose proof (err_false_run_head r s0 ev E0) as E1. destruct (step_micro2 s0 ev E1) as [ms Hms].
    rewrite Hms in *. destruct (Hm ms s0 J0 I0 E1) as [J1 I1]. apply IH; assumption. }
  apply (Hrun evs (init_with scs) (HJ0 scs) (HI0 scs) He).
Qed.
