(** C03-a: the registry and the reference caches only ever name an actor that was created under that very path:
    an envelope is never routed to an actor of a different path. *)
From Coq Require Import List NArith ZArith Bool Lia Arith.
From Vivid Require Import Actor.Core Actor.CoreRun Actor.SpecMail Actor.ProofsMailBase Actor.ProofsMail Actor.ProofsMailInv Actor.ProofsMailWf Actor.ProofsMailAcct.
Import ListNotations.

Definition reg_ok (s : state) : Prop :=
  forall p y, alookup (reg s) p = Some y -> exists xy, get s y = Some xy /\ a_path xy = p.
Definition cache_ok (s : state) : Prop :=
  forall a x y, get s a = Some x -> a_cache x = Some y -> exists xy, get s y = Some xy /\ a_path xy = a_path x.
Definition route_ok (s : state) : Prop := reg_ok s /\ cache_ok s.

(** * association lists *)
Lemma path_eqb_eq p q : path_eqb p q = true -> p = q.
Proof.
  revert q. induction p as [|x p IH]; intros [|y q] H; cbn [path_eqb] in H; try discriminate; [reflexivity|].
  apply andb_true_iff in H. destruct H as [H1 H2]. apply N.eqb_eq in H1. subst. f_equal. auto.
Qed.

Lemma alookup_aremove {A} (l : list (path * A)) p q v : alookup (aremove l p) q = Some v -> alookup l q = Some v.
Proof.
  induction l as [|[r w] l IH]; cbn [aremove alookup]; [discriminate|].
  destruct (path_eqb p r) eqn:E1.
  - intros H. specialize (IH H). destruct (path_eqb q r) eqn:E2; [|exact IH].
    (* q = r = p, but p was removed from the rest: contradiction is not needed, IH gives the value in the rest only *)
    apply path_eqb_eq in E1. apply path_eqb_eq in E2. subst.
    exfalso. clear IH. revert H. induction l as [|[r' w'] l IH']; cbn [aremove alookup]; [discriminate|].
    destruct (path_eqb r r') eqn:E3; [exact IH'|]. cbn [alookup]. rewrite E3. exact IH'.
  - cbn [alookup]. destruct (path_eqb q r); [auto|exact IH].
Qed.

Lemma alookup_app_one {A} (l : list (path * A)) p c q v :
  alookup (l ++ [(p, c)]) q = Some v -> alookup l q = Some v \/ (q = p /\ v = c).
Proof.
  induction l as [|[r w] l IH]; cbn [app alookup].
  - destruct (path_eqb q p) eqn:E; [|discriminate]. intros H. inversion H. right. split; [apply path_eqb_eq; exact E|reflexivity].
  - destruct (path_eqb q r); [auto|exact IH].
Qed.

(** * how a state change may touch paths, caches and the registry *)
(** every existing record keeps its path; a cache either stays or is filled from the (old) registry *)
Definition route_frame (s s' : state) : Prop :=
  reg s' = reg s /\ length (actors s') = length (actors s) /\
  forall b x', get s' b = Some x' -> exists x, get s b = Some x /\ a_path x' = a_path x /\
     (a_cache x' = a_cache x \/ exists y, a_cache x' = Some y /\ alookup (reg s) (a_path x) = Some y).

Lemma route_frame_ok s s' : route_frame s s' -> route_ok s -> route_ok s'.
Proof.
  intros (Hr & Hl & Hf) [HR HC].
  assert (Hex : forall y xy, get s y = Some xy -> exists xy', get s' y = Some xy' /\ a_path xy' = a_path xy).
  { intros y xy Hg. assert (Hlt : y < length (actors s')) by (rewrite Hl; eapply nth_error_lt; exact Hg).
    destruct (get s' y) as [xy'|] eqn:E; [|apply nth_error_None in E; lia].
    destruct (Hf y xy' E) as (x0 & Hg0 & Hp & _). exists xy'. split; [reflexivity|]. congruence. }
  split.
  - intros p y Hlk. rewrite Hr in Hlk. destruct (HR p y Hlk) as (xy & Hg & Hp).
    destruct (Hex y xy Hg) as (xy' & Hg' & Hp'). exists xy'. split; [exact Hg'|congruence].
  - intros a x' y Hg Hc. destruct (Hf a x' Hg) as (x & Hgx & Hp & [Hsame|(y0 & Hy0 & Hlk)]).
    + rewrite Hsame in Hc. destruct (HC a x y Hgx Hc) as (xy & Hgy & Hpy).
      destruct (Hex y xy Hgy) as (xy' & Hg' & Hp'). exists xy'. split; [exact Hg'|congruence].
    + rewrite Hy0 in Hc. inversion Hc; subst y0. destruct (HR _ _ Hlk) as (xy & Hgy & Hpy).
      destruct (Hex y xy Hgy) as (xy' & Hg' & Hp'). exists xy'. split; [exact Hg'|congruence].
Qed.

Lemma route_frame_refl s : route_frame s s.
Proof. split; [reflexivity|split; [reflexivity|]]. intros b x' Hg. exists x'. auto. Qed.

Lemma route_frame_same s s' : actors s' = actors s -> reg s' = reg s -> route_frame s s'.
Proof.
  intros Ha Hr. split; [exact Hr|split; [rewrite Ha; reflexivity|]]. intros b x' Hg. exists x'. unfold get in *. rewrite <- Ha. auto.
Qed.

Lemma route_frame_set_actor s a x y :
  get s a = Some x -> a_path y = a_path x ->
  (a_cache y = a_cache x \/ exists z, a_cache y = Some z /\ alookup (reg s) (a_path x) = Some z) ->
  route_frame s (set_actor s a y).
Proof.
  intros Hg Hp Hc. split; [reflexivity|split; [cbn; apply upd_length|]].
  intros b x' Hb. destruct (Nat.eq_dec a b) as [<-|Hne].
  - rewrite (get_set_same' _ _ _ _ Hg) in Hb. inversion Hb; subst. exists x. auto.
  - rewrite get_set_other in Hb by exact Hne. exists x'. auto.
Qed.

Lemma route_frame_with_actor s a f :
  (forall x, a_path (f x) = a_path x /\ a_cache (f x) = a_cache x) -> route_frame s (with_actor s a f).
Proof.
  intros H. unfold with_actor. destruct (get s a) as [x|] eqn:E; [|apply route_frame_same; reflexivity].
  eapply route_frame_set_actor; [exact E|apply H|left; apply H].
Qed.

Lemma route_ok_set_pend s t l : route_ok s -> route_ok (set_pend s t l).
Proof.
  apply route_frame_ok. destruct t as [a|i].
  - unfold set_pend. apply route_frame_with_actor. intros; split; reflexivity.
  - apply route_frame_same; [apply set_pend_TX_actors|apply set_pend_reg].
Qed.

Lemma route_ok_resolve s r : route_ok s -> route_ok (snd (resolve s r)).
Proof.
  apply route_frame_ok.
  destruct (resolve_shape s r) as [H|[H|(a & x & y & _ & Hg & _ & Hlk & H & _)]]; rewrite H;
    [apply route_frame_refl|apply route_frame_same; reflexivity|].
  eapply route_frame_set_actor; [exact Hg|reflexivity|]. right. exists y. split; [reflexivity|exact Hlk].
Qed.

Lemma route_ok_push_mb s a e : route_ok s -> route_ok (push_mb s a e).
Proof. apply route_frame_ok. unfold push_mb. apply route_frame_with_actor. intros; split; reflexivity. Qed.

(** * exec1: the registry changes only by ActorOf (one fresh record under the registered path) and by cleanup *)
Lemma exec1_reg_shape s t h i x :
  get s (self_of t) = Some x ->
  let s' := fst (exec1 s t h i) in
  (reg s' = reg s /\ exists y, actors s' = upd (actors s) (self_of t) y /\ a_path y = a_path x /\ a_cache y = a_cache x) \/
  (exists q, reg s' = aremove (reg s) q /\ actors s' = actors s) \/
  (exists p g sp y, reg s' = reg s ++ [(p, length (actors s))] /\
     actors s' = upd (actors s) (self_of t) y ++ [new_actor p g (Some (self_of t)) sp] /\ a_path y = a_path x /\ a_cache y = a_cache x).
Proof.
  intros Hg. cbv zeta.
  assert (Hsame : forall s', reg s' = reg s -> actors s' = actors s ->
            (reg s' = reg s /\ exists y, actors s' = upd (actors s) (self_of t) y /\ a_path y = a_path x /\ a_cache y = a_cache x) \/
            (exists q, reg s' = aremove (reg s) q /\ actors s' = actors s) \/
            (exists p g sp y, reg s' = reg s ++ [(p, length (actors s))] /\
               actors s' = upd (actors s) (self_of t) y ++ [new_actor p g (Some (self_of t)) sp] /\ a_path y = a_path x /\ a_cache y = a_cache x)).
  { intros s' Hr Ha. left. split; [exact Hr|]. exists x. rewrite Ha. split; [symmetry; apply upd_same; exact Hg|auto]. }
  destruct (exec1_actors s t h i x Hg) as (y & news & Hy & Hnews & Ha).
  unfold exec1 in *. rewrite Hg in *.
  destruct i; try (apply Hsame; reflexivity).
  - destruct remaining; apply Hsame; reflexivity.
  - destruct a; try (apply Hsame; reflexivity).
    + (* ASpawn *)
      destruct (a_state x); try (apply Hsame; reflexivity).
      all: destruct (negb (sp_prelaunch sp)); [apply Hsame; reflexivity|].
      all: destruct (alookup (reg s) (a_path x ++ [sp_name sp])); [apply Hsame; reflexivity|].
      all: right; right; cbn [fst] in *.
      all: match goal with |- context[with_actor ?s1 _ _] =>
             assert (Hg1 : get s1 (self_of t) = Some x)
               by (unfold get; cbn [actors]; rewrite nth_error_app1 by (eapply nth_error_lt; exact Hg); exact Hg);
             rewrite (with_actor_some _ _ _ _ Hg1) end.
      all: do 4 eexists; split; [reflexivity|split; [cbn [set_actor actors]; rewrite upd_app_l by (eapply nth_error_lt; exact Hg); reflexivity|split; reflexivity]].
    + destruct (a_cur x); [|apply Hsame; reflexivity]. left. split; [reflexivity|]. eexists. split; [reflexivity|split; reflexivity].
    + destruct n as [n|].
      * destruct (Nat.eqb (length (a_stash x)) 0); [apply Hsame; reflexivity|]. left. split; [reflexivity|]. eexists. split; [reflexivity|split; reflexivity].
      * destruct (a_stash x); [apply Hsame; reflexivity|]. left. split; [reflexivity|]. eexists. split; [reflexivity|split; reflexivity].
    + destruct (alookup (subscribers s ty) (a_path x)); apply Hsame; reflexivity.
    + destruct (nlookup (subs s) ty); apply Hsame; reflexivity.
    + left. split; [reflexivity|]. eexists. split; [reflexivity|split; reflexivity].
    + left. split; [reflexivity|]. eexists. split; [reflexivity|split; reflexivity].
  - destruct (a_zombie x); [apply Hsame; reflexivity|]. destruct (a_parent x).
    + destruct (take_until_panic acts). apply Hsame; reflexivity.
    + destruct m; try (apply Hsame; reflexivity). destruct (ref_eq s who (RObj (self_of t))); apply Hsame; reflexivity.
  - destruct (subscribers s ty); apply Hsame; reflexivity.
  - destruct (a_zombie x); [apply Hsame; reflexivity|]. destruct (ref_eq s who (RObj (self_of t))); [apply Hsame; reflexivity|].
    left. split; [reflexivity|]. eexists. split; [reflexivity|].
    repeat match goal with |- context[match ?e with _ => _ end] => destruct e end; split; reflexivity.
  - destruct (a_children x); [|apply Hsame; reflexivity]. destruct (a_state x); try (apply Hsame; reflexivity).
    left. split; [reflexivity|]. eexists. split; [reflexivity|split; reflexivity].
  - right; left. eexists. split; reflexivity.
  - destruct (a_hooks x) as [|[[h1 h2] h3] rest].
    + left. split; [reflexivity|]. eexists. split; [reflexivity|]. destruct (sp_provider (a_spec x)); split; reflexivity.
    + destruct (h2 && h3); (left; split; [reflexivity|]; eexists; split; [reflexivity|]; destruct (sp_provider (a_spec x)); split; reflexivity).
  - left. split; [reflexivity|]. eexists. split; [reflexivity|split; reflexivity].
  - destruct d; apply Hsame; reflexivity.
  - left. split; [reflexivity|]. eexists. split; [reflexivity|split; reflexivity].
Qed.

Lemma get_upd_app_old (l : list actor) a y news b x' :
  a < length l -> nth_error (upd l a y ++ news) b = Some x' -> b < length l ->
  (b = a /\ x' = y) \/ (b <> a /\ nth_error l b = Some x').
Proof.
  intros Hl Hn Hb. rewrite nth_error_app1 in Hn by (rewrite upd_length; exact Hb).
  destruct (Nat.eq_dec a b) as [<-|Hne].
  - rewrite nth_upd_eq in Hn by exact Hl. inversion Hn. auto.
  - rewrite nth_upd_neq in Hn by exact Hne. right. split; [congruence|exact Hn].
Qed.

Lemma route_ok_exec1 s t h i : route_ok s -> route_ok (fst (exec1 s t h i)).
Proof.
  intros Hok. destruct (get s (self_of t)) as [x|] eqn:Hg; [|rewrite (exec1_none _ _ _ _ Hg); exact Hok].
  assert (Hl : self_of t < length (actors s)) by (eapply nth_error_lt; exact Hg).
  destruct (exec1_reg_shape s t h i x Hg) as [(Hr & y & Ha & Hp & Hc)|[(q & Hr & Ha)|(p & g & sp & y & Hr & Ha & Hp & Hc)]];
    cbv zeta in *; set (s' := fst (exec1 s t h i)) in *.
  - (* local update *)
    revert Hok. apply route_frame_ok. split; [exact Hr|split; [rewrite Ha; apply upd_length|]].
    intros b x' Hb. unfold get in Hb. rewrite Ha in Hb. destruct (Nat.eq_dec (self_of t) b) as [<-|Hne].
    + rewrite nth_upd_eq in Hb by exact Hl. inversion Hb; subst. exists x. auto.
    + rewrite nth_upd_neq in Hb by exact Hne. exists x'. auto.
  - (* cleanup *)
    destruct Hok as [HR HC]. split.
    + intros p y Hlk. rewrite Hr in Hlk. apply alookup_aremove in Hlk. unfold get. rewrite Ha. apply HR. exact Hlk.
    + intros a xa y Hga Hca. unfold get in *. rewrite Ha in *. exact (HC a xa y Hga Hca).
  - (* spawn *)
    destruct Hok as [HR HC].
    assert (Hold : forall b xb, get s b = Some xb -> exists xb', get s' b = Some xb' /\ a_path xb' = a_path xb).
    { intros b xb Hb. assert (Hlt : b < length (actors s)) by (eapply nth_error_lt; exact Hb).
      unfold get. rewrite Ha. rewrite nth_error_app1 by (rewrite upd_length; exact Hlt).
      destruct (Nat.eq_dec (self_of t) b) as [<-|Hne].
      - rewrite nth_upd_eq by exact Hl. exists y. split; [reflexivity|]. rewrite Hg in Hb. inversion Hb; subst. exact Hp.
      - rewrite nth_upd_neq by exact Hne. exists xb. auto. }
    split.
    + intros q z Hlk. rewrite Hr in Hlk. apply alookup_app_one in Hlk. destruct Hlk as [Hlk|[-> ->]].
      * destruct (HR q z Hlk) as (xy & Hgy & Hpy). destruct (Hold z xy Hgy) as (xy' & Hg' & Hp'). exists xy'. split; [exact Hg'|congruence].
      * exists (new_actor p g (Some (self_of t)) sp). split; [|reflexivity]. unfold get. rewrite Ha.
        rewrite nth_error_app2 by (rewrite upd_length; lia). rewrite upd_length, Nat.sub_diag. reflexivity.
    + intros a xa z Hga Hca. unfold get in Hga. rewrite Ha in Hga.
      destruct (Nat.lt_ge_cases a (length (actors s))) as [Hlt|Hge].
      * destruct (get_upd_app_old _ _ _ _ _ _ Hl Hga Hlt) as [[-> ->]|[Hne Hga']].
        -- rewrite Hc in Hca. destruct (HC _ _ _ Hg Hca) as (xy & Hgy & Hpy).
           destruct (Hold z xy Hgy) as (xy' & Hg' & Hp'). exists xy'. split; [exact Hg'|congruence].
        -- destruct (HC _ _ _ Hga' Hca) as (xy & Hgy & Hpy).
           destruct (Hold z xy Hgy) as (xy' & Hg' & Hp'). exists xy'. split; [exact Hg'|congruence].
      * rewrite nth_error_app2 in Hga by (rewrite upd_length; exact Hge). rewrite upd_length in Hga.
        destruct (a - length (actors s)) as [|k]; cbn in Hga; [inversion Hga; subst; discriminate Hca|destruct k; discriminate Hga].
Qed.

Lemma route_ok_run_atomic f s t : route_ok s -> route_ok (run_atomic f s t).
Proof.
  revert s. change (forall s, (fun a b => route_ok a -> route_ok b) s (run_atomic f s t)).
  apply run_atomic_rel; auto.
  - intros s l. apply route_ok_set_pend.
  - intros s r. apply route_ok_resolve.
  - intros s h i. apply route_ok_exec1.
Qed.

Lemma route_ok_set_actor s a x y : get s a = Some x -> a_path y = a_path x -> a_cache y = a_cache x -> route_ok s -> route_ok (set_actor s a y).
Proof. intros Hg Hp Hc. apply route_frame_ok. eapply route_frame_set_actor; eauto. Qed.

Lemma route_ok_same s s' : actors s' = actors s -> reg s' = reg s -> route_ok s -> route_ok s'.
Proof. intros Ha Hr. apply route_frame_ok, route_frame_same; assumption. Qed.

Lemma route_ok_step s ev : route_ok s -> route_ok (step s ev).
Proof.
  intros Hok. destruct ev; cbn [step].
  - destruct (get s a) as [x|] eqn:Hg; [|exact Hok].
    destruct (a_cons x), (a_sq x); try exact Hok; (eapply route_ok_set_actor; [exact Hg|reflexivity|reflexivity|exact Hok]).
  - destruct (get s a) as [x|] eqn:Hg; [|exact Hok].
    destruct (a_cons x); try exact Hok. eapply route_ok_set_actor; [exact Hg|reflexivity|reflexivity|exact Hok].
  - destruct (get s a) as [x|] eqn:Hg; [|exact Hok].
    destruct (a_cons x), (a_uq x); try exact Hok; (eapply route_ok_set_actor; [exact Hg|reflexivity|reflexivity|exact Hok]).
  - destruct (get s a) as [x|] eqn:Hg; [|exact Hok].
    destruct (a_cons x); try exact Hok.
    match goal with |- context[dispatch ?s0 a ?x0 e] =>
      assert (K0 : route_ok s0) by (eapply route_ok_set_actor; [exact Hg|reflexivity|reflexivity|exact Hok]);
      destruct (dispatch_effect s0 a x0 e (get_set_same' s a x0 x Hg)) as (y & Hy & Ha & _ & _ & _ & Hr & _);
      assert (K1 : route_ok (fst (dispatch s0 a x0 e)));
      [|destruct (dispatch s0 a x0 e) as [s1 ins]; cbn [fst] in K1; apply route_ok_run_atomic, route_ok_set_pend; exact K1]
    end.
    revert K0. apply route_frame_ok. split; [exact Hr|split; [rewrite Ha; apply upd_length|]].
    intros b x' Hb. unfold get in Hb. rewrite Ha in Hb.
    match goal with |- context[get ?s0 b] => assert (Hl0 : a < length (actors s0)) by (cbn; rewrite upd_length; eapply nth_error_lt; exact Hg) end.
    destruct (Nat.eq_dec a b) as [<-|Hne].
    + rewrite nth_upd_eq in Hb by exact Hl0. inversion Hb; subst. eexists. split; [apply (get_set_same' s a _ x Hg)|].
      rewrite (df_path _ _ Hy), (df_cache _ _ Hy). auto.
    + rewrite nth_upd_neq in Hb by exact Hne. exists x'. auto.
  - destruct (pend_of s t) as [|i rest]; [exact Hok|]. destruct i; try exact Hok.
    + rewrite deliver_eq. apply route_ok_set_pend, route_ok_push_mb, Hok.
    + apply route_ok_set_pend, route_ok_push_mb, Hok.
    + destruct (nth_error tos choice) as [r|]; [|exact Hok].
      pose proof (route_ok_resolve s r Hok) as Hr. destruct (resolve s r) as [mb s1]. cbn [snd] in Hr. rewrite deliver_eq.
      apply route_ok_set_pend, route_ok_push_mb, Hr.
    + destruct (nth_error remaining choice) as [r|]; [|exact Hok].
      pose proof (route_ok_resolve s r Hok) as Hr. destruct (resolve s r) as [mb s1]. cbn [snd] in Hr. rewrite deliver_eq.
      apply route_ok_set_pend, route_ok_push_mb, Hr.
  - destruct (pend_of s t) as [|i rest]; [exact Hok|]. destruct i; try exact Hok.
    apply route_ok_run_atomic, route_ok_set_pend, Hok.
  - destruct (pend_of s t) as [|i rest]; [exact Hok|]. destruct i; try exact Hok.
    apply route_ok_run_atomic, route_ok_set_pend. revert Hok. apply route_frame_ok, route_frame_with_actor. intros; split; reflexivity.
  - destruct (pend_of s t) as [|i rest]; [exact Hok|]. destruct i; try exact Hok.
    destruct (get s (self_of t)) as [x|] eqn:Hg; [|exact Hok]. destruct (a_paused x).
    + apply route_ok_set_pend. eapply route_ok_set_actor; [exact Hg|reflexivity|reflexivity|exact Hok].
    + apply route_ok_run_atomic, route_ok_set_pend, Hok.
  - destruct (pend_of s t) as [|i rest]; [exact Hok|]. destruct i; try exact Hok.
    apply route_ok_run_atomic, route_ok_set_pend, Hok.
  - apply route_ok_run_atomic, Hok.
Qed.

Lemma route_ok_init scs : route_ok (init_with scs).
Proof.
  unfold init_with.
  assert (H : forall scs s i, route_ok s -> route_ok (set_exts s i scs)).
  { clear. induction scs as [|sc r IH]; intros s i Hok; cbn [set_exts]; [exact Hok|]. apply IH, route_ok_set_pend, Hok. }
  apply H. split.
  - intros p y Hlk. discriminate Hlk.
  - intros a x y Hg Hc. destruct a as [|a]; cbn in Hg; [inversion Hg; subst; discriminate Hc|destruct a; discriminate Hg].
Qed.

Lemma route_ok_run evs : forall s, route_ok s -> route_ok (run_events evs s).
Proof. induction evs as [|ev r IH]; intros s H; [exact H|]. apply IH, route_ok_step, H. Qed.

Lemma reachable_route_ok s : reachable s -> route_ok s.
Proof. intros (scs & evs & -> & _). apply route_ok_run, route_ok_init. Qed.

(** no misrouting: whatever the reference, an envelope routed to an actor's mailbox goes to an actor created under
    the very path the reference names *)
Theorem routed_same_path s r y :
  reachable s -> fst (resolve s r) = MbActor y -> exists xy, get s y = Some xy /\ ref_path s r = Some (a_path xy).
Proof.
  intros Hr Hres. destruct (reachable_route_ok s Hr) as [HR HC].
  destruct (routing_actor s r y Hres) as [(p & Hp & Hlk)|(a & x & -> & Hg & Hc)].
  - destruct (HR p y Hlk) as (xy & Hgy & Hpy). exists xy. split; [exact Hgy|congruence].
  - destruct (HC a x y Hg Hc) as (xy & Hgy & Hpy). exists xy. split; [exact Hgy|]. cbn [ref_path]. rewrite Hg. congruence.
Qed.
