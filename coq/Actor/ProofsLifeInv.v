(** Invariants of the ActorCore model used by C05 / C06: [err] is sticky, structural facts, state
    invariants (Killed => no children, zombie => Killed, ...). *)
From Coq Require Import List NArith ZArith Bool Lia.
From Vivid Require Import Base.Tm Actor.Core Actor.CoreRun Actor.SpecLife Actor.ProofsLife.
Import ListNotations.
Local Open Scope N_scope.

(* ------------------------------------------------------------------ err is sticky *)

Lemma err_set_actor s a x : err (set_actor s a x) = err s. Proof. reflexivity. Qed.
Lemma err_with_actor s a f : err s = true -> err (with_actor s a f) = true.
Proof. intros H. unfold with_actor. destruct (get s a); [exact H|reflexivity]. Qed.
Lemma err_set_pend s t p : err s = true -> err (set_pend s t p) = true.
Proof.
  intros H. destruct t as [a|i]; cbn [set_pend]; [apply err_with_actor; exact H|].
  destruct (nth_error (exts s) i); [exact H|reflexivity].
Qed.
Lemma err_push_mb s a e : err s = true -> err (push_mb s a e) = true.
Proof. apply err_with_actor. Qed.
Lemma err_resolve s r : err s = true -> err (snd (resolve s r)) = true.
Proof.
  intros H. destruct r as [a|p|]; cbn [resolve]; [| |exact H].
  - destruct (get s a) as [x|]; [|reflexivity]. destruct (a_cache x); [exact H|].
    destruct (alookup (reg s) (a_path x)); [exact H|]. destruct (path_eqb (a_path x) []); exact H.
  - destruct (alookup (reg s) p); [exact H|]. destruct (path_eqb p []); exact H.
Qed.
Lemma err_deliver s m e : err s = true -> err (fst (deliver s m e)) = true.
Proof. intros H. destruct m; cbn [deliver fst]; apply err_push_mb; exact H. Qed.

Ltac destr_match :=
  match goal with
  | |- context [match ?x with _ => _ end] => destruct x eqn:?
  end.

Lemma err_exec1 s t h i : err s = true -> err (fst (exec1 s t h i)) = true.
Proof.
  intros H. unfold exec1. destruct (get s (self_of t)) as [x|]; [|reflexivity].
  destruct i; try reflexivity; try exact H;
  repeat (first [exact H | reflexivity | apply err_with_actor; exact H | destr_match]); cbn; try exact H; try reflexivity.
Qed.

Lemma err_astep s t i rest : err s = true -> err (astep s t i rest) = true.
Proof.
  intros H. unfold astep.
  pose proof (err_exec1 (set_pend s t rest) t (held_of (set_pend s t rest) t) i (err_set_pend _ _ _ H)) as H1.
  destruct (exec1 (set_pend s t rest) t (held_of (set_pend s t rest) t) i) as [s1 front]. cbn [fst] in H1.
  apply err_set_pend. exact H1.
Qed.

(** [run_atomic] unfolded one step, in terms of [astep] *)
Lemma run_atomic_S f s t :
  run_atomic (S f) s t =
  match pend_of s t with
  | [] => s
  | IEnq sys to sender m :: rest => set_pend (snd (resolve s to)) t (IEnqR sys (fst (resolve s to)) sender m :: rest)
  | i :: rest => if yielding i then s else run_atomic f (astep s t i rest) t
  end.
Proof.
  cbn [run_atomic]. destruct (pend_of s t) as [|i rest]; [reflexivity|].
  unfold astep.
  destruct i; try reflexivity;
  try (destruct (exec1 (set_pend s t rest) t (held_of (set_pend s t rest) t) _) as [s1 front]; reflexivity);
  try (destruct (resolve s to) as [mb s1]; reflexivity);
  try (destruct remaining; [|reflexivity];
       destruct (exec1 (set_pend s t rest) t (held_of (set_pend s t rest) t) _) as [s1 front]; reflexivity).
Qed.

Lemma err_run_atomic f s t : err s = true -> err (run_atomic f s t) = true.
Proof.
  revert s. induction f as [|f IH]; intros s H; [reflexivity|].
  rewrite run_atomic_S. destruct (pend_of s t) as [|i rest]; [exact H|].
  destruct i; try exact H; try (apply IH, err_astep, H).
  - apply err_set_pend, err_resolve, H.
  - destruct remaining; [apply IH, err_astep, H|exact H].
Qed.

Lemma err_dispatch s a x e : err s = true -> err (fst (dispatch s a x e)) = true.
Proof.
  intros H. unfold dispatch.
  repeat (first [exact H | reflexivity | destr_match]); cbn; try exact H; try reflexivity.
Qed.

Lemma err_step s ev : err s = true -> err (step s ev) = true.
Proof.
  intros H. destruct ev; cbn [step].
  - destruct (get s a) as [x|]; [|reflexivity]. destruct (a_cons x), (a_sq x); try reflexivity; exact H.
  - destruct (get s a) as [x|]; [|reflexivity]. destruct (a_cons x); try reflexivity; exact H.
  - destruct (get s a) as [x|]; [|reflexivity]. destruct (a_cons x), (a_uq x); try reflexivity; exact H.
  - destruct (get s a) as [x|]; [|reflexivity]. destruct (a_cons x); try reflexivity.
    match goal with |- context [dispatch ?s0 ?a0 ?x0 ?e0] =>
      pose proof (err_dispatch s0 a0 x0 e0 H) as Hd; destruct (dispatch s0 a0 x0 e0) as [s1 ins] end.
    cbn [fst] in Hd. apply err_run_atomic, err_set_pend, Hd.
  - destruct (pend_of s t) as [|i rest]; [reflexivity|].
    destruct i; try reflexivity.
    + match goal with |- context [deliver ?s0 ?m0 ?e0] =>
        pose proof (err_deliver s0 m0 e0 H) as Hd; destruct (deliver s0 m0 e0) as [s2 u] end.
      apply err_set_pend, Hd.
    + apply err_set_pend, err_push_mb, H.
    + destruct (nth_error tos choice) as [to|]; [|reflexivity].
      pose proof (err_resolve s to H) as Hr. destruct (resolve s to) as [mb s1]. cbn [snd] in Hr.
      match goal with |- context [deliver ?s0 ?m0 ?e0] =>
        pose proof (err_deliver s0 m0 e0 Hr) as Hd; destruct (deliver s0 m0 e0) as [s2 u] end.
      apply err_set_pend, Hd.
    + destruct (nth_error remaining choice) as [to|]; [|reflexivity].
      pose proof (err_resolve s to H) as Hr. destruct (resolve s to) as [mb s1]. cbn [snd] in Hr.
      match goal with |- context [deliver ?s0 ?m0 ?e0] =>
        pose proof (err_deliver s0 m0 e0 Hr) as Hd; destruct (deliver s0 m0 e0) as [s2 u] end.
      apply err_set_pend, Hd.
  - destruct (pend_of s t) as [|i rest]; [reflexivity|]. destruct i; try reflexivity.
    apply err_run_atomic, err_set_pend, H.
  - destruct (pend_of s t) as [|i rest]; [reflexivity|]. destruct i; try reflexivity.
    apply err_run_atomic, err_set_pend, err_with_actor, H.
  - destruct (pend_of s t) as [|i rest]; [reflexivity|]. destruct i; try reflexivity.
    destruct (get s (self_of t)) as [x|]; [|reflexivity].
    destruct (a_paused x); [apply err_set_pend; exact H|apply err_run_atomic, err_set_pend, H].
  - destruct (pend_of s t) as [|i rest]; [reflexivity|]. destruct i; try reflexivity.
    apply err_run_atomic, err_set_pend, H.
  - apply err_run_atomic, H.
Qed.

Lemma err_false_step s ev : err (step s ev) = false -> err s = false.
Proof. intros H. destruct (err s) eqn:E; [|reflexivity]. rewrite (err_step s ev E) in H. discriminate. Qed.

Lemma run_events_snoc evs ev s : run_events (evs ++ [ev]) s = step (run_events evs s) ev.
Proof. unfold run_events. rewrite fold_left_app. reflexivity. Qed.

(** lifting a step invariant to all reachable states *)
Lemma reachable_ind (I : state -> Prop) :
  (forall scs, I (init_with scs)) ->
  (forall s ev, I s -> err s = false -> err (step s ev) = false -> I (step s ev)) ->
  forall s, reachable s -> I s.
Proof.
  intros Hinit Hstep s (scs & evs & -> & Herr).
  revert Herr. induction evs as [|ev evs IH] using rev_ind; intros Herr; [apply Hinit|].
  rewrite run_events_snoc in *. pose proof (err_false_step _ _ Herr) as H0.
  apply Hstep; [apply IH; exact H0|exact H0|exact Herr].
Qed.

Lemma reachable_step s ev : reachable s -> err (step s ev) = false -> reachable (step s ev).
Proof.
  intros (scs & evs & -> & H) He. exists scs, (evs ++ [ev]). rewrite run_events_snoc. split; [reflexivity|exact He].
Qed.

Lemma err_false_astep s t i rest : err (astep s t i rest) = false -> err s = false.
Proof. intros H. destruct (err s) eqn:E; [|reflexivity]. rewrite (err_astep s t i rest E) in H. discriminate. Qed.

Lemma err_false_run_atomic f s t : err (run_atomic f s t) = false -> err s = false.
Proof. intros H. destruct (err s) eqn:E; [|reflexivity]. rewrite (err_run_atomic f s t E) in H. discriminate. Qed.

(** induction principle for [run_atomic]: an invariant preserved by the micro-step and by the
    reference resolution is preserved by [run_atomic] (when it does not run out of fuel) *)
Lemma run_atomic_ind (I : state -> Prop) t :
  (forall s i rest, I s -> err s = false -> pend_of s t = i :: rest -> yielding i = false ->
                    (forall sys to sender m, i <> IEnq sys to sender m) ->
                    err (astep s t i rest) = false -> I (astep s t i rest)) ->
  (forall s sys to sender m rest, I s -> err s = false -> pend_of s t = IEnq sys to sender m :: rest ->
        let s' := set_pend (snd (resolve s to)) t (IEnqR sys (fst (resolve s to)) sender m :: rest) in
        err s' = false -> I s') ->
  forall f s, I s -> err (run_atomic f s t) = false -> I (run_atomic f s t).
Proof.
  intros Hstep Hres. induction f as [|f IH]; intros s HI Herr; [discriminate|].
  rewrite run_atomic_S in *. destruct (pend_of s t) as [|i rest] eqn:Hp; [exact HI|].
  assert (Hgen : yielding i = false -> (forall sys to sender m, i <> IEnq sys to sender m) ->
                 err (run_atomic f (astep s t i rest) t) = false -> I (run_atomic f (astep s t i rest) t)).
  { intros Hy Hne He. pose proof (err_false_run_atomic _ _ _ He) as He1.
    apply IH; [|exact He]. apply Hstep; try assumption. exact (err_false_astep _ _ _ _ He1). }
  destruct i; try exact HI; try (apply Hgen; [reflexivity|intros; discriminate|exact Herr]).
  - apply Hres; try assumption.
    destruct (err s) eqn:E; [|reflexivity]. rewrite (err_set_pend _ _ _ (err_resolve _ _ E)) in Herr. discriminate.
  - destruct remaining; [|exact HI]. apply Hgen; [reflexivity|intros; discriminate|exact Herr].
Qed.
