(** C09-d: quiescent states.  The paused flag along a run; the global statement "no running survivor stays
    paused" is refuted by a concrete run (reported as a finding); what is proved instead. *)
From Coq Require Import List NArith ZArith Bool Lia Arith.
From Vivid Require Import Actor.Core Actor.CoreRun Actor.SpecMail Actor.ProofsMailBase Actor.ProofsMail Actor.ProofsMailInv Actor.ProofsMailWf Actor.ProofsMailAcct Actor.ProofsMailPause.
Import ListNotations.

(** * the flag equals the last Pause / Resume word of the own mailbox *)
Lemma own_pause_word_effect ev b : own_pause_word ev b = pause_effect ev b.
Proof. reflexivity. Qed.

Lemma paused_run b evs : forall s acc,
  err (run_events evs s) = false ->
  (match acc with Some v => paused_at s b = v | None => True end) ->
  paused_at (run_events evs s) b =
  match last_pause_word b evs acc with Some v => v | None => paused_at s b end.
Proof.
  induction evs as [|ev r IH]; intros s acc He Hacc.
  - cbn. destruct acc; auto.
  - change (run_events (ev :: r) s) with (run_events r (step s ev)) in *. cbn [last_pause_word].
    pose proof (paused_step s ev b (err_false_run_head r s ev He)) as Hst. rewrite <- own_pause_word_effect in Hst.
    destruct (own_pause_word ev b) as [v|] eqn:E.
    + rewrite (IH (step s ev) (Some v) He Hst).
      destruct (last_pause_word b r (Some v)) eqn:E2; [reflexivity|].
      exfalso. clear -E2. revert v E2. induction r as [|e r IHr]; intros v E2; cbn in E2; [discriminate|].
      destruct (own_pause_word e b); eauto.
    + destruct acc as [v|].
      * rewrite (IH (step s ev) (Some v) He); [|rewrite Hst; exact Hacc].
        destruct (last_pause_word b r (Some v)) eqn:E2; [reflexivity|].
        exfalso. clear -E2. revert v E2. induction r as [|e r IHr]; intros v E2; cbn in E2; [discriminate|].
        destruct (own_pause_word e b); eauto.
      * rewrite (IH (step s ev) None He I). rewrite Hst. reflexivity.
Qed.

Lemma paused_init scs b : paused_at (init_with scs) b = false.
Proof.
  unfold paused_at, get, init_with.
  assert (H : forall scs s i, actors (set_exts s i scs) = actors s).
  { clear. induction scs as [|sc r IH]; intros s i; cbn [set_exts]; [reflexivity|]. rewrite IH. apply set_pend_TX_actors. }
  rewrite H. cbn. destruct b as [|[|b]]; reflexivity.
Qed.

(** from an initial state: an actor is paused at the end of a run iff the last word its own thread executed on its
    mailbox was a Pause (never followed by its Resume) *)
Theorem paused_iff_last_word scs evs b :
  err (run_events evs (init_with scs)) = false ->
  paused_at (run_events evs (init_with scs)) b = match last_pause_word b evs None with Some v => v | None => false end.
Proof. intros He. rewrite (paused_run b evs (init_with scs) None He I), paused_init. reflexivity. Qed.

(** * two former findings, kept as regression runs (fixed in /repo a8829bb: onRestart in a non-running target now
    resumes the mailbox and, when killing, passes an immediate kill to the remaining children) *)
Local Open Scope N_scope.
(** root -> G (one-for-one, Restart) -> P (one-for-one, Escalate) -> C.  P handles a graceful Kill, C then panics,
    P escalates, G answers with an immediate Restart that reaches P while it is killing *)
Definition rf_c : spec := Spec 3 [] [] [] 0 [] true [] false.
Definition rf_p : spec := Spec 2 [ASpawn rf_c] [] [] 1 [DEscalate] true [] false.
Definition rf_g : spec := Spec 1 [ASpawn rf_p] [] [] 1 [DRestart] true [] false.
Definition rf_scs : list (list action) :=
  [ [ASpawn rf_g]; [ATell (XPath [1;2;3]) 10 [APanic]]; [AKill (XPath [1;2]) true] ].
Definition rf_sched : list event :=
  let s0 := init_with rf_scs in
  let e1 := drive 1000 [TX 0; TA 0; TA 1; TA 2; TA 3] s0 in let s1 := run_events e1 s0 in
  let e2 := drive 100 [TX 1] s1 in let s2 := run_events e2 s1 in
  let e3 := drive 100 [TX 2; TA 2] s2 in let s3 := run_events e3 s2 in
  e1 ++ e2 ++ e3 ++ drive_all 1000 s3.
Definition rf_evs : list event := Eval vm_compute in rf_sched.

(** a zombie sibling paused by a one-for-all pause loop and then sent an immediate Restart *)
Definition zf_c : spec := Spec 3 [] [] [] 0 [] true [(true, false, true)] false.
Definition zf_d : spec := Spec 4 [] [] [] 0 [] true [] false.
Definition zf_p : spec := Spec 2 [ASpawn zf_c; ASpawn zf_d] [] [] 2 [DRestart; DRestart] true [] false.
Definition zf_scs : list (list action) :=
  [ [ASpawn zf_p]; [ATell (XPath [2;3]) 10 [APanic]]; [ATell (XPath [2;4]) 11 [APanic]]; [ATell (XPath [2;3]) 12 []] ].
Definition zf_sched : list event :=
  let acts := [TA 0; TA 1; TA 2; TA 3] in
  let s0 := init_with zf_scs in
  let e1 := drive 1000 (TX 0 :: acts) s0 in let s1 := run_events e1 s0 in
  let e2 := drive 1000 (TX 1 :: acts) s1 in let s2 := run_events e2 s1 in
  let e3 := drive 1000 (TX 2 :: acts) s2 in let s3 := run_events e3 s2 in
  e1 ++ e2 ++ e3 ++ drive 1000 (TX 3 :: acts) s3.
Definition zf_evs : list event := Eval vm_compute in zf_sched.
Local Close Scope N_scope.

(** * what holds in every quiescent state *)
Lemma quiescent_actor s a x :
  quiescent s = true -> get s a = Some x ->
  a_pend x = [] /\ a_cons x = C0 /\ a_sq x = [] /\ held x = [] /\ (a_paused x = false -> a_uq x = []).
Proof.
  intros Hq Hg. unfold quiescent in Hq. apply andb_true_iff in Hq. destruct Hq as [Hq _].
  rewrite forallb_forall in Hq. specialize (Hq x (nth_error_In _ _ Hg)). unfold idle_actor in Hq.
  destruct (a_pend x); [|discriminate]. destruct (a_cons x) eqn:Hc; try discriminate. destruct (a_sq x); [|discriminate].
  unfold held. rewrite Hc. repeat split. intros Hp. rewrite Hp in Hq. destruct (a_uq x); [reflexivity|discriminate].
Qed.

(** in a quiescent state every message still in the system sits in the user queue of a paused mailbox, and that
    mailbox's last own word was a Pause *)
Theorem quiescent_mail_only_behind_a_pause scs evs a x :
  let s := run_events evs (init_with scs) in
  err s = false -> quiescent s = true -> get s a = Some x -> inbox x <> [] ->
  inbox x = a_uq x /\ a_paused x = true /\ last_pause_word a evs None = Some true.
Proof.
  cbv zeta. intros He Hq Hg Hne. destruct (quiescent_actor _ _ _ Hq Hg) as (_ & _ & Hs & Hh & Hu).
  unfold inbox in *. rewrite Hs, Hh, app_nil_r in *. cbn [app] in *.
  destruct (a_paused x) eqn:Hp; [|rewrite (Hu eq_refl) in Hne; congruence].
  split; [reflexivity|split; [reflexivity|]].
  pose proof (paused_iff_last_word scs evs a He) as Hw. unfold paused_at in Hw. rewrite Hg, Hp in Hw.
  destruct (last_pause_word a evs None) as [[|]|]; congruence.
Qed.
