(** Micro-steps: every event of ActorCore is a finite sequence of micro-steps - the non-atomic part of the
    event, followed by iterations of the atomic loop (resolve one tell, or execute one atomic instruction).
    An invariant preserved by every micro-step holds in every reachable state. *)
From Coq Require Import List NArith ZArith Bool Lia Arith.
From Vivid Require Import Actor.Core Actor.CoreRun Actor.SpecMail Actor.ProofsMailBase Actor.ProofsMail Actor.ProofsMailInv.
Import ListNotations.

(** one iteration of the atomic loop on a non-yielding, non-tell instruction *)
Definition astep (s : state) (t : tid) (i : instr) (rest : list instr) : state :=
  let s0 := set_pend s t rest in
  let (s1, front) := exec1 s0 t (held_of s0 t) i in
  set_pend s1 t (front ++ pend_of s1 t).

Inductive micro :=
| MSysPop (a : aid) | MLoadPaused (a : aid) | MUserPop (a : aid)
| MHandle (a : aid)
| MPush (t : tid) (c : nat)
| MEnqDone (t : tid) | MPauseSt (t : tid) | MResume1 (t : tid) | MResume2 (t : tid)
| MAtomic (t : tid).

Definition mstep (s : state) (m : micro) : state :=
  match m with
  | MSysPop a => step s (EvSysPop a)
  | MLoadPaused a => step s (EvLoadPaused a)
  | MUserPop a => step s (EvUserPop a)
  | MPush t c => step s (EvPush t c)
  | MHandle a =>
      match get s a with
      | Some x => match a_cons x with
                  | CH e => let (s1, ins) := dispatch (set_actor s a (busy x)) a (busy x) e in set_pend s1 (TA a) ins
                  | _ => set_err s
                  end
      | None => set_err s
      end
  | MEnqDone t => match pend_of s t with IEnqDone :: rest => set_pend s t rest | _ => set_err s end
  | MPauseSt t =>
      match pend_of s t with
      | IPauseSt :: rest =>
          set_pend (with_actor s (self_of t) (fun x => set_mb x (a_sq x) (a_uq x) true (a_cons x) (a_cur x))) t rest
      | _ => set_err s
      end
  | MResume1 t =>
      match pend_of s t, get s (self_of t) with
      | IResume1 :: rest, Some x =>
          if a_paused x then
            set_pend (set_actor s (self_of t) (set_mb x (a_sq x) (a_uq x) false (a_cons x) (a_cur x))) t (IResume2 :: rest)
          else set_pend s t rest
      | _, _ => set_err s
      end
  | MResume2 t => match pend_of s t with IResume2 :: rest => set_pend s t rest | _ => set_err s end
  | MAtomic t =>
      match pend_of s t with
      | [] => s
      | IEnq sys to sender m :: rest =>
          set_pend (snd (resolve s to)) t (IEnqR sys (fst (resolve s to)) sender m :: rest)
      | i :: rest => if yielding i then s else astep s t i rest
      end
  end.

Definition mrun (ms : list micro) (s : state) : state := fold_left mstep ms s.

Lemma mrun_app ms1 ms2 s : mrun (ms1 ++ ms2) s = mrun ms2 (mrun ms1 s).
Proof. apply fold_left_app. Qed.

Lemma run_atomic_enq' f s t sys to sender m rest :
  pend_of s t = IEnq sys to sender m :: rest ->
  run_atomic (S f) s t = set_pend (snd (resolve s to)) t (IEnqR sys (fst (resolve s to)) sender m :: rest).
Proof. intros H. rewrite run_atomic_S, H. destruct (resolve s to). reflexivity. Qed.

Lemma mstep_atomic_exec s t i rest :
  pend_of s t = i :: rest -> yielding i = false -> is_enq i = false -> mstep s (MAtomic t) = astep s t i rest.
Proof.
  intros Hp Hy Hq. cbn [mstep]. rewrite Hp. destruct i; try discriminate Hq; try discriminate Hy; try reflexivity.
  destruct remaining; [reflexivity|discriminate Hy].
Qed.

(** the atomic loop is a sequence of MAtomic micro-steps (or ran out of fuel) *)
Lemma run_atomic_micro t : forall f s, err (run_atomic f s t) = false -> exists n, run_atomic f s t = mrun (repeat (MAtomic t) n) s.
Proof.
  induction f as [|f IH]; intros s He; [discriminate He|].
  destruct (pend_of s t) as [|i rest] eqn:Hp; [exists 0; rewrite (run_atomic_nil _ _ _ Hp); reflexivity|].
  destruct (is_enq i) eqn:Hq.
  - destruct i; try discriminate Hq. exists 1. rewrite (run_atomic_enq' _ _ _ _ _ _ _ _ Hp).
    cbn [repeat mrun fold_left mstep]. rewrite Hp. reflexivity.
  - destruct (yielding i) eqn:Hy.
    + exists 0. rewrite (run_atomic_yield _ _ _ _ _ Hp Hy). reflexivity.
    + rewrite (run_atomic_exec _ _ _ _ _ Hp Hy Hq) in *. cbv zeta in *.
      assert (E : (let (s1, front) := exec1 (set_pend s t rest) t (held_of (set_pend s t rest) t) i in
                   run_atomic f (set_pend s1 t (front ++ pend_of s1 t)) t) = run_atomic f (astep s t i rest) t).
      { unfold astep. destruct (exec1 _ _ _ _). reflexivity. }
      rewrite E in *. destruct (IH _ He) as [n Hn]. exists (S n). rewrite Hn.
      cbn [repeat mrun fold_left]. rewrite (mstep_atomic_exec _ _ _ _ Hp Hy Hq). reflexivity.
Qed.

Lemma step_micro s ev : err (step s ev) = false -> exists ms, step s ev = mrun ms s.
Proof.
  intros He. destruct ev.
  - exists [MSysPop a]. reflexivity.
  - exists [MLoadPaused a]. reflexivity.
  - exists [MUserPop a]. reflexivity.
  - cbn [step] in *. destruct (get s a) as [x|] eqn:Hg; [|discriminate He].
    destruct (a_cons x) eqn:Hc; try discriminate He. cbv zeta in *. fold (busy x) in *.
    destruct (dispatch (set_actor s a (busy x)) a (busy x) e) as [s1 ins] eqn:Hd.
    destruct (run_atomic_micro _ _ _ He) as [n Hn]. exists (MHandle a :: repeat (MAtomic (TA a)) n).
    rewrite Hn. cbn [mrun fold_left mstep]. rewrite Hg, Hc, Hd. reflexivity.
  - exists [MPush t choice]. reflexivity.
  - cbn [step] in *. destruct (pend_of s t) as [|i rest] eqn:Hp; [discriminate He|]. destruct i; try discriminate He.
    destruct (run_atomic_micro _ _ _ He) as [n Hn]. exists (MEnqDone t :: repeat (MAtomic t) n).
    rewrite Hn. cbn [mrun fold_left mstep]. rewrite Hp. reflexivity.
  - cbn [step] in *. destruct (pend_of s t) as [|i rest] eqn:Hp; [discriminate He|]. destruct i; try discriminate He.
    destruct (run_atomic_micro _ _ _ He) as [n Hn]. exists (MPauseSt t :: repeat (MAtomic t) n).
    rewrite Hn. cbn [mrun fold_left mstep]. rewrite Hp. reflexivity.
  - cbn [step] in *. destruct (pend_of s t) as [|i rest] eqn:Hp; [discriminate He|]. destruct i; try discriminate He.
    destruct (get s (self_of t)) as [x|] eqn:Hg; [|discriminate He]. destruct (a_paused x) eqn:Hpa.
    + exists [MResume1 t]. cbn [mrun fold_left mstep]. rewrite Hp, Hg, Hpa. reflexivity.
    + destruct (run_atomic_micro _ _ _ He) as [n Hn]. exists (MResume1 t :: repeat (MAtomic t) n).
      rewrite Hn. cbn [mrun fold_left mstep]. rewrite Hp, Hg, Hpa. reflexivity.
  - cbn [step] in *. destruct (pend_of s t) as [|i rest] eqn:Hp; [discriminate He|]. destruct i; try discriminate He.
    destruct (run_atomic_micro _ _ _ He) as [n Hn]. exists (MResume2 t :: repeat (MAtomic t) n).
    rewrite Hn. cbn [mrun fold_left mstep]. rewrite Hp. reflexivity.
  - cbn [step] in *. destruct (run_atomic_micro _ _ _ He) as [n Hn]. exists (repeat (MAtomic (TX i)) n). exact Hn.
Qed.

(** lifting an invariant of micro-steps to reachable states *)
Theorem micro_invariant (I : state -> Prop) :
  (forall scs, I (init_with scs)) ->
  (forall s m, I s -> I (mstep s m)) ->
  forall s, reachable s -> I s.
Proof.
  intros Hinit Hstep s (scs & evs & -> & He).
  assert (Hm : forall ms s0, I s0 -> I (mrun ms s0)).
  { induction ms as [|m ms IH]; intros s0 H0; [exact H0|]. apply IH, Hstep, H0. }
  assert (Hrun : forall evs s0, I s0 -> err (run_events evs s0) = false -> I (run_events evs s0)).
  { clear He evs. induction evs as [|ev r IH]; intros s0 H0 He; [exact H0|].
    change (run_events (ev :: r) s0) with (run_events r (step s0 ev)) in *.
    apply IH; [|exact He]. destruct (step_micro s0 ev (err_false_run_head r s0 ev He)) as [ms ->]. apply Hm, H0. }
  apply Hrun; [apply Hinit|exact He].
Qed.

(** the same with an auxiliary invariant already known for reachable states *)
Theorem micro_invariant_with (J I : state -> Prop) :
  (forall scs, J (init_with scs)) -> (forall s m, J s -> J (mstep s m)) ->
  (forall scs, I (init_with scs)) ->
  (forall s m, J s -> I s -> I (mstep s m)) ->
  forall s, reachable s -> I s.
Proof.
  intros HJ0 HJ HI0 HI s Hr.
  enough (H : J s /\ I s) by apply H.
  revert s Hr. apply micro_invariant.
  - intros scs. split; [apply HJ0|apply HI0].
  - intros s m [H1 H2]. split; [apply HJ; exact H1|apply HI; assumption].
Qed.

(** errors are sticky under micro-steps too, so every intermediate state of an error-free run is error-free *)
Lemma err_mono_astep s t i rest : err s = true -> err (astep s t i rest) = true.
Proof.
  intros He. unfold astep.
  pose proof (set_pend_err_mono s t rest He) as H0.
  pose proof (exec1_state (set_pend s t rest) t (held_of (set_pend s t rest) t) i) as (_ & _ & H1). cbv zeta in H1. specialize (H1 H0).
  destruct (exec1 (set_pend s t rest) t (held_of (set_pend s t rest) t) i) as [s1 front]. cbn [fst] in H1.
  apply set_pend_err_mono. exact H1.
Qed.

Lemma err_mono_mstep s m : err s = true -> err (mstep s m) = true.
Proof.
  intros He. destruct m; cbn [mstep]; try (apply err_mono_step; exact He).
  - destruct (get s a) as [x|] eqn:Hg; [|reflexivity]. destruct (a_cons x); try reflexivity.
    pose proof (dispatch_err (set_actor s a (busy x)) a (busy x) e (get_set_same' s a _ x Hg)) as Hd.
    destruct (dispatch (set_actor s a (busy x)) a (busy x) e) as [s1 ins]. cbn [fst] in Hd.
    apply set_pend_err_mono. rewrite Hd. exact He.
  - destruct (pend_of s t) as [|i rest]; [reflexivity|]. destruct i; try reflexivity. apply set_pend_err_mono. exact He.
  - destruct (pend_of s t) as [|i rest]; [reflexivity|]. destruct i; try reflexivity. apply set_pend_err_mono. apply with_actor_fields. exact He.
  - destruct (pend_of s t) as [|i rest]; [reflexivity|]. destruct i; try reflexivity.
    destruct (get s (self_of t)) as [x|]; [|reflexivity]. destruct (a_paused x); apply set_pend_err_mono; exact He.
  - destruct (pend_of s t) as [|i rest]; [reflexivity|]. destruct i; try reflexivity. apply set_pend_err_mono. exact He.
  - destruct (pend_of s t) as [|i rest]; [exact He|].
    destruct i; try exact He; try (apply err_mono_astep; exact He).
    + apply set_pend_err_mono, resolve_err_mono. exact He.
    + destruct remaining; [apply err_mono_astep; exact He|exact He].
Qed.

Lemma err_mono_mrun ms : forall s, err s = true -> err (mrun ms s) = true.
Proof. induction ms as [|m ms IH]; intros s H; [exact H|]. apply IH, err_mono_mstep, H. Qed.

(** the invariant principle with error-freedom of every micro-step as an extra hypothesis *)
Theorem micro_invariant_err (J I : state -> Prop) :
  (forall scs, J (init_with scs)) -> (forall s m, J s -> J (mstep s m)) ->
  (forall scs, I (init_with scs)) ->
  (forall s m, J s -> I s -> err (mstep s m) = false -> I (mstep s m)) ->
  forall s, reachable s -> I s.
Proof.
  intros HJ0 HJ HI0 HI s (scs & evs & -> & He).
  assert (Hm : forall ms s0, J s0 -> I s0 -> err (mrun ms s0) = false -> J (mrun ms s0) /\ I (mrun ms s0)).
  { induction ms as [|m ms IH]; intros s0 J0 I0 E0; [split; assumption|]. change (mrun (m :: ms) s0) with (mrun ms (mstep s0 m)) in *.
    assert (Em : err (mstep s0 m) = false) by (destruct (err (mstep s0 m)) eqn:E; [rewrite (err_mono_mrun ms _ E) in E0; discriminate|reflexivity]).
    apply IH; [apply HJ; exact J0|apply HI; assumption|exact E0]. }
  assert (Hrun : forall evs s0, J s0 -> I s0 -> err (run_events evs s0) = false -> J (run_events evs s0) /\ I (run_events evs s0)).
  { clear He evs. induction evs as [|ev r IH]; intros s0 J0 I0 E0; [split; assumption|].
    change (run_events (ev :: r) s0) with (run_events r (step s0 ev)) in *.
    pose proof (err_false_run_head r s0 ev E0) as E1. destruct (step_micro s0 ev E1) as [ms Hms].
    rewrite Hms in *. destruct (Hm ms s0 J0 I0 E1) as [J1 I1]. apply IH; assumption. }
  apply (Hrun evs (init_with scs) (HJ0 scs) (HI0 scs) He).
Qed.
