(** Reference caches: outside the atomic loop, the reference object of every context except the root has its own
    mailbox cached (ActorOf tells OnLaunch through it right away), so a tell through a reference object always
    reaches the mailbox of the context that owns it. *)
From Coq Require Import List NArith ZArith Bool Lia Arith.
From Vivid Require Import Actor.Core Actor.CoreRun Actor.SpecMail Actor.ProofsMailBase Actor.ProofsMail Actor.ProofsMailInv
  Actor.ProofsMailWf Actor.ProofsMailAcct Actor.ProofsMailReg Actor.ProofsMailMicro Actor.ProofsMailLife Actor.ProofsMailStep
  Actor.ProofsMailTree Actor.ProofsMailMK Actor.ProofsMailKids Actor.ProofsMailCtx Actor.ProofsMailMicro2.
Import ListNotations.

Lemma exec1_len s t h i x :
  get s (self_of t) = Some x ->
  let r := exec1 s t h i in
  length (actors (fst r)) = length (actors s) \/
  (exists sp g fr, i = IAct (ASpawn sp) /\
     alookup (reg s) (a_path x ++ [sp_name sp]) = None /\
     reg (fst r) = reg s ++ [(a_path x ++ [sp_name sp], length (actors s))] /\
     actors (fst r) = upd (actors s) (self_of t) (set_children x (aset (a_children x) (a_path x ++ [sp_name sp]) (length (actors s))))
                      ++ [new_actor (a_path x ++ [sp_name sp]) g (Some (self_of t)) sp] /\
     snd r = IEnq true (RObj (length (actors s))) (RObj (self_of t)) MLaunch :: fr).
Proof.
  intros Hg. cbv zeta.
  assert (Hset : forall y, length (actors (set_actor s (self_of t) y)) = length (actors s)) by (intros; cbn; apply upd_length).
  unfold exec1. rewrite Hg.
  destruct i; try (left; reflexivity).
  - destruct remaining; left; reflexivity.
  - destruct a; try (left; reflexivity).
    + destruct (a_state x) eqn:Est; try (left; reflexivity).
      all: destruct (negb (sp_prelaunch sp)); [left; reflexivity|].
      all: destruct (alookup (reg s) (a_path x ++ [sp_name sp])) eqn:Hlk; [left; reflexivity|].
      all: right; cbn [fst snd].
      all: match goal with |- context[with_actor ?s1 _ _] =>
        assert (Hg1 : get s1 (self_of t) = Some x)
          by (unfold get; cbn [actors]; rewrite nth_error_app1 by (eapply nth_error_lt; exact Hg); exact Hg);
        rewrite (with_actor_some _ _ _ _ Hg1)
      end.
      all: eexists; eexists; eexists; split; [reflexivity|split; [exact Hlk|split; [reflexivity|split;
           [cbn [set_actor actors]; rewrite upd_app_l by (eapply nth_error_lt; exact Hg); reflexivity|reflexivity]]]].
    + destruct (a_cur x); left; [apply Hset|reflexivity].
    + destruct n as [n|].
      * destruct (Nat.eqb (length (a_stash x)) 0); left; [reflexivity|apply Hset].
      * destruct (a_stash x); left; [reflexivity|apply Hset].
    + destruct (alookup (subscribers s ty) (a_path x)); left; reflexivity.
    + destruct (nlookup (subs s) ty); left; reflexivity.
    + left. apply Hset.
    + left. apply Hset.
  - destruct (a_zombie x); [left; reflexivity|]. destruct (a_parent x).
    + destruct (take_until_panic acts). left; reflexivity.
    + destruct m; try (left; reflexivity). destruct (ref_eq s who (RObj (self_of t))); left; reflexivity.
  - destruct (subscribers s ty); left; reflexivity.
  - destruct (a_zombie x); [left; reflexivity|]. destruct (ref_eq s who (RObj (self_of t))); [left; reflexivity|].
    left. apply Hset.
  - destruct (a_children x); [|left; reflexivity]. destruct (a_state x) eqn:Est; try (left; reflexivity).
    left. apply Hset.
  - destruct (a_hooks x) as [|[[h1 h2] h3] rest].
    + left. apply Hset.
    + destruct (h2 && h3); left; apply Hset.
  - left. apply Hset.
  - destruct d; left; reflexivity.
  - left. apply Hset.
Qed.

Definition CacheI (s : state) : Prop := forall c xc, get s c = Some xc -> c <> 0 -> a_cache xc = Some c.
(** inside the atomic loop a context just created by ActorOf may not have been told OnLaunch yet *)
Definition CacheW (s : state) : Prop :=
  forall c xc, get s c = Some xc -> c <> 0 -> a_cache xc = Some c \/ (a_cache xc = None /\ regd s c xc).

Lemma CacheI_W s : CacheI s -> CacheW s.
Proof. intros H c xc Hg Hne. left. apply (H c xc Hg Hne). Qed.

Lemma resolve_obj s d xd : CacheW s -> get s d = Some xd -> d <> 0 -> fst (resolve s (RObj d)) = MbActor d.
Proof.
  intros HW Hg Hne. unfold resolve. rewrite Hg. destruct (HW d xd Hg Hne) as [Hc|[Hc Hr]]; rewrite Hc; [reflexivity|].
  unfold regd in Hr. rewrite Hr. reflexivity.
Qed.

Lemma cache_set_pend s t l c y' : get (set_pend s t l) c = Some y' -> exists y, get s c = Some y /\ a_cache y' = a_cache y.
Proof.
  destruct t as [a|j]; intros H.
  - destruct (get s a) as [x|] eqn:E.
    + rewrite (set_pend_TA _ _ _ _ E) in H. destruct (Nat.eq_dec a c) as [->|Hne].
      * rewrite (get_set_same' _ _ _ _ E) in H. inversion H; subst. exists x. split; [exact E|reflexivity].
      * rewrite get_set_other in H by exact Hne. exists y'. split; [exact H|reflexivity].
    + rewrite (set_pend_TA_none _ _ _ E) in H. exists y'. split; [exact H|reflexivity].
  - unfold get in H. rewrite set_pend_TX_actors in H. exists y'. split; [exact H|reflexivity].
Qed.

Lemma cache_keep s m c xc xc' : get s c = Some xc -> get (mstep s m) c = Some xc' -> a_cache xc = Some c -> a_cache xc' = Some c.
Proof.
  intros Hg Hg' Hc.
  destruct (mstep_cases s m) as [Hq|[(t & i & rest & pre & s1 & Hp & Hpl & Hf & Hu & Hq & _ & E)|[(a & xa & e & -> & Hga & Hca)|(t & i & rest & -> & Hp & Hyl & Hq & E)]]].
  - destruct Hq as (_ & _ & _ & _ & Hcr). destruct (Hcr c xc xc' Hg Hg') as [E|[E _]]; congruence.
  - rewrite E in Hg'. destruct (cache_set_pend _ _ _ _ _ Hg') as (y & Hy & Ey). rewrite Ey.
    destruct Hq as (_ & _ & _ & _ & Hcr). destruct (Hcr c xc y Hg Hy) as [E2|[E2 _]]; congruence.
  - cbn [mstep] in Hg'. rewrite Hga, Hca in Hg'.
    assert (Hl : a < length (actors s)) by (eapply nth_error_lt; exact Hga).
    set (s0 := set_actor s a (busy xa)) in *.
    assert (Hg0 : get s0 a = Some (busy xa)) by (apply get_set_same; exact Hl).
    destruct (dispatch_effect s0 a (busy xa) e Hg0) as (y & Hdf & Ha & _).
    destruct (dispatch s0 a (busy xa) e) as [s1 ins]. cbn [fst snd] in *.
    destruct (cache_set_pend _ _ _ _ _ Hg') as (y1 & Hy1 & Ey). rewrite Ey.
    unfold get in Hy1. rewrite Ha in Hy1. unfold s0 in Hy1. cbn [set_actor actors] in Hy1. rewrite upd_upd in Hy1.
    destruct (Nat.eq_dec a c) as [->|Hne].
    + rewrite nth_upd_eq in Hy1 by exact Hl. inversion Hy1; subst y1. rewrite (df_cache _ _ Hdf). cbn [busy set_mb a_cache]. congruence.
    + rewrite nth_upd_neq in Hy1 by exact Hne. unfold get in Hg. congruence.
  - rewrite E in Hg'. destruct (get s (self_of t)) as [x|] eqn:Hgs.
    + destruct (Nat.eq_dec c (self_of t)) as [->|Hne].
      * destruct (astep_table s t i rest x Hgs Hp) as (_ & y & news & Hy & _ & _ & Ha & _). cbv zeta in *.
        unfold get in Hg'. rewrite Ha in Hg'. rewrite nth_error_app1 in Hg' by (rewrite upd_length; eapply nth_error_lt; exact Hgs).
        rewrite nth_upd_eq in Hg' by (eapply nth_error_lt; exact Hgs). inversion Hg'; subst xc'.
        assert (x = xc) by congruence; subst x.
        destruct t; cbn [pushed popped upd_pend a_cache] in *; rewrite (lu_cache _ _ _ Hy); exact Hc.
      * rewrite (astep_other s t i rest x c Hgs Hp Hne) in Hg' by (eapply nth_error_lt; exact Hg). congruence.
    + destruct t as [a|j]; cbn [self_of] in *.
      * destruct (pend_of_TA_cons _ _ _ _ Hp) as (x0 & Hx0 & _). congruence.
      * destruct (foreign_astep s (TX j) i rest c xc Hg) as (y & Hy & Hls).
        { cbn [self_of]. intros ->. congruence. }
        (* the root is missing: the step is an error and leaves the table alone *)
        unfold astep in Hg'. rewrite (exec1_none _ _ _ _) in Hg' by (unfold get; rewrite set_pend_TX_actors; exact Hgs).
        destruct (cache_set_pend _ _ _ _ _ Hg') as (y1 & Hy1 & Ey). rewrite Ey.
        unfold get in Hy1. cbn [set_err actors] in Hy1. rewrite set_pend_TX_actors in Hy1. unfold get in Hg. congruence.
Qed.

Lemma CacheW_mstep s m : RInv (mstep s m) -> CacheI s -> CacheW (mstep s m).
Proof.
  intros (_ & _ & _ & R1 & _) HC c xc' Hg' Hne. destruct (get s c) as [xc|] eqn:Hg.
  - left. apply (cache_keep s m c xc xc' Hg Hg'). apply (HC c xc Hg Hne).
  - right. destruct (mstep_new s m c xc' Hg Hg') as (p & g & par & sp & ->). split; [reflexivity|].
    apply (R1 c _ Hg' Hne). left. discriminate.
Qed.

Lemma CacheI_same_len s m : CacheI s -> length (actors (mstep s m)) = length (actors s) -> CacheI (mstep s m).
Proof.
  intros HC Hl c xc' Hg' Hne. destruct (get s c) as [xc|] eqn:Hg.
  - apply (cache_keep s m c xc xc' Hg Hg'). apply (HC c xc Hg Hne).
  - rewrite (same_len_no_new s _ c Hl Hg) in Hg'. discriminate Hg'.
Qed.

Lemma app_eq_len {A} (l1 l2 r1 r2 : list A) : l1 ++ r1 = l2 ++ r2 -> length l1 = length l2 -> l1 = l2 /\ r1 = r2.
Proof.
  revert l2. induction l1 as [|a l1 IH]; intros [|b l2] H Hl; try discriminate Hl; [split; [reflexivity|exact H]|].
  cbn in H. inversion H; subst. destruct (IH l2 H2 ltac:(cbn in Hl; lia)) as [-> ->]. split; reflexivity.
Qed.

Lemma mstep_len s m :
  length (actors (mstep s m)) = length (actors s) \/
  (exists t i rest, m = MAtomic t /\ pend_of s t = i :: rest /\ yielding i = false /\ is_enq i = false /\ mstep s m = astep s t i rest).
Proof.
  destruct (mstep_cases s m) as [Hq|[(t & i & rest & pre & s1 & Hp & Hpl & Hf & Hu & Hq & _ & E)|[(a & xa & e & -> & Hga & Hca)|(t & i & rest & -> & Hp & Hyl & Hq & E)]]].
  - left. apply Hq.
  - left. rewrite E, len_set_pend. apply Hq.
  - left. cbn [mstep]. rewrite Hga, Hca.
    assert (Hl : a < length (actors s)) by (eapply nth_error_lt; exact Hga).
    set (s0 := set_actor s a (busy xa)) in *.
    assert (Hg0 : get s0 a = Some (busy xa)) by (apply get_set_same; exact Hl).
    destruct (dispatch_effect s0 a (busy xa) e Hg0) as (y & Hdf & Ha & _).
    destruct (dispatch s0 a (busy xa) e) as [s1 ins]. cbn [fst snd] in *.
    rewrite len_set_pend, Ha. unfold s0. cbn [set_actor actors]. rewrite !upd_length. reflexivity.
  - right. exists t, i, rest. auto.
Qed.

Lemma astep_len s t i rest x :
  get s (self_of t) = Some x -> pend_of s t = i :: rest -> err (astep s t i rest) = false ->
  let s' := astep s t i rest in
  length (actors s') = length (actors s) \/
  (exists nc fr, length (actors s') = S (length (actors s)) /\ get s' (length (actors s)) = Some nc /\ a_cache nc = None /\
                 alookup (reg s') (a_path nc) = Some (length (actors s)) /\
                 pend_of s' t = IEnq true (RObj (length (actors s))) (RObj (self_of t)) MLaunch :: fr).
Proof.
  intros Hg Hp He. cbv zeta.
  destruct (astep_table s t i rest x Hg Hp) as (Hg0 & y & news & Hy & Hnews & Ha1 & Ha & Hr & Hl0 & Hr0). cbv zeta in *.
  set (s0 := set_pend s t rest) in *.
  assert (Hl : self_of t < length (actors s)) by (eapply nth_error_lt; exact Hg).
  destruct (exec1_len s0 t (held_of s0 t) i _ Hg0) as [Hlen|(sp & g & fr & -> & Hlk & Hreg & Hact & Hfr)]; cbv zeta in *.
  - left. unfold astep. fold s0. destruct (exec1 s0 t (held_of s0 t) (i)) as [s1 front]. cbn [fst] in Hlen. rewrite len_set_pend, Hlen. exact Hl0.
  - right. rewrite Hl0 in *.
    assert (Hnews2 : news = [new_actor (a_path (popped t x rest) ++ [sp_name sp]) g (Some (self_of t)) sp]).
    { rewrite Hact in Ha1. apply app_eq_len in Ha1; [symmetry; apply Ha1|]. rewrite !upd_length. reflexivity. }
    assert (Hpd : exists tl, pend_of (astep s t (IAct (ASpawn sp)) rest) t = IEnq true (RObj (length (actors s))) (RObj (self_of t)) MLaunch :: tl).
    { unfold astep in *. fold s0 in He |- *. destruct (exec1 s0 t (held_of s0 t) (IAct (ASpawn sp))) as [s1 front] eqn:E. cbn [fst snd] in *.
      subst front. exists (fr ++ pend_of s1 t). rewrite (pend_of_set_pend_ok _ _ _ He). reflexivity. }
    destruct Hpd as [tl Hpd]. subst news. eexists. exists tl.
    split; [rewrite Ha, app_length, upd_length; cbn; lia|].
    split; [unfold get; rewrite Ha; rewrite nth_error_app2 by (rewrite upd_length; lia); rewrite upd_length, Nat.sub_diag; reflexivity|].
    split; [reflexivity|]. split; [|exact Hpd].
    rewrite Hr, Hreg. cbn [new_actor a_path]. rewrite alookup_app_none by (rewrite Hr0 in Hlk; rewrite Hr0; exact Hlk).
    rewrite alookup_single, path_eqb_refl. reflexivity.
Qed.

Lemma err_false_mstep s m : err (mstep s m) = false -> err s = false.
Proof. intros H. destruct (err s) eqn:E; [rewrite (err_mono_mstep s m E) in H; discriminate H|reflexivity]. Qed.

Theorem CacheI_mstep2 s m : RInv s -> CacheI s -> err (mstep2 s m) = false -> CacheI (mstep2 s m).
Proof.
  intros HR HC He.
  assert (Hplain : forall m0, (forall t, m0 <> MAtomic t) -> CacheI (mstep s m0)).
  { intros m0 Hn. destruct (mstep_len s m0) as [Hl|(t & i & rest & Em & _)]; [apply CacheI_same_len; assumption|]. exfalso. apply (Hn t Em). }
  destruct m; try (apply Hplain; intros t0 Ht0; discriminate Ht0).
  cbn [mstep2] in *. cbv zeta in *. set (s1 := mstep s (MAtomic t)) in *.
  assert (He1 : err s1 = false).
  { destruct (head_is_enq s1 t); [apply (err_false_mstep s1 (MAtomic t)); exact He|exact He]. }
  (* a second iteration that resolves a tell keeps the table length *)
  assert (Hsecond : CacheI s1 -> CacheI (if head_is_enq s1 t then mstep s1 (MAtomic t) else s1)).
  { intros HC1. destruct (head_is_enq s1 t) eqn:Hh; [|exact HC1].
    destruct (mstep_len s1 (MAtomic t)) as [Hl|(t' & i & rest & Em & Hp & _ & Hq & _)]; [apply CacheI_same_len; assumption|].
    inversion Em; subst t'. unfold head_is_enq in Hh. rewrite Hp in Hh. destruct i; discriminate. }
  destruct (mstep_len s (MAtomic t)) as [Hl|(t' & i & rest & Em & Hp & Hy & Hq & E)].
  - apply Hsecond. apply CacheI_same_len; assumption.
  - inversion Em; subst t'. fold s1 in E.
    assert (Hgs : exists x, get s (self_of t) = Some x).
    { destruct t as [a|j]; cbn [self_of].
      - destruct (pend_of_TA_cons _ _ _ _ Hp) as (x0 & Hx0 & _). eauto.
      - destruct HR as ((x0 & Hx0 & _) & _). eauto. }
    destruct Hgs as [x Hgs]. rewrite E in He1.
    destruct (astep_len s t i rest x Hgs Hp He1) as [Hl|(nc & fr & Hlen & Hgc & Hcn & Hreg & Hpd)]; cbv zeta in *; rewrite <- E in *.
    + apply Hsecond. apply CacheI_same_len; assumption.
    + assert (Hh : head_is_enq s1 t = true) by (unfold head_is_enq; rewrite Hpd; reflexivity).
      rewrite Hh in *. cbn [mstep]. rewrite Hpd.
      set (c := length (actors s)) in *.
      assert (Hres : snd (resolve s1 (RObj c)) =
                     set_actor s1 c {| a_path := a_path nc; a_gen := a_gen nc; a_parent := a_parent nc; a_spec := a_spec nc; a_state := a_state nc;
                                    a_zombie := a_zombie nc; a_restarting := a_restarting nc; a_children := a_children nc; a_watchers := a_watchers nc;
                                    a_stash := a_stash nc; a_modes := a_modes nc; a_inst := a_inst nc; a_decisions := a_decisions nc; a_hooks := a_hooks nc;
                                    a_cache := Some c; a_sq := a_sq nc; a_uq := a_uq nc; a_paused := a_paused nc; a_cons := a_cons nc; a_cur := a_cur nc;
                                    a_pend := a_pend nc |}).
      { unfold resolve. rewrite Hgc, Hcn, Hreg. reflexivity. }
      intros b xb' Hg' Hne. destruct (cache_set_pend _ _ _ _ _ Hg') as (y & Hyg & Ey). rewrite Ey. rewrite Hres in Hyg.
      destruct (Nat.eq_dec c b) as [<-|Hcb].
      * rewrite (get_set_same' _ _ _ _ Hgc) in Hyg. inversion Hyg; subst y. reflexivity.
      * rewrite get_set_other in Hyg by exact Hcb. destruct (get s b) as [xb|] eqn:Hgb.
        -- apply (cache_keep s (MAtomic t) b xb y Hgb Hyg). apply (HC b xb Hgb Hne).
        -- exfalso. apply nth_error_None in Hgb. fold c in Hgb.
           assert (Hb : get s1 b = None) by (apply nth_error_None; rewrite Hlen; lia). congruence.
Qed.

Lemma CacheI_init scs : CacheI (init_with scs).
Proof.
  intros c xc Hg Hne. unfold init_with, get in Hg.
  assert (Ha : forall scs s i, actors (set_exts s i scs) = actors s).
  { clear. induction scs as [|sc r IH]; intros s i; cbn [set_exts]; [reflexivity|]. rewrite IH. apply set_pend_TX_actors. }
  rewrite Ha in Hg. destruct c as [|[|c]]; cbn in Hg; try discriminate. congruence.
Qed.
