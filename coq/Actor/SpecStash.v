(** Derived notions for the stash clauses of C03 / C02 over whole histories of the ActorCore model
    (Actor/Core.v): the log of the user's own Stash / Unstash calls along a run, read off the model's execution
    without changing the model.  Definitions only; proofs in Actor/ProofsStash.v.

    Context.Stash / Unstash (internal/actor/context.go) are the actions [AStash] / [AUnstash n] of the scripted
    behaviours; they run inside the atomic phase of a handler ([run_atomic]), so they are not events of the
    machine.  [atomic_sops] re-runs [run_atomic]'s own recursion (same [exec1], same states) and records, for
    every instruction executed, what it parks in / takes out of the executing context's stash - with the
    envelopes read from the model state at that moment, not recomputed. *)
From Coq Require Import List NArith ZArith Bool.
From Vivid Require Import Actor.Core Actor.CoreRun Actor.SpecMail.
Import ListNotations.

(** the stash of actor [b] (empty for a record that does not exist yet) *)
Definition stash_at (s : state) (b : aid) : list envelope := match get s b with Some x => a_stash x | None => [] end.

(** how many parked envelopes Unstash takes, as the code computes it: 1 without argument, max(min(n, len), 0) with n *)
Definition unstash_k (n : option Z) (len : nat) : nat :=
  match n with None => 1 | Some n => Z.to_nat (Z.max (Z.min n (Z.of_nat len)) 0) end.

(** one stash operation of context [a]: Stash() parks the current envelope; Unstash takes [es] (oldest first) *)
Inductive sop := SPark (a : aid) (e : envelope) | STake (a : aid) (es : list envelope).
Definition sop_actor (o : sop) : aid := match o with SPark a _ | STake a _ => a end.

(** what instruction [i] of thread [t] does to a stash when executed in state [s] *)
Definition instr_sops (s : state) (t : tid) (i : instr) : list sop :=
  match get s (self_of t) with
  | None => []
  | Some x =>
      match i with
      | IAct AStash => match a_cur x with Some e => [SPark (self_of t) e] | None => [] end
      | IAct (AUnstash n) =>
          match a_stash x with
          | [] => []
          | _ :: _ => [STake (self_of t) (firstn (unstash_k n (length (a_stash x))) (a_stash x))]
          end
      | _ => []
      end
  end.

(** the stash operations of one atomic phase: the recursion of [run_atomic], instruction by instruction *)
Fixpoint atomic_sops (fuel : nat) (s : state) (t : tid) : list sop :=
  match fuel with
  | O => []
  | S f =>
      match pend_of s t with
      | [] => []
      | IEnq _ _ _ _ :: _ => []
      | i :: rest =>
          if yielding i then []
          else
            let s0 := set_pend s t rest in
            let (s1, front) := exec1 s0 t (held_of s0 t) i in
            instr_sops s0 t i ++ atomic_sops f (set_pend s1 t (front ++ pend_of s1 t)) t
      end
  end.

(** the state and thread on which [step s ev] starts an atomic phase ([None]: the event runs no atomic phase -
    queue insertions, pops, the paused load, Resume's first CAS on a paused mailbox, and events that do not fit) *)
Definition pre_atomic (s : state) (ev : event) : option (state * tid) :=
  match ev with
  | EvHandle a =>
      match get s a with
      | Some x =>
          match a_cons x with
          | CH e =>
              let x0 := set_mb x (a_sq x) (a_uq x) (a_paused x) (CBusy (mode_top x)) (a_cur x) in
              let (s1, ins) := dispatch (set_actor s a x0) a x0 e in
              Some (set_pend s1 (TA a) ins, TA a)
          | _ => None
          end
      | None => None
      end
  | EvStart i => Some (s, TX i)
  | EvEnqDone t => match pend_of s t with IEnqDone :: rest => Some (set_pend s t rest, t) | _ => None end
  | EvPauseSt t =>
      match pend_of s t with
      | IPauseSt :: rest =>
          Some (set_pend (with_actor s (self_of t) (fun x => set_mb x (a_sq x) (a_uq x) true (a_cons x) (a_cur x))) t rest, t)
      | _ => None
      end
  | EvResume1 t =>
      match pend_of s t, get s (self_of t) with
      | IResume1 :: rest, Some x => if a_paused x then None else Some (set_pend s t rest, t)
      | _, _ => None
      end
  | EvResume2 t => match pend_of s t with IResume2 :: rest => Some (set_pend s t rest, t) | _ => None end
  | _ => None
  end.

(** the stash operations of one event, and of a run *)
Definition step_sops (s : state) (ev : event) : list sop :=
  match pre_atomic s ev with Some (s', t) => atomic_sops FUEL s' t | None => [] end.
Fixpoint run_sops (evs : list event) (s : state) : list sop :=
  match evs with [] => [] | ev :: r => step_sops s ev ++ run_sops r (step s ev) end.

(** what a list of operations parks in / takes out of the stash of [b], in order *)
Definition parked_of (b : aid) (ops : list sop) : list envelope :=
  flat_map (fun o => match o with SPark a e => if Nat.eqb a b then [e] else [] | STake _ _ => [] end) ops.
Definition taken_of (b : aid) (ops : list sop) : list envelope :=
  flat_map (fun o => match o with STake a es => if Nat.eqb a b then es else [] | SPark _ _ => [] end) ops.
