(** The lifecycle-phase invariant: per context, the significant instructions still pending determine, with
    the state and the zombie flag, where in its lifecycle the actor is.  Basis of C05-b and C06-a/b. *)
From Coq Require Import List NArith ZArith Bool Lia.
From Vivid Require Import Base.Tm Actor.Core Actor.CoreRun Actor.SpecLife Actor.ProofsLife Actor.ProofsLifeInv Actor.ProofsLifeSum.
Import ListNotations.
Local Open Scope N_scope.
(* conversion hint only: never unfold the 4000-step fuel when comparing two calls of [run_atomic] *)
#[local] Strategy 100 [run_atomic FUEL].

Definition alive (st : astate) : bool := match st with Killed => false | _ => true end.
Definition is_killing (st : astate) : bool := match st with Killing => true | _ => false end.
Definition is_killed (st : astate) : bool := match st with Killed => true | _ => false end.
Definition msg_own (a : aid) (m : msg) : bool := match m with MKilled (RObj b) => Nat.eqb a b | _ => false end.
Definition cur_not_own (a : aid) (x : actor) : bool :=
  match a_cur x with Some e => negb (msg_own a (e_msg e)) | None => true end.

(** the possible lists of significant pending instructions (in order), given state, zombie flag and
    "the current envelope is not the own OnKilled" *)
Inductive phase (a : aid) (st : astate) (z cno : bool) : list instr -> Prop :=
| PhEnd : phase a st z cno [IEndHandler]
| PhBeh m ac r : alive st || z = true -> msg_own a m = false -> phase a st z cno [IBeh m ac r; IEndHandler]
| PhDoKill p : is_killing st || z = true -> cno = true -> phase a st z cno [IDoKill p; IEndHandler]
| PhBehOnKilled m ac r w : is_killing st || z = true -> msg_own a m = false ->
    phase a st z cno [IBeh m ac r; IOnKilled w; IEndHandler]
| PhOnKilled w : alive st || z = true -> phase a st z cno [IOnKilled w; IEndHandler]
| PhBehMark m ac r : alive st = true -> z = false -> msg_own a m = false ->
    phase a st z cno [IBeh m ac r; ICheckMark; IEndHandler]
| PhMark : alive st = true -> z = false -> phase a st z cno [ICheckMark; IEndHandler]
| PhBehCleanup m ac r : st = Killed -> z = false -> phase a st z cno [IBeh m ac r; ICleanup; IEndHandler]
| PhCleanup : st = Killed -> z = false -> phase a st z cno [ICleanup; IEndHandler]
| PhBehRestart m ac r : st = Killed -> z = false -> phase a st z cno [IBeh m ac r; IRestartFinish; IEndHandler]
| PhRestart : st = Killed -> z = false -> phase a st z cno [IRestartFinish; IEndHandler]
| PhCleanupUnz : st = Killed -> z = true -> phase a st z cno [ICleanup; IUnzombie; IEndHandler]
| PhUnz : st = Killed -> z = true -> phase a st z cno [IUnzombie; IEndHandler].

Definition INV (a : aid) (x : actor) : Prop :=
  (a_zombie x = true -> a_state x = Killed) /\
  (a_pend x = [] \/
   (is_busy (a_cons x) = true /\ end_last (a_pend x) = true /\
    phase a (a_state x) (a_zombie x) (cur_not_own a x) (filter sig (a_pend x)))).

(** external callers only ever have plain instructions pending *)
Definition ext_plain (s : state) : Prop :=
  forall i ex, nth_error (exts s) i = Some ex -> forall j, In j (x_pend ex) -> sig j = false.

Definition SInv (s : state) : Prop := (forall a x, get s a = Some x -> INV a x) /\ ext_plain s.

(* ------------------------------------------------------------------ list lemmas *)

Lemma end_last_cons i rest : rest <> [] -> end_last (i :: rest) = negb (is_end i) && end_last rest.
Proof. destruct rest; [congruence|reflexivity]. Qed.

Lemma end_last_nonend i rest : end_last (i :: rest) = true -> is_end i = false -> rest <> [] /\ end_last rest = true.
Proof.
  destruct rest as [|j r]; cbn [end_last]; [intros H1 H2; congruence|].
  intros H _. apply andb_prop in H as [_ H]. split; [discriminate|exact H].
Qed.

Lemma end_last_end i rest : end_last (i :: rest) = true -> is_end i = true -> rest = [].
Proof.
  destruct rest as [|j r]; [reflexivity|]. cbn [end_last]. intros H1 H2. rewrite H2 in H1. discriminate.
Qed.

Lemma end_last_app front rest :
  (forall j, In j front -> is_end j = false) -> end_last rest = true -> end_last (front ++ rest) = true.
Proof.
  intros Hf Hr. induction front as [|j front IH]; [exact Hr|].
  cbn [app]. rewrite end_last_cons.
  - rewrite (Hf j (or_introl eq_refl)). cbn [negb andb]. apply IH. intros k Hk. apply Hf. right; exact Hk.
  - destruct front; cbn [app]; [|discriminate]. destruct rest; [discriminate|discriminate].
Qed.

Lemma filter_app_none {A} (f : A -> bool) front rest :
  (forall j, In j front -> f j = false) -> filter f (front ++ rest) = filter f rest.
Proof.
  intros Hf. induction front as [|j front IH]; [reflexivity|].
  cbn [app filter]. rewrite (Hf j (or_introl eq_refl)). apply IH. intros k Hk. apply Hf. right; exact Hk.
Qed.

Lemma sig_end j : sig j = false -> is_end j = false.
Proof. destruct j; cbn; try reflexivity; discriminate. Qed.

Lemma nonsig_chg i :
  sig i = false ->
  gen_sig i = false /\ chg_state i = false /\ chg_zombie i = false /\ chg_restarting i = false /\
  chg_cons i = false /\ chg_cur i = false /\ chg_children i = false /\ chg_reg i = false /\ is_end i = false.
Proof. destruct i; cbn; intros H; try discriminate H; repeat split. Qed.

Lemma yielding_nonsig i : yielding i = true -> sig i = false.
Proof. destruct i; cbn; try discriminate; reflexivity. Qed.

(** INV only looks at state, zombie, current envelope, consumer position and pending list *)
Lemma INV_ext a x y :
  a_state y = a_state x -> a_zombie y = a_zombie x -> a_cur y = a_cur x -> a_cons y = a_cons x -> a_pend y = a_pend x ->
  INV a x -> INV a y.
Proof.
  intros H1 H2 H3 H4 H5 (Hz & Hp). unfold INV, cur_not_own. rewrite H1, H2, H3, H4, H5. split; assumption.
Qed.

Lemma INV_lsame a x y : lsame x y -> INV a x -> INV a y.
Proof. intros Hl. apply INV_ext; apply Hl. Qed.

(** replacing a plain head instruction by plain instructions *)
Lemma INV_plain_head a x y i rest front :
  INV a x -> a_pend x = i :: rest -> sig i = false -> (forall j, In j front -> sig j = false) ->
  a_state y = a_state x -> a_zombie y = a_zombie x -> a_cur y = a_cur x -> a_cons y = a_cons x ->
  a_pend y = front ++ rest -> INV a y.
Proof.
  intros (Hz & Hp) Hpx Hi Hf H1 H2 H3 H4 H5. unfold INV, cur_not_own. rewrite H1, H2, H3, H4, H5.
  split; [exact Hz|]. right. destruct Hp as [Hp|(Hb & He & Hph)]; [congruence|].
  rewrite Hpx in He, Hph. cbn [filter] in Hph. rewrite Hi in Hph.
  destruct (end_last_nonend _ _ He (sig_end _ Hi)) as [Hne Her].
  split; [exact Hb|]. split.
  - apply end_last_app; [|exact Her]. intros j Hj. apply sig_end, Hf, Hj.
  - rewrite filter_app_none by exact Hf. exact Hph.
Qed.

(* ------------------------------------------------------------------ the micro-step of the context's own thread *)

Lemma INV_head a x i rest :
  INV a x -> a_pend x = i :: rest ->
  (a_zombie x = true -> a_state x = Killed) /\ is_busy (a_cons x) = true /\ end_last (i :: rest) = true /\
  phase a (a_state x) (a_zombie x) (cur_not_own a x) (if sig i then i :: filter sig rest else filter sig rest).
Proof.
  intros (Hz & Hp) Hpx. split; [exact Hz|]. destruct Hp as [Hp|(Hb & He & Hph)]; [congruence|].
  rewrite Hpx in He, Hph. cbn [filter] in Hph. auto.
Qed.

Lemma mk_INV a y :
  (a_zombie y = true -> a_state y = Killed) -> is_busy (a_cons y) = true -> end_last (a_pend y) = true ->
  phase a (a_state y) (a_zombie y) (cur_not_own a y) (filter sig (a_pend y)) -> INV a y.
Proof. intros H1 H2 H3 H4. split; [exact H1|]. right. auto. Qed.

Ltac front_nonend := intros j Hj; in_front Hj; subst; reflexivity.

Lemma zk_of_phase st z : (z = true -> st = Killed) -> is_killing st || z = true -> z = false -> st = Killing.
Proof. intros H1 H2 H3. subst z. rewrite orb_false_r in H2. destruct st; try discriminate; reflexivity. Qed.

Lemma INV_exec_self a s0 x i rest h s1 front x1 :
  INV a x -> a_pend x = i :: rest -> yielding i = false -> (forall sys to sender m, i <> IEnq sys to sender m) ->
  get s0 a = Some (upd_pend x rest) ->
  exec1 s0 (TA a) h i = (s1, front) -> get s1 a = Some x1 ->
  INV a (upd_pend x1 (front ++ rest)).
Proof.
  intros HI Hpx Hy Hne Hg0 He Hg1.
  destruct (INV_head _ _ _ _ HI Hpx) as (Hz & Hb & Hel & Hph).
  change a with (self_of (TA a)) in Hg0, Hg1.
  destruct (sig i) eqn:Hs.
  2:{ (* plain instruction *)
    destruct (nonsig_chg _ Hs) as (Hgs & C1 & C2 & C3 & C4 & C5 & _).
    destruct (exec1_self _ _ _ _ _ _ _ He Hg0) as (x1' & Hg1' & Hc & _ & F1 & F2 & _ & F4 & F5 & _).
    rewrite Hg1 in Hg1'. inversion Hg1'; subst x1'.
    apply (INV_plain_head a x _ i rest front HI Hpx Hs (exec1_front_plain _ _ _ _ _ _ Hgs He)); cbn [upd_pend a_state a_zombie a_cur a_cons a_pend].
    - rewrite (F1 C1). reflexivity.
    - rewrite (F2 C2). reflexivity.
    - rewrite (F5 C5). reflexivity.
    - rewrite (F4 C4). reflexivity.
    - reflexivity. }
  destruct i; try discriminate Hs; try discriminate Hy.
  - (* IBeh *)
    destruct (exec1_self _ _ _ _ _ _ _ He Hg0) as (x1' & Hg1' & Hc & _ & F1 & F2 & _ & F4 & F5 & _).
    rewrite Hg1 in Hg1'. inversion Hg1'; subst x1'.
    specialize (F1 eq_refl). specialize (F2 eq_refl). specialize (F4 eq_refl). specialize (F5 eq_refl).
    cbn [upd_pend a_state a_zombie a_cur a_cons] in F1, F2, F4, F5.
    pose proof (exec1_front_plain _ _ _ _ _ _ (eq_refl : gen_sig (IBeh m acts r) = false) He) as Hf.
    destruct (end_last_nonend _ _ Hel eq_refl) as [Hrne Her].
    apply mk_INV; unfold cur_not_own; cbn [upd_pend a_state a_zombie a_cur a_cons a_pend]; rewrite ?F1, ?F2, ?F4, ?F5.
    + exact Hz.
    + exact Hb.
    + apply end_last_app; [intros j Hj; apply sig_end, Hf, Hj|exact Her].
    + rewrite filter_app_none by exact Hf. fold (cur_not_own a x).
      inversion Hph; subst; try (constructor; assumption).
      constructor. destruct (a_state x); try discriminate; destruct (a_zombie x); try reflexivity; discriminate.
  - (* IDoKill *)
    rewrite (exec1_IDoKill _ _ _ _ _ Hg0) in He. inversion He; subst s1 front; clear He.
    rewrite Hg0 in Hg1. inversion Hg1; subst x1; clear Hg1.
    destruct (end_last_nonend _ _ Hel eq_refl) as [Hrne Her].
    apply mk_INV; unfold cur_not_own; cbn [upd_pend a_state a_zombie a_cur a_cons a_pend self_of].
    + exact Hz.
    + exact Hb.
    + apply end_last_app; [front_nonend|exact Her].
    + rewrite filter_app. fold (cur_not_own a x).
      inversion Hph; subst.
      destruct (a_children x); cbn [app filter sig life_src is_unzombie is_beh is_end is_obs_seen orb];
      (constructor; [assumption|]);
      (match goal with H : cur_not_own a x = true |- _ => unfold cur_not_own in H;
       destruct (a_cur x); [apply negb_true_iff; exact H|reflexivity] end).
  - (* IOnKilled *)
    destruct (end_last_nonend _ _ Hel eq_refl) as [Hrne Her].
    destruct (a_zombie x) eqn:Hzx.
    + rewrite (exec1_IOnKilled_zombie _ _ _ _ who Hg0 Hzx) in He. inversion He; subst s1 front; clear He.
      rewrite Hg0 in Hg1. inversion Hg1; subst x1; clear Hg1.
      apply mk_INV; unfold cur_not_own; cbn [upd_pend a_state a_zombie a_cur a_cons a_pend self_of app]; rewrite ?Hzx.
      * exact Hz.
      * exact Hb.
      * rewrite !end_last_cons by (try discriminate; exact Hrne). cbn. exact Her.
      * cbn [filter sig life_src is_unzombie is_beh is_end is_obs_seen orb].
        inversion Hph; subst. constructor; [apply Hz; reflexivity|reflexivity].
    + destruct (ref_eq s0 who (RObj (self_of (TA a)))) eqn:Hre.
      * assert (He' : exec1 s0 (TA a) h (IOnKilled who) = (s0, [ICheckMark])).
        { unfold exec1. rewrite Hg0. cbn [a_zombie upd_pend]. rewrite Hzx, Hre. reflexivity. }
        rewrite He' in He. inversion He; subst s1 front; clear He.
        rewrite Hg0 in Hg1. inversion Hg1; subst x1; clear Hg1.
        apply mk_INV; unfold cur_not_own; cbn [upd_pend a_state a_zombie a_cur a_cons a_pend self_of app]; rewrite ?Hzx.
        -- exact Hz.
        -- exact Hb.
        -- rewrite end_last_cons by exact Hrne. exact Her.
        -- cbn [filter sig life_src is_unzombie is_beh is_end is_obs_seen orb].
           inversion Hph; subst. constructor; [|reflexivity]. rewrite orb_false_r in *. assumption.
      * destruct (exec1_IOnKilled_other _ _ h _ who Hg0 Hzx Hre) as (x' & He' & _ & Hst & Hzz & _ & Hpp & Hcc & _).
        rewrite He' in He. inversion He; subst s1 front; clear He.
        rewrite (get_set_actor_same _ _ _ _ Hg0) in Hg1. inversion Hg1; subst x1; clear Hg1.
        assert (Hcur : a_cur x' = a_cur x).
        { destruct (exec1_self _ _ _ _ _ _ _ He' Hg0) as (x1' & Hg1' & _ & _ & _ & _ & _ & _ & F5 & _).
          rewrite (get_set_actor_same _ _ _ _ Hg0) in Hg1'. inversion Hg1'; subst x1'. exact (F5 eq_refl). }
        cbn [upd_pend a_state a_zombie a_cons] in Hst, Hzz, Hcc.
        apply mk_INV; unfold cur_not_own; cbn [upd_pend a_state a_zombie a_cur a_cons a_pend self_of app]; rewrite ?Hst, ?Hzz, ?Hcc, ?Hcur.
        -- intros; discriminate.
        -- exact Hb.
        -- rewrite !end_last_cons by (try discriminate; exact Hrne). cbn. exact Her.
        -- cbn [filter sig life_src is_unzombie is_beh is_end is_obs_seen orb].
           inversion Hph; subst. constructor; [rewrite orb_false_r in *; assumption|reflexivity|].
           destruct who as [c| |]; try reflexivity. cbn [msg_own].
           destruct (Nat.eqb a c) eqn:Hac; [|reflexivity]. apply Nat.eqb_eq in Hac. subst c.
           cbn [self_of] in Hre. rewrite (ref_eq_self s0 a _ Hg0) in Hre. discriminate.
  - (* ICheckMark *)
    destruct (end_last_nonend _ _ Hel eq_refl) as [Hrne Her].
    inversion Hph; subst.
    match goal with H : a_zombie x = false |- _ => rename H into Hzx end.
    destruct (a_children x) eqn:Hch.
    2:{ rewrite (exec1_ICheckMark_noop _ _ h _ Hg0) in He by (left; cbn [a_children upd_pend]; congruence).
        inversion He; subst s1 front; clear He. rewrite Hg0 in Hg1. inversion Hg1; subst x1; clear Hg1.
        apply mk_INV; unfold cur_not_own; cbn [upd_pend a_state a_zombie a_cur a_cons a_pend self_of app]; try assumption.
        replace (filter sig rest) with [IEndHandler] by assumption. constructor. }
    destruct (a_state x) eqn:Hst.
    1,3: rewrite (exec1_ICheckMark_noop _ _ h _ Hg0) in He by (right; cbn [a_state upd_pend]; congruence);
         inversion He; subst s1 front; clear He; rewrite Hg0 in Hg1; inversion Hg1; subst x1; clear Hg1;
         apply mk_INV; unfold cur_not_own; cbn [upd_pend a_state a_zombie a_cur a_cons a_pend self_of app]; rewrite ?Hst; try assumption;
         replace (filter sig rest) with [IEndHandler] by assumption; constructor.
    destruct (exec1_ICheckMark_marks _ _ h _ Hg0 Hch Hst) as (x' & He' & Hst' & _ & Hzz & Hrr & Hcur & Hpp & Hcc & _).
    rewrite He' in He. inversion He; subst s1 front; clear He.
    rewrite (get_set_actor_same _ _ _ _ Hg0) in Hg1. inversion Hg1; subst x1; clear Hg1.
    cbn [upd_pend a_state a_zombie a_cons a_restarting] in Hst', Hzz, Hcc, Hrr.
    apply mk_INV; unfold cur_not_own; cbn [upd_pend a_state a_zombie a_cur a_cons a_pend self_of app]; rewrite ?Hst', ?Hzz, ?Hcc, ?Hzx.
    + reflexivity.
    + exact Hb.
    + destruct (a_restarting x); cbn [app]; rewrite !end_last_cons by (try discriminate; exact Hrne); cbn; exact Her.
    + destruct (a_restarting x); cbn [app filter sig life_src is_unzombie is_beh is_end is_obs_seen orb];
      match goal with H : [IEndHandler] = filter sig rest |- _ => rewrite <- H end; constructor; reflexivity.
      (* *)
  - (* ICleanup *)
    rewrite (exec1_ICleanup _ _ _ _ Hg0) in He. inversion He; subst s1 front; clear He.
    unfold get in Hg1, Hg0; cbn [actors set_reg set_subs] in Hg1.
    rewrite Hg0 in Hg1. inversion Hg1; subst x1; clear Hg1.
    destruct (end_last_nonend _ _ Hel eq_refl) as [Hrne Her].
    apply mk_INV; unfold cur_not_own; cbn [upd_pend a_state a_zombie a_cur a_cons a_pend self_of].
    + exact Hz.
    + exact Hb.
    + apply end_last_app; [front_nonend|exact Her].
    + rewrite filter_app_none by (intros j Hj; in_front Hj; subst; reflexivity).
      fold (cur_not_own a x). inversion Hph; subst; constructor; assumption.
  - (* IRestartFinish *)
    destruct (end_last_nonend _ _ Hel eq_refl) as [Hrne Her].
    inversion Hph; subst.
    match goal with H : a_zombie x = false |- _ => rename H into Hzx end.
    match goal with H : a_state x = Killed |- _ => rename H into Hst end.
    destruct (hooks_ok (upd_pend x rest)) eqn:Hok.
    + destruct (exec1_restart_finish_ok _ _ h _ Hg0 Hok) as (x' & He' & Hst' & _ & Hzz & _ & _ & _ & Hcc & Hcur & _).
      rewrite He' in He. inversion He; subst s1 front; clear He.
      rewrite (get_set_actor_same _ _ _ _ Hg0) in Hg1. inversion Hg1; subst x1; clear Hg1.
      cbn [upd_pend a_zombie] in Hzz.
      apply mk_INV; unfold cur_not_own; cbn [upd_pend a_state a_zombie a_cur a_cons a_pend self_of app]; rewrite ?Hst', ?Hzz, ?Hcc, ?Hzx, ?Hcur.
      * discriminate.
      * reflexivity.
      * rewrite !end_last_cons by (try discriminate; exact Hrne). cbn. exact Her.
      * cbn [filter sig life_src is_unzombie is_beh is_end is_obs_seen orb].
        match goal with H : [IEndHandler] = filter sig rest |- _ => rewrite <- H end. constructor; reflexivity.
    + destruct (exec1_restart_finish_fail _ _ h _ Hg0 Hok) as (x' & He' & Hzz & Hst' & _ & _ & _ & Hcc & _).
      rewrite He' in He. inversion He; subst s1 front; clear He.
      rewrite (get_set_actor_same _ _ _ _ Hg0) in Hg1. inversion Hg1; subst x1; clear Hg1.
      cbn [upd_pend a_state a_cons] in Hst', Hcc.
      apply mk_INV; unfold cur_not_own; cbn [upd_pend a_state a_zombie a_cur a_cons a_pend self_of app]; rewrite ?Hst', ?Hzz, ?Hcc, ?Hst.
      * reflexivity.
      * exact Hb.
      * rewrite end_last_cons by exact Hrne. exact Her.
      * cbn [filter sig life_src is_unzombie is_beh is_end is_obs_seen orb].
        match goal with H : [IEndHandler] = filter sig rest |- _ => rewrite <- H end. constructor.
  - (* IUnzombie *)
    destruct (end_last_nonend _ _ Hel eq_refl) as [Hrne Her].
    inversion Hph; subst.
    rewrite (exec1_IUnzombie _ _ _ _ Hg0) in He. inversion He; subst s1 front; clear He.
    rewrite (get_set_actor_same _ _ _ _ Hg0) in Hg1. inversion Hg1; subst x1; clear Hg1.
    apply mk_INV; unfold cur_not_own; cbn [upd_pend a_state a_zombie a_cur a_cons a_pend self_of app set_zombie upd_local].
    + discriminate.
    + exact Hb.
    + exact Her.
    + match goal with H : [IEndHandler] = filter sig rest |- _ => rewrite <- H end. constructor.
  - (* IObs *)
    destruct o; try discriminate Hs. inversion Hph.
  - (* IEndHandler *)
    pose proof (end_last_end _ _ Hel eq_refl) as Hr. subst rest.
    assert (He' : exec1 s0 (TA a) h IEndHandler =
                  (set_actor s0 a (set_mb (upd_pend x []) (a_sq x) (a_uq x) (a_paused x) C1 (a_cur x)), [])).
    { unfold exec1. rewrite Hg0. reflexivity. }
    rewrite He' in He. inversion He; subst s1 front; clear He.
    rewrite (get_set_actor_same _ _ _ _ Hg0) in Hg1. inversion Hg1; subst x1; clear Hg1.
    split; [exact Hz|]. left. reflexivity.
Qed.

(* ------------------------------------------------------------------ the micro-step preserves SInv *)

Lemma INV_idle a x : a_zombie x = false -> a_pend x = [] -> INV a x.
Proof. intros Hz Hp. split; [rewrite Hz; discriminate|left; exact Hp]. Qed.

Lemma pend_of_TA_cons s a i rest : pend_of s (TA a) = i :: rest -> exists x, get s a = Some x /\ a_pend x = i :: rest.
Proof. cbn [pend_of]. destruct (get s a) as [x|]; [|discriminate]. intros H. exists x. split; [reflexivity|exact H]. Qed.

Lemma pend_of_TX_cons s k i rest : pend_of s (TX k) = i :: rest -> exists ex, nth_error (exts s) k = Some ex /\ x_pend ex = i :: rest.
Proof. cbn [pend_of]. destruct (nth_error (exts s) k) as [x|]; [|discriminate]. intros H. exists x. split; [reflexivity|exact H]. Qed.

Lemma ext_plain_of_pend s s' :
  (forall k, option_map x_pend (nth_error (exts s') k) = option_map x_pend (nth_error (exts s) k)) ->
  ext_plain s -> ext_plain s'.
Proof.
  intros H Hp k ex Hn j Hj. specialize (H k). rewrite Hn in H. cbn [option_map] in H.
  destruct (nth_error (exts s) k) as [ex0|] eqn:Hn0; [|discriminate H]. cbn [option_map] in H.
  apply (Hp k ex0 Hn0 j). congruence.
Qed.

Lemma SInv_astep s t i rest :
  SInv s -> pend_of s t = i :: rest -> yielding i = false -> (forall sys to sender m, i <> IEnq sys to sender m) ->
  SInv (astep s t i rest).
Proof.
  intros [HA HX] Hp Hy Hne. destruct t as [a|k].
  - destruct (pend_of_TA_cons _ _ _ _ Hp) as (x & Hg & Hpx).
    destruct (astep_TA s a i rest x Hg) as (s1 & front & x1 & He & Hg1 & Hp1 & ->).
    assert (Hg0 : get (set_actor s a (upd_pend x rest)) a = Some (upd_pend x rest)) by apply (get_set_actor_same _ _ _ _ Hg).
    split.
    + intros b y Hb. destruct (Nat.eq_dec a b) as [<-|Hab].
      * rewrite (get_set_actor_same _ _ _ _ Hg1) in Hb. inversion Hb; subst y.
        apply (INV_exec_self a _ x i rest [] s1 front x1 (HA a x Hg) Hpx Hy Hne Hg0 He Hg1).
      * rewrite get_set_actor_other in Hb by exact Hab.
        destruct (exec1_other _ _ _ _ _ _ b y He (fun E => Hab (eq_sym E)) Hb) as [Hb0|(_ & _ & sp & x0 & _ & _ & _ & _ & _ & ->)].
        -- rewrite get_set_actor_other in Hb0 by exact Hab. apply (HA b y Hb0).
        -- apply INV_idle; reflexivity.
    + apply (ext_plain_of_pend s); [|exact HX]. intros k.
      change (exts (set_actor s1 a (upd_pend x1 (front ++ rest)))) with (exts s1).
      rewrite (exec1_exts_pend _ _ _ _ _ _ He k). reflexivity.
  - destruct (pend_of_TX_cons _ _ _ _ Hp) as (ex & Hn & Hpx).
    assert (Hs : sig i = false) by (apply (HX k ex Hn); rewrite Hpx; left; reflexivity).
    destruct (nonsig_chg _ Hs) as (Hgs & C1 & C2 & C3 & C4 & C5 & _).
    destruct (astep_TX s k i rest ex Hn) as (s1 & front & ex1 & He & Hn1 & Hp1 & Hoth & ->).
    split.
    + intros b y Hb. change (get (set_ext s1 k {| x_pend := front ++ rest; x_held := x_held ex1 |}) b) with (get s1 b) in Hb.
      destruct (Nat.eq_dec b 0) as [->|Hb0].
      * destruct (get s 0) as [x|] eqn:Hg.
        2:{ unfold exec1 in He. cbn [self_of] in He.
            change (get (set_ext s k {| x_pend := rest; x_held := x_held ex |}) 0%nat) with (get s 0%nat) in He.
            rewrite Hg in He. inversion He; subst s1. unfold get in Hg, Hb. cbn [actors set_err set_ext] in Hb. congruence. }
        assert (Hg0 : get (set_ext s k {| x_pend := rest; x_held := x_held ex |}) (self_of (TX k)) = Some x) by exact Hg.
        destruct (exec1_self _ _ _ _ _ _ _ He Hg0) as (x1 & Hg1 & Hc & _ & F1 & F2 & _ & F4 & F5 & _).
        cbn [self_of] in Hg1. rewrite Hg1 in Hb. inversion Hb; subst y.
        apply (INV_ext 0 x x1); auto. apply Hc.
      * destruct (exec1_other _ _ _ _ _ _ b y He Hb0 Hb) as [Hb1|(_ & _ & sp & x0 & _ & _ & _ & _ & _ & ->)].
        -- apply (HA b y Hb1).
        -- apply INV_idle; reflexivity.
    + intros j exj Hj q Hq. unfold set_ext in Hj; cbn [exts] in Hj.
      destruct (Nat.eq_dec k j) as [<-|Hkj].
      * rewrite (nth_error_upd_same _ _ _ _ Hn1) in Hj. inversion Hj; subst exj. cbn [x_pend] in Hq.
        apply in_app_iff in Hq as [Hq|Hq].
        -- apply (exec1_front_plain _ _ _ _ _ _ Hgs He q Hq).
        -- apply (HX k ex Hn q). rewrite Hpx. right; exact Hq.
      * rewrite nth_error_upd_other in Hj by exact Hkj.
        pose proof (Hoth j (fun E => Hkj (eq_sym E))) as Ho. rewrite Hj in Ho. cbn [option_map] in Ho.
        destruct (nth_error (exts s) j) as [ex0|] eqn:Hn0; [|discriminate Ho]. cbn [option_map] in Ho.
        apply (HX j ex0 Hn0 q). congruence.
Qed.

(* ------------------------------------------------------------------ mailbox operations and thread events *)

Lemma SInv_mb s s' : mb_equiv s s' -> SInv s -> SInv s'.
Proof.
  intros (Hm & He & _) [HA HX]. split.
  - intros a y Hy. specialize (Hm a). rewrite Hy in Hm. destruct (get s a) as [x|] eqn:Hg; [|contradiction].
    apply (INV_lsame a x y Hm). apply HA. exact Hg.
  - unfold ext_plain. rewrite He. exact HX.
Qed.

Lemma pend_of_mb s s' t : mb_equiv s s' -> pend_of s' t = pend_of s t.
Proof.
  intros (Hm & He & _). destruct t as [a|k]; cbn [pend_of].
  - specialize (Hm a). destruct (get s a), (get s' a); try contradiction; [apply Hm|reflexivity].
  - rewrite He. reflexivity.
Qed.

(** a plain head instruction is replaced by plain instructions (what the thread events do) *)
Lemma SInv_pop_head s t i rest front :
  SInv s -> pend_of s t = i :: rest -> sig i = false -> (forall j, In j front -> sig j = false) ->
  SInv (set_pend s t (front ++ rest)).
Proof.
  intros [HA HX] Hp Hs Hf. destruct t as [a|k].
  - destruct (pend_of_TA_cons _ _ _ _ Hp) as (x & Hg & Hpx). split.
    + intros b y Hb. destruct (Nat.eq_dec a b) as [<-|Hab].
      * rewrite (get_set_pend_TA_same _ _ _ _ Hg) in Hb. inversion Hb; subst y.
        apply (INV_plain_head a x _ i rest front (HA a x Hg) Hpx Hs Hf); reflexivity.
      * rewrite get_set_pend_TA_other in Hb by exact Hab. apply (HA b y Hb).
    + cbn [set_pend]. unfold with_actor. rewrite Hg. exact HX.
  - destruct (pend_of_TX_cons _ _ _ _ Hp) as (ex & Hn & Hpx). split.
    + intros b y Hb. rewrite get_set_pend_TX in Hb. apply (HA b y Hb).
    + cbn [set_pend]. rewrite Hn. intros j exj Hj q Hq. unfold set_ext in Hj; cbn [exts] in Hj.
      destruct (Nat.eq_dec k j) as [<-|Hkj].
      * rewrite (nth_error_upd_same _ _ _ _ Hn) in Hj. inversion Hj; subst exj. cbn [x_pend] in Hq.
        apply in_app_iff in Hq as [Hq|Hq]; [apply Hf; exact Hq|].
        apply (HX k ex Hn q). rewrite Hpx. right; exact Hq.
      * rewrite nth_error_upd_other in Hj by exact Hkj. apply (HX j exj Hj q Hq).
Qed.

Lemma SInv_run_atomic f s t : SInv s -> err (run_atomic f s t) = false -> SInv (run_atomic f s t).
Proof.
  apply (run_atomic_ind SInv t).
  - intros s0 i rest HI _ Hp Hy Hne _. apply SInv_astep; assumption.
  - intros s0 sys to sender m rest HI _ Hp s' _. subst s'.
    pose proof (mb_equiv_resolve s0 to) as Hm.
    apply (SInv_pop_head _ t (IEnq sys to sender m) rest [IEnqR sys (fst (resolve s0 to)) sender m]).
    + apply (SInv_mb _ _ Hm HI).
    + rewrite (pend_of_mb _ _ t Hm). exact Hp.
    + reflexivity.
    + intros j [<-|[]]. reflexivity.
Qed.

(* ------------------------------------------------------------------ HandleEnvelop *)

Lemma dispatch_phase a s x e s1 ins y :
  get s a = Some x -> (a_zombie x = true -> a_state x = Killed) -> dispatch s a x e = (s1, ins) -> get s1 a = Some y ->
  (a_zombie y = true -> a_state y = Killed) /\ end_last ins = true /\
  phase a (a_state y) (a_zombie y) (cur_not_own a y) (filter sig ins).
Proof.
  intros Hg Hz He Hy. unfold dispatch in He. unfold get in Hy, Hg.
  destruct (a_state x) eqn:Hst; destruct (a_zombie x) eqn:Hzx; try (specialize (Hz eq_refl); discriminate Hz); clear Hz;
  repeat (match type of He with
          | (_, _) = (_, _) => inversion He; subst s1 ins; clear He
          | context [match ?y with _ => _ end] => destruct y eqn:?
          end).
  all: cbn [actors add_ghost set_actor] in Hy.
  all: try rewrite (nth_error_upd_same _ _ _ _ Hg) in Hy; try rewrite Hg in Hy; inversion Hy; subst y; clear Hy.
  all: try match goal with H : _ && _ = _ |- _ => cbn in H; discriminate H end.
  all: unfold cur_not_own; destruct (a_children x) eqn:Hchx; cbn; repeat (destr_match; cbn); rewrite ?Hst, ?Hzx.
  all: try match goal with H : e_msg _ = _ |- _ => rewrite H end.
  all: (split; [try (intros; first [reflexivity|discriminate|congruence])|]).
  all: (split; [try reflexivity|]).
  all: try (constructor; cbn; first [reflexivity|congruence]; fail).
Qed.

(* ------------------------------------------------------------------ the steps *)

Lemma mb_equiv_with_actor s a f : (forall x, lsame x (f x)) -> mb_equiv s (with_actor s a f).
Proof.
  intros Hf. unfold with_actor. destruct (get s a) as [x|] eqn:Hg; [|apply mb_equiv_set_err].
  apply (mb_equiv_set_actor _ _ x); [exact Hg|apply Hf].
Qed.

Lemma SInv_set_actor s a x y : SInv s -> get s a = Some x -> INV a y -> SInv (set_actor s a y).
Proof.
  intros [HA HX] Hg Hy. split; [|exact HX].
  intros b z Hb. destruct (Nat.eq_dec a b) as [<-|Hab].
  - rewrite (get_set_actor_same _ _ _ _ Hg) in Hb. inversion Hb; subst. exact Hy.
  - rewrite get_set_actor_other in Hb by exact Hab. apply (HA b z Hb).
Qed.

Lemma INV_not_busy a x : INV a x -> is_busy (a_cons x) = false -> a_pend x = [].
Proof. intros (_ & [H|(H & _)]) Hb; [exact H|congruence]. Qed.

Lemma INV_set_mb_idle a x sq uq pa co cu : INV a x -> is_busy (a_cons x) = false -> INV a (set_mb x sq uq pa co cu).
Proof. intros HI Hb. split; [apply HI|]. left. apply (INV_not_busy _ _ HI Hb). Qed.

Lemma SInv_pop s t i rest : SInv s -> pend_of s t = i :: rest -> sig i = false -> SInv (set_pend s t rest).
Proof. intros HI Hp Hs. apply (SInv_pop_head s t i rest [] HI Hp Hs). intros j []. Qed.

Lemma SInv_step_EvSysPop s a : SInv s -> err (step s (EvSysPop a)) = false -> SInv (step s (EvSysPop a)).
Proof.
  intros HI Herr. pose proof HI as [HA HX]. cbn [step] in *.
  destruct (get s a) as [x|] eqn:Hg; [|discriminate].
  destruct (a_cons x) eqn:Hc; try discriminate; destruct (a_sq x); try discriminate;
  (apply (SInv_set_actor _ _ x); [exact HI|exact Hg|]); apply INV_set_mb_idle; try (apply (HA a x Hg)); rewrite Hc; reflexivity.
Qed.

Lemma SInv_step_EvLoadPaused s a : SInv s -> err (step s (EvLoadPaused a)) = false -> SInv (step s (EvLoadPaused a)).
Proof.
  intros HI Herr. pose proof HI as [HA HX]. cbn [step] in *.
  destruct (get s a) as [x|] eqn:Hg; [|discriminate].
  destruct (a_cons x) eqn:Hc; try discriminate.
  (apply (SInv_set_actor _ _ x); [exact HI|exact Hg|]); apply INV_set_mb_idle; try (apply (HA a x Hg)); rewrite Hc; reflexivity.
Qed.

Lemma SInv_step_EvUserPop s a : SInv s -> err (step s (EvUserPop a)) = false -> SInv (step s (EvUserPop a)).
Proof.
  intros HI Herr. pose proof HI as [HA HX]. cbn [step] in *.
  destruct (get s a) as [x|] eqn:Hg; [|discriminate].
  destruct (a_cons x) eqn:Hc; try discriminate; destruct (a_uq x); try discriminate;
  (apply (SInv_set_actor _ _ x); [exact HI|exact Hg|]); apply INV_set_mb_idle; try (apply (HA a x Hg)); rewrite Hc; reflexivity.
Qed.

Lemma SInv_step_EvHandle s a : SInv s -> err (step s (EvHandle a)) = false -> SInv (step s (EvHandle a)).
Proof.
  intros HI Herr. pose proof HI as [HA HX]. cbn [step] in *.
  destruct (get s a) as [x|] eqn:Hg; [|discriminate].
  destruct (a_cons x) eqn:Hc; try discriminate.
  set (x0 := set_mb x (a_sq x) (a_uq x) (a_paused x) (CBusy (mode_top x)) (a_cur x)) in *.
  assert (Hg0 : get (set_actor s a x0) a = Some x0) by apply (get_set_actor_same _ _ _ _ Hg).
  destruct (dispatch (set_actor s a x0) a x0 e) as [s1 ins] eqn:Hd.
  destruct (dispatch_frame _ _ _ _ _ _ Hg0 Hd) as (y & Hact & Hex & _ & _ & _ & _ & _ & _ & _ & _ & _ & _ & _ & _ & _ & _ & Hcons & _).
  assert (Hg1 : get s1 a = Some y) by (unfold get; rewrite Hact; apply (nth_error_upd_same _ _ _ _ Hg0)).
  pose proof (HA a x Hg) as HIx.
  assert (Hz0 : a_zombie x0 = true -> a_state x0 = Killed) by apply HIx.
  destruct (dispatch_phase a _ x0 e s1 ins y Hg0 Hz0 Hd Hg1) as (Hzy & Hel & Hph).
  apply SInv_run_atomic; [|exact Herr]. split.
  + intros b z Hb. destruct (Nat.eq_dec a b) as [<-|Hab].
    * rewrite (get_set_pend_TA_same _ _ _ _ Hg1) in Hb. inversion Hb; subst z.
      apply mk_INV; unfold cur_not_own; cbn [upd_pend a_state a_zombie a_cur a_cons a_pend]; try assumption.
      rewrite Hcons. reflexivity.
    * rewrite get_set_pend_TA_other in Hb by exact Hab.
      unfold get in Hb. rewrite Hact in Hb. rewrite nth_error_upd_other in Hb by exact Hab.
      fold (get (set_actor s a x0) b) in Hb. rewrite get_set_actor_other in Hb by exact Hab. apply (HA b z Hb).
  + cbn [set_pend]. unfold with_actor. rewrite Hg1. unfold ext_plain. cbn [exts set_actor]. rewrite Hex. exact HX.
Qed.

Lemma SInv_step_EvPush s t choice : SInv s -> err (step s (EvPush t choice)) = false -> SInv (step s (EvPush t choice)).
Proof.
  intros HI Herr. pose proof HI as [HA HX]. cbn [step] in *.
  destruct (pend_of s t) as [|i rest] eqn:Hp; [discriminate|].
  destruct i; try discriminate.
  + destruct (deliver s to {| e_sys := sys; e_sender := sender; e_msg := m |}) as [s2 u] eqn:Hdl.
    pose proof (mb_equiv_deliver s to {| e_sys := sys; e_sender := sender; e_msg := m |}) as Hm. rewrite Hdl in Hm. cbn [fst] in Hm.
    apply (SInv_pop s2 t (IEnqR sys to sender m) rest); [apply (SInv_mb _ _ Hm HI)|rewrite (pend_of_mb _ _ t Hm); exact Hp|reflexivity].
  + pose proof (mb_equiv_push_mb s to e) as Hm.
    apply (SInv_pop _ t (IEnqMb to e) rest); [apply (SInv_mb _ _ Hm HI)|rewrite (pend_of_mb _ _ t Hm); exact Hp|reflexivity].
  + destruct (nth_error tos choice) as [to|]; [|discriminate].
    pose proof (mb_equiv_resolve s to) as Hm1. destruct (resolve s to) as [mb s1]. cbn [snd] in Hm1.
    destruct (deliver s1 mb {| e_sys := sys; e_sender := sender; e_msg := m |}) as [s2 u] eqn:Hdl.
    pose proof (mb_equiv_deliver s1 mb {| e_sys := sys; e_sender := sender; e_msg := m |}) as Hm2. rewrite Hdl in Hm2. cbn [fst] in Hm2.
    pose proof (mb_equiv_trans _ _ _ Hm1 Hm2) as Hm.
    match goal with |- SInv (set_pend s2 t (IEnqDone :: ?l)) =>
      assert (Hl : exists front, IEnqDone :: l = front ++ rest /\ forall j, In j front -> sig j = false) end.
    { destruct (firstn choice tos ++ skipn (S choice) tos).
      - exists [IEnqDone]. split; [reflexivity|]. intros j [<-|[]]. reflexivity.
      - eexists [IEnqDone; _]. split; [reflexivity|]. intros j [<-|[<-|[]]]; reflexivity. }
    destruct Hl as (front & -> & Hf).
    apply (SInv_pop_head s2 t (IEnqAny sys tos sender m) rest front); [apply (SInv_mb _ _ Hm HI)|rewrite (pend_of_mb _ _ t Hm); exact Hp|reflexivity|exact Hf].
  + destruct (nth_error remaining choice) as [to|]; [|discriminate].
    pose proof (mb_equiv_resolve s to) as Hm1. destruct (resolve s to) as [mb s1]. cbn [snd] in Hm1.
    destruct (deliver s1 mb {| e_sys := true; e_sender := RObj (self_of t); e_msg := MCmdPause |}) as [s2 u] eqn:Hdl.
    pose proof (mb_equiv_deliver s1 mb {| e_sys := true; e_sender := RObj (self_of t); e_msg := MCmdPause |}) as Hm2. rewrite Hdl in Hm2. cbn [fst] in Hm2.
    pose proof (mb_equiv_trans _ _ _ Hm1 Hm2) as Hm.
    match goal with |- SInv (set_pend s2 t (IEnqDone :: ?i2 :: rest)) =>
      apply (SInv_pop_head s2 t (ISupPause c d remaining done) rest [IEnqDone; i2]) end;
      [apply (SInv_mb _ _ Hm HI)|rewrite (pend_of_mb _ _ t Hm); exact Hp|reflexivity|intros j [<-|[<-|[]]]; reflexivity].
Qed.

Lemma SInv_step_EvEnqDone s t : SInv s -> err (step s (EvEnqDone t)) = false -> SInv (step s (EvEnqDone t)).
Proof.
  intros HI Herr. pose proof HI as [HA HX]. cbn [step] in *.
  destruct (pend_of s t) as [|i rest] eqn:Hp; [discriminate|]. destruct i; try discriminate.
  apply SInv_run_atomic; [|exact Herr]. apply (SInv_pop s t IEnqDone rest HI Hp eq_refl).
Qed.

Lemma SInv_step_EvPauseSt s t : SInv s -> err (step s (EvPauseSt t)) = false -> SInv (step s (EvPauseSt t)).
Proof.
  intros HI Herr. pose proof HI as [HA HX]. cbn [step] in *.
  destruct (pend_of s t) as [|i rest] eqn:Hp; [discriminate|]. destruct i; try discriminate.
  apply SInv_run_atomic; [|exact Herr].
  match goal with |- SInv (set_pend ?s1 t rest) => assert (Hm : mb_equiv s s1) by (apply mb_equiv_with_actor; intros; repeat split) end.
  apply (SInv_pop _ t IPauseSt rest); [apply (SInv_mb _ _ Hm HI)|rewrite (pend_of_mb _ _ t Hm); exact Hp|reflexivity].
Qed.

Lemma SInv_step_EvResume1 s t : SInv s -> err (step s (EvResume1 t)) = false -> SInv (step s (EvResume1 t)).
Proof.
  intros HI Herr. pose proof HI as [HA HX]. cbn [step] in *.
  destruct (pend_of s t) as [|i rest] eqn:Hp; [discriminate|]. destruct i; try discriminate.
  destruct (get s (self_of t)) as [x|] eqn:Hg; [|discriminate].
  destruct (a_paused x).
  + match goal with |- SInv (set_pend ?s1 t _) => assert (Hm : mb_equiv s s1) by (apply (mb_equiv_set_actor _ _ x); [exact Hg|repeat split]) end.
    apply (SInv_pop_head _ t IResume1 rest [IResume2]); [apply (SInv_mb _ _ Hm HI)|rewrite (pend_of_mb _ _ t Hm); exact Hp|reflexivity|intros j [<-|[]]; reflexivity].
  + apply SInv_run_atomic; [|exact Herr]. apply (SInv_pop s t IResume1 rest HI Hp eq_refl).
Qed.

Lemma SInv_step_EvResume2 s t : SInv s -> err (step s (EvResume2 t)) = false -> SInv (step s (EvResume2 t)).
Proof.
  intros HI Herr. pose proof HI as [HA HX]. cbn [step] in *.
  destruct (pend_of s t) as [|i rest] eqn:Hp; [discriminate|]. destruct i; try discriminate.
  apply SInv_run_atomic; [|exact Herr]. apply (SInv_pop s t IResume2 rest HI Hp eq_refl).
Qed.

Lemma SInv_step_EvStart s i : SInv s -> err (step s (EvStart i)) = false -> SInv (step s (EvStart i)).
Proof.
  intros HI Herr. pose proof HI as [HA HX]. cbn [step] in *.
  apply SInv_run_atomic; [exact HI|exact Herr].
Qed.

Lemma SInv_step s ev : SInv s -> err (step s ev) = false -> SInv (step s ev).
Proof.
  destruct ev.
  - apply SInv_step_EvSysPop.
  - apply SInv_step_EvLoadPaused.
  - apply SInv_step_EvUserPop.
  - apply SInv_step_EvHandle.
  - apply SInv_step_EvPush.
  - apply SInv_step_EvEnqDone.
  - apply SInv_step_EvPauseSt.
  - apply SInv_step_EvResume1.
  - apply SInv_step_EvResume2.
  - apply SInv_step_EvStart.
Qed.

(* ------------------------------------------------------------------ all reachable states *)

Lemma set_exts_actors s i scs : actors (set_exts s i scs) = actors s.
Proof.
  revert s i. induction scs as [|sc scs IH]; intros s i; cbn [set_exts]; [reflexivity|].
  rewrite IH. cbn [set_pend]. destruct (nth_error (exts s) i); reflexivity.
Qed.

Lemma set_exts_plain s i scs : ext_plain s -> ext_plain (set_exts s i scs).
Proof.
  revert s i. induction scs as [|sc scs IH]; intros s i HX; cbn [set_exts]; [exact HX|].
  apply IH. cbn [set_pend]. destruct (nth_error (exts s) i) as [ex|] eqn:Hn; [|exact HX].
  intros j exj Hj q Hq. unfold set_ext in Hj; cbn [exts] in Hj.
  destruct (Nat.eq_dec i j) as [<-|Hij].
  - rewrite (nth_error_upd_same _ _ _ _ Hn) in Hj. inversion Hj; subst exj. cbn [x_pend] in Hq.
    apply in_map_iff in Hq as (ac & <- & _). reflexivity.
  - rewrite nth_error_upd_other in Hj by exact Hij. apply (HX j exj Hj q Hq).
Qed.

Lemma SInv_init scs : SInv (init_with scs).
Proof.
  unfold init_with. split.
  - intros a x Hg. unfold get in Hg. rewrite set_exts_actors in Hg. cbn [actors init_state] in Hg.
    destruct a as [|[|a]]; cbn [nth_error] in Hg; try discriminate. inversion Hg; subst x. apply INV_idle; reflexivity.
  - apply set_exts_plain. intros i ex Hn j Hj. cbn [exts init_state] in Hn.
    apply nth_error_In, repeat_spec in Hn. subst ex. destruct Hj.
Qed.

Theorem SInv_reachable s : reachable s -> SInv s.
Proof. apply reachable_ind; [apply SInv_init|]. intros s0 ev HI _ He. apply SInv_step; assumption. Qed.

(** consequences *)
Theorem zombie_is_killed s a x : reachable s -> get s a = Some x -> a_zombie x = true -> a_state x = Killed.
Proof. intros Hr Hg. apply (proj1 (SInv_reachable s Hr) a x Hg). Qed.

Theorem pending_implies_busy s a x : reachable s -> get s a = Some x -> a_pend x <> [] -> is_busy (a_cons x) = true.
Proof.
  intros Hr Hg Hp. destruct (proj1 (SInv_reachable s Hr) a x Hg) as (_ & [H|(H & _)]); [contradiction|exact H].
Qed.
