(** C05-e (partial): once OnLaunch is at the head of the system queue of an actor that has handled nothing yet and
    whose consumer is idle, OnLaunch is the first message its behaviour sees - whatever happens afterwards. *)
From Coq Require Import List NArith ZArith Bool Lia.
From Vivid Require Import Base.Tm Actor.Core Actor.CoreRun Actor.SpecLife Actor.ProofsLife Actor.ProofsLifeInv Actor.ProofsLifeSum
  Actor.ProofsLifePhase Actor.ProofsLifeGen Actor.ProofsLifeTree Actor.ProofsLifeLog.
Import ListNotations.
Local Open Scope N_scope.
#[local] Strategy 100 [run_atomic FUEL].

(** the actor has handled nothing yet (Running, no handler active) *)
Definition fresh (x : actor) : Prop :=
  a_state x = Running /\ a_zombie x = false /\ a_parent x <> None /\ a_pend x = [].

(** OnLaunch is the next system envelope of the untouched, idle actor c *)
Definition launch_first (c : aid) (s : state) : Prop :=
  exists x e r, get s c = Some x /\ fresh x /\ a_cons x = C0 /\ a_sq x = e :: r /\ e_msg e = MLaunch /\ seen_of c (olog s) = [].

Definition lview (x : actor) := (a_state x, a_zombie x, a_parent x, a_pend x, a_cons x).

Definition LQ (c : aid) (s : state) : Prop :=
  exists x, get s c = Some x /\
    ((seen_of c (olog s) = [] /\ a_state x = Running /\ a_zombie x = false /\ a_parent x <> None /\
      ((a_pend x = [] /\ a_cons x = C0 /\ exists e r, a_sq x = e :: r /\ e_msg e = MLaunch) \/
       (a_pend x = [] /\ exists e, a_cons x = CH e /\ e_msg e = MLaunch) \/
       (exists ac r rest, a_pend x = IBeh MLaunch ac r :: rest))) \/
     (exists r, seen_of c (olog s) = MLaunch :: r)).

(** the record of c keeps the relevant fields and the head of its system queue; nothing is logged for c *)
Lemma LQ_keep c s s' :
  (forall x, get s c = Some x -> exists y, get s' c = Some y /\ lview y = lview x /\
             (forall e r, a_sq x = e :: r -> exists r', a_sq y = e :: r')) ->
  (exists l, olog s' = olog s ++ l /\ seen_of c l = []) ->
  LQ c s -> LQ c s'.
Proof.
  intros Hrec (l & Hol & Hl) (x & Hg & H). destruct (Hrec x Hg) as (y & Hy & Hv & Hsq).
  unfold lview in Hv. inversion Hv as [[V1 V2 V3 V4 V5]].
  assert (Hseen : seen_of c (olog s') = seen_of c (olog s)) by (rewrite Hol, seen_of_app, Hl, app_nil_r; reflexivity).
  exists y. split; [exact Hy|]. rewrite Hseen, V1, V2, V3, V4, V5.
  destruct H as [(H0 & H1 & H2 & H3 & H4)|H]; [left|right; exact H].
  repeat split; try assumption.
  destruct H4 as [(P1 & P2 & e & r & P3 & P4)|[H4|H4]]; [left|right; left; exact H4|right; right; exact H4].
  repeat split; try assumption. destruct (Hsq e r P3) as (r' & Hr'). exists e, r'. split; assumption.
Qed.

Lemma LQ_same_rec c s s' :
  get s' c = get s c -> (exists l, olog s' = olog s ++ l /\ seen_of c l = []) -> LQ c s -> LQ c s'.
Proof.
  intros Hg. apply LQ_keep. intros x Hx. exists x. split; [rewrite Hg; exact Hx|]. split; [reflexivity|].
  intros e r Hr. exists r. exact Hr.
Qed.

Lemma olog_nil_app s : exists l, olog s = olog s ++ l /\ forall c, seen_of c l = [].
Proof. exists []. split; [rewrite app_nil_r; reflexivity|reflexivity]. Qed.

(** a thread other than c's own, whose self is not c, executes an atomic instruction *)
Lemma LQ_astep_other c s t i rest :
  c <> 0%nat -> SInv s -> LQ c s -> t <> TA c -> pend_of s t = i :: rest -> yielding i = false ->
  err (astep s t i rest) = false -> LQ c (astep s t i rest).
Proof.
  intros Hc0 [HA HX] HL Ht Hp Hy He1.
  assert (Hself : self_of t <> c) by (destruct t as [a|k]; cbn; congruence).
  (* what is logged is not an OSeen of c *)
  assert (Hlog : forall s0 h x0 s1 front, get s0 (self_of t) = Some x0 -> olog s0 = olog s -> exec1 s0 t h i = (s1, front) ->
            (forall o, i = IObs o -> forall i0 md m, o <> OSeen c i0 md m) ->
            exists l, olog s1 = olog s ++ l /\ seen_of c l = []).
  { intros s0 h x0 s1 front Hg0 Hol0 He Hobs.
    destruct (exec1_olog _ _ _ _ _ _ _ He Hg0) as [Hol|[(n & r & _ & Hol)|[(o & Hi & Hol)|(m & ac & r & pa & md & _ & _ & _ & Hol)]]]; rewrite Hol, Hol0.
    - exists []. split; [rewrite app_nil_r; reflexivity|reflexivity].
    - eexists. split; [reflexivity|reflexivity].
    - exists [o]. split; [reflexivity|]. cbn [seen_of]. destruct o; try reflexivity.
      destruct (Nat.eqb who c) eqn:E; [|reflexivity]. apply Nat.eqb_eq in E. subst who. exfalso. apply (Hobs _ Hi inst mode m). reflexivity.
    - eexists. split; [reflexivity|]. cbn [seen_of]. destruct (Nat.eqb (self_of t) c) eqn:E; [apply Nat.eqb_eq in E; congruence|reflexivity]. }
  destruct t as [b|k].
  - destruct (pend_of_TA_cons _ _ _ _ Hp) as (x & Hg & Hpx).
    destruct (astep_TA s b i rest x Hg) as (s1 & front & x1 & He & Hg1 & _ & Heq). rewrite Heq in *. clear Heq.
    assert (Hg0 : get (set_actor s b (upd_pend x rest)) (self_of (TA b)) = Some (upd_pend x rest)) by apply (get_set_actor_same _ _ _ _ Hg).
    destruct (INV_head _ _ _ _ (HA b x Hg) Hpx) as (_ & _ & _ & Hph).
    apply (LQ_same_rec c s).
    + cbn [self_of] in Hself. rewrite get_set_actor_other by exact Hself.
      destruct (get s c) as [xc|] eqn:Hxc.
      * apply (exec1_keeps _ _ _ _ _ _ c xc He); [cbn; congruence|]. rewrite get_set_actor_other by exact Hself. exact Hxc.
      * destruct HL as (xc & Hxc' & _). congruence.
    + change (olog (set_actor s1 b (upd_pend x1 (front ++ rest)))) with (olog s1).
      apply (Hlog _ _ _ _ _ Hg0 eq_refl He). intros o -> i0 md m ->. cbn in Hph. inversion Hph.
    + exact HL.
  - destruct (pend_of_TX_cons _ _ _ _ Hp) as (ex & Hn & Hpx).
    assert (Hs : sig i = false) by (apply (HX k ex Hn); rewrite Hpx; left; reflexivity).
    destruct (astep_TX s k i rest ex Hn) as (s1 & front & ex1 & He & Hn1 & _ & _ & Heq). rewrite Heq in *. clear Heq.
    destruct (get s 0) as [x0|] eqn:Hg00.
    2:{ unfold exec1 in He. cbn [self_of] in He.
        change (get (set_ext s k {| x_pend := rest; x_held := x_held ex |}) 0%nat) with (get s 0%nat) in He.
        rewrite Hg00 in He. inversion He; subst s1. discriminate He1. }
    assert (Hg0 : get (set_ext s k {| x_pend := rest; x_held := x_held ex |}) (self_of (TX k)) = Some x0) by exact Hg00.
    assert (Hh : held_of (set_ext s k {| x_pend := rest; x_held := x_held ex |}) (TX k) = x_held ex).
    { cbn [held_of]. unfold set_ext; cbn [exts]. rewrite (nth_error_upd_same _ _ _ _ Hn). reflexivity. }
    apply (LQ_same_rec c s).
    + change (get (set_ext s1 k {| x_pend := front ++ rest; x_held := x_held ex1 |}) c) with (get s1 c).
      destruct (get s c) as [xc|] eqn:Hxc.
      * apply (exec1_keeps _ _ _ _ _ _ c xc He); [cbn; exact Hc0|exact Hxc].
      * destruct HL as (xc & Hxc' & _). congruence.
    + change (olog (set_ext s1 k {| x_pend := front ++ rest; x_held := x_held ex1 |})) with (olog s1).
      apply (Hlog _ _ _ _ _ Hg0 eq_refl He). intros o -> i0 md m ->. discriminate Hs.
    + exact HL.
Qed.

(** c's own thread: only the OnLaunch call can be at the head *)
Lemma LQ_astep_self c s i rest :
  SInv s -> LQ c s -> pend_of s (TA c) = i :: rest -> yielding i = false -> LQ c (astep s (TA c) i rest).
Proof.
  intros [HA HX] (x & Hg & H) Hp Hy.
  destruct (pend_of_TA_cons _ _ _ _ Hp) as (x' & Hg' & Hpx). rewrite Hg in Hg'. inversion Hg'; subst x'.
  destruct (astep_TA s c i rest x Hg) as (s1 & front & x1 & He & Hg1 & _ & ->).
  assert (Hg0 : get (set_actor s c (upd_pend x rest)) (self_of (TA c)) = Some (upd_pend x rest)) by apply (get_set_actor_same _ _ _ _ Hg).
  exists (upd_pend x1 (front ++ rest)). split; [apply (get_set_actor_same _ _ _ _ Hg1)|].
  change (olog (set_actor s1 c (upd_pend x1 (front ++ rest)))) with (olog s1).
  destruct H as [(H0 & H1 & H2 & H3 & H4)|(r & Hr)].
  - destruct H4 as [(P1 & _)|[(P1 & _)|(ac & r & rest' & P)]]; try (rewrite Hpx in P1; discriminate P1).
    rewrite Hpx in P. inversion P; subst i rest'.
    destruct (a_parent x) as [pa|] eqn:Hpa; [|congruence].
    pose proof (exec1_IBeh_logs _ _ [] _ MLaunch ac r pa Hg0 H2 Hpa) as Hl. rewrite He in Hl. cbn [fst] in Hl.
    right. rewrite Hl. cbn [olog add_obs]. change (olog (set_actor s c (upd_pend x rest))) with (olog s).
    rewrite seen_of_app, H0. cbn [seen_of app self_of]. rewrite Nat.eqb_refl. eexists. reflexivity.
  - right. destruct (exec1_olog _ _ _ _ _ _ _ He Hg0) as [Hol|[(n & r0 & _ & Hol)|[(o & _ & Hol)|(m & ac & r0 & pa & md & _ & _ & _ & Hol)]]];
    rewrite Hol; change (olog (set_actor s c (upd_pend x rest))) with (olog s); rewrite ?seen_of_app, Hr; eexists; reflexivity.
Qed.

Lemma LQ_D_any c s s' :
  (exists r, seen_of c (olog s) = MLaunch :: r) -> (exists l, olog s' = olog s ++ l) -> (exists y, get s' c = Some y) -> LQ c s'.
Proof.
  intros (r & Hr) (l & Hl) (y & Hy). exists y. split; [exact Hy|]. right. rewrite Hl, seen_of_app, Hr. eexists. reflexivity.
Qed.

(** before the OnLaunch call c's own thread has no yielding instruction at its head *)
Lemma LQ_cases c s :
  LQ c s -> (exists r, seen_of c (olog s) = MLaunch :: r) \/
            (forall i rest, pend_of s (TA c) = i :: rest -> exists ac r, i = IBeh MLaunch ac r).
Proof.
  intros (x & Hg & [(H0 & H1 & H2 & H3 & H4)|H]); [right|left; exact H].
  intros i rest Hp. cbn [pend_of] in Hp. rewrite Hg in Hp.
  destruct H4 as [(P & _)|[(P & _)|(ac & r & rest' & P)]]; rewrite P in Hp; try discriminate Hp.
  inversion Hp. eauto.
Qed.

Lemma get_set_pend_exists s t p c y : get s c = Some y -> exists y', get (set_pend s t p) c = Some y'.
Proof.
  intros Hy. destruct t as [a|k].
  - destruct (Nat.eq_dec a c) as [->|Hac].
    + eexists. apply (get_set_pend_TA_same _ _ _ _ Hy).
    + exists y. rewrite get_set_pend_TA_other by exact Hac. exact Hy.
  - exists y. rewrite get_set_pend_TX. exact Hy.
Qed.

(** a thread replaces its pending list (its head was a yielding instruction); mailbox part of the state changed
    in a way that keeps c's view *)
Lemma LQ_thread_op c s s1 t i rest p :
  LQ c s -> pend_of s t = i :: rest -> yielding i = true ->
  olog s1 = olog s ->
  (forall x, get s c = Some x -> exists y, get s1 c = Some y /\ lview y = lview x /\
             (forall e r, a_sq x = e :: r -> exists r', a_sq y = e :: r')) ->
  LQ c (set_pend s1 t p).
Proof.
  intros HL Hp Hy Hol Hrec.
  destruct (LQ_cases c s HL) as [HD|Hny].
  - destruct HL as (x & Hg & _). destruct (Hrec x Hg) as (y & Hy1 & _).
    apply (LQ_D_any c s); [exact HD| |apply (get_set_pend_exists _ _ _ _ _ Hy1)].
    exists []. rewrite olog_set_pend, Hol, app_nil_r. reflexivity.
  - assert (Ht : t <> TA c) by (intros ->; destruct (Hny i rest Hp) as (ac & r & ->); discriminate Hy).
    apply (LQ_keep c s); [| |exact HL].
    + intros x Hx. destruct (Hrec x Hx) as (y & Hy1 & Hv & Hsq). exists y. split; [|split; assumption].
      destruct t as [a|k]; [|rewrite get_set_pend_TX; exact Hy1].
      rewrite get_set_pend_TA_other by congruence. exact Hy1.
    + exists []. rewrite olog_set_pend, Hol, app_nil_r. split; reflexivity.
Qed.

Lemma lview_mb s s' c x :
  mb_equiv s s' -> get s c = Some x -> exists y, get s' c = Some y /\ lview y = lview x.
Proof.
  intros (Hm & _) Hx. specialize (Hm c). rewrite Hx in Hm. destruct (get s' c) as [y|]; [|contradiction].
  exists y. split; [reflexivity|]. unfold lview. destruct Hm as (_ & _ & -> & _ & -> & -> & _ & _ & _ & _ & _ & _ & _ & _ & -> & _ & ->). reflexivity.
Qed.

(** queue insertion keeps the head of the system queue *)
Lemma push_mb_view s b e c x :
  get s c = Some x -> exists y, get (push_mb s b e) c = Some y /\ lview y = lview x /\
                               (forall e0 r, a_sq x = e0 :: r -> exists r', a_sq y = e0 :: r').
Proof.
  intros Hx. unfold push_mb, with_actor. destruct (get s b) as [xb|] eqn:Hb.
  - destruct (Nat.eq_dec b c) as [->|Hbc].
    + rewrite Hx in Hb. inversion Hb; subst xb. eexists. split; [apply (get_set_actor_same _ _ _ _ Hx)|]. split; [reflexivity|].
      intros e0 r Hr. cbn [a_sq]. rewrite Hr. destruct (e_sys e); eexists; reflexivity.
    + exists x. split; [rewrite get_set_actor_other by exact Hbc; exact Hx|]. split; [reflexivity|]. intros e0 r Hr. eauto.
  - exists x. split; [exact Hx|]. split; [reflexivity|]. intros e0 r Hr. eauto.
Qed.

Lemma deliver_view s mb e c x :
  get s c = Some x -> exists y, get (fst (deliver s mb e)) c = Some y /\ lview y = lview x /\
                               (forall e0 r, a_sq x = e0 :: r -> exists r', a_sq y = e0 :: r').
Proof. intros Hx. destruct mb; cbn [deliver fst]; apply push_mb_view; exact Hx. Qed.

Lemma resolve_view s r c x :
  get s c = Some x -> exists y, get (snd (resolve s r)) c = Some y /\ lview y = lview x /\ a_sq y = a_sq x.
Proof.
  intros Hx. destruct r as [a|p|]; cbn [resolve].
  - destruct (get s a) as [xa|] eqn:Ha; [|exists x; auto].
    destruct (a_cache xa); [exists x; auto|].
    destruct (alookup (reg s) (a_path xa)); [|destruct (path_eqb (a_path xa) []); exists x; auto].
    cbn [snd]. destruct (Nat.eq_dec a c) as [->|Hac].
    + rewrite Hx in Ha. inversion Ha; subst xa. eexists. split; [apply (get_set_actor_same _ _ _ _ Hx)|]. split; reflexivity.
    + exists x. split; [rewrite get_set_actor_other by exact Hac; exact Hx|]. auto.
  - destruct (alookup (reg s) p); [exists x; auto|]. destruct (path_eqb p []); exists x; auto.
  - exists x. auto.
Qed.

Lemma olog_push_mb s b e : olog (push_mb s b e) = olog s.
Proof. unfold push_mb, with_actor. destruct (get s b); reflexivity. Qed.
Lemma olog_deliver s mb e : olog (fst (deliver s mb e)) = olog s.
Proof. destruct mb; cbn [deliver fst]; apply olog_push_mb. Qed.
Lemma olog_resolve s r : olog (snd (resolve s r)) = olog s.
Proof.
  destruct r as [a|p|]; cbn [resolve]; [| |reflexivity].
  - destruct (get s a) as [x|]; [|reflexivity]. destruct (a_cache x); [reflexivity|].
    destruct (alookup (reg s) (a_path x)); [reflexivity|]. destruct (path_eqb (a_path x) []); reflexivity.
  - destruct (alookup (reg s) p); [reflexivity|]. destruct (path_eqb p []); reflexivity.
Qed.

Lemma LQ_push c s t choice : SInv s -> LQ c s -> err (step s (EvPush t choice)) = false -> LQ c (step s (EvPush t choice)).
Proof.
  intros _ HL Herr. cbn [step] in *.
  destruct (pend_of s t) as [|i rest] eqn:Hp; [discriminate|].
  destruct i; try discriminate.
  - destruct (deliver s to {| e_sys := sys; e_sender := sender; e_msg := m |}) as [s2 u] eqn:Hdl.
    apply (LQ_thread_op c s s2 t _ rest rest HL Hp eq_refl).
    + pose proof (olog_deliver s to {| e_sys := sys; e_sender := sender; e_msg := m |}) as H. rewrite Hdl in H. exact H.
    + intros x Hx. pose proof (deliver_view s to {| e_sys := sys; e_sender := sender; e_msg := m |} c x Hx) as H. rewrite Hdl in H. exact H.
  - apply (LQ_thread_op c s _ t _ rest rest HL Hp eq_refl); [apply olog_push_mb|]. intros x Hx. apply push_mb_view. exact Hx.
  - destruct (nth_error tos choice) as [to|]; [|discriminate].
    pose proof (olog_resolve s to) as Ho1. pose proof (fun x => resolve_view s to c x) as Hv1.
    destruct (resolve s to) as [mb s1]. cbn [snd] in *.
    destruct (deliver s1 mb {| e_sys := sys; e_sender := sender; e_msg := m |}) as [s2 u] eqn:Hdl.
    apply (LQ_thread_op c s s2 t _ rest _ HL Hp eq_refl).
    + pose proof (olog_deliver s1 mb {| e_sys := sys; e_sender := sender; e_msg := m |}) as H. rewrite Hdl in H. cbn [fst] in H. congruence.
    + intros x Hx. destruct (Hv1 x Hx) as (y1 & Hy1 & Hl1 & Hs1).
      pose proof (deliver_view s1 mb {| e_sys := sys; e_sender := sender; e_msg := m |} c y1 Hy1) as H. rewrite Hdl in H.
      destruct H as (y2 & Hy2 & Hl2 & Hs2). exists y2. split; [exact Hy2|]. split; [rewrite Hl2; exact Hl1|].
      intros e0 r Hr. apply (Hs2 e0 r). rewrite Hs1. exact Hr.
  - destruct remaining as [|r0 rem]; [destruct choice; discriminate Herr|].
    destruct (nth_error (r0 :: rem) choice) as [to|]; [|discriminate].
    pose proof (olog_resolve s to) as Ho1. pose proof (fun x => resolve_view s to c x) as Hv1.
    destruct (resolve s to) as [mb s1]. cbn [snd] in *.
    destruct (deliver s1 mb {| e_sys := true; e_sender := RObj (self_of t); e_msg := MCmdPause |}) as [s2 u] eqn:Hdl.
    apply (LQ_thread_op c s s2 t _ rest _ HL Hp eq_refl).
    + pose proof (olog_deliver s1 mb {| e_sys := true; e_sender := RObj (self_of t); e_msg := MCmdPause |}) as H. rewrite Hdl in H. cbn [fst] in H. congruence.
    + intros x Hx. destruct (Hv1 x Hx) as (y1 & Hy1 & Hl1 & Hs1).
      pose proof (deliver_view s1 mb {| e_sys := true; e_sender := RObj (self_of t); e_msg := MCmdPause |} c y1 Hy1) as H. rewrite Hdl in H.
      destruct H as (y2 & Hy2 & Hl2 & Hs2). exists y2. split; [exact Hy2|]. split; [rewrite Hl2; exact Hl1|].
      intros e0 r Hr. apply (Hs2 e0 r). rewrite Hs1. exact Hr.
Qed.

Lemma LQ_resolve c s t sys to sender m rest :
  SInv s -> LQ c s -> pend_of s t = IEnq sys to sender m :: rest ->
  LQ c (set_pend (snd (resolve s to)) t (IEnqR sys (fst (resolve s to)) sender m :: rest)).
Proof.
  intros _ HL Hp.
  destruct (LQ_cases c s HL) as [HD|Hny].
  - destruct HL as (x & Hg & _). destruct (resolve_view s to c x Hg) as (y & Hy & _).
    apply (LQ_D_any c s); [exact HD| |apply (get_set_pend_exists _ _ _ _ _ Hy)].
    exists []. rewrite olog_set_pend, olog_resolve, app_nil_r. reflexivity.
  - assert (Ht : t <> TA c) by (intros ->; destruct (Hny _ _ Hp) as (ac & r & E); discriminate E).
    apply (LQ_keep c s); [| |exact HL].
    + intros x Hx. destruct (resolve_view s to c x Hx) as (y & Hy & Hv & Hsq). exists y. split; [|split; [exact Hv|]].
      * destruct t as [a|k]; [|rewrite get_set_pend_TX; exact Hy]. rewrite get_set_pend_TA_other by congruence. exact Hy.
      * intros e r Hr. exists r. congruence.
    + exists []. rewrite olog_set_pend, olog_resolve, app_nil_r. split; reflexivity.
Qed.

Lemma LQ_pophead c s t i rest :
  SInv s -> LQ c s -> pend_of s t = i :: rest -> (i = IEnqDone \/ i = IResume1 \/ i = IResume2) -> LQ c (set_pend s t rest).
Proof.
  intros _ HL Hp Hi. apply (LQ_thread_op c s s t i rest rest HL Hp); [destruct Hi as [->|[->| ->]]; reflexivity|reflexivity|].
  intros x Hx. exists x. split; [exact Hx|]. split; [reflexivity|]. eauto.
Qed.

Lemma LQ_pause c s t rest :
  c <> 0%nat -> SInv s -> LQ c s -> pend_of s t = IPauseSt :: rest ->
  LQ c (set_pend (with_actor s (self_of t) (fun x => set_mb x (a_sq x) (a_uq x) true (a_cons x) (a_cur x))) t rest).
Proof.
  intros Hc0 _ HL Hp. apply (LQ_thread_op c s _ t IPauseSt rest rest HL Hp eq_refl).
  - unfold with_actor. destruct (get s (self_of t)); reflexivity.
  - intros x Hx. unfold with_actor. destruct (get s (self_of t)) as [xs|] eqn:Hs; [|exists x; split; [exact Hx|split; [reflexivity|eauto]]].
    destruct (Nat.eq_dec (self_of t) c) as [E|E].
    + rewrite E in *. rewrite Hx in Hs. inversion Hs; subst xs. eexists. split; [apply (get_set_actor_same _ _ _ _ Hx)|]. split; [reflexivity|]. cbn [set_mb a_sq]. eauto.
    + exists x. split; [rewrite get_set_actor_other by exact E; exact Hx|]. split; [reflexivity|eauto].
Qed.

Lemma LQ_resume1p c s t rest x :
  SInv s -> LQ c s -> pend_of s t = IResume1 :: rest -> get s (self_of t) = Some x ->
  LQ c (set_pend (set_actor s (self_of t) (set_mb x (a_sq x) (a_uq x) false (a_cons x) (a_cur x))) t (IResume2 :: rest)).
Proof.
  intros _ HL Hp Hg. apply (LQ_thread_op c s _ t IResume1 rest _ HL Hp eq_refl); [reflexivity|].
  intros xc Hxc. destruct (Nat.eq_dec (self_of t) c) as [E|E].
  - rewrite E in *. rewrite Hxc in Hg. inversion Hg; subst xc. eexists. split; [apply (get_set_actor_same _ _ _ _ Hxc)|]. split; [reflexivity|]. cbn [set_mb a_sq]. eauto.
  - exists xc. split; [rewrite get_set_actor_other by exact E; exact Hxc|]. split; [reflexivity|eauto].
Qed.

Lemma LQ_consumer c s ev :
  (match ev with EvSysPop _ | EvLoadPaused _ | EvUserPop _ => True | _ => False end) ->
  SInv s -> LQ c s -> err (step s ev) = false -> LQ c (step s ev).
Proof.
  intros Hev HI HL Herr.
  assert (Hother : forall a x y, get s a = Some x -> a <> c -> LQ c (set_actor s a y)).
  { intros a x y Hg Hac. apply (LQ_same_rec c s); [apply get_set_actor_other; exact Hac|exists []; rewrite app_nil_r; split; reflexivity|exact HL]. }
  assert (HD : forall y, (exists r, seen_of c (olog s) = MLaunch :: r) -> LQ c (set_actor s c y)).
  { intros y Hd. destruct HL as (x & Hg & _). apply (LQ_D_any c s _ Hd); [exists []; rewrite app_nil_r; reflexivity|].
    exists y. apply (get_set_actor_same _ _ _ _ Hg). }
  (* the consumer position of c before its OnLaunch call *)
  assert (Hcons : forall x, get s c = Some x -> (exists r, seen_of c (olog s) = MLaunch :: r) \/
            (a_pend x = [] /\ a_cons x = C0 /\ exists e r, a_sq x = e :: r /\ e_msg e = MLaunch /\
             seen_of c (olog s) = [] /\ a_state x = Running /\ a_zombie x = false /\ a_parent x <> None) \/
            (exists e, a_cons x = CH e) \/ is_busy (a_cons x) = true).
  { intros x Hg. destruct HL as (x' & Hg' & H). rewrite Hg in Hg'. inversion Hg'; subst x'.
    destruct H as [(H0 & H1 & H2 & H3 & H4)|Hd]; [|left; exact Hd]. right.
    destruct H4 as [(P1 & P2 & e & r & P3 & P4)|[(P1 & e & P2 & P3)|(ac & r & rest & P)]].
    - left. repeat split; try assumption. exists e, r. repeat split; assumption.
    - right. left. exists e. exact P2.
    - right. right. destruct (proj1 HI c x Hg) as (_ & [Hp|(Hb & _)]); [rewrite P in Hp; discriminate Hp|exact Hb]. }
  destruct ev; try contradiction; cbn [step] in *.
  - destruct (get s a) as [x|] eqn:Hg; [|discriminate].
    destruct (Nat.eq_dec a c) as [->|Hac].
    2:{ destruct (a_cons x); try discriminate; destruct (a_sq x); try discriminate; apply (Hother a x _ Hg Hac). }
    destruct (Hcons x Hg) as [Hd|[(P1 & P2 & e & r & P3 & P4 & Q0 & Q1 & Q2 & Q3)|[(e & P)|P]]].
    + destruct (a_cons x); try discriminate; destruct (a_sq x); try discriminate; apply HD; exact Hd.
    + rewrite P2, P3 in *. eexists. split; [apply (get_set_actor_same _ _ _ _ Hg)|]. left.
      cbn [set_mb a_state a_zombie a_parent a_pend a_cons]. repeat split; try assumption. right. left. split; [exact P1|]. exists e. split; [reflexivity|exact P4].
    + rewrite P in Herr. discriminate Herr.
    + destruct (a_cons x); try discriminate P; discriminate Herr.
  - destruct (get s a) as [x|] eqn:Hg; [|discriminate].
    destruct (Nat.eq_dec a c) as [->|Hac].
    2:{ destruct (a_cons x); try discriminate; apply (Hother a x _ Hg Hac). }
    destruct (Hcons x Hg) as [Hd|[(P1 & P2 & _)|[(e & P)|P]]].
    + destruct (a_cons x); try discriminate; apply HD; exact Hd.
    + rewrite P2 in Herr. discriminate Herr.
    + rewrite P in Herr. discriminate Herr.
    + destruct (a_cons x); try discriminate P; discriminate Herr.
  - destruct (get s a) as [x|] eqn:Hg; [|discriminate].
    destruct (Nat.eq_dec a c) as [->|Hac].
    2:{ destruct (a_cons x); try discriminate; destruct (a_uq x); try discriminate; apply (Hother a x _ Hg Hac). }
    destruct (Hcons x Hg) as [Hd|[(P1 & P2 & _)|[(e & P)|P]]].
    + destruct (a_cons x); try discriminate; destruct (a_uq x); try discriminate; apply HD; exact Hd.
    + rewrite P2 in Herr. discriminate Herr.
    + rewrite P in Herr. discriminate Herr.
    + destruct (a_cons x); try discriminate P; discriminate Herr.
Qed.

Lemma tid_dec (t1 t2 : tid) : {t1 = t2} + {t1 <> t2}.
Proof. decide equality; apply Nat.eq_dec. Qed.

Lemma LQ_handle c s a x e s1 ins :
  SInv s -> LQ c s -> err s = false -> get s a = Some x -> a_cons x = CH e -> a_pend x = [] ->
  let x0 := set_mb x (a_sq x) (a_uq x) (a_paused x) (CBusy (mode_top x)) (a_cur x) in
  dispatch (set_actor s a x0) a x0 e = (s1, ins) ->
  LQ c (set_pend s1 (TA a) ins).
Proof.
  intros _ HL _ Hg Hc Hpx x0 Hd.
  assert (Hg0 : get (set_actor s a x0) a = Some x0) by apply (get_set_actor_same _ _ _ _ Hg).
  destruct (dispatch_frame _ _ _ _ _ _ Hg0 Hd) as (y & Hact & _ & _ & _ & Hol & _).
  assert (Hg1 : get s1 a = Some y) by (unfold get; rewrite Hact; apply (nth_error_upd_same _ _ _ _ Hg0)).
  assert (Holog : olog (set_pend s1 (TA a) ins) = olog s) by (rewrite olog_set_pend, Hol; reflexivity).
  destruct (Nat.eq_dec a c) as [->|Hac].
  - destruct HL as (x' & Hg' & H). rewrite Hg in Hg'. inversion Hg'; subst x'.
    exists (upd_pend y ins). split; [apply (get_set_pend_TA_same _ _ _ _ Hg1)|]. rewrite Holog.
    destruct H as [(H0 & H1 & H2 & H3 & H4)|Hdd]; [|right; exact Hdd]. left.
    destruct H4 as [(_ & P2 & _)|[(_ & e' & P2 & P3)|(ac & r & rest & P)]]; [congruence| |rewrite Hpx in P; discriminate P].
    rewrite Hc in P2. inversion P2; subst e'.
    unfold dispatch in Hd. cbn [x0 set_mb a_state a_zombie] in Hd. rewrite H1, H2, P3 in Hd. cbn in Hd.
    inversion Hd; subst s1 ins. rewrite (get_set_actor_same _ _ _ _ Hg0) in Hg1. inversion Hg1; subst y.
    cbn [upd_pend set_mb a_state a_zombie a_parent a_pend]. repeat split; try assumption. right. right. eexists _, _, _. reflexivity.
  - apply (LQ_same_rec c s); [|exists []; rewrite Holog, app_nil_r; split; reflexivity|exact HL].
    rewrite get_set_pend_TA_other by exact Hac. unfold get. rewrite Hact. rewrite nth_error_upd_other by exact Hac.
    fold (get (set_actor s a x0) c). apply get_set_actor_other. exact Hac.
Qed.

(** OnLaunch first - from the moment it is first in line *)
Theorem launch_first_stable c s evs :
  c <> 0%nat -> reachable s -> launch_first c s -> err (run_events evs s) = false ->
  forall m rest, seen_of c (olog (run_events evs s)) = m :: rest -> m = MLaunch.
Proof.
  intros Hc0 Hr (x & e & r & Hg & (F1 & F2 & F3 & F4) & Hc & Hsq & He & Hseen) Herr.
  assert (HL0 : LQ c s).
  { exists x. split; [exact Hg|]. left. repeat split; try assumption. left. split; [exact F4|]. split; [exact Hc|]. exists e, r. auto. }
  assert (Hstep : forall s0 ev, SQ2 (LQ c) s0 -> err (step s0 ev) = false -> SQ2 (LQ c) (step s0 ev)).
  { apply (SQ2_step (LQ c)).
    - intros s0 t i rest0 HI HQ _ Hp Hy _ He1. destruct (tid_dec t (TA c)) as [->|Ht].
      + apply LQ_astep_self; assumption.
      + apply LQ_astep_other; assumption.
    - intros; apply LQ_resolve; assumption.
    - intros; apply LQ_push; assumption.
    - intros s0 t i rest0 HI HQ Hp Hi. apply (LQ_pophead c s0 t i rest0 HI HQ Hp Hi).
    - intros; apply LQ_pause; assumption.
    - intros; apply LQ_resume1p; assumption.
    - intros; apply LQ_consumer; assumption.
    - intros s0 a x1 e1 s1 ins HI HQ He0 Hg1 Hc1 Hp1 x0 Hd. apply (LQ_handle c s0 a x1 e1 s1 ins HI HQ He0 Hg1 Hc1 Hp1 Hd). }
  assert (Hall : forall evs0 s0, SQ2 (LQ c) s0 -> err (run_events evs0 s0) = false -> SQ2 (LQ c) (run_events evs0 s0)).
  { induction evs0 as [|ev evs0 IH]; intros s0 HS He0; [exact HS|].
    change (run_events (ev :: evs0) s0) with (run_events evs0 (step s0 ev)) in *.
    apply IH; [|exact He0]. apply Hstep; [exact HS|]. apply (err_false_run_events _ _ He0). }
  destruct (Hall evs s (conj (SInv_reachable s Hr) HL0) Herr) as (_ & (y & _ & [(H0 & _)|(r0 & Hr0)])).
  - intros m rest Hm. rewrite H0 in Hm. discriminate Hm.
  - intros m rest Hm. rewrite Hr0 in Hm. inversion Hm. reflexivity.
Qed.

(** the launch tell of ActorOf is resolved to the new context's own mailbox ... *)
Lemma spawn_launch_resolves s c p g pa sp :
  get s c = Some (new_actor p g pa sp) -> alookup (reg s) p = Some c ->
  fst (resolve s (RObj c)) = MbActor c.
Proof. intros Hg Hr. cbn [resolve]. rewrite Hg. cbn [a_cache new_actor a_path]. rewrite Hr. reflexivity. Qed.

(** ... and if nothing has touched the new actor's mailbox until that envelope is inserted, OnLaunch is first in line *)
Lemma launch_push_establishes s t c x sender rest :
  get s c = Some x -> fresh x -> a_cons x = C0 -> a_sq x = [] -> seen_of c (olog s) = [] ->
  pend_of s t = IEnqR true (MbActor c) sender MLaunch :: rest -> t <> TA c ->
  launch_first c (step s (EvPush t 0)).
Proof.
  intros Hg (F1 & F2 & F3 & F4) Hc Hsq Hseen Hp Ht. cbn [step]. rewrite Hp. cbn [deliver].
  unfold push_mb, with_actor. rewrite Hg. cbn [e_sys].
  match goal with |- launch_first c (set_pend (set_actor s c ?y) t rest) => set (y0 := y) end.
  assert (Hy : get (set_pend (set_actor s c y0) t rest) c = Some y0).
  { destruct t as [a|k]; [|rewrite get_set_pend_TX; apply (get_set_actor_same _ _ _ _ Hg)].
    rewrite get_set_pend_TA_other by congruence. apply (get_set_actor_same _ _ _ _ Hg). }
  exists y0, {| e_sys := true; e_sender := sender; e_msg := MLaunch |}, []. split; [exact Hy|].
  split; [repeat split; assumption|]. split; [exact Hc|]. split; [unfold y0; cbn [a_sq]; rewrite Hsq; reflexivity|].
  split; [reflexivity|]. rewrite olog_set_pend. exact Hseen.
Qed.
