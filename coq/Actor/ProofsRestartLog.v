(** C05, restart clause over whole histories: in the log of behaviour invocations, whatever directly follows the
    invocation for an actor's own OnKilled - by C05-b that is the OnLaunch of a supervised restart - was handled by the
    behaviour the stack is reset to (mode 0, the actor's OnReceive) of the instance the restart put in charge (a fresh
    one with a provider, the same one without).  Invariant over all reachable states, in the skeleton of
    Actor/ProofsLifeGen.v, on top of the invariant of Actor/ProofsLifeLog.v. *)
From Coq Require Import List NArith ZArith Bool Lia.
From Vivid Require Import Base.Tm Actor.Core Actor.CoreRun Actor.SpecLife Actor.SpecRestartLog Actor.ProofsLife Actor.ProofsLifeInv
  Actor.ProofsLifeSum Actor.ProofsLifePhase Actor.ProofsLifeGen Actor.ProofsLifeTree Actor.ProofsLifeLog.
Import ListNotations.
Local Open Scope N_scope.
#[local] Strategy 100 [run_atomic FUEL].

(* ------------------------------------------------------------------ the detailed log *)

Lemma seen_full_app a l1 l2 : seen_full a (l1 ++ l2) = seen_full a l1 ++ seen_full a l2.
Proof.
  induction l1 as [|o l1 IH]; [reflexivity|]. cbn [app seen_full].
  destruct o; try exact IH. destruct (Nat.eqb who a); [cbn [app]; rewrite IH; reflexivity|exact IH].
Qed.

Lemma seen_full_snoc_other a l o :
  (forall i md m, o <> OSeen a i md m) -> seen_full a (l ++ [o]) = seen_full a l.
Proof.
  intros H. rewrite seen_full_app. cbn [seen_full]. destruct o; try apply app_nil_r.
  destruct (Nat.eqb who a) eqn:E; [|apply app_nil_r]. apply Nat.eqb_eq in E. subst who. exfalso. apply (H inst mode m). reflexivity.
Qed.

Lemma seen_of_full a l : seen_of a l = map (fun t => snd t) (seen_full a l).
Proof.
  induction l as [|o l IH]; [reflexivity|]. cbn [seen_of seen_full]. destruct o; try exact IH.
  destruct (Nat.eqb who a); [cbn [map snd]; rewrite IH; reflexivity|exact IH].
Qed.

(* ------------------------------------------------------------------ only IRestartFinish changes the instance *)

Lemma upd_app_left {A} (l r : list A) i x : (i < length l)%nat -> upd (l ++ r) i x = upd l i x ++ r.
Proof. revert i; induction l as [|h t IH]; intros [|i] H; cbn [upd length app] in *; try lia; auto. f_equal; apply IH; lia. Qed.

Lemma exec1_keep_inst s t h i x :
  get s (self_of t) = Some x -> i <> IRestartFinish ->
  exists y news, a_inst y = a_inst x /\ actors (fst (exec1 s t h i)) = upd (actors s) (self_of t) y ++ news.
Proof.
  intros Hg Hrf.
  assert (Hid : actors s = upd (actors s) (self_of t) x ++ []).
  { rewrite app_nil_r. symmetry. apply upd_same. exact Hg. }
  assert (Hsame : exists y news, a_inst y = a_inst x /\ actors s = upd (actors s) (self_of t) y ++ news).
  { exists x, []. split; auto. }
  assert (Hset : forall y, a_inst y = a_inst x ->
            exists y0 news, a_inst y0 = a_inst x /\ actors (set_actor s (self_of t) y) = upd (actors s) (self_of t) y0 ++ news).
  { intros y H1. exists y, []. split; auto. cbn [set_actor actors]. rewrite app_nil_r. reflexivity. }
  unfold exec1. rewrite Hg.
  destruct i; try exact Hsame; try congruence.
  - (* ISupPause *) destruct remaining; exact Hsame.
  - (* IAct *)
    destruct a; try exact Hsame.
    + (* ASpawn *)
      destruct (a_state x) eqn:Est; try exact Hsame.
      all: destruct (negb (sp_prelaunch sp)); [exact Hsame|].
      all: destruct (alookup (reg s) (a_path x ++ [sp_name sp])); [exact Hsame|].
      all: cbn [fst].
      all: match goal with |- context[with_actor ?s1 _ _] =>
        assert (Hg1 : get s1 (self_of t) = Some x)
          by (unfold get; cbn [actors]; rewrite nth_error_app1 by (apply nth_error_Some; unfold get in Hg; congruence); exact Hg);
        unfold with_actor; rewrite Hg1
      end.
      all: eexists; eexists; split;
        [|cbn [set_actor actors]; rewrite upd_app_left by (apply nth_error_Some; unfold get in Hg; congruence); reflexivity].
      all: reflexivity.
    + (* AStash *) destruct (a_cur x); [apply Hset; reflexivity|exact Hsame].
    + (* AUnstash *)
      destruct n as [n|].
      * destruct (Nat.eqb (length (a_stash x)) 0); [exact Hsame|]. cbn [fst]. apply Hset; reflexivity.
      * destruct (a_stash x); [exact Hsame|]. apply Hset; reflexivity.
    + (* ASub *) destruct (alookup (subscribers s ty) (a_path x)); exact Hsame.
    + (* AUnsub *) destruct (nlookup (subs s) ty); exact Hsame.
    + (* ABecome *) apply Hset; reflexivity.
    + (* AUnbecome *) apply Hset; reflexivity.
  - (* IBeh *)
    destruct (a_zombie x); [exact Hsame|]. destruct (a_parent x).
    + destruct (take_until_panic acts). exact Hsame.
    + destruct m; try exact Hsame. destruct (ref_eq s who (RObj (self_of t))); exact Hsame.
  - (* IPub *) destruct (subscribers s ty); exact Hsame.
  - (* IOnKilled *)
    destruct (a_zombie x); [exact Hsame|]. destruct (ref_eq s who (RObj (self_of t))); [exact Hsame|].
    cbn [fst]. apply Hset;
    repeat match goal with |- context[match ?e with _ => _ end] => destruct e end; reflexivity.
  - (* ICheckMark *)
    destruct (a_children x); [|exact Hsame]. destruct (a_state x) eqn:Est; try exact Hsame.
    cbn [fst]. apply Hset; reflexivity.
  - (* IUnzombie *) apply Hset; reflexivity.
  - (* ISupApply *) destruct d; exact Hsame.
  - (* IEndHandler *) apply Hset; reflexivity.
Qed.

Lemma upd_len {A} (l : list A) i x : length (upd l i x) = length l.
Proof. revert i; induction l as [|h t IH]; intros [|i]; cbn [upd length]; auto. Qed.

Lemma exec1_self_inst s t h i s1 front x x1 :
  exec1 s t h i = (s1, front) -> get s (self_of t) = Some x -> get s1 (self_of t) = Some x1 -> i <> IRestartFinish ->
  a_inst x1 = a_inst x.
Proof.
  intros He Hg Hg1 Hrf. destruct (exec1_keep_inst s t h i x Hg Hrf) as (y & news & Hy & Ha).
  rewrite He in Ha. cbn [fst] in Ha. unfold get in Hg1. rewrite Ha in Hg1.
  rewrite nth_error_app1 in Hg1 by (rewrite upd_len; apply (get_lt _ _ _ Hg)).
  rewrite (nth_error_upd_same _ _ _ _ Hg) in Hg1. congruence.
Qed.

(* ------------------------------------------------------------------ the invariant *)

(** how the record is linked to the instance [i] that saw the own OnKilled, while that is the last invocation:
    as long as the restart's completion is still pending the instance has not changed; once it has completed (the
    OnLaunch call of the new incarnation is the next significant instruction) HandleEnvelop's peeked behaviour is
    mode 0 and the instance is the one the restart put in charge *)
Definition link (x : actor) (i : N) : Prop :=
  (existsb is_rf (a_pend x) = true -> a_inst x = i) /\
  (a_zombie x = false -> forall ac r, filter sig (a_pend x) = [IBeh MLaunch ac r; IEndHandler] ->
     a_cons x = CBusy 0 /\ a_inst x = next_inst x i).

Definition RQ (a : aid) (s : state) : Prop :=
  match get s a with
  | None => seen_full a (olog s) = []
  | Some x =>
      restart_log_ok a x (seen_full a (olog s)) /\
      (forall pre i md, seen_full a (olog s) = pre ++ [(i, md, MKilled (RObj a))] -> link x i)
  end.

Lemma next_inst_spec x y i : a_spec y = a_spec x -> next_inst y i = next_inst x i.
Proof. intros H. unfold next_inst. rewrite H. reflexivity. Qed.

Lemma restart_log_ok_spec a x y l : a_spec y = a_spec x -> restart_log_ok a x l -> restart_log_ok a y l.
Proof. intros H R pre i1 md1 i2 md2 m post E. rewrite (next_inst_spec x y _ H). apply (R pre i1 md1 i2 md2 m post E). Qed.

Lemma link_ext x y i :
  a_pend y = a_pend x -> a_inst y = a_inst x -> a_zombie y = a_zombie x -> a_cons y = a_cons x -> a_spec y = a_spec x ->
  link x i -> link y i.
Proof.
  intros H1 H2 H3 H4 H5 [L1 L2]. unfold link. rewrite H1, H2, H3, H4, (next_inst_spec x y _ H5). split; assumption.
Qed.

Lemma is_rf_sig j : sig j = false -> is_rf j = false.
Proof. destruct j; cbn; try reflexivity; discriminate. Qed.

Lemma existsb_rf_plain front rest : (forall j, In j front -> sig j = false) -> existsb is_rf (front ++ rest) = existsb is_rf rest.
Proof.
  intros Hf. rewrite existsb_app. replace (existsb is_rf front) with false; [reflexivity|].
  symmetry. apply not_true_is_false. intros H. apply existsb_exists in H as (j & Hj & Hr). rewrite (is_rf_sig j (Hf j Hj)) in Hr. discriminate.
Qed.

(** replacing a plain head by plain instructions, the rest of the record as far as [link] looks at it unchanged *)
Lemma link_pop x y i0 rest front i :
  link x i -> a_pend x = i0 :: rest -> sig i0 = false -> (forall j, In j front -> sig j = false) ->
  a_pend y = front ++ rest -> a_inst y = a_inst x -> a_zombie y = a_zombie x -> a_cons y = a_cons x -> a_spec y = a_spec x ->
  link y i.
Proof.
  intros [L1 L2] Hp Hs Hf E1 E2 E3 E4 E5. unfold link. rewrite E1, E2, E3, E4, (next_inst_spec x y _ E5).
  rewrite Hp in L1, L2. cbn [existsb filter] in L1, L2. rewrite (is_rf_sig _ Hs), Hs in *. cbn [orb] in L1.
  rewrite (existsb_rf_plain front rest Hf), (filter_app_none sig front rest Hf). split; assumption.
Qed.

(* ------------------------------------------------------------------ mailbox operations, plain pops, consumer moves *)

Lemma RQ_mb a s s' : mb_equiv s s' -> RQ a s -> RQ a s'.
Proof.
  intros (Hm & _ & _ & _ & _ & Hol) H. unfold RQ in *. rewrite Hol. specialize (Hm a).
  destruct (get s a) as [x|], (get s' a) as [y|]; try contradiction; [|exact H].
  destruct H as [R1 R2].
  destruct Hm as (_ & _ & _ & Hsp & _ & Hz & _ & _ & _ & _ & _ & Hin & _ & _ & Hco & _ & Hpe).
  split; [apply (restart_log_ok_spec a x y _ Hsp R1)|].
  intros pre i md E. apply (link_ext x y i Hpe Hin Hz Hco Hsp). apply (R2 pre i md E).
Qed.

Lemma RQ_pop a s t i rest front :
  SInv s -> RQ a s -> pend_of s t = i :: rest -> sig i = false -> (forall j, In j front -> sig j = false) ->
  RQ a (set_pend s t (front ++ rest)).
Proof.
  intros _ H Hp Hs Hf. unfold RQ in *. rewrite olog_set_pend. destruct t as [b|k].
  - destruct (Nat.eq_dec b a) as [->|Hba].
    + cbn [pend_of] in Hp. destruct (get s a) as [x|] eqn:Hg; [|discriminate].
      rewrite (get_set_pend_TA_same _ _ _ _ Hg). destruct H as [R1 R2]. split; [exact R1|].
      intros pre i0 md E. apply (link_pop x _ i rest front i0 (R2 pre i0 md E) Hp Hs Hf); reflexivity.
    + rewrite get_set_pend_TA_other by exact Hba. exact H.
  - rewrite get_set_pend_TX. exact H.
Qed.

Lemma RQ_cons a s b x sq uq pa co cu :
  SInv s -> RQ a s -> get s b = Some x -> is_busy (a_cons x) = false -> a_pend x = [] -> is_busy co = false ->
  cu = a_cur x -> RQ a (set_actor s b (set_mb x sq uq pa co cu)).
Proof.
  intros _ H Hgb _ Hpx _ _. unfold RQ in *. change (olog (set_actor s b (set_mb x sq uq pa co cu))) with (olog s).
  destruct (Nat.eq_dec b a) as [->|Hba].
  - rewrite (get_set_actor_same _ _ _ _ Hgb). rewrite Hgb in H. destruct H as [R1 R2]. split; [exact R1|].
    intros pre i md E. unfold link. cbn [set_mb a_pend a_zombie a_inst a_cons]. rewrite Hpx. cbn [existsb filter].
    split; [discriminate|]. intros _ ac r Hc. discriminate Hc.
  - rewrite get_set_actor_other by exact Hba. exact H.
Qed.

(* ------------------------------------------------------------------ HandleEnvelop *)

Lemma dispatch_no_rf s a x e : existsb is_rf (snd (dispatch s a x e)) = false.
Proof.
  unfold dispatch.
  repeat match goal with
         | |- context[if ?c then _ else _] => destruct c
         | |- context[match ?c with _ => _ end] => destruct c
         end; cbn [snd]; rewrite ?existsb_app; reflexivity.
Qed.

Lemma RQ_handle a s b x e s1 ins :
  a <> 0%nat -> SInv s -> KP a s -> RQ a s -> err s = false -> get s b = Some x -> a_cons x = CH e -> a_pend x = [] ->
  let x0 := set_mb x (a_sq x) (a_uq x) (a_paused x) (CBusy (mode_top x)) (a_cur x) in
  dispatch (set_actor s b x0) b x0 e = (s1, ins) ->
  RQ a (set_pend s1 (TA b) ins).
Proof.
  intros Ha0 _ [_ (K1 & K2)] H _ Hg Hc Hpx x0 Hd.
  assert (Hg0 : get (set_actor s b x0) b = Some x0) by apply (get_set_actor_same _ _ _ _ Hg).
  destruct (dispatch_frame _ _ _ _ _ _ Hg0 Hd) as (y & Hact & _ & _ & _ & Hol & _ & _ & _ & _ & _ & Hsp & _ & _ & _ & _ & _ & _ & Hzy & _ & _ & _ & Hin & _).
  assert (Hg1 : get s1 b = Some y) by (unfold get; rewrite Hact; apply (nth_error_upd_same _ _ _ _ Hg0)).
  unfold RQ in *. rewrite olog_set_pend, Hol. change (olog (set_actor s b x0)) with (olog s).
  destruct (Nat.eq_dec b a) as [->|Hba].
  - rewrite Hg in H. destruct H as [R1 R2]. rewrite (get_set_pend_TA_same _ _ _ _ Hg1).
    split; [apply (restart_log_ok_spec a x _ _ Hsp R1)|].
    intros pre i md E.
    assert (Hlast : last_is_own a (olog s)).
    { exists (map (fun t => snd t) pre). rewrite seen_of_full, E, map_app. reflexivity. }
    destruct (K2 Hlast) as (x' & Hg' & Hx'). rewrite Hg in Hg'. inversion Hg'; subst x'.
    destruct Hx' as [(Kst & _)|(_ & ac & r & Kf)]; [|rewrite Hpx in Kf; discriminate Kf].
    unfold link. cbn [upd_pend a_pend a_inst a_zombie a_cons].
    pose proof (dispatch_no_rf (set_actor s a x0) a x0 e) as Hrf. rewrite Hd in Hrf. cbn [snd] in Hrf.
    split; [rewrite Hrf; discriminate|].
    intros Hz ac r Hf. exfalso.
    assert (Hzx : a_zombie x = false) by (rewrite Hzy in Hz; exact Hz).
    rewrite (dispatch_dead _ a x0 e Kst Hzx) in Hd.
    destruct (a_parent x0); inversion Hd; subst ins; discriminate Hf.
  - rewrite get_set_pend_TA_other by exact Hba.
    assert (E : get s1 a = get s a).
    { unfold get. rewrite Hact. rewrite nth_error_upd_other by exact Hba.
      fold (get (set_actor s b x0) a). apply get_set_actor_other. exact Hba. }
    rewrite E. exact H.
Qed.

(* ------------------------------------------------------------------ the micro-step: another thread *)

Lemma RQ_new a s' : get s' a = None \/ (exists p g pa sp, get s' a = Some (new_actor p g pa sp)) -> seen_full a (olog s') = [] -> RQ a s'.
Proof.
  intros [Hn|(p & g & pa & sp & Hn)] Hs; unfold RQ; rewrite Hn; [exact Hs|]. rewrite Hs. split.
  - intros pre i1 md1 i2 md2 m post E. destruct pre; discriminate E.
  - intros pre i md E. destruct pre; discriminate E.
Qed.

(** a step that logs nothing for [a] and leaves [a]'s record alone (or creates it) *)
Lemma RQ_same a s s' :
  seen_full a (olog s') = seen_full a (olog s) ->
  (forall x, get s a = Some x -> get s' a = Some x) ->
  (get s a = None -> get s' a = None \/ exists p g pa sp, get s' a = Some (new_actor p g pa sp)) ->
  RQ a s -> RQ a s'.
Proof.
  intros Hs H1 H2 H. unfold RQ in H. destruct (get s a) as [x|] eqn:Hg.
  - unfold RQ. rewrite (H1 x eq_refl), Hs. exact H.
  - apply RQ_new; [apply H2; reflexivity|]. rewrite Hs. exact H.
Qed.

Lemma seen_full_other a s s1 i self (x0 : actor) :
  self <> a ->
  (olog s1 = olog s \/ (exists n r, is_spawn i = true /\ olog s1 = olog s ++ [OSpawn self n r]) \/
   (exists o, i = IObs o /\ olog s1 = olog s ++ [o]) \/
   (exists m ac r pa md, i = IBeh m ac r /\ a_zombie x0 = false /\ a_parent x0 = Some pa /\
                         olog s1 = olog s ++ [OSeen self (a_inst x0) md m])) ->
  (forall o, i = IObs o -> forall i0 md m, o <> OSeen a i0 md m) ->
  seen_full a (olog s1) = seen_full a (olog s).
Proof.
  intros Hself [Hol|[(n & r & _ & Hol)|[(o & Hi & Hol)|(m & ac & r & pa & md & _ & _ & _ & Hol)]]] Hobs; rewrite Hol.
  - reflexivity.
  - apply seen_full_snoc_other. intros; discriminate.
  - apply seen_full_snoc_other. apply (Hobs o Hi).
  - apply seen_full_snoc_other. intros i0 md0 m0 E. inversion E. congruence.
Qed.

Lemma RQ_astep_other a s t i rest :
  self_of t <> a -> SInv s -> RQ a s -> err s = false -> pend_of s t = i :: rest -> yielding i = false ->
  (forall sys to sender m, i <> IEnq sys to sender m) -> RQ a (astep s t i rest).
Proof.
  intros Hself [HA HX] H He0 Hp Hy Hne. destruct t as [b|k]; cbn [self_of] in Hself.
  - destruct (pend_of_TA_cons _ _ _ _ Hp) as (x & Hg & Hpx).
    destruct (astep_TA s b i rest x Hg) as (s1 & front & x1 & He & Hg1 & _ & Heq). rewrite Heq in *. clear Heq.
    assert (Hg0 : get (set_actor s b (upd_pend x rest)) (self_of (TA b)) = Some (upd_pend x rest)) by apply (get_set_actor_same _ _ _ _ Hg).
    destruct (INV_head _ _ _ _ (HA b x Hg) Hpx) as (_ & _ & _ & Hph).
    apply (RQ_same a s); [| | |exact H].
    + change (olog (set_actor s1 b (upd_pend x1 (front ++ rest)))) with (olog s1).
      apply (seen_full_other a s s1 i b (upd_pend x rest) Hself).
      * apply (exec1_olog _ _ _ _ _ _ _ He Hg0).
      * intros o -> i0 md m ->. cbn in Hph. inversion Hph.
    + intros xa Hga. rewrite get_set_actor_other by exact Hself.
      apply (exec1_keeps _ _ _ _ _ _ a xa He); [cbn; congruence|]. rewrite get_set_actor_other by exact Hself. exact Hga.
    + intros Hga. rewrite get_set_actor_other by exact Hself.
      destruct (get s1 a) as [y|] eqn:Hgy; [|left; reflexivity].
      destruct (exec1_other _ _ _ _ _ _ a y He (fun E => Hself (eq_sym E)) Hgy) as [Hb0|(_ & _ & sp & x0 & _ & _ & _ & _ & _ & ->)].
      * rewrite get_set_actor_other in Hb0 by exact Hself. congruence.
      * right. do 4 eexists. reflexivity.
  - destruct (pend_of_TX_cons _ _ _ _ Hp) as (ex & Hn & Hpx).
    assert (Hs : sig i = false) by (apply (HX k ex Hn); rewrite Hpx; left; reflexivity).
    destruct (astep_TX s k i rest ex Hn) as (s1 & front & ex1 & He & Hn1 & _ & _ & Heq). rewrite Heq in *. clear Heq.
    destruct (get s 0%nat) as [x0|] eqn:Hg00.
    2:{ unfold exec1 in He. cbn [self_of] in He.
        change (get (set_ext s k {| x_pend := rest; x_held := x_held ex |}) 0%nat) with (get s 0%nat) in He.
        rewrite Hg00 in He. inversion He; subst s1 front.
        apply (RQ_same a s); [reflexivity| | |exact H]; intros; [assumption|left; assumption]. }
    assert (Hg0 : get (set_ext s k {| x_pend := rest; x_held := x_held ex |}) (self_of (TX k)) = Some x0) by exact Hg00.
    apply (RQ_same a s); [| | |exact H].
    + change (olog (set_ext s1 k {| x_pend := front ++ rest; x_held := x_held ex1 |})) with (olog s1).
      apply (seen_full_other a s s1 i 0%nat x0 Hself).
      * apply (exec1_olog _ _ _ _ _ _ _ He Hg0).
      * intros o -> i0 md m ->. discriminate Hs.
    + intros xa Hga.
      change (get (set_ext s1 k {| x_pend := front ++ rest; x_held := x_held ex1 |}) a) with (get s1 a).
      apply (exec1_keeps _ _ _ _ _ _ a xa He); [cbn; congruence|exact Hga].
    + intros Hga.
      change (get (set_ext s1 k {| x_pend := front ++ rest; x_held := x_held ex1 |}) a) with (get s1 a).
      destruct (get s1 a) as [y|] eqn:Hgy; [|left; reflexivity].
      destruct (exec1_other _ _ _ _ _ _ a y He (fun E => Hself (eq_sym E)) Hgy) as [Hb0|(_ & _ & sp & x1 & _ & _ & _ & _ & _ & ->)].
      * change (get (set_ext s k {| x_pend := rest; x_held := x_held ex |}) a) with (get s a) in Hb0. congruence.
      * right. do 4 eexists. reflexivity.
Qed.

(* ------------------------------------------------------------------ the micro-step: the own thread *)

Lemma is_rf_true i : is_rf i = true -> i = IRestartFinish.
Proof. destruct i; cbn; try discriminate; reflexivity. Qed.

Lemma existsb_rf_filter l : existsb is_rf (filter sig l) = existsb is_rf l.
Proof.
  induction l as [|j l IH]; [reflexivity|]. cbn [filter existsb]. destruct (sig j) eqn:Hs.
  - cbn [existsb]. rewrite IH. reflexivity.
  - rewrite (is_rf_sig j Hs). exact IH.
Qed.

(** only ICheckMark of a context in state Killing emits the completion of a restart *)
Lemma exec1_front_rf s t h i s' front x :
  exec1 s t h i = (s', front) -> get s (self_of t) = Some x -> existsb is_rf front = true ->
  i = ICheckMark /\ a_state x = Killing.
Proof.
  intros He Hg Hrf. destruct (gen_sig i) eqn:Hgs.
  - unfold exec1 in He. rewrite Hg in He.
    destruct i; try discriminate Hgs.
    + (* IDoKill *) inversion He; subst. exfalso. destruct (a_children x); cbn in Hrf; discriminate Hrf.
    + (* IOnKilled *)
      exfalso. destruct (a_zombie x); [inversion He; subst; discriminate Hrf|].
      destruct (ref_eq s who (RObj (self_of t))); inversion He; subst; discriminate Hrf.
    + (* ICheckMark *)
      destruct (a_children x); [|inversion He; subst; discriminate Hrf].
      destruct (a_state x); try (inversion He; subst; discriminate Hrf). split; reflexivity.
    + (* IRestartFinish *)
      exfalso. destruct (a_hooks x) as [|[[h1 h2] h3] hs].
      * inversion He; subst. discriminate Hrf.
      * destruct (h2 && h3); inversion He; subst; discriminate Hrf.
  - exfalso. pose proof (exec1_front_plain _ _ _ _ _ _ Hgs He) as Hf.
    apply existsb_exists in Hrf as (j & Hj & Hr). rewrite (is_rf_sig j (Hf j Hj)) in Hr. discriminate.
Qed.

Lemma exec1_checkmark_killed s t h x : get s (self_of t) = Some x -> a_state x = Killed -> exec1 s t h ICheckMark = (s, []).
Proof. intros Hg Hs. unfold exec1. rewrite Hg, Hs. destruct (a_children x); reflexivity. Qed.

Lemma chg_state_cases i : chg_state i = true -> i = ICheckMark \/ i = IRestartFinish.
Proof. destruct i; cbn; try discriminate; auto. Qed.

Lemma RQ_exec_self a s x i rest :
  a <> 0%nat -> SInv s -> KQ a s -> RQ a s -> get s a = Some x -> a_pend x = i :: rest -> a_parent x <> None ->
  yielding i = false -> (forall sys to sender m, i <> IEnq sys to sender m) ->
  RQ a (astep s (TA a) i rest).
Proof.
  intros Ha0 HSI (K1 & K2) H Hg Hpx Hpar Hy Hne. pose proof HSI as [HA HX].
  pose proof (HA a x Hg) as HI.
  assert (Hp : pend_of s (TA a) = i :: rest) by (cbn [pend_of]; rewrite Hg; exact Hpx).
  pose proof (SInv_astep s (TA a) i rest HSI Hp Hy Hne) as [HA' _].
  destruct (astep_TA s a i rest x Hg) as (s1 & front & x1 & He & Hg1 & _ & Heq). rewrite Heq in *. clear Heq.
  assert (Hg0 : get (set_actor s a (upd_pend x rest)) (self_of (TA a)) = Some (upd_pend x rest)) by apply (get_set_actor_same _ _ _ _ Hg).
  destruct (INV_head _ _ _ _ HI Hpx) as (Hz & Hb & Hel & Hph).
  destruct (exec1_self _ _ _ _ _ _ _ He Hg0) as (x1' & Hg1' & Hc & _ & F1 & F2 & _ & F4 & _).
  cbn [self_of] in Hg1'. rewrite Hg1 in Hg1'. inversion Hg1'; subst x1'. clear Hg1'.
  cbn [upd_pend a_state a_zombie a_cons] in F1, F2, F4.
  assert (Hsp : a_spec x1 = a_spec x) by (destruct Hc as (_ & _ & _ & Hsp & _); exact Hsp).
  assert (Hin : i <> IRestartFinish -> a_inst x1 = a_inst x)
    by (intros Hn; apply (exec1_self_inst _ _ _ _ _ _ _ _ He Hg0 Hg1 Hn)).
  set (xf := upd_pend x1 (front ++ rest)).
  assert (Hgr : get (set_actor s1 a xf) a = Some xf) by apply (get_set_actor_same _ _ _ _ Hg1).
  pose proof (HA' a xf Hgr) as HI'.
  unfold RQ in H. rewrite Hg in H. destruct H as [R1 R2].
  unfold RQ. rewrite Hgr. change (olog (set_actor s1 a xf)) with (olog s1).
  assert (Hlast : forall pre i0 md, seen_full a (olog s) = pre ++ [(i0, md, MKilled (RObj a))] -> after_own x).
  { intros pre i0 md E.
    assert (Hl : last_is_own a (olog s)) by (exists (map (fun t => snd t) pre); rewrite seen_of_full, E, map_app; reflexivity).
    destruct (K2 Hl) as (x' & Hg' & Hx'). rewrite Hg in Hg'. inversion Hg'; subst x'. exact Hx'. }
  (* the log *)
  destruct (exec1_olog _ _ _ _ _ _ _ He Hg0) as [Hol|[(n & r & Hspw & Hol)|[(o & Hio & Hol)|(m & ac & r & pa & md & -> & Hzf & Hpa & Hol0)]]].
  4:{ (* the behaviour call is logged *)
    cbn [upd_pend a_zombie a_parent a_inst self_of] in Hzf, Hpa.
    pose proof (exec1_IBeh_logs _ _ [] _ m ac r pa Hg0 Hzf Hpa) as Hol. rewrite He in Hol. cbn [fst] in Hol.
    cbn [upd_pend a_inst a_cons self_of] in Hol. clear Hol0 md.
    set (md := match a_cons x with CBusy md => md | _ => mode_top (upd_pend x rest) end) in Hol.
    specialize (F1 eq_refl). specialize (F2 eq_refl). specialize (F4 eq_refl).
    assert (Hi1 : a_inst x1 = a_inst x) by (apply Hin; discriminate).
    pose proof (exec1_front_plain _ _ _ _ _ _ (eq_refl : gen_sig (IBeh m ac r) = false) He) as Hf.
    assert (Hseen : seen_full a (olog s1) = seen_full a (olog s) ++ [(a_inst x, md, m)]).
    { rewrite Hol. cbn [olog add_obs]. change (olog (set_actor s a (upd_pend x rest))) with (olog s).
      rewrite seen_full_app. cbn [seen_full]. rewrite Nat.eqb_refl. reflexivity. }
    rewrite Hseen. split.
    - intros pre i1 md1 i2 md2 m' post Heq. rewrite (next_inst_spec x xf _ Hsp).
      destruct (snoc_cases post) as [->|(post' & z & ->)].
      + change (pre ++ [(i1, md1, MKilled (RObj a)); (i2, md2, m')]) with (pre ++ [(i1, md1, MKilled (RObj a))] ++ [(i2, md2, m')]) in Heq.
        rewrite app_assoc in Heq. apply app_inj_tail in Heq as [Hpre Hnew]. inversion Hnew; subst i2 md2 m'. clear Hnew.
        pose proof (Hlast _ _ _ Hpre) as Hao. destruct (R2 _ _ _ Hpre) as [_ L2].
        destruct Hao as [(_ & [Hzt|Hnb])|(_ & ac' & r' & Hfs)].
        * congruence.
        * rewrite Hpx in Hnb. discriminate Hnb.
        * destruct (L2 Hzf ac' r' Hfs) as [Lc Li]. subst md. rewrite Lc. split; [reflexivity|exact Li].
      + change (pre ++ (i1, md1, MKilled (RObj a)) :: (i2, md2, m') :: post' ++ [z])
          with (pre ++ ((i1, md1, MKilled (RObj a)) :: (i2, md2, m') :: post') ++ [z]) in Heq.
        rewrite app_assoc in Heq. apply app_inj_tail in Heq as [Hpre _]. apply (R1 pre i1 md1 i2 md2 m' post'). exact Hpre.
    - intros pre i0 md0 Heq. apply app_inj_tail in Heq as [_ Hnew]. inversion Hnew; subst i0 md0 m. clear Hnew.
      unfold link, xf. cbn [upd_pend a_pend a_inst a_zombie a_cons]. split; [intros _; exact Hi1|].
      intros _ ac' r' Hfs. exfalso.
      rewrite (filter_app_none sig front rest Hf) in Hfs.
      cbn [sig life_src is_unzombie is_beh orb] in Hph. rewrite Hfs in Hph.
      inversion Hph; subst;
        match goal with H : msg_own a (MKilled (RObj a)) = false |- _ => cbn in H; rewrite Nat.eqb_refl in H; discriminate H end. }
  (* nothing is logged for [a] *)
  all: assert (Hseen : seen_full a (olog s1) = seen_full a (olog s)).
  1:{ rewrite Hol. reflexivity. }
  2:{ rewrite Hol. apply seen_full_snoc_other. intros; discriminate. }
  3:{ rewrite Hol. apply seen_full_snoc_other. intros i0 md m ->. subst i. cbn in Hph. inversion Hph. }
  all: rewrite Hseen; split; [apply (restart_log_ok_spec a x xf _ Hsp R1)|].
  all: intros pre i0 md E; pose proof (R2 pre i0 md E) as L; pose proof (Hlast pre i0 md E) as Hao.
  all: destruct (sig i) eqn:Hs;
    [|destruct (nonsig_chg _ Hs) as (Hgs & C1 & C2 & _ & C4 & _);
      apply (link_pop x xf i rest front i0 L Hpx Hs (exec1_front_plain _ _ _ _ _ _ Hgs He));
      [reflexivity|apply Hin; intros ->; discriminate Hs|apply (F2 C2)|apply (F4 C4)|exact Hsp]].
  2:{ destruct i; try discriminate Hspw. discriminate Hs. }
  2:{ subst i. cbn in Hph. destruct o; try discriminate Hs. inversion Hph. }
  (* no log at all, a significant instruction *)
  destruct Hao as [(Kst & _)|(Kz & ac & r & Kf)].
  2:{ (* the OnLaunch call of the restart is next, but nothing was logged: impossible *)
      exfalso. rewrite Hpx in Kf. cbn [filter] in Kf. rewrite Hs in Kf. inversion Kf; subst i.
      destruct (a_parent x) as [pa|] eqn:Hpa; [|congruence].
      pose proof (exec1_IBeh_logs _ _ [] _ MLaunch ac r pa Hg0 Kz Hpa) as Hl. rewrite He in Hl. cbn [fst] in Hl.
      rewrite Hl in Hol. cbn [olog add_obs] in Hol.
      apply (f_equal (@length obs)) in Hol. rewrite app_length in Hol. cbn [length] in Hol. lia. }
  destruct L as [L1 L2]. rewrite Hpx in L1. cbn [existsb] in L1.
  unfold link, xf. cbn [upd_pend a_pend a_inst a_zombie a_cons]. split.
  - intros Hrf. rewrite existsb_app in Hrf. apply orb_prop in Hrf as [Hrf|Hrf].
    + exfalso. destruct (exec1_front_rf _ _ _ _ _ _ _ He Hg0 Hrf) as [_ Hk]. cbn [upd_pend a_state] in Hk. congruence.
    + assert (Hn : i <> IRestartFinish).
      { intros ->. cbn [sig life_src orb] in Hph. inversion Hph; subst.
        all: match goal with Hfr : _ = filter sig ?l |- _ =>
               rewrite <- (existsb_rf_filter l), <- Hfr in Hrf; discriminate Hrf end. }
      rewrite (Hin Hn). apply L1. rewrite Hrf. apply orb_true_r.
  - intros Hzf ac r Hf.
    destruct (is_rf i) eqn:Hirf.
    + apply is_rf_true in Hirf. subst i.
      assert (Hi0 : a_inst x = i0) by (apply L1; reflexivity).
      destruct (hooks_ok (upd_pend x rest)) eqn:Hok.
      * destruct (exec1_restart_finish_ok _ _ [] _ Hg0 Hok) as (x' & He' & _ & _ & _ & _ & Hix & _ & Hcx & _).
        rewrite He' in He. inversion He; subst s1 front; clear He.
        rewrite (get_set_actor_same _ _ _ _ Hg0) in Hg1. inversion Hg1; subst x1; clear Hg1.
        split; [exact Hcx|]. rewrite Hix. unfold next_inst. cbn [upd_pend a_spec a_inst].
        rewrite Hsp, Hi0. reflexivity.
      * destruct (exec1_restart_finish_fail _ _ [] _ Hg0 Hok) as (x' & He' & Hzz & _).
        rewrite He' in He. inversion He; subst s1 front; clear He.
        rewrite (get_set_actor_same _ _ _ _ Hg0) in Hg1. inversion Hg1; subst x1; clear Hg1. congruence.
    + exfalso.
      assert (Hkf : a_state xf = Killed).
      { unfold xf. cbn [upd_pend a_state]. destruct (chg_state i) eqn:Hcs; [|rewrite (F1 eq_refl); exact Kst].
        destruct (chg_state_cases i Hcs) as [->| ->]; [|discriminate Hirf].
        rewrite (exec1_checkmark_killed _ _ _ _ Hg0 Kst) in He. inversion He; subst s1 front.
        rewrite (get_set_actor_same _ _ _ _ Hg) in Hg1. inversion Hg1; subst x1. exact Kst. }
      destruct HI' as (_ & [Hpe|(_ & _ & Hph')]).
      * unfold xf in Hpe. cbn [upd_pend a_pend] in Hpe. rewrite Hpe in Hf. discriminate Hf.
      * unfold xf in Hph'. cbn [upd_pend a_pend a_state a_zombie] in Hph'. fold xf in Hph'.
        rewrite Hf in Hph'. unfold xf in Hkf. cbn [upd_pend a_state] in Hkf. rewrite Hkf, Hzf in Hph'.
        inversion Hph'; subst; discriminate.
Qed.

(* ------------------------------------------------------------------ all steps *)

Definition RP (a : aid) (s : state) : Prop := KP a s /\ RQ a s.

Section RPsec.
  Variable a : aid.
  Hypothesis Ha0 : a <> 0%nat.

  Lemma RP_mb s s' : mb_equiv s s' -> RP a s -> RP a s'.
  Proof. intros Hm [H1 H2]. split; [apply (KP_mb a _ _ Hm H1)|apply (RQ_mb a _ _ Hm H2)]. Qed.

  Lemma RP_pop s t i rest front :
    SInv s -> RP a s -> pend_of s t = i :: rest -> sig i = false -> (forall j, In j front -> sig j = false) ->
    RP a (set_pend s t (front ++ rest)).
  Proof. intros HI [H1 H2] Hp Hs Hf. split; [apply (KP_pop a s t i rest front HI H1 Hp Hs Hf)|apply (RQ_pop a s t i rest front HI H2 Hp Hs Hf)]. Qed.

  Lemma RP_astep s t i rest :
    SInv s -> RP a s -> err s = false -> pend_of s t = i :: rest -> yielding i = false ->
    (forall sys to sender m, i <> IEnq sys to sender m) -> err (astep s t i rest) = false -> RP a (astep s t i rest).
  Proof.
    intros HI [HK HR] He0 Hp Hy Hne He1. split; [apply (KP_astep a Ha0 s t i rest HI HK He0 Hp Hy Hne He1)|].
    destruct (Nat.eq_dec (self_of t) a) as [E|E].
    - destruct t as [b|k]; cbn [self_of] in E; [subst b|congruence].
      destruct (pend_of_TA_cons _ _ _ _ Hp) as (x & Hg & Hpx).
      apply (RQ_exec_self a s x i rest Ha0 HI (proj2 HK) HR Hg Hpx); try assumption.
      apply (proj2 (proj1 HK a x Hg) Ha0).
    - apply (RQ_astep_other a s t i rest E HI HR He0 Hp Hy Hne).
  Qed.

  Lemma RP_cons s b x sq uq pa co cu :
    SInv s -> RP a s -> get s b = Some x -> is_busy (a_cons x) = false -> a_pend x = [] -> is_busy co = false ->
    cu = a_cur x -> RP a (set_actor s b (set_mb x sq uq pa co cu)).
  Proof.
    intros HI [H1 H2] Hg Hb Hp Hco Hcu. split.
    - apply (KP_cons a s b x sq uq pa co cu HI H1 Hg Hb Hp Hco Hcu).
    - apply (RQ_cons a s b x sq uq pa co cu HI H2 Hg Hb Hp Hco Hcu).
  Qed.

  Lemma RP_handle s b x e s1 ins :
    SInv s -> RP a s -> err s = false -> get s b = Some x -> a_cons x = CH e -> a_pend x = [] ->
    let x0 := set_mb x (a_sq x) (a_uq x) (a_paused x) (CBusy (mode_top x)) (a_cur x) in
    dispatch (set_actor s b x0) b x0 e = (s1, ins) ->
    RP a (set_pend s1 (TA b) ins).
  Proof.
    intros HI [H1 H2] He0 Hg Hc Hp x0 Hd. split.
    - apply (KP_handle a s b x e s1 ins HI H1 He0 Hg Hc Hp Hd).
    - apply (RQ_handle a s b x e s1 ins Ha0 HI H1 H2 He0 Hg Hc Hp Hd).
  Qed.

  Theorem RP_reachable s : reachable s -> RP a s.
  Proof.
    apply (Q_reachable (RP a) RP_mb RP_pop RP_astep RP_cons RP_handle).
    intros scs.
    assert (Hol : olog (init_with scs) = []).
    { unfold init_with.
      assert (H : forall scs0 i s1, olog (set_exts s1 i scs0) = olog s1).
      { induction scs0 as [|sc scs0 IH]; intros i s1; [reflexivity|]. cbn [set_exts]. rewrite IH. apply olog_set_pend. }
      rewrite H. reflexivity. }
    split.
    - split; [apply (LQ_init par par_root)|].
      unfold KQ, ok_log, last_is_own. rewrite Hol. cbn [seen_of]. split.
      + intros pre m post H. destruct pre; discriminate H.
      + intros (pre & H). destruct pre; discriminate H.
    - unfold RQ. rewrite Hol. cbn [seen_full]. destruct (get (init_with scs) a); [|reflexivity]. split.
      + intros pre i1 md1 i2 md2 m post H. destruct pre; discriminate H.
      + intros pre i md H. destruct pre; discriminate H.
  Qed.
End RPsec.

(** C05, restart clause, every reachable state: in the log of actor [a]'s behaviour invocations, whatever directly
    follows the invocation for its own OnKilled was handled in mode 0 (the actor's OnReceive) by the instance the
    restart put in charge *)
Theorem restart_log_reachable s a x :
  reachable s -> a <> 0%nat -> get s a = Some x -> restart_log_ok a x (seen_full a (olog s)).
Proof.
  intros Hr Ha Hg. pose proof (proj2 (RP_reachable a Ha s Hr)) as H. unfold RQ in H. rewrite Hg in H. exact (proj1 H).
Qed.

(** ... and with C05-b: it is the OnLaunch of the new incarnation *)
Theorem restart_opens_with_launch s a x pre i1 md1 i2 md2 m post :
  reachable s -> a <> 0%nat -> get s a = Some x ->
  seen_full a (olog s) = pre ++ (i1, md1, MKilled (RObj a)) :: (i2, md2, m) :: post ->
  m = MLaunch /\ md2 = 0 /\ i2 = next_inst x i1.
Proof.
  intros Hr Ha Hg E. split.
  - apply (nothing_after_own_killed s a (map (fun t => snd t) pre) m (map (fun t => snd t) post) Hr Ha).
    rewrite seen_of_full, E, map_app. reflexivity.
  - apply (restart_log_reachable s a x Hr Ha Hg pre i1 md1 i2 md2 m post E).
Qed.

(** the instance only ever changes at the completion of a restart: every other instruction keeps it *)
Theorem instance_changes_only_at_restart s t h i s1 front x x1 :
  exec1 s t h i = (s1, front) -> get s (self_of t) = Some x -> get s1 (self_of t) = Some x1 -> i <> IRestartFinish ->
  a_inst x1 = a_inst x.
Proof. exact (exec1_self_inst s t h i s1 front x x1). Qed.
