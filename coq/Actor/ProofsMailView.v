(** Views of the micro-steps used by the cover invariant: what one micro-step does to the pending lists of all
    threads, to the system queues, to the envelope in hand and to the lifecycle fields of every context. *)
From Coq Require Import List NArith ZArith Bool Lia Arith.
From Vivid Require Import Actor.Core Actor.CoreRun Actor.SpecMail Actor.ProofsMailBase Actor.ProofsMail Actor.ProofsMailInv
  Actor.ProofsMailWf Actor.ProofsMailAcct Actor.ProofsMailReg Actor.ProofsMailMicro Actor.ProofsMailLife Actor.ProofsMailStep
  Actor.ProofsMailTree Actor.ProofsMailMK Actor.ProofsMailKids Actor.ProofsMailCtx Actor.ProofsMailMicro2 Actor.ProofsMailCache.
Import ListNotations.

Definition sysq (e : envelope) : list envelope := if e_sys e then [e] else [].

(** fields a plain thread step leaves alone; the system queue may grow by [esq], the paused flag becomes [pa] *)
Definition mail_rel (x y : actor) (esq : list envelope) (pa : bool) : Prop :=
  a_state y = a_state x /\ a_zombie y = a_zombie x /\ a_restarting y = a_restarting x /\ a_parent y = a_parent x /\
  a_cons y = a_cons x /\ a_children y = a_children x /\ a_sq y = a_sq x ++ esq /\ a_paused y = pa.

Definition calm (s s1 : state) (tgt : aid) (env : list envelope) (self : aid) (pa : bool -> bool) : Prop :=
  length (actors s1) = length (actors s) /\ exts s1 = exts s /\
  forall b xb, get s b = Some xb ->
    exists yb, get s1 b = Some yb /\ a_pend yb = a_pend xb /\
      mail_rel xb yb (if Nat.eqb b tgt then env else []) (if Nat.eqb b self then pa (a_paused xb) else a_paused xb).

Lemma mail_rel_refl x : mail_rel x x [] (a_paused x).
Proof. unfold mail_rel. rewrite app_nil_r. repeat split. Qed.

Lemma calm_refl s tgt self : calm s s tgt [] self (fun p => p).
Proof.
  split; [reflexivity|split; [reflexivity|]]. intros b xb Hg. exists xb. split; [exact Hg|split; [reflexivity|]].
  destruct (Nat.eqb b tgt), (Nat.eqb b self); apply mail_rel_refl.
Qed.

Lemma calm_same s s1 tgt self : actors s1 = actors s -> exts s1 = exts s -> calm s s1 tgt [] self (fun p => p).
Proof.
  intros Ha He. split; [rewrite Ha; reflexivity|split; [exact He|]]. intros b xb Hg. exists xb. split; [unfold get in *; rewrite Ha; exact Hg|split; [reflexivity|]].
  destruct (Nat.eqb b tgt), (Nat.eqb b self); apply mail_rel_refl.
Qed.

Lemma calm_resolve s r tgt self : calm s (snd (resolve s r)) tgt [] self (fun p => p).
Proof.
  destruct (resolve_shape s r) as [E|[E|(a & x & y & _ & Hg & _ & _ & E & _)]]; rewrite E; [apply calm_refl|apply calm_same; reflexivity|].
  split; [cbn; apply upd_length|split; [reflexivity|]]. intros b xb Hgb. destruct (Nat.eq_dec a b) as [<-|Hne].
  - rewrite (get_set_same' _ _ _ _ Hg). assert (xb = x) by congruence; subst. eexists. split; [reflexivity|split; [reflexivity|]].
    destruct (Nat.eqb a tgt), (Nat.eqb a self); unfold mail_rel; cbn [set_cache a_state a_zombie a_restarting a_parent a_cons a_children a_sq a_paused]; rewrite app_nil_r; repeat split.
  - rewrite get_set_other by exact Hne. exists xb. split; [exact Hgb|split; [reflexivity|]].
    destruct (Nat.eqb b tgt), (Nat.eqb b self); apply mail_rel_refl.
Qed.

(** pushing one envelope after a step that pushed nothing *)
Lemma calm_push s s1 tgt0 self tgt e :
  calm s s1 tgt0 [] self (fun p => p) -> calm s (push_mb s1 tgt e) tgt (sysq e) self (fun p => p).
Proof.
  intros (Hl & He & H). destruct (get s1 tgt) as [x1|] eqn:Hg1.
  - rewrite (push_mb_get _ _ _ _ Hg1). split; [cbn; rewrite upd_length; exact Hl|split; [exact He|]].
    intros b xb Hgb. destruct (H b xb Hgb) as (yb & Hyb & Hp & (R1 & R2 & R3 & R4 & R5 & R6 & R7 & R8)).
    assert (E0 : a_sq yb = a_sq xb) by (rewrite R7; destruct (Nat.eqb b tgt0); apply app_nil_r).
    assert (E1 : a_paused yb = a_paused xb) by (rewrite R8; destruct (Nat.eqb b self); reflexivity).
    destruct (Nat.eq_dec tgt b) as [<-|Hne].
    + rewrite (get_set_same' _ _ _ _ Hg1). assert (yb = x1) by congruence; subst yb. eexists. split; [reflexivity|split; [exact Hp|]].
      rewrite Nat.eqb_refl. unfold mail_rel, sysq. cbn [set_mb a_state a_zombie a_restarting a_parent a_cons a_children a_sq a_paused].
      repeat split; try assumption; try (destruct (Nat.eqb tgt self); exact E1).
      destruct (e_sys e); rewrite E0; [reflexivity|rewrite app_nil_r; reflexivity].
    + rewrite get_set_other by exact Hne. exists yb. split; [exact Hyb|split; [exact Hp|]].
      assert (Hb : Nat.eqb b tgt = false) by (apply Nat.eqb_neq; congruence). rewrite Hb.
      unfold mail_rel. rewrite E0, app_nil_r. repeat split; try assumption; try (destruct (Nat.eqb b self); exact E1).
  - rewrite (push_mb_none _ _ _ Hg1). split; [exact Hl|split; [exact He|]].
    intros b xb Hgb. destruct (H b xb Hgb) as (yb & Hyb & Hp & (R1 & R2 & R3 & R4 & R5 & R6 & R7 & R8)).
    exists yb. split; [exact Hyb|split; [exact Hp|]].
    assert (Hb : Nat.eqb b tgt = false) by (apply Nat.eqb_neq; intros ->; congruence). rewrite Hb.
    unfold mail_rel. repeat split; try assumption. rewrite R7. destruct (Nat.eqb b tgt0); reflexivity.
Qed.

(** storing the paused flag of [self] *)
Lemma calm_paused s self v tgt :
  calm s (with_actor s self (fun x => set_mb x (a_sq x) (a_uq x) v (a_cons x) (a_cur x))) tgt [] self (fun _ => v).
Proof.
  destruct (get s self) as [x|] eqn:Hg.
  - rewrite (with_actor_some _ _ _ _ Hg). split; [cbn; apply upd_length|split; [reflexivity|]].
    intros b xb Hgb. destruct (Nat.eq_dec self b) as [<-|Hne].
    + rewrite (get_set_same' _ _ _ _ Hg). assert (xb = x) by congruence; subst. eexists. split; [reflexivity|split; [reflexivity|]].
      rewrite Nat.eqb_refl. unfold mail_rel. cbn [set_mb a_state a_zombie a_restarting a_parent a_cons a_children a_sq a_paused].
      destruct (Nat.eqb self tgt); rewrite app_nil_r; repeat split.
    + rewrite get_set_other by exact Hne. exists xb. split; [exact Hgb|split; [reflexivity|]].
      assert (Hb : Nat.eqb b self = false) by (apply Nat.eqb_neq; congruence). rewrite Hb.
      destruct (Nat.eqb b tgt); apply mail_rel_refl.
  - rewrite (with_actor_none _ _ _ Hg). split; [reflexivity|split; [reflexivity|]]. intros b xb Hgb. exists xb. split; [exact Hgb|split; [reflexivity|]].
    assert (Hb : Nat.eqb b self = false) by (apply Nat.eqb_neq; intros ->; congruence). rewrite Hb.
    destruct (Nat.eqb b tgt); apply mail_rel_refl.
Qed.

Definition is_ta (t : tid) (b : aid) : bool := match t with TA a => Nat.eqb a b | TX _ => false end.

Record tstep (s s' : state) (t : tid) (i0 : instr) (rest pre : list instr) (tgt : aid) (env : list envelope) (pa : bool -> bool) : Prop := {
  ts_p : pend_of s t = i0 :: rest;
  ts_len : length (actors s') = length (actors s);
  ts_pt : pend_of s' t = pre ++ rest;
  ts_po : forall t', t' <> t -> pend_of s' t' = pend_of s t';
  ts_rec : forall b xb, get s b = Some xb ->
    exists yb, get s' b = Some yb /\ a_pend yb = (if is_ta t b then pre ++ rest else a_pend xb) /\
      mail_rel xb yb (if Nat.eqb b tgt then env else []) (if Nat.eqb b (self_of t) then pa (a_paused xb) else a_paused xb)
}.

Lemma mail_rel_upd_pend x y l esq pa : mail_rel x y esq pa -> mail_rel x (upd_pend y l) esq pa.
Proof. intros H. exact H. Qed.

Lemma tstep_intro s s1 t i0 rest pre tgt env pa :
  pend_of s t = i0 :: rest -> calm s s1 tgt env (self_of t) pa ->
  tstep s (set_pend s1 t (pre ++ rest)) t i0 rest pre tgt env pa.
Proof.
  intros Hp (Hl & He & H). destruct t as [a|j]; cbn [self_of] in *.
  - destruct (pend_of_TA_cons _ _ _ _ Hp) as (x & Hg & Hpx).
    destruct (H a x Hg) as (y & Hy & Hpy & Hr).
    rewrite (set_pend_TA _ _ _ _ Hy).
    constructor.
    + exact Hp.
    + cbn. rewrite upd_length. exact Hl.
    + cbn [pend_of]. rewrite (get_set_same' _ _ _ _ Hy). reflexivity.
    + intros t' Hne. destruct t' as [b|k]; cbn [pend_of].
      * assert (Hab : a <> b) by congruence. rewrite get_set_other by exact Hab.
        destruct (get s b) as [xb|] eqn:Hgb.
        -- destruct (H b xb Hgb) as (yb & Hyb & Hpb & _). rewrite Hyb. exact Hpb.
        -- assert (Hn : get s1 b = None) by (apply nth_error_None; rewrite Hl; apply nth_error_None; exact Hgb). rewrite Hn. reflexivity.
      * cbn [set_actor exts]. rewrite He. reflexivity.
    + intros b xb Hgb. cbn [is_ta self_of]. destruct (H b xb Hgb) as (yb & Hyb & Hpb & Hrb).
      destruct (Nat.eq_dec a b) as [<-|Hne].
      * rewrite Nat.eqb_refl. rewrite (get_set_same' _ _ _ _ Hy). assert (yb = y) by congruence; subst yb.
        eexists. split; [reflexivity|split; [reflexivity|]]. apply mail_rel_upd_pend. rewrite Nat.eqb_refl in Hrb. exact Hrb.
      * assert (Hb : Nat.eqb a b = false) by (apply Nat.eqb_neq; exact Hne). rewrite Hb. rewrite get_set_other by exact Hne.
        exists yb. split; [exact Hyb|split; [exact Hpb|exact Hrb]].
  - destruct (pend_of_TX_cons _ _ _ _ Hp) as (ex & Hn & Hpx).
    assert (Hn1 : nth_error (exts s1) j = Some ex) by (rewrite He; exact Hn).
    cbn [set_pend]. rewrite Hn1.
    constructor.
    + exact Hp.
    + exact Hl.
    + cbn [pend_of set_ext exts]. rewrite nth_upd_eq by (eapply nth_error_lt; exact Hn1). reflexivity.
    + intros t' Hne. destruct t' as [b|k]; cbn [pend_of set_ext exts actors].
      * change (get (set_ext s1 j {| x_pend := pre ++ rest; x_held := x_held ex |}) b) with (get s1 b).
        destruct (get s b) as [xb|] eqn:Hgb.
        -- destruct (H b xb Hgb) as (yb & Hyb & Hpb & _). rewrite Hyb. exact Hpb.
        -- assert (Hnn : get s1 b = None) by (apply nth_error_None; rewrite Hl; apply nth_error_None; exact Hgb). rewrite Hnn. reflexivity.
      * assert (Hjk : j <> k) by congruence. rewrite nth_upd_neq by exact Hjk. rewrite He. reflexivity.
    + intros b xb Hgb. cbn [is_ta]. destruct (H b xb Hgb) as (yb & Hyb & Hpb & Hrb).
      exists yb. split; [exact Hyb|split; [exact Hpb|exact Hrb]].
Qed.

(** ** the plain thread steps *)
Lemma view_enqdone s t rest : pend_of s t = IEnqDone :: rest -> tstep s (mstep s (MEnqDone t)) t IEnqDone rest [] 0 [] (fun p => p).
Proof. intros Hp. cbn [mstep]. rewrite Hp. apply (tstep_intro s s t IEnqDone rest [] 0 [] _ Hp). apply calm_refl. Qed.

Lemma view_resume2 s t rest : pend_of s t = IResume2 :: rest -> tstep s (mstep s (MResume2 t)) t IResume2 rest [] 0 [] (fun p => p).
Proof. intros Hp. cbn [mstep]. rewrite Hp. apply (tstep_intro s s t IResume2 rest [] 0 [] _ Hp). apply calm_refl. Qed.

Lemma view_pausest s t rest : pend_of s t = IPauseSt :: rest -> tstep s (mstep s (MPauseSt t)) t IPauseSt rest [] 0 [] (fun _ => true).
Proof. intros Hp. cbn [mstep]. rewrite Hp. apply (tstep_intro s _ t IPauseSt rest [] 0 [] _ Hp). apply calm_paused. Qed.

Lemma view_resume1 s t rest x :
  pend_of s t = IResume1 :: rest -> get s (self_of t) = Some x ->
  if a_paused x then tstep s (mstep s (MResume1 t)) t IResume1 rest [IResume2] 0 [] (fun _ => false)
  else tstep s (mstep s (MResume1 t)) t IResume1 rest [] 0 [] (fun p => p).
Proof.
  intros Hp Hg. cbn [mstep]. rewrite Hp, Hg. destruct (a_paused x).
  - apply (tstep_intro s _ t IResume1 rest [IResume2] 0 [] _ Hp).
    pose proof (calm_paused s (self_of t) false 0) as H. rewrite (with_actor_some _ _ _ _ Hg) in H. exact H.
  - apply (tstep_intro s s t IResume1 rest [] 0 [] _ Hp). apply calm_refl.
Qed.

Lemma view_resolve s t sys to sender m rest :
  pend_of s t = IEnq sys to sender m :: rest ->
  tstep s (mstep s (MAtomic t)) t (IEnq sys to sender m) rest [IEnqR sys (fst (resolve s to)) sender m] 0 [] (fun p => p).
Proof. intros Hp. cbn [mstep]. rewrite Hp. apply (tstep_intro s _ t _ rest [IEnqR sys (fst (resolve s to)) sender m] 0 [] _ Hp). apply calm_resolve. Qed.

Lemma view_push_enqr s t c sys mb sender m rest :
  pend_of s t = IEnqR sys mb sender m :: rest ->
  let le := landing mb {| e_sys := sys; e_sender := sender; e_msg := m |} in
  tstep s (mstep s (MPush t c)) t (IEnqR sys mb sender m) rest [] (fst le) (sysq (snd le)) (fun p => p).
Proof.
  intros Hp. cbv zeta. cbn [mstep step]. rewrite Hp, deliver_eq.
  apply (tstep_intro s _ t _ rest [] _ _ _ Hp). eapply calm_push. apply (calm_refl s 0).
Qed.

Lemma view_push_mb s t c b e rest :
  pend_of s t = IEnqMb b e :: rest -> tstep s (mstep s (MPush t c)) t (IEnqMb b e) rest [] b (sysq e) (fun p => p).
Proof.
  intros Hp. cbn [mstep step]. rewrite Hp.
  apply (tstep_intro s _ t _ rest [] _ _ _ Hp). eapply calm_push. apply (calm_refl s 0).
Qed.

Lemma view_push_any s t c sys tos sender m rest to :
  pend_of s t = IEnqAny sys tos sender m :: rest -> nth_error tos c = Some to ->
  let le := landing (fst (resolve s to)) {| e_sys := sys; e_sender := sender; e_msg := m |} in
  let tos' := firstn c tos ++ skipn (S c) tos in
  tstep s (mstep s (MPush t c)) t (IEnqAny sys tos sender m) rest
        (IEnqDone :: match tos' with [] => [] | _ => [IEnqAny sys tos' sender m] end) (fst le) (sysq (snd le)) (fun p => p).
Proof.
  intros Hp Hn. cbv zeta. cbn [mstep step]. rewrite Hp, Hn.
  pose proof (calm_resolve s to 0 (self_of t)) as Hc. destruct (resolve s to) as [mb s1]. cbn [fst snd] in *. rewrite deliver_eq.
  match goal with |- tstep _ (set_pend ?s2 t ?l) _ _ _ ?pre _ _ _ =>
    replace l with (pre ++ rest) by (destruct (firstn c tos ++ skipn (S c) tos); reflexivity) end.
  apply (tstep_intro s _ t _ rest _ _ _ _ Hp). eapply calm_push. exact Hc.
Qed.

Lemma view_push_sup s t ch c d rem done rest to :
  pend_of s t = ISupPause c d rem done :: rest -> nth_error rem ch = Some to ->
  let le := landing (fst (resolve s to)) {| e_sys := true; e_sender := RObj (self_of t); e_msg := MCmdPause |} in
  tstep s (mstep s (MPush t ch)) t (ISupPause c d rem done) rest
        [IEnqDone; ISupPause c d (firstn ch rem ++ skipn (S ch) rem) (done ++ [to])] (fst le) (sysq (snd le)) (fun p => p).
Proof.
  intros Hp Hn. cbv zeta. cbn [mstep step]. rewrite Hp, Hn.
  pose proof (calm_resolve s to 0 (self_of t)) as Hc. destruct (resolve s to) as [mb s1]. cbn [fst snd] in *. rewrite deliver_eq.
  apply (tstep_intro s _ t _ rest [IEnqDone; ISupPause c d (firstn ch rem ++ skipn (S ch) rem) (done ++ [to])] _ _ _ Hp). eapply calm_push. exact Hc.
Qed.

(** ** the consumer's pops *)
Definition is_pop (m : micro) (a : aid) : Prop := m = MSysPop a \/ m = MLoadPaused a \/ m = MUserPop a.

Lemma view_pop s m a :
  is_pop m a -> err s = false -> err (mstep s m) = false ->
  exists x sq' uq' co', get s a = Some x /\ mstep s m = set_actor s a (set_mb x sq' uq' (a_paused x) co' (a_cur x)) /\
    (match a_cons x with CBusy _ => False | _ => True end) /\
    let h' := match co' with CH e => [e] | _ => [] end in
    (h' ++ sq' = held x ++ a_sq x \/ (exists e, In e (a_uq x) /\ held x = [] /\ h' = [e] /\ sq' = a_sq x)).
Proof.
  intros [->|[->| ->]] He0 He; cbn [mstep step] in *.
  - destruct (get s a) as [x|] eqn:Hg; [|cbn in He; discriminate He].
    destruct (a_cons x) eqn:Hc, (a_sq x) eqn:Hs; try (cbn in He; discriminate He);
      (do 4 eexists; split; [reflexivity|split; [reflexivity|split; [rewrite Hc; exact I|left; unfold held; rewrite Hc, ?Hs; reflexivity]]]).
  - destruct (get s a) as [x|] eqn:Hg; [|cbn in He; discriminate He].
    destruct (a_cons x) eqn:Hc; try (cbn in He; discriminate He).
    do 4 eexists; split; [reflexivity|split; [reflexivity|split; [rewrite Hc; exact I|left; unfold held; rewrite Hc; destruct (a_paused x); reflexivity]]].
  - destruct (get s a) as [x|] eqn:Hg; [|cbn in He; discriminate He].
    destruct (a_cons x) eqn:Hc, (a_uq x) eqn:Hs; try (cbn in He; discriminate He).
    + do 4 eexists; split; [reflexivity|split; [reflexivity|split; [rewrite Hc; exact I|left; unfold held; rewrite Hc, ?Hs; reflexivity]]].
    + do 4 eexists; split; [reflexivity|split; [reflexivity|split; [rewrite Hc; exact I|right]]].
      eexists. rewrite Hs. split; [left; reflexivity|]. unfold held. rewrite Hc. auto.
Qed.

(** ** HandleEnvelop *)
Lemma view_handle s a :
  wf s -> err (mstep s (MHandle a)) = false ->
  exists x e y, get s a = Some x /\ a_cons x = CH e /\ a_pend x = [] /\
    let r := dispatch (set_actor s a (busy x)) a (busy x) e in
    disp_frame (busy x) y /\ get (fst r) a = Some y /\
    actors (mstep s (MHandle a)) = upd (actors s) a (upd_pend y (snd r)) /\ exts (mstep s (MHandle a)) = exts s /\
    reg (mstep s (MHandle a)) = reg s.
Proof.
  intros W He. cbn [mstep] in *. destruct (get s a) as [x|] eqn:Hg; [|discriminate He].
  destruct (a_cons x) eqn:Hc; try discriminate He.
  assert (Hl : a < length (actors s)) by (eapply nth_error_lt; exact Hg).
  assert (Hpx : a_pend x = []).
  { destruct W as [HA _]. apply pend_shape_idle; [eapply Forall_nth; eauto|]. intros md E; congruence. }
  set (s0 := set_actor s a (busy x)) in *.
  assert (Hg0 : get s0 a = Some (busy x)) by (apply get_set_same; exact Hl).
  destruct (dispatch_effect s0 a (busy x) e Hg0) as (y & Hdf & Ha & _ & _ & Hex & Hr & _).
  exists x, e, y. split; [reflexivity|split; [exact Hc|split; [exact Hpx|]]]. cbv zeta. fold s0.
  destruct (dispatch s0 a (busy x) e) as [s1 ins]. cbn [fst snd] in *.
  assert (Hy : get s1 a = Some y).
  { unfold get. rewrite Ha. apply nth_upd_eq. unfold s0. cbn [set_actor actors]. rewrite upd_length. exact Hl. }
  split; [exact Hdf|split; [exact Hy|]]. rewrite (set_pend_TA _ _ _ _ Hy). cbn [set_actor actors exts reg].
  split; [rewrite Ha; unfold s0; cbn [set_actor actors]; rewrite !upd_upd; reflexivity|split; [exact Hex|exact Hr]].
Qed.
