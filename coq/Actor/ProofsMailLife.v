(** Lifecycle invariants of ActorCore proved over micro-steps (Actor/ProofsMailMicro.v): the foreign-frame lemma
    (a micro-step of one thread changes another actor's record only in its queues and cache), and the local
    lifecycle invariant [linv] (at most one lifecycle instruction pending, consistent with state / zombie flag). *)
From Coq Require Import List NArith ZArith Bool Lia Arith.
From Vivid Require Import Actor.Core Actor.CoreRun Actor.SpecMail Actor.ProofsMailBase Actor.ProofsMail Actor.ProofsMailInv
  Actor.ProofsMailWf Actor.ProofsMailAcct Actor.ProofsMailMicro.
Import ListNotations.

(** * the actor whose thread performs a micro-step *)
Definition mself (m : micro) : aid :=
  match m with
  | MSysPop a | MLoadPaused a | MUserPop a | MHandle a => a
  | MPush t _ | MEnqDone t | MPauseSt t | MResume1 t | MResume2 t | MAtomic t => self_of t
  end.

(** records equal up to the fields another thread may write: the two queues and the reference cache *)
Definition fw (x : actor) (sq uq : list envelope) (c : option aid) : actor :=
  {| a_path := a_path x; a_gen := a_gen x; a_parent := a_parent x; a_spec := a_spec x; a_state := a_state x;
     a_zombie := a_zombie x; a_restarting := a_restarting x; a_children := a_children x; a_watchers := a_watchers x;
     a_stash := a_stash x; a_modes := a_modes x; a_inst := a_inst x; a_decisions := a_decisions x; a_hooks := a_hooks x;
     a_cache := c; a_sq := sq; a_uq := uq; a_paused := a_paused x; a_cons := a_cons x; a_cur := a_cur x;
     a_pend := a_pend x |}.
Definition lsame (x y : actor) : Prop := y = fw x (a_sq y) (a_uq y) (a_cache y).

Lemma lsame_refl x : lsame x x. Proof. destruct x; reflexivity. Qed.
Lemma lsame_trans x y z : lsame x y -> lsame y z -> lsame x z.
Proof. unfold lsame. intros H1 H2. rewrite H2. rewrite H1 at 1. reflexivity. Qed.
Lemma lsame_fw x sq uq c : lsame x (fw x sq uq c). Proof. reflexivity. Qed.

(** pointwise relation on the existing part of the actor table *)
Definition table_rel (R : actor -> actor -> Prop) (skip : aid -> Prop) (s s' : state) : Prop :=
  forall b x, get s b = Some x -> ~ skip b -> exists x', get s' b = Some x' /\ R x x'.

Lemma table_rel_refl (R : actor -> actor -> Prop) (skip : aid -> Prop) s : (forall x, R x x) -> table_rel R skip s s.
Proof. intros HR b x Hg _. eauto. Qed.
Lemma table_rel_trans (R : actor -> actor -> Prop) (skip : aid -> Prop) a b c : (forall x y z, R x y -> R y z -> R x z) ->
  table_rel R skip a b -> table_rel R skip b c -> table_rel R skip a c.
Proof.
  intros HR H1 H2 i x Hg Hs. destruct (H1 i x Hg Hs) as (y & Hy & Rxy). destruct (H2 i y Hy Hs) as (z & Hz & Ryz). eauto.
Qed.
Lemma table_rel_same_actors (R : actor -> actor -> Prop) (skip : aid -> Prop) s s' : (forall x, R x x) -> actors s' = actors s -> table_rel R skip s s'.
Proof. intros HR Ha b x Hg _. exists x. unfold get in *. rewrite Ha. auto. Qed.

Lemma table_rel_set_actor_skip (R : actor -> actor -> Prop) (skip : aid -> Prop) s a y : (forall x, R x x) -> skip a -> table_rel R skip s (set_actor s a y).
Proof.
  intros HR Hs b x Hg Hb. destruct (Nat.eq_dec a b) as [<-|Hne]; [contradiction|]. rewrite get_set_other by exact Hne. eauto.
Qed.
Lemma table_rel_set_actor (R : actor -> actor -> Prop) (skip : aid -> Prop) s a x y : (forall x, R x x) -> get s a = Some x -> R x y -> table_rel R skip s (set_actor s a y).
Proof.
  intros HR Hg Hxy b xb Hb _. destruct (Nat.eq_dec a b) as [<-|Hne].
  - rewrite (get_set_same' _ _ _ _ Hg). rewrite Hg in Hb. inversion Hb; subst. eauto.
  - rewrite get_set_other by exact Hne. eauto.
Qed.
Lemma table_rel_with_actor (R : actor -> actor -> Prop) (skip : aid -> Prop) s a f : (forall x, R x x) -> (skip a \/ forall x, R x (f x)) -> table_rel R skip s (with_actor s a f).
Proof.
  intros HR H. unfold with_actor. destruct (get s a) as [x|] eqn:E; [|apply table_rel_same_actors; auto].
  destruct H as [H|H]; [apply table_rel_set_actor_skip; auto|eapply table_rel_set_actor; eauto].
Qed.

Definition foreign (self : aid) (s s' : state) : Prop := table_rel lsame (fun b => b = self) s s'.

Lemma foreign_refl self s : foreign self s s. Proof. apply table_rel_refl, lsame_refl. Qed.
Lemma foreign_trans self a b c : foreign self a b -> foreign self b c -> foreign self a c.
Proof. apply table_rel_trans. exact lsame_trans. Qed.
Lemma foreign_same self s s' : actors s' = actors s -> foreign self s s'.
Proof. apply table_rel_same_actors, lsame_refl. Qed.
Lemma foreign_set_self self s y : foreign self s (set_actor s self y).
Proof. apply table_rel_set_actor_skip; [exact lsame_refl|reflexivity]. Qed.

Lemma foreign_set_pend t s l : foreign (self_of t) s (set_pend s t l).
Proof.
  destruct t as [a|i]; [|apply foreign_same, set_pend_TX_actors].
  unfold set_pend. apply table_rel_with_actor; [exact lsame_refl|left; reflexivity].
Qed.
Lemma foreign_push_mb self s a e : foreign self s (push_mb s a e).
Proof. unfold push_mb. apply table_rel_with_actor; [exact lsame_refl|right; intros x; reflexivity]. Qed.
Lemma foreign_resolve self s r : foreign self s (snd (resolve s r)).
Proof.
  destruct (resolve_shape s r) as [H|[H|(a & x & y & _ & Hg & _ & _ & H & _)]]; rewrite H;
    [apply foreign_refl|apply foreign_same; reflexivity|].
  eapply table_rel_set_actor; [exact lsame_refl|exact Hg|reflexivity].
Qed.

Lemma foreign_exec1 s t h i : foreign (self_of t) s (fst (exec1 s t h i)).
Proof.
  destruct (get s (self_of t)) as [x|] eqn:E; [|rewrite (exec1_none _ _ _ _ E); apply foreign_same; reflexivity].
  destruct (exec1_actors s t h i x E) as (y & news & _ & _ & Ha).
  intros b xb Hb Hne. exists xb. split; [|apply lsame_refl]. unfold get in *. rewrite Ha.
  rewrite nth_error_app1 by (rewrite upd_length; eapply nth_error_lt; exact Hb). rewrite nth_upd_neq by congruence. exact Hb.
Qed.

Lemma foreign_astep s t i rest : foreign (self_of t) s (astep s t i rest).
Proof.
  unfold astep. eapply foreign_trans; [apply foreign_set_pend|].
  destruct (exec1 (set_pend s t rest) t (held_of (set_pend s t rest) t) i) as [s1 front] eqn:E.
  eapply foreign_trans; [|apply foreign_set_pend].
  replace s1 with (fst (exec1 (set_pend s t rest) t (held_of (set_pend s t rest) t) i)) by (rewrite E; reflexivity).
  apply foreign_exec1.
Qed.

Lemma foreign_mstep s m : foreign (mself m) s (mstep s m).
Proof.
  destruct m; cbn [mstep mself step].
  - destruct (get s a) as [x|]; [|apply foreign_same; reflexivity].
    destruct (a_cons x), (a_sq x); try (apply foreign_same; reflexivity); apply foreign_set_self.
  - destruct (get s a) as [x|]; [|apply foreign_same; reflexivity].
    destruct (a_cons x); try (apply foreign_same; reflexivity); apply foreign_set_self.
  - destruct (get s a) as [x|]; [|apply foreign_same; reflexivity].
    destruct (a_cons x), (a_uq x); try (apply foreign_same; reflexivity); apply foreign_set_self.
  - destruct (get s a) as [x|] eqn:Hg; [|apply foreign_same; reflexivity].
    destruct (a_cons x); try (apply foreign_same; reflexivity).
    destruct (dispatch_effect (set_actor s a (busy x)) a (busy x) e (get_set_same' s a _ x Hg)) as (y & _ & Ha & _).
    destruct (dispatch (set_actor s a (busy x)) a (busy x) e) as [s1 ins]. cbn [fst] in Ha.
    eapply foreign_trans; [|apply (foreign_set_pend (TA a))].
    intros b xb Hb Hne. exists xb. split; [|apply lsame_refl]. unfold get in *. rewrite Ha. cbn [set_actor actors].
    rewrite upd_upd. rewrite nth_upd_neq by congruence. exact Hb.
  - destruct (pend_of s t) as [|i rest]; [apply foreign_same; reflexivity|].
    destruct i; try (apply foreign_same; reflexivity).
    + rewrite deliver_eq. eapply foreign_trans; [apply foreign_push_mb|apply foreign_set_pend].
    + eapply foreign_trans; [apply foreign_push_mb|apply foreign_set_pend].
    + destruct (nth_error tos c) as [r|]; [|apply foreign_same; reflexivity].
      pose proof (foreign_resolve (self_of t) s r) as Hr. destruct (resolve s r) as [mb s1]. cbn [snd] in Hr. rewrite deliver_eq.
      eapply foreign_trans; [exact Hr|]. eapply foreign_trans; [apply foreign_push_mb|apply foreign_set_pend].
    + destruct (nth_error remaining c) as [r|]; [|apply foreign_same; reflexivity].
      pose proof (foreign_resolve (self_of t) s r) as Hr. destruct (resolve s r) as [mb s1]. cbn [snd] in Hr. rewrite deliver_eq.
      eapply foreign_trans; [exact Hr|]. eapply foreign_trans; [apply foreign_push_mb|apply foreign_set_pend].
  - destruct (pend_of s t) as [|i rest]; [apply foreign_same; reflexivity|].
    destruct i; try (apply foreign_same; reflexivity). apply foreign_set_pend.
  - destruct (pend_of s t) as [|i rest]; [apply foreign_same; reflexivity|].
    destruct i; try (apply foreign_same; reflexivity).
    eapply foreign_trans; [|apply foreign_set_pend]. apply table_rel_with_actor; [exact lsame_refl|left; reflexivity].
  - destruct (pend_of s t) as [|i rest]; [apply foreign_same; reflexivity|].
    destruct i; try (apply foreign_same; reflexivity).
    destruct (get s (self_of t)) as [x|]; [|apply foreign_same; reflexivity]. destruct (a_paused x).
    + eapply foreign_trans; [apply foreign_set_self|apply foreign_set_pend].
    + apply foreign_set_pend.
  - destruct (pend_of s t) as [|i rest]; [apply foreign_same; reflexivity|].
    destruct i; try (apply foreign_same; reflexivity). apply foreign_set_pend.
  - destruct (pend_of s t) as [|i rest]; [apply foreign_refl|].
    destruct i; try (apply foreign_refl); try apply foreign_astep.
    + eapply foreign_trans; [apply foreign_resolve|apply foreign_set_pend].
    + destruct remaining; [apply foreign_astep|apply foreign_refl].
Qed.

(** * new records *)
Lemma same_len_no_new s s' b : length (actors s') = length (actors s) -> get s b = None -> get s' b = None.
Proof. intros Hl Hn. unfold get in *. apply nth_error_None. rewrite Hl. apply nth_error_None. exact Hn. Qed.

Lemma len_set_pend s t l : length (actors (set_pend s t l)) = length (actors s).
Proof.
  destruct t as [a|i]; [|rewrite set_pend_TX_actors; reflexivity].
  unfold set_pend, with_actor. destruct (get s a); cbn; [apply upd_length|reflexivity].
Qed.
Lemma len_push_mb s a e : length (actors (push_mb s a e)) = length (actors s).
Proof. unfold push_mb, with_actor. destruct (get s a); cbn; [apply upd_length|reflexivity]. Qed.
Lemma len_resolve s r : length (actors (snd (resolve s r))) = length (actors s).
Proof.
  destruct (resolve_shape s r) as [H|[H|(a & x & y & _ & Hg & _ & _ & H & _)]]; rewrite H; cbn; [reflexivity|reflexivity|apply upd_length].
Qed.

(** only ActorOf (one atomic instruction) creates a record: [new_actor path gen (Some self) spec] *)
Lemma mstep_new s m b x' : get s b = None -> get (mstep s m) b = Some x' -> is_new x'.
Proof.
  intros Hn Hg'.
  assert (Hsame : forall s', length (actors s') = length (actors s) -> get s' b = Some x' -> is_new x').
  { intros s' Hl H. rewrite (same_len_no_new s s' b Hl Hn) in H. discriminate. }
  destruct m; cbn [mstep step] in Hg'.
  - revert Hg'. apply Hsame. destruct (get s a) as [x|]; [|reflexivity]. destruct (a_cons x), (a_sq x); cbn; rewrite ?upd_length; reflexivity.
  - revert Hg'. apply Hsame. destruct (get s a) as [x|]; [|reflexivity]. destruct (a_cons x); cbn; rewrite ?upd_length; reflexivity.
  - revert Hg'. apply Hsame. destruct (get s a) as [x|]; [|reflexivity]. destruct (a_cons x), (a_uq x); cbn; rewrite ?upd_length; reflexivity.
  - revert Hg'. apply Hsame. destruct (get s a) as [x|] eqn:Hg; [|reflexivity]. destruct (a_cons x); try reflexivity.
    destruct (dispatch_effect (set_actor s a (busy x)) a (busy x) e (get_set_same' s a _ x Hg)) as (y & _ & Ha & _).
    destruct (dispatch (set_actor s a (busy x)) a (busy x) e) as [s1 ins]. cbn [fst] in Ha.
    rewrite len_set_pend, Ha. cbn. rewrite !upd_length. reflexivity.
  - revert Hg'. apply Hsame. destruct (pend_of s t) as [|i rest]; [reflexivity|]. destruct i; try reflexivity.
    + rewrite deliver_eq, len_set_pend, len_push_mb. reflexivity.
    + rewrite len_set_pend, len_push_mb. reflexivity.
    + destruct (nth_error tos c) as [r|]; [|reflexivity].
      pose proof (len_resolve s r) as Hr. destruct (resolve s r) as [mb s1]. cbn [snd] in Hr.
      rewrite deliver_eq, len_set_pend, len_push_mb. exact Hr.
    + destruct (nth_error remaining c) as [r|]; [|reflexivity].
      pose proof (len_resolve s r) as Hr. destruct (resolve s r) as [mb s1]. cbn [snd] in Hr.
      rewrite deliver_eq, len_set_pend, len_push_mb. exact Hr.
  - revert Hg'. apply Hsame. destruct (pend_of s t) as [|i rest]; [reflexivity|]. destruct i; try reflexivity. apply len_set_pend.
  - revert Hg'. apply Hsame. destruct (pend_of s t) as [|i rest]; [reflexivity|]. destruct i; try reflexivity.
    rewrite len_set_pend. unfold with_actor. destruct (get s (self_of t)); cbn; [apply upd_length|reflexivity].
  - revert Hg'. apply Hsame. destruct (pend_of s t) as [|i rest]; [reflexivity|]. destruct i; try reflexivity.
    destruct (get s (self_of t)) as [x|]; [|reflexivity]. destruct (a_paused x); rewrite len_set_pend; cbn; rewrite ?upd_length; reflexivity.
  - revert Hg'. apply Hsame. destruct (pend_of s t) as [|i rest]; [reflexivity|]. destruct i; try reflexivity. apply len_set_pend.
  - destruct (pend_of s t) as [|i rest] eqn:Hp; [rewrite Hn in Hg'; discriminate|].
    assert (Hast : get (astep s t i rest) b = Some x' -> is_new x').
    { unfold astep. intros H.
      destruct (exec1 (set_pend s t rest) t (held_of (set_pend s t rest) t) i) as [s1 front] eqn:E.
      assert (Hl0 : length (actors (set_pend s t rest)) = length (actors s)) by apply len_set_pend.
      destruct (get (set_pend s t rest) (self_of t)) as [x0|] eqn:Hg0.
      - destruct (exec1_actors _ t (held_of (set_pend s t rest) t) i x0 Hg0) as (y & news & _ & Hnews & Ha). rewrite E in Ha. cbn [fst] in Ha.
        assert (Hb : get s1 b = Some x').
        { destruct t as [a|j]; cbn [set_pend] in H.
          - unfold with_actor in H. destruct (get s1 a) as [y1|] eqn:Hg1; [|exact H].
            destruct (Nat.eq_dec a b) as [->|Hne]; [|rewrite get_set_other in H by exact Hne; exact H].
            exfalso. unfold get in Hg0. cbn [self_of] in Hg0. apply nth_error_lt in Hg0. rewrite Hl0 in Hg0.
            unfold get in Hn. apply nth_error_None in Hn. lia.
          - destruct (nth_error (exts s1) j); exact H. }
        unfold get in Hb. rewrite Ha in Hb.
        assert (Hge : length (actors s) <= b) by (unfold get in Hn; apply nth_error_None; exact Hn).
        rewrite nth_error_app2 in Hb by (rewrite upd_length, Hl0; exact Hge).
        apply nth_error_In in Hb. rewrite Forall_forall in Hnews. auto.
      - rewrite (exec1_none _ _ _ _ Hg0) in E. inversion E; subst. revert H. apply Hsame. rewrite len_set_pend. cbn. exact Hl0. }
    destruct i; cbn [yielding] in Hg'; try (rewrite Hn in Hg'; discriminate); try (apply Hast; exact Hg').
    + revert Hg'. apply Hsame. rewrite len_set_pend. apply len_resolve.
    + destruct remaining; [apply Hast; exact Hg'|rewrite Hn in Hg'; discriminate].
Qed.

(** * the local lifecycle invariant *)
Definition life (i : instr) : bool :=
  match i with IDoKill _ | IOnKilled _ | ICheckMark | ICleanup | IRestartFinish => true | _ => false end.
Definition is_unzombie (i : instr) : bool := match i with IUnzombie => true | _ => false end.
Definition lf (l : list instr) : list instr := filter life l.
Definition uzc (l : list instr) : nat := length (filter is_unzombie l).

Definition life_ok (x : actor) (l : list instr) : Prop :=
  match lf l with
  | [] => True
  | [ICleanup] => a_state x = Killed /\ (a_zombie x = true -> uzc l = 1)
  | [IRestartFinish] => a_state x = Killed /\ a_zombie x = false /\ uzc l = 0
  | [IDoKill _] | [IOnKilled _] | [ICheckMark] => uzc l = 0
  | _ => False
  end.

Definition linv (x : actor) : Prop :=
  (a_zombie x = true -> a_state x = Killed) /\
  (a_state x = Killed -> a_children x = []) /\
  (uzc (a_pend x) <= 1) /\
  (uzc (a_pend x) = 1 -> a_zombie x = true) /\
  life_ok x (a_pend x).

Lemma lf_app l1 l2 : lf (l1 ++ l2) = lf l1 ++ lf l2. Proof. apply filter_app. Qed.
Lemma uzc_app l1 l2 : uzc (l1 ++ l2) = uzc l1 + uzc l2. Proof. unfold uzc. rewrite filter_app, app_length. reflexivity. Qed.
Lemma lf_cons_plain i l : life i = false -> lf (i :: l) = lf l. Proof. intros H. unfold lf. cbn [filter]. rewrite H. reflexivity. Qed.
Lemma lf_cons_life i l : life i = true -> lf (i :: l) = i :: lf l. Proof. intros H. unfold lf. cbn [filter]. rewrite H. reflexivity. Qed.
Lemma uzc_cons_plain i l : is_unzombie i = false -> uzc (i :: l) = uzc l. Proof. intros H. unfold uzc. cbn [filter]. rewrite H. reflexivity. Qed.

Lemma linv_lsame x y : lsame x y -> linv x -> linv y.
Proof. intros ->. unfold linv, life_ok. cbn. auto. Qed.

Lemma linv_new x : is_new x -> linv x.
Proof. intros (p & g & par & sp & ->). unfold linv, life_ok. cbn. repeat split; auto; try discriminate; lia. Qed.

(** a record whose lifecycle fields and pending list are those of a [linv] record *)
Lemma linv_fields x y :
  a_state y = a_state x -> a_zombie y = a_zombie x -> a_children y = a_children x -> a_pend y = a_pend x -> linv x -> linv y.
Proof. unfold linv, life_ok. intros -> -> -> ->. auto. Qed.

(** removing / replacing a plain head *)
Lemma linv_plain_head x y i front rest :
  a_pend x = i :: rest -> life i = false -> is_unzombie i = false -> lf front = [] -> uzc front = 0 ->
  a_state y = a_state x -> a_zombie y = a_zombie x -> a_children y = a_children x -> a_pend y = front ++ rest ->
  linv x -> linv y.
Proof.
  unfold linv, life_ok. intros Hp Hl Hu Hf Hz -> -> -> ->. rewrite Hp.
  rewrite (lf_cons_plain _ _ Hl), (uzc_cons_plain _ _ Hu), lf_app, uzc_app, Hf, Hz. cbn [app plus]. auto.
Qed.

(** * [wf] is preserved by every micro-step *)
Lemma wf_mstep s m : wf s -> wf (mstep s m).
Proof.
  intros W. destruct m; cbn [mstep step].
  - destruct (get s a) as [x|] eqn:Hg; [|exact W].
    destruct (a_cons x) eqn:Hc; try exact W; destruct (a_sq x); (apply wf_set_mb_idle; [exact W|exact Hg|intros md E; congruence]).
  - destruct (get s a) as [x|] eqn:Hg; [|exact W].
    destruct (a_cons x) eqn:Hc; try exact W. apply wf_set_mb_idle; [exact W|exact Hg|intros md E; congruence].
  - destruct (get s a) as [x|] eqn:Hg; [|exact W].
    destruct (a_cons x) eqn:Hc; try exact W; destruct (a_uq x); (apply wf_set_mb_idle; [exact W|exact Hg|intros md E; congruence]).
  - destruct (get s a) as [x|] eqn:Hg; [|exact W].
    destruct (a_cons x) eqn:Hc; try exact W.
    assert (Hl : a < length (actors s)) by (eapply nth_error_lt; exact Hg).
    assert (Hpx : a_pend x = []).
    { destruct W as [HA _]. apply pend_shape_idle; [eapply Forall_nth; eauto|]. intros md E; congruence. }
    set (x0 := busy x). set (s0 := set_actor s a x0).
    assert (Hg0 : get s0 a = Some x0) by (apply get_set_same; exact Hl).
    destruct (dispatch_effect s0 a x0 e Hg0) as (y & Hy & Ha & _ & _ & Hex & _).
    pose proof (dispatch_shape s0 a x0 e) as Hsh.
    destruct (dispatch s0 a x0 e) as [s1 ins]. cbn [fst snd] in *.
    assert (Ha' : actors s1 = upd (actors s) a y) by (rewrite Ha; unfold s0; cbn [set_actor actors]; apply upd_upd).
    assert (Hg1 : get s1 a = Some y) by (unfold get; rewrite Ha'; apply nth_upd_eq; exact Hl).
    assert (W1 : wf s1).
    { destruct W as [HA HX]. split; [|rewrite Hex; exact HX]. rewrite Ha'. apply Forall_upd; [exact HA|].
      left. rewrite (df_pend _ _ Hy). exact Hpx. }
    eapply wf_set_pend_TA; [exact W1|exact Hg1|]. right. split; [|exact Hsh].
    exists (mode_top x). rewrite (df_cons _ _ Hy). reflexivity.
  - destruct (pend_of s t) as [|i rest] eqn:Hp; [exact W|]. destruct i; try exact W.
    + rewrite deliver_eq. apply (push_finish s _ t _ rest [] W (same_pc_push_mb s _ _) Hp); auto; reflexivity.
    + apply (push_finish s _ t _ rest [] W (same_pc_push_mb s _ _) Hp); auto; reflexivity.
    + destruct (nth_error tos c) as [r|]; [|exact W].
      pose proof (same_pc_resolve s r) as Hr. destruct (resolve s r) as [mb s1]. cbn [snd] in Hr. rewrite deliver_eq.
      match goal with |- context[set_pend ?s2 t (IEnqDone :: ?tl)] =>
        assert (Hs2 : same_pc s s2) by (eapply same_pc_trans; [exact Hr|apply same_pc_push_mb]) end.
      destruct (firstn c tos ++ skipn (S c) tos) as [|r0 tl0].
      * apply (push_finish s _ t _ rest [IEnqDone] W Hs2 Hp); auto; reflexivity.
      * apply (push_finish s _ t _ rest [IEnqDone; IEnqAny sys (r0 :: tl0) sender m] W Hs2 Hp); auto; reflexivity.
    + destruct (nth_error remaining c) as [r|]; [|exact W].
      pose proof (same_pc_resolve s r) as Hr. destruct (resolve s r) as [mb s1]. cbn [snd] in Hr. rewrite deliver_eq.
      match goal with |- context[set_pend ?s2 t (IEnqDone :: ?i2 :: rest)] =>
        assert (Hs2 : same_pc s s2) by (eapply same_pc_trans; [exact Hr|apply same_pc_push_mb]);
        apply (push_finish s _ t _ rest [IEnqDone; i2] W Hs2 Hp); auto; try reflexivity; try discriminate
      end.
  - destruct (pend_of s t) as [|i rest] eqn:Hp; [exact W|]. destruct i; try exact W.
    apply (push_finish s s t _ rest [] W (same_pc_refl s) Hp eq_refl eq_refl (fun _ => eq_refl)).
  - destruct (pend_of s t) as [|i rest] eqn:Hp; [exact W|]. destruct i; try exact W.
    match goal with |- context[set_pend ?s1 t rest] =>
      assert (Hs1 : same_pc s s1) by (apply same_pc_with_actor; intros; split; reflexivity);
      apply (push_finish s s1 t _ rest [] W Hs1 Hp eq_refl eq_refl (fun _ => eq_refl)) end.
  - destruct (pend_of s t) as [|i rest] eqn:Hp; [exact W|]. destruct i; try exact W.
    destruct (get s (self_of t)) as [x|] eqn:Hg; [|exact W]. destruct (a_paused x).
    + match goal with |- context[set_pend ?s1 t (IResume2 :: rest)] =>
        assert (Hs1 : same_pc s s1) by (eapply same_pc_set_actor; [exact Hg|reflexivity|reflexivity]);
        apply (push_finish s s1 t _ rest [IResume2] W Hs1 Hp); auto; try reflexivity; try discriminate end.
    + apply (push_finish s s t _ rest [] W (same_pc_refl s) Hp eq_refl eq_refl (fun _ => eq_refl)).
  - destruct (pend_of s t) as [|i rest] eqn:Hp; [exact W|]. destruct i; try exact W.
    apply (push_finish s s t _ rest [] W (same_pc_refl s) Hp eq_refl eq_refl (fun _ => eq_refl)).
  - destruct (pend_of s t) as [|i rest] eqn:Hp; [exact W|].
    assert (Hast : wf (astep s t i rest)).
    { unfold astep. destruct t as [a|j].
      - destruct (pend_of_TA_cons _ _ _ _ Hp) as (x & Hg & Hpx).
        destruct (iter_TA s a x i rest (held_of (set_pend s (TA a) rest) (TA a)) W Hg Hpx) as [W2 _]. cbv zeta in W2.
        destruct (exec1 _ _ _ _). exact W2.
      - destruct (pend_of_TX_cons _ _ _ _ Hp) as (ex & Hn & Hpx).
        destruct (iter_TX s j ex i rest (held_of (set_pend s (TX j) rest) (TX j)) W Hn Hpx) as [W2 _]. cbv zeta in W2.
        destruct (exec1 _ _ _ _). exact W2. }
    destruct i; cbn [yielding]; try exact W; try exact Hast.
    + pose proof (run_atomic_wf 1 s t W) as [W1 _]. rewrite (run_atomic_enq 0 s t _ _ _ _ _ Hp) in W1. exact W1.
    + destruct remaining; [exact Hast|exact W].
Qed.

Lemma wf_init' scs : wf (init_with scs). Proof. apply wf_init. Qed.

(** * the executing thread's own record after one atomic instruction *)
Lemma astep_TA_get s a x i rest :
  get s a = Some x -> a_pend x = i :: rest ->
  let r := exec1 (set_actor s a (upd_pend x rest)) (TA a) [] i in
  exists y, get (fst r) a = Some y /\ a_pend y = rest /\
            astep s (TA a) i rest = set_actor (fst r) a (upd_pend y (snd r ++ rest)).
Proof.
  intros Hg Hp. cbv zeta.
  assert (Hl : a < length (actors s)) by (eapply nth_error_lt; exact Hg).
  unfold astep. rewrite (set_pend_TA _ _ _ _ Hg). change (held_of _ (TA a)) with (@nil aid).
  set (s0 := set_actor s a (upd_pend x rest)).
  assert (Hg0 : get s0 a = Some (upd_pend x rest)) by (apply get_set_same; exact Hl).
  destruct (exec1_actors s0 (TA a) [] i _ Hg0) as (y & news & Hy & _ & Ha). cbn [self_of] in Ha.
  destruct (exec1 s0 (TA a) [] i) as [s1 front]. cbn [fst snd] in *.
  assert (Hg1 : get s1 a = Some y).
  { unfold get. rewrite Ha. rewrite nth_error_app1 by (rewrite upd_length; unfold s0; cbn; rewrite upd_length; exact Hl).
    apply nth_upd_eq. unfold s0; cbn; rewrite upd_length; exact Hl. }
  exists y. split; [exact Hg1|]. split; [exact (lu_pend _ _ _ Hy)|].
  rewrite (pend_of_TA _ _ _ Hg1), (lu_pend _ _ _ Hy). cbn [upd_pend a_pend].
  apply (set_pend_TA _ _ _ _ Hg1).
Qed.

(** what HandleEnvelop does to the lifecycle fields, and which lifecycle instruction it installs *)
Lemma dispatch_life s a x e :
  get s a = Some x -> (a_zombie x = true -> a_state x = Killed) ->
  exists y, get (fst (dispatch s a x e)) a = Some y /\
    a_zombie y = a_zombie x /\ a_children y = a_children x /\ a_pend y = a_pend x /\
    (a_state y = a_state x \/ (a_state x = Running /\ a_state y = Killing)) /\
    uzc (snd (dispatch s a x e)) = 0 /\
    (lf (snd (dispatch s a x e)) = [] \/ (exists p, lf (snd (dispatch s a x e)) = [IDoKill p]) \/
     (exists w, lf (snd (dispatch s a x e)) = [IOnKilled w])).
Proof.
  intros Hg Hz.
  assert (Hl : a < length (actors s)) by (eapply nth_error_lt; exact Hg).
  unfold dispatch.
  repeat match goal with
         | |- context[if ?c then _ else _] => destruct c eqn:?
         | |- context[match ?c with _ => _ end] => destruct c eqn:?
         end; cbn [fst snd];
  try (exists x; split; [exact Hg|]; cbn; repeat split; auto; eauto; fail);
  (eexists; split; [apply get_set_same; exact Hl|]; cbn; repeat split; auto; eauto 6).
Qed.

Lemma lf_map_IAct l : lf (map IAct l) = []. Proof. induction l; cbn; auto. Qed.
Lemma uzc_map_IAct l : uzc (map IAct l) = 0. Proof. unfold uzc. induction l; cbn; auto. Qed.
Lemma lf_flat_map {A} (f : A -> list instr) l : (forall a, lf (f a) = []) -> lf (flat_map f l) = [].
Proof. intros H. induction l; cbn [flat_map]; [reflexivity|]. rewrite lf_app, H, IHl. reflexivity. Qed.
Lemma uzc_flat_map {A} (f : A -> list instr) l : (forall a, uzc (f a) = 0) -> uzc (flat_map f l) = 0.
Proof. intros H. induction l; cbn [flat_map]; [reflexivity|]. rewrite uzc_app, H, IHl. reflexivity. Qed.

(** the front of a plain instruction (anything except the five lifecycle instructions and IUnzombie) is plain *)
Definition plain (i : instr) : bool := negb (life i) && negb (is_unzombie i).

Lemma exec1_front_plain s t h i : plain i = true -> lf (snd (exec1 s t h i)) = [] /\ uzc (snd (exec1 s t h i)) = 0.
Proof.
  intros Hi. unfold exec1. destruct (get s (self_of t)) as [x|]; [|split; reflexivity].
  destruct i; try discriminate Hi; cbn [snd]; try (split; reflexivity).
  - destruct remaining; split; reflexivity.
  - destruct a; cbn [snd]; try (split; reflexivity).
    + destruct (a_state x); cbn [snd]; try (split; reflexivity);
        (destruct (negb (sp_prelaunch sp)); [split; reflexivity|]);
        (destruct (alookup (reg s) (a_path x ++ [sp_name sp])); split; reflexivity).
    + destruct (a_cur x); split; reflexivity.
    + destruct n as [n|].
      * destruct (Nat.eqb (length (a_stash x)) 0); [split; reflexivity|]. cbn [snd].
        split; [apply lf_flat_map|apply uzc_flat_map]; reflexivity.
      * destruct (a_stash x); split; reflexivity.
    + destruct (alookup (subscribers s ty) (a_path x)); split; reflexivity.
    + destruct (nlookup (subs s) ty); split; reflexivity.
  - destruct (a_zombie x); [split; reflexivity|]. destruct (a_parent x).
    + destruct (take_until_panic acts) as [pre pan]. cbn [snd]. rewrite lf_app, uzc_app, lf_map_IAct, uzc_map_IAct.
      destruct pan; [|split; reflexivity]. destruct r; try (split; reflexivity). destruct (a_state x); try (split; reflexivity).
      destruct (ref_eq s who (RObj (self_of t))); split; reflexivity.
    + destruct m; try (split; reflexivity). destruct (ref_eq s who (RObj (self_of t))); split; reflexivity.
  - destruct (subscribers s ty); split; reflexivity.
  - destruct d; cbn [snd is_graceful]; rewrite ?lf_app, ?uzc_app;
      repeat match goal with
             | |- context[lf (flat_map ?f ?l)] => rewrite (lf_flat_map f l) by reflexivity
             | |- context[uzc (flat_map ?f ?l)] => rewrite (uzc_flat_map f l) by reflexivity
             end; split; reflexivity.
Qed.

(** ... and it leaves state and zombie flag alone; the children list only changes by ActorOf, refused when Killed *)
Lemma exec1_plain_lc s t h i x :
  get s (self_of t) = Some x -> plain i = true ->
  exists y, get (fst (exec1 s t h i)) (self_of t) = Some y /\ a_state y = a_state x /\ a_zombie y = a_zombie x /\
            (a_state x = Killed -> a_children y = a_children x).
Proof.
  intros Hg Hi.
  assert (Hl : self_of t < length (actors s)) by (eapply nth_error_lt; exact Hg).
  assert (Hsame : forall s', actors s' = actors s -> exists y, get s' (self_of t) = Some y /\ a_state y = a_state x /\ a_zombie y = a_zombie x /\
            (a_state x = Killed -> a_children y = a_children x)).
  { intros s' Ha. exists x. unfold get in *. rewrite Ha. auto. }
  assert (Hset : forall y, a_state y = a_state x -> a_zombie y = a_zombie x -> a_children y = a_children x ->
            exists y0, get (set_actor s (self_of t) y) (self_of t) = Some y0 /\ a_state y0 = a_state x /\ a_zombie y0 = a_zombie x /\
            (a_state x = Killed -> a_children y0 = a_children x)).
  { intros y H1 H2 H3. exists y. split; [apply get_set_same; exact Hl|auto]. }
  unfold exec1. rewrite Hg.
  destruct i; try discriminate Hi; cbn [fst]; try (apply Hsame; reflexivity).
  - destruct remaining; apply Hsame; reflexivity.
  - destruct a; cbn [fst]; try (apply Hsame; reflexivity).
    + destruct (a_state x) eqn:Est; cbn [fst]; try (apply Hsame; reflexivity).
      all: destruct (negb (sp_prelaunch sp)); [apply Hsame; reflexivity|].
      all: destruct (alookup (reg s) (a_path x ++ [sp_name sp])); [apply Hsame; reflexivity|].
      all: cbn [fst]; cbv zeta.
      all: match goal with |- context[with_actor ?s1 _ _] =>
             assert (Hg1 : get s1 (self_of t) = Some x)
               by (unfold get; cbn [actors]; rewrite nth_error_app1 by exact Hl; exact Hg);
             rewrite (with_actor_some _ _ _ _ Hg1) end.
      all: eexists; split; [apply get_set_same; cbn [actors]; rewrite app_length; lia|].
      all: cbn; rewrite Est; repeat split; auto; discriminate.
    + destruct (a_cur x); [apply Hset; reflexivity|apply Hsame; reflexivity].
    + destruct n as [n|]; [destruct (Nat.eqb (length (a_stash x)) 0)|destruct (a_stash x)];
        try (apply Hsame; reflexivity); apply Hset; reflexivity.
    + destruct (alookup (subscribers s ty) (a_path x)); apply Hsame; reflexivity.
    + destruct (nlookup (subs s) ty); apply Hsame; reflexivity.
    + apply Hset; reflexivity.
    + apply Hset; reflexivity.
  - destruct (a_zombie x); [apply Hsame; reflexivity|]. destruct (a_parent x).
    + destruct (take_until_panic acts). apply Hsame; reflexivity.
    + destruct m; try (apply Hsame; reflexivity). destruct (ref_eq s who (RObj (self_of t))); apply Hsame; reflexivity.
  - destruct (subscribers s ty); apply Hsame; reflexivity.
  - destruct d; apply Hsame; reflexivity.
  - apply Hset; reflexivity.
Qed.

Lemma linv_plain_step x y i front rest :
  a_pend x = i :: rest -> plain i = true -> lf front = [] -> uzc front = 0 ->
  a_state y = a_state x -> a_zombie y = a_zombie x -> (a_state x = Killed -> a_children y = a_children x) ->
  a_pend y = front ++ rest -> linv x -> linv y.
Proof.
  unfold linv, life_ok, plain. intros Hp Hpl Hf Hz Hs Hzo Hc Hpy (L1 & L2 & L3 & L4 & L5).
  apply andb_true_iff in Hpl. destruct Hpl as [Hl Hu]. apply negb_true_iff in Hl, Hu.
  rewrite Hp in *. rewrite (lf_cons_plain _ _ Hl), (uzc_cons_plain _ _ Hu) in *.
  rewrite Hpy, Hs, Hzo, lf_app, uzc_app, Hf, Hz. cbn [app plus].
  repeat split; auto. intros Hk. rewrite (Hc Hk). auto.
Qed.

Lemma life_plain_cases i : plain i = true \/ life i = true \/ i = IUnzombie.
Proof. destruct i; cbn; auto. Qed.

(** one atomic instruction of an actor's handler preserves [linv] of that actor *)
Lemma linv_astep_TA s a x i rest :
  get s a = Some x -> a_pend x = i :: rest -> linv x ->
  exists x', get (astep s (TA a) i rest) a = Some x' /\ linv x'.
Proof.
  intros Hg Hp Hinv.
  assert (Hl : a < length (actors s)) by (eapply nth_error_lt; exact Hg).
  destruct (astep_TA_get s a x i rest Hg Hp) as (y & Hy & Hpy & ->). cbv zeta in *.
  set (x0 := upd_pend x rest) in *. set (s0 := set_actor s a x0) in *.
  assert (Hg0 : get s0 a = Some x0) by (apply get_set_same; exact Hl).
  assert (Hl1 : a < length (actors (fst (exec1 s0 (TA a) [] i)))) by (eapply nth_error_lt; exact Hy).
  eexists. split; [apply get_set_same; exact Hl1|].
  destruct (life_plain_cases i) as [Hpl|[Hli| ->]].
  - (* plain *)
    destruct (exec1_plain_lc s0 (TA a) [] i x0 Hg0 Hpl) as (y' & Hy' & Hs & Hz & Hc). cbn [self_of] in Hy'.
    rewrite Hy in Hy'. inversion Hy'; subst y'. destruct (exec1_front_plain s0 (TA a) [] i Hpl) as [Hf Hu].
    eapply (linv_plain_step x _ i _ rest Hp Hpl Hf Hu); [exact Hs|exact Hz|exact Hc|reflexivity|exact Hinv].
  - (* lifecycle instructions *)
    destruct Hinv as (L1 & L2 & L3 & L4 & L5). unfold life_ok in L5. rewrite Hp in L3, L4, L5.
    rewrite (lf_cons_life _ _ Hli) in L5.
    assert (Hu0 : uzc (i :: rest) = uzc rest) by (apply uzc_cons_plain; destruct i; try discriminate Hli; reflexivity).
    rewrite Hu0 in *.
    assert (Hlr : lf rest = []) by (destruct (lf rest); [reflexivity|destruct i; try discriminate Hli; contradiction]).
    rewrite Hlr in L5.
    destruct i; try discriminate Hli.
    + (* IDoKill *)
      unfold exec1 in *. cbn [self_of] in *. rewrite Hg0 in *.
      cbn [fst snd] in *. rewrite Hg0 in Hy. inversion Hy; subst y.
      unfold linv, life_ok. cbn [upd_pend a_state a_zombie a_children a_pend x0].
      rewrite <- app_assoc, lf_app, uzc_app.
      destruct (a_children x); cbn [app lf uzc filter life is_unzombie length plus]; fold (lf rest); fold (uzc rest); rewrite Hlr;
        repeat split; auto.
    + (* IOnKilled *)
      unfold exec1 in *. cbn [self_of] in *. rewrite Hg0 in *.
      cbn [a_zombie x0 upd_pend] in *. destruct (a_zombie x) eqn:Hz.
      * cbn [fst snd] in *. rewrite Hg0 in Hy. inversion Hy; subst y.
        unfold linv, life_ok. cbn [upd_pend a_state a_zombie a_children a_pend x0 app lf uzc filter life is_unzombie length].
        fold (lf rest); fold (uzc rest). rewrite Hlr, Hz, L5. repeat split; auto.
      * destruct (ref_eq s0 who (RObj a)).
        -- cbn [fst snd] in *. rewrite Hg0 in Hy. inversion Hy; subst y.
           unfold linv, life_ok. cbn [upd_pend a_state a_zombie a_children a_pend x0 app lf uzc filter life is_unzombie length].
           fold (lf rest); fold (uzc rest). rewrite Hlr, Hz. repeat split; auto.
        -- cbn [fst snd] in *. rewrite get_set_same in Hy by (unfold s0; cbn; rewrite upd_length; exact Hl).
           assert (Hys : a_state y = a_state x /\ a_zombie y = a_zombie x /\ (a_children x = [] -> a_children y = [])).
           { inversion Hy as [Hy']. clear Hy Hy'.
             repeat match goal with |- context[match ?e with _ => _ end] => destruct e end; cbn; repeat split; auto; intros ->; reflexivity. }
           destruct Hys as (Hs & Hzz & Hc). clear Hy.
           unfold linv, life_ok. cbn [upd_pend a_state a_zombie a_children a_pend app lf uzc filter life is_unzombie length].
           fold (lf rest); fold (uzc rest). rewrite Hlr, Hs, Hzz, Hz. repeat split; auto; try discriminate.
    + (* ICheckMark *)
      unfold exec1 in *. cbn [self_of] in *. rewrite Hg0 in *.
      cbn [a_children a_state x0 upd_pend] in *.
      destruct (a_children x) eqn:Hch.
      * destruct (a_state x) eqn:Hst.
        -- cbn [fst snd] in *. rewrite Hg0 in Hy. inversion Hy; subst y.
           unfold linv, life_ok. cbn [upd_pend a_state a_zombie a_children a_pend x0 app]. rewrite Hlr, Hst, Hch. repeat split; auto; discriminate.
        -- cbn [fst snd] in *. rewrite get_set_same in Hy by (unfold s0; cbn; rewrite upd_length; exact Hl). inversion Hy; subst y.
           assert (Hzf : a_zombie x = false) by (destruct (a_zombie x); [specialize (L1 eq_refl); discriminate|reflexivity]).
           unfold linv, life_ok.
           cbn [upd_pend set_mb set_state upd_local a_state a_zombie a_children a_pend a_restarting x0 app lf uzc filter life is_unzombie length].
           destruct (a_restarting x); cbn [app lf uzc filter life is_unzombie length]; fold (lf rest); fold (uzc rest);
             rewrite Hlr, Hzf, Hch, L5; repeat split; auto; discriminate.
        -- cbn [fst snd] in *. rewrite Hg0 in Hy. inversion Hy; subst y.
           unfold linv, life_ok. cbn [upd_pend a_state a_zombie a_children a_pend x0 app]. rewrite Hlr, Hst, Hch. repeat split; auto.
      * cbn [fst snd] in *. rewrite Hg0 in Hy. inversion Hy; subst y.
        unfold linv, life_ok. cbn [upd_pend a_state a_zombie a_children a_pend x0 app]. rewrite Hlr, Hch. repeat split; auto;
        try (intros Hk; rewrite (L2 Hk) in Hch; discriminate).
    + (* ICleanup *)
      unfold exec1 in *. cbn [self_of] in *. rewrite Hg0 in *.
      cbn [fst snd] in *. assert (Hyx : y = x0) by (unfold get in *; cbn [actors set_subs set_reg] in Hy; rewrite Hg0 in Hy; inversion Hy; reflexivity).
      subst y. destruct L5 as [Hk Hzu].
      unfold linv, life_ok. cbn [upd_pend a_state a_zombie a_children a_pend x0 a_watchers a_parent].
      rewrite <- !app_assoc, !lf_app, !uzc_app.
      destruct (a_watchers x), (a_parent x); cbn [app lf uzc filter life is_unzombie length plus]; fold (lf rest); fold (uzc rest);
        rewrite Hlr; repeat split; auto.
    + (* IRestartFinish *)
      destruct L5 as (Hk & Hzf & Hu).
      destruct (restart_ok x0) eqn:Hok.
      * destruct (exec1_restart_finish_ok s0 (TA a) [] x0 Hg0 Hok) as (y1 & E & Hs1 & _ & Hz1 & _ & _ & _ & _ & _ & _ & _).
        rewrite E in *. cbn [fst snd self_of] in *.
        rewrite get_set_same in Hy by (unfold s0; cbn; rewrite upd_length; exact Hl). inversion Hy; subst y1.
        unfold linv, life_ok. cbn [upd_pend a_state a_zombie a_children a_pend app lf uzc filter life is_unzombie length].
        fold (lf rest); fold (uzc rest). rewrite Hlr, Hs1, Hz1, Hu. cbn [a_zombie x0 upd_pend]. rewrite Hzf.
        repeat split; auto; try discriminate; lia.
      * destruct (exec1_restart_finish_fail s0 (TA a) [] x0 Hg0 Hok) as (y1 & E & Hz1 & Hs1 & _).
        assert (Hc1 : a_children y1 = a_children x0).
        { unfold exec1 in E. cbn [self_of] in E. rewrite Hg0 in E. unfold restart_ok in Hok.
          destruct (a_hooks x0) as [|[[h1 h2] h3] hs]; [discriminate Hok|]. rewrite Hok in E.
          injection E as E1. apply (f_equal (fun l => nth_error l a)) in E1.
          rewrite !nth_upd_eq in E1 by (rewrite upd_length; exact Hl). inversion E1.
          destruct (sp_provider (a_spec x)); reflexivity. }
        rewrite E in *. cbn [fst snd self_of] in *.
        rewrite get_set_same in Hy by (unfold s0; cbn; rewrite upd_length; exact Hl). inversion Hy; subst y1.
        unfold linv, life_ok. cbn [upd_pend a_state a_zombie a_children a_pend app lf uzc filter life is_unzombie length].
        fold (lf rest); fold (uzc rest). rewrite Hlr, Hs1, Hz1, Hu, Hc1. cbn [a_state a_children x0 upd_pend]. rewrite Hk.
        repeat split; auto; try discriminate; try lia.
  - (* IUnzombie *)
    destruct Hinv as (L1 & L2 & L3 & L4 & L5). unfold life_ok in L5. rewrite Hp in L3, L4, L5.
    assert (Hu1 : uzc (IUnzombie :: rest) = S (uzc rest)) by reflexivity. rewrite Hu1 in *.
    assert (Hur : uzc rest = 0) by lia.
    unfold exec1 in *. cbn [self_of] in *. rewrite Hg0 in *. cbn [fst snd] in *.
    rewrite get_set_same in Hy by (unfold s0; cbn; rewrite upd_length; exact Hl). inversion Hy; subst y.
    rewrite (lf_cons_plain IUnzombie rest eq_refl) in L5.
    unfold linv, life_ok. cbn [upd_pend set_zombie upd_local a_state a_zombie a_children a_pend x0 app]. rewrite Hur.
    repeat split; auto; try discriminate; try lia.
    destruct (lf rest) as [|j [|j2 l2]]; auto. destruct j; auto; try (destruct L5; discriminate); try discriminate;
      try (destruct L5 as [Hk _]; split; [exact Hk|discriminate]); try (destruct L5 as (_ & _ & E); discriminate).
Qed.

Lemma linv_lc x y :
  a_state y = a_state x -> a_zombie y = a_zombie x -> (a_state x = Killed -> a_children y = a_children x) ->
  a_pend y = a_pend x -> linv x -> linv y.
Proof.
  unfold linv, life_ok. intros Hs Hz Hc Hp (L1 & L2 & L3 & L4 & L5). rewrite Hs, Hz, Hp.
  repeat split; auto. intros Hk. rewrite (Hc Hk). auto.
Qed.

Lemma ext_instr_plain i : ext_instr i = true -> plain i = true.
Proof. destruct i; try discriminate; reflexivity. Qed.

(** replacing a plain head of thread t's list after a change that only touched queues / caches / flags *)
Lemma linv_set_pend_TA s1 a x y1 i rest pre :
  get s1 a = Some y1 -> a_pend x = i :: rest -> plain i = true -> lf pre = [] -> uzc pre = 0 ->
  a_state y1 = a_state x -> a_zombie y1 = a_zombie x -> a_children y1 = a_children x ->
  linv x -> exists x', get (set_pend s1 (TA a) (pre ++ rest)) a = Some x' /\ linv x'.
Proof.
  intros Hg1 Hp Hpl Hf Hu Hs Hz Hc Hinv. rewrite (set_pend_TA _ _ _ _ Hg1).
  eexists. split; [apply (get_set_same' _ _ _ _ Hg1)|].
  eapply (linv_plain_step x _ i pre rest Hp Hpl Hf Hu); [exact Hs|exact Hz|intros _; exact Hc|reflexivity|exact Hinv].
Qed.

Definition LI (s : state) : Prop := forall a x, get s a = Some x -> linv x.

Lemma lsame_get_fields x y : lsame x y -> a_state y = a_state x /\ a_zombie y = a_zombie x /\ a_children y = a_children x /\ a_pend y = a_pend x.
Proof. intros ->. cbn. auto. Qed.

(** a change of the table that keeps every record up to queues, cache, flags and consumer position *)
Definition soft (x y : actor) : Prop :=
  a_state y = a_state x /\ a_zombie y = a_zombie x /\ a_children y = a_children x /\ a_pend y = a_pend x /\
  a_path y = a_path x /\ a_parent y = a_parent x /\ a_restarting y = a_restarting x /\ a_spec y = a_spec x.
Lemma soft_refl x : soft x x. Proof. repeat split. Qed.
Lemma soft_trans x y z : soft x y -> soft y z -> soft x z.
Proof. unfold soft. intros (A1 & A2 & A3 & A4 & A5 & A6 & A7 & A8) (B1 & B2 & B3 & B4 & B5 & B6 & B7 & B8). repeat split; congruence. Qed.
Lemma soft_lsame x y : lsame x y -> soft x y. Proof. intros ->. repeat split. Qed.
Lemma linv_soft x y : soft x y -> linv x -> linv y.
Proof. intros (A & B & C & D & _). apply linv_lc; auto. Qed.

Definition softT (s s' : state) : Prop := table_rel soft (fun _ => False) s s'.
Lemma softT_refl s : softT s s. Proof. apply table_rel_refl, soft_refl. Qed.
Lemma softT_trans a b c : softT a b -> softT b c -> softT a c. Proof. apply table_rel_trans, soft_trans. Qed.
Lemma softT_same s s' : actors s' = actors s -> softT s s'. Proof. apply table_rel_same_actors, soft_refl. Qed.
Lemma softT_set_actor s a x y : get s a = Some x -> soft x y -> softT s (set_actor s a y).
Proof. intros Hg H. eapply table_rel_set_actor; [exact soft_refl|exact Hg|exact H]. Qed.
Lemma softT_with_actor s a f : (forall x, soft x (f x)) -> softT s (with_actor s a f).
Proof. intros H. apply table_rel_with_actor; [exact soft_refl|right; exact H]. Qed.
Lemma softT_push_mb s a e : softT s (push_mb s a e).
Proof. unfold push_mb. apply softT_with_actor. intros x. repeat split. Qed.
Lemma softT_resolve s r : softT s (snd (resolve s r)).
Proof.
  destruct (resolve_shape s r) as [H|[H|(a & x & y & _ & Hg & _ & _ & H & _)]]; rewrite H;
    [apply softT_refl|apply softT_same; reflexivity|]. eapply softT_set_actor; [exact Hg|repeat split].
Qed.
Lemma softT_get s s' b x : softT s s' -> get s b = Some x -> exists y, get s' b = Some y /\ soft x y.
Proof. intros H Hg. apply (H b x Hg). tauto. Qed.

(** the head of the thread's list is plain and is replaced by plain instructions, after a soft change *)
Lemma linv_thread_plain s s1 t b x x' i rest pre :
  wf s -> LI s -> softT s s1 -> pend_of s t = i :: rest -> plain i = true -> lf pre = [] -> uzc pre = 0 ->
  get s b = Some x -> get (set_pend s1 t (pre ++ rest)) b = Some x' -> linv x'.
Proof.
  intros W I Hs Hp Hpl Hf Hu Hg Hg'. destruct (softT_get _ _ _ _ Hs Hg) as (y1 & Hg1 & Hsoft).
  destruct t as [a|j].
  - destruct (Nat.eq_dec a b) as [->|Hne].
    + destruct (pend_of_TA_cons _ _ _ _ Hp) as (x0 & Hg0 & Hpx). rewrite Hg in Hg0. inversion Hg0; subst x0.
      destruct Hsoft as (A & B & C & D & _).
      destruct (linv_set_pend_TA s1 b x y1 i rest pre Hg1 Hpx Hpl Hf Hu A B C (I _ _ Hg)) as (x'' & Hx'' & Hl). congruence.
    + assert (E : get (set_pend s1 (TA a) (pre ++ rest)) b = get s1 b).
      { cbn [set_pend]. unfold with_actor. destruct (get s1 a); [apply get_set_other; exact Hne|reflexivity]. }
      rewrite E in Hg'. assert (x' = y1) by congruence; subst. eapply linv_soft; [exact Hsoft|apply (I _ _ Hg)].
  - assert (E : get (set_pend s1 (TX j) (pre ++ rest)) b = get s1 b) by (unfold get; rewrite set_pend_TX_actors; reflexivity).
    rewrite E in Hg'. assert (x' = y1) by congruence; subst. eapply linv_soft; [exact Hsoft|apply (I _ _ Hg)].
Qed.

Lemma LI_softT s s' b x x' : LI s -> softT s s' -> get s b = Some x -> get s' b = Some x' -> linv x'.
Proof.
  intros I Hs Hg Hg'. destruct (softT_get _ _ _ _ Hs Hg) as (y & Hy & Hsoft). assert (x' = y) by congruence; subst.
  eapply linv_soft; [exact Hsoft|apply (I _ _ Hg)].
Qed.

Lemma softT_set_mb s a x sq uq pa co cu : get s a = Some x -> softT s (set_actor s a (set_mb x sq uq pa co cu)).
Proof. intros Hg. eapply softT_set_actor; [exact Hg|repeat split]. Qed.

Theorem LI_mstep s m : wf s -> LI s -> LI (mstep s m).
Proof.
  intros W I b x' Hg'.
  destruct (get s b) as [x|] eqn:Hg; [|apply linv_new; eapply mstep_new; eauto].
  destruct m; cbn [mstep step] in Hg'.
  - (* MSysPop *)
    destruct (get s a) as [xa|] eqn:Hga; [|eapply LI_softT; [exact I|apply softT_refl|exact Hg|exact Hg']].
    destruct (a_cons xa), (a_sq xa);
      try (eapply LI_softT; [exact I|apply softT_same; reflexivity|exact Hg|exact Hg']);
      (eapply LI_softT; [exact I|apply softT_set_mb; exact Hga|exact Hg|exact Hg']).
  - destruct (get s a) as [xa|] eqn:Hga; [|eapply LI_softT; [exact I|apply softT_refl|exact Hg|exact Hg']].
    destruct (a_cons xa);
      try (eapply LI_softT; [exact I|apply softT_same; reflexivity|exact Hg|exact Hg']);
      (eapply LI_softT; [exact I|apply softT_set_mb; exact Hga|exact Hg|exact Hg']).
  - destruct (get s a) as [xa|] eqn:Hga; [|eapply LI_softT; [exact I|apply softT_refl|exact Hg|exact Hg']].
    destruct (a_cons xa), (a_uq xa);
      try (eapply LI_softT; [exact I|apply softT_same; reflexivity|exact Hg|exact Hg']);
      (eapply LI_softT; [exact I|apply softT_set_mb; exact Hga|exact Hg|exact Hg']).
  - (* MHandle *)
    destruct (get s a) as [xa|] eqn:Hga; [|eapply LI_softT; [exact I|apply softT_refl|exact Hg|exact Hg']].
    destruct (a_cons xa) eqn:Hc; try (eapply LI_softT; [exact I|apply softT_same; reflexivity|exact Hg|exact Hg']).
    assert (Hl : a < length (actors s)) by (eapply nth_error_lt; exact Hga).
    set (s0 := set_actor s a (busy xa)) in *.
    assert (Hg0 : get s0 a = Some (busy xa)) by (apply get_set_same; exact Hl).
    pose proof (I _ _ Hga) as (L1 & L2 & L3 & L4 & L5).
    destruct (dispatch_life s0 a (busy xa) e Hg0 L1) as (y & Hy & Hz & Hch & Hpd & Hst & Hu & Hlf).
    destruct (dispatch_effect s0 a (busy xa) e Hg0) as (y2 & _ & Ha & _).
    destruct (dispatch s0 a (busy xa) e) as [s1 ins]. cbn [fst snd] in *.
    rewrite (set_pend_TA _ _ _ _ Hy) in Hg'.
    destruct (Nat.eq_dec a b) as [->|Hne].
    + rewrite (get_set_same' _ _ _ _ Hy) in Hg'. inversion Hg'; subst x'. clear Hg'.
      rewrite Hg in Hga. inversion Hga; subst xa.
      unfold linv, life_ok. cbn [upd_pend a_state a_zombie a_children a_pend busy set_mb] in *. rewrite Hu, Hz, Hch.
      assert (Hk : a_state y = Killed -> a_state x = Killed) by (destruct Hst as [->|[_ ->]]; [auto|discriminate]).
      repeat split; auto; try lia; try discriminate.
      * intros Hzo. specialize (L1 Hzo). destruct Hst as [->|[E _]]; [exact L1|congruence].
      * destruct Hlf as [->|[[p ->]|[w ->]]]; auto.
    + rewrite get_set_other in Hg' by exact Hne.
      assert (E : get s1 b = get s b).
      { unfold get. rewrite Ha. unfold s0. cbn [set_actor actors]. rewrite upd_upd. apply nth_upd_neq. exact Hne. }
      rewrite E, Hg in Hg'. inversion Hg'; subst. apply (I _ _ Hg).
  - (* MPush *)
    destruct (pend_of s t) as [|i rest] eqn:Hp; [eapply LI_softT; [exact I|apply softT_refl|exact Hg|exact Hg']|].
    destruct i; try (eapply LI_softT; [exact I|apply softT_same; reflexivity|exact Hg|exact Hg']).
    + rewrite deliver_eq in Hg'. eapply (linv_thread_plain s _ t b x x' _ rest [] W I (softT_push_mb s _ _) Hp); eauto.
    + eapply (linv_thread_plain s _ t b x x' _ rest [] W I (softT_push_mb s _ _) Hp); eauto.
    + destruct (nth_error tos c) as [r|]; [|eapply LI_softT; [exact I|apply softT_same; reflexivity|exact Hg|exact Hg']].
      pose proof (softT_resolve s r) as Hr. destruct (resolve s r) as [mb s1]. cbn [snd] in Hr. rewrite deliver_eq in Hg'.
      match type of Hg' with context[set_pend ?s2 t _] => assert (Hs2 : softT s s2) by (eapply softT_trans; [exact Hr|apply softT_push_mb]) end.
      destruct (firstn c tos ++ skipn (S c) tos) as [|r0 tl0].
      * eapply (linv_thread_plain s _ t b x x' _ rest [IEnqDone] W I Hs2 Hp); eauto.
      * eapply (linv_thread_plain s _ t b x x' _ rest [IEnqDone; IEnqAny sys (r0 :: tl0) sender m] W I Hs2 Hp); eauto.
    + destruct (nth_error remaining c) as [r|]; [|eapply LI_softT; [exact I|apply softT_same; reflexivity|exact Hg|exact Hg']].
      pose proof (softT_resolve s r) as Hr. destruct (resolve s r) as [mb s1]. cbn [snd] in Hr. rewrite deliver_eq in Hg'.
      match type of Hg' with context[set_pend ?s2 t (IEnqDone :: ?i2 :: rest)] =>
        assert (Hs2 : softT s s2) by (eapply softT_trans; [exact Hr|apply softT_push_mb]);
        eapply (linv_thread_plain s _ t b x x' _ rest [IEnqDone; i2] W I Hs2 Hp); eauto end.
  - (* MEnqDone *)
    destruct (pend_of s t) as [|i rest] eqn:Hp; [eapply LI_softT; [exact I|apply softT_refl|exact Hg|exact Hg']|].
    destruct i; try (eapply LI_softT; [exact I|apply softT_same; reflexivity|exact Hg|exact Hg']).
    eapply (linv_thread_plain s s t b x x' _ rest [] W I (softT_refl s) Hp); eauto.
  - (* MPauseSt *)
    destruct (pend_of s t) as [|i rest] eqn:Hp; [eapply LI_softT; [exact I|apply softT_refl|exact Hg|exact Hg']|].
    destruct i; try (eapply LI_softT; [exact I|apply softT_same; reflexivity|exact Hg|exact Hg']).
    match type of Hg' with context[set_pend ?s1 t rest] =>
      assert (Hs1 : softT s s1) by (apply softT_with_actor; intros; repeat split);
      eapply (linv_thread_plain s s1 t b x x' _ rest [] W I Hs1 Hp); eauto end.
  - (* MResume1 *)
    destruct (pend_of s t) as [|i rest] eqn:Hp; [eapply LI_softT; [exact I|apply softT_refl|exact Hg|exact Hg']|].
    destruct i; try (eapply LI_softT; [exact I|apply softT_same; reflexivity|exact Hg|exact Hg']).
    destruct (get s (self_of t)) as [xs|] eqn:Hgs; [|eapply LI_softT; [exact I|apply softT_same; reflexivity|exact Hg|exact Hg']].
    destruct (a_paused xs).
    + match type of Hg' with context[set_pend ?s1 t (IResume2 :: rest)] =>
        assert (Hs1 : softT s s1) by (apply softT_set_mb; exact Hgs);
        eapply (linv_thread_plain s s1 t b x x' _ rest [IResume2] W I Hs1 Hp); eauto end.
    + eapply (linv_thread_plain s s t b x x' _ rest [] W I (softT_refl s) Hp); eauto.
  - (* MResume2 *)
    destruct (pend_of s t) as [|i rest] eqn:Hp; [eapply LI_softT; [exact I|apply softT_refl|exact Hg|exact Hg']|].
    destruct i; try (eapply LI_softT; [exact I|apply softT_same; reflexivity|exact Hg|exact Hg']).
    eapply (linv_thread_plain s s t b x x' _ rest [] W I (softT_refl s) Hp); eauto.
  - (* MAtomic *)
    destruct (pend_of s t) as [|i rest] eqn:Hp; [assert (x' = x) by congruence; subst; apply (I _ _ Hg)|].
    assert (Hast : get (astep s t i rest) b = Some x' -> linv x').
    { intros H. destruct (Nat.eq_dec b (self_of t)) as [->|Hne].
      - destruct t as [a|j]; cbn [self_of] in *.
        + destruct (pend_of_TA_cons _ _ _ _ Hp) as (x0 & Hg0 & Hpx). rewrite Hg in Hg0. inversion Hg0; subst x0.
          destruct (linv_astep_TA s a x i rest Hg Hpx (I _ _ Hg)) as (x'' & Hx'' & Hl). congruence.
        + destruct (pend_of_TX_cons _ _ _ _ Hp) as (ex & Hn & Hpx).
          destruct W as [_ HX]. pose proof (Forall_nth _ _ _ _ HX Hn) as Hok. cbv beta in Hok. rewrite Hpx in Hok. cbn [forallb] in Hok.
          apply andb_true_iff in Hok. destruct Hok as [Hi _]. apply ext_instr_plain in Hi.
          unfold astep in H. set (s0 := set_pend s (TX j) rest) in *.
          assert (Hg0 : get s0 (self_of (TX j)) = Some x) by (unfold get, s0; rewrite set_pend_TX_actors; exact Hg).
          destruct (exec1_plain_lc s0 (TX j) (held_of s0 (TX j)) i x Hg0 Hi) as (y & Hy & Hs & Hz & Hc).
          destruct (exec1_actors s0 (TX j) (held_of s0 (TX j)) i x Hg0) as (y2 & news & Hy2 & _ & Ha).
          destruct (exec1 s0 (TX j) (held_of s0 (TX j)) i) as [s1 front]. cbn [fst snd self_of] in *.
          assert (E : get (set_pend s1 (TX j) (front ++ pend_of s1 (TX j))) 0 = get s1 0) by (unfold get; rewrite set_pend_TX_actors; reflexivity).
          rewrite E, Hy in H. inversion H; subst x'.
          assert (Hy2' : y2 = y).
          { unfold get in Hy. rewrite Ha in Hy. rewrite nth_error_app1 in Hy by (rewrite upd_length; eapply nth_error_lt; exact Hg0).
            rewrite nth_upd_eq in Hy by (eapply nth_error_lt; exact Hg0). congruence. }
          subst y2. eapply linv_lc; [exact Hs|exact Hz|exact Hc|exact (lu_pend _ _ _ Hy2)|apply (I _ _ Hg)].
      - destruct (foreign_astep s t i rest b x Hg Hne) as (y & Hy & Hls). assert (x' = y) by congruence; subst.
        eapply linv_lsame; [exact Hls|apply (I _ _ Hg)]. }
    destruct i; cbn [yielding] in Hg'; try (assert (x' = x) by congruence; subst; apply (I _ _ Hg)); try (apply Hast; exact Hg').
    + eapply (linv_thread_plain s _ t b x x' _ rest [IEnqR sys (fst (resolve s to)) sender m] W I (softT_resolve s to) Hp); eauto.
    + destruct remaining; [apply Hast; exact Hg'|assert (x' = x) by congruence; subst; apply (I _ _ Hg)].
Qed.

Lemma LI_init scs : LI (init_with scs).
Proof.
  intros a x Hg. unfold get in Hg. unfold init_with in Hg.
  assert (H : forall scs s i, actors (set_exts s i scs) = actors s).
  { clear. induction scs as [|sc r IH]; intros s i; cbn [set_exts]; [reflexivity|]. rewrite IH. apply set_pend_TX_actors. }
  rewrite H in Hg. cbn in Hg. destruct a as [|a]; cbn in Hg; [inversion Hg; subst|destruct a; discriminate].
  apply linv_new. do 4 eexists. reflexivity.
Qed.

Theorem linv_reachable s a x : reachable s -> get s a = Some x -> linv x.
Proof.
  intros Hr. revert a x. change (LI s). revert s Hr.
  apply (micro_invariant_with wf LI); [apply wf_init|intros; apply wf_mstep; assumption|apply LI_init|intros; apply LI_mstep; assumption].
Qed.

(** * a classification of micro-steps *)
(** a cache stays, or is filled from the registry *)
Definition crel (s : state) (x y : actor) : Prop :=
  a_cache y = a_cache x \/ (a_cache x = None /\ exists z, a_cache y = Some z /\ alookup (reg s) (a_path x) = Some z).
Definition quiet (s s' : state) : Prop :=
  reg s' = reg s /\ exts s' = exts s /\ length (actors s') = length (actors s) /\ softT s s' /\
  (forall b x x', get s b = Some x -> get s' b = Some x' -> crel s x x').
Lemma quiet_refl s : quiet s s.
Proof. split; [reflexivity|split; [reflexivity|split; [reflexivity|split; [apply softT_refl|]]]]. intros b x x' H1 H2. left. congruence. Qed.
Lemma quiet_same s s' : actors s' = actors s -> reg s' = reg s -> exts s' = exts s -> quiet s s'.
Proof.
  intros Ha Hr He. split; [exact Hr|split; [exact He|split; [rewrite Ha; reflexivity|split; [apply softT_same; exact Ha|]]]].
  intros b x x' H1 H2. left. unfold get in *. rewrite Ha in H2. congruence.
Qed.
Lemma quiet_trans a b c : quiet a b -> quiet b c -> quiet a c.
Proof.
  intros (R1 & E1 & L1 & S1 & C1) (R2 & E2 & L2 & S2 & C2).
  split; [congruence|split; [congruence|split; [congruence|split; [eapply softT_trans; eauto|]]]].
  intros i x z Hx Hz. destruct (softT_get _ _ _ _ S1 Hx) as (y & Hy & Hxy).
  specialize (C1 i x y Hx Hy). specialize (C2 i y z Hy Hz). destruct Hxy as (_ & _ & _ & _ & Hp & _).
  destruct C1 as [E|(N & w & Ew & Lw)].
  - destruct C2 as [E'|(N' & w & Ew & Lw)]; [left; congruence|right]. split; [congruence|]. exists w. split; [exact Ew|]. rewrite <- R1, <- Hp. exact Lw.
  - destruct C2 as [E'|(N' & _)]; [right; split; [exact N|exists w; split; [congruence|exact Lw]]|congruence].
Qed.
Lemma quiet_set_actor s a x y : get s a = Some x -> soft x y -> a_cache y = a_cache x -> quiet s (set_actor s a y).
Proof.
  intros Hg Hs Hc. split; [reflexivity|split; [reflexivity|split; [cbn; apply upd_length|split; [eapply softT_set_actor; eauto|]]]].
  intros b xb xb' H1 H2. left. destruct (Nat.eq_dec a b) as [<-|Hne].
  - rewrite (get_set_same' _ _ _ _ Hg) in H2. congruence.
  - rewrite get_set_other in H2 by exact Hne. congruence.
Qed.
Lemma quiet_set_mb s a x sq uq pa co cu : get s a = Some x -> quiet s (set_actor s a (set_mb x sq uq pa co cu)).
Proof. intros Hg. eapply quiet_set_actor; [exact Hg|repeat split|reflexivity]. Qed.
Lemma quiet_with_actor s a f : (forall x, soft x (f x) /\ a_cache (f x) = a_cache x) -> quiet s (with_actor s a f).
Proof.
  intros H. unfold with_actor. destruct (get s a) as [x|] eqn:E; [|apply quiet_same; reflexivity].
  eapply quiet_set_actor; [exact E|apply H|apply H].
Qed.
Lemma quiet_push_mb s a e : quiet s (push_mb s a e).
Proof. unfold push_mb. apply quiet_with_actor. intros x. split; [repeat split|reflexivity]. Qed.
Lemma quiet_resolve s r : quiet s (snd (resolve s r)).
Proof.
  destruct (resolve_shape s r) as [H|[H|(a & x & y & _ & Hg & Hn & Hlk & H & _)]]; rewrite H;
    [apply quiet_refl|apply quiet_same; reflexivity|].
  split; [reflexivity|split; [reflexivity|split; [cbn; apply upd_length|split; [eapply softT_set_actor; [exact Hg|repeat split]|]]]].
  intros b xb xb' H1 H2. destruct (Nat.eq_dec a b) as [<-|Hne].
  - rewrite (get_set_same' _ _ _ _ Hg) in H2. inversion H2; subst. rewrite Hg in H1. inversion H1; subst.
    right. split; [exact Hn|]. exists y. split; [reflexivity|exact Hlk].
  - rewrite get_set_other in H2 by exact Hne. left. congruence.
Qed.

Lemma mstep_cases s m :
  quiet s (mstep s m) \/
  (exists t i rest pre s1, pend_of s t = i :: rest /\ plain i = true /\ lf pre = [] /\ uzc pre = 0 /\ quiet s s1 /\
                            mself m = self_of t /\ mstep s m = set_pend s1 t (pre ++ rest)) \/
  (exists a x e, m = MHandle a /\ get s a = Some x /\ a_cons x = CH e) \/
  (exists t i rest, m = MAtomic t /\ pend_of s t = i :: rest /\ yielding i = false /\ is_enq i = false /\
                    mstep s m = astep s t i rest).
Proof.
  assert (Hplain : forall t i rest pre s1, pend_of s t = i :: rest -> plain i = true -> lf pre = [] -> uzc pre = 0 -> quiet s s1 ->
            mself m = self_of t -> mstep s m = set_pend s1 t (pre ++ rest) ->
            quiet s (mstep s m) \/
            (exists t i rest pre s1, pend_of s t = i :: rest /\ plain i = true /\ lf pre = [] /\ uzc pre = 0 /\ quiet s s1 /\
                            mself m = self_of t /\ mstep s m = set_pend s1 t (pre ++ rest)) \/
            (exists a x e, m = MHandle a /\ get s a = Some x /\ a_cons x = CH e) \/
            (exists t i rest, m = MAtomic t /\ pend_of s t = i :: rest /\ yielding i = false /\ is_enq i = false /\
                    mstep s m = astep s t i rest)).
  { intros t i rest pre s1 H1 H2 H3 H4 H5 H6 H7. right; left. exists t, i, rest, pre, s1. auto 10. }
  destruct m; cbn [mstep step mself] in *.
  - left. destruct (get s a) as [x|] eqn:Hg; [|apply quiet_same; reflexivity].
    destruct (a_cons x), (a_sq x); try (apply quiet_same; reflexivity); apply quiet_set_mb; exact Hg.
  - left. destruct (get s a) as [x|] eqn:Hg; [|apply quiet_same; reflexivity].
    destruct (a_cons x); try (apply quiet_same; reflexivity); apply quiet_set_mb; exact Hg.
  - left. destruct (get s a) as [x|] eqn:Hg; [|apply quiet_same; reflexivity].
    destruct (a_cons x), (a_uq x); try (apply quiet_same; reflexivity); apply quiet_set_mb; exact Hg.
  - destruct (get s a) as [x|] eqn:Hg; [|left; apply quiet_same; reflexivity].
    destruct (a_cons x) eqn:Hc; try (left; apply quiet_same; reflexivity).
    right; right; left. exists a, x, e. auto.
  - destruct (pend_of s t) as [|i rest] eqn:Hp; [left; apply quiet_same; reflexivity|].
    destruct i; try (left; apply quiet_same; reflexivity).
    + rewrite deliver_eq in *. apply (Hplain t _ rest [] _ Hp eq_refl eq_refl eq_refl (quiet_push_mb s _ _) eq_refl eq_refl).
    + apply (Hplain t _ rest [] _ Hp eq_refl eq_refl eq_refl (quiet_push_mb s _ _) eq_refl eq_refl).
    + destruct (nth_error tos c) as [r|]; [|left; apply quiet_same; reflexivity].
      pose proof (quiet_resolve s r) as Hr. destruct (resolve s r) as [mb s1]. cbn [snd] in Hr. rewrite deliver_eq in *.
      assert (Hq : quiet s (push_mb s1 (fst (landing mb {| e_sys := sys; e_sender := sender; e_msg := m |})) (snd (landing mb {| e_sys := sys; e_sender := sender; e_msg := m |}))))
        by (eapply quiet_trans; [exact Hr|apply quiet_push_mb]).
      destruct (firstn c tos ++ skipn (S c) tos) as [|r0 tl0].
      * apply (Hplain t _ rest [IEnqDone] _ Hp eq_refl eq_refl eq_refl Hq eq_refl eq_refl).
      * apply (Hplain t _ rest [IEnqDone; IEnqAny sys (r0 :: tl0) sender m] _ Hp eq_refl eq_refl eq_refl Hq eq_refl eq_refl).
    + destruct (nth_error remaining c) as [r|]; [|left; apply quiet_same; reflexivity].
      pose proof (quiet_resolve s r) as Hr. destruct (resolve s r) as [mb s1]. cbn [snd] in Hr. rewrite deliver_eq in *.
      match goal with |- context[set_pend ?s2 t (IEnqDone :: ?i2 :: rest)] =>
        assert (Hq : quiet s s2) by (eapply quiet_trans; [exact Hr|apply quiet_push_mb]);
        apply (Hplain t _ rest [IEnqDone; i2] _ Hp eq_refl eq_refl eq_refl Hq eq_refl eq_refl) end.
  - destruct (pend_of s t) as [|i rest] eqn:Hp; [left; apply quiet_same; reflexivity|].
    destruct i; try (left; apply quiet_same; reflexivity).
    apply (Hplain t _ rest [] s Hp eq_refl eq_refl eq_refl (quiet_refl s) eq_refl eq_refl).
  - destruct (pend_of s t) as [|i rest] eqn:Hp; [left; apply quiet_same; reflexivity|].
    destruct i; try (left; apply quiet_same; reflexivity).
    match goal with |- context[set_pend ?s1 t rest] =>
      assert (Hq : quiet s s1) by (apply quiet_with_actor; intros; split; [repeat split|reflexivity]);
      apply (Hplain t _ rest [] s1 Hp eq_refl eq_refl eq_refl Hq eq_refl eq_refl) end.
  - destruct (pend_of s t) as [|i rest] eqn:Hp; [left; apply quiet_same; reflexivity|].
    destruct i; try (left; apply quiet_same; reflexivity).
    destruct (get s (self_of t)) as [x|] eqn:Hg; [|left; apply quiet_same; reflexivity].
    destruct (a_paused x).
    + match goal with |- context[set_pend ?s1 t (IResume2 :: rest)] =>
        assert (Hq : quiet s s1) by (apply quiet_set_mb; exact Hg);
        apply (Hplain t _ rest [IResume2] s1 Hp eq_refl eq_refl eq_refl Hq eq_refl eq_refl) end.
    + apply (Hplain t _ rest [] s Hp eq_refl eq_refl eq_refl (quiet_refl s) eq_refl eq_refl).
  - destruct (pend_of s t) as [|i rest] eqn:Hp; [left; apply quiet_same; reflexivity|].
    destruct i; try (left; apply quiet_same; reflexivity).
    apply (Hplain t _ rest [] s Hp eq_refl eq_refl eq_refl (quiet_refl s) eq_refl eq_refl).
  - destruct (pend_of s t) as [|i rest] eqn:Hp; [left; apply quiet_refl|].
    destruct (is_enq i) eqn:Hq.
    + destruct i; try discriminate Hq.
      apply (Hplain t _ rest [IEnqR sys (fst (resolve s to)) sender m] _ Hp eq_refl eq_refl eq_refl (quiet_resolve s to) eq_refl eq_refl).
    + destruct (yielding i) eqn:Hy.
      * left. destruct i; try discriminate Hy; try apply quiet_refl; try (destruct remaining; [discriminate Hy|apply quiet_refl]).
      * right; right; right. exists t, i, rest. split; [reflexivity|]. split; [exact Hp|]. split; [exact Hy|]. split; [exact Hq|].
        destruct i; try discriminate Hq; try discriminate Hy; try reflexivity; try (destruct remaining; [reflexivity|discriminate Hy]).
Qed.
