(** Replay entry point of ActorCore, second edition: as Actor/CoreRun.v ([run_actor]), but
    (1) the final projection of every actor additionally carries the CONTENT of its stash, oldest first - per parked
        envelope the system flag and the message descriptor - so that the lock-step comparison checks not only how
        many envelopes the real Context.stash holds at the end of a run but which ones and in which order (across
        restarts, stops and zombie transitions);
    (2) an optional fourth input element lists projection fields to blank on BOTH sides (by position in the per-actor
        tuple; 100 = the event-stream tables): an observation the harness cannot locate in the build under test
        (a renamed / restructured private field) is projected out of the comparison instead of failing it.
    Everything else is [CoreRun]'s. *)
From Coq Require Import List NArith ZArith Bool.
From Vivid Require Import Base.Tm Actor.Core Actor.CoreRun.
Import ListNotations.
Local Open Scope N_scope.

Definition t_env (s : state) (e : envelope) : tm := TL [tbool (e_sys e); t_msg s (e_msg e)].

Definition t_stash (s : state) (a : aid) : tm :=
  match get s a with Some x => tlist (t_env s) (a_stash x) | None => TL [] end.

Definition t_actor2 (s : state) (a : aid) : tm :=
  match t_actor s a with
  | TL (f :: l) => TL ((f :: l) ++ [t_stash s a])
  | t => t
  end.

Definition blank (t : tm) : tm := match t with TL _ => TL [] | _ => TN 0 end.
Definition masked (mask : list N) (i : N) : bool := existsb (N.eqb i) mask.
Fixpoint mask_fields (i : N) (mask : list N) (l : list tm) : list tm :=
  match l with
  | [] => []
  | f :: r => (if masked mask i then blank f else f) :: mask_fields (i + 1) mask r
  end.
Definition t_actor2m (mask : list N) (s : state) (a : aid) : tm :=
  match t_actor2 s a with TL l => TL (mask_fields 0 mask l) | t => t end.

Definition run_actor2_with (mask : list N) (scripts : tm) (evs query : list tm) : tm :=
  match get_list (get_list (get_action SCRIPT_FUEL)) scripts with
  | Some scs =>
      let s0 := set_exts (init_state (length scs)) 0 scs in
      let (s1, outs) := replay s0 evs in
      TL [TL outs;
          tlist (t_obs s1) (olog s1);
          tlist (fun k => match get_akey s1 k with Some a => t_actor2m mask s1 a | None => TL [] end) query;
          (if masked mask 100 then TL [] else t_subs s1);
          tbool (err s1)]
  | None => tm_err 2
  end.

Definition run_actor2 (t : tm) : tm :=
  match t with
  | TL [scripts; TL evs; TL query] => run_actor2_with [] scripts evs query
  | TL [scripts; TL evs; TL query; mask] =>
      match get_list get_n mask with
      | Some m => run_actor2_with m scripts evs query
      | None => tm_err 3
      end
  | _ => tm_err 0
  end.
