(** Base lemmas about ActorCore for the C03 / C09 proofs: list updates, [get]/[set_actor], unfolding of
    [run_atomic], an induction principle for it, and "effect" lemmas that say once and for all which parts
    of the state each primitive ([set_pend], [resolve], [push_mb], [exec1], [dispatch]) can change. *)
From Coq Require Import List NArith ZArith Bool Lia Arith.
From Vivid Require Import Actor.Core Actor.CoreRun Actor.SpecMail.
Import ListNotations.

(** * lists *)
Lemma upd_length {A} (l : list A) i x : length (upd l i x) = length l.
Proof. revert i; induction l as [|h t IH]; intros [|i]; cbn [upd length]; auto. Qed.

Lemma nth_upd_eq {A} (l : list A) i x : i < length l -> nth_error (upd l i x) i = Some x.
Proof. revert i; induction l as [|h t IH]; intros [|i] H; cbn [upd length nth_error] in *; try lia; auto. apply IH; lia. Qed.

Lemma nth_upd_neq {A} (l : list A) i j x : i <> j -> nth_error (upd l i x) j = nth_error l j.
Proof. revert i j; induction l as [|h t IH]; intros [|i] [|j] H; cbn [upd nth_error]; try congruence; auto. Qed.

Lemma nth_upd_none {A} (l : list A) i x : nth_error l i = None -> upd l i x = l.
Proof. revert i; induction l as [|h t IH]; intros [|i] H; cbn [upd nth_error] in *; try congruence; auto. f_equal; auto. Qed.

Lemma upd_same {A} (l : list A) i x : nth_error l i = Some x -> upd l i x = l.
Proof. revert i; induction l as [|h t IH]; intros [|i] H; cbn [upd nth_error] in *; try congruence. f_equal; auto. Qed.

Lemma upd_upd {A} (l : list A) i x y : upd (upd l i x) i y = upd l i y.
Proof. revert i; induction l as [|h t IH]; intros [|i]; cbn [upd]; auto. f_equal; auto. Qed.

Lemma upd_app_l {A} (l r : list A) i x : i < length l -> upd (l ++ r) i x = upd l i x ++ r.
Proof. revert i; induction l as [|h t IH]; intros [|i] H; cbn [upd length app] in *; try lia; auto. f_equal; apply IH; lia. Qed.

Lemma nth_error_lt {A} (l : list A) i x : nth_error l i = Some x -> i < length l.
Proof. intros H. apply nth_error_Some. congruence. Qed.

(** * get / set_actor *)
Lemma get_set_same s a x : a < length (actors s) -> get (set_actor s a x) a = Some x.
Proof. intros H. unfold get, set_actor; cbn [actors]. apply nth_upd_eq; auto. Qed.

Lemma get_set_same' s a x y : get s a = Some y -> get (set_actor s a x) a = Some x.
Proof. intros H. apply get_set_same. eapply nth_error_lt; eauto. Qed.

Lemma get_set_other s a b x : a <> b -> get (set_actor s a x) b = get s b.
Proof. intros H. unfold get, set_actor; cbn [actors]. apply nth_upd_neq; auto. Qed.

Lemma with_actor_some s a f x : get s a = Some x -> with_actor s a f = set_actor s a (f x).
Proof. intros H. unfold with_actor. rewrite H. reflexivity. Qed.

Lemma with_actor_none s a f : get s a = None -> with_actor s a f = set_err s.
Proof. intros H. unfold with_actor. rewrite H. reflexivity. Qed.

Lemma set_actor_same s a x : get s a = Some x -> set_actor s a x = s.
Proof. intros H. unfold set_actor. rewrite (upd_same _ _ _ H). destruct s; reflexivity. Qed.

(** * fuel *)
Definition FUEL4 : nat := FUEL - 4.
Lemma FUEL_eq : FUEL = S (S (S (S FUEL4))).
Proof. reflexivity. Qed.
Global Opaque FUEL.

Lemma run_atomic_S f s t :
  run_atomic (S f) s t =
  match pend_of s t with
  | [] => s
  | IEnq sys to sender m :: rest => let (mb, s1) := resolve s to in set_pend s1 t (IEnqR sys mb sender m :: rest)
  | i :: rest =>
      if yielding i then s
      else let s0 := set_pend s t rest in
           let (s1, front) := exec1 s0 t (held_of s0 t) i in
           run_atomic f (set_pend s1 t (front ++ pend_of s1 t)) t
  end.
Proof. reflexivity. Qed.

Lemma run_atomic_nil f s t : pend_of s t = [] -> run_atomic (S f) s t = s.
Proof. intros H. rewrite run_atomic_S, H. reflexivity. Qed.

Lemma run_atomic_yield f s t i rest : pend_of s t = i :: rest -> yielding i = true -> run_atomic (S f) s t = s.
Proof. intros H Hy. rewrite run_atomic_S, H. destruct i; try discriminate Hy; try reflexivity. destruct remaining; [discriminate Hy|reflexivity]. Qed.

(** one atomic instruction (not a tell) *)
Definition is_enq (i : instr) : bool := match i with IEnq _ _ _ _ => true | _ => false end.
Lemma run_atomic_exec f s t i rest :
  pend_of s t = i :: rest -> yielding i = false -> is_enq i = false ->
  run_atomic (S f) s t =
  (let s0 := set_pend s t rest in
   let (s1, front) := exec1 s0 t (held_of s0 t) i in
   run_atomic f (set_pend s1 t (front ++ pend_of s1 t)) t).
Proof. intros H Hy He. rewrite run_atomic_S, H. destruct i; try discriminate He; try discriminate Hy; try reflexivity. destruct remaining; [reflexivity|discriminate Hy]. Qed.

(** induction principle: a reflexive-transitive relation that holds across every primitive holds across [run_atomic] *)
Lemma run_atomic_rel (R : state -> state -> Prop) (t : tid) :
  (forall s, R s s) -> (forall a b c, R a b -> R b c -> R a c) ->
  (forall s, R s (set_err s)) ->
  (forall s l, R s (set_pend s t l)) ->
  (forall s r, R s (snd (resolve s r))) ->
  (forall s h i, R s (fst (exec1 s t h i))) ->
  forall f s, R s (run_atomic f s t).
Proof.
  intros Hr Ht He Hp Hres Hex. induction f as [|f IH]; intros s; [apply He|].
  rewrite run_atomic_S. destruct (pend_of s t) as [|i rest]; [apply Hr|].
  assert (Hgen : R s (if yielding i then s
      else let s0 := set_pend s t rest in let (s1, front) := exec1 s0 t (held_of s0 t) i in
           run_atomic f (set_pend s1 t (front ++ pend_of s1 t)) t)).
  { destruct (yielding i); [apply Hr|]. cbv zeta.
    destruct (exec1 (set_pend s t rest) t (held_of (set_pend s t rest) t) i) as [s1 front] eqn:E.
    eapply Ht; [apply Hp|]. eapply Ht; [|eapply Ht; [apply Hp|apply IH]].
    replace s1 with (fst (exec1 (set_pend s t rest) t (held_of (set_pend s t rest) t) i)) by (rewrite E; reflexivity).
    apply Hex. }
  destruct i; try exact Hgen.
  destruct (resolve s to) as [mb s1] eqn:E. eapply Ht; [|apply Hp].
  replace s1 with (snd (resolve s to)) by (rewrite E; reflexivity). apply Hres.
Qed.

(** * pointwise projections of the actor table *)
Definition proj_at {A} (pi : actor -> A) (d : A) (s : state) (b : aid) : A :=
  match get s b with Some x => pi x | None => d end.
Definition keeps {A} (pi : actor -> A) (d : A) (s s' : state) : Prop := forall b, proj_at pi d s' b = proj_at pi d s b.
(** ... except at one index *)
Definition keeps_but {A} (self : aid) (pi : actor -> A) (d : A) (s s' : state) : Prop :=
  forall b, b <> self -> proj_at pi d s' b = proj_at pi d s b.

Lemma keeps_refl {A} (pi : actor -> A) d s : keeps pi d s s.
Proof. intros b; reflexivity. Qed.
Lemma keeps_trans {A} (pi : actor -> A) d a b c : keeps pi d a b -> keeps pi d b c -> keeps pi d a c.
Proof. intros H1 H2 x. rewrite H2. apply H1. Qed.
Lemma keeps_but_refl {A} self (pi : actor -> A) d s : keeps_but self pi d s s.
Proof. intros b _; reflexivity. Qed.
Lemma keeps_but_trans {A} self (pi : actor -> A) d a b c : keeps_but self pi d a b -> keeps_but self pi d b c -> keeps_but self pi d a c.
Proof. intros H1 H2 x Hx. rewrite H2 by auto. apply H1; auto. Qed.
Lemma keeps_keeps_but {A} self (pi : actor -> A) d a b : keeps pi d a b -> keeps_but self pi d a b.
Proof. intros H x _. apply H. Qed.

Lemma keeps_same_actors {A} (pi : actor -> A) d s s' : actors s' = actors s -> keeps pi d s s'.
Proof. intros H b. unfold proj_at, get. rewrite H. reflexivity. Qed.

Lemma keeps_set_actor {A} (pi : actor -> A) d s a x y : get s a = Some x -> pi y = pi x -> keeps pi d s (set_actor s a y).
Proof.
  intros Hg Hp b. unfold proj_at. destruct (Nat.eq_dec a b) as [<-|Hn].
  - rewrite (get_set_same' _ _ _ _ Hg), Hg. exact Hp.
  - rewrite get_set_other by exact Hn. reflexivity.
Qed.

Lemma keeps_but_set_actor {A} (pi : actor -> A) d s a y : keeps_but a pi d s (set_actor s a y).
Proof. intros b Hb. unfold proj_at. rewrite get_set_other by congruence. reflexivity. Qed.

(** the general shape of an actor-table update: one record replaced, new records appended *)
Lemma keeps_upd_app {A} (pi : actor -> A) d s s' a x y news :
  get s a = Some x -> actors s' = upd (actors s) a y ++ news -> pi y = pi x -> Forall (fun n => pi n = d) news ->
  keeps pi d s s'.
Proof.
  intros Hg Ha Hp Hn b. unfold proj_at, get. rewrite Ha.
  assert (Hl : a < length (actors s)) by (eapply nth_error_lt; exact Hg).
  destruct (Nat.lt_ge_cases b (length (actors s))) as [Hb|Hb].
  - rewrite nth_error_app1 by (rewrite upd_length; exact Hb).
    destruct (Nat.eq_dec a b) as [<-|Hne].
    + rewrite nth_upd_eq by exact Hl. unfold get in Hg. rewrite Hg. exact Hp.
    + rewrite nth_upd_neq by exact Hne. reflexivity.
  - rewrite nth_error_app2 by (rewrite upd_length; exact Hb). rewrite upd_length.
    assert (Hnone : nth_error (actors s) b = None) by (apply nth_error_None; exact Hb). rewrite Hnone.
    destruct (nth_error news (b - length (actors s))) eqn:E; [|reflexivity].
    apply nth_error_In in E. rewrite Forall_forall in Hn. apply Hn; exact E.
Qed.

Lemma keeps_but_upd_app {A} (pi : actor -> A) d s s' a y news :
  a < length (actors s) -> actors s' = upd (actors s) a y ++ news -> Forall (fun n => pi n = d) news ->
  keeps_but a pi d s s'.
Proof.
  intros Hl Ha Hn b Hba. unfold proj_at, get. rewrite Ha.
  destruct (Nat.lt_ge_cases b (length (actors s))) as [Hb|Hb].
  - rewrite nth_error_app1 by (rewrite upd_length; exact Hb). rewrite nth_upd_neq by congruence. reflexivity.
  - rewrite nth_error_app2 by (rewrite upd_length; exact Hb). rewrite upd_length.
    assert (Hnone : nth_error (actors s) b = None) by (apply nth_error_None; exact Hb). rewrite Hnone.
    destruct (nth_error news (b - length (actors s))) eqn:E; [|reflexivity].
    apply nth_error_In in E. rewrite Forall_forall in Hn. apply Hn; exact E.
Qed.

(** * effect of the small primitives *)
Lemma set_err_actors s : actors (set_err s) = actors s. Proof. reflexivity. Qed.

Lemma set_pend_TX_actors s i l : actors (set_pend s (TX i) l) = actors s.
Proof. unfold set_pend. destruct (nth_error (exts s) i); reflexivity. Qed.

Lemma set_pend_TA s a l x : get s a = Some x -> set_pend s (TA a) l = set_actor s a (upd_pend x l).
Proof. intros H. unfold set_pend. apply (with_actor_some s a (fun x => upd_pend x l) x H). Qed.

Lemma set_pend_TA_none s a l : get s a = None -> set_pend s (TA a) l = set_err s.
Proof. intros H. unfold set_pend. apply with_actor_none; exact H. Qed.

Lemma keeps_set_pend {A} (pi : actor -> A) d s t l :
  (forall x p, pi (upd_pend x p) = pi x) -> keeps pi d s (set_pend s t l).
Proof.
  intros Hpi. destruct t as [a|i].
  - destruct (get s a) as [x|] eqn:E.
    + rewrite (set_pend_TA _ _ _ _ E). eapply keeps_set_actor; [exact E|apply Hpi].
    + rewrite (set_pend_TA_none _ _ _ E). apply keeps_same_actors. reflexivity.
  - apply keeps_same_actors. apply set_pend_TX_actors.
Qed.

(** [resolve] only ever fills a cache *)
Definition set_cache (x : actor) (c : option aid) : actor :=
  {| a_path := a_path x; a_gen := a_gen x; a_parent := a_parent x; a_spec := a_spec x; a_state := a_state x;
     a_zombie := a_zombie x; a_restarting := a_restarting x; a_children := a_children x; a_watchers := a_watchers x;
     a_stash := a_stash x; a_modes := a_modes x; a_inst := a_inst x; a_decisions := a_decisions x; a_hooks := a_hooks x;
     a_cache := c; a_sq := a_sq x; a_uq := a_uq x; a_paused := a_paused x; a_cons := a_cons x; a_cur := a_cur x;
     a_pend := a_pend x |}.

Lemma resolve_shape s r :
  snd (resolve s r) = s \/ snd (resolve s r) = set_err s \/
  exists a x y, r = RObj a /\ get s a = Some x /\ a_cache x = None /\ alookup (reg s) (a_path x) = Some y /\
                snd (resolve s r) = set_actor s a (set_cache x (Some y)) /\ fst (resolve s r) = MbActor y.
Proof.
  unfold resolve. destruct r as [a|p|]; [|destruct (alookup (reg s) p); [|destruct (path_eqb p [])]; auto|auto].
  destruct (get s a) as [x|] eqn:E; [|auto].
  destruct (a_cache x) eqn:Ec; [auto|].
  destruct (alookup (reg s) (a_path x)) as [y|] eqn:Er; [|destruct (path_eqb (a_path x) []); auto].
  right; right. exists a, x, y. repeat split; auto.
Qed.

Lemma keeps_resolve {A} (pi : actor -> A) d s r :
  (forall x c, pi (set_cache x c) = pi x) -> keeps pi d s (snd (resolve s r)).
Proof.
  intros Hpi. destruct (resolve_shape s r) as [H|[H|(a & x & y & _ & Hg & _ & _ & H & _)]]; rewrite H.
  - apply keeps_refl.
  - apply keeps_same_actors; reflexivity.
  - eapply keeps_set_actor; [exact Hg|apply Hpi].
Qed.

(** * effect of [exec1] on the actor table: the executing context's own record is replaced by a record that
    differs only in actor-local fields, and (ActorOf) one fresh record may be appended *)
Record local_upd (i : instr) (x y : actor) : Prop := {
  lu_path : a_path y = a_path x; lu_gen : a_gen y = a_gen x; lu_parent : a_parent y = a_parent x;
  lu_spec : a_spec y = a_spec x; lu_cache : a_cache y = a_cache x;
  lu_sq : a_sq y = a_sq x; lu_uq : a_uq y = a_uq x; lu_paused : a_paused y = a_paused x; lu_pend : a_pend y = a_pend x;
  lu_cons : a_cons y = a_cons x \/ (i = IEndHandler /\ a_cons y = C1) \/ (i = IRestartFinish /\ a_cons y = CBusy 0%N);
  lu_stash : a_stash y = a_stash x \/ i = IAct AStash \/ (exists n, i = IAct (AUnstash n));
  lu_state : a_state y = a_state x \/ (i = ICheckMark /\ a_state x = Killing /\ a_state y = Killed) \/
             (i = IRestartFinish /\ a_state y = Running);
  lu_zombie : a_zombie y = a_zombie x \/ (i = IUnzombie /\ a_zombie y = false) \/ (i = IRestartFinish /\ a_zombie y = true);
  lu_children : a_children y = a_children x \/ (exists sp, i = IAct (ASpawn sp)) \/ (exists w, i = IOnKilled w);
  lu_restarting : a_restarting y = a_restarting x \/ i = IRestartFinish;
}.

Lemma local_upd_refl i x : local_upd i x x.
Proof. constructor; auto. Qed.

Definition is_new (n : actor) : Prop := exists p g par sp, n = new_actor p g par sp.

Lemma exec1_none s t h i : get s (self_of t) = None -> exec1 s t h i = (set_err s, []).
Proof. intros H. unfold exec1. rewrite H. reflexivity. Qed.

Ltac lu_solve := constructor; cbn; auto 6; try (right; eauto; fail).

Lemma exec1_actors s t h i x :
  get s (self_of t) = Some x ->
  exists y news, local_upd i x y /\ Forall is_new news /\
                 actors (fst (exec1 s t h i)) = upd (actors s) (self_of t) y ++ news.
Proof.
  intros Hg.
  assert (Hid : actors s = upd (actors s) (self_of t) x ++ []).
  { rewrite app_nil_r. symmetry. apply upd_same. exact Hg. }
  assert (Hsame : exists y news, local_upd i x y /\ Forall is_new news /\ actors s = upd (actors s) (self_of t) y ++ news).
  { exists x, []. split; [apply local_upd_refl|]. split; [constructor|exact Hid]. }
  assert (Hset : forall y, local_upd i x y ->
            exists y0 news, local_upd i x y0 /\ Forall is_new news /\
                            actors (set_actor s (self_of t) y) = upd (actors s) (self_of t) y0 ++ news).
  { intros y Hy. exists y, []. split; [exact Hy|]. split; [constructor|]. cbn [set_actor actors]. rewrite app_nil_r. reflexivity. }
  unfold exec1. rewrite Hg.
  destruct i; try exact Hsame.
  - (* ISupPause *) destruct remaining; exact Hsame.
  - (* IAct *)
    destruct a; try exact Hsame.
    + (* ASpawn *)
      destruct (a_state x) eqn:Est; try exact Hsame.
      all: destruct (negb (sp_prelaunch sp)); [exact Hsame|].
      all: destruct (alookup (reg s) (a_path x ++ [sp_name sp])); [exact Hsame|].
      all: cbn [fst].
      all: match goal with |- context[with_actor ?s1 _ _] =>
        assert (Hg1 : get s1 (self_of t) = Some x)
          by (unfold get; cbn [actors]; rewrite nth_error_app1 by (eapply nth_error_lt; exact Hg); exact Hg);
        rewrite (with_actor_some _ _ _ _ Hg1)
      end.
      all: eexists; eexists; split;
        [|split; [|cbn [set_actor actors]; rewrite upd_app_l by (eapply nth_error_lt; exact Hg); reflexivity]].
      all: try (lu_solve; fail).
      all: constructor; [do 4 eexists; reflexivity|constructor].
    + (* AStash *) destruct (a_cur x); [apply Hset; lu_solve|exact Hsame].
    + (* AUnstash *)
      destruct n as [n|].
      * destruct (Nat.eqb (length (a_stash x)) 0); [exact Hsame|]. cbn [fst]. apply Hset. lu_solve.
      * destruct (a_stash x); [exact Hsame|]. apply Hset. lu_solve.
    + (* ASub *) destruct (alookup (subscribers s ty) (a_path x)); exact Hsame.
    + (* AUnsub *) destruct (nlookup (subs s) ty); exact Hsame.
    + (* ABecome *) apply Hset. lu_solve.
    + (* AUnbecome *) apply Hset. lu_solve.
  - (* IBeh *)
    destruct (a_zombie x); [exact Hsame|]. destruct (a_parent x).
    + destruct (take_until_panic acts). exact Hsame.
    + destruct m; try exact Hsame. destruct (ref_eq s who (RObj (self_of t))); exact Hsame.
  - (* IPub *) destruct (subscribers s ty); exact Hsame.
  - (* IOnKilled *)
    destruct (a_zombie x); [exact Hsame|]. destruct (ref_eq s who (RObj (self_of t))); [exact Hsame|].
    cbn [fst]. apply Hset.
    repeat match goal with |- context[match ?e with _ => _ end] => destruct e end; lu_solve.
  - (* ICheckMark *)
    destruct (a_children x); [|exact Hsame]. destruct (a_state x) eqn:Est; try exact Hsame.
    cbn [fst]. apply Hset. lu_solve.
  - (* IRestartFinish *)
    destruct (a_hooks x) as [|[[h1 h2] h3] rest].
    + cbn [fst]. apply Hset. destruct (sp_provider (a_spec x)); lu_solve.
    + destruct (h2 && h3); cbn [fst]; apply Hset; destruct (sp_provider (a_spec x)); lu_solve.
  - (* IUnzombie *) apply Hset. lu_solve.
  - (* ISupApply *) destruct d; exact Hsame.
  - (* IEndHandler *) apply Hset. lu_solve.
Qed.

(** consequences for projections *)
Lemma keeps_exec1 {A} (pi : actor -> A) d s t h i :
  (forall x y, local_upd i x y -> pi y = pi x) -> (forall p g par sp, pi (new_actor p g par sp) = d) ->
  keeps pi d s (fst (exec1 s t h i)).
Proof.
  intros Hl Hn. destruct (get s (self_of t)) as [x|] eqn:E.
  - destruct (exec1_actors s t h i x E) as (y & news & Hy & Hnews & Ha).
    eapply keeps_upd_app; [exact E|exact Ha|apply Hl; exact Hy|].
    rewrite Forall_forall in *. intros n Hin. destruct (Hnews n Hin) as (p & g & par & sp & ->). apply Hn.
  - rewrite (exec1_none _ _ _ _ E). apply keeps_same_actors. reflexivity.
Qed.

Lemma keeps_but_exec1 {A} (pi : actor -> A) d s t h i :
  (forall p g par sp, pi (new_actor p g par sp) = d) ->
  keeps_but (self_of t) pi d s (fst (exec1 s t h i)).
Proof.
  intros Hn. destruct (get s (self_of t)) as [x|] eqn:E.
  - destruct (exec1_actors s t h i x E) as (y & news & Hy & Hnews & Ha).
    eapply keeps_but_upd_app; [eapply nth_error_lt; exact E|exact Ha|].
    rewrite Forall_forall in *. intros n Hin. destruct (Hnews n Hin) as (p & g & par & sp & ->). apply Hn.
  - rewrite (exec1_none _ _ _ _ E). apply keeps_keeps_but, keeps_same_actors. reflexivity.
Qed.

(** across a whole atomic run: projections that no local update touches are kept everywhere *)
Lemma keeps_run_atomic {A} (pi : actor -> A) d f s t :
  (forall x p, pi (upd_pend x p) = pi x) -> (forall x c, pi (set_cache x c) = pi x) ->
  (forall i x y, local_upd i x y -> pi y = pi x) -> (forall p g par sp, pi (new_actor p g par sp) = d) ->
  keeps pi d s (run_atomic f s t).
Proof.
  intros H1 H2 H3 H4. apply run_atomic_rel.
  - apply keeps_refl.
  - apply keeps_trans.
  - intros s0. apply keeps_same_actors. reflexivity.
  - intros s0 l. apply keeps_set_pend. exact H1.
  - intros s0 r. apply keeps_resolve. exact H2.
  - intros s0 h i. apply keeps_exec1; [apply H3|exact H4].
Qed.

Lemma keeps_sq_run_atomic f s t : keeps a_sq [] s (run_atomic f s t).
Proof. apply keeps_run_atomic; auto. intros i x y H. apply H. Qed.
Lemma keeps_uq_run_atomic f s t : keeps a_uq [] s (run_atomic f s t).
Proof. apply keeps_run_atomic; auto. intros i x y H. apply H. Qed.
Lemma keeps_paused_run_atomic f s t : keeps a_paused false s (run_atomic f s t).
Proof. apply keeps_run_atomic; auto. intros i x y H. apply H. Qed.

(** ... and everything except the cache of the records of other contexts *)
Lemma keeps_but_run_atomic {A} (pi : actor -> A) d f s t :
  (forall x c, pi (set_cache x c) = pi x) -> (forall p g par sp, pi (new_actor p g par sp) = d) ->
  keeps_but (self_of t) pi d s (run_atomic f s t).
Proof.
  intros H2 H4. apply run_atomic_rel.
  - apply keeps_but_refl.
  - apply keeps_but_trans.
  - intros s0. apply keeps_keeps_but, keeps_same_actors. reflexivity.
  - intros s0 l. destruct t as [a|i].
    + destruct (get s0 a) as [x|] eqn:E.
      * rewrite (set_pend_TA _ _ _ _ E). apply keeps_but_set_actor.
      * rewrite (set_pend_TA_none _ _ _ E). apply keeps_keeps_but, keeps_same_actors. reflexivity.
    + apply keeps_keeps_but, keeps_same_actors, set_pend_TX_actors.
  - intros s0 r. apply keeps_keeps_but, keeps_resolve. exact H2.
  - intros s0 h i. apply keeps_but_exec1. exact H4.
Qed.

(** * state-level components across an atomic run *)
Definition grows {A} (pi : state -> list A) (s s' : state) : Prop := exists l, pi s' = pi s ++ l.
Lemma grows_refl {A} (pi : state -> list A) s : grows pi s s.
Proof. exists []. rewrite app_nil_r. reflexivity. Qed.
Lemma grows_trans {A} (pi : state -> list A) a b c : grows pi a b -> grows pi b c -> grows pi a c.
Proof. intros [l1 H1] [l2 H2]. exists (l1 ++ l2). rewrite H2, H1, app_assoc. reflexivity. Qed.
Lemma grows_eq {A} (pi : state -> list A) s s' : pi s' = pi s -> grows pi s s'.
Proof. intros H. exists []. rewrite app_nil_r. exact H. Qed.

Lemma set_pend_olog s t l : olog (set_pend s t l) = olog s.
Proof. destruct t as [a|i]; unfold set_pend, with_actor; [destruct (get s a)|destruct (nth_error (exts s) i)]; reflexivity. Qed.
Lemma set_pend_ghost s t l : ghost (set_pend s t l) = ghost s.
Proof. destruct t as [a|i]; unfold set_pend, with_actor; [destruct (get s a)|destruct (nth_error (exts s) i)]; reflexivity. Qed.
Lemma set_pend_reg s t l : reg (set_pend s t l) = reg s.
Proof. destruct t as [a|i]; unfold set_pend, with_actor; [destruct (get s a)|destruct (nth_error (exts s) i)]; reflexivity. Qed.
Lemma set_pend_subs s t l : subs (set_pend s t l) = subs s.
Proof. destruct t as [a|i]; unfold set_pend, with_actor; [destruct (get s a)|destruct (nth_error (exts s) i)]; reflexivity. Qed.
Lemma set_pend_err_mono s t l : err s = true -> err (set_pend s t l) = true.
Proof. destruct t as [a|i]; unfold set_pend, with_actor; [destruct (get s a)|destruct (nth_error (exts s) i)]; cbn; auto. Qed.

Lemma resolve_olog s r : olog (snd (resolve s r)) = olog s.
Proof. destruct (resolve_shape s r) as [H|[H|(a & x & y & _ & _ & _ & _ & H & _)]]; rewrite H; reflexivity. Qed.
Lemma resolve_ghost s r : ghost (snd (resolve s r)) = ghost s.
Proof. destruct (resolve_shape s r) as [H|[H|(a & x & y & _ & _ & _ & _ & H & _)]]; rewrite H; reflexivity. Qed.
Lemma resolve_reg s r : reg (snd (resolve s r)) = reg s.
Proof. destruct (resolve_shape s r) as [H|[H|(a & x & y & _ & _ & _ & _ & H & _)]]; rewrite H; reflexivity. Qed.
Lemma resolve_exts s r : exts (snd (resolve s r)) = exts s.
Proof. destruct (resolve_shape s r) as [H|[H|(a & x & y & _ & _ & _ & _ & H & _)]]; rewrite H; reflexivity. Qed.
Lemma resolve_err_mono s r : err s = true -> err (snd (resolve s r)) = true.
Proof. destruct (resolve_shape s r) as [H|[H|(a & x & y & _ & _ & _ & _ & H & _)]]; rewrite H; cbn; auto. Qed.

(** exec1 on the state-level components *)
Definition is_guard_closed (o : obs) : bool := match o with OGuardClosed => true | _ => false end.

Lemma with_actor_fields s a f :
  olog (with_actor s a f) = olog s /\ ghost (with_actor s a f) = ghost s /\ reg (with_actor s a f) = reg s /\
  subs (with_actor s a f) = subs s /\ exts (with_actor s a f) = exts s /\ (err s = true -> err (with_actor s a f) = true).
Proof. unfold with_actor. destruct (get s a); cbn; auto 10. Qed.

Ltac st_solve :=
  cbn; split; [first [left; reflexivity | right; eexists; reflexivity]
              |split; [first [left; reflexivity | right; split; [reflexivity|eexists; split; [first [reflexivity|eassumption]|assumption]]]|auto]].

Lemma exec1_state s t h i :
  let s' := fst (exec1 s t h i) in
  (olog s' = olog s \/ exists o, olog s' = olog s ++ [o]) /\
  (ghost s' = ghost s \/ (ghost s' = ghost s ++ [OGuardClosed] /\ exists x, get s (self_of t) = Some x /\ a_parent x = None)) /\
  (err s = true -> err s' = true).
Proof.
  cbv zeta. unfold exec1. destruct (get s (self_of t)) as [x|] eqn:Hg; [|st_solve].
  destruct i; cbn [fst]; try (st_solve; fail).
  - destruct remaining; st_solve.
  - destruct a; cbn [fst]; try (st_solve; fail).
    + destruct (a_state x); cbn [fst]; try (st_solve; fail).
      all: destruct (negb (sp_prelaunch sp)); [st_solve|].
      all: destruct (alookup (reg s) (a_path x ++ [sp_name sp])); [st_solve|].
      all: cbn [fst]; cbv zeta.
      all: match goal with |- context[with_actor ?s1 ?a ?f] => destruct (with_actor_fields s1 a f) as (-> & -> & _ & _ & _ & He) end.
      all: st_solve.
    + destruct (a_cur x); st_solve.
    + destruct n as [n|]; [destruct (Nat.eqb (length (a_stash x)) 0)|destruct (a_stash x)]; st_solve.
    + destruct (alookup (subscribers s ty) (a_path x)); st_solve.
    + destruct (nlookup (subs s) ty); st_solve.
  - destruct (a_zombie x); [st_solve|]. destruct (a_parent x) eqn:Hp.
    + destruct (take_until_panic acts). st_solve.
    + destruct m; try (st_solve; fail). destruct (ref_eq s who (RObj (self_of t))); st_solve.
  - destruct (subscribers s ty); st_solve.
  - destruct (a_zombie x); [st_solve|]. destruct (ref_eq s who (RObj (self_of t))); st_solve.
  - destruct (a_children x); [|st_solve]. destruct (a_state x); st_solve.
  - destruct (a_hooks x) as [|[[h1 h2] h3] rest]; [st_solve|]. destruct (h2 && h3); st_solve.
  - destruct d; st_solve.
Qed.

Lemma grows_olog_run_atomic f s t : grows olog s (run_atomic f s t).
Proof.
  apply run_atomic_rel.
  - apply grows_refl.
  - apply grows_trans.
  - intros; apply grows_eq; reflexivity.
  - intros; apply grows_eq, set_pend_olog.
  - intros; apply grows_eq, resolve_olog.
  - intros s0 h i. destruct (exec1_state s0 t h i) as ([H|[o H]] & _ & _); [apply grows_eq; exact H|exists [o]; exact H].
Qed.

Lemma grows_ghost_run_atomic f s t : grows ghost s (run_atomic f s t).
Proof.
  apply run_atomic_rel.
  - apply grows_refl.
  - apply grows_trans.
  - intros; apply grows_eq; reflexivity.
  - intros; apply grows_eq, set_pend_ghost.
  - intros; apply grows_eq, resolve_ghost.
  - intros s0 h i. destruct (exec1_state s0 t h i) as (_ & [H|[H _]] & _); [apply grows_eq; exact H|exists [OGuardClosed]; exact H].
Qed.

Lemma err_mono_run_atomic f s t : err s = true -> err (run_atomic f s t) = true.
Proof.
  revert s. change (forall s, (fun a b => err a = true -> err b = true) s (run_atomic f s t)).
  apply run_atomic_rel; auto.
  - intros s0 l. apply set_pend_err_mono.
  - intros s0 r. apply resolve_err_mono.
  - intros s0 h i. apply (exec1_state s0 t h i).
Qed.

(** the ghost log is only written by the guard's own handler (and by [dispatch]) *)
Lemma ghost_run_atomic_nonroot f s t x p :
  get s (self_of t) = Some x -> a_parent x = Some p -> ghost (run_atomic f s t) = ghost s.
Proof.
  intros Hg Hp.
  enough (H : (fun a b => forall x, get a (self_of t) = Some x -> a_parent x = Some p ->
                 ghost b = ghost a /\ exists x', get b (self_of t) = Some x' /\ a_parent x' = Some p) s (run_atomic f s t))
    by (apply (H x Hg Hp)).
  apply run_atomic_rel; clear.
  - intros s x Hg Hp. eauto.
  - intros a b c H1 H2 x Hg Hp. destruct (H1 x Hg Hp) as (E1 & x' & Hg' & Hp').
    destruct (H2 x' Hg' Hp') as (E2 & x'' & Hg'' & Hp''). split; [congruence|eauto].
  - intros s x Hg Hp. split; [reflexivity|]. exists x. auto.
  - intros s l x Hg Hp. split; [apply set_pend_ghost|].
    pose proof (keeps_set_pend a_parent None s t l (fun _ _ => eq_refl) (self_of t)) as K.
    unfold proj_at in K. rewrite Hg in K. destruct (get (set_pend s t l) (self_of t)) as [x'|]; [|congruence]. exists x'. split; congruence.
  - intros s r x Hg Hp. split; [apply resolve_ghost|].
    pose proof (keeps_resolve a_parent None s r (fun _ _ => eq_refl) (self_of t)) as K.
    unfold proj_at in K. rewrite Hg in K. destruct (get (snd (resolve s r)) (self_of t)) as [x'|]; [|congruence]. exists x'. split; congruence.
  - intros s h i x Hg Hp. split.
    + destruct (exec1_state s t h i) as (_ & [H|(_ & x0 & Hg0 & Hp0)] & _); [exact H|congruence].
    + destruct (exec1_actors s t h i x Hg) as (y & news & Hy & _ & Ha). exists y. split.
      * unfold get. rewrite Ha. rewrite nth_error_app1 by (rewrite upd_length; eapply nth_error_lt; exact Hg).
        apply nth_upd_eq. eapply nth_error_lt; exact Hg.
      * rewrite (lu_parent _ _ _ Hy). exact Hp.
Qed.

(** * small computation lemmas for a handler thread *)
Lemma set_actor_twice s a y z : set_actor (set_actor s a y) a z = set_actor s a z.
Proof. unfold set_actor; cbn. rewrite upd_upd. reflexivity. Qed.

Lemma pend_of_TA s a y : get s a = Some y -> pend_of s (TA a) = a_pend y.
Proof. intros H. cbn [pend_of]. rewrite H. reflexivity. Qed.

Lemma ra_exec_TA f s a y i rest :
  get s a = Some y -> a_pend y = i :: rest -> yielding i = false -> is_enq i = false ->
  run_atomic (S f) s (TA a) =
  (let (s1, front) := exec1 (set_actor s a (upd_pend y rest)) (TA a) [] i in
   run_atomic f (set_pend s1 (TA a) (front ++ pend_of s1 (TA a))) (TA a)).
Proof.
  intros Hg Hp Hy He. rewrite (run_atomic_exec f s (TA a) i rest); auto.
  - cbv zeta. rewrite (set_pend_TA _ _ _ _ Hg). reflexivity.
  - rewrite (pend_of_TA _ _ _ Hg). exact Hp.
Qed.

Lemma ra_done_TA f s a y : get s a = Some y -> a_pend y = [] -> run_atomic (S f) s (TA a) = s.
Proof. intros Hg Hp. apply run_atomic_nil. rewrite (pend_of_TA _ _ _ Hg). exact Hp. Qed.

Lemma ra_yield_TA f s a y i rest : get s a = Some y -> a_pend y = i :: rest -> yielding i = true -> run_atomic (S f) s (TA a) = s.
Proof. intros Hg Hp Hy. eapply run_atomic_yield; [|exact Hy]. rewrite (pend_of_TA _ _ _ Hg). exact Hp. Qed.

Ltac ra_exec Hl := erewrite ra_exec_TA; [|apply get_set_same; exact Hl|reflexivity|reflexivity|reflexivity].
Ltac ra_next Hl :=
  cbn [app]; rewrite (pend_of_TA _ _ _ (get_set_same _ _ _ Hl)); cbn [a_pend upd_pend];
  rewrite (set_pend_TA _ _ _ _ (get_set_same _ _ _ Hl)), set_actor_twice.
Ltac ra_done Hl := erewrite ra_done_TA; [|apply get_set_same; exact Hl|reflexivity].
Ltac ra_yield Hl := erewrite ra_yield_TA; [|apply get_set_same; exact Hl|reflexivity|reflexivity].

Lemma step_handle s a x e :
  get s a = Some x -> a_cons x = CH e ->
  step s (EvHandle a) =
  (let x0 := set_mb x (a_sq x) (a_uq x) (a_paused x) (CBusy (mode_top x)) (a_cur x) in
   let (s1, ins) := dispatch (set_actor s a x0) a x0 e in
   run_atomic FUEL (set_pend s1 (TA a) ins) (TA a)).
Proof. intros Hg Hc. cbn [step]. rewrite Hg, Hc. reflexivity. Qed.
