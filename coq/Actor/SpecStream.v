(** History-level notions for C19 (event stream) over the ActorCore model (Actor/Core.v).  Definitions only;
    proofs in Actor/ProofsStream2.v .. ProofsStream5.v, statements in Properties/C19.v.

    What "published", "delivered" and "subscribed" mean in the model:
    - the subscription table is [subs s]; [subscribers s ty] is the map (path -> context) of one type.  Context
      [x] is *subscribed* to [ty] in [s] when some entry of that map names it ([sub_at]).
    - Publish is the atomic instruction [IPub ty payload]: it reads [subscribers s ty] (the snapshot, taken under the
      stream's read lock in the Go code) and leaves the range [IEnqAny false snapshot root (MEvent ty payload)] at the
      head of the publishing thread's instruction list; the thread then performs one queue insertion ([EvPush t k],
      [k] = which remaining target: Go map iteration order) and one [EvEnqDone t] per target.  "Published in state
      [s]" = the snapshot is the table of [s]; an event is "published after" a state when its [IPub] executes later.
    - a *delivery* is such a queue insertion: [stream_push s ev] says which thread inserts which event for which
      target reference, [lands s to] into whose mailbox the insertion goes. *)
From Coq Require Import List NArith ZArith Bool Permutation.
From Vivid Require Import Actor.Core Actor.CoreRun Actor.SpecSup Actor.SpecMail.
Import ListNotations.

(** * the table *)
(** context [x] has an entry under type [ty] *)
Definition sub_at (s : state) (ty : N) (x : aid) : Prop := In x (map snd (subscribers s ty)).
Definition sub_atb (s : state) (ty : N) (x : aid) : bool := existsb (Nat.eqb x) (map snd (subscribers s ty)).

(** A context is *registered* when the registry maps its path to it.  Registration is ActorOf's first effect, the
    removal is the atomic instruction [ICleanup] (end of the stop sequence), which unsubscribes in the same breath:
    "terminated" = not registered any more. *)

(** every entry of the table other than the guard's (context 0, the receiver of the ActorSystem-level API) names a
    registered context created under the entry's path *)
Definition entries_live (s : state) : Prop :=
  forall ty m p a, In (ty, m) (subs s) -> In (p, a) m -> a <> 0 ->
    exists x, get s a = Some x /\ a_path x = p /\ alookup (reg s) p = Some a.
Definition entries_liveb (s : state) : bool :=
  forallb (fun tm => forallb (fun pa => match snd pa with
                                        | O => true
                                        | a => match get s a with
                                               | Some x => path_eqb (a_path x) (fst pa) &&
                                                           match alookup (reg s) (fst pa) with Some b => Nat.eqb a b | None => false end
                                               | None => false
                                               end
                                        end) (snd tm)) (subs s).

(** [x] has no entry under [ty] at any event boundary of the run [evs] from [s] (first and last state included) *)
Fixpoint unsub_along (ty : N) (x : aid) (evs : list event) (s : state) : Prop :=
  ~ sub_at s ty x /\ match evs with [] => True | ev :: r => unsub_along ty x r (step s ev) end.
Fixpoint unsub_alongb (ty : N) (x : aid) (evs : list event) (s : state) : bool :=
  negb (sub_atb s ty x) && match evs with [] => true | ev :: r => unsub_alongb ty x r (step s ev) end.

(** * deliveries *)
(** the envelope Publish sends *)
Definition event_env (ty : N) (payload : list N) : envelope :=
  {| e_sys := false; e_sender := root_ref; e_msg := MEvent ty payload |}.

(** the mailbox an envelope addressed through [to] is inserted into in state [s] ([None]: no such actor - the
    envelope becomes a dead-letter report instead) *)
Definition lands (s : state) (to : rref) : option aid :=
  match fst (resolve s to) with MbActor a => Some a | MbRoot => Some 0 | MbDead => None end.

(** the fan-out insertion event [ev] performs in state [s]: (publishing thread, type, payload, target reference).
    Ranges carrying an [MEvent] are only ever created by [IPub] *)
Definition stream_push (s : state) (ev : event) : option (tid * N * list N * rref) :=
  match ev with
  | EvPush t k =>
      match pend_of s t with
      | IEnqAny _ tos _ (MEvent ty pl) :: _ =>
          match nth_error tos k with Some to => Some (t, ty, pl, to) | None => None end
      | _ => None
      end
  | _ => None
  end.

Definition tid_eqb (t1 t2 : tid) : bool :=
  match t1, t2 with TA a, TA b => Nat.eqb a b | TX i, TX j => Nat.eqb i j | _, _ => false end.

(** does [ev] (in [s]) insert an event of type [ty], published by thread [t], into [x]'s mailbox *)
Definition delivers (t : tid) (ty : N) (x : aid) (s : state) (ev : event) : bool :=
  match stream_push s ev with
  | Some (t', ty', _, to) =>
      tid_eqb t' t && N.eqb ty' ty && match lands s to with Some y => Nat.eqb y x | None => false end
  | None => false
  end.
(** number of such insertions along a run *)
Fixpoint deliveries (t : tid) (ty : N) (x : aid) (evs : list event) (s : state) : nat :=
  match evs with [] => 0 | ev :: r => b2n (delivers t ty x s ev) + deliveries t ty x r (step s ev) end.

(** ... by any thread: the events of type [ty] put into [x]'s mailbox by the stream along the run, as
    (publishing thread, payload) in insertion order *)
Definition delivered1 (ty : N) (x : aid) (s : state) (ev : event) : list (tid * list N) :=
  match stream_push s ev with
  | Some (t, ty', pl, to) =>
      if N.eqb ty' ty && match lands s to with Some y => Nat.eqb y x | None => false end then [(t, pl)] else []
  | None => []
  end.
Fixpoint delivered (ty : N) (x : aid) (evs : list event) (s : state) : list (tid * list N) :=
  match evs with [] => [] | ev :: r => delivered1 ty x s ev ++ delivered ty x r (step s ev) end.

(** * publishes in progress *)
Definition is_obj (x : aid) (r : rref) : bool := match r with RObj y => Nat.eqb y x | _ => false end.
(** how many times does the range [i] (if it is a fan-out of type [ty]) still name context [x] *)
Definition occ_instr (ty : N) (x : aid) (i : instr) : nat :=
  match i with
  | IEnqAny _ tos _ (MEvent ty' _) => if N.eqb ty' ty then length (filter (is_obj x) tos) else 0
  | _ => 0
  end.
Fixpoint occ_list (ty : N) (x : aid) (l : list instr) : nat :=
  match l with [] => 0 | i :: r => occ_instr ty x i + occ_list ty x r end.
(** snapshots of type [ty] naming [x] that thread [t] took and has not yet delivered to [x] *)
Definition inflight (t : tid) (ty : N) (x : aid) (s : state) : nat := occ_list ty x (pend_of s t).

(** * the queue insertions of one thread *)
Definition is_push_of (t : tid) (ev : event) : bool := match ev with EvPush t' _ => tid_eqb t' t | _ => false end.
Definition npush (t : tid) (evs : list event) : nat := length (filter (is_push_of t) evs).
(** (mailbox, envelope) of every queue insertion thread [t] performs along the run, in order *)
Fixpoint tpushes (t : tid) (evs : list event) (s : state) : list (aid * envelope) :=
  match evs with
  | [] => []
  | ev :: r =>
      (match ev with
       | EvPush t' k => if tid_eqb t' t then match push_of s t k with Some p => [p] | None => [] end else []
       | _ => []
       end) ++ tpushes t r (step s ev)
  end.

(** what is appended to [b]'s user queue along a run, with the inserting thread *)
Definition upushed1 (b : aid) (s : state) (ev : event) : list (tid * envelope) :=
  match ev with
  | EvPush t k => match push_of s t k with
                  | Some (tgt, e) => if Nat.eqb tgt b && negb (e_sys e) then [(t, e)] else []
                  | None => []
                  end
  | _ => []
  end.
Fixpoint upushed (b : aid) (evs : list event) (s : state) : list (tid * envelope) :=
  match evs with [] => [] | ev :: r => upushed1 b s ev ++ upushed b r (step s ev) end.

(** thread [t] has just taken the snapshot of [ty]: the range over the current subscribers is at the head of its list *)
Definition just_published (s : state) (t : tid) (ty : N) (pl : list N) (rest : list instr) : Prop :=
  subscribers s ty <> [] /\
  pend_of s t = IEnqAny false (map (fun p => RObj (snd p)) (subscribers s ty)) root_ref (MEvent ty pl) :: rest.
