(** Specification-level definitions for C08 (supervision) and the ActorCore part of C19 (event stream).
    Definitions only; proofs are in Actor/ProofsSup.v and Actor/ProofsStream.v. *)
From Coq Require Import List NArith ZArith Bool Permutation.
From Vivid Require Import Actor.Core Actor.CoreRun.
Import ListNotations.

(* ------------------------------------------------------------------ reachability *)

Definition init_with (scs : list (list action)) : state := set_exts (init_state (length scs)) 0 scs.
Definition reachable (s : state) : Prop := exists scs evs, s = run_events evs (init_with scs) /\ err s = false.

(** the thread that performs an event *)
Definition ev_thread (ev : event) : tid :=
  match ev with
  | EvSysPop a | EvLoadPaused a | EvUserPop a | EvHandle a => TA a
  | EvPush t _ | EvEnqDone t | EvPauseSt t | EvResume1 t | EvResume2 t => t
  | EvStart i => TX i
  end.

(* ------------------------------------------------------------------ primitive state updates *)

(** the identity of a context (what a reference to it denotes) and the handler's instruction list *)
Definition stable (x x' : actor) : Prop :=
  a_path x' = a_path x /\ a_gen x' = a_gen x /\ a_parent x' = a_parent x /\ a_spec x' = a_spec x /\ a_pend x' = a_pend x.

(** every step of the machine is a finite composition of these updates (ProofsSup.step_prims);
    [t0] = the thread performing the step: only its instruction list changes *)
Inductive prim (t0 : tid) (s : state) : state -> Prop :=
| p_err : prim t0 s (set_err s)
| p_actor a x x' : get s a = Some x -> stable x x' -> prim t0 s (set_actor s a x')
| p_pend p : prim t0 s (set_pend s t0 p)
| p_reg p : prim t0 s (set_reg s (aremove (reg s) p))
| p_sub_add ty a x : get s a = Some x -> alookup (subscribers s ty) (a_path x) = None ->
    prim t0 s (set_subs s (nset (subs s) ty (subscribers s ty ++ [(a_path x, a)])))
| p_sub_rm ty l p : nlookup (subs s) ty = Some l -> prim t0 s (set_subs s (nset (subs s) ty (aremove l p)))
| p_sub_all p : prim t0 s (set_subs s (unsub_all (subs s) p))
| p_obs o : prim t0 s (add_obs s o)
| p_ghost o : prim t0 s (add_ghost s o)
| p_spawn p g par sp exts' :
    map x_pend exts' = map x_pend (exts s) ->
    prim t0 s {| actors := actors s ++ [new_actor p g (Some par) sp]; reg := reg s ++ [(p, length (actors s))];
                 gens := aset (gens s) p (g + 1)%N; subs := subs s; exts := exts'; olog := olog s; ghost := ghost s; err := err s |}.

Inductive prims (t0 : tid) : state -> state -> Prop :=
| ps_refl s : prims t0 s s
| ps_step s1 s2 s3 : prims t0 s1 s2 -> prim t0 s2 s3 -> prims t0 s1 s3.

(* ------------------------------------------------------------------ C08: supervision *)

Definition sc_child (c : supctx) : rref := match c with SupCtx ch _ _ => ch end.
Definition sc_set_targets (c : supctx) (ts : list rref) : supctx := match c with SupCtx ch _ sub => SupCtx ch ts sub end.

(** HandleEnvelop's [c.envelop = envelop] *)
Definition set_cur (x : actor) (e : envelope) : actor := set_mb x (a_sq x) (a_uq x) (a_paused x) (a_cons x) (Some e).

(** the decision of supervisor [x] for one failure report and the decisions left for later reports:
    no strategy (0) = the system default, which always stops and consults nobody; otherwise the decision
    maker is consulted once = the head of the list is consumed (an exhausted script answers Stop) *)
Definition sup_decide (x : actor) : decision * list decision :=
  if N.eqb (sp_strategy (a_spec x)) 0 then (DStop, a_decisions x)
  else match a_decisions x with d :: r => (d, r) | [] => (DStop, []) end.

(** the targets of the strategy: one-for-all (2) = the supervisor's current children, otherwise the failing child *)
Definition sup_targets (x : actor) (c : supctx) : list rref :=
  if N.eqb (sp_strategy (a_spec x)) 2 then map (fun p => RObj (snd p)) (a_children x) else [sc_child c].

(** a message the supervisor must emit: (target, system?, message) *)
Notation send := (rref * bool * msg)%type.

Definition resume_sends (c1 : supctx) : list send := map (fun r => (r, true, MCmdResume)) (chain_targets c1).

(** what applyDecision must send for decision [d] when the targets were paused in the order [order] *)
Definition apply_sends (self : aid) (x : actor) (c : supctx) (d : decision) (order : list rref) : list send :=
  let c1 := sc_set_targets c order in
  match d with
  | DRestart => map (fun r => (r, true, MRestart false)) order
  | DGRestart => map (fun r => (r, false, MRestart true)) order ++ resume_sends c1
  | DStop => map (fun r => (r, true, MKill (RObj self) false)) order
  | DGStop => map (fun r => (r, false, MKill (RObj self) true)) order ++ resume_sends c1
  | DResume => resume_sends c1
  | DEscalate | DInvalid => [(rref_parent x, true, MSup (SupCtx (RObj self) [] (Some c1)))]
  end.

(** everything the supervision handler of supervisor [self] (record [x]) must emit for report [c], decision [d],
    targets paused in the order [order]: first the pauses, then the directive *)
Definition sup_sends (self : aid) (x : actor) (c : supctx) (d : decision) (order : list rref) : list send :=
  map (fun r => (r, true, MCmdPause)) order ++ apply_sends self x c d order.

(** the tells of an instruction list, in program order *)
Fixpoint instr_sends (l : list instr) : list send :=
  match l with
  | [] => []
  | IEnq sys to _ m :: r => (to, sys, m) :: instr_sends r
  | _ :: r => instr_sends r
  end.

Definition is_escalation (d : decision) : bool := match d with DEscalate | DInvalid => true | _ => false end.

(** removing the chosen element of a Go map range / slice walk *)
Definition remove_nth {A} (k : nat) (l : list A) : list A := firstn k l ++ skipn (S k) l.

(** [pick_order rem order]: [order] is a sequence of picks ([EvPush] choices) that exhausts [rem] *)
Inductive pick_order {A} : list A -> list A -> Prop :=
| pick_nil : pick_order [] []
| pick_cons rem k to order : nth_error rem k = Some to -> pick_order (remove_nth k rem) order -> pick_order rem (to :: order).

(** number of failure reports in an instruction list *)
Fixpoint count_failed (l : list instr) : nat :=
  match l with [] => 0 | IFailed :: r => S (count_failed r) | _ :: r => count_failed r end.

(** number of supervision reports among the tells of an instruction list *)
Fixpoint count_sup (l : list send) : nat :=
  match l with [] => 0 | (_, _, MSup _) :: r => S (count_sup r) | _ :: r => count_sup r end.

(** HandleEnvelop's dead-letter test *)
Definition dead_for (x : actor) (e : envelope) : bool :=
  let is_kill := match e_msg e with MKill _ _ => true | _ => false end in
  (match a_state x with Killed => true | Running => false | Killing => negb (e_sys e) && negb is_kill end) && negb (a_zombie x).

(** direct enqueues ([mailbox.Enqueue] on the own mailbox / the dead-letter report) of an instruction list *)
Fixpoint instr_direct (l : list instr) : list (aid * envelope) :=
  match l with
  | [] => []
  | IEnqMb b e :: r => (b, e) :: instr_direct r
  | _ :: r => instr_direct r
  end.

Definition is_stash_action (i : instr) : bool :=
  match i with IAct AStash | IAct (AUnstash _) | IAct (ATellSelf _ _) => true | _ => false end.

(* ------------------------------------------------------------------ C19: event-stream tables *)

(** no type twice, no subscriber path twice under a type *)
Definition subs_nodup (l : list (N * list (path * aid))) : Prop :=
  NoDup (map fst l) /\ forall ty m, In (ty, m) l -> NoDup (map fst m).

(** every entry (path, context) names a context of that path *)
Definition subs_wf (s : state) : Prop :=
  forall ty m p a, In (ty, m) (subs s) -> In (p, a) m -> exists x, get s a = Some x /\ a_path x = p.

(** the paths subscribed to a type *)
Definition sub_paths (s : state) (ty : N) : list path := map fst (subscribers s ty).

(** outcome of the restart hooks (OnRestarted, OnPrelaunch) of the next restart *)
Definition restart_hooks_ok (x : actor) : bool :=
  match a_hooks x with (_, r_ok, p_ok) :: _ => r_ok && p_ok | [] => true end.

(** actor-local data that supervision directives other than Restart must leave alone *)
Definition same_user_state (x x' : actor) : Prop :=
  a_state x' = a_state x /\ a_zombie x' = a_zombie x /\ a_restarting x' = a_restarting x /\ a_children x' = a_children x /\
  a_watchers x' = a_watchers x /\ a_stash x' = a_stash x /\ a_modes x' = a_modes x /\ a_inst x' = a_inst x /\
  a_decisions x' = a_decisions x /\ a_hooks x' = a_hooks x.

Definition same_queues (x x' : actor) : Prop := a_sq x' = a_sq x /\ a_uq x' = a_uq x /\ a_paused x' = a_paused x.

(** instructions by which user code moves envelopes into / out of the stash *)
Definition touches_stash (i : instr) : bool :=
  match i with IAct AStash | IAct (AUnstash _) => true | _ => false end.

(** [keeps_mail st s s']: every context keeps its two queues and its paused flag
    (and, when [st], its stash) *)
Definition keeps_mail (st : bool) (s s' : state) : Prop :=
  forall b y, get s b = Some y -> exists y', get s' b = Some y' /\
    a_sq y' = a_sq y /\ a_uq y' = a_uq y /\ a_paused y' = a_paused y /\
    (st = true -> a_stash y' = a_stash y).

(** the instructions that change the subscription table *)
Definition stream_instr (i : instr) : bool :=
  match i with IAct (ASub _) | IAct (AUnsub _) | IAct AUnsubAll | ICleanup => true | _ => false end.

(* ------------------------------------------------------------------ a deterministic scheduler (for the Examples only) *)

(** the event a thread in the middle of its instruction list waits for (choice 0 for map ranges) *)
Definition thread_event (s : state) (t : tid) : option event :=
  match pend_of s t with
  | IEnqR _ _ _ _ :: _ | IEnqMb _ _ :: _ | IEnqAny _ _ _ _ :: _ | ISupPause _ _ _ _ :: _ => Some (EvPush t 0)
  | IEnqDone :: _ => Some (EvEnqDone t)
  | IPauseSt :: _ => Some (EvPauseSt t)
  | IResume1 :: _ => Some (EvResume1 t)
  | IResume2 :: _ => Some (EvResume2 t)
  | IAct _ :: _ => match t with TX i => Some (EvStart i) | TA _ => None end
  | _ => None
  end.

Definition actor_event (s : state) (a : aid) : option event :=
  match thread_event s (TA a) with
  | Some ev => Some ev
  | None =>
      match get s a with
      | Some x =>
          match a_cons x with
          | CH _ => Some (EvHandle a)
          | C1 => Some (EvSysPop a)
          | C2 => Some (EvLoadPaused a)
          | C3 => Some (EvUserPop a)
          | C0 => match a_sq x, a_uq x, a_paused x with
                  | _ :: _, _, _ => Some (EvSysPop a)
                  | [], _ :: _, false => Some (EvSysPop a)
                  | _, _, _ => None
                  end
          | CBusy _ => None
          end
      | None => None
      end
  end.

Fixpoint first_some {A} (f : nat -> option A) (n k : nat) : option A :=
  match n with O => None | S n' => match f k with Some v => Some v | None => first_some f n' (S k) end end.

(** lowest actor index first, then the external callers *)
Definition next_event (s : state) : option event :=
  match first_some (actor_event s) (length (actors s)) 0 with
  | Some ev => Some ev
  | None => first_some (fun i => thread_event s (TX i)) (length (exts s)) 0
  end.

Fixpoint auto_events (fuel : nat) (s : state) : list event :=
  match fuel with
  | O => []
  | S f => match next_event s with Some ev => ev :: auto_events f (step s ev) | None => [] end
  end.

(* ------------------------------------------------------------------ witness: a failure report from a stopping actor *)

(** top-level actor [40]: OnLaunch panics, OnKill spawns a child (so the actor stays in state killing until
    that child has terminated).  Caller 0 spawns it, caller 1 kills it through a parsed reference.  In the
    schedule below the kill overtakes OnLaunch (ActorOf registers the path before it enqueues OnLaunch: the
    known finding C05-spawn-race-first-message), so OnLaunch is handled in state killing. *)
Definition wit_child : spec := Spec 1 [] [] [] 0 [] true [] false.
Definition wit_top : spec := Spec 40 [APanic] [ASpawn wit_child] [] 0 [] true [] false.
Definition wit_scripts : list (list action) := [[ASpawn wit_top]; [AKill (XPath [40%N]) false]].
Definition wit_events : list event :=
  [EvStart 0; EvStart 1; EvPush (TX 1) 0; EvEnqDone (TX 1); EvSysPop 1; EvHandle 1;
   EvPush (TA 1) 0; EvEnqDone (TA 1); EvPush (TA 1) 0; EvEnqDone (TA 1);
   EvPush (TX 0) 0; EvSysPop 1; EvHandle 1].
Definition wit_state : state := run_events wit_events (init_with wit_scripts).
